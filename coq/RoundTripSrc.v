(* The round trip on the translated source: core::initialize(), then core::ntt_pow_phi, then core::invntt_pow_invphi (each translated from the
   source on this run; the expression-template statement of the two transforms with the meaning fixed in ExprSem.v) return the polynomial
   they started from, for every build and limb type, any number of moduli, any degree 2^k (k = 4 .. log2 maxdeg), any canonical
   polynomial, ANY initial contents of the table arrays and of inv_ntt's scratch array -- for table rows (p, g, ik) in the range of the
   limb type with g^maxdeg = -1 and ik * maxdeg = 1 modulo p (what C06 proves of every row of the tables of the source). *)
From Coq Require Import ZArith List Lia Bool Arith.
From NTT Require Import Algebra Rev Tables FlatTable Inverse NTTInst NTTClosed CxxSem MemSem LoopSpec ScalarOps PrepSpec GenInitEq PowPhiSrc InvPowPhiSrc.
From NTT.gen Require Import GenLoop.
Import ListNotations.
Local Open Scope Z_scope.

Section RT.
Variables (bits : Z) (Kmax : nat) (P roots invk : list Z).
Variable fwd : Z -> Z -> list Z -> list Z -> list Z -> list Z -> list Z -> option (list Z).
Variable invf : nat -> Z -> Z -> list Z -> list Z -> list Z -> list Z -> list Z -> list Z -> list Z -> option (list Z * list Z).
Variables (k0 nm fuel : nat).
Notation n := (2 ^ S k0)%nat.
Hypothesis Hbits : 0 < bits.
Hypothesis Hk : (4 <= S k0 <= 30)%nat.
Hypothesis HkK : (S k0 <= Kmax)%nat.
Hypothesis Hrows : forall c, (c < nm)%nat -> Hrow bits (nth c P 0) /\ (nth c roots 0 ^ (2 ^ Z.of_nat Kmax)) mod nth c P 0 = nth c P 0 - 1 /\ (nth c invk 0 * 2 ^ Z.of_nat Kmax) mod nth c P 0 = 1.
Variables ph sph ipd ipi sipi om iom : list Z.
Hypothesis Lph : length ph = (nm * n)%nat.
Hypothesis Lsph : length sph = (nm * n)%nat.
Hypothesis Lipd : length ipd = nm.
Hypothesis Lipi : length ipi = (nm * n)%nat.
Hypothesis Lsipi : length sipi = (nm * n)%nat.
Hypothesis Lom : length om = (nm * (n * 2))%nat.
Hypothesis Liom : length iom = (nm * (n * 2))%nat.
Definition rowsof (data : list Z) (c : nat) : list Z := firstn n (skipn (c * n) data).
Definition canon (data : list Z) : Prop := length data = (nm * n)%nat /\ forall c, (c < nm)%nat -> Forall (fun v => 0 <= v < nth c P 0) (rowsof data c).
Hypothesis Hfwd : forall data, canon data -> fwd (Z.of_nat n) (Z.of_nat nm) data ph sph om P = Some (concat (map (fun c => ntt_fwd_s bits (nth c P 0) (nth c roots 0) Kmax k0 (rowsof data c)) (seq 0 nm))).
Hypothesis Hinv : forall data y0, canon data -> length y0 = S n -> exists yf, invf fuel (Z.of_nat n) (Z.of_nat nm) data iom ipd ipi sipi P y0 =
  Some (concat (map (fun c => ntt_inv_s bits (nth c P 0) (nth c roots 0) (nth c invk 0) Kmax k0 (rowsof data c)) (seq 0 nm)), yf).

Lemma facts c : (c < nm)%nat -> 1 < nth c P 0 /\ 4 * nth c P 0 <= 2 ^ bits.
Proof.
  intros Hc. destruct (Hrows c Hc) as (HR & _ & _). pose proof (Hrow_facts bits _ HR) as (A & B & _). destruct HR as [W3 [W1 W2]].
  assert (2 ^ 1 <= 2 ^ (bits - 3)) by (apply Z.pow_le_mono_r; lia). change (2 ^ 1) with 2 in *. lia.
Qed.
Lemma canon_row data c : canon data -> (c < nm)%nat -> NTTClosed.canonical (nth c P 0) k0 (rowsof data c).
Proof.
  intros [L C] Hc. assert (Ln : length (rowsof data c) = n) by (unfold rowsof; rewrite firstn_length, skipn_length; nia).
  split; [exact Ln|]. intros i Hi. apply (Forall_nth_R (fun v => 0 <= v < nth c P 0)); [apply C; exact Hc | rewrite Ln; exact Hi].
Qed.

Theorem round_trip data y0 : canon data -> length y0 = S n ->
  exists data1 yf, fwd (Z.of_nat n) (Z.of_nat nm) data ph sph om P = Some data1 /\ invf fuel (Z.of_nat n) (Z.of_nat nm) data1 iom ipd ipi sipi P y0 = Some (data, yf).
Proof.
  intros Hc Hy. set (f := fun c => ntt_fwd_s bits (nth c P 0) (nth c roots 0) Kmax k0 (rowsof data c)).
  assert (Fl : forall c, (c < nm)%nat -> f c = ntt_fwd bits (nth c P 0) (nth c roots 0) Kmax k0 (rowsof data c) /\ NTTClosed.canonical (nth c P 0) k0 (f c)).
  { intros c Hcm. destruct (facts c Hcm) as [P1 P4]. destruct (Hrows c Hcm) as (_ & Hg & Hik). destruct (canon_row data c Hc Hcm) as [Ln Cn].
    assert (E : f c = ntt_fwd bits (nth c P 0) (nth c roots 0) Kmax k0 (rowsof data c)) by (apply (closed_struct_fwd bits _ _ Kmax k0 Hbits P1 P4 Hg HkK); exact Ln).
    split; [exact E|]. rewrite E. apply (closed_fwd_canonical bits _ _ Kmax k0 Hbits P1 P4 Hg HkK). exact Ln. }
  (* rows of any length: make f total with length n *)
  set (f' := fun c => if (c <? nm)%nat then f c else repeat 0 n).
  assert (Fl' : forall c, length (f' c) = n).
  { intros c. unfold f'. destruct (Nat.ltb_spec c nm) as [Hcm|]; [destruct (Fl c Hcm) as [_ [L _]]; exact L | apply repeat_length]. }
  assert (Ef : map f (seq 0 nm) = map f' (seq 0 nm)).
  { apply map_ext_in. intros c Hin. apply in_seq in Hin. unfold f'. replace (c <? nm)%nat with true by (symmetry; apply Nat.ltb_lt; lia). reflexivity. }
  exists (concat (map f (seq 0 nm))).
  assert (C1 : canon (concat (map f (seq 0 nm)))).
  { rewrite Ef. split; [apply concat_rows_length; exact Fl'|]. intros c Hcm. unfold rowsof. change (firstn n (skipn (c * n) (concat (map f' (seq 0 nm))))) with (slice (concat (map f' (seq 0 nm))) (c * n) n).
    rewrite (slice_concat_rows f' n nm c Fl' Hcm). unfold f'. replace (c <? nm)%nat with true by (symmetry; apply Nat.ltb_lt; lia).
    destruct (Fl c Hcm) as [_ [L C]]. apply Forall_forall. intros v Hin. destruct (In_nth _ _ 0 Hin) as (j & Hj & <-). apply C. rewrite <- L. exact Hj. }
  destruct (Hinv _ y0 C1 Hy) as (yf & E). exists yf. split; [apply Hfwd; exact Hc|]. rewrite E. f_equal. f_equal.
  destruct Hc as [Ld Cd]. transitivity (concat (map (fun c => slice data (c * n) n) (seq 0 nm))); [|apply (concat_rows_id n nm data Ld)]. f_equal. apply map_ext_in. intros c Hin. apply in_seq in Hin. assert (Hcm : (c < nm)%nat) by lia.
  unfold rowsof at 1. change (firstn n (skipn (c * n) (concat (map f (seq 0 nm))))) with (slice (concat (map f (seq 0 nm))) (c * n) n). rewrite Ef.
  rewrite (slice_concat_rows f' n nm c Fl' Hcm). unfold f'. replace (c <? nm)%nat with true by (symmetry; apply Nat.ltb_lt; lia).
  destruct (facts c Hcm) as [P1 P4]. destruct (Hrows c Hcm) as (_ & Hg & Hik). destruct (Fl c Hcm) as [E1 C2].
  rewrite (closed_struct_inv bits _ _ _ Kmax k0 Hbits P1 P4 Hg HkK _ C2). rewrite E1.
  apply (closed_inv_fwd bits _ _ _ Kmax k0 Hbits P1 P4 Hg Hik HkK). apply canon_row; [split; assumption | exact Hcm].
Qed.

(* canonical outputs, the other round trip, additivity *)
Lemma rows_total (f : nat -> list Z) : (forall c, (c < nm)%nat -> length (f c) = n) ->
  length (concat (map f (seq 0 nm))) = (nm * n)%nat /\ forall c, (c < nm)%nat -> rowsof (concat (map f (seq 0 nm))) c = f c.
Proof.
  intros Hf. set (f' := fun c => if (c <? nm)%nat then f c else repeat 0 n).
  assert (Fl' : forall c, length (f' c) = n) by (intros c; unfold f'; destruct (Nat.ltb_spec c nm) as [Hcm|]; [apply Hf; exact Hcm | apply repeat_length]).
  assert (Ef : map f (seq 0 nm) = map f' (seq 0 nm)) by (apply map_ext_in; intros c Hin; apply in_seq in Hin; unfold f'; replace (c <? nm)%nat with true by (symmetry; apply Nat.ltb_lt; lia); reflexivity).
  rewrite Ef. split; [apply concat_rows_length; exact Fl'|]. intros c Hcm. unfold rowsof. change (firstn n (skipn (c * n) ?l)) with (slice l (c * n) n).
  rewrite (slice_concat_rows f' n nm c Fl' Hcm). unfold f'. replace (c <? nm)%nat with true by (symmetry; apply Nat.ltb_lt; lia). reflexivity.
Qed.
Lemma canon_of_rows (f : nat -> list Z) : (forall c, (c < nm)%nat -> NTTClosed.canonical (nth c P 0) k0 (f c)) -> canon (concat (map f (seq 0 nm))).
Proof.
  intros Hf. destruct (rows_total f (fun c Hc => proj1 (Hf c Hc))) as [L R]. split; [exact L|]. intros c Hcm. rewrite (R c Hcm).
  destruct (Hf c Hcm) as [Lc C]. apply Forall_forall. intros v Hin. destruct (In_nth _ _ 0 Hin) as (j & Hj & <-). apply C. rewrite <- Lc. exact Hj.
Qed.
Lemma fwd_row data c : canon data -> (c < nm)%nat -> ntt_fwd_s bits (nth c P 0) (nth c roots 0) Kmax k0 (rowsof data c) = ntt_fwd bits (nth c P 0) (nth c roots 0) Kmax k0 (rowsof data c) /\
  NTTClosed.canonical (nth c P 0) k0 (ntt_fwd_s bits (nth c P 0) (nth c roots 0) Kmax k0 (rowsof data c)).
Proof.
  intros Hc Hcm. destruct (facts c Hcm) as [P1 P4]. destruct (Hrows c Hcm) as (_ & Hg & Hik). destruct (canon_row data c Hc Hcm) as [Ln Cn].
  assert (E : ntt_fwd_s bits (nth c P 0) (nth c roots 0) Kmax k0 (rowsof data c) = ntt_fwd bits (nth c P 0) (nth c roots 0) Kmax k0 (rowsof data c)) by (apply (closed_struct_fwd bits _ _ Kmax k0 Hbits P1 P4 Hg HkK); exact Ln).
  split; [exact E|]. rewrite E. apply (closed_fwd_canonical bits _ _ Kmax k0 Hbits P1 P4 Hg HkK). exact Ln.
Qed.
Lemma inv_row data c : canon data -> (c < nm)%nat -> ntt_inv_s bits (nth c P 0) (nth c roots 0) (nth c invk 0) Kmax k0 (rowsof data c) = ntt_inv bits (nth c P 0) (nth c roots 0) (nth c invk 0) Kmax k0 (rowsof data c) /\
  NTTClosed.canonical (nth c P 0) k0 (ntt_inv_s bits (nth c P 0) (nth c roots 0) (nth c invk 0) Kmax k0 (rowsof data c)).
Proof.
  intros Hc Hcm. destruct (facts c Hcm) as [P1 P4]. destruct (Hrows c Hcm) as (_ & Hg & Hik). pose proof (canon_row data c Hc Hcm) as Cn.
  split; [apply (closed_struct_inv bits _ _ _ Kmax k0 Hbits P1 P4 Hg HkK _ Cn)|].
  rewrite ntt_inv_s_eq. split; [apply tab_length|]. intros i Hi. rewrite tab_nth by exact Hi. apply Z.mod_pos_bound. lia.
Qed.
Theorem fwd_canonical data : canon data -> exists d1, fwd (Z.of_nat n) (Z.of_nat nm) data ph sph om P = Some d1 /\ canon d1.
Proof. intros Hc. eexists. split; [apply Hfwd; exact Hc|]. apply canon_of_rows. intros c Hcm. apply (fwd_row data c Hc Hcm). Qed.
Theorem inv_canonical data y0 : canon data -> length y0 = S n -> exists d1 yf, invf fuel (Z.of_nat n) (Z.of_nat nm) data iom ipd ipi sipi P y0 = Some (d1, yf) /\ canon d1.
Proof. intros Hc Hy. destruct (Hinv data y0 Hc Hy) as (yf & E). eexists. exists yf. split; [exact E|]. apply canon_of_rows. intros c Hcm. apply (inv_row data c Hc Hcm). Qed.
Theorem round_trip_if data y0 : canon data -> length y0 = S n ->
  exists d1 yf, invf fuel (Z.of_nat n) (Z.of_nat nm) data iom ipd ipi sipi P y0 = Some (d1, yf) /\ fwd (Z.of_nat n) (Z.of_nat nm) d1 ph sph om P = Some data.
Proof.
  intros Hc Hy. destruct (Hinv data y0 Hc Hy) as (yf & E). eexists. exists yf. split; [exact E|].
  set (f := fun c => ntt_inv_s bits (nth c P 0) (nth c roots 0) (nth c invk 0) Kmax k0 (rowsof data c)).
  assert (C1 : canon (concat (map f (seq 0 nm)))) by (apply canon_of_rows; intros c Hcm; apply (inv_row data c Hc Hcm)).
  rewrite (Hfwd _ C1). f_equal. destruct (rows_total f (fun c Hcm => proj1 (proj2 (inv_row data c Hc Hcm)))) as [_ R].
  destruct Hc as [Ld Cd]. transitivity (concat (map (fun c => slice data (c * n) n) (seq 0 nm))); [|apply (concat_rows_id n nm data Ld)]. f_equal. apply map_ext_in. intros c Hin. apply in_seq in Hin. assert (Hcm : (c < nm)%nat) by lia.
  rewrite (R c Hcm). unfold f. destruct (facts c Hcm) as [P1 P4]. destruct (Hrows c Hcm) as (_ & Hg & Hik).
  destruct (inv_row data c (conj Ld Cd) Hcm) as [E1 C2]. rewrite (closed_struct_fwd bits _ _ Kmax k0 Hbits P1 P4 Hg HkK) by (apply C2). rewrite E1.
  apply (closed_fwd_inv bits _ _ _ Kmax k0 Hbits P1 P4 Hg Hik HkK). apply canon_row; [split; assumption | exact Hcm].
Qed.
Theorem fwd_additive a b s : canon a -> canon b -> canon s ->
  (forall c j, (c < nm)%nat -> (j < n)%nat -> nth j (rowsof s c) 0 = (nth j (rowsof a c) 0 + nth j (rowsof b c) 0) mod nth c P 0) ->
  exists A B S', fwd (Z.of_nat n) (Z.of_nat nm) a ph sph om P = Some A /\ fwd (Z.of_nat n) (Z.of_nat nm) b ph sph om P = Some B /\ fwd (Z.of_nat n) (Z.of_nat nm) s ph sph om P = Some S' /\
    forall c j, (c < nm)%nat -> (j < n)%nat -> nth j (rowsof S' c) 0 = (nth j (rowsof A c) 0 + nth j (rowsof B c) 0) mod nth c P 0.
Proof.
  intros Ha Hb Hs Hsum. do 3 eexists. split; [apply Hfwd; exact Ha|]. split; [apply Hfwd; exact Hb|]. split; [apply Hfwd; exact Hs|].
  intros c j Hcm Hj.
  destruct (rows_total _ (fun c Hc => proj1 (proj2 (fwd_row a c Ha Hc)))) as [_ Ra]. destruct (rows_total _ (fun c Hc => proj1 (proj2 (fwd_row b c Hb Hc)))) as [_ Rb]. destruct (rows_total _ (fun c Hc => proj1 (proj2 (fwd_row s c Hs Hc)))) as [_ Rs].
  rewrite (Ra c Hcm), (Rb c Hcm), (Rs c Hcm). rewrite (proj1 (fwd_row a c Ha Hcm)), (proj1 (fwd_row b c Hb Hcm)), (proj1 (fwd_row s c Hs Hcm)).
  destruct (facts c Hcm) as [P1 P4]. destruct (Hrows c Hcm) as (_ & Hg & Hik).
  apply (closed_fwd_linear bits _ _ Kmax k0 Hbits P1 P4 Hg HkK (rowsof a c) (rowsof b c) (rowsof s c)); try (apply canon_row; assumption); [intros t Ht; apply Hsum; assumption | exact Hj].
Qed.

(* the product: transform both factors, multiply row by row (ntt_mul: what the expression c = a * b stores, C07/C03), transform back *)
Definition mulrows (A B : list Z) : list Z := concat (map (fun c => ntt_mul (nth c P 0) k0 (rowsof A c) (rowsof B c)) (seq 0 nm)).
Theorem product a b y0 : canon a -> canon b -> length y0 = S n ->
  exists A B yf, fwd (Z.of_nat n) (Z.of_nat nm) a ph sph om P = Some A /\ fwd (Z.of_nat n) (Z.of_nat nm) b ph sph om P = Some B /\
    invf fuel (Z.of_nat n) (Z.of_nat nm) (mulrows A B) iom ipd ipi sipi P y0 = Some (concat (map (fun c => nega_spec (nth c P 0) k0 (rowsof a c) (rowsof b c)) (seq 0 nm)), yf).
Proof.
  intros Ha Hb Hy.
  set (fa := fun c => ntt_fwd_s bits (nth c P 0) (nth c roots 0) Kmax k0 (rowsof a c)). set (fb := fun c => ntt_fwd_s bits (nth c P 0) (nth c roots 0) Kmax k0 (rowsof b c)).
  assert (Fl : forall (x : list Z) c, canon x -> (c < nm)%nat -> let f := ntt_fwd_s bits (nth c P 0) (nth c roots 0) Kmax k0 (rowsof x c) in
     f = ntt_fwd bits (nth c P 0) (nth c roots 0) Kmax k0 (rowsof x c) /\ length f = n).
  { intros x c Hx Hcm. cbv zeta. destruct (facts c Hcm) as [P1 P4]. destruct (Hrows c Hcm) as (_ & Hg & Hik). destruct (canon_row x c Hx Hcm) as [Ln Cn].
    assert (E : ntt_fwd_s bits (nth c P 0) (nth c roots 0) Kmax k0 (rowsof x c) = ntt_fwd bits (nth c P 0) (nth c roots 0) Kmax k0 (rowsof x c)) by (apply (closed_struct_fwd bits _ _ Kmax k0 Hbits P1 P4 Hg HkK); exact Ln).
    split; [exact E|]. rewrite E. destruct (closed_fwd_canonical bits _ _ Kmax k0 Hbits P1 P4 Hg HkK _ Ln) as [L _]. exact L. }
  set (tot := fun (f : nat -> list Z) c => if (c <? nm)%nat then f c else repeat 0 n).
  assert (TL : forall (x : list Z), canon x -> forall c, length (tot (fun c => ntt_fwd_s bits (nth c P 0) (nth c roots 0) Kmax k0 (rowsof x c)) c) = n).
  { intros x Hx c. unfold tot. destruct (Nat.ltb_spec c nm) as [Hcm|]; [exact (proj2 (Fl x c Hx Hcm)) | apply repeat_length]. }
  assert (TE : forall (f : nat -> list Z), map f (seq 0 nm) = map (tot f) (seq 0 nm)).
  { intros f. apply map_ext_in. intros c Hin. apply in_seq in Hin. unfold tot. replace (c <? nm)%nat with true by (symmetry; apply Nat.ltb_lt; lia). reflexivity. }
  assert (RW : forall (x : list Z), canon x -> forall c, (c < nm)%nat -> rowsof (concat (map (fun c => ntt_fwd_s bits (nth c P 0) (nth c roots 0) Kmax k0 (rowsof x c)) (seq 0 nm))) c = ntt_fwd_s bits (nth c P 0) (nth c roots 0) Kmax k0 (rowsof x c)).
  { intros x Hx c Hcm. rewrite TE. unfold rowsof at 1. change (firstn n (skipn (c * n) ?l)) with (slice l (c * n) n).
    rewrite (slice_concat_rows _ n nm c (TL x Hx) Hcm). unfold tot. replace (c <? nm)%nat with true by (symmetry; apply Nat.ltb_lt; lia). reflexivity. }
  exists (concat (map fa (seq 0 nm))), (concat (map fb (seq 0 nm))).
  set (m := fun c => ntt_mul (nth c P 0) k0 (fa c) (fb c)).
  assert (ML : forall c, length (m c) = n) by (intros c; unfold m, ntt_mul, pointwise; apply tab_length).
  assert (EM : mulrows (concat (map fa (seq 0 nm))) (concat (map fb (seq 0 nm))) = concat (map m (seq 0 nm))).
  { unfold mulrows. f_equal. apply map_ext_in. intros c Hin. apply in_seq in Hin. unfold m, fa, fb. rewrite (RW a Ha c ltac:(lia)), (RW b Hb c ltac:(lia)). reflexivity. }
  assert (CM : canon (concat (map m (seq 0 nm)))).
  { split; [apply concat_rows_length; exact ML|]. intros c Hcm. unfold rowsof. change (firstn n (skipn (c * n) ?l)) with (slice l (c * n) n).
    rewrite (slice_concat_rows m n nm c ML Hcm). destruct (facts c Hcm) as [P1 _]. unfold m, ntt_mul, pointwise, tab. apply Forall_forall. intros v Hin. apply in_map_iff in Hin. destruct Hin as (j & <- & _).
    apply Z.mod_pos_bound. lia. }
  destruct (Hinv _ y0 CM Hy) as (yf & E). exists yf. split; [apply Hfwd; exact Ha|]. split; [apply Hfwd; exact Hb|]. rewrite EM, E. f_equal. f_equal. f_equal.
  apply map_ext_in. intros c Hin. apply in_seq in Hin. assert (Hcm : (c < nm)%nat) by lia.
  unfold rowsof at 1. change (firstn n (skipn (c * n) ?l)) with (slice l (c * n) n). rewrite (slice_concat_rows m n nm c ML Hcm).
  destruct (facts c Hcm) as [P1 P4]. destruct (Hrows c Hcm) as (_ & Hg & Hik).
  assert (Cm : NTTClosed.canonical (nth c P 0) k0 (m c)).
  { split; [apply ML|]. intros i Hi. unfold m, ntt_mul, pointwise. rewrite tab_nth by exact Hi. apply Z.mod_pos_bound. lia. }
  rewrite (closed_struct_inv bits _ _ _ Kmax k0 Hbits P1 P4 Hg HkK _ Cm). unfold m, fa, fb.
  rewrite (proj1 (Fl a c Ha Hcm)), (proj1 (Fl b c Hb Hcm)).
  apply (closed_product bits _ _ _ Kmax k0 Hbits P1 P4 Hg Hik HkK); [destruct (canon_row a c Ha Hcm) as [L _]; exact L | destruct (canon_row b c Hb Hcm) as [L _]; exact L].
Qed.
End RT.

(* everything C01/C02 say of the transform pair, for a forward and an inverse function on whole polynomials *)
Definition transforms_ok (P : list Z) (k0 nm : nat) (fwd : list Z -> option (list Z)) (invf : list Z -> list Z -> option (list Z * list Z)) : Prop :=
  let n := (2 ^ S k0)%nat in let can := canon P k0 nm in let row := rowsof k0 in
  (forall d, can d -> exists d1, fwd d = Some d1 /\ can d1) /\
  (forall d y0, can d -> length y0 = S n -> exists d1 yf, invf d y0 = Some (d1, yf) /\ can d1) /\
  (forall d y0, can d -> length y0 = S n -> exists d1 yf, fwd d = Some d1 /\ invf d1 y0 = Some (d, yf)) /\
  (forall d y0, can d -> length y0 = S n -> exists d1 yf, invf d y0 = Some (d1, yf) /\ fwd d1 = Some d) /\
  (forall a b s, can a -> can b -> can s -> (forall c j, (c < nm)%nat -> (j < n)%nat -> nth j (row s c) 0 = (nth j (row a c) 0 + nth j (row b c) 0) mod nth c P 0) ->
     exists A B S', fwd a = Some A /\ fwd b = Some B /\ fwd s = Some S' /\ forall c j, (c < nm)%nat -> (j < n)%nat -> nth j (row S' c) 0 = (nth j (row A c) 0 + nth j (row B c) 0) mod nth c P 0) /\
  (forall a b y0, can a -> can b -> length y0 = S n -> exists A B yf, fwd a = Some A /\ fwd b = Some B /\
     invf (mulrows P k0 nm A B) y0 = Some (concat (map (fun c => nega_spec (nth c P 0) k0 (row a c) (row b c)) (seq 0 nm)), yf)).

Theorem all_ok bits Kmax P roots invk (fwd : Z -> Z -> list Z -> list Z -> list Z -> list Z -> list Z -> option (list Z))
  (invf : nat -> Z -> Z -> list Z -> list Z -> list Z -> list Z -> list Z -> list Z -> list Z -> option (list Z * list Z)) k0 nm fuel ph sph ipd ipi sipi om iom : 0 < bits -> (4 <= S k0 <= 30)%nat -> (S k0 <= Kmax)%nat ->
  length ph = (nm * 2 ^ S k0)%nat -> length sph = (nm * 2 ^ S k0)%nat -> length ipd = nm -> length ipi = (nm * 2 ^ S k0)%nat -> length sipi = (nm * 2 ^ S k0)%nat -> length om = (nm * (2 ^ S k0 * 2))%nat -> length iom = (nm * (2 ^ S k0 * 2))%nat ->
  (forall c, (c < nm)%nat -> Hrow bits (nth c P 0) /\ (nth c roots 0 ^ (2 ^ Z.of_nat Kmax)) mod nth c P 0 = nth c P 0 - 1 /\ (nth c invk 0 * 2 ^ Z.of_nat Kmax) mod nth c P 0 = 1) ->
  (forall data, canon P k0 nm data -> fwd (Z.of_nat (2 ^ S k0)) (Z.of_nat nm) data ph sph om P = Some (concat (map (fun c => ntt_fwd_s bits (nth c P 0) (nth c roots 0) Kmax k0 (rowsof k0 data c)) (seq 0 nm)))) ->
  (forall data y0, canon P k0 nm data -> length y0 = S (2 ^ S k0) -> exists yf, invf fuel (Z.of_nat (2 ^ S k0)) (Z.of_nat nm) data iom ipd ipi sipi P y0 =
     Some (concat (map (fun c => ntt_inv_s bits (nth c P 0) (nth c roots 0) (nth c invk 0) Kmax k0 (rowsof k0 data c)) (seq 0 nm)), yf)) ->
  transforms_ok P k0 nm (fun d => fwd (Z.of_nat (2 ^ S k0)) (Z.of_nat nm) d ph sph om P) (fun d y0 => invf fuel (Z.of_nat (2 ^ S k0)) (Z.of_nat nm) d iom ipd ipi sipi P y0).
Proof.
  intros Hb Hk HkK M1 M2 M3 M4 M5 M6 M7 HR Hf Hi. unfold transforms_ok. cbv zeta.
  split; [intros d Hd; eapply fwd_canonical; eassumption|].
  split; [intros d y0 Hd Hy; eapply inv_canonical; eassumption|].
  split; [intros d y0 Hd Hy; eapply round_trip; eassumption|].
  split; [intros d y0 Hd Hy; eapply round_trip_if; eassumption|].
  split; [intros a b s Ha Hb' Hs Hsum; eapply fwd_additive; eassumption | intros a b y0 Ha Hb' Hy; eapply product; eassumption].
Qed.

Definition rt (fwd : list Z -> option (list Z)) (invf : list Z -> option (list Z * list Z)) (data : list Z) : Prop :=
  exists d1 yf, fwd data = Some d1 /\ invf d1 = Some (data, yf).

Lemma h64 p pn : Hrow64 p pn -> Hrow 64 p.
Proof. intros (A & _ & _). unfold Hrow. change (2 ^ (64 - 3)) with (2 ^ 61). change (2 ^ (64 - 2)) with (2 ^ 62). lia. Qed.

Section Inst.
Variables (P roots invk : list Z) (k0 nm fuel : nat) (ph0 sph0 ipd0 ipi0 sipi0 om0 iom0 data y0 : list Z).
Notation n := (2 ^ S k0)%nat.
Hypothesis Hk4 : (4 <= S k0)%nat.
Hypothesis Hf : (S k0 < fuel)%nat.
Hypothesis Hnm : Z.of_nat nm < 2 ^ 28.
Hypothesis L1 : length ph0 = (nm * n)%nat.
Hypothesis L2 : length sph0 = (nm * n)%nat.
Hypothesis L3 : length ipd0 = nm.
Hypothesis L4 : length ipi0 = (nm * n)%nat.
Hypothesis L5 : length sipi0 = (nm * n)%nat.
Hypothesis L6 : length om0 = (nm * (n * 2))%nat.
Hypothesis L7 : length iom0 = (nm * (n * 2))%nat.
Hypothesis Hd : canon P k0 nm data.
Hypothesis Hy : length y0 = S n.

Ltac finish_rt bits Kmax HRg ph sph ipd ipi sipi om iom Lens Rows FW IV :=
  apply (round_trip bits Kmax P roots invk _ _ k0 nm fuel ltac:(lia) ltac:(lia) ltac:(lia) HRg ph sph ipd ipi sipi om iom); try assumption;
  [ intros d Hc; destruct Hc as [Ld Cd]; apply FW; try assumption; try lia
  | intros d yy Hc Hyy; destruct Hc as [Ld Cd]; apply IV; try assumption; try lia ].

Theorem source_round_trip_u32 : (S k0 <= 15)%nat ->
  (forall c, (c < nm)%nat -> rowok32 P roots invk c /\ (nth c roots 0 ^ (2 ^ Z.of_nat 15)) mod nth c P 0 = nth c P 0 - 1 /\ (nth c invk 0 * 2 ^ Z.of_nat 15) mod nth c P 0 = 1) ->
  exists ph sph ipd ipi sipi om iom, gen_initialize_u32 fuel (Z.of_nat n) om0 iom0 ph0 sph0 ipd0 ipi0 sipi0 (Z.of_nat nm) roots P invk = Some (ph, sph, ipd, ipi, sipi, om, iom) /\
    rt (fun d => gen_ntt_pow_phi_serial_u32 (Z.of_nat n) (Z.of_nat nm) d ph sph om P) (fun d => gen_invntt_pow_invphi_serial_u32 fuel (Z.of_nat n) (Z.of_nat nm) d iom ipd ipi sipi P y0) data /\
    rt (fun d => gen_ntt_pow_phi_sse_u32 (Z.of_nat n) (Z.of_nat nm) d ph sph om P) (fun d => gen_invntt_pow_invphi_sse_u32 fuel (Z.of_nat n) (Z.of_nat nm) d iom ipd ipi sipi P y0) data /\
    rt (fun d => gen_ntt_pow_phi_avx2_u32 (Z.of_nat n) (Z.of_nat nm) d ph sph om P) (fun d => gen_invntt_pow_invphi_avx2_u32 fuel (Z.of_nat n) (Z.of_nat nm) d iom ipd ipi sipi P y0) data.
Proof.
  intros HkK HR.
  destruct (source_initialize_u32 P roots invk k0 nm fuel ph0 sph0 ipd0 ipi0 sipi0 om0 iom0 HkK Hf Hnm (fun c Hc => proj1 (HR c Hc)) L1 L2 L3 L4 L5 L6 L7)
    as (ph & sph & ipd & ipi & sipi & om & iom & E & (M1 & M2 & M3 & M4 & M5 & M6 & M7) & Rows).
  exists ph, sph, ipd, ipi, sipi, om, iom. split; [exact E|].
  assert (HRow : forall c, (c < nm)%nat -> Hrow 32 (nth c P 0)) by (intros c Hc; destruct (HR c Hc) as ((A & _) & _); exact A).
  assert (HRg : forall c, (c < nm)%nat -> Hrow 32 (nth c P 0) /\ (nth c roots 0 ^ (2 ^ Z.of_nat 15)) mod nth c P 0 = nth c P 0 - 1 /\ (nth c invk 0 * 2 ^ Z.of_nat 15) mod nth c P 0 = 1)
    by (intros c Hc; destruct (HR c Hc) as ((A & _) & B & C); auto).
  assert (TF : forall c, (c < nm)%nat -> let p := nth c P 0 in let g := nth c roots 0 in let shp := map (fun v => (v * 2 ^ 32) / p) in
     (forall i, (i < n)%nat -> nth (c * n + i) ph 0 = nth i (phis p g 15 k0) 0 /\ nth (c * n + i) sph 0 = nth i (shp (phis p g 15 k0)) 0) /\
     (forall i, (i < n - 1)%nat -> nth (c * (n * 2) + i) om 0 = nth i (flat p (S k0) (omega p g 15 k0)) 0 /\ nth (c * (n * 2) + n + i) om 0 = nth i (shp (flat p (S k0) (omega p g 15 k0))) 0)).
  { intros c Hc. destruct (Rows c Hc) as (_ & R1 & R2). cbv zeta in R1, R2 |- *. split; intros i Hi; [destruct (R1 i Hi) as (A & B & _ & _) | destruct (R2 i Hi) as (A & B & _ & _)]; split; assumption. }
  assert (TI : forall c, (c < nm)%nat -> let p := nth c P 0 in let g := nth c roots 0 in let ik := nth c invk 0 in let shp := map (fun v => (v * 2 ^ 32) / p) in
     (forall i, (i < n)%nat -> nth (c * n + i) ipi 0 = nth i (cs p g ik 15 k0) 0 /\ nth (c * n + i) sipi 0 = nth i (shp (cs p g ik 15 k0)) 0) /\
     (forall i, (i < n - 1)%nat -> nth (c * (n * 2) + i) iom 0 = nth i (flat p (S k0) (invomega p g 15 k0)) 0 /\ nth (c * (n * 2) + n + i) iom 0 = nth i (shp (flat p (S k0) (invomega p g 15 k0))) 0)).
  { intros c Hc. destruct (Rows c Hc) as (_ & R1 & R2). cbv zeta in R1, R2 |- *. split; intros i Hi; [destruct (R1 i Hi) as (_ & _ & A & B) | destruct (R2 i Hi) as (_ & _ & A & B)]; split; assumption. }
  assert (FW : forall d, length d = (nm * n)%nat -> (forall c, (c < nm)%nat -> Forall (fun v => 0 <= v < nth c P 0) (firstn n (skipn (c * n) d))) -> _)
    by (intros d Ld Cd; exact (proj1 (proj2 (source_ntt_pow_phi_pointwise 15 k0 nm P roots d ph sph om ltac:(lia) Hnm Ld ltac:(lia) ltac:(lia) ltac:(lia) Cd)) HRow TF)).
  assert (IV : forall d yy, length d = (nm * n)%nat -> (forall c, (c < nm)%nat -> Forall (fun v => 0 <= v < nth c P 0) (firstn n (skipn (c * n) d))) -> length yy = S n -> _)
    by (intros d yy Ld Cd Hyy; exact (proj1 (proj2 (source_invntt_pow_invphi 15 k0 nm fuel P roots invk d iom ipd ipi sipi yy ltac:(lia) HkK Hnm Hf Ld ltac:(lia) ltac:(lia) ltac:(lia) ltac:(lia) Hyy Cd (fun c Hc => proj1 (proj2 (HRg c Hc))))) HRow TI)).
  cbv zeta in FW, IV.
  repeat split.
  - apply (round_trip 32 15 P roots invk _ _ k0 nm fuel ltac:(lia) ltac:(lia) HkK HRg ph sph ipd ipi sipi om iom); try assumption.
    + intros d [Ld Cd]. exact (proj1 (FW d Ld Cd)).
    + intros d yy [Ld Cd] Hyy. exact (proj1 (IV d yy Ld Cd Hyy)).
  - apply (round_trip 32 15 P roots invk _ _ k0 nm fuel ltac:(lia) ltac:(lia) HkK HRg ph sph ipd ipi sipi om iom); try assumption.
    + intros d [Ld Cd]. exact (proj1 (proj2 (FW d Ld Cd))).
    + intros d yy [Ld Cd] Hyy. exact (proj1 (proj2 (IV d yy Ld Cd Hyy))).
  - apply (round_trip 32 15 P roots invk _ _ k0 nm fuel ltac:(lia) ltac:(lia) HkK HRg ph sph ipd ipi sipi om iom); try assumption.
    + intros d [Ld Cd]. exact (proj2 (proj2 (FW d Ld Cd))).
    + intros d yy [Ld Cd] Hyy. exact (proj2 (proj2 (IV d yy Ld Cd Hyy))).
Qed.
Theorem source_round_trip_u16 : (S k0 <= 9)%nat ->
  (forall c, (c < nm)%nat -> rowok16 P roots invk c /\ (nth c roots 0 ^ (2 ^ Z.of_nat 9)) mod nth c P 0 = nth c P 0 - 1 /\ (nth c invk 0 * 2 ^ Z.of_nat 9) mod nth c P 0 = 1) ->
  exists ph sph ipd ipi sipi om iom, gen_initialize_u16 fuel (Z.of_nat n) om0 iom0 ph0 sph0 ipd0 ipi0 sipi0 (Z.of_nat nm) roots P invk = Some (ph, sph, ipd, ipi, sipi, om, iom) /\
    rt (fun d => gen_ntt_pow_phi_serial_u16 (Z.of_nat n) (Z.of_nat nm) d ph sph om P) (fun d => gen_invntt_pow_invphi_serial_u16 fuel (Z.of_nat n) (Z.of_nat nm) d iom ipd ipi sipi P y0) data /\
    rt (fun d => gen_ntt_pow_phi_sse_u16 (Z.of_nat n) (Z.of_nat nm) d ph sph om P) (fun d => gen_invntt_pow_invphi_sse_u16 fuel (Z.of_nat n) (Z.of_nat nm) d iom ipd ipi sipi P y0) data /\
    rt (fun d => gen_ntt_pow_phi_avx2_u16 (Z.of_nat n) (Z.of_nat nm) d ph sph om P) (fun d => gen_invntt_pow_invphi_avx2_u16 fuel (Z.of_nat n) (Z.of_nat nm) d iom ipd ipi sipi P y0) data.
Proof.
  intros HkK HR.
  destruct (source_initialize_u16 P roots invk k0 nm fuel ph0 sph0 ipd0 ipi0 sipi0 om0 iom0 HkK Hf Hnm (fun c Hc => proj1 (HR c Hc)) L1 L2 L3 L4 L5 L6 L7)
    as (ph & sph & ipd & ipi & sipi & om & iom & E & (M1 & M2 & M3 & M4 & M5 & M6 & M7) & Rows).
  exists ph, sph, ipd, ipi, sipi, om, iom. split; [exact E|].
  assert (HRow : forall c, (c < nm)%nat -> Hrow 16 (nth c P 0)) by (intros c Hc; destruct (HR c Hc) as ((A & _) & _); exact A).
  assert (HRg : forall c, (c < nm)%nat -> Hrow 16 (nth c P 0) /\ (nth c roots 0 ^ (2 ^ Z.of_nat 9)) mod nth c P 0 = nth c P 0 - 1 /\ (nth c invk 0 * 2 ^ Z.of_nat 9) mod nth c P 0 = 1)
    by (intros c Hc; destruct (HR c Hc) as ((A & _) & B & C); auto).
  assert (TF : forall c, (c < nm)%nat -> let p := nth c P 0 in let g := nth c roots 0 in let shp := map (fun v => (v * 2 ^ 16) / p) in
     (forall i, (i < n)%nat -> nth (c * n + i) ph 0 = nth i (phis p g 9 k0) 0 /\ nth (c * n + i) sph 0 = nth i (shp (phis p g 9 k0)) 0) /\
     (forall i, (i < n - 1)%nat -> nth (c * (n * 2) + i) om 0 = nth i (flat p (S k0) (omega p g 9 k0)) 0 /\ nth (c * (n * 2) + n + i) om 0 = nth i (shp (flat p (S k0) (omega p g 9 k0))) 0)).
  { intros c Hc. destruct (Rows c Hc) as (_ & R1 & R2). cbv zeta in R1, R2 |- *. split; intros i Hi; [destruct (R1 i Hi) as (A & B & _ & _) | destruct (R2 i Hi) as (A & B & _ & _)]; split; assumption. }
  assert (TI : forall c, (c < nm)%nat -> let p := nth c P 0 in let g := nth c roots 0 in let ik := nth c invk 0 in let shp := map (fun v => (v * 2 ^ 16) / p) in
     (forall i, (i < n)%nat -> nth (c * n + i) ipi 0 = nth i (cs p g ik 9 k0) 0 /\ nth (c * n + i) sipi 0 = nth i (shp (cs p g ik 9 k0)) 0) /\
     (forall i, (i < n - 1)%nat -> nth (c * (n * 2) + i) iom 0 = nth i (flat p (S k0) (invomega p g 9 k0)) 0 /\ nth (c * (n * 2) + n + i) iom 0 = nth i (shp (flat p (S k0) (invomega p g 9 k0))) 0)).
  { intros c Hc. destruct (Rows c Hc) as (_ & R1 & R2). cbv zeta in R1, R2 |- *. split; intros i Hi; [destruct (R1 i Hi) as (_ & _ & A & B) | destruct (R2 i Hi) as (_ & _ & A & B)]; split; assumption. }
  assert (FW : forall d, length d = (nm * n)%nat -> (forall c, (c < nm)%nat -> Forall (fun v => 0 <= v < nth c P 0) (firstn n (skipn (c * n) d))) -> _)
    by (intros d Ld Cd; exact (proj1 (source_ntt_pow_phi_pointwise 9 k0 nm P roots d ph sph om ltac:(lia) Hnm Ld ltac:(lia) ltac:(lia) ltac:(lia) Cd) HRow TF)).
  assert (IV : forall d yy, length d = (nm * n)%nat -> (forall c, (c < nm)%nat -> Forall (fun v => 0 <= v < nth c P 0) (firstn n (skipn (c * n) d))) -> length yy = S n -> _)
    by (intros d yy Ld Cd Hyy; exact (proj1 (source_invntt_pow_invphi 9 k0 nm fuel P roots invk d iom ipd ipi sipi yy ltac:(lia) HkK Hnm Hf Ld ltac:(lia) ltac:(lia) ltac:(lia) ltac:(lia) Hyy Cd (fun c Hc => proj1 (proj2 (HRg c Hc)))) HRow TI)).
  cbv zeta in FW, IV.
  repeat split.
  - apply (round_trip 16 9 P roots invk _ _ k0 nm fuel ltac:(lia) ltac:(lia) HkK HRg ph sph ipd ipi sipi om iom); try assumption.
    + intros d [Ld Cd]. exact (proj1 (FW d Ld Cd)).
    + intros d yy [Ld Cd] Hyy. exact (proj1 (IV d yy Ld Cd Hyy)).
  - apply (round_trip 16 9 P roots invk _ _ k0 nm fuel ltac:(lia) ltac:(lia) HkK HRg ph sph ipd ipi sipi om iom); try assumption.
    + intros d [Ld Cd]. exact (proj1 (proj2 (FW d Ld Cd))).
    + intros d yy [Ld Cd] Hyy. exact (proj1 (proj2 (IV d yy Ld Cd Hyy))).
  - apply (round_trip 16 9 P roots invk _ _ k0 nm fuel ltac:(lia) ltac:(lia) HkK HRg ph sph ipd ipi sipi om iom); try assumption.
    + intros d [Ld Cd]. exact (proj2 (proj2 (FW d Ld Cd))).
    + intros d yy [Ld Cd] Hyy. exact (proj2 (proj2 (IV d yy Ld Cd Hyy))).
Qed.

Variable Pn : list Z.
Theorem source_round_trip_u64 : (S k0 <= 20)%nat ->
  (forall c, (c < nm)%nat -> rowok64 P Pn roots invk c /\ (nth c roots 0 ^ (2 ^ Z.of_nat 20)) mod nth c P 0 = nth c P 0 - 1 /\ (nth c invk 0 * 2 ^ Z.of_nat 20) mod nth c P 0 = 1) ->
  exists ph sph ipd ipi sipi om iom, gen_initialize_u64 fuel (Z.of_nat n) om0 iom0 ph0 sph0 ipd0 ipi0 sipi0 (Z.of_nat nm) roots P Pn invk = Some (ph, sph, ipd, ipi, sipi, om, iom) /\
    rt (fun d => gen_ntt_pow_phi_serial_u64 (Z.of_nat n) (Z.of_nat nm) d ph sph om P) (fun d => gen_invntt_pow_invphi_serial_u64 fuel (Z.of_nat n) (Z.of_nat nm) d iom ipd ipi sipi P y0) data /\
    rt (fun d => gen_ntt_pow_phi_sse_u64 (Z.of_nat n) (Z.of_nat nm) d ph sph om P) (fun d => gen_invntt_pow_invphi_sse_u64 fuel (Z.of_nat n) (Z.of_nat nm) d iom ipd ipi sipi P y0) data /\
    rt (fun d => gen_ntt_pow_phi_avx2_u64 (Z.of_nat n) (Z.of_nat nm) d ph sph om P) (fun d => gen_invntt_pow_invphi_avx2_u64 fuel (Z.of_nat n) (Z.of_nat nm) d iom ipd ipi sipi P y0) data.
Proof.
  intros HkK HR.
  destruct (source_initialize_u64 P Pn roots invk k0 nm fuel ph0 sph0 ipd0 ipi0 sipi0 om0 iom0 HkK Hf Hnm (fun c Hc => proj1 (HR c Hc)) L1 L2 L3 L4 L5 L6 L7)
    as (ph & sph & ipd & ipi & sipi & om & iom & E & (M1 & M2 & M3 & M4 & M5 & M6 & M7) & Rows).
  exists ph, sph, ipd, ipi, sipi, om, iom. split; [exact E|].
  assert (HRow : forall c, (c < nm)%nat -> Hrow 64 (nth c P 0)) by (intros c Hc; destruct (HR c Hc) as ((A & _) & _); exact (h64 _ _ A)).
  assert (HRg : forall c, (c < nm)%nat -> Hrow 64 (nth c P 0) /\ (nth c roots 0 ^ (2 ^ Z.of_nat 20)) mod nth c P 0 = nth c P 0 - 1 /\ (nth c invk 0 * 2 ^ Z.of_nat 20) mod nth c P 0 = 1)
    by (intros c Hc; destruct (HR c Hc) as ((A & _) & B & C); pose proof (h64 _ _ A); auto).
  assert (TF : forall c, (c < nm)%nat -> let p := nth c P 0 in let g := nth c roots 0 in let shp := map (fun v => (v * 2 ^ 64) / p) in
     (forall i, (i < n)%nat -> nth (c * n + i) ph 0 = nth i (phis p g 20 k0) 0 /\ nth (c * n + i) sph 0 = nth i (shp (phis p g 20 k0)) 0) /\
     (forall i, (i < n - 1)%nat -> nth (c * (n * 2) + i) om 0 = nth i (flat p (S k0) (omega p g 20 k0)) 0 /\ nth (c * (n * 2) + n + i) om 0 = nth i (shp (flat p (S k0) (omega p g 20 k0))) 0)).
  { intros c Hc. destruct (Rows c Hc) as (_ & R1 & R2). cbv zeta in R1, R2 |- *. split; intros i Hi; [destruct (R1 i Hi) as (A & B & _ & _) | destruct (R2 i Hi) as (A & B & _ & _)]; split; assumption. }
  assert (TI : forall c, (c < nm)%nat -> let p := nth c P 0 in let g := nth c roots 0 in let ik := nth c invk 0 in let shp := map (fun v => (v * 2 ^ 64) / p) in
     (forall i, (i < n)%nat -> nth (c * n + i) ipi 0 = nth i (cs p g ik 20 k0) 0 /\ nth (c * n + i) sipi 0 = nth i (shp (cs p g ik 20 k0)) 0) /\
     (forall i, (i < n - 1)%nat -> nth (c * (n * 2) + i) iom 0 = nth i (flat p (S k0) (invomega p g 20 k0)) 0 /\ nth (c * (n * 2) + n + i) iom 0 = nth i (shp (flat p (S k0) (invomega p g 20 k0))) 0)).
  { intros c Hc. destruct (Rows c Hc) as (_ & R1 & R2). cbv zeta in R1, R2 |- *. split; intros i Hi; [destruct (R1 i Hi) as (_ & _ & A & B) | destruct (R2 i Hi) as (_ & _ & A & B)]; split; assumption. }
  assert (FW : forall d, length d = (nm * n)%nat -> (forall c, (c < nm)%nat -> Forall (fun v => 0 <= v < nth c P 0) (firstn n (skipn (c * n) d))) -> _)
    by (intros d Ld Cd; exact (proj2 (proj2 (source_ntt_pow_phi_pointwise 20 k0 nm P roots d ph sph om ltac:(lia) Hnm Ld ltac:(lia) ltac:(lia) ltac:(lia) Cd)) HRow TF)).
  assert (IV : forall d yy, length d = (nm * n)%nat -> (forall c, (c < nm)%nat -> Forall (fun v => 0 <= v < nth c P 0) (firstn n (skipn (c * n) d))) -> length yy = S n -> _)
    by (intros d yy Ld Cd Hyy; exact (proj2 (proj2 (source_invntt_pow_invphi 20 k0 nm fuel P roots invk d iom ipd ipi sipi yy ltac:(lia) HkK Hnm Hf Ld ltac:(lia) ltac:(lia) ltac:(lia) ltac:(lia) Hyy Cd (fun c Hc => proj1 (proj2 (HRg c Hc))))) HRow TI)).
  cbv zeta in FW, IV.
  repeat split.
  - apply (round_trip 64 20 P roots invk _ _ k0 nm fuel ltac:(lia) ltac:(lia) HkK HRg ph sph ipd ipi sipi om iom); try assumption.
    + intros d [Ld Cd]. exact (proj1 (FW d Ld Cd)).
    + intros d yy [Ld Cd] Hyy. exact (proj1 (IV d yy Ld Cd Hyy)).
  - apply (round_trip 64 20 P roots invk _ _ k0 nm fuel ltac:(lia) ltac:(lia) HkK HRg ph sph ipd ipi sipi om iom); try assumption.
    + intros d [Ld Cd]. exact (proj1 (proj2 (FW d Ld Cd))).
    + intros d yy [Ld Cd] Hyy. exact (proj1 (proj2 (IV d yy Ld Cd Hyy))).
  - apply (round_trip 64 20 P roots invk _ _ k0 nm fuel ltac:(lia) ltac:(lia) HkK HRg ph sph ipd ipi sipi om iom); try assumption.
    + intros d [Ld Cd]. exact (proj2 (proj2 (FW d Ld Cd))).
    + intros d yy [Ld Cd] Hyy. exact (proj2 (proj2 (IV d yy Ld Cd Hyy))).
Qed.
End Inst.

Definition pr (P : list Z) (k0 nm : nat) (fwd : list Z -> option (list Z)) (invf : list Z -> option (list Z * list Z)) (a b : list Z) : Prop :=
  exists A B yf, fwd a = Some A /\ fwd b = Some B /\
    invf (mulrows P k0 nm A B) = Some (concat (map (fun c => nega_spec (nth c P 0) k0 (rowsof k0 a c) (rowsof k0 b c)) (seq 0 nm)), yf).

Section InstP.
Variables (P roots invk : list Z) (k0 nm fuel : nat) (ph0 sph0 ipd0 ipi0 sipi0 om0 iom0 a b y0 : list Z).
Notation n := (2 ^ S k0)%nat.
Hypothesis Hk4 : (4 <= S k0)%nat.
Hypothesis Hf : (S k0 < fuel)%nat.
Hypothesis Hnm : Z.of_nat nm < 2 ^ 28.
Hypothesis L1 : length ph0 = (nm * n)%nat.
Hypothesis L2 : length sph0 = (nm * n)%nat.
Hypothesis L3 : length ipd0 = nm.
Hypothesis L4 : length ipi0 = (nm * n)%nat.
Hypothesis L5 : length sipi0 = (nm * n)%nat.
Hypothesis L6 : length om0 = (nm * (n * 2))%nat.
Hypothesis L7 : length iom0 = (nm * (n * 2))%nat.
Hypothesis Ha : canon P k0 nm a.
Hypothesis Hb : canon P k0 nm b.
Hypothesis Hy : length y0 = S n.

Theorem source_product_u32 : (S k0 <= 15)%nat ->
  (forall c, (c < nm)%nat -> rowok32 P roots invk c /\ (nth c roots 0 ^ (2 ^ Z.of_nat 15)) mod nth c P 0 = nth c P 0 - 1 /\ (nth c invk 0 * 2 ^ Z.of_nat 15) mod nth c P 0 = 1) ->
  exists ph sph ipd ipi sipi om iom, gen_initialize_u32 fuel (Z.of_nat n) om0 iom0 ph0 sph0 ipd0 ipi0 sipi0 (Z.of_nat nm) roots P invk = Some (ph, sph, ipd, ipi, sipi, om, iom) /\
    pr P k0 nm (fun d => gen_ntt_pow_phi_serial_u32 (Z.of_nat n) (Z.of_nat nm) d ph sph om P) (fun d => gen_invntt_pow_invphi_serial_u32 fuel (Z.of_nat n) (Z.of_nat nm) d iom ipd ipi sipi P y0) a b /\
    pr P k0 nm (fun d => gen_ntt_pow_phi_sse_u32 (Z.of_nat n) (Z.of_nat nm) d ph sph om P) (fun d => gen_invntt_pow_invphi_sse_u32 fuel (Z.of_nat n) (Z.of_nat nm) d iom ipd ipi sipi P y0) a b /\
    pr P k0 nm (fun d => gen_ntt_pow_phi_avx2_u32 (Z.of_nat n) (Z.of_nat nm) d ph sph om P) (fun d => gen_invntt_pow_invphi_avx2_u32 fuel (Z.of_nat n) (Z.of_nat nm) d iom ipd ipi sipi P y0) a b.
Proof.
  intros HkK HR.
  destruct (source_initialize_u32 P roots invk k0 nm fuel ph0 sph0 ipd0 ipi0 sipi0 om0 iom0 HkK Hf Hnm (fun c Hc => proj1 (HR c Hc)) L1 L2 L3 L4 L5 L6 L7)
    as (ph & sph & ipd & ipi & sipi & om & iom & E & (M1 & M2 & M3 & M4 & M5 & M6 & M7) & Rows).
  exists ph, sph, ipd, ipi, sipi, om, iom. split; [exact E|].
  assert (HRow : forall c, (c < nm)%nat -> Hrow 32 (nth c P 0)) by (intros c Hc; destruct (HR c Hc) as ((A & _) & _); exact A).
  assert (HRg : forall c, (c < nm)%nat -> Hrow 32 (nth c P 0) /\ (nth c roots 0 ^ (2 ^ Z.of_nat 15)) mod nth c P 0 = nth c P 0 - 1 /\ (nth c invk 0 * 2 ^ Z.of_nat 15) mod nth c P 0 = 1)
    by (intros c Hc; destruct (HR c Hc) as ((A & _) & B & C); auto).
  assert (TF : forall c, (c < nm)%nat -> let p := nth c P 0 in let g := nth c roots 0 in let shp := map (fun v => (v * 2 ^ 32) / p) in
     (forall i, (i < n)%nat -> nth (c * n + i) ph 0 = nth i (phis p g 15 k0) 0 /\ nth (c * n + i) sph 0 = nth i (shp (phis p g 15 k0)) 0) /\
     (forall i, (i < n - 1)%nat -> nth (c * (n * 2) + i) om 0 = nth i (flat p (S k0) (omega p g 15 k0)) 0 /\ nth (c * (n * 2) + n + i) om 0 = nth i (shp (flat p (S k0) (omega p g 15 k0))) 0)).
  { intros c Hc. destruct (Rows c Hc) as (_ & R1 & R2). cbv zeta in R1, R2 |- *. split; intros i Hi; [destruct (R1 i Hi) as (A & B & _ & _) | destruct (R2 i Hi) as (A & B & _ & _)]; split; assumption. }
  assert (TI : forall c, (c < nm)%nat -> let p := nth c P 0 in let g := nth c roots 0 in let ik := nth c invk 0 in let shp := map (fun v => (v * 2 ^ 32) / p) in
     (forall i, (i < n)%nat -> nth (c * n + i) ipi 0 = nth i (cs p g ik 15 k0) 0 /\ nth (c * n + i) sipi 0 = nth i (shp (cs p g ik 15 k0)) 0) /\
     (forall i, (i < n - 1)%nat -> nth (c * (n * 2) + i) iom 0 = nth i (flat p (S k0) (invomega p g 15 k0)) 0 /\ nth (c * (n * 2) + n + i) iom 0 = nth i (shp (flat p (S k0) (invomega p g 15 k0))) 0)).
  { intros c Hc. destruct (Rows c Hc) as (_ & R1 & R2). cbv zeta in R1, R2 |- *. split; intros i Hi; [destruct (R1 i Hi) as (_ & _ & A & B) | destruct (R2 i Hi) as (_ & _ & A & B)]; split; assumption. }
  assert (FW : forall d, length d = (nm * n)%nat -> (forall c, (c < nm)%nat -> Forall (fun v => 0 <= v < nth c P 0) (firstn n (skipn (c * n) d))) -> _)
    by (intros d Ld Cd; exact (proj1 (proj2 (source_ntt_pow_phi_pointwise 15 k0 nm P roots d ph sph om ltac:(lia) Hnm Ld ltac:(lia) ltac:(lia) ltac:(lia) Cd)) HRow TF)).
  assert (IV : forall d yy, length d = (nm * n)%nat -> (forall c, (c < nm)%nat -> Forall (fun v => 0 <= v < nth c P 0) (firstn n (skipn (c * n) d))) -> length yy = S n -> _)
    by (intros d yy Ld Cd Hyy; exact (proj1 (proj2 (source_invntt_pow_invphi 15 k0 nm fuel P roots invk d iom ipd ipi sipi yy ltac:(lia) HkK Hnm Hf Ld ltac:(lia) ltac:(lia) ltac:(lia) ltac:(lia) Hyy Cd (fun c Hc => proj1 (proj2 (HRg c Hc))))) HRow TI)).
  cbv zeta in FW, IV.
  repeat split.
  - apply (product 32 15 P roots invk _ _ k0 nm fuel ltac:(lia) ltac:(lia) HkK HRg ph sph ipd ipi sipi om iom); try assumption.
    + intros d [Ld Cd]. exact (proj1 (FW d Ld Cd)).
    + intros d yy [Ld Cd] Hyy. exact (proj1 (IV d yy Ld Cd Hyy)).
  - apply (product 32 15 P roots invk _ _ k0 nm fuel ltac:(lia) ltac:(lia) HkK HRg ph sph ipd ipi sipi om iom); try assumption.
    + intros d [Ld Cd]. exact (proj1 (proj2 (FW d Ld Cd))).
    + intros d yy [Ld Cd] Hyy. exact (proj1 (proj2 (IV d yy Ld Cd Hyy))).
  - apply (product 32 15 P roots invk _ _ k0 nm fuel ltac:(lia) ltac:(lia) HkK HRg ph sph ipd ipi sipi om iom); try assumption.
    + intros d [Ld Cd]. exact (proj2 (proj2 (FW d Ld Cd))).
    + intros d yy [Ld Cd] Hyy. exact (proj2 (proj2 (IV d yy Ld Cd Hyy))).
Qed.
Theorem source_product_u16 : (S k0 <= 9)%nat ->
  (forall c, (c < nm)%nat -> rowok16 P roots invk c /\ (nth c roots 0 ^ (2 ^ Z.of_nat 9)) mod nth c P 0 = nth c P 0 - 1 /\ (nth c invk 0 * 2 ^ Z.of_nat 9) mod nth c P 0 = 1) ->
  exists ph sph ipd ipi sipi om iom, gen_initialize_u16 fuel (Z.of_nat n) om0 iom0 ph0 sph0 ipd0 ipi0 sipi0 (Z.of_nat nm) roots P invk = Some (ph, sph, ipd, ipi, sipi, om, iom) /\
    pr P k0 nm (fun d => gen_ntt_pow_phi_serial_u16 (Z.of_nat n) (Z.of_nat nm) d ph sph om P) (fun d => gen_invntt_pow_invphi_serial_u16 fuel (Z.of_nat n) (Z.of_nat nm) d iom ipd ipi sipi P y0) a b /\
    pr P k0 nm (fun d => gen_ntt_pow_phi_sse_u16 (Z.of_nat n) (Z.of_nat nm) d ph sph om P) (fun d => gen_invntt_pow_invphi_sse_u16 fuel (Z.of_nat n) (Z.of_nat nm) d iom ipd ipi sipi P y0) a b /\
    pr P k0 nm (fun d => gen_ntt_pow_phi_avx2_u16 (Z.of_nat n) (Z.of_nat nm) d ph sph om P) (fun d => gen_invntt_pow_invphi_avx2_u16 fuel (Z.of_nat n) (Z.of_nat nm) d iom ipd ipi sipi P y0) a b.
Proof.
  intros HkK HR.
  destruct (source_initialize_u16 P roots invk k0 nm fuel ph0 sph0 ipd0 ipi0 sipi0 om0 iom0 HkK Hf Hnm (fun c Hc => proj1 (HR c Hc)) L1 L2 L3 L4 L5 L6 L7)
    as (ph & sph & ipd & ipi & sipi & om & iom & E & (M1 & M2 & M3 & M4 & M5 & M6 & M7) & Rows).
  exists ph, sph, ipd, ipi, sipi, om, iom. split; [exact E|].
  assert (HRow : forall c, (c < nm)%nat -> Hrow 16 (nth c P 0)) by (intros c Hc; destruct (HR c Hc) as ((A & _) & _); exact A).
  assert (HRg : forall c, (c < nm)%nat -> Hrow 16 (nth c P 0) /\ (nth c roots 0 ^ (2 ^ Z.of_nat 9)) mod nth c P 0 = nth c P 0 - 1 /\ (nth c invk 0 * 2 ^ Z.of_nat 9) mod nth c P 0 = 1)
    by (intros c Hc; destruct (HR c Hc) as ((A & _) & B & C); auto).
  assert (TF : forall c, (c < nm)%nat -> let p := nth c P 0 in let g := nth c roots 0 in let shp := map (fun v => (v * 2 ^ 16) / p) in
     (forall i, (i < n)%nat -> nth (c * n + i) ph 0 = nth i (phis p g 9 k0) 0 /\ nth (c * n + i) sph 0 = nth i (shp (phis p g 9 k0)) 0) /\
     (forall i, (i < n - 1)%nat -> nth (c * (n * 2) + i) om 0 = nth i (flat p (S k0) (omega p g 9 k0)) 0 /\ nth (c * (n * 2) + n + i) om 0 = nth i (shp (flat p (S k0) (omega p g 9 k0))) 0)).
  { intros c Hc. destruct (Rows c Hc) as (_ & R1 & R2). cbv zeta in R1, R2 |- *. split; intros i Hi; [destruct (R1 i Hi) as (A & B & _ & _) | destruct (R2 i Hi) as (A & B & _ & _)]; split; assumption. }
  assert (TI : forall c, (c < nm)%nat -> let p := nth c P 0 in let g := nth c roots 0 in let ik := nth c invk 0 in let shp := map (fun v => (v * 2 ^ 16) / p) in
     (forall i, (i < n)%nat -> nth (c * n + i) ipi 0 = nth i (cs p g ik 9 k0) 0 /\ nth (c * n + i) sipi 0 = nth i (shp (cs p g ik 9 k0)) 0) /\
     (forall i, (i < n - 1)%nat -> nth (c * (n * 2) + i) iom 0 = nth i (flat p (S k0) (invomega p g 9 k0)) 0 /\ nth (c * (n * 2) + n + i) iom 0 = nth i (shp (flat p (S k0) (invomega p g 9 k0))) 0)).
  { intros c Hc. destruct (Rows c Hc) as (_ & R1 & R2). cbv zeta in R1, R2 |- *. split; intros i Hi; [destruct (R1 i Hi) as (_ & _ & A & B) | destruct (R2 i Hi) as (_ & _ & A & B)]; split; assumption. }
  assert (FW : forall d, length d = (nm * n)%nat -> (forall c, (c < nm)%nat -> Forall (fun v => 0 <= v < nth c P 0) (firstn n (skipn (c * n) d))) -> _)
    by (intros d Ld Cd; exact (proj1 (source_ntt_pow_phi_pointwise 9 k0 nm P roots d ph sph om ltac:(lia) Hnm Ld ltac:(lia) ltac:(lia) ltac:(lia) Cd) HRow TF)).
  assert (IV : forall d yy, length d = (nm * n)%nat -> (forall c, (c < nm)%nat -> Forall (fun v => 0 <= v < nth c P 0) (firstn n (skipn (c * n) d))) -> length yy = S n -> _)
    by (intros d yy Ld Cd Hyy; exact (proj1 (source_invntt_pow_invphi 9 k0 nm fuel P roots invk d iom ipd ipi sipi yy ltac:(lia) HkK Hnm Hf Ld ltac:(lia) ltac:(lia) ltac:(lia) ltac:(lia) Hyy Cd (fun c Hc => proj1 (proj2 (HRg c Hc)))) HRow TI)).
  cbv zeta in FW, IV.
  repeat split.
  - apply (product 16 9 P roots invk _ _ k0 nm fuel ltac:(lia) ltac:(lia) HkK HRg ph sph ipd ipi sipi om iom); try assumption.
    + intros d [Ld Cd]. exact (proj1 (FW d Ld Cd)).
    + intros d yy [Ld Cd] Hyy. exact (proj1 (IV d yy Ld Cd Hyy)).
  - apply (product 16 9 P roots invk _ _ k0 nm fuel ltac:(lia) ltac:(lia) HkK HRg ph sph ipd ipi sipi om iom); try assumption.
    + intros d [Ld Cd]. exact (proj1 (proj2 (FW d Ld Cd))).
    + intros d yy [Ld Cd] Hyy. exact (proj1 (proj2 (IV d yy Ld Cd Hyy))).
  - apply (product 16 9 P roots invk _ _ k0 nm fuel ltac:(lia) ltac:(lia) HkK HRg ph sph ipd ipi sipi om iom); try assumption.
    + intros d [Ld Cd]. exact (proj2 (proj2 (FW d Ld Cd))).
    + intros d yy [Ld Cd] Hyy. exact (proj2 (proj2 (IV d yy Ld Cd Hyy))).
Qed.

Variable Pn : list Z.
Theorem source_product_u64 : (S k0 <= 20)%nat ->
  (forall c, (c < nm)%nat -> rowok64 P Pn roots invk c /\ (nth c roots 0 ^ (2 ^ Z.of_nat 20)) mod nth c P 0 = nth c P 0 - 1 /\ (nth c invk 0 * 2 ^ Z.of_nat 20) mod nth c P 0 = 1) ->
  exists ph sph ipd ipi sipi om iom, gen_initialize_u64 fuel (Z.of_nat n) om0 iom0 ph0 sph0 ipd0 ipi0 sipi0 (Z.of_nat nm) roots P Pn invk = Some (ph, sph, ipd, ipi, sipi, om, iom) /\
    pr P k0 nm (fun d => gen_ntt_pow_phi_serial_u64 (Z.of_nat n) (Z.of_nat nm) d ph sph om P) (fun d => gen_invntt_pow_invphi_serial_u64 fuel (Z.of_nat n) (Z.of_nat nm) d iom ipd ipi sipi P y0) a b /\
    pr P k0 nm (fun d => gen_ntt_pow_phi_sse_u64 (Z.of_nat n) (Z.of_nat nm) d ph sph om P) (fun d => gen_invntt_pow_invphi_sse_u64 fuel (Z.of_nat n) (Z.of_nat nm) d iom ipd ipi sipi P y0) a b /\
    pr P k0 nm (fun d => gen_ntt_pow_phi_avx2_u64 (Z.of_nat n) (Z.of_nat nm) d ph sph om P) (fun d => gen_invntt_pow_invphi_avx2_u64 fuel (Z.of_nat n) (Z.of_nat nm) d iom ipd ipi sipi P y0) a b.
Proof.
  intros HkK HR.
  destruct (source_initialize_u64 P Pn roots invk k0 nm fuel ph0 sph0 ipd0 ipi0 sipi0 om0 iom0 HkK Hf Hnm (fun c Hc => proj1 (HR c Hc)) L1 L2 L3 L4 L5 L6 L7)
    as (ph & sph & ipd & ipi & sipi & om & iom & E & (M1 & M2 & M3 & M4 & M5 & M6 & M7) & Rows).
  exists ph, sph, ipd, ipi, sipi, om, iom. split; [exact E|].
  assert (HRow : forall c, (c < nm)%nat -> Hrow 64 (nth c P 0)) by (intros c Hc; destruct (HR c Hc) as ((A & _) & _); exact (h64 _ _ A)).
  assert (HRg : forall c, (c < nm)%nat -> Hrow 64 (nth c P 0) /\ (nth c roots 0 ^ (2 ^ Z.of_nat 20)) mod nth c P 0 = nth c P 0 - 1 /\ (nth c invk 0 * 2 ^ Z.of_nat 20) mod nth c P 0 = 1)
    by (intros c Hc; destruct (HR c Hc) as ((A & _) & B & C); pose proof (h64 _ _ A); auto).
  assert (TF : forall c, (c < nm)%nat -> let p := nth c P 0 in let g := nth c roots 0 in let shp := map (fun v => (v * 2 ^ 64) / p) in
     (forall i, (i < n)%nat -> nth (c * n + i) ph 0 = nth i (phis p g 20 k0) 0 /\ nth (c * n + i) sph 0 = nth i (shp (phis p g 20 k0)) 0) /\
     (forall i, (i < n - 1)%nat -> nth (c * (n * 2) + i) om 0 = nth i (flat p (S k0) (omega p g 20 k0)) 0 /\ nth (c * (n * 2) + n + i) om 0 = nth i (shp (flat p (S k0) (omega p g 20 k0))) 0)).
  { intros c Hc. destruct (Rows c Hc) as (_ & R1 & R2). cbv zeta in R1, R2 |- *. split; intros i Hi; [destruct (R1 i Hi) as (A & B & _ & _) | destruct (R2 i Hi) as (A & B & _ & _)]; split; assumption. }
  assert (TI : forall c, (c < nm)%nat -> let p := nth c P 0 in let g := nth c roots 0 in let ik := nth c invk 0 in let shp := map (fun v => (v * 2 ^ 64) / p) in
     (forall i, (i < n)%nat -> nth (c * n + i) ipi 0 = nth i (cs p g ik 20 k0) 0 /\ nth (c * n + i) sipi 0 = nth i (shp (cs p g ik 20 k0)) 0) /\
     (forall i, (i < n - 1)%nat -> nth (c * (n * 2) + i) iom 0 = nth i (flat p (S k0) (invomega p g 20 k0)) 0 /\ nth (c * (n * 2) + n + i) iom 0 = nth i (shp (flat p (S k0) (invomega p g 20 k0))) 0)).
  { intros c Hc. destruct (Rows c Hc) as (_ & R1 & R2). cbv zeta in R1, R2 |- *. split; intros i Hi; [destruct (R1 i Hi) as (_ & _ & A & B) | destruct (R2 i Hi) as (_ & _ & A & B)]; split; assumption. }
  assert (FW : forall d, length d = (nm * n)%nat -> (forall c, (c < nm)%nat -> Forall (fun v => 0 <= v < nth c P 0) (firstn n (skipn (c * n) d))) -> _)
    by (intros d Ld Cd; exact (proj2 (proj2 (source_ntt_pow_phi_pointwise 20 k0 nm P roots d ph sph om ltac:(lia) Hnm Ld ltac:(lia) ltac:(lia) ltac:(lia) Cd)) HRow TF)).
  assert (IV : forall d yy, length d = (nm * n)%nat -> (forall c, (c < nm)%nat -> Forall (fun v => 0 <= v < nth c P 0) (firstn n (skipn (c * n) d))) -> length yy = S n -> _)
    by (intros d yy Ld Cd Hyy; exact (proj2 (proj2 (source_invntt_pow_invphi 20 k0 nm fuel P roots invk d iom ipd ipi sipi yy ltac:(lia) HkK Hnm Hf Ld ltac:(lia) ltac:(lia) ltac:(lia) ltac:(lia) Hyy Cd (fun c Hc => proj1 (proj2 (HRg c Hc))))) HRow TI)).
  cbv zeta in FW, IV.
  repeat split.
  - apply (product 64 20 P roots invk _ _ k0 nm fuel ltac:(lia) ltac:(lia) HkK HRg ph sph ipd ipi sipi om iom); try assumption.
    + intros d [Ld Cd]. exact (proj1 (FW d Ld Cd)).
    + intros d yy [Ld Cd] Hyy. exact (proj1 (IV d yy Ld Cd Hyy)).
  - apply (product 64 20 P roots invk _ _ k0 nm fuel ltac:(lia) ltac:(lia) HkK HRg ph sph ipd ipi sipi om iom); try assumption.
    + intros d [Ld Cd]. exact (proj1 (proj2 (FW d Ld Cd))).
    + intros d yy [Ld Cd] Hyy. exact (proj1 (proj2 (IV d yy Ld Cd Hyy))).
  - apply (product 64 20 P roots invk _ _ k0 nm fuel ltac:(lia) ltac:(lia) HkK HRg ph sph ipd ipi sipi om iom); try assumption.
    + intros d [Ld Cd]. exact (proj2 (proj2 (FW d Ld Cd))).
    + intros d yy [Ld Cd] Hyy. exact (proj2 (proj2 (IV d yy Ld Cd Hyy))).
Qed.
End InstP.

Section InstAll.
Variables (P roots invk : list Z) (k0 nm fuel : nat) (ph0 sph0 ipd0 ipi0 sipi0 om0 iom0 : list Z).
Notation n := (2 ^ S k0)%nat.
Hypothesis Hk4 : (4 <= S k0)%nat.
Hypothesis Hf : (S k0 < fuel)%nat.
Hypothesis Hnm : Z.of_nat nm < 2 ^ 28.
Hypothesis L1 : length ph0 = (nm * n)%nat.
Hypothesis L2 : length sph0 = (nm * n)%nat.
Hypothesis L3 : length ipd0 = nm.
Hypothesis L4 : length ipi0 = (nm * n)%nat.
Hypothesis L5 : length sipi0 = (nm * n)%nat.
Hypothesis L6 : length om0 = (nm * (n * 2))%nat.
Hypothesis L7 : length iom0 = (nm * (n * 2))%nat.

Theorem source_transforms_u32 : (S k0 <= 15)%nat ->
  (forall c, (c < nm)%nat -> rowok32 P roots invk c /\ (nth c roots 0 ^ (2 ^ Z.of_nat 15)) mod nth c P 0 = nth c P 0 - 1 /\ (nth c invk 0 * 2 ^ Z.of_nat 15) mod nth c P 0 = 1) ->
  exists ph sph ipd ipi sipi om iom, gen_initialize_u32 fuel (Z.of_nat n) om0 iom0 ph0 sph0 ipd0 ipi0 sipi0 (Z.of_nat nm) roots P invk = Some (ph, sph, ipd, ipi, sipi, om, iom) /\
    transforms_ok P k0 nm (fun d => gen_ntt_pow_phi_serial_u32 (Z.of_nat n) (Z.of_nat nm) d ph sph om P) (fun d y0 => gen_invntt_pow_invphi_serial_u32 fuel (Z.of_nat n) (Z.of_nat nm) d iom ipd ipi sipi P y0) /\
    transforms_ok P k0 nm (fun d => gen_ntt_pow_phi_sse_u32 (Z.of_nat n) (Z.of_nat nm) d ph sph om P) (fun d y0 => gen_invntt_pow_invphi_sse_u32 fuel (Z.of_nat n) (Z.of_nat nm) d iom ipd ipi sipi P y0) /\
    transforms_ok P k0 nm (fun d => gen_ntt_pow_phi_avx2_u32 (Z.of_nat n) (Z.of_nat nm) d ph sph om P) (fun d y0 => gen_invntt_pow_invphi_avx2_u32 fuel (Z.of_nat n) (Z.of_nat nm) d iom ipd ipi sipi P y0).
Proof.
  intros HkK HR.
  destruct (source_initialize_u32 P roots invk k0 nm fuel ph0 sph0 ipd0 ipi0 sipi0 om0 iom0 HkK Hf Hnm (fun c Hc => proj1 (HR c Hc)) L1 L2 L3 L4 L5 L6 L7)
    as (ph & sph & ipd & ipi & sipi & om & iom & E & (M1 & M2 & M3 & M4 & M5 & M6 & M7) & Rows).
  exists ph, sph, ipd, ipi, sipi, om, iom. split; [exact E|].
  assert (HRow : forall c, (c < nm)%nat -> Hrow 32 (nth c P 0)) by (intros c Hc; destruct (HR c Hc) as ((A & _) & _); exact A).
  assert (HRg : forall c, (c < nm)%nat -> Hrow 32 (nth c P 0) /\ (nth c roots 0 ^ (2 ^ Z.of_nat 15)) mod nth c P 0 = nth c P 0 - 1 /\ (nth c invk 0 * 2 ^ Z.of_nat 15) mod nth c P 0 = 1)
    by (intros c Hc; destruct (HR c Hc) as ((A & _) & B & C); auto).
  assert (TF : forall c, (c < nm)%nat -> let p := nth c P 0 in let g := nth c roots 0 in let shp := map (fun v => (v * 2 ^ 32) / p) in
     (forall i, (i < n)%nat -> nth (c * n + i) ph 0 = nth i (phis p g 15 k0) 0 /\ nth (c * n + i) sph 0 = nth i (shp (phis p g 15 k0)) 0) /\
     (forall i, (i < n - 1)%nat -> nth (c * (n * 2) + i) om 0 = nth i (flat p (S k0) (omega p g 15 k0)) 0 /\ nth (c * (n * 2) + n + i) om 0 = nth i (shp (flat p (S k0) (omega p g 15 k0))) 0)).
  { intros c Hc. destruct (Rows c Hc) as (_ & R1 & R2). cbv zeta in R1, R2 |- *. split; intros i Hi; [destruct (R1 i Hi) as (A & B & _ & _) | destruct (R2 i Hi) as (A & B & _ & _)]; split; assumption. }
  assert (TI : forall c, (c < nm)%nat -> let p := nth c P 0 in let g := nth c roots 0 in let ik := nth c invk 0 in let shp := map (fun v => (v * 2 ^ 32) / p) in
     (forall i, (i < n)%nat -> nth (c * n + i) ipi 0 = nth i (cs p g ik 15 k0) 0 /\ nth (c * n + i) sipi 0 = nth i (shp (cs p g ik 15 k0)) 0) /\
     (forall i, (i < n - 1)%nat -> nth (c * (n * 2) + i) iom 0 = nth i (flat p (S k0) (invomega p g 15 k0)) 0 /\ nth (c * (n * 2) + n + i) iom 0 = nth i (shp (flat p (S k0) (invomega p g 15 k0))) 0)).
  { intros c Hc. destruct (Rows c Hc) as (_ & R1 & R2). cbv zeta in R1, R2 |- *. split; intros i Hi; [destruct (R1 i Hi) as (_ & _ & A & B) | destruct (R2 i Hi) as (_ & _ & A & B)]; split; assumption. }
  assert (FW : forall d, length d = (nm * n)%nat -> (forall c, (c < nm)%nat -> Forall (fun v => 0 <= v < nth c P 0) (firstn n (skipn (c * n) d))) -> _)
    by (intros d Ld Cd; exact (proj1 (proj2 (source_ntt_pow_phi_pointwise 15 k0 nm P roots d ph sph om ltac:(lia) Hnm Ld ltac:(lia) ltac:(lia) ltac:(lia) Cd)) HRow TF)).
  assert (IV : forall d yy, length d = (nm * n)%nat -> (forall c, (c < nm)%nat -> Forall (fun v => 0 <= v < nth c P 0) (firstn n (skipn (c * n) d))) -> length yy = S n -> _)
    by (intros d yy Ld Cd Hyy; exact (proj1 (proj2 (source_invntt_pow_invphi 15 k0 nm fuel P roots invk d iom ipd ipi sipi yy ltac:(lia) HkK Hnm Hf Ld ltac:(lia) ltac:(lia) ltac:(lia) ltac:(lia) Hyy Cd (fun c Hc => proj1 (proj2 (HRg c Hc))))) HRow TI)).
  cbv zeta in FW, IV.
  split; [|split].
  - apply (all_ok 32 15 P roots invk gen_ntt_pow_phi_serial_u32 gen_invntt_pow_invphi_serial_u32 k0 nm fuel ph sph ipd ipi sipi om iom ltac:(lia) ltac:(lia) HkK M1 M2 M3 M4 M5 M6 M7 HRg).
    + intros d [Ld Cd]. exact (proj1 (FW d Ld Cd)).
    + intros d yy [Ld Cd] Hyy. exact (proj1 (IV d yy Ld Cd Hyy)).
  - apply (all_ok 32 15 P roots invk gen_ntt_pow_phi_sse_u32 gen_invntt_pow_invphi_sse_u32 k0 nm fuel ph sph ipd ipi sipi om iom ltac:(lia) ltac:(lia) HkK M1 M2 M3 M4 M5 M6 M7 HRg).
    + intros d [Ld Cd]. exact (proj1 (proj2 (FW d Ld Cd))).
    + intros d yy [Ld Cd] Hyy. exact (proj1 (proj2 (IV d yy Ld Cd Hyy))).
  - apply (all_ok 32 15 P roots invk gen_ntt_pow_phi_avx2_u32 gen_invntt_pow_invphi_avx2_u32 k0 nm fuel ph sph ipd ipi sipi om iom ltac:(lia) ltac:(lia) HkK M1 M2 M3 M4 M5 M6 M7 HRg).
    + intros d [Ld Cd]. exact (proj2 (proj2 (FW d Ld Cd))).
    + intros d yy [Ld Cd] Hyy. exact (proj2 (proj2 (IV d yy Ld Cd Hyy))).
Qed.
Theorem source_transforms_u16 : (S k0 <= 9)%nat ->
  (forall c, (c < nm)%nat -> rowok16 P roots invk c /\ (nth c roots 0 ^ (2 ^ Z.of_nat 9)) mod nth c P 0 = nth c P 0 - 1 /\ (nth c invk 0 * 2 ^ Z.of_nat 9) mod nth c P 0 = 1) ->
  exists ph sph ipd ipi sipi om iom, gen_initialize_u16 fuel (Z.of_nat n) om0 iom0 ph0 sph0 ipd0 ipi0 sipi0 (Z.of_nat nm) roots P invk = Some (ph, sph, ipd, ipi, sipi, om, iom) /\
    transforms_ok P k0 nm (fun d => gen_ntt_pow_phi_serial_u16 (Z.of_nat n) (Z.of_nat nm) d ph sph om P) (fun d y0 => gen_invntt_pow_invphi_serial_u16 fuel (Z.of_nat n) (Z.of_nat nm) d iom ipd ipi sipi P y0) /\
    transforms_ok P k0 nm (fun d => gen_ntt_pow_phi_sse_u16 (Z.of_nat n) (Z.of_nat nm) d ph sph om P) (fun d y0 => gen_invntt_pow_invphi_sse_u16 fuel (Z.of_nat n) (Z.of_nat nm) d iom ipd ipi sipi P y0) /\
    transforms_ok P k0 nm (fun d => gen_ntt_pow_phi_avx2_u16 (Z.of_nat n) (Z.of_nat nm) d ph sph om P) (fun d y0 => gen_invntt_pow_invphi_avx2_u16 fuel (Z.of_nat n) (Z.of_nat nm) d iom ipd ipi sipi P y0).
Proof.
  intros HkK HR.
  destruct (source_initialize_u16 P roots invk k0 nm fuel ph0 sph0 ipd0 ipi0 sipi0 om0 iom0 HkK Hf Hnm (fun c Hc => proj1 (HR c Hc)) L1 L2 L3 L4 L5 L6 L7)
    as (ph & sph & ipd & ipi & sipi & om & iom & E & (M1 & M2 & M3 & M4 & M5 & M6 & M7) & Rows).
  exists ph, sph, ipd, ipi, sipi, om, iom. split; [exact E|].
  assert (HRow : forall c, (c < nm)%nat -> Hrow 16 (nth c P 0)) by (intros c Hc; destruct (HR c Hc) as ((A & _) & _); exact A).
  assert (HRg : forall c, (c < nm)%nat -> Hrow 16 (nth c P 0) /\ (nth c roots 0 ^ (2 ^ Z.of_nat 9)) mod nth c P 0 = nth c P 0 - 1 /\ (nth c invk 0 * 2 ^ Z.of_nat 9) mod nth c P 0 = 1)
    by (intros c Hc; destruct (HR c Hc) as ((A & _) & B & C); auto).
  assert (TF : forall c, (c < nm)%nat -> let p := nth c P 0 in let g := nth c roots 0 in let shp := map (fun v => (v * 2 ^ 16) / p) in
     (forall i, (i < n)%nat -> nth (c * n + i) ph 0 = nth i (phis p g 9 k0) 0 /\ nth (c * n + i) sph 0 = nth i (shp (phis p g 9 k0)) 0) /\
     (forall i, (i < n - 1)%nat -> nth (c * (n * 2) + i) om 0 = nth i (flat p (S k0) (omega p g 9 k0)) 0 /\ nth (c * (n * 2) + n + i) om 0 = nth i (shp (flat p (S k0) (omega p g 9 k0))) 0)).
  { intros c Hc. destruct (Rows c Hc) as (_ & R1 & R2). cbv zeta in R1, R2 |- *. split; intros i Hi; [destruct (R1 i Hi) as (A & B & _ & _) | destruct (R2 i Hi) as (A & B & _ & _)]; split; assumption. }
  assert (TI : forall c, (c < nm)%nat -> let p := nth c P 0 in let g := nth c roots 0 in let ik := nth c invk 0 in let shp := map (fun v => (v * 2 ^ 16) / p) in
     (forall i, (i < n)%nat -> nth (c * n + i) ipi 0 = nth i (cs p g ik 9 k0) 0 /\ nth (c * n + i) sipi 0 = nth i (shp (cs p g ik 9 k0)) 0) /\
     (forall i, (i < n - 1)%nat -> nth (c * (n * 2) + i) iom 0 = nth i (flat p (S k0) (invomega p g 9 k0)) 0 /\ nth (c * (n * 2) + n + i) iom 0 = nth i (shp (flat p (S k0) (invomega p g 9 k0))) 0)).
  { intros c Hc. destruct (Rows c Hc) as (_ & R1 & R2). cbv zeta in R1, R2 |- *. split; intros i Hi; [destruct (R1 i Hi) as (_ & _ & A & B) | destruct (R2 i Hi) as (_ & _ & A & B)]; split; assumption. }
  assert (FW : forall d, length d = (nm * n)%nat -> (forall c, (c < nm)%nat -> Forall (fun v => 0 <= v < nth c P 0) (firstn n (skipn (c * n) d))) -> _)
    by (intros d Ld Cd; exact (proj1 (source_ntt_pow_phi_pointwise 9 k0 nm P roots d ph sph om ltac:(lia) Hnm Ld ltac:(lia) ltac:(lia) ltac:(lia) Cd) HRow TF)).
  assert (IV : forall d yy, length d = (nm * n)%nat -> (forall c, (c < nm)%nat -> Forall (fun v => 0 <= v < nth c P 0) (firstn n (skipn (c * n) d))) -> length yy = S n -> _)
    by (intros d yy Ld Cd Hyy; exact (proj1 (source_invntt_pow_invphi 9 k0 nm fuel P roots invk d iom ipd ipi sipi yy ltac:(lia) HkK Hnm Hf Ld ltac:(lia) ltac:(lia) ltac:(lia) ltac:(lia) Hyy Cd (fun c Hc => proj1 (proj2 (HRg c Hc)))) HRow TI)).
  cbv zeta in FW, IV.
  split; [|split].
  - apply (all_ok 16 9 P roots invk gen_ntt_pow_phi_serial_u16 gen_invntt_pow_invphi_serial_u16 k0 nm fuel ph sph ipd ipi sipi om iom ltac:(lia) ltac:(lia) HkK M1 M2 M3 M4 M5 M6 M7 HRg).
    + intros d [Ld Cd]. exact (proj1 (FW d Ld Cd)).
    + intros d yy [Ld Cd] Hyy. exact (proj1 (IV d yy Ld Cd Hyy)).
  - apply (all_ok 16 9 P roots invk gen_ntt_pow_phi_sse_u16 gen_invntt_pow_invphi_sse_u16 k0 nm fuel ph sph ipd ipi sipi om iom ltac:(lia) ltac:(lia) HkK M1 M2 M3 M4 M5 M6 M7 HRg).
    + intros d [Ld Cd]. exact (proj1 (proj2 (FW d Ld Cd))).
    + intros d yy [Ld Cd] Hyy. exact (proj1 (proj2 (IV d yy Ld Cd Hyy))).
  - apply (all_ok 16 9 P roots invk gen_ntt_pow_phi_avx2_u16 gen_invntt_pow_invphi_avx2_u16 k0 nm fuel ph sph ipd ipi sipi om iom ltac:(lia) ltac:(lia) HkK M1 M2 M3 M4 M5 M6 M7 HRg).
    + intros d [Ld Cd]. exact (proj2 (proj2 (FW d Ld Cd))).
    + intros d yy [Ld Cd] Hyy. exact (proj2 (proj2 (IV d yy Ld Cd Hyy))).
Qed.

Variable Pn : list Z.
Theorem source_transforms_u64 : (S k0 <= 20)%nat ->
  (forall c, (c < nm)%nat -> rowok64 P Pn roots invk c /\ (nth c roots 0 ^ (2 ^ Z.of_nat 20)) mod nth c P 0 = nth c P 0 - 1 /\ (nth c invk 0 * 2 ^ Z.of_nat 20) mod nth c P 0 = 1) ->
  exists ph sph ipd ipi sipi om iom, gen_initialize_u64 fuel (Z.of_nat n) om0 iom0 ph0 sph0 ipd0 ipi0 sipi0 (Z.of_nat nm) roots P Pn invk = Some (ph, sph, ipd, ipi, sipi, om, iom) /\
    transforms_ok P k0 nm (fun d => gen_ntt_pow_phi_serial_u64 (Z.of_nat n) (Z.of_nat nm) d ph sph om P) (fun d y0 => gen_invntt_pow_invphi_serial_u64 fuel (Z.of_nat n) (Z.of_nat nm) d iom ipd ipi sipi P y0) /\
    transforms_ok P k0 nm (fun d => gen_ntt_pow_phi_sse_u64 (Z.of_nat n) (Z.of_nat nm) d ph sph om P) (fun d y0 => gen_invntt_pow_invphi_sse_u64 fuel (Z.of_nat n) (Z.of_nat nm) d iom ipd ipi sipi P y0) /\
    transforms_ok P k0 nm (fun d => gen_ntt_pow_phi_avx2_u64 (Z.of_nat n) (Z.of_nat nm) d ph sph om P) (fun d y0 => gen_invntt_pow_invphi_avx2_u64 fuel (Z.of_nat n) (Z.of_nat nm) d iom ipd ipi sipi P y0).
Proof.
  intros HkK HR.
  destruct (source_initialize_u64 P Pn roots invk k0 nm fuel ph0 sph0 ipd0 ipi0 sipi0 om0 iom0 HkK Hf Hnm (fun c Hc => proj1 (HR c Hc)) L1 L2 L3 L4 L5 L6 L7)
    as (ph & sph & ipd & ipi & sipi & om & iom & E & (M1 & M2 & M3 & M4 & M5 & M6 & M7) & Rows).
  exists ph, sph, ipd, ipi, sipi, om, iom. split; [exact E|].
  assert (HRow : forall c, (c < nm)%nat -> Hrow 64 (nth c P 0)) by (intros c Hc; destruct (HR c Hc) as ((A & _) & _); exact (h64 _ _ A)).
  assert (HRg : forall c, (c < nm)%nat -> Hrow 64 (nth c P 0) /\ (nth c roots 0 ^ (2 ^ Z.of_nat 20)) mod nth c P 0 = nth c P 0 - 1 /\ (nth c invk 0 * 2 ^ Z.of_nat 20) mod nth c P 0 = 1)
    by (intros c Hc; destruct (HR c Hc) as ((A & _) & B & C); pose proof (h64 _ _ A); auto).
  assert (TF : forall c, (c < nm)%nat -> let p := nth c P 0 in let g := nth c roots 0 in let shp := map (fun v => (v * 2 ^ 64) / p) in
     (forall i, (i < n)%nat -> nth (c * n + i) ph 0 = nth i (phis p g 20 k0) 0 /\ nth (c * n + i) sph 0 = nth i (shp (phis p g 20 k0)) 0) /\
     (forall i, (i < n - 1)%nat -> nth (c * (n * 2) + i) om 0 = nth i (flat p (S k0) (omega p g 20 k0)) 0 /\ nth (c * (n * 2) + n + i) om 0 = nth i (shp (flat p (S k0) (omega p g 20 k0))) 0)).
  { intros c Hc. destruct (Rows c Hc) as (_ & R1 & R2). cbv zeta in R1, R2 |- *. split; intros i Hi; [destruct (R1 i Hi) as (A & B & _ & _) | destruct (R2 i Hi) as (A & B & _ & _)]; split; assumption. }
  assert (TI : forall c, (c < nm)%nat -> let p := nth c P 0 in let g := nth c roots 0 in let ik := nth c invk 0 in let shp := map (fun v => (v * 2 ^ 64) / p) in
     (forall i, (i < n)%nat -> nth (c * n + i) ipi 0 = nth i (cs p g ik 20 k0) 0 /\ nth (c * n + i) sipi 0 = nth i (shp (cs p g ik 20 k0)) 0) /\
     (forall i, (i < n - 1)%nat -> nth (c * (n * 2) + i) iom 0 = nth i (flat p (S k0) (invomega p g 20 k0)) 0 /\ nth (c * (n * 2) + n + i) iom 0 = nth i (shp (flat p (S k0) (invomega p g 20 k0))) 0)).
  { intros c Hc. destruct (Rows c Hc) as (_ & R1 & R2). cbv zeta in R1, R2 |- *. split; intros i Hi; [destruct (R1 i Hi) as (_ & _ & A & B) | destruct (R2 i Hi) as (_ & _ & A & B)]; split; assumption. }
  assert (FW : forall d, length d = (nm * n)%nat -> (forall c, (c < nm)%nat -> Forall (fun v => 0 <= v < nth c P 0) (firstn n (skipn (c * n) d))) -> _)
    by (intros d Ld Cd; exact (proj2 (proj2 (source_ntt_pow_phi_pointwise 20 k0 nm P roots d ph sph om ltac:(lia) Hnm Ld ltac:(lia) ltac:(lia) ltac:(lia) Cd)) HRow TF)).
  assert (IV : forall d yy, length d = (nm * n)%nat -> (forall c, (c < nm)%nat -> Forall (fun v => 0 <= v < nth c P 0) (firstn n (skipn (c * n) d))) -> length yy = S n -> _)
    by (intros d yy Ld Cd Hyy; exact (proj2 (proj2 (source_invntt_pow_invphi 20 k0 nm fuel P roots invk d iom ipd ipi sipi yy ltac:(lia) HkK Hnm Hf Ld ltac:(lia) ltac:(lia) ltac:(lia) ltac:(lia) Hyy Cd (fun c Hc => proj1 (proj2 (HRg c Hc))))) HRow TI)).
  cbv zeta in FW, IV.
  split; [|split].
  - apply (all_ok 64 20 P roots invk gen_ntt_pow_phi_serial_u64 gen_invntt_pow_invphi_serial_u64 k0 nm fuel ph sph ipd ipi sipi om iom ltac:(lia) ltac:(lia) HkK M1 M2 M3 M4 M5 M6 M7 HRg).
    + intros d [Ld Cd]. exact (proj1 (FW d Ld Cd)).
    + intros d yy [Ld Cd] Hyy. exact (proj1 (IV d yy Ld Cd Hyy)).
  - apply (all_ok 64 20 P roots invk gen_ntt_pow_phi_sse_u64 gen_invntt_pow_invphi_sse_u64 k0 nm fuel ph sph ipd ipi sipi om iom ltac:(lia) ltac:(lia) HkK M1 M2 M3 M4 M5 M6 M7 HRg).
    + intros d [Ld Cd]. exact (proj1 (proj2 (FW d Ld Cd))).
    + intros d yy [Ld Cd] Hyy. exact (proj1 (proj2 (IV d yy Ld Cd Hyy))).
  - apply (all_ok 64 20 P roots invk gen_ntt_pow_phi_avx2_u64 gen_invntt_pow_invphi_avx2_u64 k0 nm fuel ph sph ipd ipi sipi om iom ltac:(lia) ltac:(lia) HkK M1 M2 M3 M4 M5 M6 M7 HRg).
    + intros d [Ld Cd]. exact (proj2 (proj2 (FW d Ld Cd))).
    + intros d yy [Ld Cd] Hyy. exact (proj2 (proj2 (IV d yy Ld Cd Hyy))).
Qed.
End InstAll.
