(* The translated vector butterflies in the form the loop proofs use them: on registers loaded from the array (ldv: elements packed into
   32-bit words) and stored back (stv), every lane is the scalar lazy butterfly (from GenVecEq.v and SimdKernels.v). *)
From Coq Require Import ZArith List Lia Bool Arith.
From NTT Require Import Functors SimdKernels CxxSem VecSem MemSem LoopSpec LoopInst GenVecEq.
From NTT.gen Require Import GenVec.
Import ListNotations.
Local Open Scope Z_scope.

Ltac lst4 X H := destruct X as [|?a [|?a [|?a [|?a [|? ?]]]]]; cbn [length] in H; try discriminate H; clear H.
Ltac lst8 X H := destruct X as [|?a [|?a [|?a [|?a [|?a [|?a [|?a [|?a [|? ?]]]]]]]]]; cbn [length] in H; try discriminate H; clear H.
Ltac lst16 X H := destruct X as [|?a [|?a [|?a [|?a [|?a [|?a [|?a [|?a [|?a [|?a [|?a [|?a [|?a [|?a [|?a [|?a [|? ?]]]]]]]]]]]]]]]]]; cbn [length] in H; try discriminate H; clear H.
Ltac inv_forall := repeat match goal with H : Forall _ (_ :: _) |- _ => inversion H; clear H; subst | H : Forall _ [] |- _ => clear H end.

Definition kern_ok (w : Z) (p : Z) (bits : Z) (words : nat) (vk : Z -> list Z -> list Z -> list Z -> list Z -> list Z * list Z) : Prop :=
  forall A B I Wt, length A = elts bits words -> length B = elts bits words -> length I = elts bits words -> length Wt = elts bits words ->
  Forall (fun v => 0 <= v < 2 ^ w) A -> Forall (fun v => 0 <= v < 2 ^ w) B -> Forall (fun v => 0 <= v < 2 ^ w) I -> Forall (fun v => 0 <= v < p) Wt ->
  let r := vk p (enc bits A) (enc bits B) (enc bits I) (enc bits Wt) in
  dec bits (fst r) = map fst (zip4 (bf4 w p) A B I Wt) /\ dec bits (snd r) = map snd (zip4 (bf4 w p) A B I Wt).

Lemma lane_bf4 w p wt wi a b : 1 < w -> 0 < p -> 4 * p <= 2 ^ w -> 0 <= a < 2 ^ w -> 0 <= b < 2 ^ w -> lane_bfly w p wt wi a b = bf4 w p a b wi wt.
Proof. intros. unfold bf4. apply lane_bfly_scalar; assumption. Qed.

Theorem kern_sse32 p : 0 < p -> 4 * p <= 2 ^ 32 -> kern_ok 32 p 32 4 gen_sse_ntt_loop_body_u32.
Proof.
  intros Hp H4 A B I Wt LA LB LI LW FA FB FI FW. change (elts 32 4) with 4%nat in *.
  lst4 A LA. lst4 B LB. lst4 I LI. lst4 Wt LW. inv_forall. cbv zeta. change (enc 32 ?l) with l. change (dec 32 ?l) with l.
  rewrite sse_bfly32 by assumption. cbn [fst snd zip4]. rewrite !lane_bf4 by (assumption || lia). split; reflexivity.
Qed.
Theorem kern_avx2_32 p : 0 < p -> 4 * p <= 2 ^ 32 -> kern_ok 32 p 32 8 gen_avx2_ntt_loop_body_u32.
Proof.
  intros Hp H4 A B I Wt LA LB LI LW FA FB FI FW. change (elts 32 8) with 8%nat in *.
  lst8 A LA. lst8 B LB. lst8 I LI. lst8 Wt LW. inv_forall. cbv zeta. change (enc 32 ?l) with l. change (dec 32 ?l) with l.
  rewrite avx2_bfly32 by (try assumption; repeat (constructor; [assumption|]); constructor). cbv zeta. cbn [fst snd zip4]. rewrite !lane_bf4 by (assumption || lia). split; reflexivity.
Qed.

Lemma bf4_rng w p a b wi wt : 0 < w -> 0 <= fst (bf4 w p a b wi wt) < 2 ^ w /\ 0 <= snd (bf4 w p a b wi wt) < 2 ^ w.
Proof. intros Hw. assert (0 < 2 ^ w) by (apply Z.pow_pos_nonneg; lia). unfold bf4, bfly_lazy. cbv zeta. cbn [fst snd]. unfold wr. split; apply Z.mod_pos_bound; assumption. Qed.
Lemma word16 p a a' b b' i i' w w' : 0 < p -> 4 * p <= 2 ^ 16 ->
  0 <= a < 2 ^ 16 -> 0 <= a' < 2 ^ 16 -> 0 <= b < 2 ^ 16 -> 0 <= b' < 2 ^ 16 -> 0 <= i < 2 ^ 16 -> 0 <= i' < 2 ^ 16 -> 0 <= w < p -> 0 <= w' < p ->
  bfly16_word p (mk16 a a') (mk16 b b') (mk16 i i') (mk16 w w') =
  (mk16 (fst (bf4 16 p a b i w)) (fst (bf4 16 p a' b' i' w')), mk16 (snd (bf4 16 p a b i w)) (snd (bf4 16 p a' b' i' w'))).
Proof.
  intros Hp H4 Ha Ha' Hb Hb' Hi Hi' Hw Hw'. rewrite bfly16_word_lanes by (assumption || lia). rewrite !lane_bf4 by (assumption || lia). reflexivity.
Qed.
Lemma unpack_mk x y l : 0 <= x < 2 ^ 16 -> 0 <= y < 2 ^ 16 -> unpack16 (mk16 x y :: l) = x :: y :: unpack16 l.
Proof. intros Hx Hy. change (2 ^ 16) with 65536 in *. cbn [unpack16]. rewrite lo_mk, hi_mk by assumption. reflexivity. Qed.

Theorem kern_sse16 p : 0 < p -> 4 * p <= 2 ^ 16 -> kern_ok 16 p 16 4 gen_sse_ntt_loop_body_u16.
Proof.
  intros Hp H4 A B I Wt LA LB LI LW FA FB FI FW. change (elts 16 4) with 8%nat in *.
  lst8 A LA. lst8 B LB. lst8 I LI. lst8 Wt LW. inv_forall. cbv zeta.
  change (enc 16 ?l) with (pack16 l). change (dec 16 ?l) with (unpack16 l). cbn [pack16].
  rewrite sse_bfly16_words by reflexivity. cbn [map4 map fst snd zip4].
  rewrite !word16 by (assumption || lia). cbn [fst snd].
  repeat match goal with |- context [bf4 16 p ?a ?b ?i ?w] => let H := fresh in pose proof (bf4_rng 16 p a b i w ltac:(lia)) as H; destruct H; generalize dependent (bf4 16 p a b i w); intros end.
  rewrite !unpack_mk by assumption. split; reflexivity.
Qed.
Theorem kern_avx2_16 p : 0 < p -> 4 * p <= 2 ^ 16 -> kern_ok 16 p 16 8 gen_avx2_ntt_loop_body_u16.
Proof.
  intros Hp H4 A B I Wt LA LB LI LW FA FB FI FW. change (elts 16 8) with 16%nat in *.
  lst16 A LA. lst16 B LB. lst16 I LI. lst16 Wt LW. inv_forall. cbv zeta.
  change (enc 16 ?l) with (pack16 l). change (dec 16 ?l) with (unpack16 l). cbn [pack16].
  rewrite avx2_bfly16_words by reflexivity. cbn [map4 map fst snd zip4].
  rewrite !word16 by (assumption || lia). cbn [fst snd].
  repeat match goal with |- context [bf4 16 p ?a ?b ?i ?w] => let H := fresh in pose proof (bf4_rng 16 p a b i w ltac:(lia)) as H; destruct H; generalize dependent (bf4 16 p a b i w); intros end.
  rewrite !unpack_mk by assumption. split; reflexivity.
Qed.
