(* The conversion of an expression to bool read from the source (gen/GenExprBool.v: ExprSem.scan with the polarity and vector width of each
   operator and build) is the all-of test for `==` and the any-of test for `!=` and for arithmetic expressions, over ALL degree * nmoduli
   values of the expression, whatever the vector width. *)
From Coq Require Import ZArith List Lia Bool.
From NTT Require Import CxxSem MemSem ExprSem.
From NTT.gen Require Import GenExprBool.
Import ListNotations.
Local Open Scope Z_scope.

Section Scan.
Variable REQ : bool.
Definition first_hit (vs : list Z) : option bool := if existsb (lane_test REQ) vs then Some (negb REQ) else None.
Definition F (st : option bool) (vs : list Z) : option bool := match st with Some r => Some r | None => first_hit vs end.
Lemma F_nil st : F st [] = st. Proof. destruct st; reflexivity. Qed.
Lemma F_app st a b : F (F st a) b = F st (a ++ b).
Proof. destruct st as [r|]; cbn [F]; [reflexivity|]. unfold first_hit. rewrite existsb_app. destruct (existsb (lane_test REQ) a); cbn [orb F]; reflexivity. Qed.
Lemma F_one st v : match st with Some r => Some (Some r) | None => Some (if lane_test REQ v then Some (negb REQ) else None) end = Some (F st [v]).
Proof. destruct st as [r|]; cbn [F]; [reflexivity|]. unfold first_hit. cbn [existsb]. rewrite orb_false_r. reflexivity. Qed.

Variable val : Z -> Z -> Z.
Definition vals (cm : Z) (lo : Z) (cnt : nat) : list Z := map (fun i => val cm (lo + Z.of_nat i)) (seq 0 cnt).
Lemma vals_S cm lo cnt : vals cm lo (S cnt) = vals cm lo cnt ++ [val cm (lo + Z.of_nat cnt)].
Proof. unfold vals. rewrite seq_S, map_app. reflexivity. Qed.
Lemma vals_app cm lo a b : vals cm lo (a + b) = vals cm lo a ++ vals cm (lo + Z.of_nat a) b.
Proof.
  induction b as [|b IH]; [rewrite Nat.add_0_r; unfold vals at 3; cbn; rewrite app_nil_r; reflexivity|].
  rewrite Nat.add_succ_r, !vals_S, IH, <- app_assoc. f_equal. f_equal. f_equal. f_equal. lia.
Qed.
Lemma vals_length cm lo cnt : length (vals cm lo cnt) = cnt. Proof. unfold vals. rewrite map_length, seq_length. reflexivity. Qed.

(* all the values of the expression, modulus by modulus *)
Definition all_vals (degree nm : nat) : list Z := concat (map (fun cm => vals (Z.of_nat cm) 0 degree) (seq 0 nm)).
Lemma all_vals_S degree nm : all_vals degree (S nm) = all_vals degree nm ++ vals (Z.of_nat nm) 0 degree.
Proof. unfold all_vals. rewrite seq_S, map_app, concat_app. cbn. rewrite app_nil_r. reflexivity. Qed.

Lemma lanes_ok cm j VS st : 0 < VS < 2 ^ 62 ->
  for_up 0 VS 1 (fun k st => match st with Some r => Some (Some r) | None => Some (if lane_test REQ (val cm (j + k)) then Some (negb REQ) else None) end) st
  = Some (F st (vals cm j (Z.to_nat VS))).
Proof.
  intros H. assert (E : st = F st (vals cm j 0)) by (cbn; rewrite F_nil; reflexivity). rewrite E at 1.
  apply (for_up_steps (fun k : nat => F st (vals cm j k)) (Z.to_nat VS)); try lia.
  intros k Hk. replace (0 + 1 * Z.of_nat k) with (Z.of_nat k) by lia. rewrite F_one, F_app, <- vals_S. reflexivity.
Qed.

Definition lanes (cm j VS : Z) := fun k (st : option bool) => match st with Some r => Some (Some r) | None => Some (if lane_test REQ (val cm (j + k)) then Some (negb REQ) else None) end.
Lemma vectors_ok cm VS degree st : 0 < VS < 2 ^ 62 -> 0 <= degree < 2 ^ 62 -> (VS | degree) ->
  for_up 0 degree VS (fun j st => for_up 0 VS 1 (lanes cm j VS) st) st = Some (F st (vals cm 0 (Z.to_nat degree))).
Proof.
  intros HV Hd [q Hq]. set (vsn := Z.to_nat VS).
  assert (Hqn : 0 <= q) by nia.
  assert (E : st = F st (vals cm 0 (0 * vsn))) by (cbn; rewrite F_nil; reflexivity). rewrite E at 1.
  replace (Z.to_nat degree) with (Z.to_nat q * vsn)%nat by (subst vsn; nia).
  apply (for_up_steps (fun j : nat => F st (vals cm 0 (j * vsn))) (Z.to_nat q)); try nia.
  intros j Hj. unfold lanes. rewrite lanes_ok by lia. fold vsn. rewrite F_app. f_equal. f_equal.
  replace (Datatypes.S j * vsn)%nat with (j * vsn + vsn)%nat by lia. rewrite vals_app. f_equal. f_equal. subst vsn. nia.
Qed.
Lemma moduli_ok VS degree nm : 0 < VS < 2 ^ 62 -> 0 <= degree < 2 ^ 62 -> 0 <= nm < 2 ^ 62 -> (VS | degree) ->
  for_up 0 nm 1 (fun cm st => for_up 0 degree VS (fun j st => for_up 0 VS 1 (lanes cm j VS) st) st) None
  = Some (F None (all_vals (Z.to_nat degree) (Z.to_nat nm))).
Proof.
  intros HV Hd Hn Hdiv.
  apply (for_up_steps (fun cm : nat => F None (all_vals (Z.to_nat degree) cm)) (Z.to_nat nm)); try lia.
  intros cm Hcm. rewrite vectors_ok by assumption. rewrite F_app, all_vals_S. replace (0 + 1 * Z.of_nat cm) with (Z.of_nat cm) by lia. reflexivity.
Qed.

Definition nonzero (v : Z) : bool := negb (v =? 0).
Lemma verdict vs : match F None vs with Some r => r | None => REQ end = if REQ then forallb nonzero vs else existsb nonzero vs.
Proof.
  cbn [F]. unfold first_hit, lane_test, nonzero. destruct REQ.
  - induction vs as [|v vs IH]; [reflexivity|]. cbn [existsb forallb]. destruct (v =? 0); cbn [orb negb andb]; [reflexivity|exact IH].
  - induction vs as [|v vs IH]; [reflexivity|]. cbn [existsb]. destruct (v =? 0); cbn [orb negb]; [exact IH|reflexivity].
Qed.

Theorem scan_ok VS degree nm : 0 < VS < 2 ^ 62 -> 0 <= degree < 2 ^ 62 -> 0 <= nm < 2 ^ 62 -> (VS | degree) ->
  scan REQ VS degree nm val = Some (let all := all_vals (Z.to_nat degree) (Z.to_nat nm) in if REQ then forallb nonzero all else existsb nonzero all).
Proof.
  intros HV Hd Hn Hdiv. unfold scan. assert (E : degree / VS * VS = degree) by (destruct Hdiv as [q Hq]; subst degree; rewrite Z.div_mul by lia; reflexivity).
  rewrite E, Z.eqb_refl. fold (lanes). change (fun cm st => for_up 0 degree VS (fun j st0 => for_up 0 VS 1 (fun k st1 => match st1 with Some r => Some (Some r) | None => Some (if lane_test REQ (val cm (j + k)) then Some (negb REQ) else None) end) st0) st)
    with (fun cm st => for_up 0 degree VS (fun j st0 => for_up 0 VS 1 (lanes cm j VS) st0) st).
  rewrite moduli_ok by assumption. cbn [bind]. rewrite verdict. reflexivity.
Qed.
(* the static_assert: a vector width that does not divide the degree has no conversion at all *)
Theorem scan_guard VS degree nm : 0 < VS -> ~ (VS | degree) -> scan REQ VS degree nm val = None.
Proof.
  intros HV Hn. unfold scan. destruct (degree / VS * VS =? degree) eqn:E; [|reflexivity]. exfalso. apply Hn. exists (degree / VS). apply Z.eqb_eq in E. lia.
Qed.
End Scan.

(* ---- the 27 conversions read from the source: `a == b` is the all-of test, `a != b` and an arithmetic expression are the any-of test, over all
   degree * nmoduli values of the expression, in the serial, SSE and AVX2 builds and for the three limb types alike (16 | degree covers every
   vector width: the library's degrees are powers of two, and smaller ones are rejected by the static_assert, scan_guard). *)
Definition all_of (degree nm : Z) (val : Z -> Z -> Z) : bool := forallb nonzero (all_vals val (Z.to_nat degree) (Z.to_nat nm)).
Definition any_of (degree nm : Z) (val : Z -> Z -> Z) : bool := existsb nonzero (all_vals val (Z.to_nat degree) (Z.to_nat nm)).
Definition conv := Z -> Z -> (Z -> Z -> Z) -> option bool.
Definition is_all_of (g : conv) : Prop := forall degree nm val, 0 <= degree < 2 ^ 62 -> 0 <= nm < 2 ^ 62 -> (16 | degree) -> g degree nm val = Some (all_of degree nm val).
Definition is_any_of (g : conv) : Prop := forall degree nm val, 0 <= degree < 2 ^ 62 -> 0 <= nm < 2 ^ 62 -> (16 | degree) -> g degree nm val = Some (any_of degree nm val).

Lemma scan_all VS : 0 < VS < 2 ^ 62 -> (VS | 16) -> is_all_of (scan true VS).
Proof. intros HV H16 degree nm val Hd Hn Hdiv. rewrite scan_ok; try assumption; [reflexivity|]. eapply Z.divide_trans; eassumption. Qed.
Lemma scan_any VS : 0 < VS < 2 ^ 62 -> (VS | 16) -> is_any_of (scan false VS).
Proof. intros HV H16 degree nm val Hd Hn Hdiv. rewrite scan_ok; try assumption; [reflexivity|]. eapply Z.divide_trans; eassumption. Qed.
Ltac div16 := match goal with |- (?v | 16) => exists (16 / v); reflexivity end.
Ltac conv_all := apply scan_all; [split; reflexivity | div16].
Ltac conv_any := apply scan_any; [split; reflexivity | div16].

Definition expr_bool_statement : Prop :=
  (is_all_of gen_expr_bool_eq_serial_u16 /\ is_all_of gen_expr_bool_eq_serial_u32 /\ is_all_of gen_expr_bool_eq_serial_u64 /\
   is_all_of gen_expr_bool_eq_sse_u16 /\ is_all_of gen_expr_bool_eq_sse_u32 /\ is_all_of gen_expr_bool_eq_sse_u64 /\
   is_all_of gen_expr_bool_eq_avx2_u16 /\ is_all_of gen_expr_bool_eq_avx2_u32 /\ is_all_of gen_expr_bool_eq_avx2_u64) /\
  (is_any_of gen_expr_bool_neq_serial_u16 /\ is_any_of gen_expr_bool_neq_serial_u32 /\ is_any_of gen_expr_bool_neq_serial_u64 /\
   is_any_of gen_expr_bool_neq_sse_u16 /\ is_any_of gen_expr_bool_neq_sse_u32 /\ is_any_of gen_expr_bool_neq_sse_u64 /\
   is_any_of gen_expr_bool_neq_avx2_u16 /\ is_any_of gen_expr_bool_neq_avx2_u32 /\ is_any_of gen_expr_bool_neq_avx2_u64) /\
  (is_any_of gen_expr_bool_sub_serial_u16 /\ is_any_of gen_expr_bool_sub_serial_u32 /\ is_any_of gen_expr_bool_sub_serial_u64 /\
   is_any_of gen_expr_bool_sub_sse_u16 /\ is_any_of gen_expr_bool_sub_sse_u32 /\ is_any_of gen_expr_bool_sub_sse_u64 /\
   is_any_of gen_expr_bool_sub_avx2_u16 /\ is_any_of gen_expr_bool_sub_avx2_u32 /\ is_any_of gen_expr_bool_sub_avx2_u64).
Theorem source_expr_bool : expr_bool_statement.
Proof. unfold expr_bool_statement. repeat match goal with |- _ /\ _ => split end; match goal with |- is_all_of _ => conv_all | |- is_any_of _ => conv_any end. Qed.

(* non-vacuity, and the difference the polarity makes: a polynomial pair equal everywhere but at one coefficient of the LAST modulus *)
Definition eq_val (a b : Z -> Z -> Z) : Z -> Z -> Z := fun cm i => if a cm i =? b cm i then 1 else 0.
Definition neq_val (a b : Z -> Z -> Z) : Z -> Z -> Z := fun cm i => if a cm i =? b cm i then 0 else 1.
Example expr_bool_nonvacuous :
  let a := fun cm i => cm * 100 + i in let b := fun cm i => if (cm =? 2) && (i =? 31) then 7 else cm * 100 + i in
  gen_expr_bool_eq_avx2_u16 32 3 (eq_val a a) = Some true /\ gen_expr_bool_eq_avx2_u16 32 3 (eq_val a b) = Some false /\
  gen_expr_bool_neq_sse_u64 32 3 (neq_val a a) = Some false /\ gen_expr_bool_neq_sse_u64 32 3 (neq_val a b) = Some true /\
  gen_expr_bool_eq_avx2_u16 8 3 (eq_val a a) = None.
Proof. vm_compute. repeat split. Qed.
