(* serialize_manually / deserialize_manually of the source (one ostream::write / istream::read on the bytes of _data, with N * sizeof(T) bytes,
   N = Degree * NbModuli -- read from the source on every run) are the raw form of C16: the written bytes are Serial.serialize of the N stored
   limbs (little-endian, exactly N * wb bytes, appended to the stream), reading them back restores the polynomial and consumes exactly
   those bytes, a short stream fails. *)
From Coq Require Import ZArith List Lia Bool Arith.
From NTT Require Import CxxSem Serial IoSem.
From NTT.gen Require Import GenLoop.
Import ListNotations.
Local Open Scope Z_scope.

Section S.
Variables (wb : nat) (n nm : nat) (data : list Z).
Hypothesis Hwb : (0 < wb)%nat.
Hypothesis Hd : length data = (nm * n)%nat.
Lemma bytes_all : obj_bytes wb data (Z.of_nat n * Z.of_nat nm * Z.of_nat wb) = Some (serialize wb data).
Proof.
  unfold obj_bytes. rewrite Hd. replace ((0 <=? Z.of_nat n * Z.of_nat nm * Z.of_nat wb) && (Z.of_nat n * Z.of_nat nm * Z.of_nat wb <=? Z.of_nat (nm * n * wb))) with true by (symmetry; rewrite andb_true_iff; split; apply Z.leb_le; nia).
  f_equal. apply firstn_all2. fold (serialize wb data). rewrite serialize_length, Hd. nia.
Qed.
Lemma read_all (s : list Z) : stream_read wb data (Z.of_nat n * Z.of_nat nm * Z.of_nat wb) s =
  Some (let '(ws, rest, ok) := deserialize wb (nm * n) s in ((if ok then ws else overlay wb data s), rest, ok)).
Proof.
  unfold stream_read. rewrite Hd.
  replace ((0 <=? Z.of_nat n * Z.of_nat nm * Z.of_nat wb) && (Z.of_nat n * Z.of_nat nm * Z.of_nat wb <=? Z.of_nat (nm * n * wb)) && (Z.of_nat n * Z.of_nat nm * Z.of_nat wb mod Z.of_nat wb =? 0)) with true.
  2:{ symmetry. rewrite !andb_true_iff. repeat split; try (apply Z.leb_le; nia). apply Z.eqb_eq. apply Z.mod_mul. lia. }
  cbv zeta. replace (Z.to_nat (Z.of_nat n * Z.of_nat nm * Z.of_nat wb / Z.of_nat wb)) with (nm * n)%nat by (rewrite Z.div_mul by lia; lia).
  destruct (deserialize wb (nm * n) s) as [[ws rest] ok]. rewrite <- Hd, skipn_all, firstn_all, app_nil_r. reflexivity.
Qed.
End S.

Theorem source_serialize n nm data out : length data = (nm * n)%nat ->
  gen_serialize_u16 (Z.of_nat n) (Z.of_nat nm) data out = Some (out ++ serialize 2 data) /\
  gen_serialize_u32 (Z.of_nat n) (Z.of_nat nm) data out = Some (out ++ serialize 4 data) /\
  gen_serialize_u64 (Z.of_nat n) (Z.of_nat nm) data out = Some (out ++ serialize 8 data).
Proof.
  intros Hd. unfold gen_serialize_u16, gen_serialize_u32, gen_serialize_u64.
  pose proof (bytes_all 2 n nm data ltac:(lia) Hd) as B2. pose proof (bytes_all 4 n nm data ltac:(lia) Hd) as B4. pose proof (bytes_all 8 n nm data ltac:(lia) Hd) as B8.
  change (Z.of_nat 2) with 2 in B2. change (Z.of_nat 4) with 4 in B4. change (Z.of_nat 8) with 8 in B8. rewrite B2, B4, B8. repeat split.
Qed.
Theorem source_deserialize n nm data s : length data = (nm * n)%nat ->
  let r wb := Some (let '(ws, rest, ok) := deserialize wb (nm * n) s in ((if ok then ws else overlay wb data s), rest, ok)) in
  gen_deserialize_u16 (Z.of_nat n) (Z.of_nat nm) data s = r 2%nat /\ gen_deserialize_u32 (Z.of_nat n) (Z.of_nat nm) data s = r 4%nat /\ gen_deserialize_u64 (Z.of_nat n) (Z.of_nat nm) data s = r 8%nat.
Proof.
  intros Hd r. unfold r, gen_deserialize_u16, gen_deserialize_u32, gen_deserialize_u64.
  pose proof (read_all 2 n nm data ltac:(lia) Hd s) as B2. pose proof (read_all 4 n nm data ltac:(lia) Hd s) as B4. pose proof (read_all 8 n nm data ltac:(lia) Hd s) as B8.
  change (Z.of_nat 2) with 2 in B2. change (Z.of_nat 4) with 4 in B4. change (Z.of_nat 8) with 8 in B8. rewrite B2, B4, B8. repeat split.
Qed.
(* the round trip on the translated pair: what serialize_manually writes, deserialize_manually reads back, consuming exactly those bytes *)
Theorem source_serial_round_trip n nm data old rest : length data = (nm * n)%nat -> length old = (nm * n)%nat ->
  (Forall (fun x => 0 <= x < 256 ^ 2) data -> exists bs, gen_serialize_u16 (Z.of_nat n) (Z.of_nat nm) data [] = Some bs /\ length bs = (nm * n * 2)%nat /\ gen_deserialize_u16 (Z.of_nat n) (Z.of_nat nm) old (bs ++ rest) = Some (data, rest, true)) /\
  (Forall (fun x => 0 <= x < 256 ^ 4) data -> exists bs, gen_serialize_u32 (Z.of_nat n) (Z.of_nat nm) data [] = Some bs /\ length bs = (nm * n * 4)%nat /\ gen_deserialize_u32 (Z.of_nat n) (Z.of_nat nm) old (bs ++ rest) = Some (data, rest, true)) /\
  (Forall (fun x => 0 <= x < 256 ^ 8) data -> exists bs, gen_serialize_u64 (Z.of_nat n) (Z.of_nat nm) data [] = Some bs /\ length bs = (nm * n * 8)%nat /\ gen_deserialize_u64 (Z.of_nat n) (Z.of_nat nm) old (bs ++ rest) = Some (data, rest, true)).
Proof.
  intros Hd Ho. destruct (source_serialize n nm data [] Hd) as (S2 & S4 & S8).
  repeat split; intros HR.
  - exists (serialize 2 data). split; [exact S2|]. split; [rewrite serialize_length, Hd; reflexivity|].
    destruct (source_deserialize n nm old (serialize 2 data ++ rest) Ho) as (D & _ & _). rewrite D. rewrite <- Hd. rewrite (deserialize_serialize 2 ltac:(lia) data rest HR). reflexivity.
  - exists (serialize 4 data). split; [exact S4|]. split; [rewrite serialize_length, Hd; reflexivity|].
    destruct (source_deserialize n nm old (serialize 4 data ++ rest) Ho) as (_ & D & _). rewrite D. rewrite <- Hd. rewrite (deserialize_serialize 4 ltac:(lia) data rest HR). reflexivity.
  - exists (serialize 8 data). split; [exact S8|]. split; [rewrite serialize_length, Hd; reflexivity|].
    destruct (source_deserialize n nm old (serialize 8 data ++ rest) Ho) as (_ & _ & D). rewrite D. rewrite <- Hd. rewrite (deserialize_serialize 8 ltac:(lia) data rest HR). reflexivity.
Qed.
