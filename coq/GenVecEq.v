(* The SSE / AVX2 kernels as translated from the source (gen/GenVec.v) compute, in every lane, the scalar functor. *)
From Coq Require Import ZArith Znumtheory List Lia Bool.
From NTT Require Import Functors ScalarOps Simd SimdKernels CxxSem VecSem.
From NTT.gen Require Import GenVec.
Import ListNotations.
Local Open Scope Z_scope.

(* unfold the generated kernels and the list-level intrinsics down to per-word functions, keeping the per-word functions folded *)
Ltac vnorm := cbv beta iota zeta delta [
  gen_sse_addmod_u32 gen_sse_submod_u32 gen_sse_addmod_u16 gen_sse_submod_u16 gen_avx2_addmod_u32 gen_avx2_submod_u32 gen_avx2_addmod_u16 gen_avx2_submod_u16
  gen_sse_ntt_loop_body_u32 gen_sse_ntt_loop_body_u16 gen_avx2_ntt_loop_body_u32 gen_avx2_ntt_loop_body_u16
  gen_sse_ntt_loop_body_u16_mulhi_epu16_0
  mm_add_epi32 mm_sub_epi32 mm_mullo_epi32 mm_cmpgt_epi32 mm_and mm_set1_epi32 mm_set1_epi16 mm_add_epi16 mm_sub_epi16 mm_mullo_epi16 mm_mulhi_epu16 mm_cmpgt_epi16
  map2 repeat map fst snd].

(* ---------- scalar set-up constants ---------- *)
Lemma sw_mod b v : 0 < b -> (sw b v) mod 2 ^ b = v mod 2 ^ b.
Proof.
  intros Hb. unfold sw. cbv zeta. assert (P : 0 < 2 ^ b) by (apply Z.pow_pos_nonneg; lia).
  destruct (v mod 2 ^ b <? 2 ^ (b - 1)); [apply Z.mod_mod; lia|].
  replace (v mod 2 ^ b - 2 ^ b) with (v mod 2 ^ b + (-1) * 2 ^ b) by ring. rewrite Z.mod_add by lia. apply Z.mod_mod. lia.
Qed.
Lemma mk_lo_hi x : 0 <= x < 2 ^ 32 -> mk16 (lo16 x) (hi16 x) = x.
Proof.
  intros Hx. unfold mk16, lo16, hi16. rewrite (Z.mod_small (x / 65536)) by (split; [apply Z.div_pos; lia | apply Z.div_lt_upper_bound; lia]).
  pose proof (Z.div_mod x 65536 ltac:(lia)). lia.
Qed.
Lemma land_ones16 x : 0 <= x < 65536 -> Z.land 65535 x = x.
Proof. intros Hx. change 65535 with (Z.ones 16). rewrite Z.land_comm, Z.land_ones by lia. apply Z.mod_small. exact Hx. Qed.
Lemma lo16_range x : 0 <= lo16 x < 65536. Proof. unfold lo16. apply Z.mod_pos_bound. lia. Qed.
Lemma hi16_range x : 0 <= hi16 x < 65536. Proof. unfold hi16. apply Z.mod_pos_bound. lia. Qed.
Lemma land_mask (c : bool) x : 0 <= x < 2 ^ 32 -> and32 (if c then W32 - 1 else 0) x = if c then x else 0.
Proof.
  intros Hx. unfold and32. destruct c.
  - change (lo16 (W32 - 1)) with 65535. change (hi16 (W32 - 1)) with 65535. rewrite !land_ones16 by (apply lo16_range || apply hi16_range). apply mk_lo_hi. exact Hx.
  - change (lo16 0) with 0. change (hi16 0) with 0. rewrite !Z.land_0_l. reflexivity.
Qed.

(* ---------- one 32-bit lane of the add kernel, in the shape the generated code reduces to ---------- *)
Definition add32_lane (p x y : Z) : Z :=
  ((x + y) mod W32 - and32 (if sgn 32 (((x + y) mod W32 - sw 32 2147483648 mod W32) mod W32) >? sgn 32 (sw 32 (uw 32 (uw 32 (p - 2147483648) - 1)) mod W32) then W32 - 1 else 0) (sw 32 p mod W32)) mod W32.
Lemma add32_lane_ok p x y : 0 < p -> 2 * p <= 2 ^ 32 -> 0 <= x -> 0 <= y -> x + y < 2 ^ 32 -> add32_lane p x y = addmod 32 p x y.
Proof.
  intros Hp H2 Hx Hy Hs. unfold add32_lane.
  change W32 with (2 ^ 32). rewrite !sw_mod by lia. unfold uw.
  rewrite (Z.mod_small p (2 ^ 32)) by lia. change (2147483648 mod 2 ^ 32) with (2 ^ (32 - 1)).
  change (2 ^ 32 - 1) with (W32 - 1). rewrite land_mask by lia.
  replace (((p - 2147483648) mod 2 ^ 32 - 1) mod 2 ^ 32) with ((p - 2 ^ (32 - 1) - 1) mod 2 ^ 32).
  2:{ rewrite Zminus_mod_idemp_l. reflexivity. }
  rewrite (Z.mod_mod (p - 2 ^ (32 - 1) - 1)) by lia.
  rewrite <- (lane_add_scalar 32 p x y) by lia. unfold lane_add, ge_mask. cbv zeta. reflexivity.
Qed.

Theorem sse_addmod32 p x0 x1 x2 x3 y0 y1 y2 y3 : 0 < p -> 2 * p <= 2 ^ 32 ->
  0 <= x0 < p -> 0 <= x1 < p -> 0 <= x2 < p -> 0 <= x3 < p -> 0 <= y0 < p -> 0 <= y1 < p -> 0 <= y2 < p -> 0 <= y3 < p ->
  gen_sse_addmod_u32 p [x0; x1; x2; x3] [y0; y1; y2; y3] = [addmod 32 p x0 y0; addmod 32 p x1 y1; addmod 32 p x2 y2; addmod 32 p x3 y3].
Proof.
  intros Hp H2 A0 A1 A2 A3 B0 B1 B2 B3.
  rewrite <- !add32_lane_ok by lia. vnorm. cbv beta zeta delta [add32_lane]. reflexivity.
Qed.

Theorem sse_submod32 p x0 x1 x2 x3 y0 y1 y2 y3 : 0 < p -> 2 * p <= 2 ^ 32 ->
  0 <= x0 < p -> 0 <= x1 < p -> 0 <= x2 < p -> 0 <= x3 < p -> 0 <= y0 < p -> 0 <= y1 < p -> 0 <= y2 < p -> 0 <= y3 < p ->
  gen_sse_submod_u32 p [x0; x1; x2; x3] [y0; y1; y2; y3] = [submod 32 p x0 y0; submod 32 p x1 y1; submod 32 p x2 y2; submod 32 p x3 y3].
Proof.
  intros Hp H2 A0 A1 A2 A3 B0 B1 B2 B3. unfold submod, wr.
  assert (E : forall y, 0 <= y < p -> (sw 32 p mod W32 - y) mod W32 = (p - y) mod 2 ^ 32).
  { intros y Hy. change W32 with (2 ^ 32). rewrite sw_mod by lia. rewrite (Z.mod_small p) by lia. reflexivity. }
  assert (R : forall y, 0 <= y < p -> 0 <= (p - y) mod 2 ^ 32 <= p) by (intros y Hy; rewrite Z.mod_small by lia; lia).
  pose proof (R y0 B0). pose proof (R y1 B1). pose proof (R y2 B2). pose proof (R y3 B3).
  rewrite <- !add32_lane_ok by lia. rewrite <- !E by assumption. vnorm. cbv beta zeta delta [add32_lane]. reflexivity.
Qed.

(* mulhi_epu32: high words of the four 32x32 products (two multiplies, a shuffle of both operands, a shift and a blend) *)
Lemma split64 v : 0 <= v < 2 ^ 64 -> v mod W32 + W32 * ((v / W32) mod W32) = v.
Proof. intros H. change W32 with (2 ^ 32) in *. rewrite (Z.mod_small (v / 2 ^ 32)) by (split; [apply Z.div_pos; lia | apply Z.div_lt_upper_bound; lia]). pose proof (Z.div_mod v (2 ^ 32) ltac:(lia)). lia. Qed.
Lemma hi64 v : 0 <= v < 2 ^ 64 -> (v / W32) mod W32 = v / W32.
Proof. intros H. change W32 with (2 ^ 32). apply Z.mod_small. split; [apply Z.div_pos; lia | apply Z.div_lt_upper_bound; lia]. Qed.
Lemma prod64 a b : 0 <= a < 2 ^ 32 -> 0 <= b < 2 ^ 32 -> 0 <= a * b < 2 ^ 64.
Proof. intros Ha Hb. change (2 ^ 64) with (2 ^ 32 * 2 ^ 32). nia. Qed.

Theorem sse_mulhi32 a0 a1 a2 a3 b0 b1 b2 b3 :
  0 <= a0 < 2 ^ 32 -> 0 <= a1 < 2 ^ 32 -> 0 <= a2 < 2 ^ 32 -> 0 <= a3 < 2 ^ 32 -> 0 <= b0 < 2 ^ 32 -> 0 <= b1 < 2 ^ 32 -> 0 <= b2 < 2 ^ 32 -> 0 <= b3 < 2 ^ 32 ->
  gen_sse_mulmod_shoup_u32_mulhi_epu32_0 [a0; a1; a2; a3] [b0; b1; b2; b3] = [a0 * b0 / W32; a1 * b1 / W32; a2 * b2 / W32; a3 * b3 / W32].
Proof.
  intros A0 A1 A2 A3 B0 B1 B2 B3.
  cbv beta delta [gen_sse_mulmod_shoup_u32_mulhi_epu32_0]. cbv zeta.
  unfold mm_mul_epu32, mm_srli_epi64, mm_shuffle_epi32, mm_blend_ps. cbn [pairs64 blocks4 app sel4 blend_from].
  change (177 mod 4) with 1. change (177 / 4 mod 4) with 0. change (177 / 16 mod 4) with 3. change (177 / 64 mod 4) with 2. cbn [sel4 Z.eqb Pos.eqb].
  change (Z.testbit 10 0) with false. change (Z.testbit 10 (0 + 1)) with true. change (Z.testbit 10 (0 + 1 + 1)) with false. change (Z.testbit 10 (0 + 1 + 1 + 1)) with true. cbv iota.
  (* each 64-bit lane holds the full product of the low words of its operands *)
  assert (L : forall a b c d, 0 <= a < 2 ^ 32 -> 0 <= b < 2 ^ 32 -> (a + W32 * c) mod W32 * ((b + W32 * d) mod W32) = a * b).
  { intros a b c d Ha Hb. change W32 with (2 ^ 32). replace (a + 2 ^ 32 * c) with (a + c * 2 ^ 32) by ring. replace (b + 2 ^ 32 * d) with (b + d * 2 ^ 32) by ring.
    rewrite !Z.mod_add by lia. rewrite !Z.mod_small by lia. reflexivity. }
  rewrite !L by assumption.
  pose proof (prod64 a0 b0 A0 B0) as P0. pose proof (prod64 a1 b1 A1 B1) as P1. pose proof (prod64 a2 b2 A2 B2) as P2. pose proof (prod64 a3 b3 A3 B3) as P3.
  rewrite !split64 by assumption. change (2 ^ 32) with W32.
  assert (S : forall v, 0 <= v < 2 ^ 64 -> (v / W32) mod W32 = v / W32) by (intros; apply hi64; assumption).
  rewrite !hi64 by assumption. reflexivity.
Qed.

(* ---------- mulmod_shoup<uint32_t, sse>: two `finish` passes on 64-bit lanes (even words, then the shuffled odd words), shift and blend ---------- *)
Definition fin64 (p x y q : Z) : Z :=                     (* one 64-bit lane of finish(): operands are the LOW words of the lane *)
  let res := ((x * y) - (q * p)) mod 2 ^ 64 in
  (res - (if sgn 64 ((res - 2 ^ 63) mod 2 ^ 64) >? sgn 64 ((p - 2 ^ 63 - 1) mod 2 ^ 64) then p else 0)) mod 2 ^ 64.

Lemma fin64_lane p x y y' : 0 < p < 2 ^ 31 -> 0 <= x < 2 ^ 32 -> 0 <= y < 2 ^ 32 -> 0 <= y' < 2 ^ 32 ->
  fin64 p x y (x * y' / W32) mod W32 = lane_mulshoup32 p x y y'.
Proof.
  intros Hp Hx Hy Hy'. unfold fin64, lane_mulshoup32, ge_mask. cbv zeta. change W32 with (2 ^ 32). change (2 ^ (64 - 1)) with (2 ^ 63).
  assert (Q : 0 <= x * y' / 2 ^ 32 < 2 ^ 32) by (split; [apply Z.div_pos; nia | apply Z.div_lt_upper_bound; nia]).
  rewrite (Zminus_mod (x * y) (x * y' / 2 ^ 32 * p)). reflexivity.
Qed.

(* two 64-bit values as four words *)
Definition w64 (a c : Z) : list Z := [a mod W32; a / W32; c mod W32; c / W32].
Lemma join64 a : 0 <= a < 2 ^ 64 -> a mod W32 + W32 * (a / W32) = a.
Proof. intros H. change W32 with (2 ^ 32). pose proof (Z.div_mod a (2 ^ 32) ltac:(lia)). lia. Qed.
Lemma m64_range v : 0 <= v mod 2 ^ 64 < 2 ^ 64. Proof. apply Z.mod_pos_bound. lia. Qed.

Lemma mul_epu32_w a0 a1 a2 a3 b0 b1 b2 b3 : 0 <= a0 < 2 ^ 32 -> 0 <= a2 < 2 ^ 32 -> 0 <= b0 < 2 ^ 32 -> 0 <= b2 < 2 ^ 32 ->
  mm_mul_epu32 [a0; a1; a2; a3] [b0; b1; b2; b3] = w64 (a0 * b0) (a2 * b2).
Proof.
  intros A0 A2 B0 B2. unfold mm_mul_epu32, w64. cbn [pairs64].
  assert (L : forall a b c d, 0 <= a < 2 ^ 32 -> 0 <= b < 2 ^ 32 -> (a + W32 * c) mod W32 * ((b + W32 * d) mod W32) = a * b).
  { intros a b c d Ha Hb. change W32 with (2 ^ 32). replace (a + 2 ^ 32 * c) with (a + c * 2 ^ 32) by ring. replace (b + 2 ^ 32 * d) with (b + d * 2 ^ 32) by ring.
    rewrite !Z.mod_add by lia. rewrite !Z.mod_small by lia. reflexivity. }
  rewrite !L by assumption. rewrite !hi64 by (apply prod64; assumption). reflexivity.
Qed.
Lemma op64_w (f : Z -> Z -> Z) a c b d : 0 <= a < 2 ^ 64 -> 0 <= c < 2 ^ 64 -> 0 <= b < 2 ^ 64 -> 0 <= d < 2 ^ 64 ->
  (forall x y, 0 <= f x y < 2 ^ 64) -> pairs64 f (w64 a c) (w64 b d) = w64 (f a b) (f c d).
Proof.
  intros A C B D F. unfold w64. cbn [pairs64]. rewrite !join64 by assumption. rewrite !hi64 by apply F. reflexivity.
Qed.
Lemma and_w (c0 c2 : bool) p : 0 <= p < 2 ^ 32 ->
  mm_and (w64 (if c0 then 2 ^ 64 - 1 else 0) (if c2 then 2 ^ 64 - 1 else 0)) (w64 p p) = w64 (if c0 then p else 0) (if c2 then p else 0).
Proof.
  intros Hp. unfold mm_and, w64. cbn [map2]. change W32 with (2 ^ 32).
  assert (Z0 : forall x, and32 x 0 = 0) by (intros x; unfold and32; change (lo16 0) with 0; change (hi16 0) with 0; rewrite !Z.land_0_r; reflexivity).
  destruct c0, c2; change ((2 ^ 64 - 1) mod 2 ^ 32) with (W32 - 1); change ((2 ^ 64 - 1) / 2 ^ 32) with (W32 - 1); change (0 mod 2 ^ 32) with 0; change (0 / 2 ^ 32) with 0;
    rewrite ?(Z.mod_small p), ?(Z.div_small p) by lia; rewrite ?Z0; rewrite ?(land_mask true p), ?(land_mask false p) by lia; reflexivity.
Qed.

Lemma set1_64 v : mm_set1_epi64x 4 v = w64 (v mod 2 ^ 64) (v mod 2 ^ 64).
Proof. reflexivity. Qed.
Lemma set1_32_p p : 0 <= p < 2 ^ 31 -> mm_set1_epi32 4 (sw 32 p) = [p; p; p; p].
Proof. intros Hp. unfold mm_set1_epi32. change W32 with (2 ^ 32). rewrite sw_mod by lia. rewrite Z.mod_small by lia. reflexivity. Qed.

Lemma finish32 p x0 x1 x2 x3 y0 y1 y2 y3 q0 q1 q2 q3 : 0 < p < 2 ^ 31 ->
  0 <= x0 < 2 ^ 32 -> 0 <= x2 < 2 ^ 32 -> 0 <= y0 < 2 ^ 32 -> 0 <= y2 < 2 ^ 32 -> 0 <= q0 < 2 ^ 32 -> 0 <= q2 < 2 ^ 32 ->
  gen_sse_mulmod_shoup_u32_finish_1 [x0; x1; x2; x3] [y0; y1; y2; y3] [q0; q1; q2; q3] (mm_set1_epi32 4 (sw 32 p)) (mm_set1_epi64x 4 p)
    (mm_set1_epi64x 4 (sw 64 (uw 64 (uw 64 (p - 9223372036854775808) - 1)))) (mm_set1_epi64x 4 (sw 64 9223372036854775808))
  = w64 (fin64 p x0 y0 q0) (fin64 p x2 y2 q2).
Proof.
  intros Hp X0 X2 Y0 Y2 Q0 Q2. cbv beta delta [gen_sse_mulmod_shoup_u32_finish_1]. cbv zeta.
  rewrite set1_32_p by lia. rewrite !set1_64. rewrite !mul_epu32_w by (try assumption; lia).
  unfold mm_sub_epi64, mm_cmpgt_epi64.
  pose proof (prod64 x0 y0 X0 Y0). pose proof (prod64 x2 y2 X2 Y2). pose proof (prod64 q0 p Q0 ltac:(lia)). pose proof (prod64 q2 p Q2 ltac:(lia)).
  rewrite (op64_w (fun x y => (x - y) mod 2 ^ 64) (x0 * y0) (x2 * y2) (q0 * p) (q2 * p)) by (try assumption; intros; apply m64_range).
  set (r0 := (x0 * y0 - q0 * p) mod 2 ^ 64). set (r2 := (x2 * y2 - q2 * p) mod 2 ^ 64).
  pose proof (m64_range (x0 * y0 - q0 * p)) as R0. pose proof (m64_range (x2 * y2 - q2 * p)) as R2. fold r0 in R0. fold r2 in R2.
  rewrite (op64_w (fun x y => (x - y) mod 2 ^ 64) r0 r2) by (try assumption; try apply m64_range; intros; apply m64_range).
  rewrite (op64_w (fun x y => if sgn 64 x >? sgn 64 y then 2 ^ 64 - 1 else 0)) by (try apply m64_range; intros; destruct (_ >? _); lia).
  rewrite (Z.mod_small p (2 ^ 64)) by lia. rewrite and_w by lia.
  rewrite (op64_w (fun x y => (x - y) mod 2 ^ 64) r0 r2) by (try assumption; try apply m64_range; try (destruct (_ >? _); lia); intros; apply m64_range).
  unfold fin64. cbv zeta. fold r0. fold r2.
  assert (E80 : sw 64 9223372036854775808 mod 2 ^ 64 = 2 ^ 63) by reflexivity.
  assert (EPC : sw 64 (uw 64 (uw 64 (p - 9223372036854775808) - 1)) mod 2 ^ 64 = (p - 2 ^ 63 - 1) mod 2 ^ 64).
  { rewrite sw_mod by lia. unfold uw. rewrite Z.mod_mod by lia. rewrite Zminus_mod_idemp_l. reflexivity. }
  rewrite E80, EPC. reflexivity.
Qed.

Lemma fin64_range p x y q : 0 <= fin64 p x y q < 2 ^ 64.
Proof. unfold fin64. cbv zeta. apply m64_range. Qed.

Theorem sse_mulmod_shoup32 p x0 x1 x2 x3 y0 y1 y2 y3 z0 z1 z2 z3 : 0 < p < 2 ^ 31 ->
  0 <= x0 < 2 ^ 32 -> 0 <= x1 < 2 ^ 32 -> 0 <= x2 < 2 ^ 32 -> 0 <= x3 < 2 ^ 32 -> 0 <= y0 < 2 ^ 32 -> 0 <= y1 < 2 ^ 32 -> 0 <= y2 < 2 ^ 32 -> 0 <= y3 < 2 ^ 32 ->
  0 <= z0 < 2 ^ 32 -> 0 <= z1 < 2 ^ 32 -> 0 <= z2 < 2 ^ 32 -> 0 <= z3 < 2 ^ 32 ->
  gen_sse_mulmod_shoup_u32 p [x0; x1; x2; x3] [y0; y1; y2; y3] [z0; z1; z2; z3] =
  [lane_mulshoup32 p x0 y0 z0; lane_mulshoup32 p x1 y1 z1; lane_mulshoup32 p x2 y2 z2; lane_mulshoup32 p x3 y3 z3].
Proof.
  intros Hp X0 X1 X2 X3 Y0 Y1 Y2 Y3 Z0 Z1 Z2 Z3.
  assert (Q : forall x z, 0 <= x < 2 ^ 32 -> 0 <= z < 2 ^ 32 -> 0 <= x * z / W32 < 2 ^ 32).
  { intros x z Hx Hz. change W32 with (2 ^ 32). split; [apply Z.div_pos; nia | apply Z.div_lt_upper_bound; nia]. }
  cbv beta delta [gen_sse_mulmod_shoup_u32]. cbv zeta. rewrite sse_mulhi32 by assumption.
  rewrite <- !fin64_lane by assumption.
  (* the second pass works on the shuffled operands: odd words moved to the even positions *)
  cbv beta delta [gen_sse_mulmod_shoup_u32_shuffle_lh_2]. cbv zeta.
  assert (SH : forall a b c d, mm_shuffle_epi32 [a; b; c; d] 177 = [b; a; d; c]) by reflexivity.
  rewrite !SH. rewrite !finish32 by (try assumption; apply Q; assumption).
  set (f0 := fin64 p x0 y0 (x0 * z0 / W32)). set (f1 := fin64 p x1 y1 (x1 * z1 / W32)).
  set (f2 := fin64 p x2 y2 (x2 * z2 / W32)). set (f3 := fin64 p x3 y3 (x3 * z3 / W32)).
  pose proof (fin64_range p x0 y0 (x0 * z0 / W32)) as F0. pose proof (fin64_range p x1 y1 (x1 * z1 / W32)) as F1.
  pose proof (fin64_range p x2 y2 (x2 * z2 / W32)) as F2. pose proof (fin64_range p x3 y3 (x3 * z3 / W32)) as F3. fold f0 in F0. fold f1 in F1. fold f2 in F2. fold f3 in F3.
  (* shift the second result to the odd words and blend *)
  unfold mm_slli_epi64. rewrite (op64_w (fun x _ => (x * 2 ^ 32) mod 2 ^ 64) f1 f3 f1 f3) by (try assumption; intros; apply m64_range).
  unfold w64, mm_blend_ps. cbn [blend_from].
  change (Z.testbit 10 0) with false. change (Z.testbit 10 (0 + 1)) with true. change (Z.testbit 10 (0 + 1 + 1)) with false. change (Z.testbit 10 (0 + 1 + 1 + 1)) with true. cbv iota.
  assert (HI : forall f, 0 <= f < 2 ^ 64 -> (f * 2 ^ 32) mod 2 ^ 64 / W32 = f mod W32).
  { intros f Hf. change W32 with (2 ^ 32). change (2 ^ 64) with (2 ^ 32 * 2 ^ 32). rewrite Z.mul_mod_distr_r by lia. rewrite Z.div_mul by lia. reflexivity. }
  rewrite !HI by assumption. reflexivity.
Qed.

(* ---------- ntt_loop_body<sse, uint32_t>: the vector Harvey butterfly ---------- *)
Lemma mulhi_same : gen_sse_ntt_loop_body_u32_mulhi_epu32_0 = gen_sse_mulmod_shoup_u32_mulhi_epu32_0.
Proof. reflexivity. Qed.

Definition bfly32_s (p a b : Z) : Z :=
  ((a + b) mod W32 - and32 (if sgn 32 (((a + b) mod W32 - sw 32 2147483648 mod W32) mod W32) >? sgn 32 (sw 32 (uw 32 (uw 32 (uw 32 (2 * p) - 2147483648) - 1)) mod W32) then W32 - 1 else 0)
                            (sw 32 (uw 32 (p * 2 ^ 1)) mod W32)) mod W32.
Definition bfly32_t1 (p a b : Z) : Z := (sw 32 (uw 32 (p * 2 ^ 1)) mod W32 + (a - b) mod W32) mod W32.
Definition bfly32_d (p wt wt' a b : Z) : Z :=
  let t1 := bfly32_t1 p a b in ((t1 * wt) mod W32 - ((t1 * wt' / W32) * (sw 32 p mod W32)) mod W32) mod W32.

Lemma bfly32_lane p wt wt' a b : 0 < p -> 4 * p <= 2 ^ 32 -> 0 <= a < 2 ^ 32 -> 0 <= b < 2 ^ 32 ->
  (bfly32_s p a b, bfly32_d p wt wt' a b) = lane_bfly 32 p wt wt' a b.
Proof.
  intros Hp H4 Ha Hb. unfold bfly32_s, bfly32_d, bfly32_t1, lane_bfly. cbv zeta. change W32 with (2 ^ 32). rewrite !sw_mod by lia. unfold uw.
  change (2 ^ 1) with 2. replace (p * 2) with (2 * p) by ring. rewrite !(Z.mod_mod (2 * p)) by lia. rewrite (Z.mod_small p (2 ^ 32)) by lia.
  change (2147483648 mod 2 ^ 32) with (2 ^ (32 - 1)).
  assert (P2 : (2 * p) mod 2 ^ 32 = 2 * p) by (apply Z.mod_small; lia).
  change (2 ^ 32 - 1) with (W32 - 1). rewrite land_mask by (rewrite ?P2; lia).
  unfold ge_mask. rewrite ?P2. rewrite (Z.mod_mod ((2 * p - 2147483648) mod 2 ^ 32 - 1)) by lia. rewrite (Zminus_mod_idemp_l (2 * p - 2147483648) 1).
    change 2147483648 with (2 ^ (32 - 1)). reflexivity.
Qed.

Theorem sse_bfly32 p a0 a1 a2 a3 b0 b1 b2 b3 i0 i1 i2 i3 w0 w1 w2 w3 : 0 < p -> 4 * p <= 2 ^ 32 ->
  0 <= a0 < 2 ^ 32 -> 0 <= a1 < 2 ^ 32 -> 0 <= a2 < 2 ^ 32 -> 0 <= a3 < 2 ^ 32 -> 0 <= b0 < 2 ^ 32 -> 0 <= b1 < 2 ^ 32 -> 0 <= b2 < 2 ^ 32 -> 0 <= b3 < 2 ^ 32 ->
  0 <= i0 < 2 ^ 32 -> 0 <= i1 < 2 ^ 32 -> 0 <= i2 < 2 ^ 32 -> 0 <= i3 < 2 ^ 32 ->
  gen_sse_ntt_loop_body_u32 p [a0; a1; a2; a3] [b0; b1; b2; b3] [i0; i1; i2; i3] [w0; w1; w2; w3] =
  (map fst [lane_bfly 32 p w0 i0 a0 b0; lane_bfly 32 p w1 i1 a1 b1; lane_bfly 32 p w2 i2 a2 b2; lane_bfly 32 p w3 i3 a3 b3],
   map snd [lane_bfly 32 p w0 i0 a0 b0; lane_bfly 32 p w1 i1 a1 b1; lane_bfly 32 p w2 i2 a2 b2; lane_bfly 32 p w3 i3 a3 b3]).
Proof.
  intros Hp H4 A0 A1 A2 A3 B0 B1 B2 B3 I0 I1 I2 I3.
  rewrite <- !bfly32_lane by assumption. cbn [map fst snd].
  cbv beta delta [gen_sse_ntt_loop_body_u32]. cbv zeta. rewrite mulhi_same.
  assert (T : forall a b, 0 <= bfly32_t1 p a b < 2 ^ 32) by (intros; unfold bfly32_t1; apply Z.mod_pos_bound; reflexivity).
  (* the vector of t1 values, then mulhi on it *)
  assert (E1 : mm_add_epi32 (mm_set1_epi32 4 (sw 32 (uw 32 (p * 2 ^ 1)))) (mm_sub_epi32 [a0; a1; a2; a3] [b0; b1; b2; b3])
             = [bfly32_t1 p a0 b0; bfly32_t1 p a1 b1; bfly32_t1 p a2 b2; bfly32_t1 p a3 b3]) by reflexivity.
  rewrite E1. rewrite sse_mulhi32 by (try apply T; assumption).
  vnorm. cbv beta zeta delta [bfly32_s bfly32_d bfly32_t1]. reflexivity.
Qed.

(* ================= AVX2, 32-bit limbs: eight lanes, the same per-lane shapes ================= *)
Theorem avx2_addmod32 p x0 x1 x2 x3 x4 x5 x6 x7 y0 y1 y2 y3 y4 y5 y6 y7 : 0 < p -> 2 * p <= 2 ^ 32 ->
  Forall (fun v => 0 <= v < p) [x0; x1; x2; x3; x4; x5; x6; x7; y0; y1; y2; y3; y4; y5; y6; y7] ->
  gen_avx2_addmod_u32 p [x0; x1; x2; x3; x4; x5; x6; x7] [y0; y1; y2; y3; y4; y5; y6; y7] =
  [addmod 32 p x0 y0; addmod 32 p x1 y1; addmod 32 p x2 y2; addmod 32 p x3 y3; addmod 32 p x4 y4; addmod 32 p x5 y5; addmod 32 p x6 y6; addmod 32 p x7 y7].
Proof.
  intros Hp H2 F. repeat match goal with H : Forall _ (_ :: _) |- _ => inversion H; clear H; subst end.
  rewrite <- !add32_lane_ok by lia. vnorm. cbv beta zeta delta [add32_lane]. reflexivity.
Qed.
Theorem avx2_submod32 p x0 x1 x2 x3 x4 x5 x6 x7 y0 y1 y2 y3 y4 y5 y6 y7 : 0 < p -> 2 * p <= 2 ^ 32 ->
  Forall (fun v => 0 <= v < p) [x0; x1; x2; x3; x4; x5; x6; x7; y0; y1; y2; y3; y4; y5; y6; y7] ->
  gen_avx2_submod_u32 p [x0; x1; x2; x3; x4; x5; x6; x7] [y0; y1; y2; y3; y4; y5; y6; y7] =
  [submod 32 p x0 y0; submod 32 p x1 y1; submod 32 p x2 y2; submod 32 p x3 y3; submod 32 p x4 y4; submod 32 p x5 y5; submod 32 p x6 y6; submod 32 p x7 y7].
Proof.
  intros Hp H2 F. repeat match goal with H : Forall _ (_ :: _) |- _ => inversion H; clear H; subst end. unfold submod, wr.
  assert (E : forall y, 0 <= y < p -> (sw 32 p mod W32 - y) mod W32 = (p - y) mod 2 ^ 32).
  { intros y Hy. change W32 with (2 ^ 32). rewrite sw_mod by lia. rewrite (Z.mod_small p) by lia. reflexivity. }
  assert (R : forall y, 0 <= y < p -> 0 <= (p - y) mod 2 ^ 32 <= p) by (intros y Hy; rewrite Z.mod_small by lia; lia).
  repeat match goal with H : 0 <= ?y < p |- _ => lazymatch goal with _ : 0 <= (p - y) mod 2 ^ 32 <= p |- _ => fail | _ => pose proof (R y H) end end.
  rewrite <- !add32_lane_ok by lia. rewrite <- !E by assumption. vnorm. cbv beta zeta delta [add32_lane]. reflexivity.
Qed.

Lemma avx2_mulhi32 a0 a1 a2 a3 a4 a5 a6 a7 b0 b1 b2 b3 b4 b5 b6 b7 :
  Forall (fun v => 0 <= v < 2 ^ 32) [a0; a1; a2; a3; a4; a5; a6; a7; b0; b1; b2; b3; b4; b5; b6; b7] ->
  gen_avx2_ntt_loop_body_u32_avx2_mulhi_epu32_0 [a0; a1; a2; a3; a4; a5; a6; a7] [b0; b1; b2; b3; b4; b5; b6; b7] =
  [a0 * b0 / W32; a1 * b1 / W32; a2 * b2 / W32; a3 * b3 / W32; a4 * b4 / W32; a5 * b5 / W32; a6 * b6 / W32; a7 * b7 / W32].
Proof.
  intros F. repeat match goal with H : Forall _ (_ :: _) |- _ => inversion H; clear H; subst end.
  cbv beta delta [gen_avx2_ntt_loop_body_u32_avx2_mulhi_epu32_0]. cbv zeta.
  assert (SH : forall a b c d e f g h, mm_shuffle_epi32 [a; b; c; d; e; f; g; h] 177 = [b; a; d; c; f; e; h; g]) by reflexivity.
  rewrite !SH.
  (* the 8-word multiply is two 4-word multiplies *)
  assert (M : forall a0 a1 a2 a3 a4 a5 a6 a7 b0 b1 b2 b3 b4 b5 b6 b7, mm_mul_epu32 [a0; a1; a2; a3; a4; a5; a6; a7] [b0; b1; b2; b3; b4; b5; b6; b7]
              = mm_mul_epu32 [a0; a1; a2; a3] [b0; b1; b2; b3] ++ mm_mul_epu32 [a4; a5; a6; a7] [b4; b5; b6; b7]) by reflexivity.
  rewrite !M. rewrite !mul_epu32_w by assumption. unfold w64. cbn [app].
  unfold mm_srli_epi64. cbn [pairs64].
  repeat match goal with |- context [?v mod W32 + W32 * (?v / W32)] => rewrite (join64 v) by (apply prod64; assumption) end.
  change (2 ^ 32) with W32. rewrite !hi64 by (apply prod64; assumption).
  unfold mm_blend_ps. cbn [blend_from].
  change (Z.testbit 170 0) with false. change (Z.testbit 170 (0 + 1)) with true. change (Z.testbit 170 (0 + 1 + 1)) with false. change (Z.testbit 170 (0 + 1 + 1 + 1)) with true.
  change (Z.testbit 170 (0 + 1 + 1 + 1 + 1)) with false. change (Z.testbit 170 (0 + 1 + 1 + 1 + 1 + 1)) with true.
  change (Z.testbit 170 (0 + 1 + 1 + 1 + 1 + 1 + 1)) with false. change (Z.testbit 170 (0 + 1 + 1 + 1 + 1 + 1 + 1 + 1)) with true. cbv iota.
  assert (S : forall v, 0 <= v < 2 ^ 64 -> (v / W32) mod W32 = v / W32) by (intros; apply hi64; assumption).
  assert (S0 : forall v, 0 <= v < 2 ^ 64 -> (v / W32) / W32 = 0) by (intros v Hv; apply Z.div_small; change W32 with (2 ^ 32); split; [apply Z.div_pos; lia | apply Z.div_lt_upper_bound; lia]).
  rewrite ?S by (apply prod64; assumption). reflexivity.
Qed.

Theorem avx2_bfly32 p a0 a1 a2 a3 a4 a5 a6 a7 b0 b1 b2 b3 b4 b5 b6 b7 i0 i1 i2 i3 i4 i5 i6 i7 w0 w1 w2 w3 w4 w5 w6 w7 : 0 < p -> 4 * p <= 2 ^ 32 ->
  Forall (fun v => 0 <= v < 2 ^ 32) [a0; a1; a2; a3; a4; a5; a6; a7; b0; b1; b2; b3; b4; b5; b6; b7; i0; i1; i2; i3; i4; i5; i6; i7] ->
  let L := [lane_bfly 32 p w0 i0 a0 b0; lane_bfly 32 p w1 i1 a1 b1; lane_bfly 32 p w2 i2 a2 b2; lane_bfly 32 p w3 i3 a3 b3;
            lane_bfly 32 p w4 i4 a4 b4; lane_bfly 32 p w5 i5 a5 b5; lane_bfly 32 p w6 i6 a6 b6; lane_bfly 32 p w7 i7 a7 b7] in
  gen_avx2_ntt_loop_body_u32 p [a0; a1; a2; a3; a4; a5; a6; a7] [b0; b1; b2; b3; b4; b5; b6; b7] [i0; i1; i2; i3; i4; i5; i6; i7] [w0; w1; w2; w3; w4; w5; w6; w7] = (map fst L, map snd L).
Proof.
  intros Hp H4 F L. unfold L. clear L. repeat match goal with H : Forall _ (_ :: _) |- _ => inversion H; clear H; subst end.
  rewrite <- !bfly32_lane by assumption. cbn [map fst snd].
  cbv beta delta [gen_avx2_ntt_loop_body_u32]. cbv zeta.
  assert (T : forall a b, 0 <= bfly32_t1 p a b < 2 ^ 32) by (intros; unfold bfly32_t1; apply Z.mod_pos_bound; reflexivity).
  assert (E1 : mm_add_epi32 (mm_set1_epi32 8 (sw 32 (uw 32 (p * 2 ^ 1)))) (mm_sub_epi32 [a0; a1; a2; a3; a4; a5; a6; a7] [b0; b1; b2; b3; b4; b5; b6; b7])
             = [bfly32_t1 p a0 b0; bfly32_t1 p a1 b1; bfly32_t1 p a2 b2; bfly32_t1 p a3 b3; bfly32_t1 p a4 b4; bfly32_t1 p a5 b5; bfly32_t1 p a6 b6; bfly32_t1 p a7 b7]) by reflexivity.
  rewrite E1. rewrite avx2_mulhi32 by (repeat (apply Forall_cons; [first [apply T | assumption]|]); apply Forall_nil).
  vnorm. cbv beta zeta delta [bfly32_s bfly32_d bfly32_t1]. reflexivity.
Qed.

(* ================= 16-bit limbs: two lanes per word ================= *)
Lemma lo_mk a b : 0 <= a < 65536 -> lo16 (mk16 a b) = a.
Proof. intros Ha. unfold lo16, mk16. replace (a + 65536 * b) with (a + b * 65536) by ring. rewrite Z.mod_add by lia. apply Z.mod_small. exact Ha. Qed.
Lemma hi_mk a b : 0 <= a < 65536 -> 0 <= b < 65536 -> hi16 (mk16 a b) = b.
Proof. intros Ha Hb. unfold hi16, mk16. replace (a + 65536 * b) with (a + b * 65536) by ring. rewrite Z.div_add by lia. rewrite (Z.div_small a) by lia. rewrite Z.add_0_l. apply Z.mod_small. exact Hb. Qed.
Lemma op16_mk f a b c d : 0 <= a < 65536 -> 0 <= b < 65536 -> 0 <= c < 65536 -> 0 <= d < 65536 ->
  op16 f (mk16 a b) (mk16 c d) = mk16 (f a c) (f b d).
Proof. intros Ha Hb Hc Hd. unfold op16. rewrite !lo_mk, !hi_mk by assumption. reflexivity. Qed.
Lemma and_mk a b c d : 0 <= a < 65536 -> 0 <= b < 65536 -> 0 <= c < 65536 -> 0 <= d < 65536 -> and32 (mk16 a b) (mk16 c d) = mk16 (Z.land a c) (Z.land b d).
Proof. intros Ha Hb Hc Hd. unfold and32. rewrite !lo_mk, !hi_mk by assumption. reflexivity. Qed.
Lemma land_mask16 (c : bool) x : 0 <= x < 65536 -> Z.land (if c then 65535 else 0) x = if c then x else 0.
Proof. intros Hx. destruct c; [apply land_ones16; exact Hx | apply Z.land_0_l]. Qed.

(* one 16-bit lane of the add kernel and of the butterfly, in the shape the generated code reduces to *)
Definition c16 (p : Z) : Z := sw 16 p mod 65536.
Definition add16_lane (p x y : Z) : Z :=
  let z := (x + y) mod 65536 in
  (z - Z.land (if sgn 16 ((z - sw 16 32768 mod 65536) mod 65536) >? sgn 16 (sw 16 (sw 32 (sw 32 (p - 32768) - 1)) mod 65536) then 65535 else 0) (c16 p)) mod 65536.
Lemma sw32_small v : - 2 ^ 31 <= v < 2 ^ 31 -> sw 32 v = v.
Proof.
  intros H. unfold sw. cbv zeta. change (2 ^ (32 - 1)) with 2147483648. change (2 ^ 31) with 2147483648 in H. change (2 ^ 32) with 4294967296.
  destruct (Z_lt_le_dec v 0).
  - assert (E : v mod 4294967296 = v + 4294967296) by (symmetry; apply (Z.mod_unique_pos v 4294967296 (-1) (v + 4294967296)); lia).
    rewrite E. destruct (Z.ltb_spec (v + 4294967296) 2147483648); lia.
  - rewrite Z.mod_small by lia. destruct (Z.ltb_spec v 2147483648); lia.
Qed.
Lemma add16_lane_ok p x y : 0 < p -> 2 * p <= 2 ^ 16 -> 0 <= x -> 0 <= y -> x + y < 2 ^ 16 -> add16_lane p x y = addmod 16 p x y.
Proof.
  intros Hp H2 Hx Hy Hs. unfold add16_lane, c16. cbv zeta. change 65536 with (2 ^ 16) in *.
  rewrite !sw_mod by lia. rewrite !sw32_small by (change (2 ^ 31) with 2147483648; rewrite ?sw32_small by (change (2 ^ 31) with 2147483648; change (2 ^ 16) with 65536 in *; lia); change (2 ^ 16) with 65536 in *; lia).
  rewrite (Z.mod_small p (2 ^ 16)) by lia. change (32768 mod 2 ^ 16) with (2 ^ (16 - 1)).
  change 65535 with (if true then 65535 else 0) at 1.
  rewrite <- (lane_add_scalar 16 p x y) by lia. unfold lane_add, ge_mask. cbv zeta.
  change (p - 32768 - 1) with (p - 2 ^ (16 - 1) - 1).
  destruct (sgn 16 (((x + y) mod 2 ^ 16 - 2 ^ (16 - 1)) mod 2 ^ 16) >? sgn 16 ((p - 2 ^ (16 - 1) - 1) mod 2 ^ 16)) eqn:E;
    unfold sg; unfold sgn in E; rewrite E; [rewrite land_ones16 by (change 65536 with (2 ^ 16); lia) | rewrite Z.land_0_l]; reflexivity.
Qed.

Definition k16 (v : Z) : Z := mk16 (v mod 65536) (v mod 65536).              (* one word of _mm_set1_epi16(v) *)
Definition add16_word (p wx wy : Z) : Z :=
  let z := op16 (fun x y => (x + y) mod 65536) wx wy in
  op16 (fun x y => (x - y) mod 65536) z
    (and32 (op16 (fun x y => if sgn 16 x >? sgn 16 y then 65535 else 0) (op16 (fun x y => (x - y) mod 65536) z (k16 (sw 16 32768))) (k16 (sw 16 (sw 32 (sw 32 (p - 32768) - 1))))) (k16 (sw 16 p))).
Lemma r16 v : 0 <= v mod 65536 < 65536. Proof. apply Z.mod_pos_bound. lia. Qed.
Lemma add16_word_ok p a b c d : 0 <= a < 65536 -> 0 <= b < 65536 -> 0 <= c < 65536 -> 0 <= d < 65536 ->
  add16_word p (mk16 a b) (mk16 c d) = mk16 (add16_lane p a c) (add16_lane p b d).
Proof.
  intros Ha Hb Hc Hd. unfold add16_word, k16. cbv zeta.
  rewrite (op16_mk _ a b c d) by assumption.
  rewrite (op16_mk _ ((a + c) mod 65536) ((b + d) mod 65536)) by apply r16.
  rewrite (op16_mk _ (((a + c) mod 65536 - sw 16 32768 mod 65536) mod 65536)) by apply r16.
  rewrite and_mk by (try apply r16; destruct (_ >? _); lia).
  rewrite !land_mask16 by apply r16.
  rewrite (op16_mk _ ((a + c) mod 65536) ((b + d) mod 65536)) by (try apply r16; destruct (_ >? _); try lia; apply r16).
  unfold add16_lane, c16. cbv zeta. rewrite !land_mask16 by apply r16. reflexivity.
Qed.

Theorem sse_addmod16 p x0 x1 x2 x3 x4 x5 x6 x7 y0 y1 y2 y3 y4 y5 y6 y7 : 0 < p -> 2 * p <= 2 ^ 16 ->
  Forall (fun v => 0 <= v < p) [x0; x1; x2; x3; x4; x5; x6; x7; y0; y1; y2; y3; y4; y5; y6; y7] ->
  gen_sse_addmod_u16 p [mk16 x0 x1; mk16 x2 x3; mk16 x4 x5; mk16 x6 x7] [mk16 y0 y1; mk16 y2 y3; mk16 y4 y5; mk16 y6 y7] =
  [mk16 (addmod 16 p x0 y0) (addmod 16 p x1 y1); mk16 (addmod 16 p x2 y2) (addmod 16 p x3 y3); mk16 (addmod 16 p x4 y4) (addmod 16 p x5 y5); mk16 (addmod 16 p x6 y6) (addmod 16 p x7 y7)].
Proof.
  intros Hp H2 F. repeat match goal with H : Forall _ (_ :: _) |- _ => inversion H; clear H; subst end. change (2 ^ 16) with 65536 in *.
  rewrite <- !add16_lane_ok by (change (2 ^ 16) with 65536; lia). rewrite <- !add16_word_ok by lia. vnorm. cbv beta zeta delta [add16_word k16]. reflexivity.
Qed.

Theorem sse_submod16 p x0 x1 x2 x3 x4 x5 x6 x7 y0 y1 y2 y3 y4 y5 y6 y7 : 0 < p -> 2 * p <= 2 ^ 16 ->
  Forall (fun v => 0 <= v < p) [x0; x1; x2; x3; x4; x5; x6; x7; y0; y1; y2; y3; y4; y5; y6; y7] ->
  gen_sse_submod_u16 p [mk16 x0 x1; mk16 x2 x3; mk16 x4 x5; mk16 x6 x7] [mk16 y0 y1; mk16 y2 y3; mk16 y4 y5; mk16 y6 y7] =
  [mk16 (submod 16 p x0 y0) (submod 16 p x1 y1); mk16 (submod 16 p x2 y2) (submod 16 p x3 y3); mk16 (submod 16 p x4 y4) (submod 16 p x5 y5); mk16 (submod 16 p x6 y6) (submod 16 p x7 y7)].
Proof.
  intros Hp H2 F. repeat match goal with H : Forall _ (_ :: _) |- _ => inversion H; clear H; subst end. change (2 ^ 16) with 65536 in *.
  unfold submod, wr. change (2 ^ 16) with 65536.
  assert (P : sw 16 p mod 65536 = p) by (change 65536 with (2 ^ 16); rewrite sw_mod by lia; apply Z.mod_small; change (2 ^ 16) with 65536; lia).
  assert (R : forall y, 0 <= y < p -> 0 <= (p - y) mod 65536 <= p) by (intros y Hy; rewrite Z.mod_small by lia; lia).
  assert (S : forall a b, 0 <= a < p -> 0 <= b < p -> op16 (fun x y => (x - y) mod 65536) (k16 (sw 16 p)) (mk16 a b) = mk16 ((p - a) mod 65536) ((p - b) mod 65536)).
  { intros a b Ha Hb. unfold k16. rewrite P. rewrite op16_mk by lia. reflexivity. }
  repeat match goal with H : 0 <= ?y < p |- _ => lazymatch goal with _ : 0 <= (p - y) mod 65536 <= p |- _ => fail | _ => pose proof (R y H) end end.
  rewrite <- !add16_lane_ok by (change (2 ^ 16) with 65536; lia). rewrite <- !add16_word_ok by lia. rewrite <- !S by assumption. vnorm. cbv beta zeta delta [add16_word k16]. reflexivity.
Qed.

(* ---------- ntt_loop_body<sse, uint16_t> ---------- *)
Definition p2_16 (p : Z) : Z := sw 16 (sw 32 (2 * p)) mod 65536.
Definition bfly16_s (p a b : Z) : Z :=
  let t0 := (a + b) mod 65536 in
  (t0 - Z.land (if sgn 16 ((t0 - sw 16 32768 mod 65536) mod 65536) >? sgn 16 (sw 16 (sw 32 (sw 32 (sw 32 (2 * p) - 32768) - 1)) mod 65536) then 65535 else 0) (p2_16 p)) mod 65536.
Definition bfly16_t1 (p a b : Z) : Z := (p2_16 p + (a - b) mod 65536) mod 65536.
Definition bfly16_d (p wt wt' a b : Z) : Z :=
  let t1 := bfly16_t1 p a b in ((t1 * wt) mod 65536 - ((t1 * wt' / 65536) * c16 p) mod 65536) mod 65536.

Lemma bfly16_lane p wt wt' a b : 0 < p -> 4 * p <= 2 ^ 16 -> 0 <= a < 2 ^ 16 -> 0 <= b < 2 ^ 16 ->
  (bfly16_s p a b, bfly16_d p wt wt' a b) = lane_bfly 16 p wt wt' a b.
Proof.
  intros Hp H4 Ha Hb. change (2 ^ 16) with 65536 in *. unfold bfly16_s, bfly16_d, bfly16_t1, p2_16, c16, lane_bfly. cbv zeta. change (2 ^ 16) with 65536.
  assert (S1 : sw 32 (2 * p) = 2 * p) by (apply sw32_small; change (2 ^ 31) with 2147483648; lia).
  assert (S2 : sw 32 (2 * p - 32768) = 2 * p - 32768) by (apply sw32_small; change (2 ^ 31) with 2147483648; lia).
  assert (S3 : sw 32 (2 * p - 32768 - 1) = 2 * p - 32768 - 1) by (apply sw32_small; change (2 ^ 31) with 2147483648; lia).
  rewrite S1, S2, S3. change 65536 with (2 ^ 16). rewrite !sw_mod by lia. change (2 ^ 16) with 65536.
  rewrite (Z.mod_small p 65536) by lia. change (32768 mod 65536) with (2 ^ (16 - 1)).
  assert (P2 : (2 * p) mod 65536 = 2 * p) by (apply Z.mod_small; lia). rewrite !P2.
  unfold ge_mask. change (2 ^ 16) with 65536. change (2 * p - 32768 - 1) with (2 * p - 2 ^ (16 - 1) - 1).
  f_equal.
  destruct (sgn 16 (((a + b) mod 65536 - 2 ^ (16 - 1)) mod 65536) >? sgn 16 ((2 * p - 2 ^ (16 - 1) - 1) mod 65536)) eqn:E;
    unfold sg; unfold sgn in E; rewrite E; [rewrite land_ones16 by lia | rewrite Z.land_0_l]; reflexivity.
Qed.

Definition bfly16_word (p wa wb wi ww : Z) : Z * Z :=
  let f16 (f : Z -> Z -> Z) := op16 f in
  let t1 := op16 (fun x y => (x + y) mod 65536) (k16 (sw 16 (sw 32 (2 * p)))) (op16 (fun x y => (x - y) mod 65536) wa wb) in
  let q := op16 (fun x y => x * y / 65536) t1 wi in
  let t2 := op16 (fun x y => (x - y) mod 65536) (op16 (fun x y => (x * y) mod 65536) t1 ww) (op16 (fun x y => (x * y) mod 65536) q (k16 (sw 16 p))) in
  let t0 := op16 (fun x y => (x + y) mod 65536) wa wb in
  let cmp := op16 (fun x y => if sgn 16 x >? sgn 16 y then 65535 else 0) (op16 (fun x y => (x - y) mod 65536) t0 (k16 (sw 16 32768))) (k16 (sw 16 (sw 32 (sw 32 (sw 32 (2 * p) - 32768) - 1)))) in
  (op16 (fun x y => (x - y) mod 65536) t0 (and32 cmp (k16 (sw 16 (sw 32 (2 * p))))), t2).

Lemma mulhi16_range x y : 0 <= x < 65536 -> 0 <= y < 65536 -> 0 <= x * y / 65536 < 65536.
Proof. intros Hx Hy. split; [apply Z.div_pos; nia | apply Z.div_lt_upper_bound; nia]. Qed.

Ltac rng := first [assumption | apply r16 | (apply mulhi16_range; rng) | (destruct (_ >? _); first [apply r16 | lia]) | lia].
Lemma bfly16_word_ok p a a' b b' i i' w w' :
  0 <= a < 65536 -> 0 <= a' < 65536 -> 0 <= b < 65536 -> 0 <= b' < 65536 -> 0 <= i < 65536 -> 0 <= i' < 65536 -> 0 <= w < 65536 -> 0 <= w' < 65536 ->
  bfly16_word p (mk16 a a') (mk16 b b') (mk16 i i') (mk16 w w') =
  (mk16 (bfly16_s p a b) (bfly16_s p a' b'), mk16 (bfly16_d p w i a b) (bfly16_d p w' i' a' b')).
Proof.
  intros Ha Ha' Hb Hb' Hi Hi' Hw Hw'. unfold bfly16_word, k16. cbv zeta.
  repeat (rewrite op16_mk by rng).
  rewrite and_mk by rng. rewrite !land_mask16 by rng.
  repeat (rewrite op16_mk by rng).
  unfold bfly16_s, bfly16_d, bfly16_t1, p2_16, c16. cbv zeta. rewrite !land_mask16 by rng. reflexivity.
Qed.

Theorem sse_bfly16 p (A B I Wt : list Z) a0 a1 a2 a3 a4 a5 a6 a7 b0 b1 b2 b3 b4 b5 b6 b7 i0 i1 i2 i3 i4 i5 i6 i7 w0 w1 w2 w3 w4 w5 w6 w7 : 0 < p -> 4 * p <= 2 ^ 16 ->
  Forall (fun v => 0 <= v < 2 ^ 16) [a0; a1; a2; a3; a4; a5; a6; a7; b0; b1; b2; b3; b4; b5; b6; b7; i0; i1; i2; i3; i4; i5; i6; i7; w0; w1; w2; w3; w4; w5; w6; w7] ->
  A = [mk16 a0 a1; mk16 a2 a3; mk16 a4 a5; mk16 a6 a7] -> B = [mk16 b0 b1; mk16 b2 b3; mk16 b4 b5; mk16 b6 b7] ->
  I = [mk16 i0 i1; mk16 i2 i3; mk16 i4 i5; mk16 i6 i7] -> Wt = [mk16 w0 w1; mk16 w2 w3; mk16 w4 w5; mk16 w6 w7] ->
  let L := fun a b i w => lane_bfly 16 p w i a b in
  gen_sse_ntt_loop_body_u16 p A B I Wt =
  ([mk16 (fst (L a0 b0 i0 w0)) (fst (L a1 b1 i1 w1)); mk16 (fst (L a2 b2 i2 w2)) (fst (L a3 b3 i3 w3)); mk16 (fst (L a4 b4 i4 w4)) (fst (L a5 b5 i5 w5)); mk16 (fst (L a6 b6 i6 w6)) (fst (L a7 b7 i7 w7))],
   [mk16 (snd (L a0 b0 i0 w0)) (snd (L a1 b1 i1 w1)); mk16 (snd (L a2 b2 i2 w2)) (snd (L a3 b3 i3 w3)); mk16 (snd (L a4 b4 i4 w4)) (snd (L a5 b5 i5 w5)); mk16 (snd (L a6 b6 i6 w6)) (snd (L a7 b7 i7 w7))]).
Proof.
  intros Hp H4 F -> -> -> -> L. unfold L. clear L. repeat match goal with H : Forall _ (_ :: _) |- _ => inversion H; clear H; subst end. change (2 ^ 16) with 65536 in *.
  rewrite <- !bfly16_lane by (change (2 ^ 16) with 65536; assumption). cbn [fst snd].
  transitivity (map fst [bfly16_word p (mk16 a0 a1) (mk16 b0 b1) (mk16 i0 i1) (mk16 w0 w1); bfly16_word p (mk16 a2 a3) (mk16 b2 b3) (mk16 i2 i3) (mk16 w2 w3);
                         bfly16_word p (mk16 a4 a5) (mk16 b4 b5) (mk16 i4 i5) (mk16 w4 w5); bfly16_word p (mk16 a6 a7) (mk16 b6 b7) (mk16 i6 i7) (mk16 w6 w7)],
                map snd [bfly16_word p (mk16 a0 a1) (mk16 b0 b1) (mk16 i0 i1) (mk16 w0 w1); bfly16_word p (mk16 a2 a3) (mk16 b2 b3) (mk16 i2 i3) (mk16 w2 w3);
                         bfly16_word p (mk16 a4 a5) (mk16 b4 b5) (mk16 i4 i5) (mk16 w4 w5); bfly16_word p (mk16 a6 a7) (mk16 b6 b7) (mk16 i6 i7) (mk16 w6 w7)]).
  - vnorm. cbv beta zeta delta [bfly16_word k16]. reflexivity.
  - rewrite !bfly16_word_ok by assumption. reflexivity.
Qed.

Lemma avx2_addsub32 p x0 x1 x2 x3 x4 x5 x6 x7 y0 y1 y2 y3 y4 y5 y6 y7 : 0 < p -> 2 * p <= 2 ^ 32 ->
  Forall (fun v => 0 <= v < p) [x0; x1; x2; x3; x4; x5; x6; x7; y0; y1; y2; y3; y4; y5; y6; y7] ->
  gen_avx2_addmod_u32 p [x0; x1; x2; x3; x4; x5; x6; x7] [y0; y1; y2; y3; y4; y5; y6; y7] =
    [addmod 32 p x0 y0; addmod 32 p x1 y1; addmod 32 p x2 y2; addmod 32 p x3 y3; addmod 32 p x4 y4; addmod 32 p x5 y5; addmod 32 p x6 y6; addmod 32 p x7 y7] /\
  gen_avx2_submod_u32 p [x0; x1; x2; x3; x4; x5; x6; x7] [y0; y1; y2; y3; y4; y5; y6; y7] =
    [submod 32 p x0 y0; submod 32 p x1 y1; submod 32 p x2 y2; submod 32 p x3 y3; submod 32 p x4 y4; submod 32 p x5 y5; submod 32 p x6 y6; submod 32 p x7 y7].
Proof. intros; split; [apply avx2_addmod32 | apply avx2_submod32]; assumption. Qed.
Lemma sse_addsub16 p x0 x1 x2 x3 x4 x5 x6 x7 y0 y1 y2 y3 y4 y5 y6 y7 : 0 < p -> 2 * p <= 2 ^ 16 ->
  Forall (fun v => 0 <= v < p) [x0; x1; x2; x3; x4; x5; x6; x7; y0; y1; y2; y3; y4; y5; y6; y7] ->
  gen_sse_addmod_u16 p [mk16 x0 x1; mk16 x2 x3; mk16 x4 x5; mk16 x6 x7] [mk16 y0 y1; mk16 y2 y3; mk16 y4 y5; mk16 y6 y7] =
    [mk16 (addmod 16 p x0 y0) (addmod 16 p x1 y1); mk16 (addmod 16 p x2 y2) (addmod 16 p x3 y3); mk16 (addmod 16 p x4 y4) (addmod 16 p x5 y5); mk16 (addmod 16 p x6 y6) (addmod 16 p x7 y7)] /\
  gen_sse_submod_u16 p [mk16 x0 x1; mk16 x2 x3; mk16 x4 x5; mk16 x6 x7] [mk16 y0 y1; mk16 y2 y3; mk16 y4 y5; mk16 y6 y7] =
    [mk16 (submod 16 p x0 y0) (submod 16 p x1 y1); mk16 (submod 16 p x2 y2) (submod 16 p x3 y3); mk16 (submod 16 p x4 y4) (submod 16 p x5 y5); mk16 (submod 16 p x6 y6) (submod 16 p x7 y7)].
Proof. intros; split; [apply sse_addmod16 | apply sse_submod16]; assumption. Qed.

(* ================= AVX2, 16-bit limbs: eight words = sixteen lanes.  Stated in two levels: the kernel is the per-WORD function mapped
   over the register (any register content), and the per-word function acts lane-wise on mk16 lo hi (add16_word_ok, bfly16_word_ok) ================= *)
Ltac list8 X := let H := fresh in
  destruct X as [|?x0 [|?x1 [|?x2 [|?x3 [|?x4 [|?x5 [|?x6 [|?x7 [|? ?]]]]]]]]]; intros H; try (cbn in H; discriminate H); clear H.

Theorem avx2_addmod16_words p X Y : length X = 8%nat -> length Y = 8%nat -> gen_avx2_addmod_u16 p X Y = map2 (add16_word p) X Y.
Proof. revert X Y. intros X Y. list8 X. list8 Y. vnorm. cbv beta zeta delta [add16_word k16]. reflexivity. Qed.

Definition sub16_word (p wx wy : Z) : Z := add16_word p wx (op16 (fun x y => (x - y) mod 65536) (k16 (sw 16 p)) wy).
Theorem avx2_submod16_words p X Y : length X = 8%nat -> length Y = 8%nat -> gen_avx2_submod_u16 p X Y = map2 (sub16_word p) X Y.
Proof. intros HX HY. revert HX HY. list8 X. list8 Y. vnorm. cbv beta zeta delta [sub16_word add16_word k16]. reflexivity. Qed.
Lemma sub16_word_ok p a b c d : 0 < p -> 2 * p <= 2 ^ 16 -> 0 <= a < p -> 0 <= b < p -> 0 <= c < p -> 0 <= d < p ->
  sub16_word p (mk16 a b) (mk16 c d) = mk16 (submod 16 p a c) (submod 16 p b d).
Proof.
  intros Hp H2 Ha Hb Hc Hd. change (2 ^ 16) with 65536 in *. unfold sub16_word, submod, wr. change (2 ^ 16) with 65536.
  assert (P : sw 16 p mod 65536 = p) by (change 65536 with (2 ^ 16); rewrite sw_mod by lia; apply Z.mod_small; change (2 ^ 16) with 65536; lia).
  unfold k16. rewrite P. rewrite (op16_mk _ p p c d) by lia.
  assert (R : forall y, 0 <= y < p -> 0 <= (p - y) mod 65536 <= p) by (intros y Hy; rewrite Z.mod_small by lia; lia).
  pose proof (R c Hc). pose proof (R d Hd).
  rewrite add16_word_ok by lia. rewrite !add16_lane_ok by (change (2 ^ 16) with 65536; lia). reflexivity.
Qed.
Lemma add16_word_lanes p a b c d : 0 < p -> 2 * p <= 2 ^ 16 -> 0 <= a < p -> 0 <= b < p -> 0 <= c < p -> 0 <= d < p ->
  add16_word p (mk16 a b) (mk16 c d) = mk16 (addmod 16 p a c) (addmod 16 p b d).
Proof. intros Hp H2 Ha Hb Hc Hd. change (2 ^ 16) with 65536 in *. rewrite add16_word_ok by lia. rewrite !add16_lane_ok by (change (2 ^ 16) with 65536; lia). reflexivity. Qed.

Fixpoint map4 (f : Z -> Z -> Z -> Z -> Z * Z) (a b c d : list Z) : list (Z * Z) :=
  match a, b, c, d with x :: a', y :: b', z :: c', t :: d' => f x y z t :: map4 f a' b' c' d' | _, _, _, _ => [] end.
Theorem avx2_bfly16_words p A B I Wt : length A = 8%nat -> length B = 8%nat -> length I = 8%nat -> length Wt = 8%nat ->
  gen_avx2_ntt_loop_body_u16 p A B I Wt = (map fst (map4 (bfly16_word p) A B I Wt), map snd (map4 (bfly16_word p) A B I Wt)).
Proof.
  intros HA HB HI HW. revert HA HB HI HW. list8 A. list8 B. list8 I. list8 Wt.
  vnorm. cbv beta iota zeta delta [map4 map fst snd bfly16_word k16]. replace (p * 2 ^ 1) with (2 * p) by (change (2 ^ 1) with 2; ring). reflexivity.
Qed.
Theorem sse_bfly16_words p A B I Wt : length A = 4%nat -> length B = 4%nat -> length I = 4%nat -> length Wt = 4%nat ->
  gen_sse_ntt_loop_body_u16 p A B I Wt = (map fst (map4 (bfly16_word p) A B I Wt), map snd (map4 (bfly16_word p) A B I Wt)).
Proof.
  intros HA HB HI HW. revert HA HB HI HW.
  destruct A as [|a0 [|a1 [|a2 [|a3 [|? ?]]]]]; intros H; try (cbn in H; discriminate H); clear H.
  destruct B as [|b0 [|b1 [|b2 [|b3 [|? ?]]]]]; intros H; try (cbn in H; discriminate H); clear H.
  destruct I as [|i0 [|i1 [|i2 [|i3 [|? ?]]]]]; intros H; try (cbn in H; discriminate H); clear H.
  destruct Wt as [|w0 [|w1 [|w2 [|w3 [|? ?]]]]]; intros H; try (cbn in H; discriminate H); clear H.
  vnorm. cbv beta iota zeta delta [map4 map fst snd bfly16_word k16]. reflexivity.
Qed.
(* per word: both lanes are the scalar lazy butterfly, for ALL lane contents *)
Theorem bfly16_word_lanes p a a' b b' i i' w w' : 0 < p -> 4 * p <= 2 ^ 16 ->
  0 <= a < 2 ^ 16 -> 0 <= a' < 2 ^ 16 -> 0 <= b < 2 ^ 16 -> 0 <= b' < 2 ^ 16 -> 0 <= i < 2 ^ 16 -> 0 <= i' < 2 ^ 16 -> 0 <= w < 2 ^ 16 -> 0 <= w' < 2 ^ 16 ->
  bfly16_word p (mk16 a a') (mk16 b b') (mk16 i i') (mk16 w w') =
  (mk16 (fst (lane_bfly 16 p w i a b)) (fst (lane_bfly 16 p w' i' a' b')), mk16 (snd (lane_bfly 16 p w i a b)) (snd (lane_bfly 16 p w' i' a' b'))).
Proof.
  intros Hp H4 Ha Ha' Hb Hb' Hi Hi' Hw Hw'. rewrite <- !bfly16_lane by assumption. cbn [fst snd]. change (2 ^ 16) with 65536 in *. apply bfly16_word_ok; assumption.
Qed.

(* ================= 16-bit Shoup kernels: widen to 32-bit words (cvtepu16), 32-bit lane arithmetic, pack back with unsigned saturation ================= *)
(* one 32-bit word of finish(): x, y, q are 16-bit lanes zero-extended *)
Definition ms16_w (p x y q : Z) : Z :=
  let res := ((x * y) mod W32 - (q * (p mod W32)) mod W32) mod W32 in
  (res - and32 (if sgn 32 ((res - sw 32 2147483648 mod W32) mod W32) >? sgn 32 (sw 32 (uw 32 (uw 32 (p - 2147483648) - 1)) mod W32) then W32 - 1 else 0) (p mod W32)) mod W32.
Lemma ms16_w_lane p x y y' : 0 < p < 2 ^ 31 -> 0 <= x < 65536 -> 0 <= y < 65536 -> 0 <= y' < 65536 ->
  sat16 (sgn 32 (ms16_w p x y (x * y' / 65536))) = lane_mulshoup16 p x y y'.
Proof.
  intros Hp Hx Hy Hy'. unfold ms16_w, lane_mulshoup16, ge_mask. cbv zeta. change W32 with (2 ^ 32).
  rewrite !sw_mod by lia. unfold uw. rewrite (Z.mod_small p (2 ^ 32)) by lia. change (2147483648 mod 2 ^ 32) with (2 ^ (32 - 1)).
  change (2 ^ 32 - 1) with (W32 - 1). rewrite land_mask by lia. change (2 ^ 16) with 65536.
  rewrite (Z.mod_mod ((p - 2147483648) mod 2 ^ 32 - 1)) by lia. rewrite (Zminus_mod_idemp_l (p - 2147483648) 1). change 2147483648 with (2 ^ (32 - 1)).
  reflexivity.
Qed.
Lemma ms16_w_range p x y q : 0 <= ms16_w p x y q < 2 ^ 32.
Proof. unfold ms16_w. cbv zeta. change (2 ^ 32) with W32. apply Z.mod_pos_bound. reflexivity. Qed.

(* the SSE kernel on a register of eight 16-bit lanes given as four words *)
Theorem sse_mulmod_shoup16 p x0 x1 x2 x3 x4 x5 x6 x7 y0 y1 y2 y3 y4 y5 y6 y7 z0 z1 z2 z3 z4 z5 z6 z7 : 0 < p < 2 ^ 31 ->
  Forall (fun v => 0 <= v < 65536) [x0; x1; x2; x3; x4; x5; x6; x7; y0; y1; y2; y3; y4; y5; y6; y7; z0; z1; z2; z3; z4; z5; z6; z7] ->
  gen_sse_mulmod_shoup_u16 p [mk16 x0 x1; mk16 x2 x3; mk16 x4 x5; mk16 x6 x7] [mk16 y0 y1; mk16 y2 y3; mk16 y4 y5; mk16 y6 y7] [mk16 z0 z1; mk16 z2 z3; mk16 z4 z5; mk16 z6 z7] =
  [mk16 (lane_mulshoup16 p x0 y0 z0) (lane_mulshoup16 p x1 y1 z1); mk16 (lane_mulshoup16 p x2 y2 z2) (lane_mulshoup16 p x3 y3 z3);
   mk16 (lane_mulshoup16 p x4 y4 z4) (lane_mulshoup16 p x5 y5 z5); mk16 (lane_mulshoup16 p x6 y6 z6) (lane_mulshoup16 p x7 y7 z7)].
Proof.
  intros Hp F. repeat match goal with H : Forall _ (_ :: _) |- _ => inversion H; clear H; subst end.
  rewrite <- !ms16_w_lane by assumption.
  cbv beta iota zeta delta [gen_sse_mulmod_shoup_u16 gen_sse_mulmod_shoup_u16_mulhi_epu16_0 gen_sse_mulmod_shoup_u16_finish_1 gen_sse_mulmod_shoup_u16_shift8_2
    mm_mulhi_epu16 mm_cvtepu16_epi32 cvt16 mm_srli_si128_8 blocks4 app mm_sub_epi32 mm_mullo_epi32 mm_cmpgt_epi32 mm_and mm_set1_epi32 mm_packus_epi32 map2 repeat pk].
  repeat (rewrite op16_mk by rng).
  assert (Z0 : lo16 0 = 0) by reflexivity. assert (Z1 : hi16 0 = 0) by reflexivity.
  rewrite ?lo_mk, ?hi_mk by rng. rewrite ?Z0, ?Z1.
  cbv beta zeta delta [ms16_w]. reflexivity.
Qed.

(* muladd_shoup<uint16_t>: the same with the accumulator added before the compare (there the bias is ADDED: same lane, mod 2^32) *)
Definition ma16_w (p rop x y q : Z) : Z :=
  let res := (rop + ((x * y) mod W32 - (q * (p mod W32)) mod W32) mod W32) mod W32 in
  (res - and32 (if sgn 32 ((res + sw 32 2147483648 mod W32) mod W32) >? sgn 32 (sw 32 (uw 32 (uw 32 (p - 2147483648) - 1)) mod W32) then W32 - 1 else 0) (p mod W32)) mod W32.
Lemma ma16_w_lane p rop x y y' : 0 < p < 2 ^ 31 -> 0 <= rop < 65536 -> 0 <= x < 65536 -> 0 <= y < 65536 -> 0 <= y' < 65536 ->
  sat16 (sgn 32 (ma16_w p rop x y (x * y' / 65536))) = lane_muladdshoup16 p rop x y y'.
Proof.
  intros Hp Hr Hx Hy Hy'. unfold ma16_w, lane_muladdshoup16, ge_mask. cbv zeta. change W32 with (2 ^ 32).
  rewrite !sw_mod by lia. unfold uw. rewrite (Z.mod_small p (2 ^ 32)) by lia. change (2147483648 mod 2 ^ 32) with (2 ^ (32 - 1)).
  change (2 ^ 32 - 1) with (W32 - 1). rewrite land_mask by lia. change (2 ^ 16) with 65536.
  rewrite (Z.mod_mod ((p - 2147483648) mod 2 ^ 32 - 1)) by lia. rewrite (Zminus_mod_idemp_l (p - 2147483648) 1). change 2147483648 with (2 ^ (32 - 1)).
  (* adding 2^31 and subtracting 2^31 agree modulo 2^32 *)
  set (res := (rop + ((x * y) mod 2 ^ 32 - (x * y' / 65536 * p) mod 2 ^ 32) mod 2 ^ 32) mod 2 ^ 32).
  replace ((res + 2 ^ (32 - 1)) mod 2 ^ 32) with ((res - 2 ^ (32 - 1)) mod 2 ^ 32).
  2:{ replace (res + 2 ^ (32 - 1)) with (res - 2 ^ (32 - 1) + 1 * 2 ^ 32) by (change (2 ^ (32 - 1)) with 2147483648; change (2 ^ 32) with 4294967296; ring).
      rewrite Z.mod_add by lia. reflexivity. }
  reflexivity.
Qed.

Theorem sse_muladd_shoup16 p r0 r1 r2 r3 r4 r5 r6 r7 x0 x1 x2 x3 x4 x5 x6 x7 y0 y1 y2 y3 y4 y5 y6 y7 z0 z1 z2 z3 z4 z5 z6 z7 : 0 < p < 2 ^ 31 ->
  Forall (fun v => 0 <= v < 65536) [r0; r1; r2; r3; r4; r5; r6; r7; x0; x1; x2; x3; x4; x5; x6; x7; y0; y1; y2; y3; y4; y5; y6; y7; z0; z1; z2; z3; z4; z5; z6; z7] ->
  gen_sse_muladd_shoup_u16 p [mk16 r0 r1; mk16 r2 r3; mk16 r4 r5; mk16 r6 r7] [mk16 x0 x1; mk16 x2 x3; mk16 x4 x5; mk16 x6 x7]
                             [mk16 y0 y1; mk16 y2 y3; mk16 y4 y5; mk16 y6 y7] [mk16 z0 z1; mk16 z2 z3; mk16 z4 z5; mk16 z6 z7] =
  [mk16 (lane_muladdshoup16 p r0 x0 y0 z0) (lane_muladdshoup16 p r1 x1 y1 z1); mk16 (lane_muladdshoup16 p r2 x2 y2 z2) (lane_muladdshoup16 p r3 x3 y3 z3);
   mk16 (lane_muladdshoup16 p r4 x4 y4 z4) (lane_muladdshoup16 p r5 x5 y5 z5); mk16 (lane_muladdshoup16 p r6 x6 y6 z6) (lane_muladdshoup16 p r7 x7 y7 z7)].
Proof.
  intros Hp F. repeat match goal with H : Forall _ (_ :: _) |- _ => inversion H; clear H; subst end.
  rewrite <- !ma16_w_lane by assumption.
  cbv beta iota zeta delta [gen_sse_muladd_shoup_u16 gen_sse_muladd_shoup_u16_mulhi_epu16_0 gen_sse_muladd_shoup_u16_finish_1 gen_sse_muladd_shoup_u16_shift8_2
    mm_mulhi_epu16 mm_cvtepu16_epi32 cvt16 mm_srli_si128_8 blocks4 app mm_add_epi32 mm_sub_epi32 mm_mullo_epi32 mm_cmpgt_epi32 mm_and mm_set1_epi32 mm_packus_epi32 map2 repeat pk].
  repeat (rewrite op16_mk by rng).
  assert (Z0 : lo16 0 = 0) by reflexivity. assert (Z1 : hi16 0 = 0) by reflexivity.
  rewrite ?lo_mk, ?hi_mk by rng. rewrite ?Z0, ?Z1.
  cbv beta zeta delta [ma16_w]. reflexivity.
Qed.

(* AVX2: 8 words in, cvtepu16 to 8 dwords, one finish over the 256-bit register, permute2x128 + castsi256_si128 + packus to 4 words *)
Theorem avx2_mulmod_shoup16 p x0 x1 x2 x3 x4 x5 x6 x7 y0 y1 y2 y3 y4 y5 y6 y7 z0 z1 z2 z3 z4 z5 z6 z7 : 0 < p < 2 ^ 31 ->
  Forall (fun v => 0 <= v < 65536) [x0; x1; x2; x3; x4; x5; x6; x7; y0; y1; y2; y3; y4; y5; y6; y7; z0; z1; z2; z3; z4; z5; z6; z7] ->
  gen_avx2_mulmod_shoup_u16 p [mk16 x0 x1; mk16 x2 x3; mk16 x4 x5; mk16 x6 x7] [mk16 y0 y1; mk16 y2 y3; mk16 y4 y5; mk16 y6 y7] [mk16 z0 z1; mk16 z2 z3; mk16 z4 z5; mk16 z6 z7] =
  [mk16 (lane_mulshoup16 p x0 y0 z0) (lane_mulshoup16 p x1 y1 z1); mk16 (lane_mulshoup16 p x2 y2 z2) (lane_mulshoup16 p x3 y3 z3);
   mk16 (lane_mulshoup16 p x4 y4 z4) (lane_mulshoup16 p x5 y5 z5); mk16 (lane_mulshoup16 p x6 y6 z6) (lane_mulshoup16 p x7 y7 z7)].
Proof.
  intros Hp F. repeat match goal with H : Forall _ (_ :: _) |- _ => inversion H; clear H; subst end.
  rewrite <- !ms16_w_lane by assumption.
  cbv beta iota zeta delta [gen_avx2_mulmod_shoup_u16 gen_avx2_mulmod_shoup_u16_mulhi_epu16_0 gen_avx2_mulmod_shoup_u16_finish_1
    mm_mulhi_epu16 mm256_cvtepu16_epi32 cvt16 app mm_sub_epi32 mm_mullo_epi32 mm_cmpgt_epi32 mm_and mm_set1_epi32 mm_packus_epi32 map2 repeat pk
    mm256_permute2x128_si256 mm256_castsi256_si128 half firstn skipn].
  change (Z.testbit (1 mod 16) 3) with false. change (Z.testbit (1 / 16) 3) with false.
  change ((1 mod 16) mod 4 =? 0) with false. change ((1 mod 16) mod 4 =? 1) with true. change ((1 / 16) mod 4 =? 0) with true.
  cbv beta iota delta [firstn skipn app].
  repeat (rewrite op16_mk by rng).
  rewrite ?lo_mk, ?hi_mk by rng.
  cbv beta zeta delta [ms16_w]. reflexivity.
Qed.

Definition ma16_ws (p rop x y q : Z) : Z :=
  let res := (rop + ((x * y) mod W32 - (q * (p mod W32)) mod W32) mod W32) mod W32 in
  (res - and32 (if sgn 32 ((res - sw 32 2147483648 mod W32) mod W32) >? sgn 32 (sw 32 (uw 32 (uw 32 (p - 2147483648) - 1)) mod W32) then W32 - 1 else 0) (p mod W32)) mod W32.
Lemma ma16_ws_lane p rop x y y' : 0 < p < 2 ^ 31 -> 0 <= rop < 65536 -> 0 <= x < 65536 -> 0 <= y < 65536 -> 0 <= y' < 65536 ->
  sat16 (sgn 32 (ma16_ws p rop x y (x * y' / 65536))) = lane_muladdshoup16 p rop x y y'.
Proof.
  intros Hp Hr Hx Hy Hy'. unfold ma16_ws, lane_muladdshoup16, ge_mask. cbv zeta. change W32 with (2 ^ 32).
  rewrite !sw_mod by lia. unfold uw. rewrite (Z.mod_small p (2 ^ 32)) by lia. change (2147483648 mod 2 ^ 32) with (2 ^ (32 - 1)).
  change (2 ^ 32 - 1) with (W32 - 1). rewrite land_mask by lia. change (2 ^ 16) with 65536.
  rewrite (Z.mod_mod ((p - 2147483648) mod 2 ^ 32 - 1)) by lia. rewrite (Zminus_mod_idemp_l (p - 2147483648) 1). change 2147483648 with (2 ^ (32 - 1)).
  reflexivity.
Qed.

Theorem avx2_muladd_shoup16 p r0 r1 r2 r3 r4 r5 r6 r7 x0 x1 x2 x3 x4 x5 x6 x7 y0 y1 y2 y3 y4 y5 y6 y7 z0 z1 z2 z3 z4 z5 z6 z7 : 0 < p < 2 ^ 31 ->
  Forall (fun v => 0 <= v < 65536) [r0; r1; r2; r3; r4; r5; r6; r7; x0; x1; x2; x3; x4; x5; x6; x7; y0; y1; y2; y3; y4; y5; y6; y7; z0; z1; z2; z3; z4; z5; z6; z7] ->
  gen_avx2_muladd_shoup_u16 p [mk16 r0 r1; mk16 r2 r3; mk16 r4 r5; mk16 r6 r7] [mk16 x0 x1; mk16 x2 x3; mk16 x4 x5; mk16 x6 x7]
                              [mk16 y0 y1; mk16 y2 y3; mk16 y4 y5; mk16 y6 y7] [mk16 z0 z1; mk16 z2 z3; mk16 z4 z5; mk16 z6 z7] =
  [mk16 (lane_muladdshoup16 p r0 x0 y0 z0) (lane_muladdshoup16 p r1 x1 y1 z1); mk16 (lane_muladdshoup16 p r2 x2 y2 z2) (lane_muladdshoup16 p r3 x3 y3 z3);
   mk16 (lane_muladdshoup16 p r4 x4 y4 z4) (lane_muladdshoup16 p r5 x5 y5 z5); mk16 (lane_muladdshoup16 p r6 x6 y6 z6) (lane_muladdshoup16 p r7 x7 y7 z7)].
Proof.
  intros Hp F. repeat match goal with H : Forall _ (_ :: _) |- _ => inversion H; clear H; subst end.
  rewrite <- !ma16_ws_lane by assumption.
  cbv beta iota zeta delta [gen_avx2_muladd_shoup_u16 gen_avx2_muladd_shoup_u16_mulhi_epu16_0 gen_avx2_muladd_shoup_u16_finish_1
    mm_mulhi_epu16 mm256_cvtepu16_epi32 cvt16 app mm_add_epi32 mm_sub_epi32 mm_mullo_epi32 mm_cmpgt_epi32 mm_and mm_set1_epi32 mm_packus_epi32 map2 repeat pk
    mm256_permute2x128_si256 mm256_castsi256_si128 half firstn skipn].
  change (Z.testbit (1 mod 16) 3) with false. change (Z.testbit (1 / 16) 3) with false.
  change ((1 mod 16) mod 4 =? 0) with false. change ((1 mod 16) mod 4 =? 1) with true. change ((1 / 16) mod 4 =? 0) with true.
  cbv beta iota delta [firstn skipn app].
  repeat (rewrite op16_mk by rng).
  rewrite ?lo_mk, ?hi_mk by rng.
  cbv beta zeta delta [ma16_ws]. reflexivity.
Qed.

(* both 16-bit Shoup kernels of one build, stated together *)
Lemma F32_tail (P : Z -> Prop) r0 r1 r2 r3 r4 r5 r6 r7 l : Forall P (r0 :: r1 :: r2 :: r3 :: r4 :: r5 :: r6 :: r7 :: l) -> Forall P l.
Proof. intros F. do 8 (apply Forall_inv_tail in F). exact F. Qed.
Lemma sse_shoup16 p r0 r1 r2 r3 r4 r5 r6 r7 x0 x1 x2 x3 x4 x5 x6 x7 y0 y1 y2 y3 y4 y5 y6 y7 z0 z1 z2 z3 z4 z5 z6 z7 : 0 < p < 2 ^ 31 ->
  Forall (fun v => 0 <= v < 65536) [r0; r1; r2; r3; r4; r5; r6; r7; x0; x1; x2; x3; x4; x5; x6; x7; y0; y1; y2; y3; y4; y5; y6; y7; z0; z1; z2; z3; z4; z5; z6; z7] ->
  let m := mk16 in
  gen_sse_mulmod_shoup_u16 p [m x0 x1; m x2 x3; m x4 x5; m x6 x7] [m y0 y1; m y2 y3; m y4 y5; m y6 y7] [m z0 z1; m z2 z3; m z4 z5; m z6 z7] =
    [m (lane_mulshoup16 p x0 y0 z0) (lane_mulshoup16 p x1 y1 z1); m (lane_mulshoup16 p x2 y2 z2) (lane_mulshoup16 p x3 y3 z3);
     m (lane_mulshoup16 p x4 y4 z4) (lane_mulshoup16 p x5 y5 z5); m (lane_mulshoup16 p x6 y6 z6) (lane_mulshoup16 p x7 y7 z7)] /\
  gen_sse_muladd_shoup_u16 p [m r0 r1; m r2 r3; m r4 r5; m r6 r7] [m x0 x1; m x2 x3; m x4 x5; m x6 x7] [m y0 y1; m y2 y3; m y4 y5; m y6 y7] [m z0 z1; m z2 z3; m z4 z5; m z6 z7] =
    [m (lane_muladdshoup16 p r0 x0 y0 z0) (lane_muladdshoup16 p r1 x1 y1 z1); m (lane_muladdshoup16 p r2 x2 y2 z2) (lane_muladdshoup16 p r3 x3 y3 z3);
     m (lane_muladdshoup16 p r4 x4 y4 z4) (lane_muladdshoup16 p r5 x5 y5 z5); m (lane_muladdshoup16 p r6 x6 y6 z6) (lane_muladdshoup16 p r7 x7 y7 z7)].
Proof. intros Hp F m. split; [apply sse_mulmod_shoup16; [exact Hp | exact (F32_tail _ _ _ _ _ _ _ _ _ _ F)] | apply sse_muladd_shoup16; assumption]. Qed.
Lemma avx2_shoup16 p r0 r1 r2 r3 r4 r5 r6 r7 x0 x1 x2 x3 x4 x5 x6 x7 y0 y1 y2 y3 y4 y5 y6 y7 z0 z1 z2 z3 z4 z5 z6 z7 : 0 < p < 2 ^ 31 ->
  Forall (fun v => 0 <= v < 65536) [r0; r1; r2; r3; r4; r5; r6; r7; x0; x1; x2; x3; x4; x5; x6; x7; y0; y1; y2; y3; y4; y5; y6; y7; z0; z1; z2; z3; z4; z5; z6; z7] ->
  let m := mk16 in
  gen_avx2_mulmod_shoup_u16 p [m x0 x1; m x2 x3; m x4 x5; m x6 x7] [m y0 y1; m y2 y3; m y4 y5; m y6 y7] [m z0 z1; m z2 z3; m z4 z5; m z6 z7] =
    [m (lane_mulshoup16 p x0 y0 z0) (lane_mulshoup16 p x1 y1 z1); m (lane_mulshoup16 p x2 y2 z2) (lane_mulshoup16 p x3 y3 z3);
     m (lane_mulshoup16 p x4 y4 z4) (lane_mulshoup16 p x5 y5 z5); m (lane_mulshoup16 p x6 y6 z6) (lane_mulshoup16 p x7 y7 z7)] /\
  gen_avx2_muladd_shoup_u16 p [m r0 r1; m r2 r3; m r4 r5; m r6 r7] [m x0 x1; m x2 x3; m x4 x5; m x6 x7] [m y0 y1; m y2 y3; m y4 y5; m y6 y7] [m z0 z1; m z2 z3; m z4 z5; m z6 z7] =
    [m (lane_muladdshoup16 p r0 x0 y0 z0) (lane_muladdshoup16 p r1 x1 y1 z1); m (lane_muladdshoup16 p r2 x2 y2 z2) (lane_muladdshoup16 p r3 x3 y3 z3);
     m (lane_muladdshoup16 p r4 x4 y4 z4) (lane_muladdshoup16 p r5 x5 y5 z5); m (lane_muladdshoup16 p r6 x6 y6 z6) (lane_muladdshoup16 p r7 x7 y7 z7)].
Proof. intros Hp F m. split; [apply avx2_mulmod_shoup16; [exact Hp | exact (F32_tail _ _ _ _ _ _ _ _ _ _ F)] | apply avx2_muladd_shoup16; assumption]. Qed.
