(* The expression node each operator of ops.hpp builds, as tools/cxxopnodes2coq.py reads it from the source on every run (gen/GenOpNodes.v: the tree
   of functors denoted by the TYPE of each expression, after checking that every construction function -- the operator overloads, make_op,
   _make_op::operator(), the shoup specialisation, expr's constructor -- passes its operands on in order), is the tree the SYNTAX of the
   expression says: the functor of the operator at the root (+ addmod, - submod, * mulmod, == eqmod, != neqmod), the operands' trees left and right,
   for every combination of polynomial / expression operands; shoup(a * b, c) is the three-operand node mulmod_shoup(a, b, c), compute_shoup(x)
   the one-operand node compute_shoup(x).  This is what
   the model of C07 (Expr.tree, ExprExec.tr) assumes about the way an expression is turned into a tree. *)
From Coq Require Import String List Bool.
From NTT.gen Require Import GenOpNodes.
Import ListNotations.
Local Open Scope string_scope.

(* the syntax, as a tree *)
Inductive sx := V | Un (f : string) (a : sx) | Bin (f : string) (a b : sx) | Tri (f : string) (a b c : sx).
Fixpoint show (t : sx) : string :=
  match t with
  | V => "P"
  | Un f a => f ++ "(" ++ show a ++ ")"
  | Bin f a b => f ++ "(" ++ show a ++ ", " ++ show b ++ ")"
  | Tri f a b c => f ++ "(" ++ show a ++ ", " ++ show b ++ ", " ++ show c ++ ")"
  end.
Definition functor_of (sym : string) : string :=
  if String.eqb sym "+" then "addmod" else if String.eqb sym "-" then "submod" else if String.eqb sym "*" then "mulmod" else if String.eqb sym "==" then "eqmod" else "neqmod".
Definition sum := Bin "addmod" V V.
Definition dif := Bin "submod" V V.
Definition expected_for (sym : string) : list (string * string) :=
  let f := functor_of sym in
  [("a " ++ sym ++ " b", show (Bin f V V)); ("a " ++ sym ++ " (b + c)", show (Bin f V sum)); ("(a + b) " ++ sym ++ " c", show (Bin f sum V)); ("(a + b) " ++ sym ++ " (c - d)", show (Bin f sum dif))].
Definition expected : list (string * string) :=
  expected_for "+" ++ expected_for "-" ++ expected_for "*" ++ expected_for "==" ++ expected_for "!=" ++ [("shoup(a * b, c)", show (Tri "mulmod_shoup" V V V)); ("compute_shoup(a)", show (Un "compute_shoup" V)); ("compute_shoup(a + b)", show (Un "compute_shoup" sum))].
Definition pair_eqb (x y : string * string) : bool := String.eqb (fst x) (fst y) && String.eqb (snd x) (snd y).
Definition same (a b : list (string * string)) : bool := Nat.eqb (List.length a) (List.length b) && forallb (fun x => existsb (pair_eqb x) b) a.

Theorem source_op_nodes : same expected gen_op_nodes_serial = true /\ same expected gen_op_nodes_avx2 = true.
Proof. split; vm_compute; reflexivity. Qed.
Corollary source_op_node e t : In (e, t) expected -> In (e, t) gen_op_nodes_serial /\ In (e, t) gen_op_nodes_avx2.
Proof.
  intros H. destruct source_op_nodes as [A B]. unfold same in A, B. apply andb_true_iff in A, B. destruct A as [_ A], B as [_ B]. rewrite forallb_forall in A, B.
  assert (K : forall l, existsb (pair_eqb (e, t)) l = true -> In (e, t) l).
  { intros l Hl. apply existsb_exists in Hl. destruct Hl as [[e' t'] [Hin E]]. unfold pair_eqb in E. cbn in E. apply andb_true_iff in E. destruct E as [E1 E2]. apply String.eqb_eq in E1, E2. subst. exact Hin. }
  split; apply K; [apply A | apply B]; exact H.
Qed.
