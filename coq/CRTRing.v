(* C04: the CRT lift is a ring isomorphism -- residue-wise addition, subtraction, multiplication, and the negacyclic product of whole
   polynomials, lifted coefficient by coefficient with poly2mpz, equal the same operations on the lifted big integers modulo Q. *)
From Coq Require Import ZArith Znumtheory Lia List Arith Morphisms Setoid.
From NTT Require Import Algebra CRT CRTExec.
Import ListNotations.
Local Open Scope Z_scope.

Section Ring.
Variable w : Z.  Hypothesis Hw : 0 <= w.
Variable ps : list Z.
Hypothesis ps_ne : ps <> [].
Hypothesis ps_rng : forall i, (i < length ps)%nat -> 1 < nth i ps 1 < 2 ^ w.
Hypothesis ps_cop : forall i j, (i < length ps)%nat -> (j < length ps)%nat -> i <> j -> rel_prime (nth i ps 1) (nth j ps 1).

Definition canon (rs : list Z) : Prop := length rs = length ps /\ forall i, (i < length ps)%nat -> 0 <= nth i rs 0 < nth i ps 1.
Local Notation lift := (poly2mpz_coef w ps).
Local Notation Q := (prod ps).

(* residues that are the reductions of ONE integer X lift to X mod Q *)
Lemma lift_of_congruent rs X : length rs = length ps -> (forall i, (i < length ps)%nat -> nth i rs 0 = X mod nth i ps 1) -> lift rs = Some (X mod Q).
Proof.
  intros Hl Hr. destruct (modinvs_complete ps (fun i Hi => proj1 (ps_rng i Hi)) ps_cop) as [invs E].
  rewrite <- (poly2mpz_mpz2poly w ps Hw ps_ne ps_rng ps_cop invs E X). f_equal.
  apply (nth_ext _ _ 0 0); [unfold mpz2poly_coef; rewrite map_length; exact Hl|].
  intros i Hi. rewrite Hl in Hi. rewrite mpz2poly_nth by exact Hi. apply Hr. exact Hi.
Qed.

Lemma lift_residue rs x i : canon rs -> lift rs = Some x -> (i < length ps)%nat -> nth i rs 0 = x mod nth i ps 1.
Proof.
  intros [Hl Hr] E Hi. destruct (modinvs_complete ps (fun i Hi => proj1 (ps_rng i Hi)) ps_cop) as [invs Ei].
  pose proof (mpz2poly_poly2mpz w ps Hw ps_ne ps_rng invs Ei rs x Hl Hr E) as M. rewrite <- M. apply mpz2poly_nth. exact Hi.
Qed.

(* a residue-wise binary operation that respects congruences *)
Definition rns_op (f : Z -> Z -> Z) (ra rb : list Z) : list Z := map (fun i => f (nth i ra 0) (nth i rb 0) mod nth i ps 1) (seq 0 (length ps)).
Definition compat (f : Z -> Z -> Z) : Prop := forall p a a' b b', 0 < p -> a mod p = a' mod p -> b mod p = b' mod p -> f a b mod p = f a' b' mod p.

Lemma rns_op_nth f ra rb i : (i < length ps)%nat -> nth i (rns_op f ra rb) 0 = f (nth i ra 0) (nth i rb 0) mod nth i ps 1.
Proof.
  intros Hi. unfold rns_op. set (g := fun i => f (nth i ra 0) (nth i rb 0) mod nth i ps 1).
  rewrite (nth_indep _ 0 (g 0%nat)) by (rewrite map_length, seq_length; exact Hi). rewrite map_nth, seq_nth by exact Hi. reflexivity.
Qed.

Theorem crt_ring_op f ra rb xa xb : compat f -> canon ra -> canon rb -> lift ra = Some xa -> lift rb = Some xb ->
  lift (rns_op f ra rb) = Some (f xa xb mod Q).
Proof.
  intros Hf Ca Cb Ea Eb. apply lift_of_congruent; [unfold rns_op; now rewrite map_length, seq_length|].
  intros i Hi. rewrite rns_op_nth by exact Hi. pose proof (ps_rng i Hi).
  apply Hf; [lia | rewrite (lift_residue ra xa i Ca Ea Hi); apply Z.mod_mod; lia | rewrite (lift_residue rb xb i Cb Eb Hi); apply Z.mod_mod; lia].
Qed.

Lemma compat_add : compat Z.add. Proof. intros p a a' b b' Hp Ha Hb. rewrite Z.add_mod, Ha, Hb, <- Z.add_mod by lia. reflexivity. Qed.
Lemma compat_sub : compat Z.sub. Proof. intros p a a' b b' Hp Ha Hb. rewrite Zminus_mod, Ha, Hb, <- Zminus_mod. reflexivity. Qed.
Lemma compat_mul : compat Z.mul. Proof. intros p a a' b b' Hp Ha Hb. rewrite Z.mul_mod, Ha, Hb, <- Z.mul_mod by lia. reflexivity. Qed.

Corollary crt_add ra rb xa xb : canon ra -> canon rb -> lift ra = Some xa -> lift rb = Some xb -> lift (rns_op Z.add ra rb) = Some ((xa + xb) mod Q).
Proof. apply crt_ring_op, compat_add. Qed.
Corollary crt_sub ra rb xa xb : canon ra -> canon rb -> lift ra = Some xa -> lift rb = Some xb -> lift (rns_op Z.sub ra rb) = Some ((xa - xb) mod Q).
Proof. apply crt_ring_op, compat_sub. Qed.
Corollary crt_mul ra rb xa xb : canon ra -> canon rb -> lift ra = Some xa -> lift rb = Some xb -> lift (rns_op Z.mul ra rb) = Some ((xa * xb) mod Q).
Proof. apply crt_ring_op, compat_mul. Qed.

(* whole polynomials: A t, B t = residue vectors of coefficient t;  XA t, XB t = their lifts.  Coefficient k of the product computed
   modulus by modulus in Z_p[X]/(X^n+1) lifts to coefficient k of the product of the lifted polynomials in Z_Q[X]/(X^n+1) *)
Theorem crt_negacyclic n (A B : nat -> list Z) (XA XB : nat -> Z) k :
  (forall t, (t < n)%nat -> canon (A t) /\ lift (A t) = Some (XA t)) -> (forall t, (t < n)%nat -> canon (B t) /\ lift (B t) = Some (XB t)) -> (k < n)%nat ->
  lift (map (fun i => negacyc n (fun t => nth i (A t) 0) (fun t => nth i (B t) 0) k mod nth i ps 1) (seq 0 (length ps))) = Some (negacyc n XA XB k mod Q).
Proof.
  intros HA HB Hk. apply lift_of_congruent; [now rewrite map_length, seq_length|].
  intros i Hi. set (g := fun i => negacyc n (fun t => nth i (A t) 0) (fun t => nth i (B t) 0) k mod nth i ps 1).
  rewrite (nth_indep _ 0 (g 0%nat)) by (rewrite map_length, seq_length; exact Hi). rewrite map_nth, seq_nth by exact Hi. unfold g. cbn [Nat.add].
  pose proof (ps_rng i Hi) as Hp.
  change (cg (nth i ps 1) (negacyc n (fun t => nth i (A t) 0) (fun t => nth i (B t) 0) k) (negacyc n XA XB k)).
  unfold negacyc. apply sum_cg; [lia|]. intros t Ht.
  assert (Ea : forall u, (u < n)%nat -> cg (nth i ps 1) (nth i (A u) 0) (XA u)).
  { intros u Hu. destruct (HA u Hu) as [C E]. unfold cg. rewrite (lift_residue (A u) (XA u) i C E Hi). apply Z.mod_mod. lia. }
  assert (Eb : forall u, (u < n)%nat -> cg (nth i ps 1) (nth i (B u) 0) (XB u)).
  { intros u Hu. destruct (HB u Hu) as [C E]. unfold cg. rewrite (lift_residue (B u) (XB u) i C E Hi). apply Z.mod_mod. lia. }
  pose proof (mul_cg (nth i ps 1) ltac:(lia)) as PM. pose proof (opp_cg (nth i ps 1)) as PO.
  destruct (t <=? k)%nat eqn:E.
  - apply Nat.leb_le in E. apply PM; [apply Ea; lia | apply Eb; lia].
  - apply Nat.leb_gt in E. apply PO. apply PM; [apply Ea; lia | apply Eb; lia].
Qed.
End Ring.
Print Assumptions crt_negacyclic.
