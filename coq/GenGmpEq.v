(* The translated big-integer functions of gen/GenGmp.v are the shapes of GmpSpec.v (by reflexivity), hence compute the model of CRTExec.v:
   the translated constructor followed by the translated poly2mpz lifts every coefficient to the model's poly2mpz_coef; the translated
   mpz2poly stores the model's mpz2poly_coef. *)
From Coq Require Import ZArith Znumtheory List Lia Bool Arith.
From NTT Require Import CRT CRTExec CxxSem MemSem GmpSem LoopSpec GaussSetSpec GmpSpec.
From NTT.gen Require Import GenGmp.
Import ListNotations.
Local Open Scope Z_scope.

Lemma ctor_u16_shape : gen_gmp_ctor_u16 = ctor_sh 16. Proof. reflexivity. Qed.
Lemma ctor_u32_shape : gen_gmp_ctor_u32 = ctor_sh 32. Proof. reflexivity. Qed.
Lemma ctor_u64_shape : gen_gmp_ctor_u64 = ctor_sh 64. Proof. reflexivity. Qed.
Lemma p2m_u16_shape : gen_poly2mpz_u16 = p2m_sh. Proof. reflexivity. Qed.
Lemma p2m_u32_shape : gen_poly2mpz_u32 = p2m_sh. Proof. reflexivity. Qed.
Lemma p2m_u64_shape : gen_poly2mpz_u64 = p2m_sh. Proof. reflexivity. Qed.
Lemma m2p_u16_shape : gen_mpz2poly_u16 = m2p_sh (fun c => uw 16 c). Proof. reflexivity. Qed.
Lemma m2p_u32_shape : gen_mpz2poly_u32 = m2p_sh (fun c => uw 32 c). Proof. reflexivity. Qed.
Lemma m2p_u64_shape : gen_mpz2poly_u64 = m2p_sh (fun c => c). Proof. reflexivity. Qed.

Lemma accl_nonneg : forall rs Ls, Forall (fun x => 0 <= x) rs -> Forall (fun x => 0 <= x) Ls -> 0 <= accl rs Ls.
Proof.
  induction rs as [|r rs IH]; intros Ls Hr HL; [destruct Ls; cbn; lia|]. destruct Ls as [|l Ls]; [cbn; lia|]. cbn [accl].
  inversion Hr; subst. inversion HL; subst. specialize (IH Ls H2 H4). destruct (r =? 0); nia.
Qed.

Section Lift.
Variable w : Z.
Variables (n m : nat) (P L0 op rop0 invs : list Z).
Hypothesis Hw : 0 <= w.
Hypothesis HPl : (m <= length P)%nat.
Hypothesis HL0 : length L0 = m.
Hypothesis Hpos : forall i, (i < m)%nat -> 1 < nth i (firstn m P) 1.
Hypothesis Hshift : shiftQ w (firstn m P) < 2 ^ 62.
Hypothesis Hinv : all_some (modinvs (firstn m P)) = Some invs.
Hypothesis Hop : length op = (m * n)%nat.
Hypothesis Hopr : Forall (fun x => 0 <= x) op.
Hypothesis Hr0 : length rop0 = n.
Hypothesis Hsmall : Z.of_nat (m * n) < 2 ^ 61.
Hypothesis Hn61 : Z.of_nat n < 2 ^ 61.
Hypothesis Hm61 : Z.of_nat m < 2 ^ 61.
Let psl := firstn m P.
Let Q := prod psl.
Let s := shiftQ w psl.
Let Ls := map (Fl m P invs) (seq 0 m).

Lemma Ls_nonneg : Forall (fun x => 0 <= x) Ls.
Proof.
  unfold Ls. apply Forall_tab. intros j Hj. unfold Fl.
  assert (Hlen : length psl = m) by (apply ps_len; exact HPl).
  destruct (all_some_nth (modinvs psl) invs j Hinv) as [Enth _]; [unfold modinvs; rewrite map_length, seq_length; lia|].
  unfold modinvs in Enth. rewrite nth_tab_opt in Enth by lia.
  pose proof (Hpos j Hj) as Hp. destruct (modinv_ok _ _ _ Hp Enth) as [_ Ri].
  assert (0 < prod psl) by (apply (Qpos m P HPl Hpos)).
  change (ps m P) with psl. change (firstn m P) with psl in Hp, Ri. assert (0 <= prod psl / nth j psl 1) by (apply Z.div_pos; lia). nia.
Qed.
Lemma col_nonneg i : Forall (fun x => 0 <= x) (col n m op i).
Proof.
  unfold col. apply Forall_tab. intros cm Hc. destruct (Nat.ltb_spec (cm * n + i) (length op)) as [Hlt|Hge].
  - exact (Forall_nth_R (fun x => 0 <= x) op (cm * n + i) Hopr Hlt).
  - rewrite nth_overflow by lia. lia.
Qed.

(* constructor, then lift: every coefficient is the model's poly2mpz_coef of its column of residues *)
Theorem ctor_then_lift (ctor : Z -> list Z -> Z -> Z -> Z -> Z -> Z -> list Z -> option (Z * Z * Z * Z * Z * Z * Z * list Z))
  (p2m : Z -> Z -> Z -> Z -> list Z -> list Z -> list Z -> Z -> Z -> option (Z * list Z)) : ctor = ctor_sh w -> p2m = p2m_sh ->
  forall a b c d e, exists bits b2 q cur t res,
    ctor (Z.of_nat m) P a b c d e L0 = Some (Q, bits, s, 2 ^ s / Q, b2, q, cur, Ls) /\
    p2m (Z.of_nat n) (Z.of_nat m) s b2 rop0 op Ls (2 ^ s / Q) Q = Some (t, res) /\ length res = n /\
    forall i, (i < n)%nat -> poly2mpz_coef w psl (col n m op i) = Some (nth i res 0).
Proof.
  intros -> -> a b c d e.
  exists (Z.log2 Q + 1), (gmp_sizeinbase2 (2 ^ s / Q)), (quotf m P m), (curf m P m), (tmpf n m op Ls s (2 ^ s / Q) n), (map (Gv n m op Ls Q s (2 ^ s / Q)) (seq 0 n)).
  split; [apply (ctor_ok w m P Hw HPl Hpos Hm61 Hshift invs Hinv L0 HL0)|].
  split; [apply p2m_ok; try assumption; unfold Ls; apply tabz_length|].
  split; [apply tabz_length|]. intros i Hi. rewrite tabz_nth by exact Hi. unfold poly2mpz_coef.
  pose proof (lifting_is m P HPl invs Hinv) as LI. change (ps m P) with psl in LI. rewrite LI. cbn [option_map]. f_equal. fold Ls. unfold Gv.
  assert (HQ : 0 < Q) by (apply (Qpos m P HPl Hpos)).
  assert (Hs0 : 0 <= s). { unfold s, shiftQ. pose proof (Z.log2_nonneg (prod psl)). pose proof (Z.log2_nonneg (Z.of_nat (length psl))). lia. }
  symmetry. apply red_gen_reduceQ; try assumption. apply accl_nonneg; [apply col_nonneg | apply Ls_nonneg].
Qed.
End Lift.

(* the three limb types *)
Definition lift_statement (w : Z) (ctor : Z -> list Z -> Z -> Z -> Z -> Z -> Z -> list Z -> option (Z * Z * Z * Z * Z * Z * Z * list Z))
  (p2m : Z -> Z -> Z -> Z -> list Z -> list Z -> list Z -> Z -> Z -> option (Z * list Z)) := forall (n m : nat) (P L0 op rop0 invs : list Z), (m <= length P)%nat -> length L0 = m ->
  (forall i, (i < m)%nat -> 1 < nth i (firstn m P) 1) -> shiftQ w (firstn m P) < 2 ^ 62 -> all_some (modinvs (firstn m P)) = Some invs ->
  length op = (m * n)%nat -> Forall (fun x => 0 <= x) op -> length rop0 = n -> Z.of_nat (m * n) < 2 ^ 61 -> Z.of_nat n < 2 ^ 61 -> Z.of_nat m < 2 ^ 61 ->
  forall a b c d e : Z, exists (bits b2 q cur t : Z) (res : list Z),
    let psl := firstn m P in let Q := prod psl in let s := shiftQ w psl in let Ls := map (Fl m P invs) (seq 0 m) in
    ctor (Z.of_nat m) P a b c d e L0 = Some (Q, bits, s, 2 ^ s / Q, b2, q, cur, Ls) /\
    p2m (Z.of_nat n) (Z.of_nat m) s b2 rop0 op Ls (2 ^ s / Q) Q = Some (t, res) /\ length res = n /\
    forall i, (i < n)%nat -> poly2mpz_coef w psl (col n m op i) = Some (nth i res 0).
Theorem source_lift_u16 : lift_statement 16 gen_gmp_ctor_u16 gen_poly2mpz_u16.
Proof. intros n m P L0 op rop0 invs H1 H2 H3 H4 H5 H6 H7 H8 H9 H10 H11 a b c d e. exact (ctor_then_lift 16 n m P L0 op rop0 invs ltac:(lia) H1 H2 H3 H4 H5 H6 H7 H8 H9 H10 H11 _ _ ctor_u16_shape p2m_u16_shape a b c d e). Qed.
Theorem source_lift_u32 : lift_statement 32 gen_gmp_ctor_u32 gen_poly2mpz_u32.
Proof. intros n m P L0 op rop0 invs H1 H2 H3 H4 H5 H6 H7 H8 H9 H10 H11 a b c d e. exact (ctor_then_lift 32 n m P L0 op rop0 invs ltac:(lia) H1 H2 H3 H4 H5 H6 H7 H8 H9 H10 H11 _ _ ctor_u32_shape p2m_u32_shape a b c d e). Qed.
Theorem source_lift_u64 : lift_statement 64 gen_gmp_ctor_u64 gen_poly2mpz_u64.
Proof. intros n m P L0 op rop0 invs H1 H2 H3 H4 H5 H6 H7 H8 H9 H10 H11 a b c d e. exact (ctor_then_lift 64 n m P L0 op rop0 invs ltac:(lia) H1 H2 H3 H4 H5 H6 H7 H8 H9 H10 H11 _ _ ctor_u64_shape p2m_u64_shape a b c d e). Qed.

Definition m2p_statement (bits : Z) (m2p : Z -> Z -> list Z -> list Z -> list Z -> option (list Z)) := forall (n nm : nat) (P vals data0 : list Z), length data0 = (nm * n)%nat -> length vals = n -> Z.of_nat (nm * n) < 2 ^ 61 ->
  (0 < n)%nat -> Z.of_nat n < 2 ^ 61 -> (nm <= length P)%nat -> Forall (fun p => 0 < p < 2 ^ bits) (firstn nm P) ->
  exists res, m2p (Z.of_nat n) (Z.of_nat nm) P data0 vals = Some res /\ length res = (nm * n)%nat /\
  forall cm i, (cm < nm)%nat -> (i < n)%nat -> nth (cm * n + i) res 0 = nth cm (mpz2poly_coef (firstn nm P) (nth i vals 0)) 0.
Lemma m2p_any bits stw m2p : 8 <= bits <= 64 -> (forall c, 0 <= c < 2 ^ bits -> stw c = c) -> m2p = m2p_sh stw -> m2p_statement bits m2p.
Proof.
  intros Hb Hs -> n nm P vals data0 Hd Hv Hsm Hn Hn61 HPl HPr. exists (map (Hm n P vals) (seq 0 (nm * n))).
  split; [apply (m2p_ok bits Hb stw Hs n nm P vals data0 Hd Hv Hsm Hn Hn61 HPl HPr)|]. split; [apply tabz_length|].
  intros cm i Hc Hi. apply (m2p_word n nm P vals data0 Hd Hv Hsm Hn HPl cm i Hc Hi).
Qed.
Theorem source_mpz2poly_u16 : m2p_statement 16 gen_mpz2poly_u16.
Proof. apply (m2p_any 16 (fun c => uw 16 c)); [lia | intros c Hc; apply uw_small; exact Hc | exact m2p_u16_shape]. Qed.
Theorem source_mpz2poly_u32 : m2p_statement 32 gen_mpz2poly_u32.
Proof. apply (m2p_any 32 (fun c => uw 32 c)); [lia | intros c Hc; apply uw_small; exact Hc | exact m2p_u32_shape]. Qed.
Theorem source_mpz2poly_u64 : m2p_statement 64 gen_mpz2poly_u64.
Proof. apply (m2p_any 64 (fun c => c)); [lia | reflexivity | exact m2p_u64_shape]. Qed.
