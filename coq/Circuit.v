(* C01: evaluation form is a ring isomorphism.  The forward transform maps coefficient-wise sum / difference and the negacyclic product
   in Z_p[X]/(X^n+1) to pointwise sum / difference / product, so ANY arithmetic circuit evaluated pointwise on the transformed leaves and
   transformed back equals the same circuit evaluated in the quotient ring. *)
From Coq Require Import ZArith Lia List Arith Morphisms Setoid.
From NTT Require Import Functors Algebra Layer Transform Rev Inverse Tables NTTInst NTTClosed.
Import ListNotations.
Local Open Scope Z_scope.

Section Circuit.
Variables (w p g ik : Z) (K k0 : nat).
Hypothesis Hw : 0 < w.
Hypothesis Hp1 : 1 < p.
Hypothesis H4p : 4 * p <= 2 ^ w.
Hypothesis Hg : (g ^ (2 ^ Z.of_nat K)) mod p = p - 1.
Hypothesis Hik : (ik * 2 ^ Z.of_nat K) mod p = 1.
Hypothesis HkK : (S k0 <= K)%nat.
Let n := (2 ^ S k0)%nat.

Local Notation fwd := (ntt_fwd w p g K k0).
Local Notation inv := (ntt_inv w p g ik K k0).

(* coefficient-wise / pointwise sum and difference (addmod / submod on canonical words: C03) *)
Definition ladd (u v : list Z) : list Z := tab k0 (fun j => (nth j u 0 + nth j v 0) mod p).
Definition lsub (u v : list Z) : list Z := tab k0 (fun j => (nth j u 0 - nth j v 0) mod p).

Lemma canon_tab f : canonical p k0 (tab k0 (fun j => f j mod p)).
Proof. split; [apply tab_length|]. intros i Hi. rewrite tab_nth by exact Hi. apply Z.mod_pos_bound. lia. Qed.

Lemma fwd_len x : length x = n -> length (fwd x) = n.
Proof. intros L. apply (closed_fwd_canonical w p g K k0 Hw Hp1 H4p Hg HkK x L). Qed.

Lemma fwd_lin (op : Z -> Z -> Z) (opS : forall m f h, sum m (fun i => op (f i) (h i)) = op (sum m f) (sum m h))
  (opM : forall a b c, op a b * c = op (a * c) (b * c)) (opC : forall a a' b b', cg p a a' -> cg p b b' -> cg p (op a b) (op a' b')) a b :
  length a = n -> length b = n ->
  fwd (tab k0 (fun j => op (nth j a 0) (nth j b 0) mod p)) = tab k0 (fun j => op (nth j (fwd a) 0) (nth j (fwd b) 0) mod p).
Proof.
  intros La Lb. set (c := tab k0 (fun j => op (nth j a 0) (nth j b 0) mod p)).
  assert (Lc : length c = n) by apply tab_length.
  apply (nth_ext _ _ 0 0); [rewrite fwd_len by exact Lc; now rewrite tab_length|].
  intros j Hj. rewrite fwd_len in Hj by exact Lc. rewrite tab_nth by exact Hj.
  destruct (closed_fwd_eval w p g K k0 Hw Hp1 H4p Hg HkK a j La Hj) as [_ ->].
  destruct (closed_fwd_eval w p g K k0 Hw Hp1 H4p Hg HkK b j Lb Hj) as [_ ->].
  destruct (closed_fwd_eval w p g K k0 Hw Hp1 H4p Hg HkK c j Lc Hj) as [_ ->].
  set (ps := psi k0 (phi p g K k0) j).
  change (cg p (sum (2 ^ S k0) (fun t => nth t c 0 * pw ps t))
               (op (sum (2 ^ S k0) (fun t => nth t a 0 * pw ps t) mod p) (sum (2 ^ S k0) (fun t => nth t b 0 * pw ps t) mod p))).
  assert (Hp : 0 < p) by lia.
  transitivity (op (sum (2 ^ S k0) (fun t => nth t a 0 * pw ps t)) (sum (2 ^ S k0) (fun t => nth t b 0 * pw ps t))).
  - rewrite <- opS. apply sum_cg; [exact Hp|]. intros t Ht. unfold c. rewrite tab_nth by exact Ht. rewrite <- opM.
    apply (mul_cg p Hp); [|reflexivity]. unfold cg. apply Z.mod_mod. lia.
  - apply opC; unfold cg; symmetry; apply Z.mod_mod; lia.
Qed.

Theorem fwd_add a b : length a = n -> length b = n -> fwd (ladd a b) = ladd (fwd a) (fwd b).
Proof.
  apply (fwd_lin Z.add).
  - intros m f h. apply sum_add.
  - intros; ring.
  - intros a0 a' b0 b' H1 H2. apply (add_cg p ltac:(lia)); assumption.
Qed.
Theorem fwd_sub a b : length a = n -> length b = n -> fwd (lsub a b) = lsub (fwd a) (fwd b).
Proof.
  apply (fwd_lin Z.sub).
  - intros m f h. apply sum_sub.
  - intros; ring.
  - intros a0 a' b0 b' H1 H2. apply (sub_cg p); assumption.
Qed.
(* the transform of the ring product is the pointwise product *)
Theorem fwd_mul a b : length a = n -> length b = n -> fwd (nega_spec p k0 a b) = ntt_mul p k0 (fwd a) (fwd b).
Proof.
  intros La Lb. rewrite <- (closed_product w p g ik K k0 Hw Hp1 H4p Hg Hik HkK a b La Lb).
  apply (closed_fwd_inv w p g ik K k0 Hw Hp1 H4p Hg Hik HkK). unfold ntt_mul, pointwise. apply canon_tab.
Qed.

(* arithmetic circuits *)
Inductive cexp := Leaf (i : nat) | CAdd (a b : cexp) | CSub (a b : cexp) | CMul (a b : cexp).
Fixpoint evalR (env : nat -> list Z) (e : cexp) : list Z :=        (* in Z_p[X]/(X^n+1), coefficient form *)
  match e with Leaf i => env i | CAdd a b => ladd (evalR env a) (evalR env b) | CSub a b => lsub (evalR env a) (evalR env b)
             | CMul a b => nega_spec p k0 (evalR env a) (evalR env b) end.
Fixpoint evalN (env : nat -> list Z) (e : cexp) : list Z :=        (* pointwise, evaluation form *)
  match e with Leaf i => env i | CAdd a b => ladd (evalN env a) (evalN env b) | CSub a b => lsub (evalN env a) (evalN env b)
             | CMul a b => ntt_mul p k0 (evalN env a) (evalN env b) end.

Lemma evalR_len env e : (forall i, length (env i) = n) -> length (evalR env e) = n.
Proof. intros He. destruct e; cbn [evalR]; [apply He | apply tab_length | apply tab_length | unfold nega_spec, negacyclic; apply tab_length]. Qed.

Theorem circuit_hom env e : (forall i, length (env i) = n) -> evalN (fun i => fwd (env i)) e = fwd (evalR env e).
Proof.
  intros He. induction e as [i|a IHa b IHb|a IHa b IHb|a IHa b IHb]; cbn [evalN evalR]; [reflexivity| | |];
    rewrite IHa, IHb; symmetry; [apply fwd_add | apply fwd_sub | apply fwd_mul]; apply evalR_len; exact He.
Qed.

Lemma evalR_canon env e : (forall i, canonical p k0 (env i)) -> canonical p k0 (evalR env e).
Proof. intros He. destruct e; cbn [evalR]; [apply He | apply canon_tab | apply canon_tab | unfold nega_spec, negacyclic; apply canon_tab]. Qed.

(* any circuit: transform the (canonical) leaves, evaluate pointwise, transform back = evaluate in the quotient ring *)
Theorem circuit_correct env e : (forall i, canonical p k0 (env i)) -> inv (evalN (fun i => fwd (env i)) e) = evalR env e.
Proof.
  intros He. rewrite circuit_hom by (intros i; apply He).
  apply (closed_inv_fwd w p g ik K k0 Hw Hp1 H4p Hg Hik HkK). apply evalR_canon. exact He.
Qed.
End Circuit.
Print Assumptions circuit_correct.
