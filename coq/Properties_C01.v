(* C01 — NTT-domain product equals negacyclic ring multiplication.  Statements only (see Properties_C02.v for the model). *)
From Coq Require Import ZArith List.
From NTT Require Import Functors Algebra Inverse NTTInst NTTClosed NTTTables Shards Circuit CircuitTables.
From NTT.gen Require Import Params.
Local Open Scope Z_scope.

(* the fifth conjunct of transform_ok: for every row, every degree 2..maxdeg, all inputs of the right length,
   inv (fwd a . fwd b) = negacyclic a b  (coefficient k = sum_{i+j=k} a_i b_j - sum_{i+j=k+n} a_i b_j, reduced into [0,p));
   together with additivity and the two round trips this makes evaluation form a ring isomorphism *)
Theorem C01_product_all_rows_all_degrees :
  transform_ok 16 K16 rows16 /\ transform_ok 32 K32 rows32 /\ transform_ok 64 K64 rows64.
Proof. exact transform_ok_tables. Qed.
Print Assumptions C01_product_all_rows_all_degrees.

Theorem C01_product_open : forall w p g ik K k0, 0 < w -> 1 < p -> 4 * p <= 2 ^ w ->
  (g ^ (2 ^ Z.of_nat K)) mod p = p - 1 -> (ik * 2 ^ Z.of_nat K) mod p = 1 -> (S k0 <= K)%nat ->
  forall a b, length a = (2 ^ S k0)%nat -> length b = (2 ^ S k0)%nat ->
  ntt_inv w p g ik K k0 (ntt_mul p k0 (ntt_fwd w p g K k0 a) (ntt_fwd w p g K k0 b)) = nega_spec p k0 a b.
Proof. exact closed_product. Qed.
Print Assumptions C01_product_open.

(* ring isomorphism: ANY arithmetic circuit over +, -, * evaluated pointwise on the transformed (canonical) leaves and transformed back
   equals the same circuit evaluated in Z_p[X]/(X^n+1) -- every row of every table, every degree 2..maxdeg, circuits of unbounded size *)
Theorem C01_circuits_all_rows_all_degrees : circuits_ok 16 K16 rows16 /\ circuits_ok 32 K32 rows32 /\ circuits_ok 64 K64 rows64.
Proof. exact circuits_ok_tables. Qed.
Print Assumptions C01_circuits_all_rows_all_degrees.
(* its three ingredients, open form: the forward transform is a ring homomorphism *)
Theorem C01_fwd_homomorphism : forall w p g ik K k0, 0 < w -> 1 < p -> 4 * p <= 2 ^ w ->
  (g ^ (2 ^ Z.of_nat K)) mod p = p - 1 -> (ik * 2 ^ Z.of_nat K) mod p = 1 -> (S k0 <= K)%nat ->
  forall env e, (forall i, length (env i) = (2 ^ S k0)%nat) ->
  evalN p k0 (fun i => ntt_fwd w p g K k0 (env i)) e = ntt_fwd w p g K k0 (evalR p k0 env e).
Proof. exact circuit_hom. Qed.
Print Assumptions C01_fwd_homomorphism.

(* the spec side really is the schoolbook negacyclic product *)
Theorem C01_spec_is_negacyclic : forall p k0 a b i, (i < 2 ^ S k0)%nat ->
  nth i (nega_spec p k0 a b) 0 = (negacyc (2 ^ S k0) (fun t => nth t a 0) (fun t => nth t b 0) i) mod p.
Proof. exact nega_spec_nth. Qed.
Print Assumptions C01_spec_is_negacyclic.

Example C01_nonvacuous :
  let a := 3 :: 5690 :: 11377 :: 1703 :: 7390 :: 13077 :: 3403 :: 9090 :: nil in
  let b := 11 :: 4554 :: 2822 :: 10176 :: 11255 :: 6059 :: 9949 :: 7564 :: nil in
  ntt_inv 16 15361 4989 15331 9 2 (ntt_mul 15361 2 (ntt_fwd 16 15361 4989 9 2 a) (ntt_fwd 16 15361 4989 9 2 b))
  = 2135 :: 605 :: 6806 :: 3629 :: 43 :: 373 :: 4300 :: 6861 :: nil.
Proof. vm_compute. reflexivity. Qed.
