(* C01 — NTT-domain product equals negacyclic ring multiplication.  Statements only (see Properties_C02.v for the model). *)
From Coq Require Import ZArith List.
From NTT Require Import Functors Algebra Inverse NTTInst NTTClosed NTTTables Shards Circuit CircuitTables.
From NTT.gen Require Import Params.
From NTT Require GenInitEq RoundTripSrc.
From NTT.gen Require GenLoop.
Local Open Scope Z_scope.

(* the fifth conjunct of transform_ok: for every row, every degree 2..maxdeg, all inputs of the right length,
   inv (fwd a . fwd b) = negacyclic a b  (coefficient k = sum_{i+j=k} a_i b_j - sum_{i+j=k+n} a_i b_j, reduced into [0,p));
   together with additivity and the two round trips this makes evaluation form a ring isomorphism *)
Theorem C01_product_all_rows_all_degrees :
  transform_ok 16 K16 rows16 /\ transform_ok 32 K32 rows32 /\ transform_ok 64 K64 rows64.
Proof. exact transform_ok_tables. Qed.
Print Assumptions C01_product_all_rows_all_degrees.

Theorem C01_product_open : forall w p g ik K k0, 0 < w -> 1 < p -> 4 * p <= 2 ^ w ->
  (g ^ (2 ^ Z.of_nat K)) mod p = p - 1 -> (ik * 2 ^ Z.of_nat K) mod p = 1 -> (S k0 <= K)%nat ->
  forall a b, length a = (2 ^ S k0)%nat -> length b = (2 ^ S k0)%nat ->
  ntt_inv w p g ik K k0 (ntt_mul p k0 (ntt_fwd w p g K k0 a) (ntt_fwd w p g K k0 b)) = nega_spec p k0 a b.
Proof. exact closed_product. Qed.
Print Assumptions C01_product_open.

(* ring isomorphism: ANY arithmetic circuit over +, -, * evaluated pointwise on the transformed (canonical) leaves and transformed back
   equals the same circuit evaluated in Z_p[X]/(X^n+1) -- every row of every table, every degree 2..maxdeg, circuits of unbounded size *)
Theorem C01_circuits_all_rows_all_degrees : circuits_ok 16 K16 rows16 /\ circuits_ok 32 K32 rows32 /\ circuits_ok 64 K64 rows64.
Proof. exact circuits_ok_tables. Qed.
Print Assumptions C01_circuits_all_rows_all_degrees.
(* its three ingredients, open form: the forward transform is a ring homomorphism *)
Theorem C01_fwd_homomorphism : forall w p g ik K k0, 0 < w -> 1 < p -> 4 * p <= 2 ^ w ->
  (g ^ (2 ^ Z.of_nat K)) mod p = p - 1 -> (ik * 2 ^ Z.of_nat K) mod p = 1 -> (S k0 <= K)%nat ->
  forall env e, (forall i, length (env i) = (2 ^ S k0)%nat) ->
  evalN p k0 (fun i => ntt_fwd w p g K k0 (env i)) e = ntt_fwd w p g K k0 (evalR p k0 env e).
Proof. exact circuit_hom. Qed.
Print Assumptions C01_fwd_homomorphism.

(* the spec side really is the schoolbook negacyclic product *)
Theorem C01_spec_is_negacyclic : forall p k0 a b i, (i < 2 ^ S k0)%nat ->
  nth i (nega_spec p k0 a b) 0 = (negacyc (2 ^ S k0) (fun t => nth t a 0) (fun t => nth t b 0) i) mod p.
Proof. exact nega_spec_nth. Qed.
Print Assumptions C01_spec_is_negacyclic.

Example C01_nonvacuous :
  let a := 3 :: 5690 :: 11377 :: 1703 :: 7390 :: 13077 :: 3403 :: 9090 :: nil in
  let b := 11 :: 4554 :: 2822 :: 10176 :: 11255 :: 6059 :: 9949 :: 7564 :: nil in
  ntt_inv 16 15361 4989 15331 9 2 (ntt_mul 15361 2 (ntt_fwd 16 15361 4989 9 2 a) (ntt_fwd 16 15361 4989 9 2 b))
  = 2135 :: 605 :: 6806 :: 3629 :: 43 :: 373 :: 4300 :: 6861 :: nil.
Proof. vm_compute. reflexivity. Qed.

(* THE PRODUCT ON THE TRANSLATED SOURCE.  With core::initialize(), core::ntt_pow_phi and core::invntt_pow_invphi translated from the source on this
   run (every build; the expression-template statement of the two transforms with the meaning fixed in ExprSem.v): transform both factors,
   multiply the evaluation forms row by row (ntt_mul: what the statement c = a * b stores -- its evaluation by the library is C07/C03), transform
   back: the negacyclic product of the two polynomials in every modulus (nega_spec: C01_spec_is_negacyclic), any number of moduli, any
   degree 2^4 .. maxdeg, any canonical factors, table rows as C06 proves them.  Composition of C02_source_initialize, C02_source_ntt_pow_phi,
   C02_source_invntt_pow_invphi with C01_product_open. *)
Theorem C01_source_product_u16 : forall P roots invk k0 nm fuel ph0 sph0 ipd0 ipi0 sipi0 om0 iom0 a b y0, (4 <= S k0 <= 9)%nat -> (S k0 < fuel)%nat -> Z.of_nat nm < 2 ^ 28 ->
  let n := (2 ^ S k0)%nat in let row := fun (d : list Z) c => List.firstn n (List.skipn (c * n) d) in
  length ph0 = (nm * n)%nat -> length sph0 = (nm * n)%nat -> length ipd0 = nm -> length ipi0 = (nm * n)%nat -> length sipi0 = (nm * n)%nat -> length om0 = (nm * (n * 2))%nat -> length iom0 = (nm * (n * 2))%nat ->
  let canon := fun d => length d = (nm * n)%nat /\ forall c, (c < nm)%nat -> List.Forall (fun v => 0 <= v < List.nth c P 0) (row d c) in
  canon a -> canon b -> length y0 = S n ->
  (forall c, (c < nm)%nat -> GenInitEq.rowok16 P roots invk c /\ (List.nth c roots 0 ^ (2 ^ Z.of_nat 9)) mod List.nth c P 0 = List.nth c P 0 - 1 /\ (List.nth c invk 0 * 2 ^ Z.of_nat 9) mod List.nth c P 0 = 1) ->
  let mul := fun A B => List.concat (List.map (fun c => ntt_mul (List.nth c P 0) k0 (row A c) (row B c)) (List.seq 0 nm)) in
  let spec := List.concat (List.map (fun c => nega_spec (List.nth c P 0) k0 (row a c) (row b c)) (List.seq 0 nm)) in
  let pr := fun (fwd : list Z -> option (list Z)) (invf : list Z -> option (list Z * list Z)) => exists A B yf, fwd a = Some A /\ fwd b = Some B /\ invf (mul A B) = Some (spec, yf) in
  exists ph sph ipd ipi sipi om iom, GenLoop.gen_initialize_u16 fuel (Z.of_nat n) om0 iom0 ph0 sph0 ipd0 ipi0 sipi0 (Z.of_nat nm) roots P invk = Some (ph, sph, ipd, ipi, sipi, om, iom) /\
    pr (fun d => GenLoop.gen_ntt_pow_phi_serial_u16 (Z.of_nat n) (Z.of_nat nm) d ph sph om P) (fun d => GenLoop.gen_invntt_pow_invphi_serial_u16 fuel (Z.of_nat n) (Z.of_nat nm) d iom ipd ipi sipi P y0) /\
    pr (fun d => GenLoop.gen_ntt_pow_phi_sse_u16 (Z.of_nat n) (Z.of_nat nm) d ph sph om P) (fun d => GenLoop.gen_invntt_pow_invphi_sse_u16 fuel (Z.of_nat n) (Z.of_nat nm) d iom ipd ipi sipi P y0) /\
    pr (fun d => GenLoop.gen_ntt_pow_phi_avx2_u16 (Z.of_nat n) (Z.of_nat nm) d ph sph om P) (fun d => GenLoop.gen_invntt_pow_invphi_avx2_u16 fuel (Z.of_nat n) (Z.of_nat nm) d iom ipd ipi sipi P y0).
Proof. exact (fun P roots invk k0 nm fuel ph0 sph0 ipd0 ipi0 sipi0 om0 iom0 a b y0 Hk Hf Hnm L1 L2 L3 L4 L5 L6 L7 Ha Hb Hy HR => RoundTripSrc.source_product_u16 P roots invk k0 nm fuel ph0 sph0 ipd0 ipi0 sipi0 om0 iom0 a b y0 (proj1 Hk) Hf Hnm L1 L2 L3 L4 L5 L6 L7 Ha Hb Hy (proj2 Hk) HR). Qed.
Print Assumptions C01_source_product_u16.
Theorem C01_source_product_u32 : forall P roots invk k0 nm fuel ph0 sph0 ipd0 ipi0 sipi0 om0 iom0 a b y0, (4 <= S k0 <= 15)%nat -> (S k0 < fuel)%nat -> Z.of_nat nm < 2 ^ 28 ->
  let n := (2 ^ S k0)%nat in let row := fun (d : list Z) c => List.firstn n (List.skipn (c * n) d) in
  length ph0 = (nm * n)%nat -> length sph0 = (nm * n)%nat -> length ipd0 = nm -> length ipi0 = (nm * n)%nat -> length sipi0 = (nm * n)%nat -> length om0 = (nm * (n * 2))%nat -> length iom0 = (nm * (n * 2))%nat ->
  let canon := fun d => length d = (nm * n)%nat /\ forall c, (c < nm)%nat -> List.Forall (fun v => 0 <= v < List.nth c P 0) (row d c) in
  canon a -> canon b -> length y0 = S n ->
  (forall c, (c < nm)%nat -> GenInitEq.rowok32 P roots invk c /\ (List.nth c roots 0 ^ (2 ^ Z.of_nat 15)) mod List.nth c P 0 = List.nth c P 0 - 1 /\ (List.nth c invk 0 * 2 ^ Z.of_nat 15) mod List.nth c P 0 = 1) ->
  let mul := fun A B => List.concat (List.map (fun c => ntt_mul (List.nth c P 0) k0 (row A c) (row B c)) (List.seq 0 nm)) in
  let spec := List.concat (List.map (fun c => nega_spec (List.nth c P 0) k0 (row a c) (row b c)) (List.seq 0 nm)) in
  let pr := fun (fwd : list Z -> option (list Z)) (invf : list Z -> option (list Z * list Z)) => exists A B yf, fwd a = Some A /\ fwd b = Some B /\ invf (mul A B) = Some (spec, yf) in
  exists ph sph ipd ipi sipi om iom, GenLoop.gen_initialize_u32 fuel (Z.of_nat n) om0 iom0 ph0 sph0 ipd0 ipi0 sipi0 (Z.of_nat nm) roots P invk = Some (ph, sph, ipd, ipi, sipi, om, iom) /\
    pr (fun d => GenLoop.gen_ntt_pow_phi_serial_u32 (Z.of_nat n) (Z.of_nat nm) d ph sph om P) (fun d => GenLoop.gen_invntt_pow_invphi_serial_u32 fuel (Z.of_nat n) (Z.of_nat nm) d iom ipd ipi sipi P y0) /\
    pr (fun d => GenLoop.gen_ntt_pow_phi_sse_u32 (Z.of_nat n) (Z.of_nat nm) d ph sph om P) (fun d => GenLoop.gen_invntt_pow_invphi_sse_u32 fuel (Z.of_nat n) (Z.of_nat nm) d iom ipd ipi sipi P y0) /\
    pr (fun d => GenLoop.gen_ntt_pow_phi_avx2_u32 (Z.of_nat n) (Z.of_nat nm) d ph sph om P) (fun d => GenLoop.gen_invntt_pow_invphi_avx2_u32 fuel (Z.of_nat n) (Z.of_nat nm) d iom ipd ipi sipi P y0).
Proof. exact (fun P roots invk k0 nm fuel ph0 sph0 ipd0 ipi0 sipi0 om0 iom0 a b y0 Hk Hf Hnm L1 L2 L3 L4 L5 L6 L7 Ha Hb Hy HR => RoundTripSrc.source_product_u32 P roots invk k0 nm fuel ph0 sph0 ipd0 ipi0 sipi0 om0 iom0 a b y0 (proj1 Hk) Hf Hnm L1 L2 L3 L4 L5 L6 L7 Ha Hb Hy (proj2 Hk) HR). Qed.
Print Assumptions C01_source_product_u32.
Theorem C01_source_product_u64 : forall P Pn roots invk k0 nm fuel ph0 sph0 ipd0 ipi0 sipi0 om0 iom0 a b y0, (4 <= S k0 <= 20)%nat -> (S k0 < fuel)%nat -> Z.of_nat nm < 2 ^ 28 ->
  let n := (2 ^ S k0)%nat in let row := fun (d : list Z) c => List.firstn n (List.skipn (c * n) d) in
  length ph0 = (nm * n)%nat -> length sph0 = (nm * n)%nat -> length ipd0 = nm -> length ipi0 = (nm * n)%nat -> length sipi0 = (nm * n)%nat -> length om0 = (nm * (n * 2))%nat -> length iom0 = (nm * (n * 2))%nat ->
  let canon := fun d => length d = (nm * n)%nat /\ forall c, (c < nm)%nat -> List.Forall (fun v => 0 <= v < List.nth c P 0) (row d c) in
  canon a -> canon b -> length y0 = S n ->
  (forall c, (c < nm)%nat -> GenInitEq.rowok64 P Pn roots invk c /\ (List.nth c roots 0 ^ (2 ^ Z.of_nat 20)) mod List.nth c P 0 = List.nth c P 0 - 1 /\ (List.nth c invk 0 * 2 ^ Z.of_nat 20) mod List.nth c P 0 = 1) ->
  let mul := fun A B => List.concat (List.map (fun c => ntt_mul (List.nth c P 0) k0 (row A c) (row B c)) (List.seq 0 nm)) in
  let spec := List.concat (List.map (fun c => nega_spec (List.nth c P 0) k0 (row a c) (row b c)) (List.seq 0 nm)) in
  let pr := fun (fwd : list Z -> option (list Z)) (invf : list Z -> option (list Z * list Z)) => exists A B yf, fwd a = Some A /\ fwd b = Some B /\ invf (mul A B) = Some (spec, yf) in
  exists ph sph ipd ipi sipi om iom, GenLoop.gen_initialize_u64 fuel (Z.of_nat n) om0 iom0 ph0 sph0 ipd0 ipi0 sipi0 (Z.of_nat nm) roots P Pn invk = Some (ph, sph, ipd, ipi, sipi, om, iom) /\
    pr (fun d => GenLoop.gen_ntt_pow_phi_serial_u64 (Z.of_nat n) (Z.of_nat nm) d ph sph om P) (fun d => GenLoop.gen_invntt_pow_invphi_serial_u64 fuel (Z.of_nat n) (Z.of_nat nm) d iom ipd ipi sipi P y0) /\
    pr (fun d => GenLoop.gen_ntt_pow_phi_sse_u64 (Z.of_nat n) (Z.of_nat nm) d ph sph om P) (fun d => GenLoop.gen_invntt_pow_invphi_sse_u64 fuel (Z.of_nat n) (Z.of_nat nm) d iom ipd ipi sipi P y0) /\
    pr (fun d => GenLoop.gen_ntt_pow_phi_avx2_u64 (Z.of_nat n) (Z.of_nat nm) d ph sph om P) (fun d => GenLoop.gen_invntt_pow_invphi_avx2_u64 fuel (Z.of_nat n) (Z.of_nat nm) d iom ipd ipi sipi P y0).
Proof. exact (fun P Pn roots invk k0 nm fuel ph0 sph0 ipd0 ipi0 sipi0 om0 iom0 a b y0 Hk Hf Hnm L1 L2 L3 L4 L5 L6 L7 Ha Hb Hy HR => RoundTripSrc.source_product_u64 P roots invk k0 nm fuel ph0 sph0 ipd0 ipi0 sipi0 om0 iom0 a b y0 (proj1 Hk) Hf Hnm L1 L2 L3 L4 L5 L6 L7 Ha Hb Hy Pn (proj2 Hk) HR). Qed.
Print Assumptions C01_source_product_u64.
