(* C06: what a row of the modulus tables must satisfy, a boolean checker, and its soundness. *)
From Coq Require Import ZArith Znumtheory Zpow_facts Lia List Bool.
From NTT Require Import NumTheoryMC.
Import ListNotations.
Local Open Scope Z_scope.

(* ---------- the specification of a valid row ---------- *)
Record row_valid (w bits maxdeg : Z) (r : Z * Z * Z * Z) : Prop := {
  rv_prime  : prime (fst (fst (fst r)));
  rv_size   : 2 ^ (bits - 1) <= fst (fst (fst r)) < 2 ^ bits;
  rv_cong   : (fst (fst (fst r)) - 1) mod (2 * maxdeg) = 0;
  rv_root_r : 0 <= snd (fst r) < fst (fst (fst r));
  rv_root   : (snd (fst r) ^ maxdeg) mod fst (fst (fst r)) = fst (fst (fst r)) - 1;
  rv_order1 : (snd (fst r) ^ (2 * maxdeg)) mod fst (fst (fst r)) = 1;
  rv_order  : forall e, 0 < e < 2 * maxdeg -> (snd (fst r) ^ e) mod fst (fst (fst r)) <> 1;
  rv_inv_r  : 0 <= snd r < fst (fst (fst r));
  rv_inv    : (snd r * maxdeg) mod fst (fst (fst r)) = 1;
  rv_newton : snd (fst (fst r)) = (2 ^ (2 * w) / fst (fst (fst r))) mod 2 ^ w
}.

(* ---------- boolean checker ---------- *)
Definition row_ok (w bits : Z) (K T : nat) (r : Z * Z * Z * Z) : bool :=
  let '(p, pn, g, ik) := r in
  let maxdeg := 2 ^ Z.of_nat K in
  check_prime p g K T
  && (2 ^ (bits - 1) <=? p) && (p <? 2 ^ bits)
  && ((p - 1) mod (2 * maxdeg) =? 0)
  && (0 <=? g) && (g <? p)
  && (0 <=? ik) && (ik <? p) && ((ik * maxdeg) mod p =? 1)
  && (pn =? (2 ^ (2 * w) / p) mod 2 ^ w).

Fixpoint nodupb (l : list Z) : bool :=
  match l with [] => true | x :: t => negb (existsb (Z.eqb x) t) && nodupb t end.

Lemma nodupb_sound l : nodupb l = true -> NoDup l.
Proof.
  induction l as [|x t IH]; cbn [nodupb]; intros H; [constructor|].
  apply andb_true_iff in H. destruct H as [H1 H2]. constructor; [|auto].
  intros Hin. apply negb_true_iff in H1.
  assert (existsb (Z.eqb x) t = true) by (apply existsb_exists; exists x; split; [exact Hin | apply Z.eqb_refl]).
  congruence.
Qed.

(* ---------- order of the root ---------- *)
Lemma pow_mod_pow a e f p : 0 < p -> 0 <= e -> 0 <= f -> ((a ^ e) mod p) ^ f mod p = (a ^ (e * f)) mod p.
Proof. intros Hp He Hf. rewrite Z.pow_mul_r by lia. rewrite <- Zpower_mod by lia. reflexivity. Qed.

Lemma minus_one_pow_odd m p : 2 < p -> 0 <= m -> Z.odd m = true -> ((p - 1) ^ m) mod p = p - 1.
Proof.
  intros Hp Hm Ho. apply Z.odd_spec in Ho. destruct Ho as [t Ht]. assert (0 <= t) by lia.
  subst m. rewrite Z.pow_add_r, Z.pow_mul_r by lia. rewrite Z.pow_1_r.
  assert (E : ((p - 1) ^ 2) mod p = 1).
  { replace ((p - 1) ^ 2) with (1 + (p - 2) * p) by ring. rewrite Z.mod_add by lia. apply Z.mod_small; lia. }
  rewrite Z.mul_mod by lia. rewrite (Zpower_mod ((p - 1) ^ 2)) by lia. rewrite E.
  rewrite Z.pow_1_l by lia. rewrite (Z.mod_small 1) by lia. rewrite Z.mul_1_l. rewrite Z.mod_mod by lia.
  apply Z.mod_small; lia.
Qed.

Lemma two_adic e : 0 < e -> exists j m, 0 <= j /\ 0 < m /\ Z.odd m = true /\ e = 2 ^ j * m.
Proof.
  intros He. assert (H0 : 0 <= e) by lia. revert He. pattern e. apply (Z_lt_induction); [|exact H0].
  intros x IH Hx. destruct (Z.odd x) eqn:Ho.
  - exists 0, x. repeat split; try lia.
  - assert (He : Z.even x = true). { rewrite <- Z.negb_odd. rewrite Ho. reflexivity. }
    apply Z.even_spec in He. destruct He as [t Ht].
    destruct (IH t ltac:(lia) ltac:(lia)) as (j & m & Hj & Hm & Hom & Et).
    exists (j + 1), m. split; [lia|]. split; [lia|]. split; [exact Hom|]. rewrite Z.pow_add_r by lia. lia.
Qed.

Lemma order_exact g p K : 2 < p -> 0 <= K -> (g ^ (2 ^ K)) mod p = p - 1 ->
  (g ^ (2 * 2 ^ K)) mod p = 1 /\ forall e, 0 < e < 2 * 2 ^ K -> (g ^ e) mod p <> 1.
Proof.
  intros Hp HK Hg. assert (P2 : 0 < 2 ^ K) by (apply Z.pow_pos_nonneg; lia). split.
  - rewrite Z.mul_comm. rewrite <- (pow_mod_pow g (2 ^ K) 2) by lia. rewrite Hg.
    replace ((p - 1) ^ 2) with (1 + (p - 2) * p) by ring. rewrite Z.mod_add by lia. apply Z.mod_small; lia.
  - intros e He Hone. destruct (two_adic e ltac:(lia)) as (j & m & Hj & Hm & Hom & Ee).
    assert (Pj : 0 < 2 ^ j) by (apply Z.pow_pos_nonneg; lia).
    assert (Hjk : j <= K).
    { destruct (Z_le_gt_dec j K) as [|Hgt]; [assumption|].
      assert (2 ^ (K + 1) <= 2 ^ j) by (apply Z.pow_le_mono_r; lia).
      rewrite Z.pow_add_r in H by lia. nia. }
    (* raise to 2^(K-j) *)
    assert (E1 : ((g ^ e) mod p) ^ (2 ^ (K - j)) mod p = 1).
    { rewrite Hone. rewrite Z.pow_1_l by (apply Z.pow_nonneg; lia). apply Z.mod_small; lia. }
    rewrite pow_mod_pow in E1 by (try lia; apply Z.pow_nonneg; lia).
    replace (e * 2 ^ (K - j)) with (2 ^ K * m) in E1.
    2:{ subst e. replace K with (j + (K - j)) at 1 by lia. rewrite Z.pow_add_r by lia. ring. }
    rewrite <- (pow_mod_pow g (2 ^ K) m) in E1 by lia. rewrite Hg in E1.
    rewrite minus_one_pow_odd in E1 by (try lia; exact Hom). lia.
Qed.

(* ---------- soundness of the row checker ---------- *)
Theorem row_ok_sound w bits K T r : 2 <= bits -> row_ok w bits K T r = true -> row_valid w bits (2 ^ Z.of_nat K) r.
Proof.
  destruct r as [[[p pn] g] ik]. unfold row_ok. intros Hb H.
  remember (check_prime p g K T) as cp eqn:Ecp.
  repeat (apply andb_true_iff in H; destruct H as [H ?]). subst cp.
  repeat match goal with
  | h : (_ <=? _) = true |- _ => apply Z.leb_le in h
  | h : (_ <? _) = true |- _ => apply Z.ltb_lt in h
  | h : (_ =? _) = true |- _ => apply Z.eqb_eq in h
  end.
  assert (Hprime : prime p) by (apply (check_prime_sound (g := g) (k := K) (T := T)); assumption).
  assert (Hsq : sqn K g p = p - 1).
  { pose proof H as Hc. unfold check_prime in Hc.
    repeat (apply andb_true_iff in Hc; destruct Hc as [? Hc]).
    match goal with h : (sqn _ _ _ =? _) = true |- _ => apply Z.eqb_eq in h; exact h end. }
  assert (P2 : 2 ^ 1 <= 2 ^ (bits - 1)) by (apply Z.pow_le_mono_r; lia).
  assert (Hp2 : 2 < p).
  { destruct (Z.eq_dec p 2) as [->|]; [|change (2 ^ 1) with 2 in P2; lia].
    (* p = 2 is excluded because p = 1 mod 2*maxdeg *)
    exfalso. assert (0 < 2 ^ Z.of_nat K) by (apply Z.pow_pos_nonneg; lia).
    match goal with h : (2 - 1) mod _ = 0 |- _ => rewrite Z.mod_small in h by lia; lia end. }
  rewrite sqn_spec in Hsq by lia.
  destruct (order_exact g p (Z.of_nat K) Hp2 ltac:(lia) Hsq) as [O1 O2].
  constructor; cbn [fst snd]; try assumption; try lia.
Qed.

Definition table_ok (w bits : Z) (K T : nat) (nmod : Z) (lens : list Z) (rows : list (Z * Z * Z * Z)) : bool :=
  forallb (row_ok w bits K T) rows
  && nodupb (map (fun r => fst (fst (fst r))) rows)
  && (Z.of_nat (length rows) =? nmod)
  && forallb (Z.eqb nmod) lens
  && (bits =? w - 2) && (0 <? nmod).

Record table_valid (w bits maxdeg nmod : Z) (rows : list (Z * Z * Z * Z)) : Prop := {
  tv_rows   : forall r, In r rows -> row_valid w bits maxdeg r;
  tv_nodup  : NoDup (map (fun r => fst (fst (fst r))) rows);
  tv_count  : Z.of_nat (length rows) = nmod /\ 0 < nmod;
  tv_bits   : bits = w - 2
}.

Theorem table_ok_sound w bits K T nmod lens rows : 2 <= bits ->
  table_ok w bits K T nmod lens rows = true -> table_valid w bits (2 ^ Z.of_nat K) nmod rows.
Proof.
  unfold table_ok. intros Hb H.
  repeat (apply andb_true_iff in H; destruct H as [H ?]).
  constructor.
  - intros r Hr. apply (row_ok_sound w bits K T r Hb). rewrite forallb_forall in H. auto.
  - apply nodupb_sound; assumption.
  - split; [apply Z.eqb_eq; assumption | apply Z.ltb_lt; assumption].
  - apply Z.eqb_eq; assumption.
Qed.

(* distinct primes are coprime: every prefix of a valid table is pairwise coprime *)
Lemma distinct_primes_coprime p q : prime p -> prime q -> p <> q -> Zis_gcd p q 1.
Proof. intros Hp Hq Hne. apply prime_rel_prime; [assumption|]. intro Hd. apply prime_div_prime in Hd; auto. Qed.

Theorem table_pairwise_coprime w bits maxdeg nmod rows : table_valid w bits maxdeg nmod rows ->
  forall i j, (i < length rows)%nat -> (j < length rows)%nat -> i <> j ->
  rel_prime (fst (fst (fst (nth i rows (0,0,0,0))))) (fst (fst (fst (nth j rows (0,0,0,0))))).
Proof.
  intros [Hr Hn _ _] i j Hi Hj Hij.
  set (P := fun r : Z * Z * Z * Z => fst (fst (fst r))) in *.
  apply distinct_primes_coprime.
  - apply (rv_prime _ _ _ _ (Hr _ (nth_In rows _ Hi))).
  - apply (rv_prime _ _ _ _ (Hr _ (nth_In rows _ Hj))).
  - intro E. apply Hij. rewrite NoDup_nth in Hn.
    apply (Hn i j); rewrite ?map_length; try assumption.
    change 0 with (P (0,0,0,0)). rewrite !map_nth. exact E.
Qed.

(* for every admissible degree 2^k: phi_k = root^(maxdeg/2^k) satisfies phi_k^(2^k) = -1 *)
Theorem degree_root w bits K r k : (k <= K)%nat -> row_valid w bits (2 ^ Z.of_nat K) r ->
  let p := fst (fst (fst r)) in let g := snd (fst r) in
  ((g ^ (2 ^ Z.of_nat (K - k))) ^ (2 ^ Z.of_nat k)) mod p = p - 1.
Proof.
  intros Hk Hv p g. rewrite <- Z.pow_mul_r by (apply Z.pow_nonneg; lia).
  rewrite <- Z.pow_add_r by lia. replace (Z.of_nat (K - k) + Z.of_nat k) with (Z.of_nat K) by lia.
  apply (rv_root _ _ _ _ Hv).
Qed.

(* and n^-1 derived as in initialize(): invkMax * (maxdeg / n) is the inverse of n = 2^k *)
Theorem degree_inv w bits K r k : (k <= K)%nat -> row_valid w bits (2 ^ Z.of_nat K) r ->
  let p := fst (fst (fst r)) in let ik := snd r in
  ((ik * 2 ^ Z.of_nat (K - k)) mod p * 2 ^ Z.of_nat k) mod p = 1.
Proof.
  intros Hk Hv p ik. assert (Hp : prime p) by apply (rv_prime _ _ _ _ Hv). apply prime_ge_2 in Hp.
  rewrite Z.mul_mod_idemp_l by lia. rewrite <- Z.mul_assoc. rewrite <- Z.pow_add_r by lia.
  replace (Z.of_nat (K - k) + Z.of_nat k) with (Z.of_nat K) by lia. apply (rv_inv _ _ _ _ Hv).
Qed.
