From Coq Require Import Lia List Arith Bool.
Import ListNotations.

(* C11: the scratch-buffer bookkeeping of FastGaussianNoise::getNoise.
   Each output starts decoding at word `used`, may compare up to wp words from there, and consumes c words
   (1, 2 or wp, decided by the table flags: here an arbitrary list of consumptions with 1 <= c <= wp).
   After each output:  if (used + wp >= len) { refill; used = 0; }                                     *)
Fixpoint starts (cons : list nat) (len wp used : nat) : list (nat * nat * bool) :=   (* (start, consumed, refilled-after) *)
  match cons with
  | [] => []
  | c :: r => let u := used + c in
              if len <=? u + wp then (used, c, true) :: starts r len wp 0
              else (used, c, false) :: starts r len wp u
  end.

(* exactly one entry per requested output *)
Lemma starts_length cons len wp used : length (starts cons len wp used) = length cons.
Proof. revert used; induction cons as [|c r IH]; intros used; simpl; auto. destruct (len <=? used + c + wp); simpl; now rewrite IH. Qed.

(* with a buffer of at least one full comparison, every decision can read its wp words inside the buffer *)
Theorem reads_in_bounds cons len wp : wp <= len -> Forall (fun c => 1 <= c <= wp) cons ->
  forall used, used + wp <= len -> Forall (fun e => fst (fst e) + wp <= len) (starts cons len wp used).
Proof.
  intros Hlen Hc. induction Hc as [|c r Hc1 Hr IH]; intros used Hu; simpl; [constructor|].
  destruct (len <=? used + c + wp) eqn:E.
  - constructor; [simpl; lia | apply IH; lia].
  - apply Nat.leb_gt in E. constructor; [simpl; lia | apply IH; lia].
Qed.

(* words are consumed consecutively: without a refill the next output starts where this one stopped,
   after a refill it starts at 0 of fresh data -- so no word is decoded into two outputs *)
Theorem consecutive cons len wp used :
  match starts cons len wp used with
  | (s1, c1, refilled) :: (s2, _, _) :: _ => s1 = used /\ s2 = if refilled then 0 else s1 + c1
  | [(s1, _, _)] => s1 = used
  | [] => True
  end.
Proof. destruct cons as [|c [|c' r]]; cbn [starts]; auto.
  - destruct (len <=? used + c + wp); cbn; auto.
  - destruct (len <=? used + c + wp) eqn:E.
    + cbn [starts]. destruct (len <=? 0 + c' + wp); cbn; auto.
    + cbn [starts]. destruct (len <=? used + c + c' + wp); cbn; auto. Qed.

(* the pinned tree allocates floor(rlen * multiplier) words, which can be smaller than wp:
   then the very first decision may read beyond the buffer *)
Theorem short_buffer_refuted : exists cons len wp, Forall (fun c => 1 <= c <= wp) cons /\ len < wp /\
  Exists (fun e => len < fst (fst e) + wp) (starts cons len wp 0).
Proof. exists [19], 2, 19. repeat split; [constructor; [lia | constructor] | lia | simpl; constructor; simpl; lia]. Qed.
Print Assumptions reads_in_bounds.
