(* C13 — the random byte stream is Salsa20/20 keystream under a per-request nonce.  Statements only (Salsa.v, Small.v, Prng.v). *)
From Coq Require Import ZArith List Arith.
From NTT Require Import Small Salsa Prng SalsaLoop.
From NTT Require FrbSrc OsSem.
From NTT.gen Require GenOs.
Import ListNotations.
Local Open Scope Z_scope.

(* request number i returns firstn len_i of the keystream for (process key, nonce = LE64 i, block counter from 0),
   for every history of fewer than 2^64 requests and every length (0, non-multiples of 64, ...); key drawn exactly once *)
Theorem C13_history : forall oskey lens, Z.of_nat (length lens) < 2 ^ 64 ->
  let '(s', outs) := run_hist oskey g0 lens in
  length outs = length lens /\
  (forall i, (i < length lens)%nat -> nth i outs [] = stream oskey (le_encode 8 (Z.of_nat i)) (nth i lens 0%nat)) /\
  (lens <> [] -> g_seedings s' = 1%nat).
Proof. exact history_correct. Qed.
Print Assumptions C13_history.

(* no two requests share a nonce *)
Theorem C13_nonces_distinct : forall i j, Z.of_nat i < 2 ^ 64 -> Z.of_nat j < 2 ^ 64 -> le_encode 8 (Z.of_nat i) = le_encode 8 (Z.of_nat j) -> i = j.
Proof. exact nonces_distinct. Qed.
Print Assumptions C13_nonces_distinct.

(* the stream has exactly the requested length and is prefix-consistent (partial last block, len = 0) *)
Theorem C13_stream_length : forall key nonce len, length (stream key nonce len) = len.
Proof. exact stream_length. Qed.
Print Assumptions C13_stream_length.
Theorem C13_stream_prefix : forall key nonce len len', (len <= len')%nat -> stream key nonce len = firstn len (stream key nonce len').
Proof. exact stream_prefix. Qed.
Print Assumptions C13_stream_prefix.

(* nothing outside the caller's buffer changes *)
Theorem C13_frame : forall mem off bytes i, (off + length bytes <= length mem)%nat ->
  length (write_mem mem off bytes) = length mem /\ ((i < off)%nat \/ (off + length bytes <= i)%nat -> nth i (write_mem mem off bytes) 0 = nth i mem 0).
Proof. exact write_mem_frame. Qed.
Print Assumptions C13_frame.

(* the Gallina Salsa20 reproduces the specification's quarter-round vector and two requests of the repository's assembly *)
Example C13_spec_vector : qr (1, 0, 0, 0) = (134250821, 128, 66048, 542113792).
Proof. exact qr_vec2. Qed.

(* the control structure of the assembly (four blocks per iteration while >= 256 bytes remain, then single blocks, the last partial
   one through a stack buffer, block counter running on) yields exactly the specification-level stream, for every length *)
Theorem C13_asm_loop_structure : forall key nonce len, asm_stream key nonce len = stream key nonce len.
Proof. exact asm_stream_is_stream. Qed.
Print Assumptions C13_asm_loop_structure.

(* nfl::fastrandombytes OF THE SOURCE (lib/prng/fastrandombytes.cpp), translated by tools/cxxos2coq.py on every run into gen/GenOs.v (module Frb):
   the statics key / nonce_counter, the function-local static `seeded` with its one-time initialiser seed_key() (which fills the key from the
   key source: an oracle here, C19), `nonce_counter.fetch_add(1)`, the shift loop writing the eight nonce bytes, the keystream routine (an
   oracle: `stream key nonce len` written at r) -- the sequential meaning of one request; atomicity under threads is C18.  One request of the
   translated code is one step `frb` of the state machine the history theorems above are about: it seeds exactly when the model does, the
   nonce bytes are the little-endian encoding of the counter value taken (the model's nonce), the counter advances by one modulo 2^64, and
   the caller's memory changes only in r[0 .. len), which receives the model's output. *)
Theorem C13_source_fastrandombytes : forall (s : GenOs.Frb.st) (gs : gst) fuel len, length (GenOs.Frb.a_key s) = 32%nat -> length (GenOs.Frb.a_nonce s) = 8%nat ->
  0 <= GenOs.Frb.v_nonce_counter s < 2 ^ 64 -> GenOs.Frb.v_rlen s = Z.of_nat len -> 0 <= GenOs.Frb.o_r s -> GenOs.Frb.o_r s + Z.of_nat len <= Z.of_nat (length (GenOs.Frb.b_r s)) -> (8 < fuel)%nat ->
  (GenOs.Frb.g_seeded s = 0 -> (32 <= length (GenOs.Frb.w_keytape s))%nat) ->
  g_init gs = negb (GenOs.Frb.g_seeded s =? 0) -> (g_init gs = true -> g_key gs = GenOs.Frb.a_key s) -> g_nonce gs = le_encode 8 (GenOs.Frb.v_nonce_counter s) ->
  let oskey := firstn 32 (GenOs.Frb.w_keytape s) in
  exists s', GenOs.Frb.gen_fastrandombytes stream fuel s = Some (OsSem.Norm s') /\
    GenOs.Frb.b_r s' = write_mem (GenOs.Frb.b_r s) (Z.to_nat (GenOs.Frb.o_r s)) (snd (frb oskey gs len)) /\
    g_init (fst (frb oskey gs len)) = negb (GenOs.Frb.g_seeded s' =? 0) /\ g_key (fst (frb oskey gs len)) = GenOs.Frb.a_key s' /\
    g_nonce (fst (frb oskey gs len)) = le_encode 8 (GenOs.Frb.v_nonce_counter s') /\
    GenOs.Frb.v_nonce_counter s' = (GenOs.Frb.v_nonce_counter s + 1) mod 2 ^ 64 /\ GenOs.Frb.a_nonce s' = le_encode 8 (GenOs.Frb.v_nonce_counter s) /\
    GenOs.Frb.w_keytape s' = (if GenOs.Frb.g_seeded s =? 0 then skipn 32 (GenOs.Frb.w_keytape s) else GenOs.Frb.w_keytape s) /\ length (GenOs.Frb.a_key s') = 32%nat /\ GenOs.Frb.o_r s' = GenOs.Frb.o_r s.
Proof. exact FrbSrc.source_fastrandombytes. Qed.
Print Assumptions C13_source_fastrandombytes.
