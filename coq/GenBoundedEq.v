From Coq Require Import ZArith List Lia Bool Arith.
From NTT Require Import CxxSem MemSem BoundedSpec.
From NTT.gen Require Import Gen GenVec GenLoop.
Local Open Scope Z_scope.
Lemma bnd_u32_shape : gen_set_bounded_u32 = bnd_sh 4 (fun c => uw 32 c) (fun l mk k => k (Z.land l mk)) (fun t c => uw 32 (uw 64 (t - c))) (fun p t c k => k (uw 32 (uw 64 (uw 32 (p + t) - c))))
  (fun p t A c => uw 32 (uw 64 (uw 64 (p + uw 64 (t * A)) - uw 64 (c * A)))) (fun t A => uw 32 (uw 64 (t * A))).
Proof. reflexivity. Qed.
Lemma bnd_u64_shape : gen_set_bounded_u64 = bnd_sh 8 (fun c => c) (fun l mk k => k (Z.land l mk)) (fun t c => uw 64 (t - c)) (fun p t c k => k (uw 64 (uw 64 (p + t) - c)))
  (fun p t A c => uw 64 (uw 64 (p + uw 64 (t * A)) - uw 64 (c * A))) (fun t A => uw 64 (t * A)).
Proof. reflexivity. Qed.
Definition landk16 (l mk : Z) (k : Z -> option St2) : option St2 := bind (chk 32 (Z.land l mk)) (fun s => k (uw 16 s)).
Definition stc1k16 (p t c : Z) (k : Z -> option St2) : option St2 := bind (chk 32 (p + t)) (fun s => k (uw 16 (uw 64 (uw 64 s - c)))).
Lemma bnd_u16_shape : gen_set_bounded_u16 = bnd_sh 2 (fun c => uw 16 c) landk16 (fun t c => uw 16 (uw 64 (t - c))) stc1k16
  (fun p t A c => uw 16 (uw 64 (uw 64 (p + uw 64 (t * A)) - uw 64 (c * A)))) (fun t A => uw 16 (uw 64 (t * A))).
Proof. reflexivity. Qed.

From Coq Require Import Znumtheory.
From NTT Require Import Layer Small Samplers SamplersExec LoopSpec SamplerSpec GenSamplerEq.
Import ListNotations.

Lemma mod64_32 a : (a mod 2 ^ 64) mod 2 ^ 32 = a mod 2 ^ 32.
Proof. symmetry. apply Zmod_div_mod; try reflexivity. exists (2 ^ 32). reflexivity. Qed.
Lemma sub_mod_l a c n : 0 < n -> ((a mod n) - c) mod n = (a - c) mod n.
Proof. intros Hn. apply Zminus_mod_idemp_l. Qed.

Section B32.
Variables (n m : nat) (P tape data0 : list Z) (B A : Z).
Hypothesis HB : 1 <= B.
Hypothesis Hc : 2 * B - 1 < 2 ^ 31.
Hypothesis HPl : (m <= length P)%nat.
Hypothesis Htl : (n * 4 <= length tape)%nat.
Hypothesis Htape : Forall (fun x => 0 <= x < 256) tape.
Hypothesis Hd : length data0 = (m * n)%nat.
Hypothesis Hsmall : Z.of_nat (m * n) < 2 ^ 61.
Hypothesis Hn : (0 < n)%nat.
Hypothesis Hm : (0 < m)%nat.
Hypothesis HPr : Forall (fun p => 0 <= p < 2 ^ 32) (firstn m P).

Theorem source_set_bounded_u32 fuel : (64 < fuel)%nat -> 0 <= A < 2 ^ 64 -> Forall (fun p => B < p) (firstn m P) ->
  option_map snd (gen_set_bounded_u32 fuel (Z.of_nat n) data0 B A (Z.of_nat m) P tape) = set_bounded 32 n (firstn m P) B A tape.
Proof.
  intros Hf HA HBp. rewrite bnd_u32_shape.
  assert (Hb : 0 < Z.log2 (2 * B - 1) + 1 <= 31).
  { pose proof (Z.log2_nonneg (2 * B - 1)). assert (Z.log2 (2 * B - 1) < 31) by (apply Z.log2_lt_pow2; lia). lia. }
  transitivity (option_map snd (Some (MemSem.words_of 4 n tape, concat (map (fun p => map (fun x => bnd_store_amp 32 p B A (bnd_tmp (Z.log2 (2 * B - 1) + 1) B x)) (MemSem.words_of 4 n tape)) (firstn m P))))).
  - f_equal. apply (bounded_ok 32 4); try assumption; try lia; try reflexivity.
    + apply (mask_ok 32); lia.
    + intros t Ht. rewrite (uw_small 64) by (change (2 ^ 64) with 18446744073709551616; change (2 ^ 32) with 4294967296 in Ht; lia). apply uw_small. lia.
    + intros HA1 p t k _ _. f_equal. unfold uw. rewrite HA1, !Z.mul_1_r. rewrite !mod64_32. apply sub_mod_l. reflexivity.
    + intros p t. unfold uw. rewrite !mod64_32.
      rewrite Zminus_mod. rewrite !mod64_32. rewrite (Zplus_mod p), mod64_32, <- Zplus_mod. rewrite <- Zminus_mod. reflexivity.
  - cbn [option_map snd]. unfold set_bounded.
    destruct (existsb (fun p => B >=? p) (firstn m P)) eqn:E.
    { exfalso. apply existsb_exists in E. destruct E as (p0 & Hin & Hp0). pose proof (proj1 (Forall_forall _ _) HBp p0 Hin) as Hlt. cbv beta in Hlt. apply Z.geb_le in Hp0. lia. }
    cbv zeta. first [reflexivity | (rewrite (words_of_same (Z.to_nat (32 / 8)) n tape); reflexivity)].
Qed.
End B32.

Lemma mod64_16 a : (a mod 2 ^ 64) mod 2 ^ 16 = a mod 2 ^ 16.
Proof. symmetry. apply Zmod_div_mod; try reflexivity. exists (2 ^ 48). reflexivity. Qed.

Section B16.
Variables (n m : nat) (P tape data0 : list Z) (B A : Z).
Hypothesis HB : 1 <= B.
Hypothesis Hc : 2 * B - 1 < 2 ^ 15.
Hypothesis HPl : (m <= length P)%nat.
Hypothesis Htl : (n * 2 <= length tape)%nat.
Hypothesis Htape : Forall (fun x => 0 <= x < 256) tape.
Hypothesis Hd : length data0 = (m * n)%nat.
Hypothesis Hsmall : Z.of_nat (m * n) < 2 ^ 61.
Hypothesis Hn : (0 < n)%nat.
Hypothesis Hm : (0 < m)%nat.
Hypothesis HPr : Forall (fun p => 0 <= p < 2 ^ 16) (firstn m P).

(* 16-bit limbs: `rnd[i] & mask` and `P[cm] + tmp` are computed in the promoted type int (checked: they never leave it) *)
Theorem source_set_bounded_u16 fuel : (64 < fuel)%nat -> 0 <= A < 2 ^ 64 -> Forall (fun p => B < p) (firstn m P) ->
  option_map snd (gen_set_bounded_u16 fuel (Z.of_nat n) data0 B A (Z.of_nat m) P tape) = set_bounded 16 n (firstn m P) B A tape.
Proof.
  intros Hf HA HBp. rewrite bnd_u16_shape.
  assert (Hb : 0 < Z.log2 (2 * B - 1) + 1 <= 15).
  { pose proof (Z.log2_nonneg (2 * B - 1)). assert (Z.log2 (2 * B - 1) < 15) by (apply Z.log2_lt_pow2; lia). lia. }
  transitivity (option_map snd (Some (MemSem.words_of 2 n tape, concat (map (fun p => map (fun x => bnd_store_amp 16 p B A (bnd_tmp (Z.log2 (2 * B - 1) + 1) B x)) (MemSem.words_of 2 n tape)) (firstn m P))))).
  - f_equal. apply (bounded_ok 16 2); try assumption; try lia; try reflexivity.
    + apply (mask_ok 16); lia.
    + intros t Ht. rewrite (uw_small 64) by (change (2 ^ 64) with 18446744073709551616; change (2 ^ 16) with 65536 in Ht; lia). apply uw_small. lia.
    + intros l k Hl. unfold landk16. rewrite land_mask_mod' by lia.
      assert (Hp : 0 < 2 ^ (Z.log2 (2 * B - 1) + 1) <= 2 ^ 15) by (split; [apply Z.pow_pos_nonneg; lia | apply Z.pow_le_mono_r; lia]).
      pose proof (Z.mod_pos_bound l (2 ^ (Z.log2 (2 * B - 1) + 1)) ltac:(lia)) as Rm.
      change (2 ^ 15) with 32768 in Hp. rewrite chk_ok by (change (2 ^ (32 - 1)) with 2147483648; lia). cbn [bind]. rewrite uw_small by (change (2 ^ 16) with 65536; lia). reflexivity.
    + intros HA1 p t k Hp Ht. unfold stc1k16. change (2 ^ 16) with 65536 in Hp, Ht. rewrite chk_ok by (change (2 ^ (32 - 1)) with 2147483648; lia). cbn [bind]. f_equal.
      unfold uw. rewrite HA1, !Z.mul_1_r. rewrite (Z.mod_small (p + t) (2 ^ 64)) by (change (2 ^ 64) with 18446744073709551616; lia). reflexivity.
    + intros p t. unfold uw. rewrite !mod64_16.
      rewrite Zminus_mod. rewrite !mod64_16. rewrite (Zplus_mod p), mod64_16, <- Zplus_mod. rewrite <- Zminus_mod. reflexivity.
  - cbn [option_map snd]. unfold set_bounded.
    destruct (existsb (fun p => B >=? p) (firstn m P)) eqn:E.
    { exfalso. apply existsb_exists in E. destruct E as (p0 & Hin & Hp0). pose proof (proj1 (Forall_forall _ _) HBp p0 Hin) as Hlt. cbv beta in Hlt. apply Z.geb_le in Hp0. lia. }
    cbv zeta. first [reflexivity | (rewrite (words_of_same (Z.to_nat (16 / 8)) n tape); reflexivity)].
Qed.
End B16.

Section B64.
Variables (n m : nat) (P tape data0 : list Z) (B A : Z).
Hypothesis HB : 1 <= B.
Hypothesis Hc : 2 * B - 1 < 2 ^ 63.
Hypothesis HPl : (m <= length P)%nat.
Hypothesis Htl : (n * 8 <= length tape)%nat.
Hypothesis Htape : Forall (fun x => 0 <= x < 256) tape.
Hypothesis Hd : length data0 = (m * n)%nat.
Hypothesis Hsmall : Z.of_nat (m * n) < 2 ^ 61.
Hypothesis Hn : (0 < n)%nat.
Hypothesis Hm : (0 < m)%nat.
Hypothesis HPr : Forall (fun p => 0 <= p < 2 ^ 64) (firstn m P).

Theorem source_set_bounded_u64 fuel : (64 < fuel)%nat -> 0 <= A < 2 ^ 64 -> Forall (fun p => B < p) (firstn m P) ->
  option_map snd (gen_set_bounded_u64 fuel (Z.of_nat n) data0 B A (Z.of_nat m) P tape) = set_bounded 64 n (firstn m P) B A tape.
Proof.
  intros Hf HA HBp. rewrite bnd_u64_shape.
  assert (Hb : 0 < Z.log2 (2 * B - 1) + 1 <= 63).
  { pose proof (Z.log2_nonneg (2 * B - 1)). assert (Z.log2 (2 * B - 1) < 63) by (apply Z.log2_lt_pow2; lia). lia. }
  transitivity (option_map snd (Some (MemSem.words_of 8 n tape, concat (map (fun p => map (fun x => bnd_store_amp 64 p B A (bnd_tmp (Z.log2 (2 * B - 1) + 1) B x)) (MemSem.words_of 8 n tape)) (firstn m P))))).
  - f_equal. apply (bounded_ok 64 8); try assumption; try lia; try reflexivity.
    + rewrite <- (mask_ok 64 (Z.log2 (2 * B - 1) + 1)) by lia. rewrite (uw_small 64 (uw 64 (uw 64 (1 * 2 ^ (Z.log2 (2 * B - 1) + 1)) - 1))) by (apply uw_range; lia). reflexivity.
    + intros t Ht. apply uw_small. lia.
    + intros HA1 p t k _ _. f_equal. unfold uw. rewrite HA1, !Z.mul_1_r. rewrite Z.mod_mod by lia. apply sub_mod_l. reflexivity.
    + intros p t. unfold uw. rewrite Z.mod_mod by lia.
      rewrite Zminus_mod. rewrite !Z.mod_mod by lia. rewrite (Zplus_mod p), Z.mod_mod, <- Zplus_mod by lia. rewrite <- Zminus_mod. reflexivity.
    + intros t. unfold uw. rewrite Z.mod_mod by lia. reflexivity.
  - cbn [option_map snd]. unfold set_bounded.
    destruct (existsb (fun p => B >=? p) (firstn m P)) eqn:E.
    { exfalso. apply existsb_exists in E. destruct E as (p0 & Hin & Hp0). pose proof (proj1 (Forall_forall _ _) HBp p0 Hin) as Hlt. cbv beta in Hlt. apply Z.geb_le in Hp0. lia. }
    cbv zeta. reflexivity.
Qed.
End B64.

Lemma source_set_bounded_throws n m P tape data0 B A fuel : Z.of_nat m < 2 ^ 61 -> (exists cm, (cm < m)%nat /\ nth cm P 0 <= B) ->
  gen_set_bounded_u16 fuel n data0 B A (Z.of_nat m) P tape = None /\ gen_set_bounded_u32 fuel n data0 B A (Z.of_nat m) P tape = None /\ gen_set_bounded_u64 fuel n data0 B A (Z.of_nat m) P tape = None.
Proof.
  intros Hm Hex. split; [|split].
  - rewrite bnd_u16_shape. exact (bounded_throws _ _ _ _ _ _ _ fuel n data0 B A m P tape Hm Hex).
  - rewrite bnd_u32_shape. exact (bounded_throws _ _ _ _ _ _ _ fuel n data0 B A m P tape Hm Hex).
  - rewrite bnd_u64_shape. exact (bounded_throws _ _ _ _ _ _ _ fuel n data0 B A m P tape Hm Hex).
Qed.
