(* poly::set(hwt_dist const&) READ FROM THE SOURCE (gen/GenHwt.v: the skeleton HwtSem.hwt_prog with the translated expressions) is the executable
   model SamplersExec.set_hwt -- the reservoir of C12 (ReservoirSlots.v: every h-subset equally likely) followed by the store of C09 (HwtStore.v:
   one signed polynomial in every modulus) -- for every degree, weight, number of moduli, table of moduli and tape. *)
From Coq Require Import ZArith List Lia Bool Permutation.
From NTT Require Import CxxSem MemSem SamplersExec HwtSem HwtStore SamplerSpec.
From NTT.gen Require Import GenHwt.
Import ListNotations.
Local Open Scope Z_scope.

(* ---- small facts *)
Lemma upd_set_nth l : forall i v, upd i v l = set_nth l i v.
Proof. induction l as [|a l IH]; intros [|i] v; cbn [upd set_nth]; try reflexivity. rewrite IH. reflexivity. Qed.
Lemma set_nth_length l : forall i v, length (set_nth l i v) = length l.
Proof. induction l as [|a l IH]; intros [|i] v; cbn [set_nth length]; try reflexivity. rewrite IH. reflexivity. Qed.
Lemma set_nth_In l : forall i v x, In x (set_nth l i v) -> x = v \/ In x l.
Proof. induction l as [|a l IH]; intros [|i] v x H; cbn [set_nth] in H; try (now right). 
  - destruct H as [<-|H]; [now left | right; now right].
  - destruct H as [<-|H]; [right; now left|]. apply IH in H. destruct H; [now left | right; now right].
Qed.
Lemma set_nth_NoDup l : forall i v, NoDup l -> ~ In v l -> NoDup (set_nth l i v).
Proof. induction l as [|a l IH]; intros [|i] v ND Hv; cbn [set_nth]; try exact ND.
  - inversion ND; subst. constructor; [intros H; apply Hv; now right | assumption].
  - inversion ND as [|? ? Ha ND']; subst. constructor.
    + intros H. apply set_nth_In in H. destruct H as [->|H]; [apply Hv; now left | contradiction].
    + apply IH; [assumption | intros H; apply Hv; now right].
Qed.
Lemma skipn_cons_nth (l : list Z) : forall p x rest, skipn p l = x :: rest -> (p < length l)%nat /\ nth p l 0 = x /\ skipn (S p) l = rest.
Proof.
  induction l as [|a l IH]; intros [|p] x rest H; cbn [skipn] in H; try discriminate.
  - inversion H; subst. repeat split; cbn; lia.
  - destruct (IH p x rest H) as (A & B & C). cbn [length nth]. repeat split; [lia | exact B | exact C].
Qed.
Lemma skipn_cons_ld (l : list Z) p x rest : skipn p l = x :: rest -> ld l (Z.of_nat p) = Some x /\ skipn (S p) l = rest /\ (p < length l)%nat.
Proof. intros H. destruct (skipn_cons_nth l p x rest H) as (A & B & C). rewrite ld_some by lia. rewrite Nat2Z.id, B. auto. Qed.
Lemma rand_fill_all (rnd : list Z) hn tp : length rnd = hn -> MemSem.rand_fill 8 rnd 0 (8 * Z.of_nat hn) tp = (SamplersExec.words_of 8 hn tp, skipn (8 * hn) tp).
Proof.
  intros L. unfold MemSem.rand_fill. replace (Z.to_nat (8 * Z.of_nat hn / 8)) with hn by (rewrite Z.mul_comm, Z.div_mul by lia; lia).
  replace (Z.to_nat (8 * Z.of_nat hn)) with (8 * hn)%nat by lia. change (Z.to_nat 8) with 8%nat. change (Z.to_nat 0) with 0%nat.
  rewrite words_of_same. f_equal. unfold splice. cbn [firstn app Nat.add]. 
  assert (Lw : forall c t, length (SamplersExec.words_of 8 c t) = c) by (induction c as [|c IH]; intros t; cbn [SamplersExec.words_of length]; [reflexivity | now rewrite IH]).
  rewrite Lw, skipn_all2 by lia. apply app_nil_r.
Qed.
Lemma words_len c : forall t, length (SamplersExec.words_of 8 c t) = c.
Proof. induction c as [|c IH]; intros t; cbn [SamplersExec.words_of length]; [reflexivity | now rewrite IH]. Qed.
Lemma draw_range f hn k1 : 0 < k1 -> forall buf tp pos buf' tp', draw f hn k1 buf tp = Some (pos, buf', tp') -> 0 <= pos < k1.
Proof.
  intros Hk. induction f as [|f IH]; intros buf tp pos buf' tp' H; cbn [draw] in H; [discriminate|].
  destruct (match buf with [] => _ | _ => _ end) as [b t]. destruct b as [|x rest]; [discriminate|].
  destruct (x <? (W64 - 1) / k1 * k1); [inversion H; subst; apply Z.mod_pos_bound; lia | eapply IH; eassumption].
Qed.
Lemma nth_map_seq (F : nat -> Z) n i d : (i < n)%nat -> nth i (map F (seq 0 n)) d = F i.
Proof. intros H. rewrite (nth_indep (map F (seq 0 n)) d (F 0%nat)); [rewrite map_nth, seq_nth by exact H; reflexivity | rewrite map_length, seq_length; exact H]. Qed.
Lemma land2 w : negb (Z.land w 2 =? 0) = Z.testbit w 1.
Proof.
  assert (E : Z.land w 2 = if Z.testbit w 1 then 2 else 0).
  { apply Z.bits_inj'. intros i Hi. rewrite Z.land_spec. change 2 with (2 ^ 1) at 1. rewrite Z.pow2_bits_eqb by lia.
    destruct (Z.eqb_spec 1 i) as [<-|Hne].
    - rewrite andb_true_r. destruct (Z.testbit w 1); [reflexivity | symmetry; apply Z.bits_0].
    - rewrite andb_false_r. destruct (Z.testbit w 1); [|symmetry; apply Z.bits_0]. change 2 with (2 ^ 1). rewrite Z.pow2_bits_eqb by lia. symmetry. apply Z.eqb_neq. exact Hne. }
  rewrite E. destruct (Z.testbit w 1); reflexivity.
Qed.

Section Generic.
Variables (fuel : nat) (esz : Z) (n nm hn : nat) (P _data : list Z).
Variables (rej : Z -> Z) (acc : Z -> Z -> Z -> bool) (red : Z -> Z -> Z) (hit : Z -> bool) (nb1 nb2 : Z -> Z) (zb : Z)
          (pmf : Z -> Z) (idx : Z -> Z -> Z) (val : Z -> Z -> Z) (offinc : Z -> Z).
Let h := Z.of_nat hn.
Hypothesis Hh : (0 < hn <= n)%nat.
Hypothesis Hn : Z.of_nat n * Z.of_nat nm < 2 ^ 62.
Hypothesis Hn1 : Z.of_nat n < 2 ^ 62.
Hypothesis Hrej : forall k, h <= k < Z.of_nat n -> rej k = (W64 - 1) / (k + 1).
Hypothesis Hacc : forall w k, h <= k < Z.of_nat n -> acc w ((W64 - 1) / (k + 1)) k = (w <? (W64 - 1) / (k + 1) * (k + 1)).
Hypothesis Hred : forall w k, h <= k < Z.of_nat n -> red w k = w mod (k + 1).
Hypothesis Hhit : forall pos, hit pos = (pos <? h).
Hypothesis Hnb1 : nb1 h = 8 * h.
Hypothesis Hnb2 : nb2 h = 8 * h.

(* ---- the rejection loop is SamplersExec.draw on the unread part of the buffer *)
Lemma draw_src : forall f k rnd ptr tp pos buf' tp', h <= k < Z.of_nat n -> length rnd = hn -> (ptr <= hn)%nat ->
  draw f hn (k + 1) (skipn ptr rnd) tp = Some (pos, buf', tp') ->
  exists rnd' ptr', hwt_draw rej acc red nb1 f k rnd (Z.of_nat ptr) tp = Some (pos, rnd', Z.of_nat ptr', tp') /\ length rnd' = hn /\ (ptr' <= hn)%nat /\ skipn ptr' rnd' = buf'.
Proof.
  induction f as [|f IH]; intros k rnd ptr tp pos buf' tp' Hk L Hp H; cbn [draw] in H; [discriminate|]. cbn [hwt_draw].
  (* one common form for the refilled / not refilled buffer *)
  assert (S1 : exists rnd1 ptr1 tp1, (if Z.of_nat ptr =? Z.of_nat (length rnd) then (let '(r, t) := MemSem.rand_fill 8 rnd 0 (nb1 (Z.of_nat (length rnd))) tp in (r, 0, t)) else (rnd, Z.of_nat ptr, tp)) = (rnd1, Z.of_nat ptr1, tp1)
            /\ length rnd1 = hn /\ (match skipn ptr rnd with [] => (SamplersExec.words_of 8 hn tp, skipn (8 * hn) tp) | _ :: _ => (skipn ptr rnd, tp) end) = (skipn ptr1 rnd1, tp1)).
  { destruct (Nat.eq_dec ptr hn) as [->|Hne].
    - rewrite L, Z.eqb_refl. fold h. rewrite Hnb1. unfold h. rewrite (rand_fill_all rnd hn tp L). rewrite (skipn_all2 rnd) by lia.
      exists (SamplersExec.words_of 8 hn tp), 0%nat, (skipn (8 * hn) tp). repeat split. apply words_len.
    - replace (Z.of_nat ptr =? Z.of_nat (length rnd)) with false by (symmetry; apply Z.eqb_neq; lia).
      exists rnd, ptr, tp. repeat split; [exact L|]. destruct (skipn ptr rnd) eqn:E; [|reflexivity].
      exfalso. assert (length (skipn ptr rnd) = hn - ptr)%nat by (rewrite skipn_length; lia). rewrite E in H0. cbn in H0. lia. }
  destruct S1 as (rnd1 & ptr1 & tp1 & E1 & L1 & E2). rewrite E1. rewrite E2 in H.
  destruct (skipn ptr1 rnd1) as [|x rest] eqn:Es; [discriminate|].
  destruct (skipn_cons_ld rnd1 ptr1 x rest Es) as (A & B & C). rewrite A. cbn [bind].
  rewrite Hrej, Hacc by assumption. replace (Z.of_nat ptr1 + 1) with (Z.of_nat (S ptr1)) by lia.
  destruct (x <? (W64 - 1) / (k + 1) * (k + 1)).
  - injection H as Ep Eb Et. subst pos buf' tp'. rewrite Hred by assumption. exists rnd1, (S ptr1). split; [reflexivity|]. split; [exact L1|]. split; [lia | exact B].
  - rewrite <- B in H. apply (IH k rnd1 (S ptr1) tp1 pos buf' tp' Hk L1 ltac:(lia) H).
Qed.

(* ---- the position loop is SamplersExec.reservoir *)
Definition pos_body := fun k '(hitted, rnd, ptr, tp) =>
  bind (hwt_draw rej acc red nb1 fuel k rnd ptr tp) (fun '(pos, rnd, ptr, tp) =>
    if hit pos then bind (st hitted pos k) (fun hitted' => Some (hitted', rnd, ptr, tp)) else Some (hitted : list Z, rnd : list Z, ptr : Z, tp : list Z)).
Lemma res_src : forall m j hitted rnd ptr tp hitf tpf, (hn + j + m <= n)%nat -> length hitted = hn -> length rnd = hn -> (ptr <= hn)%nat ->
  reservoir fuel hn (map Z.of_nat (seq (hn + j) m)) hitted (skipn ptr rnd) tp = Some (hitf, tpf) ->
  exists rnd' ptr', iter_opt m (fun j' => pos_body (h + 1 * Z.of_nat j')) j (hitted, rnd, Z.of_nat ptr, tp) = Some (hitf, rnd', ptr', tpf) /\ length rnd' = hn.
Proof.
  induction m as [|m IH]; intros j hitted rnd ptr tp hitf tpf Hj Lh Lr Hp H; cbn [seq map reservoir] in H; cbn [iter_opt].
  - injection H as <- <-. exists rnd, (Z.of_nat ptr). split; [reflexivity | exact Lr].
  - destruct (draw fuel hn (Z.of_nat (hn + j) + 1) (skipn ptr rnd) tp) as [[[pos buf'] tp']|] eqn:D; [|discriminate].
    assert (Hk : h <= Z.of_nat (hn + j) < Z.of_nat n) by (unfold h; lia).
    destruct (draw_src fuel _ rnd ptr tp pos buf' tp' Hk Lr Hp D) as (rnd' & ptr' & E & Lr' & Hp' & Eb).
    pose proof (draw_range fuel hn (Z.of_nat (hn + j) + 1) ltac:(lia) _ _ _ _ _ D) as Rp.
    unfold pos_body at 1. replace (h + 1 * Z.of_nat j) with (Z.of_nat (hn + j)) by (unfold h; lia). rewrite E. cbn [bind]. rewrite Hhit.
    replace (seq (S (hn + j)) m) with (seq (hn + S j) m) in H by (f_equal; lia). rewrite <- Eb in H.
    fold h in H. destruct (pos <? h) eqn:Ep.
    + rewrite st_some by (rewrite Lh; fold h; lia). cbn [bind]. rewrite upd_set_nth.
      apply (IH (S j) _ rnd' ptr' tp' hitf tpf ltac:(lia)); [rewrite set_nth_length; exact Lh | exact Lr' | exact Hp' | exact H].
    + apply (IH (S j) _ rnd' ptr' tp' hitf tpf ltac:(lia) Lh Lr' Hp' H).
Qed.

(* the slot array stays a list of hn distinct indices below the current k *)
Definition InvZ (k : nat) (l : list Z) : Prop := length l = hn /\ NoDup l /\ forall x, In x l -> 0 <= x < Z.of_nat k.
Lemma res_inv : forall m kk hitted buf tp hitf tpf, InvZ kk hitted ->
  reservoir fuel hn (map Z.of_nat (seq kk m)) hitted buf tp = Some (hitf, tpf) -> InvZ (kk + m) hitf.
Proof.
  induction m as [|m IH]; intros kk hitted buf tp hitf tpf I H; cbn [seq map reservoir] in H.
  - injection H as <- <-. rewrite Nat.add_0_r. exact I.
  - destruct (draw fuel hn (Z.of_nat kk + 1) buf tp) as [[[pos buf'] tp']|] eqn:D; [|discriminate].
    replace (kk + S m)%nat with (S kk + m)%nat by lia. eapply IH; [|exact H].
    destruct I as (L & ND & R). destruct (pos <? Z.of_nat hn).
    + split; [rewrite set_nth_length; exact L|]. split.
      * apply set_nth_NoDup; [exact ND | intros Hin; apply R in Hin; lia].
      * intros x Hx. apply set_nth_In in Hx. destruct Hx as [->|Hx]; [lia | apply R in Hx; lia].
    + split; [exact L|]. split; [exact ND | intros x Hx; apply R in Hx; lia].
Qed.

(* ---- the store phase *)
Hypothesis Hesz : 0 < esz.
Hypothesis Hzb : zb / esz = Z.of_nat n * Z.of_nat nm.
Hypothesis Hidx : forall pos off, 0 <= pos < Z.of_nat n -> 0 <= off <= Z.of_nat n * Z.of_nat nm -> idx pos off = pos + off.
Hypothesis Hval : forall w pm, val w pm = if Z.testbit w 1 then 1 else pm.
Hypothesis Hoff : forall off, 0 <= off <= Z.of_nat n * Z.of_nat nm -> offinc off = off + Z.of_nat n.
Hypothesis Hpm : forall cm, 0 <= cm < Z.of_nat nm -> pmf cm = tabP P cm - 1.
Hypothesis Hdata : length _data = (n * nm)%nat.
Hypothesis HP : (nm <= length P)%nat.

Definition foldst (l : list (Z * Z)) (pm : Z) (b : list Z) : list Z := fold_left (fun b ps => upd (Z.to_nat (fst ps)) (val (snd ps) pm) b) l b.
Lemma foldst_cons p s l pm b : foldst ((p, s) :: l) pm b = foldst l pm (upd (Z.to_nat p) (val s pm) b).
Proof. reflexivity. Qed.
Lemma foldst_length l pm : forall b, length (foldst l pm b) = length b.
Proof. induction l as [|[p s] l IH]; intros b; [reflexivity|]. rewrite foldst_cons, IH, upd_length. reflexivity. Qed.
Lemma st_mid a b c p v : 0 <= p < Z.of_nat (length b) -> st (a ++ b ++ c) (p + Z.of_nat (length a)) v = Some (a ++ upd (Z.to_nat p) v b ++ c).
Proof.
  intros Hp. rewrite st_some by (rewrite !app_length; lia). f_equal. replace (Z.to_nat (p + Z.of_nat (length a))) with (length a + Z.to_nat p)%nat by lia.
  set (q := Z.to_nat p). assert (Hq : (q < length b)%nat) by lia. clearbody q. clear Hp. induction a as [|x a IH]; cbn [app length Nat.add upd].
  - revert q Hq. induction b as [|y b IHb]; intros q Hq; [cbn in Hq; lia|]. destruct q as [|q]; cbn [app upd]; [reflexivity|]. f_equal. apply IHb. cbn in Hq. lia.
  - f_equal. exact IH.
Qed.
Lemma store_src : forall l rnd q off pm a b c, length b = n -> off = Z.of_nat (length a) -> off <= Z.of_nat n * Z.of_nat nm -> (forall x, In x l -> 0 <= x < Z.of_nat n) -> (length l + q <= length rnd)%nat ->
  hwt_store idx val l rnd (Z.of_nat q) off pm (a ++ b ++ c) = Some (a ++ foldst (combine l (skipn q rnd)) pm b ++ c).
Proof.
  induction l as [|p l IH]; intros rnd q off pm a b c Lb Eo Ho R Lq; cbn [hwt_store]; [reflexivity|].
  cbn [length] in Lq. destruct (skipn q rnd) as [|w rest] eqn:Es.
  { exfalso. assert (length (skipn q rnd) = length rnd - q)%nat by apply skipn_length. rewrite Es in H. cbn in H. lia. }
  destruct (skipn_cons_ld rnd q w rest Es) as (A & B & C). rewrite A. cbn [bind].
  assert (Rp : 0 <= p < Z.of_nat n) by (apply R; now left).
  rewrite Hidx by lia. rewrite Eo, st_mid by lia. cbn [bind]. replace (Z.of_nat q + 1) with (Z.of_nat (S q)) by lia.
  rewrite <- Eo. rewrite (IH rnd (S q) off pm a _ c); [| rewrite upd_length; exact Lb | exact Eo | exact Ho | intros x Hx; apply R; now right | lia].
  rewrite B. cbn [combine]. rewrite foldst_cons. reflexivity.
Qed.

(* positions distinct: storing them one after the other is the lookup of HwtStore.hwt_row *)
Lemma foldst_untouched l pm : forall b i, ~ In (Z.of_nat i) (map fst l) -> (forall x, In x (map fst l) -> 0 <= x) -> nth i (foldst l pm b) 0 = nth i b 0.
Proof.
  induction l as [|[p s] l IH]; intros b i Hi Hr; [reflexivity|]. rewrite foldst_cons.
  cbn [map fst] in Hi, Hr. rewrite IH; [| intros H; apply Hi; now right | intros x Hx; apply Hr; now right].
  rewrite upd_nth. destruct (Nat.eqb_spec i (Z.to_nat p)) as [->|Hne]; [|reflexivity]. exfalso. apply Hi. left. cbn [fst]. rewrite Z2Nat.id; [reflexivity | apply Hr; now left].
Qed.
Lemma foldst_lookup l pm : forall b i, NoDup (map fst l) -> (forall x, In x (map fst l) -> 0 <= x < Z.of_nat (length b)) -> (i < length b)%nat ->
  nth i (foldst l pm b) 0 = match find (fun pj => fst pj =? Z.of_nat i) l with Some (_, s) => val s pm | None => nth i b 0 end.
Proof.
  induction l as [|[p s] l IH]; intros b i ND R Hi; [reflexivity|]. rewrite foldst_cons. cbn [find].
  cbn [map fst snd] in *. inversion ND as [|? ? Hp ND']; subst. assert (Rp : 0 <= p < Z.of_nat (length b)) by (apply R; now left).
  destruct (Z.eqb_spec p (Z.of_nat i)) as [E|Hne].
  - subst p. rewrite foldst_untouched; [| exact Hp | intros x Hx; apply R; now right]. rewrite upd_nth, Nat2Z.id, Nat.eqb_refl. cbn [andb].
    destruct (Nat.ltb_spec i (length b)); [reflexivity | lia].
  - rewrite IH; [| exact ND' | intros x Hx; rewrite upd_length; apply R; now right | rewrite upd_length; exact Hi].
    destruct (find (fun pj => fst pj =? Z.of_nat i) l) as [[? ?]|]; [reflexivity|]. rewrite upd_nth.
    destruct (Nat.eqb_spec i (Z.to_nat p)) as [->|Hn']; [exfalso; apply Hne; lia | reflexivity].
Qed.
Lemma map_fst_combine (a b : list Z) : length a = length b -> map fst (combine a b) = a.
Proof. revert b; induction a as [|x a IH]; intros [|y b] H; cbn in *; try lia; [reflexivity|]. f_equal. apply IH. lia. Qed.
Lemma row_src pos signs p : NoDup pos -> (forall x, In x pos -> 0 <= x < Z.of_nat n) -> length pos = length signs ->
  foldst (combine pos signs) (p - 1) (repeat 0 n) = hwt_row n p pos signs.
Proof.
  intros ND R L. apply nth_ext with (d := 0) (d' := 0); [rewrite foldst_length, repeat_length; unfold hwt_row; rewrite map_length, seq_length; reflexivity|].
  intros i Hi. rewrite foldst_length, repeat_length in Hi. rewrite foldst_lookup; [| rewrite map_fst_combine by exact L; exact ND | rewrite map_fst_combine by exact L; rewrite repeat_length; exact R | rewrite repeat_length; exact Hi].
  unfold hwt_row. set (F := fun i0 : nat => match hwt_lookup pos signs i0 with Some (_, s) => if Z.testbit s 1 then 1 else p - 1 | None => 0 end).
  rewrite nth_map_seq by exact Hi. subst F. cbn beta.
  unfold hwt_lookup. destruct (find (fun pj => fst pj =? Z.of_nat i) (combine pos signs)) as [[? s]|].
  - apply Hval.
  - apply nth_repeat.
Qed.

Definition rows (signs pos : list Z) (cm : nat) : list Z := concat (map (fun p => hwt_row n p pos signs) (firstn cm P)).
Lemma firstn_S_nth (l : list Z) : forall cm, (cm < length l)%nat -> firstn (S cm) l = firstn cm l ++ [nth cm l 0].
Proof. induction l as [|a l IHl]; intros cm H; [cbn in H; lia|]. destruct cm as [|cm]; [reflexivity|]. cbn [firstn nth app]. f_equal. apply IHl. cbn in H. lia. Qed.

Lemma rows_length signs pos cm : (cm <= length P)%nat -> length (rows signs pos cm) = (n * cm)%nat.
Proof.
  intros H. unfold rows. induction cm as [|cm IH]; [cbn; lia|].
  rewrite (firstn_S_nth P cm) by lia. rewrite map_app, concat_app, app_length. rewrite IH by lia. cbn [map concat]. rewrite app_nil_r. unfold hwt_row. rewrite map_length, seq_length. lia.
Qed.
Theorem hwt_prog_ok tape hitf tpf :
  reservoir fuel hn (map Z.of_nat (seq hn (n - hn))) (map Z.of_nat (seq 0 hn)) [] tape = Some (hitf, tpf) ->
  hwt_prog fuel esz (Z.of_nat n) (Z.of_nat nm) _data tape h 0 h rej acc red hit nb1 nb2 zb pmf idx val offinc
  = Some (concat (map (fun p => hwt_row n p (sort hitf) (SamplersExec.words_of 8 hn tpf)) (firstn nm P)), skipn (8 * hn) tpf).
Proof.
  intros R. unfold hwt_prog.
  replace (map (fun i => 0 + Z.of_nat i) (seq 0 (Z.to_nat h))) with (map Z.of_nat (seq 0 hn)) by (unfold h; rewrite Nat2Z.id; apply map_ext; intros; lia).
  rewrite map_length, seq_length, repeat_length.
  (* the position loop *)
  rewrite (for_up_count (n - hn)) by (unfold h; lia).
  assert (I0 : InvZ hn (map Z.of_nat (seq 0 hn))).
  { split; [rewrite map_length, seq_length; reflexivity|]. split; [apply FinFun.Injective_map_NoDup; [intros a b; apply Nat2Z.inj | apply seq_NoDup] |].
    intros x Hx. apply in_map_iff in Hx. destruct Hx as [i [<- Hi]]. apply in_seq in Hi. lia. }
  pose proof (res_inv _ _ _ _ _ _ _ I0 R) as If. replace (hn + (n - hn))%nat with n in If by lia. destruct If as (Lf & NDf & Rf).
  destruct (res_src (n - hn) 0 (map Z.of_nat (seq 0 hn)) (repeat 0 hn) hn tape hitf tpf ltac:(lia) ltac:(rewrite map_length, seq_length; reflexivity) (repeat_length _ _) (le_n _)) as (rnd' & ptr' & E & Lr').
  { rewrite Nat.add_0_r, skipn_all2 by (rewrite repeat_length; lia). exact R. }
  match goal with |- bind ?X _ = _ => replace X with (Some (hitf, rnd', ptr', tpf)) by (symmetry; exact E) end. cbn [bind].
  (* sort, clear, refill *)
  rewrite Lr'. fold h. rewrite Hnb2. unfold h. rewrite (rand_fill_all rnd' hn tpf Lr').
  set (pos := sort hitf). set (signs := SamplersExec.words_of 8 hn tpf).
  assert (Pp : Permutation pos hitf) by apply sort_perm.
  assert (Lp : length pos = hn) by (rewrite (Permutation_length Pp); exact Lf).
  assert (NDp : NoDup pos) by (apply (Permutation_NoDup (Permutation_sym Pp)); exact NDf).
  assert (Rp : forall x, In x pos -> 0 <= x < Z.of_nat n) by (intros x Hx; apply Rf; apply (Permutation_in _ Pp); exact Hx).
  assert (Ls : length signs = hn) by apply words_len.
  rewrite Hzb. unfold fill_all. rewrite skipn_all2, app_nil_r by (rewrite Hdata; lia). replace (Z.to_nat (Z.of_nat n * Z.of_nat nm)) with (n * nm)%nat by lia.
  (* the modulus loop *)
  replace (0, repeat 0 (n * nm)) with (Z.of_nat n * Z.of_nat 0, rows signs pos 0 ++ repeat 0 (n * (nm - 0))) by (unfold rows; cbn [firstn map concat app]; f_equal; [lia | f_equal; lia]).
  rewrite (for_up_steps (fun cm : nat => (Z.of_nat n * Z.of_nat cm, rows signs pos cm ++ repeat 0 (n * (nm - cm)))) nm); [ | lia | lia | nia | ].
  - cbn [bind]. rewrite Nat.sub_diag, Nat.mul_0_r. cbn [repeat]. rewrite app_nil_r. reflexivity.
  - intros cm Hcm. replace (0 + 1 * Z.of_nat cm) with (Z.of_nat cm) by lia.
    replace (repeat 0 (n * (nm - cm))) with (repeat 0 n ++ repeat 0 (n * (nm - S cm))) by (rewrite <- repeat_app; f_equal; nia).
    assert (SS := store_src pos signs 0 (Z.of_nat n * Z.of_nat cm) (pmf (Z.of_nat cm)) (rows signs pos cm) (repeat 0 n) (repeat 0 (n * (nm - S cm))) (repeat_length _ _)
                    ltac:(rewrite rows_length by lia; lia) ltac:(nia) Rp ltac:(lia)).
    change (Z.of_nat 0) with 0 in SS. rewrite SS.
    cbn [bind skipn]. rewrite Hoff by nia. rewrite Hpm by lia. f_equal. f_equal; [lia|].
    rewrite row_src by (try assumption; lia). unfold rows. rewrite (firstn_S_nth P cm) by lia. rewrite map_app, concat_app. cbn [map concat]. rewrite app_nil_r, <- app_assoc. unfold tabP. rewrite Nat2Z.id. reflexivity.
Qed.
End Generic.

(* ---- the three translated functions *)
Lemma w64m1 : W64 - 1 = 18446744073709551615. Proof. reflexivity. Qed.
Lemma mul_div_small k : 0 < k -> 0 <= (W64 - 1) / k * k <= W64 - 1.
Proof. intros H. pose proof (Z.mul_div_le (W64 - 1) k H). pose proof (Z.div_pos (W64 - 1) k ltac:(unfold W64; lia) H). nia. Qed.

Ltac holes bits :=
  match goal with
  | |- forall k, _ -> _ = (W64 - 1) / (k + 1) => intros k Hk; rewrite uw_small by lia; rewrite w64m1; reflexivity
  | |- forall w k, _ -> _ = (w <? _) => intros w k Hk; rewrite !uw_small; [reflexivity | lia | pose proof (mul_div_small (k + 1) ltac:(lia)); rewrite (uw_small 64 (k + 1)) by lia; unfold W64 in *; lia]
  | |- forall w k, _ -> _ = w mod (k + 1) => intros w k Hk; rewrite uw_small by lia; reflexivity
  | |- forall pos, _ = (pos <? _) => intros pos; reflexivity
  | |- forall w pm, _ = (if Z.testbit w 1 then 1 else pm) => intros w pm; rewrite land2; reflexivity
  | |- forall pos off, _ -> _ -> _ = pos + off => intros pos off Hq1 Hq2; apply uw_small; lia
  | |- forall off, _ -> _ = off + _ => intros off Hq2; apply uw_small; lia
  | |- uw 64 _ = 8 * _ => rewrite uw_small by lia; lia
  | |- 0 < _ => lia
  end.

Section Inst.
Variables (fuel n nm hn : nat) (P _data tape hitf tpf : list Z).
Hypothesis Hh : (0 < hn <= n)%nat.
Hypothesis Hn : Z.of_nat n * Z.of_nat nm < 2 ^ 60.
Hypothesis Hn1 : Z.of_nat n < 2 ^ 60.
Hypothesis Hdata : length _data = (n * nm)%nat.
Hypothesis HP : (nm <= length P)%nat.
Hypothesis HR : reservoir fuel hn (map Z.of_nat (seq hn (n - hn))) (map Z.of_nat (seq 0 hn)) [] tape = Some (hitf, tpf).
Let result := Some (concat (map (fun p => hwt_row n p (sort hitf) (SamplersExec.words_of 8 hn tpf)) (firstn nm P)), skipn (8 * hn) tpf).

Theorem source_set_hwt_u16 : (forall cm, 0 <= cm < Z.of_nat nm -> 0 < tabP P cm < 2 ^ 16) ->
  gen_set_hwt_u16 fuel (Z.of_nat n) _data (Z.of_nat hn) (Z.of_nat nm) P tape = result.
Proof.
  intros Hp. unfold gen_set_hwt_u16, result. apply (hwt_prog_ok fuel 2 n nm hn P _data); try assumption; try lia; try (holes 16).
  - assert (0 <= Z.of_nat n * Z.of_nat nm) by nia. rewrite uw_small by lia. rewrite Z.div_mul by lia. reflexivity.
  - intros cm Hcm. specialize (Hp cm Hcm). rewrite (uw_small 32), uw_small by lia. reflexivity.
Qed.
Theorem source_set_hwt_u32 : (forall cm, 0 <= cm < Z.of_nat nm -> 0 < tabP P cm < 2 ^ 32) ->
  gen_set_hwt_u32 fuel (Z.of_nat n) _data (Z.of_nat hn) (Z.of_nat nm) P tape = result.
Proof.
  intros Hp. unfold gen_set_hwt_u32, result. apply (hwt_prog_ok fuel 4 n nm hn P _data); try assumption; try lia; try (holes 32).
  - assert (0 <= Z.of_nat n * Z.of_nat nm) by nia. rewrite uw_small by lia. rewrite Z.div_mul by lia. reflexivity.
  - intros cm Hcm. specialize (Hp cm Hcm). rewrite uw_small by lia. reflexivity.
Qed.
Theorem source_set_hwt_u64 : (forall cm, 0 <= cm < Z.of_nat nm -> 0 < tabP P cm < 2 ^ 64) ->
  gen_set_hwt_u64 fuel (Z.of_nat n) _data (Z.of_nat hn) (Z.of_nat nm) P tape = result.
Proof.
  intros Hp. unfold gen_set_hwt_u64, result. apply (hwt_prog_ok fuel 8 n nm hn P _data); try assumption; try lia; try (holes 64).
  - assert (0 <= Z.of_nat n * Z.of_nat nm) by nia. rewrite uw_small by lia. rewrite Z.div_mul by lia. reflexivity.
  - intros cm Hcm. specialize (Hp cm Hcm). rewrite uw_small by lia. reflexivity.
Qed.
End Inst.

(* ---- in terms of the executable model the checks run (SamplersExec.set_hwt: the output of the sampler as a function of the tape) *)
Lemma set_hwt_inv n ps hn tape out : SamplersExec.set_hwt n ps hn tape = Some out ->
  exists hitf tpf, reservoir (length tape + 1) hn (map Z.of_nat (seq hn (n - hn))) (map Z.of_nat (seq 0 hn)) [] tape = Some (hitf, tpf) /\
                   out = concat (map (fun p => hwt_row n p (sort hitf) (SamplersExec.words_of 8 hn tpf)) ps).
Proof.
  intros H. destruct (reservoir (length tape + 1) hn (map Z.of_nat (seq hn (n - hn))) (map Z.of_nat (seq 0 hn)) [] tape) as [[hitf tpf]|] eqn:R.
  - exists hitf, tpf. split; [reflexivity|]. rewrite (set_hwt_rows n ps hn tape hitf tpf R) in H. injection H as <-. reflexivity.
  - unfold SamplersExec.set_hwt in H. rewrite R in H. discriminate.
Qed.
Definition hwt_pre (bits : Z) (n nm hn : nat) (P _data : list Z) : Prop :=
  (0 < hn <= n)%nat /\ Z.of_nat n * Z.of_nat nm < 2 ^ 60 /\ Z.of_nat n < 2 ^ 60 /\ length _data = (n * nm)%nat /\ (nm <= length P)%nat /\
  (forall cm, 0 <= cm < Z.of_nat nm -> 0 < tabP P cm < 2 ^ bits).
Definition hwt_is_model (bits : Z) (gen : nat -> Z -> list Z -> Z -> Z -> list Z -> list Z -> option (list Z * list Z)) : Prop :=
  forall n nm hn P _data tape out, hwt_pre bits n nm hn P _data -> SamplersExec.set_hwt n (firstn nm P) hn tape = Some out ->
  exists tape', gen (length tape + 1)%nat (Z.of_nat n) _data (Z.of_nat hn) (Z.of_nat nm) P tape = Some (out, tape').
Theorem source_set_hwt_is_model : hwt_is_model 16 gen_set_hwt_u16 /\ hwt_is_model 32 gen_set_hwt_u32 /\ hwt_is_model 64 gen_set_hwt_u64.
Proof.
  split; [|split]; intros n nm hn P _data tape out (A & B & C & D & E & F) H; destruct (set_hwt_inv _ _ _ _ _ H) as (hitf & tpf & R & ->); eexists.
  - apply (source_set_hwt_u16 _ n nm hn P _data tape hitf tpf A B C D E R F).
  - apply (source_set_hwt_u32 _ n nm hn P _data tape hitf tpf A B C D E R F).
  - apply (source_set_hwt_u64 _ n nm hn P _data tape hitf tpf A B C D E R F).
Qed.

(* non-vacuity: the translated sampler RUNS and agrees with the model on a tape *)
Definition demo_tape := map (fun i => (Z.of_nat i * 37 + 11) mod 256) (seq 0 400).
Example source_set_hwt_nonvacuous :
  hwt_pre 16 8 2 3 [97; 193] (repeat 7 16) /\
  (exists out tape', SamplersExec.set_hwt 8 [97; 193] 3 demo_tape = Some out /\ gen_set_hwt_u16 401 8 (repeat 7 16) 3 2 [97; 193] demo_tape = Some (out, tape') /\
     length (filter (fun v => negb (v =? 0)) (firstn 8 out)) = 3%nat).
Proof.
  split.
  - unfold hwt_pre. split; [lia|]. split; [cbn; lia|]. split; [cbn; lia|]. split; [reflexivity|]. split; [cbn; lia|]. intros c Hc. assert (c = 0 \/ c = 1) as [-> | ->] by lia; vm_compute; split; reflexivity.
  - eexists. eexists. split; [vm_compute; reflexivity|]. split; [vm_compute; reflexivity | vm_compute; reflexivity].
Qed.
