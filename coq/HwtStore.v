(* C09/C12: the store stage of poly::set(hwt_dist): positions = the sorted slot array, one sign word per slot, the SAME sign words reused
   for every modulus.  Every row holds exactly h non-zero residues, at the positions of the slot array, each 1 or p-1, and all rows
   represent one and the same signed polynomial with coefficients in {-1, 0, 1}. *)
From Coq Require Import ZArith Lia List Arith Bool Permutation.
From NTT Require Import SamplersExec.
Import ListNotations.
Local Open Scope Z_scope.

Definition hwt_lookup (pos signs : list Z) (i : nat) : option (Z * Z) := find (fun pj => fst pj =? Z.of_nat i) (combine pos signs).
(* the signed value of coefficient i *)
Definition hwt_val (pos signs : list Z) (i : nat) : Z :=
  match hwt_lookup pos signs i with Some (_, s) => if Z.testbit s 1 then 1 else -1 | None => 0 end.
(* what set_hwt stores in the row of modulus p *)
Definition hwt_row (n : nat) (p : Z) (pos signs : list Z) : list Z :=
  map (fun i => match hwt_lookup pos signs i with Some (_, s) => if Z.testbit s 1 then 1 else p - 1 | None => 0 end) (seq 0 n).

Lemma insert_perm x l : Permutation (insert x l) (x :: l).
Proof. induction l as [|y l IH]; cbn [insert]; [apply Permutation_refl|]. destruct (x <=? y); [apply Permutation_refl|].
  apply Permutation_trans with (y :: x :: l); [now apply perm_skip | apply perm_swap]. Qed.
Lemma sort_perm l : Permutation (sort l) l.
Proof. unfold sort. induction l as [|x l IH]; cbn [fold_right]; [apply Permutation_refl|].
  apply Permutation_trans with (x :: fold_right insert [] l); [apply insert_perm | now apply perm_skip]. Qed.

Lemma nth_combine_lt {A B} (a : list A) (b : list B) k da db : (k < length a)%nat -> (k < length b)%nat ->
  nth k (combine a b) (da, db) = (nth k a da, nth k b db).
Proof. revert b k; induction a as [|x a IH]; intros [|y b] [|k] Ha Hb; simpl in *; try lia; auto. apply IH; lia. Qed.

Section Store.
Variable n : nat.
Variables pos signs : list Z.
Hypothesis Hlen : (length pos <= length signs)%nat.
Hypothesis Hnd : NoDup pos.
Hypothesis Hrng : forall x, In x pos -> 0 <= x < Z.of_nat n.

(* every row is the signed polynomial reduced modulo its own modulus: canonical and consistent across moduli *)
Theorem hwt_row_consistent p : 2 < p -> hwt_row n p pos signs = map (fun i => hwt_val pos signs i mod p) (seq 0 n) /\
  Forall (fun v => 0 <= v < p) (hwt_row n p pos signs).
Proof.
  intros Hp. split.
  - unfold hwt_row, hwt_val. apply map_ext. intros i. destruct (hwt_lookup pos signs i) as [[a s]|]; [|reflexivity].
    destruct (Z.testbit s 1); [symmetry; apply Z.mod_small; lia|]. apply (Z.mod_unique_pos (-1) p (-1) (p - 1)); lia.
  - unfold hwt_row. apply Forall_forall. intros v Hv. apply in_map_iff in Hv. destruct Hv as [i [<- _]].
    destruct (hwt_lookup pos signs i) as [[a s]|]; [destruct (Z.testbit s 1)|]; lia.
Qed.

Lemma lookup_some_iff i : (exists e, hwt_lookup pos signs i = Some e) <-> In (Z.of_nat i) pos.
Proof.
  unfold hwt_lookup. split.
  - intros [[a s] E]. apply find_some in E. destruct E as [Hin Ha]. cbn [fst] in Ha. apply Z.eqb_eq in Ha. subst a.
    apply in_combine_l in Hin. exact Hin.
  - intros Hin. apply (In_nth _ _ 0) in Hin. destruct Hin as [k [Hk Ek]].
    assert (Hc : In (Z.of_nat i, nth k signs 0) (combine pos signs)).
    { rewrite <- Ek. rewrite <- (nth_combine_lt pos signs k 0 0) by lia. apply nth_In. rewrite combine_length. lia. }
    destruct (find (fun pj => fst pj =? Z.of_nat i) (combine pos signs)) as [e|] eqn:E; [now exists e|].
    exfalso. pose proof (find_none _ _ E _ Hc) as F. cbn [fst] in F. rewrite Z.eqb_refl in F. discriminate.
Qed.

Lemma val_nonzero_iff i : hwt_val pos signs i <> 0 <-> In (Z.of_nat i) pos.
Proof.
  rewrite <- lookup_some_iff. unfold hwt_val. destruct (hwt_lookup pos signs i) as [[a s]|].
  - split; [intros _; now exists (a, s) | intros _; destruct (Z.testbit s 1); lia].
  - split; [congruence | intros [e E]; discriminate].
Qed.

(* exactly h = length pos coefficients are non-zero, and they sit at the positions of the slot array *)
Theorem hwt_weight : length (filter (fun i => negb (hwt_val pos signs i =? 0)) (seq 0 n)) = length pos.
Proof.
  set (F := filter (fun i => negb (hwt_val pos signs i =? 0)) (seq 0 n)).
  assert (P : Permutation (map Z.of_nat F) pos).
  { apply NoDup_Permutation; [| exact Hnd |].
    - apply FinFun.Injective_map_NoDup; [intros a b; apply Nat2Z.inj | apply NoDup_filter, seq_NoDup].
    - intros z. rewrite in_map_iff. split.
      + intros [i [<- Hi]]. apply filter_In in Hi. destruct Hi as [_ Hv]. apply val_nonzero_iff.
        destruct (Z.eqb_spec (hwt_val pos signs i) 0); [discriminate | assumption].
      + intros Hz. pose proof (Hrng z Hz) as R. exists (Z.to_nat z). rewrite Z2Nat.id by lia. split; [reflexivity|].
        apply filter_In. split; [apply in_seq; lia|]. destruct (Z.eqb_spec (hwt_val pos signs (Z.to_nat z)) 0) as [E|E]; [|reflexivity].
        exfalso. revert E. apply val_nonzero_iff. rewrite Z2Nat.id by lia. exact Hz. }
  rewrite <- (Permutation_length P), map_length. reflexivity.
Qed.
End Store.

(* tie to the executable sampler model: set_hwt stores exactly these rows, with positions = the sorted slot array *)
Lemma set_hwt_rows n ps h tape hit tape' : reservoir (length tape + 1) h (map Z.of_nat (seq h (n - h))) (map Z.of_nat (seq 0 h)) [] tape = Some (hit, tape') ->
  set_hwt n ps h tape = Some (concat (map (fun p => hwt_row n p (sort hit) (words_of 8 h tape')) ps)).
Proof. intros E. unfold set_hwt. rewrite E. reflexivity. Qed.
Print Assumptions hwt_weight.

(* with the slot-array invariant of the reservoir loop (ReservoirSlots.Slots: h distinct indices below n) *)
From NTT Require ReservoirSlots.
Theorem hwt_final n h (hitn : list nat) signs p : ReservoirSlots.Slots h n hitn -> (h <= length signs)%nat -> 2 < p ->
  let pos := sort (map Z.of_nat hitn) in
  hwt_row n p pos signs = map (fun i => hwt_val pos signs i mod p) (seq 0 n) /\
  Forall (fun v => 0 <= v < p) (hwt_row n p pos signs) /\
  length (filter (fun i => negb (hwt_val pos signs i =? 0)) (seq 0 n)) = h /\
  (forall i, hwt_val pos signs i <> 0 <-> In i hitn).
Proof.
  intros (HL & ND & Hlt) Hs Hp pos.
  assert (P : Permutation pos (map Z.of_nat hitn)) by apply sort_perm.
  assert (Lp : length pos = h) by (rewrite (Permutation_length P), map_length; exact HL).
  assert (NDp : NoDup pos).
  { apply (Permutation_NoDup (Permutation_sym P)). apply FinFun.Injective_map_NoDup; [intros a b; apply Nat2Z.inj | exact ND]. }
  assert (Rp : forall x, In x pos -> 0 <= x < Z.of_nat n).
  { intros x Hx. apply (Permutation_in _ P) in Hx. apply in_map_iff in Hx. destruct Hx as [i [<- Hi]]. apply Hlt in Hi. lia. }
  destruct (hwt_row_consistent n pos signs ltac:(lia) p Hp) as [A B].
  split; [exact A|]. split; [exact B|]. split.
  - rewrite (hwt_weight n pos signs ltac:(lia) NDp Rp). exact Lp.
  - intros i. rewrite (val_nonzero_iff pos signs ltac:(lia)). split.
    + intros Hi. apply (Permutation_in _ P) in Hi. apply in_map_iff in Hi. destruct Hi as [j [E Hj]]. apply Nat2Z.inj in E. now subst.
    + intros Hi. apply (Permutation_in _ (Permutation_sym P)). apply in_map. exact Hi.
Qed.
Print Assumptions hwt_final.
