From Coq Require Import ZArith List.
From NTT Require Import TablesOK Shards.
From NTT.gen Require Import Params.
Lemma ok : forallb (row_ok w64 bits64 K64 T64) (chunk csz64 11 rows64) = true.
Proof. vm_compute. reflexivity. Qed.
