(* Meaning of the std::shared_ptr operations poly_p is written with, over the handle/cell state of PolyP.v (the model of C14), as
   tools/cxxpolyp2coq.py emits them.  A handle slot h holds the shared_ptr member _p of one poly_p object; a cell is one control block +
   payload.  use_count is the reference count; releasing the last reference frees the cell (counted in `frees`).
     sp_init_copy s h g   : _p(o._p)            copy-initialisation of the member of a NEW object h from object g
     sp_init_move s h g   : _p(std::move(o._p)) move-initialisation: g is left empty
     sp_init_make s h v   : _p(allocate_shared<poly>(alloc, args...)), v the constructed payload
     sp_assign_copy s h g : _p = o._p           releases what h held, shares g's cell
     sp_assign_move s h g : _p = std::move(o._p)
     sp_unique s h        : _p.unique()         use_count() == 1
     sp_assign_clone s h  : _p = allocate_shared<poly>(alloc, *_p)   a fresh cell holding a copy of the payload, the old reference released
   Standard-mandated behaviour of shared_ptr (trusted); the allocator only aligns. *)
From Coq Require Import Arith List.
From NTT Require Import PolyP.

Section Sh.
Variable V : Type.
Notation st := (st V).
Definition sp_unique (s : st) (h : nat) : bool := match hs V s h with Some c => cnt V s c =? 1 | None => false end.
Definition share (s : st) (h : nat) (oc : option nat) : st :=
  match oc with
  | Some c => {| hs := set (hs V s) h (Some c); cnt := set (cnt V s) c (S (cnt V s c)); val := val V s; next := next V s; frees := frees V s |}
  | None => {| hs := set (hs V s) h None; cnt := cnt V s; val := val V s; next := next V s; frees := frees V s |}
  end.
Definition sp_init_copy (s : st) (h g : nat) : st := share s h (hs V s g).
Definition sp_assign_copy (s : st) (h g : nat) : st := match hs V s g with None => s | Some c => share (release V s (hs V s h)) h (Some c) end.
Definition steal (s : st) (h g : nat) : st :=
  {| hs := set (set (hs V s) h (hs V s g)) g None; cnt := cnt V s; val := val V s; next := next V s; frees := frees V s |}.
Definition sp_init_move (s : st) (h g : nat) : st := steal s h g.
Definition sp_assign_move (s : st) (h g : nat) : st := let s1 := release V s (hs V s h) in
  {| hs := set (set (hs V s1) h (hs V s g)) g None; cnt := cnt V s1; val := val V s1; next := next V s1; frees := frees V s1 |}.
Definition sp_init_make (s : st) (h : nat) (v : V) : st :=
  let c := next V s in {| hs := set (hs V s) h (Some c); cnt := set (cnt V s) c 1; val := set (val V s) c (Some v); next := S c; frees := frees V s |}.
(* _p = make_pointer( *_p ): the payload is read first, the new cell is built, then the assignment releases the old reference *)
Definition sp_assign_clone (s : st) (h : nat) : st :=
  match hs V s h with
  | None => s
  | Some c => match val V s c with
              | None => s
              | Some v => let c' := next V s in
                          let s1 := {| hs := hs V s; cnt := set (cnt V s) c' 1; val := set (val V s) c' (Some v); next := S c'; frees := frees V s |} in
                          let s2 := release V s1 (Some c) in
                          {| hs := set (hs V s2) h (Some c'); cnt := cnt V s2; val := val V s2; next := next V s2; frees := frees V s2 |}
              end
  end.
(* mutation of the payload through the reference poly_obj() returned *)
Definition sp_mutate (s : st) (h : nat) (f : V -> V) : st :=
  match hs V s h with
  | None => s
  | Some c => match val V s c with None => s | Some v => {| hs := hs V s; cnt := cnt V s; val := set (val V s) c (Some (f v)); next := next V s; frees := frees V s |} end
  end.
(* the implicit destructor of the member *)
Definition sp_destroy (s : st) (h : nat) : st := let s1 := release V s (hs V s h) in
  {| hs := set (hs V s1) h None; cnt := cnt V s1; val := val V s1; next := next V s1; frees := frees V s1 |}.
End Sh.
