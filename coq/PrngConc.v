From Coq Require Import List Arith Lia Bool.
Import ListNotations.

(* Small-step model of the repaired fastrandombytes: call_once(seed key); n = ctr.fetch_add(1); generate(key, n).
   Threads are total maps from ids; a schedule is any list of thread ids; a step of a blocked or
   finished thread is a no-op.  `log` is ghost state: (tid, nonce) appended at each fetch_add. *)
Inductive pc := Start | Seeding | Ready | Got (n : nat).
Inductive once := NotStarted | InProgress (t : nat) | Finished.
Record thread := { cur : pc; todo : list nat; outs : list (nat * nat) (* (nonce, len), newest first *) }.
Record st := { onc : once; seeds : nat; keyset : bool; ctr : nat; log : list (nat * nat); thr : nat -> thread }.

Definition upd (f : nat -> thread) (t : nat) (v : thread) : nat -> thread := fun u => if u =? t then v else f u.
Definition with_cur (th : thread) (c : pc) := {| cur := c; todo := todo th; outs := outs th |}.

Definition step (t : nat) (s : st) : st :=
  let th := thr s t in
  match cur th, todo th with
  | Start, _ :: _ =>
      match onc s with
      | NotStarted => {| onc := InProgress t; seeds := seeds s; keyset := keyset s; ctr := ctr s; log := log s; thr := upd (thr s) t (with_cur th Seeding) |}
      | InProgress _ => s                                   (* blocked inside call_once *)
      | Finished => {| onc := Finished; seeds := seeds s; keyset := keyset s; ctr := ctr s; log := log s; thr := upd (thr s) t (with_cur th Ready) |}
      end
  | Seeding, _ => {| onc := Finished; seeds := S (seeds s); keyset := true; ctr := ctr s; log := log s; thr := upd (thr s) t (with_cur th Ready) |}
  | Ready, _ => {| onc := onc s; seeds := seeds s; keyset := keyset s; ctr := S (ctr s); log := log s ++ [(t, ctr s)];
                   thr := upd (thr s) t (with_cur th (Got (ctr s))) |}
  | Got n, len :: rest => {| onc := onc s; seeds := seeds s; keyset := keyset s; ctr := ctr s; log := log s;
                   thr := upd (thr s) t {| cur := Start; todo := rest; outs := (n, len) :: outs th |} |}
  | _, _ => s
  end.

Definition run (sched : list nat) (s : st) : st := fold_left (fun s t => step t s) sched s.

Definition init (prog : nat -> list nat) : st :=
  {| onc := NotStarted; seeds := 0; keyset := false; ctr := 0; log := [];
     thr := fun t => {| cur := Start; todo := prog t; outs := [] |} |}.

(* nonces held by a thread, oldest first *)
Definition held (th : thread) : list nat :=
  rev (map fst (outs th)) ++ match cur th with Got n => [n] | _ => [] end.
Definition mine (t : nat) (l : list (nat * nat)) : list nat := map snd (filter (fun e => fst e =? t) l).

Record Inv (s : st) : Prop := {
  I_log : map snd (log s) = seq 0 (ctr s);
  I_held : forall t, held (thr s t) = mine t (log s);
  I_once : match onc s with
           | NotStarted => seeds s = 0 /\ keyset s = false /\ forall t, cur (thr s t) = Start
           | InProgress u => seeds s = 0 /\ keyset s = false /\ cur (thr s u) = Seeding /\ forall t, t <> u -> cur (thr s t) = Start
           | Finished => seeds s = 1 /\ keyset s = true /\ forall t, cur (thr s t) <> Seeding
           end;
  I_todo : forall t, match cur (thr s t) with Start => True | _ => todo (thr s t) <> [] end
}.

Lemma upd_same f t v : upd f t v t = v. Proof. unfold upd. now rewrite Nat.eqb_refl. Qed.
Lemma upd_other f t v u : u <> t -> upd f t v u = f u.
Proof. intros H. unfold upd. destruct (u =? t) eqn:E; [apply Nat.eqb_eq in E; congruence | reflexivity]. Qed.

Lemma mine_app t l e : mine t (l ++ [e]) = mine t l ++ (if fst e =? t then [snd e] else []).
Proof. unfold mine. rewrite filter_app, map_app. simpl. destruct (fst e =? t); reflexivity. Qed.

Lemma init_inv prog : Inv (init prog).
Proof. split; simpl; auto. Qed.

Ltac other u t N := destruct (Nat.eq_dec u t) as [->|N]; [rewrite upd_same | rewrite upd_other by auto].

Lemma step_inv t s : Inv s -> Inv (step t s).
Proof.
  intros [Hlog Hheld Honce Htodo]. unfold step.
  pose proof (Htodo t) as Htt.
  destruct (cur (thr s t)) eqn:Ec.
  - (* Start: enter call_once *)
    destruct (todo (thr s t)) eqn:Et; [split; auto|].
    destruct (onc s) eqn:Eo; [| split; auto; now rewrite Eo |].
    + destruct Honce as (H1 & H2 & H3). split; simpl; auto.
      * intros u. other u t N; auto. rewrite <- Hheld. unfold held. simpl. now rewrite Ec.
      * repeat split; auto. { now rewrite upd_same. } intros u N. rewrite upd_other by auto. apply H3.
      * intros u. other u t N; [simpl; rewrite Et; discriminate | apply Htodo].
    + destruct Honce as (H1 & H2 & H3). split; simpl; auto.
      * intros u. other u t N; auto. rewrite <- Hheld. unfold held. simpl. now rewrite Ec.
      * repeat split; auto. intros u. other u t N; [simpl; discriminate | apply H3].
      * intros u. other u t N; [simpl; rewrite Et; discriminate | apply Htodo].
  - (* Seeding: only possible while InProgress t *)
    destruct (onc s) eqn:Eo.
    + destruct Honce as (_ & _ & H3). rewrite H3 in Ec. discriminate.
    + destruct Honce as (H1 & H2 & H3 & H4).
      assert (t0 = t). { destruct (Nat.eq_dec t t0); auto. rewrite H4 in Ec by auto. discriminate. } subst t0.
      split; simpl; auto.
      * intros u. other u t N; auto. rewrite <- Hheld. unfold held. simpl. now rewrite Ec.
      * repeat split; try lia. intros u. other u t N; [simpl; discriminate | rewrite H4 by auto; discriminate].
      * intros u. other u t N; [simpl; exact Htt | apply Htodo].
    + destruct Honce as (_ & _ & H3). exfalso. apply (H3 t). exact Ec.
  - (* Ready: fetch_add *)
    split; simpl.
    + rewrite map_app, Hlog. simpl. rewrite <- seq_S. reflexivity.
    + intros u. rewrite mine_app. simpl. destruct (Nat.eq_dec u t) as [->|N].
      * rewrite upd_same, Nat.eqb_refl. rewrite <- Hheld. unfold held. simpl. rewrite Ec. now rewrite app_nil_r.
      * rewrite upd_other by auto. replace (t =? u) with false by (symmetry; apply Nat.eqb_neq; auto). rewrite app_nil_r. apply Hheld.
    + destruct (onc s) eqn:Eo.
      * destruct Honce as (_ & _ & H3). rewrite H3 in Ec. discriminate.
      * destruct Honce as (H1 & H2 & H3 & H4). destruct (Nat.eq_dec t t0) as [->|N]; [rewrite H3 in Ec; discriminate | rewrite H4 in Ec by auto; discriminate].
      * destruct Honce as (H1 & H2 & H3). repeat split; auto. intros u. other u t N; [simpl; discriminate | apply H3].
    + intros u. other u t N; [simpl; exact Htt | apply Htodo].
  - (* Got n : deliver *)
    destruct (todo (thr s t)) eqn:Et; [split; auto|].
    split; simpl; auto.
    + intros u. other u t N; auto. rewrite <- Hheld. unfold held. simpl. rewrite Ec, app_nil_r. reflexivity.
    + destruct (onc s) eqn:Eo.
      * destruct Honce as (H1 & H2 & H3). repeat split; auto. intros u. other u t N; [auto | apply H3].
      * destruct Honce as (H1 & H2 & H3 & H4). destruct (Nat.eq_dec t t0) as [->|N]; [rewrite H3 in Ec; discriminate | rewrite H4 in Ec by auto; discriminate].
      * destruct Honce as (H1 & H2 & H3). repeat split; auto. intros u. other u t N; [simpl; discriminate | apply H3].
    + intros u. other u t N; [simpl; auto | apply Htodo].
Qed.

Theorem run_inv prog sched : Inv (run sched (init prog)).
Proof.
  unfold run. generalize (init_inv prog). generalize (init prog). induction sched as [|t sched IH]; intros s Hs; simpl; auto.
  apply IH. now apply step_inv.
Qed.

(* consequences, for every program and every schedule *)
Corollary nonces_gap_free prog sched : let s := run sched (init prog) in map snd (log s) = seq 0 (ctr s).
Proof. apply (I_log _ (run_inv prog sched)). Qed.

Corollary key_seeded_at_most_once prog sched : seeds (run sched (init prog)) <= 1.
Proof. pose proof (I_once _ (run_inv prog sched)) as H. destruct (onc _); lia. Qed.

Lemma mine_in t l n : In n (mine t l) -> In (t, n) l.
Proof. unfold mine. intros H. apply in_map_iff in H. destruct H as [[a b] [E H]]. apply filter_In in H. destruct H as [H1 H2].
  simpl in *. apply Nat.eqb_eq in H2. now subst. Qed.

Lemma NoDup_map_snd_inj (l : list (nat * nat)) e1 e2 : NoDup (map snd l) -> In e1 l -> In e2 l -> snd e1 = snd e2 -> e1 = e2.
Proof. induction l as [|x l IH]; simpl; intros ND H1 H2 E; [tauto|]. inversion ND; subst.
  destruct H1 as [->|H1], H2 as [->|H2]; auto.
  - exfalso. apply H3. rewrite E. now apply in_map.
  - exfalso. apply H3. rewrite <- E. now apply in_map.
Qed.

(* two different threads never hold the same nonce, whatever the schedule *)
Corollary no_nonce_shared prog sched t1 t2 n : let s := run sched (init prog) in
  In n (held (thr s t1)) -> In n (held (thr s t2)) -> t1 = t2.
Proof.
  intros s H1 H2. pose proof (run_inv prog sched) as I. fold s in I.
  rewrite (I_held _ I) in H1, H2. apply mine_in in H1. apply mine_in in H2.
  assert (ND : NoDup (map snd (log s))) by (rewrite (I_log _ I); apply seq_NoDup).
  pose proof (NoDup_map_snd_inj _ _ _ ND H1 H2 eq_refl) as E. now inversion E.
Qed.

(* and one thread never holds a nonce twice *)
Corollary no_nonce_twice prog sched t : NoDup (held (thr (run sched (init prog)) t)).
Proof.
  pose proof (run_inv prog sched) as I. rewrite (I_held _ I). unfold mine.
  assert (ND : NoDup (map snd (log (run sched (init prog))))) by (rewrite (I_log _ I); apply seq_NoDup).
  revert ND. generalize (log (run sched (init prog))). induction l as [|e l IH]; simpl; intros ND; [constructor|].
  inversion ND; subst. destruct (fst e =? t); simpl; auto. constructor; auto.
  intro H. apply H1. apply in_map_iff in H. destruct H as [x [E H]]. apply filter_In in H. rewrite <- E. apply in_map. tauto.
Qed.
Print Assumptions no_nonce_shared.
Print Assumptions no_nonce_twice.
