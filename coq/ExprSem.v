(* The one expression-template statement of core::ntt_pow_phi / core::invntt_pow_invphi,  op = nfl::shoup(op * A, B)  with A and B member
   arrays viewed as polynomials, as tools/cxxloop2coq.py emits it: an ORACLE whose meaning is fixed here -- every stored word of op becomes
   the value of the TRANSLATED functor mulmod_shoup (gen/Gen.v) on the words of op, A and B at the same place, with the modulus of its row;
   words of op beyond degree * nmoduli are kept.  That expression assignment evaluates element-wise on the original operands, whatever the
   vector width and aliasing, is C07's theorem (assign_eval); it is an assumption of the statements that use this definition. *)
From Coq Require Import ZArith List Bool.
From NTT Require Import CxxSem MemSem.
From NTT.gen Require Import Gen.
Import ListNotations.
Local Open Scope Z_scope.

Definition msh_k (bits : Z) : Z -> Z -> Z -> Z -> option Z :=
  if bits =? 16 then gen_mulmod_shoup_u16 else if bits =? 32 then gen_mulmod_shoup_u32 else gen_mulmod_shoup_u64.
Fixpoint map_opt {A B : Type} (f : A -> option B) (l : list A) : option (list B) :=
  match l with [] => Some [] | a :: r => bind (f a) (fun b => bind (map_opt f r) (fun br => Some (b :: br))) end.
Definition expr_shoup_mul (bits degree nmoduli : Z) (op A B P : list Z) : option (list Z) :=
  let n := Z.to_nat degree in let nm := Z.to_nat nmoduli in
  if (0 <=? degree) && (0 <=? nmoduli) && (nm * n <=? length op)%nat && (nm * n <=? length A)%nat && (nm * n <=? length B)%nat then
    bind (map_opt (fun cm => map_opt (fun i => msh_k bits (tabP P (Z.of_nat cm)) (nth (cm * n + i) op 0) (nth (cm * n + i) A 0) (nth (cm * n + i) B 0)) (seq 0 n)) (seq 0 nm))
         (fun rows => Some (concat rows ++ skipn (nm * n) op))
  else None.

(* ---- ops::expr<Op, Args...>::operator bool(), as tools/cxxexprbool2coq.py emits it: the loop nest over the moduli, the vectors of VS elements
   and the lanes, with its early return; REQ = bool_requires_all<Op>::value (all-of conversion: `==`), val cm i = the value of the expression at
   (cm, i) (what load<simd_mode> delivers lane by lane: C07).  The static_assert(vector_bound == degree) is the guard: no result otherwise. *)
Definition lane_test (REQ : bool) (v : Z) : bool := if REQ then (v =? 0) else negb (v =? 0).
Definition scan (REQ : bool) (VS : Z) (degree nmoduli : Z) (val : Z -> Z -> Z) : option bool :=
  if (degree / VS * VS =? degree) then
    bind (for_up 0 nmoduli 1 (fun cm (st : option bool) =>
            for_up 0 (degree / VS * VS) VS (fun j st =>
              for_up 0 VS 1 (fun k st => match st with Some r => Some (Some r) | None => Some (if lane_test REQ (val cm (j + k)) then Some (negb REQ) else None) end) st) st) None)
         (fun st => Some (match st with Some r => r | None => REQ end))
  else None.

(* ---- poly::operator=(ops::expr<Op, Args...> const&), as tools/cxxassign2coq.py emits it: the loop nest over the moduli and the vectors of VS
   elements; blk cm j = the one statement of the body, store(&( *this)(cm, j), expr.load<simd_mode>(cm, j)), a function of the CURRENT memory (the
   destination may be one of the operands).  The static_assert(vector_bound == degree) is the guard. *)
Definition assign_prog {S : Type} (VS degree nmoduli : Z) (blk : Z -> Z -> S -> option S) (s : S) : option S :=
  if (degree / VS * VS =? degree) then for_up 0 nmoduli 1 (fun cm s1 => for_up 0 (degree / VS * VS) VS (fun j s2 => blk cm j s2) s1) s else None.
