(* C01/C02: the hypotheses of the list-level theorems (Inverse.v) are discharged for the tables that
   core::initialize() builds from ANY valid table row, for every degree 2 <= 2^k <= maxdeg. *)
From Coq Require Import ZArith Lia List Arith Morphisms Setoid.
From NTT Require Import Functors Algebra Layer Transform Rev Inverse Tables Fused Structural NTTInst.
Import ListNotations.
Local Open Scope Z_scope.

Lemma pw_Zpow x e : pw x e = x ^ Z.of_nat e.
Proof. induction e as [|e IH]; [reflexivity|]. cbn [pw]. rewrite Nat2Z.inj_succ, Z.pow_succ_r by lia. now rewrite IH. Qed.
Lemma pow2_nat_Z e : Z.of_nat (2 ^ e) = 2 ^ Z.of_nat e.
Proof. induction e as [|e IH]; [reflexivity|]. rewrite Nat.pow_succ_r', Nat2Z.inj_mul, IH, (Nat2Z.inj_succ e), Z.pow_succ_r by lia. reflexivity. Qed.

Section Closed.
Variables (w p g ik : Z) (K k0 : nat).
Hypothesis Hw : 0 < w.
Hypothesis Hp1 : 1 < p.
Hypothesis H4p : 4 * p <= 2 ^ w.
Hypothesis Hg : (g ^ (2 ^ Z.of_nat K)) mod p = p - 1.
Hypothesis Hik : (ik * 2 ^ Z.of_nat K) mod p = 1.
Hypothesis HkK : (S k0 <= K)%nat.
Let k := S k0.
Let n := (2 ^ k)%nat.
Let Hp : 0 < p. Proof. lia. Qed.

Local Instance cgE : Equivalence (cg p) := cg_equiv p.
Local Instance cgA : Proper (cg p ==> cg p ==> cg p) Z.add := add_cg p Hp.
Local Instance cgM : Proper (cg p ==> cg p ==> cg p) Z.mul := mul_cg p Hp.
Local Instance cgP : Proper (cg p ==> eq ==> cg p) pw := pw_cg p Hp.

Lemma cg_mod a : cg p (a mod p) a.
Proof. unfold cg. apply Z.mod_mod. lia. Qed.

Lemma sqs_spec i x : cg p (sqs p i x) (pw x (2 ^ i)).
Proof.
  revert x. induction i as [|i IH]; intros x; cbn [sqs].
  - simpl. unfold cg. f_equal. ring.
  - rewrite IH. unfold mulm. rewrite cg_mod. rewrite pw_mul_base, <- pw_add.
    replace (2 ^ i + 2 ^ i)%nat with (2 ^ S i)%nat by (rewrite Nat.pow_succ_r'; lia). reflexivity.
Qed.

Local Notation ph := (phi p g K k0).
Lemma phi_spec : cg p ph (pw g (2 ^ (K - k))).
Proof. unfold phi. apply sqs_spec. Qed.

Lemma minus1 : cg p (p - 1) (-1).
Proof. unfold cg. replace (p - 1) with (-1 + 1 * p) by ring. apply Z.mod_add. lia. Qed.

Lemma Hphi : cg p (pw ph (2 ^ S k0)) (-1).
Proof.
  rewrite phi_spec. rewrite <- pw_mul. fold k.
  replace (2 ^ (K - k) * 2 ^ k)%nat with (2 ^ K)%nat by (rewrite <- Nat.pow_add_r; f_equal; unfold k; lia).
  rewrite pw_Zpow, pow2_nat_Z. rewrite <- minus1. unfold cg. rewrite Hg. symmetry. apply Z.mod_small. lia.
Qed.

Lemma last_pow_spec cnt wv cur : cg p (last_pow p cnt wv cur) (cur * pw wv cnt).
Proof.
  revert cur. induction cnt as [|c IH]; intros cur; cbn [last_pow pw].
  - unfold cg. f_equal. ring.
  - rewrite IH. unfold mulm. rewrite cg_mod. unfold cg. f_equal. ring.
Qed.

Lemma pows_nth_mul wv cnt cur i : (i < cnt)%nat -> 0 <= cur < p ->
  0 <= nth i (pows p wv cnt cur) 0 < p /\ cg p (nth i (pows p wv cnt cur) 0) (cur * pw wv i).
Proof.
  revert cur i. induction cnt as [|c IH]; intros cur i Hi Hc; [lia|]. cbn [pows].
  destruct i as [|i]; cbn [nth pw].
  - split; [exact Hc|]. unfold cg. f_equal. ring.
  - destruct (IH ((cur * wv) mod p) i ltac:(lia) ltac:(apply Z.mod_pos_bound; lia)) as [R C]. split; [exact R|].
    rewrite C. rewrite cg_mod. unfold cg. f_equal. ring.
Qed.

Local Notation phs := (phis p g K k0).
Lemma phis_ok : forall i, (i < 2 ^ S k0)%nat -> cg p (nth i phs 0) (pw ph i).
Proof.
  intros i Hi. unfold phis. destruct (pows_nth_mul ph (2 ^ S k0) 1 i Hi ltac:(lia)) as [_ C].
  rewrite C. unfold cg. f_equal. ring.
Qed.
Lemma phis_range : forall i, (i < 2 ^ S k0)%nat -> 0 <= nth i phs 0 < p.
Proof. intros i Hi. unfold phis. apply (pows_nth_mul ph (2 ^ S k0) 1 i Hi ltac:(lia)). Qed.

Local Notation iph := (invphi p g K k0).
Lemma pow2_ge1 e : (1 <= 2 ^ e)%nat.
Proof. induction e; simpl; lia. Qed.
Lemma invphi_spec : cg p iph (pw ph (2 * n - 1)).
Proof.
  unfold invphi, mulm. rewrite cg_mod. unfold phi_n. rewrite last_pow_spec.
  pose proof (pow2_ge1 (S k0)).
  rewrite (phis_ok (2 ^ S k0 - 1)) by lia. rewrite Z.mul_1_l, <- pw_add. fold k. fold n.
  replace (n + (n - 1))%nat with (2 * n - 1)%nat by (unfold n, k; lia). reflexivity.
Qed.
Lemma invphi_range : 0 <= iph < p.
Proof. unfold invphi, mulm. apply Z.mod_pos_bound. lia. Qed.

Lemma Hinv : cg p (ph * iph) 1.
Proof.
  rewrite invphi_spec. pose proof (pow2_ge1 (S k0)).
  replace (ph * pw ph (2 * n - 1)) with (pw ph (S (2 * n - 1))) by reflexivity.
  replace (S (2 * n - 1)) with (n + n)%nat by (unfold n, k; lia). rewrite pw_add. unfold n, k. rewrite Hphi.
  unfold cg. reflexivity.
Qed.

Local Notation ni := (ninv p ik K k0).
Lemma Hninv : cg p (ni * Z.of_nat (2 ^ S k0)) 1.
Proof.
  unfold ninv, mulm. rewrite cg_mod. rewrite pow2_nat_Z. rewrite <- Z.mul_assoc, <- Z.pow_add_r by lia.
  replace (Z.of_nat (K - S k0) + Z.of_nat (S k0)) with (Z.of_nat K) by lia. unfold cg. rewrite Hik. symmetry. apply Z.mod_small. lia.
Qed.
Lemma ninv_range : 0 <= ni < p.
Proof. unfold ninv, mulm. apply Z.mod_pos_bound. lia. Qed.

Local Notation ccs := (cs p g ik K k0).
Lemma cs_ok : forall i, (i < 2 ^ S k0)%nat -> cg p (nth i ccs 0) (ni * pw iph i).
Proof. intros i Hi. unfold cs. apply (pows_nth_mul iph (2 ^ S k0) ni i Hi ninv_range). Qed.

Local Notation tw := (tws p g K k0).
Local Notation twi := (twsi p g K k0).
Lemma tws_ok : forall lvl i, (lvl < S k0)%nat -> (i < 2 ^ (S k0 - lvl - 1))%nat ->
  0 <= nth i (tw lvl) 0 < p /\ cg p (nth i (tw lvl) 0) (pw (ph * ph) (2 ^ lvl * i)).
Proof.
  intros lvl i Hl Hi. unfold tws. destruct (prep_ok p Hp1 (S k0) (omega p g K k0) lvl i Hl Hi) as [R C].
  split; [exact R|]. rewrite C. unfold omega, mulm. rewrite cg_mod. reflexivity.
Qed.
Lemma twsi_ok : forall lvl i, (lvl < S k0)%nat -> (i < 2 ^ (S k0 - lvl - 1))%nat ->
  0 <= nth i (twi lvl) 0 < p /\ cg p (nth i (twi lvl) 0) (pw (iph * iph) (2 ^ lvl * i)).
Proof.
  intros lvl i Hl Hi. unfold twsi. destruct (prep_ok p Hp1 (S k0) (invomega p g K k0) lvl i Hl Hi) as [R C].
  split; [exact R|]. rewrite C. unfold invomega, mulm. rewrite cg_mod. reflexivity.
Qed.

(* ---------- the closed statements on the instantiated transform pair ---------- *)
Definition canonical (x : list Z) : Prop := length x = n /\ forall i, (i < n)%nat -> 0 <= nth i x 0 < p.

Theorem closed_inv_fwd x : canonical x -> ntt_inv w p g ik K k0 (ntt_fwd w p g K k0 x) = x.
Proof.
  intros [L C]. rewrite ntt_inv_eq, ntt_fwd_eq.
  apply (inv_fwd w Hw p Hp H4p k0 ph iph ni Hphi Hinv Hninv tw twi tws_ok twsi_ok phs ccs phis_ok cs_ok x L C).
Qed.

Theorem closed_fwd_inv y : canonical y -> ntt_fwd w p g K k0 (ntt_inv w p g ik K k0 y) = y.
Proof.
  intros [L C]. rewrite ntt_inv_eq, ntt_fwd_eq.
  apply (fwd_inv w Hw p Hp H4p k0 ph iph ni Hphi Hinv Hninv tw twi tws_ok twsi_ok phs ccs phis_ok cs_ok y L C).
Qed.

Theorem closed_product a b : length a = n -> length b = n ->
  ntt_inv w p g ik K k0 (ntt_mul p k0 (ntt_fwd w p g K k0 a) (ntt_fwd w p g K k0 b)) = nega_spec p k0 a b.
Proof.
  intros La Lb. rewrite ntt_inv_eq, !ntt_fwd_eq. unfold ntt_mul, nega_spec.
  apply (ntt_product w Hw p Hp H4p k0 ph iph ni Hphi Hinv Hninv tw twi tws_ok twsi_ok phs ccs phis_ok cs_ok a b La Lb).
Qed.

(* the forward transform is evaluation at the roots psi_j of X^n+1, reduced into [0,p): canonical and linear *)
Theorem closed_fwd_eval x j : length x = n -> (j < n)%nat ->
  length (ntt_fwd w p g K k0 x) = n /\
  nth j (ntt_fwd w p g K k0 x) 0 = (sum n (fun t => nth t x 0 * pw (psi k0 ph j) t)) mod p.
Proof.
  intros L Hj. rewrite ntt_fwd_eq.
  apply (fwd_nth w Hw p Hp H4p k0 ph iph Hphi tw tws_ok phs phis_ok x j L Hj).
Qed.

Theorem closed_fwd_canonical x : length x = n -> canonical (ntt_fwd w p g K k0 x).
Proof.
  intros L. split.
  - apply (closed_fwd_eval x 0 L). unfold n. apply pow2_ge1.
  - intros i Hi. destruct (closed_fwd_eval x i L Hi) as [_ ->]. apply Z.mod_pos_bound. lia.
Qed.

Theorem closed_fwd_linear a b c : length a = n -> length b = n -> length c = n ->
  (forall t, (t < n)%nat -> nth t c 0 = (nth t a 0 + nth t b 0) mod p) ->
  forall j, (j < n)%nat ->
  nth j (ntt_fwd w p g K k0 c) 0 = (nth j (ntt_fwd w p g K k0 a) 0 + nth j (ntt_fwd w p g K k0 b) 0) mod p.
Proof.
  intros La Lb Lc Hc j Hj.
  destruct (closed_fwd_eval a j La Hj) as [_ ->]. destruct (closed_fwd_eval b j Lb Hj) as [_ ->]. destruct (closed_fwd_eval c j Lc Hj) as [_ ->].
  rewrite <- Z.add_mod by lia. rewrite <- sum_add.
  change (cg p (sum n (fun t => nth t c 0 * pw (psi k0 ph j) t)) (sum n (fun i => nth i a 0 * pw (psi k0 ph j) i + nth i b 0 * pw (psi k0 ph j) i))).
  apply sum_cg; [exact Hp|]. intros t Ht. rewrite (Hc t Ht). rewrite cg_mod. unfold cg. f_equal. ring.
Qed.
(* ---------- the transform as structured in the source equals the generic one ---------- *)
Theorem closed_struct_fwd x : length x = n -> ntt_fwd_s w p g K k0 x = ntt_fwd w p g K k0 x.
Proof.
  intros L. rewrite ntt_fwd_s_eq, ntt_fwd_eq. unfold fwd.
  apply (ntt_core_eq w Hw p Hp H4p (ph * ph) (S k0) (om_half w p k0 ph iph Hphi) tw tws_ok); [lia | apply tab_length|].
  intros idx Hidx. unfold twist. rewrite tab_nth by exact Hidx.
  pose proof (Z.mod_pos_bound (nth idx x 0 * nth idx phs 0) p Hp). lia.
Qed.

Theorem closed_struct_inv y : canonical y -> ntt_inv_s w p g ik K k0 y = ntt_inv w p g ik K k0 y.
Proof.
  intros [L C]. rewrite ntt_inv_s_eq, ntt_inv_eq. unfold inv.
  rewrite (ntt_core_eq w Hw p Hp H4p (iph * iph) (S k0) (om'_half w p Hp k0 ph iph Hphi Hinv) twi twsi_ok); [reflexivity | lia | apply tab_length|].
  intros idx Hidx. unfold BR. rewrite tab_nth by exact Hidx. pose proof (C (rev (S k0) idx) (rev_lt (S k0) idx)). lia.
Qed.
(* what core::ntt returns inside the inverse transform is canonical (the final multiplication by n^-1 invphi^i needs canonical operands) *)
Theorem closed_inv_core_canonical y : canonical y -> Forall (fun v => 0 <= v < p) (ntt_core w p (S k0) twi (BR k0 y)).
Proof.
  intros [L C].
  destruct (ntt_core_correct w Hw p Hp H4p (iph * iph) (S k0) (om'_half w p Hp k0 ph iph Hphi Hinv) twi twsi_ok (fun i => nth i (BR k0 y) 0) (BR k0 y)) as [Ln N]; [lia | apply tab_length | |].
  - intros idx Hidx. split; [|reflexivity]. unfold BR. rewrite tab_nth by exact Hidx. pose proof (C (rev (S k0) idx) (rev_lt (S k0) idx)). lia.
  - apply Forall_forall. intros v Hin. destruct (In_nth _ _ 0 Hin) as (j & Hj & <-). rewrite Ln in Hj. rewrite (N j Hj). apply Z.mod_pos_bound. exact Hp.
Qed.
End Closed.

(* ---------- degree 1 (n = 1): both transforms are the identity, the product is a0*b0 mod p ---------- *)
Section Degree1.
Variables (p ik : Z) (K : nat).
Hypothesis Hp1 : 1 < p.
Hypothesis Hik : (ik * 2 ^ Z.of_nat K) mod p = 1.
Theorem deg1_fwd x : Forall (fun v => 0 <= v < p) x -> ntt_fwd1 p x = x.
Proof.
  induction 1 as [|v x Hv _ IH]; [reflexivity|]. cbn [ntt_fwd1 map]. unfold ntt_fwd1 in IH. rewrite IH. f_equal.
  unfold mulm. rewrite Z.mul_1_r. apply Z.mod_small. exact Hv.
Qed.
Theorem deg1_inv y : Forall (fun v => 0 <= v < p) y -> ntt_inv1 p ik K y = y.
Proof.
  induction 1 as [|v y Hv _ IH]; [reflexivity|]. cbn [ntt_inv1 map]. unfold ntt_inv1 in IH. rewrite IH. f_equal.
  unfold mulm. rewrite Hik, Z.mul_1_r. apply Z.mod_small. exact Hv.
Qed.
End Degree1.

Lemma nega_spec_nth p k0 a b i : (i < 2 ^ S k0)%nat ->
  nth i (nega_spec p k0 a b) 0 = (negacyc (2 ^ S k0) (fun t => nth t a 0) (fun t => nth t b 0) i) mod p.
Proof. intros Hi. unfold nega_spec, negacyclic. rewrite tab_nth by exact Hi. reflexivity. Qed.
