From Coq Require Import ZArith Lia List Arith.
Import ListNotations.
Local Open Scope Z_scope.

(* two list lemmas missing from the 8.16 standard library *)
Lemma nth_firstn {A} (l : list A) n i d : nth i (firstn n l) d = if (i <? n)%nat then nth i l d else d.
Proof. revert n i; induction l as [|a l IH]; intros n i.
  - rewrite firstn_nil. destruct i; destruct (_ <? _)%nat; reflexivity.
  - destruct n as [|n]; [simpl; destruct i; reflexivity|]. destruct i as [|i]; [reflexivity|].
    simpl firstn. simpl nth. rewrite IH. reflexivity. Qed.
Lemma nth_skipn {A} (l : list A) n i d : nth i (skipn n l) d = nth (n + i) l d.
Proof. revert n; induction l as [|a l IH]; intros [|n]; simpl; auto. destruct i; reflexivity. Qed.

(* A layer of the in-place transform on a list, generic in the butterfly.
   bf i a b = (new value at position i of the block, new value at position i + half). *)
Section Layer.
Variable bf : nat -> Z -> Z -> Z * Z.

(* the pairs (lo_i, hi_i), i = start.. , of one block *)
Fixpoint pairs (i : nat) (lo hi : list Z) : list Z * list Z :=
  match lo, hi with
  | a :: lo', b :: hi' => let '(s, d) := pairs (S i) lo' hi' in (fst (bf i a b) :: s, snd (bf i a b) :: d)
  | _, _ => ([], [])
  end.
Definition block (half : nat) (blk : list Z) : list Z :=
  let '(s, d) := pairs 0 (firstn half blk) (skipn half blk) in s ++ d.
(* M consecutive blocks of size 2*half *)
Fixpoint blocks (M half : nat) (x : list Z) : list Z :=
  match M with O => [] | S M' => block half (firstn (2 * half) x) ++ blocks M' half (skipn (2 * half) x) end.

Lemma pairs_length i lo hi : length lo = length hi ->
  length (fst (pairs i lo hi)) = length lo /\ length (snd (pairs i lo hi)) = length lo.
Proof. revert i hi; induction lo as [|a lo IH]; intros i [|b hi] H; simpl in *; try lia; auto.
  destruct (pairs (S i) lo hi) eqn:E. specialize (IH (S i) hi ltac:(lia)). rewrite E in IH. simpl in *. lia. Qed.

Lemma pairs_nth i lo hi j : length lo = length hi -> (j < length lo)%nat ->
  nth j (fst (pairs i lo hi)) 0 = fst (bf (i + j) (nth j lo 0) (nth j hi 0)) /\
  nth j (snd (pairs i lo hi)) 0 = snd (bf (i + j) (nth j lo 0) (nth j hi 0)).
Proof. revert i hi j; induction lo as [|a lo IH]; intros i [|b hi] j H Hj; simpl in *; try lia.
  destruct (pairs (S i) lo hi) eqn:E. destruct j as [|j]; simpl.
  - rewrite Nat.add_0_r. auto.
  - specialize (IH (S i) hi j ltac:(lia) ltac:(lia)). rewrite E in IH. simpl in IH.
    replace (i + S j)%nat with (S i + j)%nat by lia. exact IH. Qed.

Lemma block_length half blk : length blk = (2 * half)%nat -> length (block half blk) = (2 * half)%nat.
Proof. intros H. unfold block. destruct (pairs 0 (firstn half blk) (skipn half blk)) eqn:E.
  pose proof (pairs_length 0 (firstn half blk) (skipn half blk)) as P. rewrite E in P. simpl in P.
  rewrite firstn_length, skipn_length in P. rewrite app_length. lia. Qed.

Lemma block_nth half blk i : length blk = (2 * half)%nat -> (i < 2 * half)%nat ->
  nth i (block half blk) 0 =
    if (i <? half)%nat then fst (bf i (nth i blk 0) (nth (i + half) blk 0))
    else snd (bf (i - half) (nth (i - half) blk 0) (nth i blk 0)).
Proof.
  intros H Hi. unfold block. destruct (pairs 0 (firstn half blk) (skipn half blk)) as [s d] eqn:E.
  assert (Hl : length (firstn half blk) = length (skipn half blk)) by (rewrite firstn_length, skipn_length; lia).
  pose proof (pairs_length 0 _ _ Hl) as [L1 L2]. rewrite E in L1, L2. simpl in L1, L2. rewrite firstn_length in L1, L2.
  destruct (i <? half)%nat eqn:Ei.
  - apply Nat.ltb_lt in Ei. rewrite app_nth1 by lia.
    pose proof (pairs_nth 0 _ _ i Hl ltac:(rewrite firstn_length; lia)) as [P _]. rewrite E in P. simpl in P. rewrite P.
    rewrite nth_firstn. replace (i <? half)%nat with true by (symmetry; apply Nat.ltb_lt; lia).
    rewrite nth_skipn. replace (half + i)%nat with (i + half)%nat by lia. reflexivity.
  - apply Nat.ltb_ge in Ei. rewrite app_nth2 by lia. replace (i - length s)%nat with (i - half)%nat by lia.
    pose proof (pairs_nth 0 _ _ (i - half) Hl ltac:(rewrite firstn_length; lia)) as [_ P]. rewrite E in P. simpl in P. rewrite P.
    rewrite nth_firstn. replace (i - half <? half)%nat with true by (symmetry; apply Nat.ltb_lt; lia).
    rewrite nth_skipn. replace (half + (i - half))%nat with i by lia. reflexivity.
Qed.

Lemma blocks_length M half x : length x = (M * (2 * half))%nat -> length (blocks M half x) = (M * (2 * half))%nat.
Proof. revert x; induction M as [|M IH]; intros x H; simpl blocks; [reflexivity|].
  rewrite app_length, block_length, IH; try lia.
  - rewrite skipn_length. lia.
  - rewrite firstn_length. simpl in H. lia. Qed.

(* the nth characterisation: position N*r + i of the layer is the butterfly of block r at offset i *)
Theorem blocks_nth M half x r i : (0 < half)%nat -> length x = (M * (2 * half))%nat -> (r < M)%nat -> (i < 2 * half)%nat ->
  let idx := (2 * half * r + i)%nat in
  nth idx (blocks M half x) 0 =
    if (i <? half)%nat then fst (bf i (nth idx x 0) (nth (idx + half) x 0))
    else snd (bf (i - half) (nth (idx - half) x 0) (nth idx x 0)).
Proof.
  intros Hh. revert x r; induction M as [|M IH]; intros x r Hx Hr Hi; [lia|]. cbv zeta.
  cbn [blocks]. set (N := (2 * half)%nat) in *.
  assert (Lf : length (firstn N x) = N) by (rewrite firstn_length; simpl in Hx; lia).
  destruct r as [|r].
  - rewrite Nat.mul_0_r, Nat.add_0_l. rewrite app_nth1 by (rewrite block_length; auto).
    rewrite block_nth by auto. rewrite !nth_firstn.
    destruct (i <? half)%nat eqn:Ei.
    + apply Nat.ltb_lt in Ei. replace (i <? N)%nat with true by (symmetry; apply Nat.ltb_lt; lia).
      replace (i + half <? N)%nat with true by (symmetry; apply Nat.ltb_lt; lia). reflexivity.
    + apply Nat.ltb_ge in Ei. replace (i <? N)%nat with true by (symmetry; apply Nat.ltb_lt; lia).
      replace (i - half <? N)%nat with true by (symmetry; apply Nat.ltb_lt; lia). reflexivity.
  - rewrite app_nth2 by (rewrite block_length; auto; lia). rewrite block_length by auto.
    replace (N * S r + i - 2 * half)%nat with (N * r + i)%nat by (unfold N; lia).
    specialize (IH (skipn N x) r ltac:(rewrite skipn_length; simpl in Hx; lia) ltac:(lia) Hi). cbv zeta in IH. rewrite IH.
    rewrite !nth_skipn.
    replace (N + (N * r + i))%nat with (N * S r + i)%nat by lia.
    replace (N + (N * r + i + half))%nat with (N * S r + i + half)%nat by lia.
    destruct (i <? half)%nat eqn:Ei; [reflexivity|]. apply Nat.ltb_ge in Ei.
    replace (N + (N * r + i - half))%nat with (N * S r + i - half)%nat by lia. reflexivity.
Qed.
End Layer.
Print Assumptions blocks_nth.
