From Coq Require Import ZArith Lia List Arith Morphisms Setoid.
From NTT Require Import Algebra.
Import ListNotations.
Local Open Scope Z_scope.

(* core::prep_wtab: for K = n, n/2, ..., 2 write K/2 powers of the current root (wi = wi * w mod p), then square the root *)
Section Tables.
Variable p : Z.  Hypothesis Hp : 1 < p.
Local Instance cgE : Equivalence (cg p) := cg_equiv p.
Local Instance cgM : Proper (cg p ==> cg p ==> cg p) Z.mul := mul_cg p ltac:(lia).
Local Instance cgP : Proper (cg p ==> eq ==> cg p) pw := pw_cg p ltac:(lia).

Fixpoint pows (wv : Z) (cnt : nat) (cur : Z) : list Z :=
  match cnt with O => [] | S c => cur :: pows wv c ((cur * wv) mod p) end.
Fixpoint prep (levels : nat) (wv : Z) : list (list Z) :=
  match levels with O => [] | S l => pows wv (2 ^ l) 1 :: prep l ((wv * wv) mod p) end.

Lemma pows_nth wv cnt cur i e : (i < cnt)%nat -> 0 <= cur < p -> cg p cur (pw wv e) ->
  0 <= nth i (pows wv cnt cur) 0 < p /\ cg p (nth i (pows wv cnt cur) 0) (pw wv (e + i)).
Proof.
  revert cur i e; induction cnt as [|c IH]; intros cur i e Hi Hc Ce; [lia|]. cbn [pows].
  destruct i as [|i]; cbn [nth].
  - now rewrite Nat.add_0_r.
  - replace (e + S i)%nat with (S e + i)%nat by lia. apply IH; [lia | apply Z.mod_pos_bound; lia |].
    cbn [pw]. transitivity (cur * wv); [unfold cg; now rewrite Z.mod_mod by lia|]. rewrite Ce. unfold cg; f_equal; ring.
Qed.

(* level lvl of the table for degree 2^k holds om^(2^lvl * i), i < 2^(k-lvl-1): exactly the hypothesis tws_ok of Appendix N *)
Theorem prep_ok : forall k om lvl i, (lvl < k)%nat -> (i < 2 ^ (k - lvl - 1))%nat ->
  0 <= nth i (nth lvl (prep k om) []) 0 < p /\ cg p (nth i (nth lvl (prep k om) []) 0) (pw om (2 ^ lvl * i)).
Proof.
  induction k as [|k IH]; intros om lvl i Hl Hi; [lia|]. cbn [prep].
  destruct lvl as [|lvl]; cbn [nth].
  - replace (S k - 0 - 1)%nat with k in Hi by lia.
    destruct (pows_nth om (2 ^ k) 1 i 0 Hi ltac:(lia) ltac:(reflexivity)) as [R C]. split; auto.
    rewrite C. simpl plus. replace (2 ^ 0 * i)%nat with i by (simpl; lia). reflexivity.
  - replace (S k - S lvl - 1)%nat with (k - lvl - 1)%nat in Hi by lia.
    destruct (IH ((om * om) mod p) lvl i ltac:(lia) Hi) as [R C]. split; auto. rewrite C.
    assert (E : cg p ((om * om) mod p) (pw om 2)) by (cbn [pw]; unfold cg; rewrite Z.mod_mod by lia; f_equal; ring).
    rewrite E, <- pw_mul. replace (2 * (2 ^ lvl * i))%nat with (2 ^ S lvl * i)%nat by (rewrite Nat.pow_succ_r'; lia). reflexivity.
Qed.
End Tables.
Print Assumptions prep_ok.
