From Coq Require Import ZArith Lia.
Local Open Scope Z_scope.

Lemma floor_bounds a b : 0 < b -> (a / b) * b <= a < (a / b) * b + b.
Proof. intros Hb. pose proof (Z.mod_pos_bound a b Hb). pose proof (Z.div_mod a b ltac:(lia)). lia. Qed.

(* Shoup multiplication with precomputed quotient y' = floor(y*beta/p):
   for any t < beta (not only t < p), r = t*y - floor(t*y'/beta)*p satisfies 0 <= r < p + t*p/beta,
   hence r < 2p, and r = t*y (mod p).  [beta = 2^w; the machine computes r modulo beta.] *)
Lemma shoup_range beta p y t :
  0 < p -> 0 < beta -> 0 <= y < p -> 0 <= t < beta ->
  let y' := (y * beta) / p in
  let q := (t * y') / beta in
  0 <= t * y - q * p < 2 * p /\ (t * y - q * p) mod p = (t * y) mod p.
Proof.
  intros Hp Hb Hy Ht y' q.
  assert (Hy' : y' * p <= y * beta < y' * p + p) by (unfold y'; apply floor_bounds; lia).
  assert (Hq : q * beta <= t * y' < q * beta + beta) by (unfold q; apply floor_bounds; lia).
  assert (Hy'0 : 0 <= y') by (unfold y'; apply Z.div_pos; nia).
  assert (Hq0 : 0 <= q) by (unfold q; apply Z.div_pos; nia).
  split.
  - split.
    + (* q*p*beta <= t*y'*p <= t*y*beta *)
      assert (A1 : q * beta * p <= t * y' * p) by (apply Z.mul_le_mono_nonneg_r; lia).
      assert (A2 : t * (y' * p) <= t * (y * beta)) by (apply Z.mul_le_mono_nonneg_l; lia).
      assert (A3 : (q * p) * beta <= (t * y) * beta) by lia.
      apply Z.mul_le_mono_pos_r in A3; lia.
    + (* t*y*beta < t*(y'*p + p) = t*y'*p + t*p < (q*beta+beta)*p + t*p ; t*p < beta*p *)
      assert (B1 : t * (y * beta) <= t * (y' * p + p)) by (apply Z.mul_le_mono_nonneg_l; lia).
      assert (B2 : (t * y') * p < (q * beta + beta) * p) by (apply Z.mul_lt_mono_pos_r; lia).
      assert (B3 : t * p < beta * p) by (apply Z.mul_lt_mono_pos_r; lia).
      assert (B4 : (t * y) * beta < (q * p + 2 * p) * beta) by lia.
      apply Z.mul_lt_mono_pos_r in B4; lia.
  - replace (t * y - q * p) with (t * y + (- q) * p) by ring. apply Z.mod_add. lia.
Qed.

(* the machine computes it modulo beta = 2^w, with 2p <= beta: no information is lost *)
Lemma shoup_wrap beta p y t :
  0 < p -> 2 * p <= beta -> 0 <= y < p -> 0 <= t < beta ->
  let y' := (y * beta) / p in
  let q := (t * y') / beta in
  ((t * y) mod beta - (q * p) mod beta) mod beta = t * y - q * p.
Proof.
  intros Hp Hb Hy Ht y' q.
  destruct (shoup_range beta p y t Hp ltac:(lia) Hy Ht) as [[R1 R2] _]. fold y' q in R1, R2.
  rewrite <- Zminus_mod. apply Z.mod_small. lia.
Qed.

(* strict result: for t < p, one conditional subtraction gives t*y mod p *)
Lemma shoup_strict beta p y t :
  0 < p -> 2 * p <= beta -> 0 <= y < p -> 0 <= t < p ->
  let y' := (y * beta) / p in
  let q := (t * y') / beta in
  let r := t * y - q * p in
  (if r <? p then r else r - p) = (t * y) mod p.
Proof.
  intros Hp Hb Hy Ht y' q r.
  destruct (shoup_range beta p y t Hp ltac:(lia) Hy ltac:(lia)) as [[R1 R2] R3]. fold y' q r in R1, R2, R3.
  destruct (r <? p) eqn:E.
  - apply Z.ltb_lt in E. rewrite <- R3. symmetry. apply Z.mod_small. lia.
  - apply Z.ltb_ge in E. rewrite <- R3.
    replace r with ((r - p) + 1 * p) at 2 by ring. rewrite Z.mod_add by lia. symmetry. apply Z.mod_small. lia.
Qed.

Definition B64 := 2^64.
Definition B128 := 2^128.

Lemma barrett_newton p pn res :
  2^61 < p < 2^62 -> pn = B128 / p - 2^66 -> 0 <= pn < 2^63 ->
  0 <= res < p * p ->
  let hi := res / B64 in
  let q := pn * hi + 4 * res in
  let qh := q / B64 in
  q < B128 /\ 0 <= res - qh * p < 2 * p.
Proof.
  intros Hp Hpn Hpn' Hres hi q qh.
  assert (HB64 : B64 = 18446744073709551616) by reflexivity.
  assert (HB128 : B128 = B64 * B64) by reflexivity.
  set (M := B128 / p) in *.
  assert (HM : M * p <= B128 < M * p + p) by (unfold M; apply floor_bounds; lia).
  destruct HM as [HM1 HM2].
  assert (Hpn2 : pn + 2^66 = M) by lia.
  assert (Hres2 : res < 2^124) by nia.
  assert (Hhi : hi * B64 <= res < hi * B64 + B64) by (unfold hi; apply floor_bounds; lia).
  destruct Hhi as [Hhi1 Hhi2].
  assert (Hhi0 : 0 <= hi) by (unfold hi; apply Z.div_pos; lia).
  assert (Hhi3 : hi < 2^60) by nia.
  assert (Hq0 : 0 <= q) by (unfold q; nia).
  assert (Hq1 : q < B128).
  { unfold q. assert (pn * hi < 2^63 * 2^60) by nia. lia. }
  assert (Hqh : qh * B64 <= q < qh * B64 + B64) by (unfold qh; apply floor_bounds; lia).
  destruct Hqh as [Hqh1 Hqh2].
  assert (Hqh0 : 0 <= qh) by (unfold qh; apply Z.div_pos; lia).
  split; [exact Hq1|].
  (* upper: q * B64 <= M * res *)
  assert (U : q * B64 <= M * res).
  { unfold q. rewrite <- Hpn2. assert (pn * (hi * B64) <= pn * res) by (apply Z.mul_le_mono_nonneg_l; lia).
    change (2^66) with (4 * B64). nia. }
  (* lower: M*res - pn*B64 < (qh+1) * B128 *)
  assert (L : M * res - pn * B64 < (qh + 1) * B128).
  { assert (L1 : pn * res - pn * B64 <= pn * (hi * B64)).
    { assert (pn * (res - B64) <= pn * (hi * B64)) by (apply Z.mul_le_mono_nonneg_l; lia). lia. }
    assert (L2 : q * B64 < (qh + 1) * B128) by (rewrite HB128; nia).
    unfold q in L2. rewrite <- Hpn2. change (2^66) with (4 * B64). nia. }
  split.
  - (* qh * p <= res *)
    assert (qh * B128 * p <= B128 * res).
    { assert (qh * B64 * B64 <= M * res) by nia.
      assert (qh * B128 * p <= M * res * p) by (rewrite HB128; nia).
      assert (M * res * p <= B128 * res) by nia. lia. }
    assert (HB : 0 < B128) by reflexivity.
    assert (K0 : (qh * p) * B128 <= res * B128) by lia.
    apply Z.mul_le_mono_pos_r in K0; lia.
  - (* res < (qh+2) * p *)
    assert (K1 : (M * res - pn * B64) * p < (qh + 1) * B128 * p) by (apply Z.mul_lt_mono_pos_r; lia).
    assert (K2 : (B128 - p) * res <= M * p * res) by (apply Z.mul_le_mono_nonneg_r; lia).
    assert (K5 : B128 * res - p * res - (pn * B64) * p < (qh + 1) * p * B128) by lia.
    assert (K3 : res + pn * B64 < B128).
    { assert (pn * B64 < 2^63 * B64) by (apply Z.mul_lt_mono_pos_r; [reflexivity | lia]).
      change (2^63 * B64) with (2^127) in *. change B128 with (2^128). lia. }
    assert (K6 : p * (res + pn * B64) < p * B128) by (apply Z.mul_lt_mono_pos_l; lia).
    assert (K7 : B128 * res < (qh + 2) * p * B128) by lia.
    assert (HB : 0 < B128) by reflexivity.
    assert (K8 : res * B128 < ((qh + 2) * p) * B128) by lia.
    apply Z.mul_lt_mono_pos_r in K8; lia.
Qed.

(* ================= scalar functors of nfl::ops with explicit machine-word wrap ================= *)
Section Functors.
Variable w : Z.
Hypothesis Hw : 0 < w.
Let B := 2 ^ w.
Lemma B_pos : 0 < B. Proof. apply Z.pow_pos_nonneg; lia. Qed.
Definition wr (x : Z) : Z := x mod B.
Lemma wr_small x : 0 <= x < B -> wr x = x. Proof. apply Z.mod_small. Qed.

(* addmod: const T z = x + y; return z - ((z >= p) ? p : 0); *)
Definition addmod (p x y : Z) : Z := let z := wr (x + y) in wr (z - (if z >=? p then p else 0)).
(* submod: addmod(x, (T)(p - y)) *)
Definition submod (p x y : Z) : Z := addmod p x (wr (p - y)).
(* mulmod_shoup: q = ((greater) x * yprime) >> w;  res = x*y - q*p (in T);  res - ((res >= p) ? p : 0) *)
Definition mulmod_shoup (p x y y' : Z) : Z :=
  let q := (x * y') / B in
  let res := wr (wr (x * y) - wr (q * p)) in
  wr (res - (if res >=? p then p else 0)).
(* compute_shoup: while (x >= p) x -= p;  ((greater) x << w) / p *)
Fixpoint reduce_loop (fuel : nat) (p x : Z) : option Z :=
  match fuel with O => None | S f => if x >=? p then reduce_loop f p (wr (x - p)) else Some x end.
Definition compute_shoup (p x : Z) : option Z :=
  match reduce_loop 9 p x with None => None | Some x' => Some (wr ((x' * B) / p)) end.
(* muladd_shoup (default branch): rop += x*y - q*p (in T);  rop - ((rop >= p) ? p : 0) *)
Definition muladd_shoup (p rop x y y' : Z) : Z :=
  let q := (x * y') / B in
  let rop' := wr (rop + wr (wr (x * y) - wr (q * p))) in
  wr (rop' - (if rop' >=? p then p else 0)).

Theorem addmod_correct p x y : 0 < p -> 2 * p <= B -> 0 <= x < p -> 0 <= y < p -> addmod p x y = (x + y) mod p.
Proof.
  intros Hp HB Hx Hy. unfold addmod. pose proof B_pos. rewrite (wr_small (x + y)) by lia.
  destruct (x + y >=? p) eqn:E.
  - apply Z.geb_le in E. rewrite wr_small by lia. apply (Z.mod_unique_pos (x + y) p 1); lia.
  - assert (x + y < p) by (destruct (Z.geb_spec (x + y) p); [discriminate | lia]).
    rewrite wr_small by lia. rewrite Z.mod_small; lia.
Qed.

Theorem submod_correct p x y : 0 < p -> 2 * p <= B -> 0 <= x < p -> 0 <= y < p -> submod p x y = (x - y) mod p.
Proof.
  intros Hp HB Hx Hy. unfold submod. pose proof B_pos. rewrite (wr_small (p - y)) by lia.
  destruct (Z.eq_dec y 0) as [->|Ny].
  - (* y = 0 : the second operand is p itself, not canonical -- the code still works *)
    unfold addmod. rewrite (wr_small (x + (p - 0))) by lia.
    replace (x + (p - 0) >=? p) with true by (symmetry; apply Z.geb_le; lia).
    rewrite wr_small by lia. rewrite Z.sub_0_r. rewrite Z.mod_small; lia.
  - rewrite addmod_correct by lia. replace (x + (p - y)) with (x - y + 1 * p) by ring. apply Z.mod_add. lia.
Qed.

Theorem mulmod_shoup_correct p x y : 0 < p -> 2 * p <= B -> 0 <= x < p -> 0 <= y < p ->
  mulmod_shoup p x y ((y * B) / p) = (x * y) mod p.
Proof.
  intros Hp HB Hx Hy. unfold mulmod_shoup. pose proof B_pos.
  pose proof (shoup_wrap B p y x Hp HB Hy ltac:(lia)) as W. cbv zeta in W. cbv zeta. fold (wr (x * y)) (wr (x * (y * B / p) / B * p)) in W. fold (wr (wr (x * y) - wr (x * (y * B / p) / B * p))) in W. rewrite !W.
  pose proof (shoup_range B p y x Hp ltac:(lia) Hy ltac:(lia)) as [R _]. cbv zeta in R.
  pose proof (shoup_strict B p y x Hp HB Hy Hx) as S. cbv zeta in S. rewrite <- S.
  set (r := x * y - x * (y * B / p) / B * p) in *.
  destruct (Z.geb_spec r p); destruct (Z.ltb_spec r p); try lia; rewrite wr_small; lia.
Qed.

Lemma reduce_loop_spec fuel p x : 0 < p -> 0 <= x < B -> x / p < Z.of_nat fuel -> reduce_loop fuel p x = Some (x mod p).
Proof.
  intros Hp. revert x. induction fuel as [|f IH]; intros x Hx Hf; [pose proof (Z.div_pos x p); lia|].
  cbn [reduce_loop]. destruct (x >=? p) eqn:E.
  - apply Z.geb_le in E. rewrite wr_small by lia. rewrite IH; try lia.
    + f_equal. replace x with (x - p + 1 * p) at 2 by ring. now rewrite Z.mod_add by lia.
    + replace x with (x - p + 1 * p) in Hf by ring. rewrite Z.div_add in Hf by lia. lia.
  - assert (x < p) by (destruct (Z.geb_spec x p); [discriminate | lia]). now rewrite Z.mod_small by lia.
Qed.

Theorem compute_shoup_correct p x : 0 < p -> B < 8 * p -> p < B -> 0 <= x < B ->
  compute_shoup p x = Some (((x mod p) * B) / p).
Proof.
  intros Hp H8 HpB Hx. unfold compute_shoup. pose proof B_pos.
  rewrite reduce_loop_spec; auto.
  - f_equal. apply wr_small. pose proof (Z.mod_pos_bound x p Hp). split; [apply Z.div_pos; nia|].
    apply Z.div_lt_upper_bound; nia.
  - assert (x / p < 8); [|lia]. apply Z.div_lt_upper_bound; lia.
Qed.

Theorem muladd_shoup_lazy p rop x y : 0 < p -> 4 * p <= B -> 0 <= rop < p -> 0 <= x < p -> 0 <= y < p ->
  let r := muladd_shoup p rop x y ((y * B) / p) in 0 <= r < 2 * p /\ r mod p = (x * y + rop) mod p.
Proof.
  intros Hp HB Hr Hx Hy. unfold muladd_shoup. pose proof B_pos.
  pose proof (shoup_wrap B p y x Hp ltac:(lia) Hy ltac:(lia)) as W. cbv zeta in W. cbv zeta. fold (wr (x * y)) (wr (x * (y * B / p) / B * p)) in W. fold (wr (wr (x * y) - wr (x * (y * B / p) / B * p))) in W. rewrite !W.
  pose proof (shoup_range B p y x Hp ltac:(lia) Hy ltac:(lia)) as [R C]. cbv zeta in R, C.
  set (r := x * y - x * (y * B / p) / B * p) in *.
  rewrite (wr_small (rop + r)) by lia.
  destruct (rop + r >=? p) eqn:E.
  - apply Z.geb_le in E. rewrite wr_small by lia. split; [lia|].
    replace (rop + r - p) with (r + rop + (-1) * p) by ring. rewrite Z.mod_add by lia.
    rewrite Z.add_mod, C, <- Z.add_mod by lia. reflexivity.
  - assert (rop + r < p) by (destruct (Z.geb_spec (rop + r) p); [discriminate | lia]). rewrite wr_small by lia. split; [lia|].
    rewrite Z.sub_0_r, (Z.add_comm rop r). rewrite Z.add_mod, C, <- Z.add_mod by lia. reflexivity.
Qed.

(* the lazy Harvey butterfly of ntt_loop_body: inputs and outputs in [0,2p) *)
Definition bfly_lazy (p wt wt' a b : Z) : Z * Z :=
  let t0 := wr (a + b) in
  let s := wr (t0 - (if t0 >=? 2 * p then 2 * p else 0)) in
  let t1 := wr (wr (a - b) + 2 * p) in
  let q := (t1 * wt') / B in
  let d := wr (wr (t1 * wt) - wr (q * p)) in
  (s, d).

Theorem bfly_lazy_correct p wt a b : 0 < p -> 4 * p <= B -> 0 <= wt < p -> 0 <= a < 2 * p -> 0 <= b < 2 * p ->
  let '(s, d) := bfly_lazy p wt ((wt * B) / p) a b in
  (0 <= s < 2 * p /\ s mod p = (a + b) mod p) /\ (0 <= d < 2 * p /\ d mod p = ((a - b) * wt) mod p).
Proof.
  intros Hp HB Hwt Ha Hb. unfold bfly_lazy. pose proof B_pos.
  split.
  - rewrite (wr_small (a + b)) by lia. destruct (Z.geb_spec (a + b) (2 * p)).
    + rewrite wr_small by lia. split; [lia|]. replace (a + b - 2 * p) with (a + b + (-2) * p) by ring. apply Z.mod_add. lia.
    + rewrite wr_small by lia. split; [lia|]. now rewrite Z.sub_0_r.
  - (* t1 = a - b + 2p exactly, in (0, 4p) *)
    assert (T1 : wr (wr (a - b) + 2 * p) = a - b + 2 * p).
    { unfold wr. rewrite Zplus_mod_idemp_l. apply Z.mod_small. lia. }
    rewrite T1. set (t1 := a - b + 2 * p) in *.
    pose proof (shoup_wrap B p wt t1 Hp ltac:(lia) Hwt ltac:(unfold t1; lia)) as W. cbv zeta in W.
    fold (wr (t1 * wt)) (wr (t1 * (wt * B / p) / B * p)) in W. fold (wr (wr (t1 * wt) - wr (t1 * (wt * B / p) / B * p))) in W. rewrite W.
    pose proof (shoup_range B p wt t1 Hp ltac:(lia) Hwt ltac:(unfold t1; lia)) as [R C]. cbv zeta in R, C.
    split; [exact R|]. rewrite C. unfold t1. replace ((a - b + 2 * p) * wt) with ((a - b) * wt + (2 * wt) * p) by ring.
    apply Z.mod_add. lia.
Qed.

End Functors.

(* mulmod<uint64_t>: the Barrett-Newton product *)
Definition mulmod64 (p pn x y : Z) : Z :=
  let res := (x * y) mod B128 in
  let q := (pn * (res / B64) + (4 * res) mod B128) mod B128 in
  let r := (res - (q / B64) * p) mod B64 in
  (if r >=? p then r - p else r) mod B64.

Theorem mulmod64_correct p pn x y :
  2 ^ 61 < p < 2 ^ 62 -> pn = B128 / p - 2 ^ 66 -> 0 <= pn < 2 ^ 63 -> 0 <= x < p -> 0 <= y < p ->
  mulmod64 p pn x y = (x * y) mod p.
Proof.
  intros Hp Hpn Hpn' Hx Hy. unfold mulmod64.
  assert (Hres : 0 <= x * y < p * p) by nia.
  assert (HB : p * p < B128) by (change B128 with (2 ^ 128); nia).
  rewrite (Z.mod_small (x * y)) by lia. set (res := x * y) in *.
  assert (H4 : 0 <= 4 * res < B128) by (change B128 with (2 ^ 128); nia).
  rewrite (Z.mod_small (4 * res)) by lia.
  destruct (barrett_newton p pn res Hp Hpn Hpn' Hres) as [Q1 Q2]. cbv zeta in Q1, Q2.
  assert (Q0 : 0 <= pn * (res / B64) + 4 * res).
  { assert (0 <= res / B64) by (apply Z.div_pos; [lia | reflexivity]). nia. }
  rewrite (Z.mod_small (pn * (res / B64) + 4 * res)) by lia.
  set (qh := (pn * (res / B64) + 4 * res) / B64) in *.
  assert (HB64 : 2 * p <= B64) by (change B64 with (2 ^ 64); lia).
  rewrite (Z.mod_small (res - qh * p)) by lia.
  destruct (res - qh * p >=? p) eqn:E.
  - apply Z.geb_le in E. rewrite Z.mod_small by lia. apply (Z.mod_unique_pos res p (qh + 1)); lia.
  - assert (res - qh * p < p) by (destruct (Z.geb_spec (res - qh * p) p); [discriminate | lia]).
    rewrite Z.mod_small by lia. apply (Z.mod_unique_pos res p qh); lia.
Qed.
Print Assumptions mulmod64_correct.
Print Assumptions muladd_shoup_lazy.
Print Assumptions bfly_lazy_correct.
