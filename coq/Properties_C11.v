(* C11 — Gaussian sampler: scratch-buffer bookkeeping (GaussBuf.v).  Statements only. *)
From Coq Require Import List Arith.
From NTT Require Import GaussBuf.
Import ListNotations.

(* exactly one decoded output per requested sample *)
Theorem C11_output_count : forall cons len wp used, length (starts cons len wp used) = length cons.
Proof. exact starts_length. Qed.
Print Assumptions C11_output_count.

(* with a buffer of at least one full comparison (the repaired allocation) every decision reads inside the buffer *)
Theorem C11_reads_in_bounds : forall cons len wp, wp <= len -> Forall (fun c => 1 <= c <= wp) cons ->
  forall used, used + wp <= len -> Forall (fun e => fst (fst e) + wp <= len) (starts cons len wp used).
Proof. exact reads_in_bounds. Qed.
Print Assumptions C11_reads_in_bounds.

(* successive outputs decode disjoint consecutive pieces; after a refill decoding restarts at 0 of fresh data *)
Theorem C11_consecutive : forall cons len wp used,
  match starts cons len wp used with
  | (s1, c1, refilled) :: (s2, _, _) :: _ => s1 = used /\ s2 = if refilled then 0 else s1 + c1
  | [(s1, _, _)] => s1 = used
  | [] => True
  end.
Proof. exact consecutive. Qed.
Print Assumptions C11_consecutive.

(* the pinned allocation floor(rlen * multiplier) can be shorter than one comparison: refuted *)
Theorem C11_short_buffer_refuted : exists cons len wp, Forall (fun c => 1 <= c <= wp) cons /\ len < wp /\
  Exists (fun e => len < fst (fst e) + wp) (starts cons len wp 0).
Proof. exact short_buffer_refuted. Qed.
Print Assumptions C11_short_buffer_refuted.
