From Coq Require Import ZArith Lia List Arith.
From NTT Require Import Algebra.

(* bit reversal: bound, a top-bit characterisation, involution *)
Lemma rev_lt : forall w r, rev w r < 2 ^ w.
Proof. induction w as [|w IH]; intros r; cbn [rev]; [simpl; lia|].
  pose proof (IH (r / 2)). pose proof (Nat.mod_upper_bound r 2 ltac:(lia)). rewrite Nat.pow_succ_r'.
  assert (r mod 2 = 0 \/ r mod 2 = 1) by lia. destruct H1 as [-> | ->]; lia. Qed.

Lemma rev_top : forall w r, r < 2 ^ S w -> rev (S w) r = 2 * rev w (r mod 2 ^ w) + r / 2 ^ w.
Proof.
  induction w as [|w IH]; intros r Hr.
  - cbn [rev Nat.pow] in *. simpl in Hr. rewrite Nat.div_1_r. rewrite (Nat.mod_small r 2) by lia. lia.
  - change (rev (S (S w)) r) with (2 ^ S w * (r mod 2) + rev (S w) (r / 2)).
    assert (P : 0 < 2 ^ w) by (apply pow2_pos).
    assert (Hq : r / 2 < 2 ^ S w).
    { apply Nat.div_lt_upper_bound; [lia|]. rewrite <- Nat.pow_succ_r'. exact Hr. }
    rewrite (IH (r / 2) Hq).
    change (rev (S w) (r mod 2 ^ S w)) with (2 ^ w * ((r mod 2 ^ S w) mod 2) + rev w ((r mod 2 ^ S w) / 2)).
    (* the three digit identities *)
    assert (E1 : (r mod 2 ^ S w) mod 2 = r mod 2).
    { rewrite Nat.pow_succ_r'. rewrite Nat.mod_mul_r by lia. rewrite (Nat.mul_comm 2 ((r / 2) mod 2 ^ w)).
      rewrite Nat.mod_add by lia. apply Nat.mod_mod. lia. }
    assert (E2 : (r mod 2 ^ S w) / 2 = (r / 2) mod 2 ^ w).
    { rewrite Nat.pow_succ_r'. rewrite Nat.mod_mul_r by lia. rewrite (Nat.mul_comm 2 ((r / 2) mod 2 ^ w)).
      rewrite Nat.div_add by lia. rewrite (Nat.div_small (r mod 2) 2) by (apply Nat.mod_upper_bound; lia). lia. }
    assert (E3 : r / 2 ^ S w = r / 2 / 2 ^ w) by (rewrite Nat.pow_succ_r', Nat.div_div; lia).
    rewrite E1, E2, E3. rewrite (Nat.pow_succ_r' 2 w). lia.
Qed.

Lemma rev_involutive : forall w r, r < 2 ^ w -> rev w (rev w r) = r.
Proof.
  induction w as [|w IH]; intros r Hr; [simpl in *; lia|].
  assert (P : 0 < 2 ^ w) by (apply pow2_pos).
  assert (Hq : r / 2 < 2 ^ w) by (apply Nat.div_lt_upper_bound; [lia | rewrite <- Nat.pow_succ_r'; exact Hr]).
  pose proof (rev_lt w (r / 2)) as Hm.
  assert (Hb : r mod 2 < 2) by (apply Nat.mod_upper_bound; lia).
  change (rev (S w) r) with (2 ^ w * (r mod 2) + rev w (r / 2)).
  rewrite rev_top.
  - rewrite (Nat.add_comm (2 ^ w * (r mod 2))), (Nat.mul_comm (2 ^ w)).
    rewrite Nat.mod_add, Nat.div_add by lia. rewrite (Nat.mod_small _ _ Hm), (Nat.div_small _ _ Hm), IH by auto.
    pose proof (Nat.div_mod r 2 ltac:(lia)). lia.
  - rewrite Nat.pow_succ_r'. assert (r mod 2 = 0 \/ r mod 2 = 1) by lia. destruct H as [-> | ->]; lia.
Qed.
Print Assumptions rev_involutive.

