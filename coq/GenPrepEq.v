(* The table preparation translated from the source (gen_prep_wtab_uN) fills the arrays with FlatTable.flat and its Shoup companions, and
   on the arrays it leaves the translated core::ntt of every build computes Structural.ntt_core: tables and transform, source to model. *)
From Coq Require Import ZArith List Lia Bool Arith.
From NTT Require Import Functors ScalarOps Fused Tables FlatTable Transform Structural CxxSem MemSem LoopSpec LoopRun LoopInst PrepSpec GenEq GenLoopEq GenLoopSimd.
From NTT.gen Require Import Gen GenVec GenLoop.
Import ListNotations.
Local Open Scope Z_scope.

Lemma prep_u32_shape : gen_prep_wtab_u32 = prep_sh 32 gen_mulmod_u32. Proof. reflexivity. Qed.
Lemma prep_u16_shape : gen_prep_wtab_u16 = prep_sh 16 gen_mulmod_u16. Proof. reflexivity. Qed.
Lemma prep_u64_shape : gen_prep_wtab_u64 = fun fuel degree a ao b bo w cm p pn => prep_sh 64 (fun p' x y => gen_mulmod_u64 p' pn x y) fuel degree a ao b bo w cm p. Proof. reflexivity. Qed.

Definition tables_of (w p : Z) (k : nat) (om : Z) (A0 B0 : list Z) : list Z * list Z :=
  (flat p k om ++ skipn (2 ^ k - 1) A0, map (fun v => (v * 2 ^ w) / p) (flat p k om) ++ skipn (2 ^ k - 1) B0).

Theorem prep_u32_ok fuel k p om A0 B0 cm : Hrow 32 p -> 0 <= om < p -> (k <= 30)%nat -> (k < fuel)%nat -> (2 ^ k - 1 <= length A0)%nat -> (2 ^ k - 1 <= length B0)%nat ->
  gen_prep_wtab_u32 fuel (Z.of_nat (2 ^ k)) A0 0 B0 0 om cm p = Some (tables_of 32 p k om A0 B0, Z.of_nat (2 ^ k - 1), Z.of_nat (2 ^ k - 1)).
Proof.
  intros H Hom Hk Hf HA HB. destruct (Hrow_facts 32 p H) as (Hp & H4 & _ & H2 & HpB). rewrite prep_u32_shape.
  assert (P1 : 1 < p) by (destruct H as (_ & Hlo & _); change (2 ^ (32 - 3)) with 536870912 in Hlo; lia).
  apply (prep_ok 32 ltac:(lia) p P1 HpB gen_mulmod_u32); try assumption.
  intros x y Hx Hy. rewrite gen_mulmod32. f_equal. apply mulmod_gen_correct; assumption.
Qed.
Theorem prep_u16_ok fuel k p om A0 B0 cm : Hrow 16 p -> 0 <= om < p -> (k <= 30)%nat -> (k < fuel)%nat -> (2 ^ k - 1 <= length A0)%nat -> (2 ^ k - 1 <= length B0)%nat ->
  gen_prep_wtab_u16 fuel (Z.of_nat (2 ^ k)) A0 0 B0 0 om cm p = Some (tables_of 16 p k om A0 B0, Z.of_nat (2 ^ k - 1), Z.of_nat (2 ^ k - 1)).
Proof.
  intros H Hom Hk Hf HA HB. destruct (Hrow_facts 16 p H) as (Hp & H4 & _ & H2 & HpB). rewrite prep_u16_shape.
  assert (P1 : 1 < p) by (destruct H as (_ & Hlo & _); change (2 ^ (16 - 3)) with 8192 in Hlo; lia).
  apply (prep_ok 16 ltac:(lia) p P1 HpB gen_mulmod_u16); try assumption.
  intros x y Hx Hy. rewrite gen_mulmod16. f_equal. apply mulmod_gen_correct; assumption.
Qed.
Theorem prep_u64_ok fuel k p pn om A0 B0 cm : Hrow64 p pn -> 0 <= om < p -> (k <= 30)%nat -> (k < fuel)%nat -> (2 ^ k - 1 <= length A0)%nat -> (2 ^ k - 1 <= length B0)%nat ->
  gen_prep_wtab_u64 fuel (Z.of_nat (2 ^ k)) A0 0 B0 0 om cm p pn = Some (tables_of 64 p k om A0 B0, Z.of_nat (2 ^ k - 1), Z.of_nat (2 ^ k - 1)).
Proof.
  intros H Hom Hk Hf HA HB. destruct H as (Hp & Hpn & Hpn'). rewrite prep_u64_shape.
  assert (P1 : 1 < p) by (change (2 ^ 61) with 2305843009213693952 in Hp; lia).
  assert (HpB : p < 2 ^ 64) by (change (2 ^ 62) with 4611686018427387904 in Hp; change (2 ^ 64) with 18446744073709551616; lia).
  apply (prep_ok 64 ltac:(lia) p P1 HpB (fun p' x y => gen_mulmod_u64 p' pn x y)); try assumption.
  intros x y Hx Hy. rewrite gen_mulmod64. f_equal. apply mulmod64_correct; assumption.
Qed.

(* tables, then transform: on the arrays prep_wtab leaves (whatever followed the tables stays; it must be reduced data, e.g. the zeros of
   static storage), core::ntt of every build returns the model's transform *)
Definition after_prep (r : option (list Z * list Z * Z * Z)) (P : list Z -> list Z -> Prop) : Prop :=
  match r with Some (WA, WB, _, _) => P WA WB | None => False end.

Theorem source_tables_then_transform_u32 fuel k p om A0 B0 cm x0 : Hrow 32 p -> 0 <= om < p -> (3 <= k <= 30)%nat -> (k < fuel)%nat ->
  (2 ^ k - 1 <= length A0)%nat -> (2 ^ k - 1 <= length B0)%nat -> Forall (fun v => 0 <= v < p) (skipn (2 ^ k - 1) A0) -> Forall (fun v => 0 <= v < 2 ^ 32) (skipn (2 ^ k - 1) B0) ->
  length x0 = (2 ^ k)%nat -> Forall (fun v => 0 <= v < 2 ^ 32) x0 ->
  let out := Some ((ntt_core 32 p k (fun lvl => nth lvl (prep p k om) nil) x0, Z.of_nat (2 ^ k), Z.of_nat (off k (k - 2)), Z.of_nat (off k (k - 2))), true) in
  after_prep (gen_prep_wtab_u32 fuel (Z.of_nat (2 ^ k)) A0 0 B0 0 om cm p) (fun WA WB =>
    gen_ntt_serial_u32 (Z.of_nat (2 ^ k)) x0 0 WA 0 WB 0 p = out /\ gen_ntt_sse_u32 (Z.of_nat (2 ^ k)) x0 0 WA 0 WB 0 p = out /\ gen_ntt_avx2_u32 (Z.of_nat (2 ^ k)) x0 0 WA 0 WB 0 p = out).
Proof.
  intros H Hom Hk Hf HA HB FA FB Hx Fx out. rewrite (prep_u32_ok fuel k p om A0 B0 cm) by (assumption || lia). unfold after_prep, tables_of.
  destruct (Hrow_facts 32 p H) as (Hp & H4 & _ & H2 & HpB).
  assert (P1 : 1 < p) by (destruct H as (_ & Hlo & _); change (2 ^ (32 - 3)) with 536870912 in Hlo; lia).
  destruct (source_loops_all_builds k p om (skipn (2 ^ k - 1) A0) (skipn (2 ^ k - 1) B0) x0 Hk P1 FA Hx) as (_ & S32 & _). apply S32; assumption.
Qed.
Theorem source_tables_then_transform_u16 fuel k p om A0 B0 cm x0 : Hrow 16 p -> 0 <= om < p -> (3 <= k <= 30)%nat -> (k < fuel)%nat ->
  (2 ^ k - 1 <= length A0)%nat -> (2 ^ k - 1 <= length B0)%nat -> Forall (fun v => 0 <= v < p) (skipn (2 ^ k - 1) A0) -> Forall (fun v => 0 <= v < 2 ^ 16) (skipn (2 ^ k - 1) B0) ->
  length x0 = (2 ^ k)%nat -> Forall (fun v => 0 <= v < 2 ^ 16) x0 ->
  let out := Some ((ntt_core 16 p k (fun lvl => nth lvl (prep p k om) nil) x0, Z.of_nat (2 ^ k), Z.of_nat (off k (k - 2)), Z.of_nat (off k (k - 2))), true) in
  after_prep (gen_prep_wtab_u16 fuel (Z.of_nat (2 ^ k)) A0 0 B0 0 om cm p) (fun WA WB =>
    gen_ntt_serial_u16 (Z.of_nat (2 ^ k)) x0 0 WA 0 WB 0 p = out /\ gen_ntt_sse_u16 (Z.of_nat (2 ^ k)) x0 0 WA 0 WB 0 p = out /\ gen_ntt_avx2_u16 (Z.of_nat (2 ^ k)) x0 0 WA 0 WB 0 p = out).
Proof.
  intros H Hom Hk Hf HA HB FA FB Hx Fx out. rewrite (prep_u16_ok fuel k p om A0 B0 cm) by (assumption || lia). unfold after_prep, tables_of.
  assert (P1 : 1 < p) by (destruct H as (_ & Hlo & _); change (2 ^ (16 - 3)) with 8192 in Hlo; lia).
  assert (P14 : p < 2 ^ 14) by (destruct H as (_ & _ & Hhi); exact Hhi).
  destruct (source_loops_all_builds k p om (skipn (2 ^ k - 1) A0) (skipn (2 ^ k - 1) B0) x0 Hk P1 FA Hx) as (S16 & _ & _). apply S16; assumption.
Qed.
Theorem source_tables_then_transform_u64 fuel k p pn om A0 B0 cm x0 : Hrow64 p pn -> 0 <= om < p -> (3 <= k <= 30)%nat -> (k < fuel)%nat ->
  (2 ^ k - 1 <= length A0)%nat -> (2 ^ k - 1 <= length B0)%nat -> Forall (fun v => 0 <= v < p) (skipn (2 ^ k - 1) A0) -> Forall (fun v => 0 <= v < 2 ^ 64) (skipn (2 ^ k - 1) B0) ->
  length x0 = (2 ^ k)%nat -> Forall (fun v => 0 <= v < 2 ^ 64) x0 ->
  let out := Some ((ntt_core 64 p k (fun lvl => nth lvl (prep p k om) nil) x0, Z.of_nat (2 ^ k), Z.of_nat (off k (k - 2)), Z.of_nat (off k (k - 2))), true) in
  after_prep (gen_prep_wtab_u64 fuel (Z.of_nat (2 ^ k)) A0 0 B0 0 om cm p pn) (fun WA WB =>
    gen_ntt_serial_u64 (Z.of_nat (2 ^ k)) x0 0 WA 0 WB 0 p = out /\ gen_ntt_sse_u64 (Z.of_nat (2 ^ k)) x0 0 WA 0 WB 0 p = out /\ gen_ntt_avx2_u64 (Z.of_nat (2 ^ k)) x0 0 WA 0 WB 0 p = out).
Proof.
  intros H Hom Hk Hf HA HB FA FB Hx Fx out. rewrite (prep_u64_ok fuel k p pn om A0 B0 cm) by (assumption || lia). unfold after_prep, tables_of.
  assert (Hp := H). destruct Hp as (Hp & _ & _).
  assert (P1 : 1 < p) by (change (2 ^ 61) with 2305843009213693952 in Hp; lia).
  assert (H4 : 4 * p <= 2 ^ 64) by (change (2 ^ 62) with 4611686018427387904 in Hp; change (2 ^ 64) with 18446744073709551616; lia).
  destruct (source_loops_all_builds k p om (skipn (2 ^ k - 1) A0) (skipn (2 ^ k - 1) B0) x0 Hk P1 FA Hx) as (_ & _ & S64). apply S64; assumption.
Qed.
