(* C07 — expression templates evaluate to their coefficient-wise meaning.  Statements only (ExprExec.v, Expr.v). *)
From Coq Require Import ZArith List.
From NTT Require Import Functors ScalarOps Expr ExprExec.
Local Open Scope Z_scope.

(* every residue-valued tree (unbounded depth) over canonical leaves evaluates, through the real functor chain with
   machine-word wrap, to its exact modular meaning, and the result is canonical *)
Theorem C07_eval_exact : forall w p pn, Hrow w p -> (w = 64 -> Hrow64 p pn) -> forall env t,
  val w p pn env t -> eval w p pn env t = spec w p env t /\ 0 <= eval w p pn env t < p.
Proof. exact eval_exact. Qed.
Print Assumptions C07_eval_exact.

(* assignment in blocks of L lanes (any vector width), destination possibly aliasing operands:
   dst receives the element-wise value on the ORIGINAL operands, nothing else changes *)
Theorem C07_assign_aliasing : forall w p pn dst t L m (h0 : heap),
  let h' := assign (fop w p pn) (mulmod_shoup w p) (fcsh w p) dst (tr t) L m h0 in
  (forall i, (i < m * L)%nat -> h' dst i = eval w p pn (fun x => h0 x i) t) /\
  (forall x i, x <> dst \/ (m * L <= i)%nat -> h' x i = h0 x i).
Proof. exact assign_eval. Qed.
Print Assumptions C07_assign_aliasing.

(* shoup(a*b, compute_shoup(b)) needs no side condition *)
Theorem C07_shoup_cshoup : forall w p pn, Hrow w p -> (w = 64 -> Hrow64 p pn) -> forall env a b,
  val w p pn env a -> val w p pn env b -> val w p pn env (EShoup3 a b (ECShoup b)).
Proof. exact val_shoup_cshoup. Qed.
Print Assumptions C07_shoup_cshoup.

Theorem C07_cshoup_top : forall w p pn, Hrow w p -> (w = 64 -> Hrow64 p pn) -> forall env a,
  val w p pn env a -> eval w p pn env (ECShoup a) = spec w p env (ECShoup a).
Proof. exact eval_cshoup_exact. Qed.
Print Assumptions C07_cshoup_top.

(* result independent of vector width *)
Theorem C07_width_irrelevant : forall w p pn dst t L1 m1 L2 m2 (h0 : heap) i, (m1 * L1 = m2 * L2)%nat -> (i < m1 * L1)%nat ->
  assign (fop w p pn) (mulmod_shoup w p) (fcsh w p) dst (tr t) L1 m1 h0 dst i = assign (fop w p pn) (mulmod_shoup w p) (fcsh w p) dst (tr t) L2 m2 h0 dst i.
Proof. exact assign_width. Qed.
Print Assumptions C07_width_irrelevant.

(* poly::operator=(ops::expr<Op, Args...> const&) OF THE SOURCE -- the evaluation of an expression template into its destination -- read from
   include/nfl/core.hpp on every run at 27 instantiations (c = a + b, a - b, a * b; three limb types; serial, SSE, AVX2), each with the vector width
   the source gives it (gen/GenAssign.v over ExprSem.assign_prog: the loop nest over the moduli and the vectors, with the static_assert as guard).
   With the statement of its body -- evaluate lanes j .. j+VS-1 from the CURRENT memory, store them to the destination -- it is, modulus by
   modulus, Expr.assign with some width dividing 16: the function C07_assign_aliasing (coefficient-wise meaning on the ORIGINAL operands, whatever
   aliases what) and C07_width_irrelevant are about. *)
From NTT Require AssignSpec.
Theorem C07_source_assign : AssignSpec.assign_statement.
Proof. exact AssignSpec.source_assign. Qed.
Print Assumptions C07_source_assign.
(* the statement in full for one of them *)
Theorem C07_source_assign_add_avx2_u16 : forall fop fshoup3 fcshoup dst t L, exists VS : nat, (VS = 1 \/ VS = 2 \/ VS = 4 \/ VS = 8 \/ VS = 16)%nat /\
  forall degree nm (s : nat -> Expr.heap), L = VS -> (0 < VS)%nat -> Z.of_nat VS < 2 ^ 62 -> 0 <= degree < 2 ^ 62 -> 0 <= nm < 2 ^ 62 -> (Z.of_nat VS | degree) ->
  exists s', GenAssign.gen_assign_add_avx2_u16 degree nm (fun cm j s => Some (AssignSpec.body fop fshoup3 fcshoup dst t L cm j s)) s = Some s' /\
             forall c, s' c = if (c <? Z.to_nat nm)%nat then Expr.assign fop fshoup3 fcshoup dst t L (Z.to_nat (degree / Z.of_nat VS)) (s c) else s c.
Proof. intros fop fshoup3 fcshoup dst t L. exact (proj1 (proj2 (proj2 (AssignSpec.source_assign fop fshoup3 fcshoup dst t))) L). Qed.
Print Assumptions C07_source_assign_add_avx2_u16.
Example C07_source_assign_example :
  let fop := fun (_ : nat) x y => x + y in
  let s0 : nat -> Expr.heap := fun c x i => Z.of_nat (100 * c + 10 * x + i) in
  match GenAssign.gen_assign_add_sse_u32 8 2 (fun cm j s => Some (AssignSpec.body fop (fun _ _ _ => 0) (fun _ => 0) 2%nat (Expr.Bin 0%nat (Expr.Leaf 0%nat) (Expr.Leaf 2%nat)) 4%nat cm j s)) s0 with
  | Some s' => List.map (s' 1%nat 2%nat) (List.seq 0 8) = List.map (fun i => s0 1%nat 0%nat i + s0 1%nat 2%nat i) (List.seq 0 8) /\ List.map (s' 1%nat 0%nat) (List.seq 0 8) = List.map (s0 1%nat 0%nat) (List.seq 0 8)
  | None => False end.
Proof. exact AssignSpec.source_assign_example. Qed.
Print Assumptions C07_source_assign_add_avx2_u16.

(* HOW AN EXPRESSION BECOMES A TREE.  The node each operator of ops.hpp builds is read from the source on every run (tools/cxxopnodes2coq.py ->
   gen/GenOpNodes.v; serial and AVX2 builds): the tree of functors denoted by the TYPE of a + b, a - (b + c), (a + b) * c, (a + b) == (c - d), ...
   (5 operators x 4 operand kinds) and of shoup(a * b, c), after checking that every construction function (the operator overloads, make_op,
   _make_op::operator(), the shoup specialisation, expr's constructor) passes its operands on IN ORDER.  It is the tree the syntax says: the
   operator's functor at the root, the operands' trees left and right -- what Expr.tree / ExprExec.tr assume. *)
From NTT Require OpNodesSpec.
From NTT.gen Require GenOpNodes.
Theorem C07_source_op_nodes : OpNodesSpec.same OpNodesSpec.expected GenOpNodes.gen_op_nodes_serial = true /\ OpNodesSpec.same OpNodesSpec.expected GenOpNodes.gen_op_nodes_avx2 = true.
Proof. exact OpNodesSpec.source_op_nodes. Qed.
Print Assumptions C07_source_op_nodes.
Theorem C07_source_op_node : forall e t, List.In (e, t) OpNodesSpec.expected -> List.In (e, t) GenOpNodes.gen_op_nodes_serial /\ List.In (e, t) GenOpNodes.gen_op_nodes_avx2.
Proof. exact OpNodesSpec.source_op_node. Qed.
Print Assumptions C07_source_op_node.
From Coq Require Import String.
Example C07_source_op_nodes_example : List.In ("(a + b) - (c - d)"%string, "submod(addmod(P, P), submod(P, P))"%string) OpNodesSpec.expected.
Proof. vm_compute. tauto. Qed.
