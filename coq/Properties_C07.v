(* C07 — expression templates evaluate to their coefficient-wise meaning.  Statements only (ExprExec.v, Expr.v). *)
From Coq Require Import ZArith List.
From NTT Require Import Functors ScalarOps Expr ExprExec.
Local Open Scope Z_scope.

(* every residue-valued tree (unbounded depth) over canonical leaves evaluates, through the real functor chain with
   machine-word wrap, to its exact modular meaning, and the result is canonical *)
Theorem C07_eval_exact : forall w p pn, Hrow w p -> (w = 64 -> Hrow64 p pn) -> forall env t,
  val w p pn env t -> eval w p pn env t = spec w p env t /\ 0 <= eval w p pn env t < p.
Proof. exact eval_exact. Qed.
Print Assumptions C07_eval_exact.

(* assignment in blocks of L lanes (any vector width), destination possibly aliasing operands:
   dst receives the element-wise value on the ORIGINAL operands, nothing else changes *)
Theorem C07_assign_aliasing : forall w p pn dst t L m (h0 : heap),
  let h' := assign (fop w p pn) (mulmod_shoup w p) (fcsh w p) dst (tr t) L m h0 in
  (forall i, (i < m * L)%nat -> h' dst i = eval w p pn (fun x => h0 x i) t) /\
  (forall x i, x <> dst \/ (m * L <= i)%nat -> h' x i = h0 x i).
Proof. exact assign_eval. Qed.
Print Assumptions C07_assign_aliasing.

(* shoup(a*b, compute_shoup(b)) needs no side condition *)
Theorem C07_shoup_cshoup : forall w p pn, Hrow w p -> (w = 64 -> Hrow64 p pn) -> forall env a b,
  val w p pn env a -> val w p pn env b -> val w p pn env (EShoup3 a b (ECShoup b)).
Proof. exact val_shoup_cshoup. Qed.
Print Assumptions C07_shoup_cshoup.

Theorem C07_cshoup_top : forall w p pn, Hrow w p -> (w = 64 -> Hrow64 p pn) -> forall env a,
  val w p pn env a -> eval w p pn env (ECShoup a) = spec w p env (ECShoup a).
Proof. exact eval_cshoup_exact. Qed.
Print Assumptions C07_cshoup_top.

(* result independent of vector width *)
Theorem C07_width_irrelevant : forall w p pn dst t L1 m1 L2 m2 (h0 : heap) i, (m1 * L1 = m2 * L2)%nat -> (i < m1 * L1)%nat ->
  assign (fop w p pn) (mulmod_shoup w p) (fcsh w p) dst (tr t) L1 m1 h0 dst i = assign (fop w p pn) (mulmod_shoup w p) (fcsh w p) dst (tr t) L2 m2 h0 dst i.
Proof. exact assign_width. Qed.
Print Assumptions C07_width_irrelevant.
