(* prep_wtab (the table preparation of poly::core, translated by tools/cxxloop2coq.py): the two arrays it fills are FlatTable.flat -- the
   level tables of the transform model one after the other -- and its Shoup companions.  Generic in the limb width and the mulmod kernel. *)
From Coq Require Import ZArith List Lia Bool Arith.
From NTT Require Import Tables FlatTable CxxSem MemSem LoopSpec LoopRun.
Import ListNotations.
Local Open Scope Z_scope.

Definition StP := (list Z * list Z * Z * Z)%type.
(* the shape of the generated code, with the mulmod kernel and the limb width as parameters *)
Definition prep_sh (bits : Z) (mm : Z -> Z -> Z -> option Z) (fuel : nat) (degree : Z) (wtab : list Z) (wtab_o : Z) (wtabshoup : list Z) (wtabshoup_o : Z) (w : Z) (cm : Z) (p : Z) : option StP :=
  (let K_1 := (uw 32 degree) in (bind (while_fuel fuel (fun '(wtab, wtabshoup, wtab_o, wtabshoup_o, K_2, w_3) => (K_2 >=? 2)) (fun '(wtab, wtabshoup, wtab_o, wtabshoup_o, K_2, w_3) => (let wi_4 := 1 in (bind (for_up 0 (K_2 / 2) 1 (fun i_5 '(wtab, wtabshoup, wtab_o, wtabshoup_o, wi_6) => (bind (st wtab wtab_o (uw bits wi_6)) (fun wtab => (let wtab_o := (wtab_o + 1) in (bind (st wtabshoup wtabshoup_o (uw bits ((uw (2 * bits) (wi_6 * 2 ^ bits)) / p))) (fun wtabshoup => (let wtabshoup_o := (wtabshoup_o + 1) in (bind (mm p (uw bits wi_6) w_3) (fun r_call => (let wi_7 := r_call in Some (wtab, wtabshoup, wtab_o, wtabshoup_o, wi_7))))))))))) (wtab, wtabshoup, wtab_o, wtabshoup_o, wi_4)) (fun '(wtab, wtabshoup, wtab_o, wtabshoup_o, wi_8) => (bind (mm p w_3 w_3) (fun r_call => (let w_9 := r_call in (let K_10 := (K_2 / 2) in Some (wtab, wtabshoup, wtab_o, wtabshoup_o, K_10, w_9))))))))) (wtab, wtabshoup, wtab_o, wtabshoup_o, K_1, w)) (fun '(wtab, wtabshoup, wtab_o, wtabshoup_o, K_11, w_12) => Some (wtab, wtabshoup, wtab_o, wtabshoup_o)))).

Lemma while_steps {S} (P : nat -> S) n c body : (forall j, (j < n)%nat -> c (P j) = true /\ body (P j) = Some (P (Datatypes.S j))) -> c (P n) = false ->
  forall fuel, (n < fuel)%nat -> while_fuel fuel c body (P 0%nat) = Some (P n).
Proof.
  intros H Hn. assert (G : forall m j fuel, (j + m = n)%nat -> (m < fuel)%nat -> while_fuel fuel c body (P j) = Some (P n)).
  { induction m as [|m IH]; intros j fuel Hj Hf; destruct fuel as [|fuel]; try lia; cbn [while_fuel].
    - replace j with n by lia. rewrite Hn. reflexivity.
    - destruct (H j ltac:(lia)) as [C B]. rewrite C, B. cbn [bind]. apply IH; lia. }
  intros fuel Hf. apply (G n 0%nat fuel); lia.
Qed.
Lemma st_append pre post v : post <> [] -> st (pre ++ post) (Z.of_nat (length pre)) v = Some ((pre ++ [v]) ++ tl post).
Proof.
  intros Hp. destruct post as [|a post]; [congruence|]. rewrite st_some by (rewrite app_length; cbn [length]; lia). rewrite Nat2Z.id. f_equal.
  cbn [tl]. rewrite <- app_assoc. cbn [app]. induction pre as [|b pre IH]; cbn [app length upd]; [reflexivity|]. rewrite IH. reflexivity.
Qed.

Section Prep.
Variable bits : Z.
Hypothesis Hbits : 0 < bits.
Variable p : Z.
Hypothesis Hp : 1 < p.
Hypothesis Hpb : p < 2 ^ bits.
Variable mm : Z -> Z -> Z -> option Z.
Hypothesis Hmm : forall x y, 0 <= x < p -> 0 <= y < p -> mm p x y = Some ((x * y) mod p).
Definition shoup (v : Z) : Z := (v * 2 ^ bits) / p.

Fixpoint cur (wv : Z) (j : nat) : Z := match j with O => 1 | S j' => (cur wv j' * wv) mod p end.
Lemma cur_range wv j : 0 <= cur wv j < p.
Proof. destruct j; cbn [cur]; [lia | apply Z.mod_pos_bound; lia]. Qed.
Fixpoint curs (wv start : Z) (j : nat) : Z := match j with O => start | S j' => (curs wv start j' * wv) mod p end.
Lemma curs_shift wv j : forall s, curs wv ((s * wv) mod p) j = (curs wv s j * wv) mod p.
Proof. induction j as [|j IH]; intros s; [reflexivity|]. cbn [curs]. rewrite IH. reflexivity. Qed.
Lemma pows_cur wv : forall c j start, (j < c)%nat -> nth j (pows p wv c start) 0 = curs wv start j.
Proof.
  induction c as [|c IH]; intros j start Hj; [lia|]. cbn [pows]. destruct j as [|j]; [reflexivity|]. cbn [nth]. rewrite IH by lia.
  rewrite curs_shift. reflexivity.
Qed.
Lemma cur_iter wv j : cur wv j = curs wv 1 j.
Proof. induction j as [|j IH]; [reflexivity|]. cbn [cur curs]. rewrite IH. reflexivity. Qed.
Lemma firstn_S_nth (l : list Z) : forall j, (j < length l)%nat -> firstn (S j) l = firstn j l ++ [nth j l 0].
Proof.
  induction l as [|a l IH]; intros j L; [cbn in L; lia|]. destruct j as [|j]; [reflexivity|].
  change (firstn (S (S j)) (a :: l)) with (a :: firstn (S j) l). change (firstn (S j) (a :: l)) with (a :: firstn j l). cbn [nth app].
  rewrite IH by (cbn in L; lia). reflexivity.
Qed.
Lemma firstn_S_pows wv c j : (j < c)%nat -> firstn (S j) (pows p wv c 1) = firstn j (pows p wv c 1) ++ [cur wv j].
Proof. intros Hj. rewrite firstn_S_nth by (rewrite pows_length; exact Hj). rewrite pows_cur by exact Hj. rewrite cur_iter. reflexivity. Qed.
Lemma skipn_S_tl (l : list Z) : forall j, skipn (S j) l = tl (skipn j l).
Proof. induction l as [|a l IH]; intros j; [destruct j; reflexivity|]. destruct j as [|j]; [reflexivity|]. change (skipn (S (S j)) (a :: l)) with (skipn (S j) l). change (skipn (S j) (a :: l)) with (skipn j l). apply IH. Qed.
Lemma shoup_small v : 0 <= v < p -> uw bits ((uw (2 * bits) (v * 2 ^ bits)) / p) = shoup v.
Proof.
  intros Hv. assert (0 < 2 ^ bits) by (apply Z.pow_pos_nonneg; lia). unfold shoup.
  rewrite (uw_small (2 * bits)) by (replace (2 * bits) with (bits + bits) by lia; rewrite Z.pow_add_r by lia; nia).
  apply uw_small. split; [apply Z.div_pos; nia | apply Z.div_lt_upper_bound; nia].
Qed.

(* the inner loop writes one level *)
Lemma level_loop wv c preA postA preB postB : 0 <= wv < p -> (c <= length postA)%nat -> (c <= length postB)%nat -> length preA = length preB -> Z.of_nat c < 2 ^ 62 ->
  for_up 0 (Z.of_nat c) 1 (fun i_5 '(wtab, wtabshoup, wtab_o, wtabshoup_o, wi_6) => bind (st wtab wtab_o (uw bits wi_6)) (fun wtab0 => bind (st wtabshoup wtabshoup_o (uw bits ((uw (2 * bits) (wi_6 * 2 ^ bits)) / p))) (fun wtabshoup0 => bind (mm p (uw bits wi_6) wv) (fun r_call => Some (wtab0, wtabshoup0, wtab_o + 1, wtabshoup_o + 1, r_call)))))
    (preA ++ postA, preB ++ postB, Z.of_nat (length preA), Z.of_nat (length preB), 1)
  = Some ((preA ++ pows p wv c 1) ++ skipn c postA, (preB ++ map shoup (pows p wv c 1)) ++ skipn c postB, Z.of_nat (length preA + c), Z.of_nat (length preB + c), cur wv c).
Proof.
  intros Hwv HA HB Hl Hc. set (lvl := pows p wv c 1).
  set (P := fun j : nat => ((preA ++ firstn j lvl) ++ skipn j postA, (preB ++ map shoup (firstn j lvl)) ++ skipn j postB, Z.of_nat (length preA + j), Z.of_nat (length preB + j), cur wv j)).
  assert (E0 : (preA ++ postA, preB ++ postB, Z.of_nat (length preA), Z.of_nat (length preB), 1) = P 0%nat) by (unfold P; cbn [firstn skipn map cur]; rewrite !app_nil_r, !Nat.add_0_r; reflexivity).
  rewrite E0. rewrite (for_up_steps P c); try lia.
  - unfold P. rewrite firstn_all2 by (unfold lvl; rewrite pows_length; lia). reflexivity.
  - intros j Hj. unfold P at 1. cbv beta iota zeta. pose proof (cur_range wv j) as Hcj.
    rewrite (uw_small bits (cur wv j)) by lia. rewrite shoup_small by lia.
    assert (LA : length (preA ++ firstn j lvl) = (length preA + j)%nat) by (rewrite app_length, firstn_length; unfold lvl; rewrite pows_length; lia).
    assert (LB : length (preB ++ map shoup (firstn j lvl)) = (length preB + j)%nat) by (rewrite app_length, map_length, firstn_length; unfold lvl; rewrite pows_length; lia).
    rewrite <- LA, <- LB. rewrite st_append by (intros E; apply (f_equal (@length Z)) in E; rewrite skipn_length in E; cbn in E; lia). cbn [bind].
    rewrite st_append by (intros E; apply (f_equal (@length Z)) in E; rewrite skipn_length in E; cbn in E; lia). cbn [bind].
    rewrite Hmm by lia. cbn [bind]. rewrite LA, LB. unfold P.
    unfold lvl. rewrite (firstn_S_pows wv c j Hj). rewrite map_app. cbn [map cur]. rewrite !skipn_S_tl. rewrite <- !app_assoc.
    replace (Z.of_nat (length preA + j) + 1) with (Z.of_nat (length preA + S j)) by lia.
    replace (Z.of_nat (length preB + j) + 1) with (Z.of_nat (length preB + S j)) by lia. reflexivity.
Qed.
(* the outer loop: one level per iteration, K halves, w is squared *)
Variable k : nat.
Hypothesis Hk : (k <= 30)%nat.
Variable w0 : Z.
Hypothesis Hw0 : 0 <= w0 < p.
Fixpoint wl (l : nat) : Z := match l with O => w0 | S l' => (wl l' * wl l') mod p end.
Lemma wl_range l : 0 <= wl l < p. Proof. destruct l; cbn [wl]; [exact Hw0 | apply Z.mod_pos_bound; lia]. Qed.
Fixpoint pre (l : nat) : list Z := match l with O => [] | S l' => pre l' ++ pows p (wl l') (2 ^ (k - l' - 1)) 1 end.
Lemma pre_flat l : (l <= k)%nat -> pre l ++ flat p (k - l) (wl l) = flat p k w0.
Proof.
  induction l as [|l IH]; intros Hl; [cbn [pre wl app]; rewrite Nat.sub_0_r; reflexivity|].
  rewrite <- IH by lia. cbn [pre wl]. rewrite <- app_assoc. f_equal.
  replace (k - l)%nat with (S (k - S l)) by lia. unfold flat. cbn [prep concat]. replace (S (k - S l) - 1)%nat with (k - S l)%nat by lia. reflexivity.
Qed.
Lemma pre_length l : (l <= k)%nat -> (length (pre l) + 2 ^ (k - l) = 2 ^ k)%nat.
Proof.
  induction l as [|l IH]; intros Hl; [cbn [pre length]; rewrite Nat.sub_0_r; lia|]. cbn [pre]. rewrite app_length, pows_length.
  specialize (IH ltac:(lia)). replace (k - l)%nat with (S (k - l - 1)) in IH by lia. rewrite Nat.pow_succ_r' in IH. replace (k - S l)%nat with (k - l - 1)%nat by lia. lia.
Qed.
Lemma skipn_add (l : list Z) a b : skipn a (skipn b l) = skipn (b + a) l.
Proof. revert l. induction b as [|b IH]; intros l; [reflexivity|]. destruct l as [|x l]; [destruct a; reflexivity|]. cbn [skipn Nat.add]. apply IH. Qed.

Theorem prep_ok fuel A0 B0 cm : (k < fuel)%nat -> (2 ^ k - 1 <= length A0)%nat -> (2 ^ k - 1 <= length B0)%nat ->
  prep_sh bits mm fuel (Z.of_nat (2 ^ k)) A0 0 B0 0 w0 cm p =
  Some (flat p k w0 ++ skipn (2 ^ k - 1) A0, map shoup (flat p k w0) ++ skipn (2 ^ k - 1) B0, Z.of_nat (2 ^ k - 1), Z.of_nat (2 ^ k - 1)).
Proof.
  intros Hf HA HB. unfold prep_sh. cbv zeta.
  assert (Pk : Z.of_nat (2 ^ k) < 2 ^ 31) by (rewrite pow2_Z; apply Z.pow_lt_mono_r; lia).
  rewrite (uw_small 32) by lia.
  set (P := fun l : nat => (pre l ++ skipn (length (pre l)) A0, map shoup (pre l) ++ skipn (length (pre l)) B0, Z.of_nat (length (pre l)), Z.of_nat (length (pre l)), Z.of_nat (2 ^ (k - l)), wl l)).
  assert (E0 : (A0, B0, 0, 0, Z.of_nat (2 ^ k), w0) = P 0%nat) by (unfold P; cbn [pre wl app map length skipn]; rewrite Nat.sub_0_r; reflexivity).
  rewrite E0. rewrite (while_steps P k); [| | |exact Hf].
  - unfold P. cbn [bind]. pose proof (pre_flat k ltac:(lia)) as F. rewrite Nat.sub_diag in F. unfold flat at 1 in F. cbn [prep concat] in F. rewrite app_nil_r in F.
    pose proof (pre_length k ltac:(lia)) as L. rewrite Nat.sub_diag in L. cbn [Nat.pow] in L.
    replace (length (pre k)) with (2 ^ k - 1)%nat by lia. rewrite F. reflexivity.
  - intros l Hl. unfold P at 1 2. cbv beta iota zeta. pose proof (pre_length l ltac:(lia)) as L. pose proof (wl_range l) as Wr.
    assert (C2 : (2 ^ (k - l) = 2 * 2 ^ (k - l - 1))%nat) by (replace (k - l)%nat with (S (k - l - 1)) at 1 by lia; apply Nat.pow_succ_r').
    assert (Cpos : (0 < 2 ^ (k - l - 1))%nat) by (apply Nat.neq_0_lt_0, Nat.pow_nonzero; lia).
    split; [apply Z.geb_le; lia|].
    replace (Z.of_nat (2 ^ (k - l)) / 2) with (Z.of_nat (2 ^ (k - l - 1))) by (rewrite C2, Nat2Z.inj_mul; change (Z.of_nat 2) with 2; rewrite Z.mul_comm, Z.div_mul by lia; reflexivity).
    rewrite <- (map_length shoup (pre l)) at 4.
    rewrite (level_loop (wl l) (2 ^ (k - l - 1)) (pre l) (skipn (length (pre l)) A0) (map shoup (pre l)) (skipn (length (pre l)) B0)); try (rewrite ?skipn_length, ?map_length; lia).
    cbn [bind]. rewrite Hmm by lia. cbn [bind]. unfold P. cbn [pre wl]. rewrite !skipn_add, map_app, map_length, !app_length, pows_length.
      replace (k - S l)%nat with (k - l - 1)%nat by lia.
      reflexivity.
  - unfold P. rewrite Nat.sub_diag. reflexivity.
Qed.
End Prep.
