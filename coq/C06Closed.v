(* C06, closed over the tables generated from /repo/include/nfl/params.hpp on this run. *)
From Coq Require Import ZArith Znumtheory List Arith Lia Bool.
From NTT Require Import NumTheoryMC TablesOK Shards.
From NTT.gen Require Import Params.
From NTT Require Rows64_00 Rows64_01 Rows64_02 Rows64_03 Rows64_04 Rows64_05 Rows64_06 Rows64_07
                 Rows64_08 Rows64_09 Rows64_10 Rows64_11 Rows64_12 Rows64_13 Rows64_14 Rows64_15.
Import ListNotations.
Local Open Scope Z_scope.

Lemma maxdeg16_pow : maxdeg16 = 2 ^ Z.of_nat K16. Proof. vm_compute. reflexivity. Qed.
Lemma maxdeg32_pow : maxdeg32 = 2 ^ Z.of_nat K32. Proof. vm_compute. reflexivity. Qed.
Lemma maxdeg64_pow : maxdeg64 = 2 ^ Z.of_nat K64. Proof. vm_compute. reflexivity. Qed.
Lemma widths : (w16, limbbits16, gbits16, w32, limbbits32, gbits32, w64, limbbits64, gbits64) = (16, 16, 32, 32, 32, 64, 64, 64, 128).
Proof. vm_compute. reflexivity. Qed.

Lemma table16_ok : table_ok w16 bits16 K16 T16 nmod16 lens16 rows16 = true. Proof. vm_compute. reflexivity. Qed.
Lemma table32_ok : table_ok w32 bits32 K32 T32 nmod32 lens32 rows32 = true. Proof. vm_compute. reflexivity. Qed.

Lemma rows64_split : rows64 = concat (map (fun i => chunk csz64 i rows64) (seq 0 nshards)).
Proof. vm_compute. reflexivity. Qed.

Lemma rows64_all : forallb (row_ok w64 bits64 K64 T64) rows64 = true.
Proof.
  rewrite rows64_split. apply forallb_concat. apply forallb_forall. intros l Hl.
  apply in_map_iff in Hl. destruct Hl as [i [E Hi]]. subst l. unfold nshards in Hi. cbn [seq In] in Hi.
  repeat (destruct Hi as [E|Hi]; [subst i|]); try contradiction.
  - exact Rows64_00.ok. - exact Rows64_01.ok. - exact Rows64_02.ok. - exact Rows64_03.ok.
  - exact Rows64_04.ok. - exact Rows64_05.ok. - exact Rows64_06.ok. - exact Rows64_07.ok.
  - exact Rows64_08.ok. - exact Rows64_09.ok. - exact Rows64_10.ok. - exact Rows64_11.ok.
  - exact Rows64_12.ok. - exact Rows64_13.ok. - exact Rows64_14.ok. - exact Rows64_15.ok.
Qed.

Lemma table64_rest : nodupb (map (fun r => fst (fst (fst r))) rows64) && (Z.of_nat (length rows64) =? nmod64)
   && forallb (Z.eqb nmod64) lens64 && (bits64 =? w64 - 2) && (0 <? nmod64) = true.
Proof. vm_compute. reflexivity. Qed.

Lemma table64_ok : table_ok w64 bits64 K64 T64 nmod64 lens64 rows64 = true.
Proof.
  unfold table_ok. rewrite rows64_all. exact table64_rest.
Qed.

Lemma bits_ge2 : 2 <= bits16 /\ 2 <= bits32 /\ 2 <= bits64. Proof. vm_compute. repeat split; discriminate. Qed.

Theorem tables_valid :
  table_valid w16 bits16 maxdeg16 nmod16 rows16 /\
  table_valid w32 bits32 maxdeg32 nmod32 rows32 /\
  table_valid w64 bits64 maxdeg64 nmod64 rows64.
Proof.
  destruct bits_ge2 as (B1 & B2 & B3).
  rewrite maxdeg16_pow, maxdeg32_pow, maxdeg64_pow. split; [|split].
  - exact (table_ok_sound _ _ _ _ _ _ _ B1 table16_ok).
  - exact (table_ok_sound _ _ _ _ _ _ _ B2 table32_ok).
  - exact (table_ok_sound _ _ _ _ _ _ _ B3 table64_ok).
Qed.

(* the extra Barrett-Newton shape the 64-bit mulmod needs: Pn = floor(2^128/p) - 2^66 < 2^63 and 2^61 < p < 2^62 *)
Lemma newton64_ok : forallb (fun r => let '(p, pn, _, _) := r in (2 ^ 61 <? p) && (p <? 2 ^ 62) && (pn =? 2 ^ 128 / p - 2 ^ 66) && (0 <=? pn) && (pn <? 2 ^ 63)) rows64 = true.
Proof. vm_compute. reflexivity. Qed.
