From Coq Require Import List Arith Lia Bool.
Import ListNotations.

(* Sets S ⊆ [0,k) as characteristic vectors of length k.  One reservoir step at item k with
   c = k+1-h "keep" draws and one "replace member x by k" draw per member x:  *)
Definition vec := list bool.
Definition vec_eq_dec : forall a b : vec, {a = b} + {a <> b} := list_eq_dec bool_dec.
Definition ind (a b : vec) : nat := if vec_eq_dec a b then 1 else 0.
Definition lsum (l : list nat) := fold_right Nat.add 0 l.
Definition cnt (T : vec) (L : list vec) : nat := lsum (map (fun v => ind v T) L).

Fixpoint upd (x : nat) (b : bool) (v : vec) : vec :=
  match v, x with
  | [], _ => []
  | _ :: t, 0 => b :: t
  | a :: t, S x' => a :: upd x' b t
  end.
Definition members (v : vec) : list nat := filter (fun x => nth x v false) (seq 0 (length v)).
Definition next (c : nat) (v : vec) : list vec :=
  repeat (v ++ [false]) c ++ map (fun x => upd x false v ++ [true]) (members v).
Fixpoint sets (h m : nat) : list vec :=
  match m with 0 => [repeat true h] | S m' => flat_map (next (m' + 1)) (sets h m') end.
Definition weight (v : vec) := count_occ bool_dec v true.

(* ---- sums ---- *)
Lemma lsum_app a b : lsum (a ++ b) = lsum a + lsum b.
Proof. induction a; simpl; lia. Qed.
Lemma lsum_map_ext {A} (f g : A -> nat) l : (forall a, In a l -> f a = g a) -> lsum (map f l) = lsum (map g l).
Proof. induction l; simpl; intros H; [reflexivity|]. rewrite H, IHl; auto. Qed.
Lemma lsum_map_const {A} (l : list A) c : lsum (map (fun _ => c) l) = length l * c.
Proof. induction l; simpl; lia. Qed.
Lemma lsum_map_scale {A} (f : A -> nat) l c : lsum (map (fun a => c * f a) l) = c * lsum (map f l).
Proof. induction l; simpl; lia. Qed.
Lemma lsum_map_add {A} (f g : A -> nat) l : lsum (map (fun a => f a + g a) l) = lsum (map f l) + lsum (map g l).
Proof. induction l; simpl; lia. Qed.
Lemma lsum_zero {A} (f : A -> nat) l : (forall a, In a l -> f a = 0) -> lsum (map f l) = 0.
Proof. intros H. rewrite (lsum_map_ext f (fun _ => 0)) by auto. rewrite lsum_map_const. lia. Qed.
Lemma lsum_swap {A B} (f : A -> B -> nat) la lb :
  lsum (map (fun a => lsum (map (fun b => f a b) lb)) la) = lsum (map (fun b => lsum (map (fun a => f a b) la)) lb).
Proof. induction la; simpl.
  - symmetry. apply lsum_zero. auto.
  - rewrite IHla, <- lsum_map_add. reflexivity. Qed.
Lemma lsum_filter {A} (p : A -> bool) (f : A -> nat) l :
  lsum (map f (filter p l)) = lsum (map (fun a => if p a then f a else 0) l).
Proof. induction l; simpl; [reflexivity|]. destruct (p a); simpl; lia. Qed.

Lemma cnt_app T a b : cnt T (a ++ b) = cnt T a + cnt T b.
Proof. unfold cnt. now rewrite map_app, lsum_app. Qed.
Lemma cnt_flat_map T (f : vec -> list vec) L : cnt T (flat_map f L) = lsum (map (fun v => cnt T (f v)) L).
Proof. induction L; simpl; [reflexivity|]. now rewrite cnt_app, IHL. Qed.
Lemma cnt_repeat T v c : cnt T (repeat v c) = c * ind v T.
Proof. unfold cnt. induction c; simpl; lia. Qed.
Lemma cnt_map {A} T (g : A -> vec) l : cnt T (map g l) = lsum (map (fun a => ind (g a) T) l).
Proof. unfold cnt. now rewrite map_map. Qed.

Lemma ind_app_last a b x y : ind (a ++ [x]) (b ++ [y]) = if bool_dec x y then ind a b else 0.
Proof. unfold ind. destruct (vec_eq_dec (a ++ [x]) (b ++ [y])) as [E|E].
  - apply app_inj_tail in E. destruct E as [-> ->]. destruct (bool_dec y y); [|congruence]. destruct (vec_eq_dec b b); congruence.
  - destruct (bool_dec x y) as [->|]; [|reflexivity]. destruct (vec_eq_dec a b) as [->|]; congruence. Qed.

(* ---- vectors ---- *)
Lemma upd_length x b v : length (upd x b v) = length v.
Proof. revert x; induction v; destruct x; simpl; auto. Qed.
Lemma weight_app a b : weight (a ++ b) = weight a + weight b.
Proof. unfold weight. apply count_occ_app. Qed.
Lemma nth_upd_same x b v : x < length v -> nth x (upd x b v) false = b.
Proof. revert x; induction v; destruct x; simpl; intros; try lia; auto. apply IHv; lia. Qed.
Lemma upd_upd x b c v : upd x b (upd x c v) = upd x b v.
Proof. revert x; induction v; destruct x; simpl; auto. now rewrite IHv. Qed.
Lemma upd_nth x v : x < length v -> upd x (nth x v false) v = v.
Proof. revert x; induction v; destruct x; simpl; intros; try lia; auto. rewrite IHv; auto; lia. Qed.
Lemma weight_upd_true x v : x < length v -> nth x v false = false -> weight (upd x true v) = S (weight v).
Proof. unfold weight. revert x; induction v as [|a v IH]; destruct x; simpl; intros Hx Hn; try lia.
  - subst a. simpl. destruct (bool_dec true true); [|congruence]. destruct (bool_dec false true); [congruence|]. reflexivity.
  - rewrite IH by (auto; lia). destruct (bool_dec a true); reflexivity. Qed.

(* key pointwise fact: "x is a member of v and clearing it gives T0"  <->  "x is not in T0 and v is T0 with x set" *)
Lemma swap_point x v T0 : length v = length T0 -> x < length v ->
  (if nth x v false then ind (upd x false v) T0 else 0) = (if nth x T0 false then 0 else ind v (upd x true T0)).
Proof.
  intros HL Hx. unfold ind.
  destruct (nth x v false) eqn:Ev.
  - destruct (vec_eq_dec (upd x false v) T0) as [E|E].
    + subst T0. rewrite nth_upd_same by auto. rewrite upd_upd.
      assert (U : upd x true v = v) by (pose proof (upd_nth x v Hx) as U; rewrite Ev in U; exact U).
      rewrite U. destruct (vec_eq_dec v v); congruence.
    + destruct (nth x T0 false) eqn:Et; [reflexivity|].
      destruct (vec_eq_dec v (upd x true T0)) as [E'|]; [|reflexivity]. exfalso. apply E. subst v.
      rewrite upd_upd. pose proof (upd_nth x T0 ltac:(lia)) as U. rewrite Et in U. exact U.
  - destruct (nth x T0 false) eqn:Et; [reflexivity|].
    destruct (vec_eq_dec v (upd x true T0)) as [E'|]; [|reflexivity]. exfalso. subst v.
    rewrite nth_upd_same in Ev by lia. discriminate. Qed.

Lemma count_false v : lsum (map (fun x => if nth x v false then 0 else 1) (seq 0 (length v))) = length v - weight v.
Proof.
  assert (G : forall s, lsum (map (fun x => if nth (x - s) v false then 0 else 1) (seq s (length v))) + weight v = length v).
  { induction v as [|a v IH]; intros s; [reflexivity|]. simpl seq. simpl map. simpl lsum. replace (s - s) with 0 by lia.
    unfold weight in *. simpl count_occ. simpl nth at 1.
    specialize (IH (S s)).
    rewrite (lsum_map_ext _ (fun x => if nth (x - S s) v false then 0 else 1)).
    2:{ intros x Hx. apply in_seq in Hx. replace (x - s) with (S (x - S s)) by lia. reflexivity. }
    destruct a; destruct (bool_dec _ _); try congruence; simpl length; lia. }
  specialize (G 0). rewrite (lsum_map_ext _ (fun x => if nth (x - 0) v false then 0 else 1)).
  2:{ intros x _. now rewrite Nat.sub_0_r. } lia. Qed.

Lemma full_vec T h : length T = h -> weight T = h -> T = repeat true h.
Proof. revert h; induction T as [|a T IH]; intros h HL HW; simpl in *; subst h; [reflexivity|].
  unfold weight in *. simpl in HW. assert (B : count_occ bool_dec T true <= length T) by apply count_occ_bound.
  destruct a; destruct (bool_dec _ _); try congruence; try lia. simpl. f_equal. apply IH; auto; lia. Qed.

Lemma sets_length h m v : In v (sets h m) -> length v = h + m.
Proof. revert v; induction m; simpl; intros v Hv.
  - destruct Hv as [<-|[]]. rewrite repeat_length. lia.
  - apply in_flat_map in Hv. destruct Hv as [u [Hu Hv]]. specialize (IHm u Hu). unfold next in Hv.
    apply in_app_or in Hv. destruct Hv as [Hv|Hv].
    + apply repeat_spec in Hv. subst v. rewrite app_length. simpl. lia.
    + apply in_map_iff in Hv. destruct Hv as [x [<- _]]. rewrite app_length, upd_length. simpl. lia. Qed.

Theorem uniform h m : forall T, length T = h + m -> weight T = h -> cnt T (sets h m) = fact m.
Proof.
  induction m as [|m IH]; intros T HL HW.
  - simpl. rewrite Nat.add_0_r in HL. rewrite (full_vec T h HL HW). unfold cnt, ind. simpl.
    destruct (vec_eq_dec _ _); [reflexivity | congruence].
  - destruct (exists_last (l := T)) as [T0 [b ET]]. { intro; subst; simpl in HL; lia. }
    subst T. rewrite app_length in HL. simpl in HL. rewrite weight_app in HW.
    cbn [sets]. rewrite cnt_flat_map.
    (* expand next *)
    rewrite (lsum_map_ext _ (fun v => (m + 1) * (if bool_dec false b then ind v T0 else 0)
        + lsum (map (fun x => if nth x v false then (if bool_dec true b then ind (upd x false v) T0 else 0) else 0) (seq 0 (h + m))))).
    2:{ intros v Hv. unfold next. rewrite cnt_app, cnt_repeat, cnt_map. rewrite ind_app_last. f_equal.
        unfold members. rewrite lsum_filter, (sets_length _ _ _ Hv). apply lsum_map_ext. intros x _.
        rewrite ind_app_last. reflexivity. }
    rewrite lsum_map_add, lsum_map_scale.
    destruct b.
    + (* k in T : only the replace draws contribute *)
      destruct (bool_dec false true); [congruence|]. destruct (bool_dec true true); [|congruence].
      rewrite lsum_zero by reflexivity. rewrite Nat.mul_0_r, Nat.add_0_l.
      unfold weight in HW. simpl in HW. fold (weight T0) in HW.
      rewrite (lsum_map_ext _ (fun v => lsum (map (fun x => if nth x T0 false then 0 else ind v (upd x true T0)) (seq 0 (h + m))))).
      2:{ intros v Hv. apply lsum_map_ext. intros x Hx. apply in_seq in Hx. apply swap_point; rewrite (sets_length _ _ _ Hv); lia. }
      rewrite lsum_swap.
      rewrite (lsum_map_ext _ (fun x => (if nth x T0 false then 0 else 1) * fact m)).
      2:{ intros x Hx. apply in_seq in Hx. destruct (nth x T0 false) eqn:Et.
          - apply lsum_zero. reflexivity.
          - change (lsum (map (fun a => ind a (upd x true T0)) (sets h m))) with (cnt (upd x true T0) (sets h m)).
            rewrite IH; [lia | rewrite upd_length; lia | rewrite weight_upd_true; [lia | lia | exact Et]]. }
      replace (h + m) with (length T0) by lia.
      rewrite (lsum_map_ext _ (fun x => fact m * (if nth x T0 false then 0 else 1))) by (intros; lia).
      rewrite lsum_map_scale, count_false. simpl fact. replace (length T0 - weight T0) with (S m) by lia. lia.
    + (* k not in T : only the keep draws contribute *)
      destruct (bool_dec false false); [|congruence]. destruct (bool_dec true false); [congruence|].
      unfold weight in HW. simpl in HW. fold (weight T0) in HW.
      rewrite (lsum_zero (fun v => lsum _)).
      2:{ intros v _. apply lsum_zero. intros x _. destruct (nth x v false); reflexivity. }
      change (lsum (map (fun v => ind v T0) (sets h m))) with (cnt T0 (sets h m)).
      rewrite IH by lia. simpl fact. lia.
Qed.
Print Assumptions uniform.
