(* C14 — shared-handle polynomials behave as independent values.  Statements only (PolyP.v). *)
From Coq Require Import List Arith.
From NTT Require Import PolyP.

(* every operation sequence respecting the discipline: the observable value of every handle equals what the same
   sequence produces on plain values; the invariant (count = number of handles, freed at most once) is preserved *)
Theorem C14_refines : forall (V : Type) (H : nat) ops (s : st V), Inv V H s -> ok_run V H s ops ->
  Inv V H (run V s ops) /\ forall g, abs V (run V s ops) g = spec_run V (abs V s) ops g.
Proof. exact run_refines. Qed.
Print Assumptions C14_refines.

Theorem C14_init : forall (V : Type) (H : nat), Inv V H (init V).
Proof. exact init_inv. Qed.
Print Assumptions C14_init.

Theorem C14_step_inv : forall (V : Type) (H : nat) (s : st V) o, Inv V H s -> ok_op V H s o -> Inv V H (step V s o).
Proof. exact step_inv. Qed.
Print Assumptions C14_step_inv.

(* storage is released exactly once: no double free, and nothing leaks once no handle is left *)
Theorem C14_no_double_free : forall (V : Type) (H : nat) ops, ok_run V H (init V) ops -> forall c, frees V (run V (init V) ops) c <= 1.
Proof. exact no_double_free. Qed.
Print Assumptions C14_no_double_free.
Theorem C14_no_leak : forall (V : Type) (H : nat) ops, ok_run V H (init V) ops -> (forall h, hs V (run V (init V) ops) h = None) -> forall c, val V (run V (init V) ops) c = None.
Proof. exact no_leak. Qed.
Print Assumptions C14_no_leak.

(* THE HANDLE LAYER OF THE SOURCE.  The special members of poly_p (include/nfl/poly_p.hpp) are read from clang's AST on every run by
   tools/cxxpolyp2coq.py -- member initialisers of the shared_ptr _p (copy, std::move, make_pointer(...)), `if (this != &o)`, `_p = o._p`,
   `_p = std::move(o._p)`, `if (!_p.unique()) _p = make_pointer( *_p )`, `detach(); return *_p;`, make_pointer = std::allocate_shared<poly_type>
   with the aligned allocator and all arguments forwarded, no user-written destructor, no data member but _p -- and emitted over the shared_ptr
   operations of ShSem.v (standard-mandated behaviour: trusted).  They ARE the operations of the machine the theorems above are about:
   construction = Create, copy construction / assignment = Copy, move construction / assignment = Move, destruction = Destroy (equal states),
   and `poly_obj()` followed by a mutation through the returned reference = Write (every component of the state equal, hence the same
   observable values) -- so the refinement to plain values, no-double-free and no-leak hold of histories of the translated members. *)
From NTT Require ShSem GenPolyPEq.
From NTT.gen Require GenPolyP.
Theorem C14_source_handles : forall (V : Type) (H : nat) (s : st V),
  (forall h v, GenPolyP.gen_pp_make s h v = step V s (Create V h v)) /\
  (forall h g, GenPolyP.gen_pp_assign_copy s h g = step V s (Copy V h g)) /\
  (forall h g, GenPolyP.gen_pp_assign_move s h g = step V s (Move V h g)) /\
  (forall h g c, hs V s h = None -> h <> g -> hs V s g = Some c -> GenPolyP.gen_pp_ctor_copy s h g = step V s (Copy V h g) /\ GenPolyP.gen_pp_ctor_copy_nc s h g = step V s (Copy V h g)) /\
  (forall h g, hs V s h = None -> h <> g -> GenPolyP.gen_pp_ctor_move s h g = step V s (Move V h g)) /\
  (forall h, GenPolyP.gen_pp_destroy s h = step V s (Destroy V h)) /\
  (forall h f, Inv V H s -> GenPolyPEq.eqst V (GenPolyP.gen_pp_write s h f) (step V s (Write V h f)) /\ forall g, abs V (GenPolyP.gen_pp_write s h f) g = abs V (step V s (Write V h f)) g).
Proof.
  exact (fun V H s => conj (GenPolyPEq.make_is_create V s) (conj (GenPolyPEq.assign_copy_is_copy V s) (conj (GenPolyPEq.assign_move_is_move V s)
    (conj (GenPolyPEq.ctor_copy_is_copy V s) (conj (GenPolyPEq.ctor_move_is_move V s) (conj (GenPolyPEq.destroy_is_destroy V s)
    (fun h f I => conj (GenPolyPEq.write_is_write V H s h f I) (GenPolyPEq.eqst_abs V _ _ (GenPolyPEq.write_is_write V H s h f I))))))))).
Qed.
Print Assumptions C14_source_handles.

(* every OTHER member of the class template poly_p (39 of them: the arithmetic and comparison operators, operator(), load, the transforms, the
   serialisers, every set / set_mpz overload, the big-integer conversions, the static accessors) is checked on every run to be a one-statement
   forwarder -- the same-named operation of poly_obj() (static members: of poly_type) applied to the member's own parameters in order -- and
   listed in gen/GenPolyP.v; the operations the other properties speak about are in that list.  Together with C14_source_handles: an operation
   on a handle IS that operation on the payload, after detach() when the handle is not const. *)
Theorem C14_source_forwarders : (forall m, List.In m GenPolyPEq.forwarders_needed -> List.In m GenPolyP.gen_pp_forwarders) /\ (39 <= length GenPolyP.gen_pp_forwarders)%nat.
Proof. exact GenPolyPEq.forwarders_cover. Qed.
Print Assumptions C14_source_forwarders.
