(* C14 — shared-handle polynomials behave as independent values.  Statements only (PolyP.v). *)
From Coq Require Import List Arith.
From NTT Require Import PolyP.

(* every operation sequence respecting the discipline: the observable value of every handle equals what the same
   sequence produces on plain values; the invariant (count = number of handles, freed at most once) is preserved *)
Theorem C14_refines : forall (V : Type) (H : nat) ops (s : st V), Inv V H s -> ok_run V H s ops ->
  Inv V H (run V s ops) /\ forall g, abs V (run V s ops) g = spec_run V (abs V s) ops g.
Proof. exact run_refines. Qed.
Print Assumptions C14_refines.

Theorem C14_init : forall (V : Type) (H : nat), Inv V H (init V).
Proof. exact init_inv. Qed.
Print Assumptions C14_init.

Theorem C14_step_inv : forall (V : Type) (H : nat) (s : st V) o, Inv V H s -> ok_op V H s o -> Inv V H (step V s o).
Proof. exact step_inv. Qed.
Print Assumptions C14_step_inv.

(* storage is released exactly once: no double free, and nothing leaks once no handle is left *)
Theorem C14_no_double_free : forall (V : Type) (H : nat) ops, ok_run V H (init V) ops -> forall c, frees V (run V (init V) ops) c <= 1.
Proof. exact no_double_free. Qed.
Print Assumptions C14_no_double_free.
Theorem C14_no_leak : forall (V : Type) (H : nat) ops, ok_run V H (init V) ops -> (forall h, hs V (run V (init V) ops) h = None) -> forall c, val V (run V (init V) ops) c = None.
Proof. exact no_leak. Qed.
Print Assumptions C14_no_leak.
