From mathcomp Require Import all_ssreflect zify.
From mathcomp Require Import cyclic.
Set Implicit Arguments. Unset Strict Implicit. Unset Printing Implicit Defensive.

Lemma modn_pow_congr a b e P : a = b %[mod P] -> a ^ e = b ^ e %[mod P].
Proof. by move=> H; rewrite -modnXm H modnXm. Qed.

Lemma sq_pred P : 1 < P -> P.-1 ^ 2 = 1 %[mod P].
Proof.
move=> P1. have -> : P.-1 ^ 2 = (P.-2) * P + 1.
  case: P P1 => [|[|n]] // _. rewrite -[n.+2.-1]/(n.+1) -[n.+2.-2]/n expnS expn1. nia.
by rewrite -modnDml modnMl add0n.
Qed.

(* P prime, odd, g^(2^k) + 1 = 0 mod P  ==> 2^(k+1) %| P - 1 *)
Lemma two_power_order (P g k : nat) :
  prime P -> odd P -> (g ^ (2 ^ k)).+1 = 0 %[mod P] -> 2 ^ k.+1 %| P.-1.
Proof.
move=> Pp Po Hg.
have P_gt1 : 1 < P by apply: prime_gt1.
have P_gt0 : 0 < P by apply: ltnW.
have P_gt2 : 2 < P by case: P Pp Po P_gt1 {P_gt0 Hg} => [|[|[|n]]].
(* g^(2^k) = P-1 mod P *)
have E : g ^ 2 ^ k = P.-1 %[mod P].
  have lt: (g ^ 2 ^ k) %% P < P by rewrite ltn_mod.
  have H : ((g ^ 2 ^ k) %% P).+1 %% P = 0 by rewrite -addn1 modnDml addn1 Hg mod0n.
  rewrite (@modn_small P.-1) ?prednK //.
  move: lt; rewrite leq_eqVlt => /orP[/eqP e|lt].
    by rewrite -[in RHS]e.
  by move: H; rewrite modn_small // .
(* g coprime to P *)
have cgP : coprime g P.
  rewrite coprime_sym prime_coprime //; apply/negP => dvd_g.
  have Z : g ^ 2 ^ k = 0 %[mod P].
    by rewrite mod0n; apply/eqP; rewrite -/(dvdn _ _) dvdn_exp // expn_gt0.
  move: E; rewrite Z mod0n modn_small ?prednK // => E0.
  by move: E0 P_gt2; clear; case: P => [|[|[|n]]].
have F : g ^ P.-1 = 1 %[mod P].
  by rewrite -(totient_prime Pp); apply: Euler_exp_totient.
have S : g ^ (2 ^ k.+1) = 1 %[mod P].
  by rewrite expnS mulnC expnM (modn_pow_congr 2 E) sq_pred.
set d := gcdn (2 ^ k.+1) P.-1.
have [j lej dj] : exists2 j, j <= k.+1 & d = 2 ^ j.
  by apply/(@dvdn_pfactor 2 d k.+1 (isT : prime 2)); apply: dvdn_gcdl.
have gd : g ^ d = 1 %[mod P].
  have P1_gt0 : 0 < 2 ^ k.+1 by rewrite expn_gt0.
  case: (egcdnP P.-1 P1_gt0) => u v Euv _.
  have L: g ^ (u * 2 ^ k.+1) = 1 %[mod P] by rewrite mulnC expnM (modn_pow_congr u S) exp1n.
  have V: g ^ (v * P.-1) = 1 %[mod P] by rewrite mulnC expnM (modn_pow_congr v F) exp1n.
  have R: g ^ (v * P.-1 + d) = g ^ d %[mod P] by rewrite expnD -modnMml V modnMml mul1n.
  by rewrite -R -Euv L.
move: lej; rewrite leq_eqVlt => /orP[/eqP ej | ltj].
  by rewrite -ej -dj; apply: dvdn_gcdr.
exfalso.
have H1: g ^ 2 ^ k = 1 %[mod P].
  have -> : 2 ^ k = 2 ^ j * 2 ^ (k - j) by rewrite -expnD subnKC.
  by rewrite expnM -dj (modn_pow_congr _ gd) exp1n.
move: E; rewrite H1 !modn_small ?prednK // => E1.
by move: E1 P_gt2; clear; case: P => [|[|[|n]]].
Qed.

(* N odd > 1, g^(2^k) = -1 mod N, and no divisor of the special form 1 + 2^(k+1) t below sqrt N  ==>  N prime *)
Theorem special_form_prime (N g k : nat) :
  1 < N -> odd N -> (g ^ (2 ^ k)).+1 = 0 %[mod N] ->
  (forall t, 0 < t -> (1 + 2 ^ k.+1 * t) ^ 2 <= N -> ~~ (1 + 2 ^ k.+1 * t %| N)) ->
  prime N.
Proof.
move=> N1 No Hg Hdiv.
apply: ltn_pdiv2_prime; first by apply: ltnW.
rewrite ltnNge; apply/negP => Hsq.
set P := pdiv N in Hsq.
have Pp : prime P by apply: pdiv_prime.
have PdN : P %| N by apply: pdiv_dvd.
have Po : odd P by apply: dvdn_odd PdN No.
have HgP : (g ^ (2 ^ k)).+1 = 0 %[mod P].
  have: N %| (g ^ 2 ^ k).+1 by rewrite /dvdn Hg mod0n.
  move/(dvdn_trans PdN). by rewrite /dvdn mod0n => /eqP.
have D := two_power_order Pp Po HgP.
have P2 : 2 < P by case: (P) Pp Po => [|[|[|n]]].
case/dvdnP: D => t Et.
have t0 : 0 < t by case: t Et => [|t] //; rewrite mul0n => E; move: P2; rewrite -(prednK (prime_gt0 Pp)) E.
have EP : P = 1 + 2 ^ k.+1 * t by rewrite mulnC -Et add1n prednK // prime_gt0.
move: (Hdiv t t0). rewrite -EP Hsq PdN. by move=> /(_ isT).
Qed.

(* ------------------------------------------------------------------ *)
(* transport to Z and a computable checker                              *)
Definition natprime (n : nat) : bool := prime n.
From Coq Require Import ZArith Znumtheory List.
Local Open Scope Z_scope.

Lemma prime_nat_Z (n : nat) : natprime n -> Znumtheory.prime (Z.of_nat n).
Proof.
rewrite /natprime => Pn. apply/prime_alt. split.
  by move: (prime_gt1 Pn); lia.
move=> d [d1 dn] [q Eq].
have d0 : (0 <= d)%Z by lia.
have q0 : (0 <= q)%Z by nia.
have: (Z.to_nat d %| n)%N.
  apply/dvdnP. exists (Z.to_nat q). apply: Nat2Z.inj. rewrite Nat2Z.inj_mul !Z2Nat.id //.
have [_ Hd] := primeP Pn. move/Hd => /orP. case=> /eqP E; lia.
Qed.

Lemma modn_Z (a d : nat) : (leq 1 d) -> Z.of_nat (modn a d) = (Z.of_nat a mod Z.of_nat d).
Proof.
move=> d0. apply: (Z.mod_unique_pos _ _ (Z.of_nat (divn a d))).
  by have := ltn_pmod a d0; lia.
by have := divn_eq a d; lia.
Qed.
Lemma dvdn_Z (a d : nat) : (leq 1 d) -> dvdn d a = (Z.of_nat a mod Z.of_nat d =? 0).
Proof. move=> d0. rewrite -modn_Z // /dvdn. by case: eqP => [->|H] //=; case: Z.eqb_spec => //; lia. Qed.
Lemma expn_Z (a e : nat) : Z.of_nat (expn a e) = (Z.of_nat a ^ Z.of_nat e).
Proof. elim: e => [|e IH]; first by []. rewrite expnS Nat2Z.inj_mul IH Nat2Z.inj_succ Z.pow_succ_r //. lia. Qed.

(* g^(2^k) mod N by k modular squarings *)
Fixpoint sqn (k : nat) (g N : Z) : Z :=
  match k with O => g mod N | S k' => let h := sqn k' g N in (h * h) mod N end.

Lemma sqn_spec k g N : 0 < N -> sqn k g N = (g ^ (2 ^ Z.of_nat k)) mod N.
Proof.
move=> N0. elim: k => [|k IH]; first by rewrite /sqn Nat2Z.inj_0 Z.pow_0_r Z.pow_1_r.
rewrite [sqn _ _ _]/= IH -Z.mul_mod; last by lia.
rewrite -Z.pow_add_r; try by apply: Z.pow_nonneg; lia.
congr (_ ^ _ mod _). rewrite Nat2Z.inj_succ Z.pow_succ_r; lia.
Qed.

Lemma mod_minus1 x N : 1 < N -> x mod N = N - 1 -> (x + 1) mod N = 0.
Proof. move=> N1 H. have E := Z.div_mod x N ltac:(lia). rewrite H in E.
  have -> : x + 1 = (x / N + 1) * N by lia. by rewrite Z.mod_mul; lia. Qed.

Lemma In_iota m n t : leq m t -> leq t.+1 (addn m n) -> List.In t (seq.iota m n).
Proof. elim: n m => [|n IH] m mt tn /=; first by lia.
  case: (eqVneq m t) => [->|ne]; [by left | right]. apply: IH; lia. Qed.

Definition cand (k : nat) (t : nat) : Z := 1 + 2 ^ (Z.of_nat k + 1) * Z.of_nat t.
Definition check_prime (N g : Z) (k T : nat) : bool :=
  [&& 1 <? N, Z.odd N, sqn k g N =? N - 1,
      forallb (fun t => negb (N mod cand k t =? 0)) (seq.iota 1 T)
    & N <? cand k T.+1 * cand k T.+1].

Lemma cand_nat k t : cand k t = Z.of_nat (addn 1 (muln (expn 2 k.+1) t)).
Proof. rewrite /cand Nat2Z.inj_add Nat2Z.inj_mul expn_Z Nat2Z.inj_succ. congr (_ + _ ^ _ * _). lia. Qed.

Theorem check_prime_sound N g k T : 0 <= g -> check_prime N g k T = true -> Znumtheory.prime N.
Proof.
move=> g0 /and5P [/Z.ltb_lt N1 Nodd /Z.eqb_eq Hs Hall /Z.ltb_lt Hbig].
have N0 : 0 < N by lia.
have [n En] : exists n, Z.of_nat n = N by exists (Z.to_nat N); rewrite Z2Nat.id; lia.
have [g' Eg] : exists g', Z.of_nat g' = g by exists (Z.to_nat g); rewrite Z2Nat.id; lia.
rewrite -En. apply: prime_nat_Z. rewrite /natprime.
have n1 : leq 2 n by lia.
apply: (@special_form_prime n g' k) => //.
- (* odd *)
  have H2 : N mod 2 = 1 by rewrite Zmod_odd Nodd.
  have: Z.of_nat (modn n 2) = 1 by rewrite modn_Z // En.
  rewrite modn2. by case: (odd n).
- (* g^(2^k) + 1 = 0 mod n *)
  apply/eqP. rewrite mod0n. apply/eqP. apply: Nat2Z.inj. rewrite modn_Z; last by lia.
  rewrite Nat2Z.inj_succ expn_Z expn_Z En Eg -Z.add_1_r.
  rewrite sqn_spec // in Hs. have -> : Z.of_nat 2 ^ Z.of_nat k = 2 ^ Z.of_nat k by [].
  by rewrite mod_minus1.
- (* no small special-form divisor *)
  move=> t t0 Hsq. rewrite dvdn_Z; last by [].
  rewrite -cand_nat En.
  have P2 : 0 < 2 ^ (Z.of_nat k + 1) by apply: Z.pow_pos_nonneg; lia.
  have Hsq' : cand k t * cand k t <= N.
    rewrite cand_nat -En. move: Hsq. set x := addn 1 _. move=> Hsq. lia.
  have tT : leq t T.
    rewrite leqNgt; apply/negP => Tt.
    have C1 : cand k T.+1 <= cand k t.
      rewrite /cand. have : Z.of_nat T.+1 <= Z.of_nat t by lia. nia.
    have C0 : 0 < cand k T.+1 by rewrite /cand; nia.
    nia.
  have/forallb_forall/(_ t) := Hall. apply. apply: In_iota; lia.
Qed.
Print Assumptions check_prime_sound.

(* a real row of the 64-bit table: p = 4611686018326724609, root 2262382610096409597 of order 2^21 *)
Example row0_prime : Znumtheory.prime 4611686018326724609.
Proof. apply (check_prime_sound (g := 2262382610096409597) (k := 20) (T := 1023)); [lia | vm_compute; reflexivity]. Qed.
Example row32_prime : Znumtheory.prime 1073479681.
Proof. apply (check_prime_sound (g := 31849551) (k := 15) (T := 0)); [lia | vm_compute; reflexivity]. Qed.
