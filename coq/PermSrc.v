(* The bit-reversal permutation of include/nfl/permut.hpp translated from the source (gen/GenPerm.v) is the model's BR (Inverse.v):
   the unrolled template recursion for every degree 2..1024, the table + copy loop for every larger degree (16- and 32-bit index types). *)
From Coq Require Import ZArith List Lia Bool Arith.
From NTT Require Import Algebra Rev Inverse Permut CxxSem MemSem LoopSpec LoopRun PermSem.
From NTT Require PrepSpec GaussSetSpec.
From NTT.gen Require Import GenPerm.
Import ListNotations.
Local Open Scope Z_scope.

(* ---- the unrolled recursion: the extracted assignments are (rev k I, I) for I in the order of Permut.rset ---- *)
Definition model_leaves (k : nat) : list (Z * Z) := map (fun I => (Z.of_nat (pc k I), Z.of_nat I)) (rset k 0).
Fixpoint pairs_eqb (a b : list (Z * Z)) : bool :=
  match a, b with [], [] => true | (a1, a2) :: ta, (b1, b2) :: tb => (a1 =? b1) && (a2 =? b2) && pairs_eqb ta tb | _, _ => false end.
Lemma pairs_eqb_eq : forall a b, pairs_eqb a b = true -> a = b.
Proof.
  induction a as [|[a1 a2] ta IH]; intros [|[b1 b2] tb] H; cbn [pairs_eqb] in H; try discriminate; [reflexivity|].
  apply andb_true_iff in H. destruct H as [H H3]. apply andb_true_iff in H. destruct H as [H1 H2]. apply Z.eqb_eq in H1, H2. subst. f_equal. apply IH. exact H3.
Qed.
Definition leaves_check (k : nat) : bool := match leaves_of gen_permut_leaves (2 ^ Z.of_nat k) with Some L => pairs_eqb L (model_leaves k) | None => false end.
Lemma leaves_all : forallb leaves_check (seq 1 10) = true.
Proof. vm_compute. reflexivity. Qed.
Lemma leaves_ok k : (1 <= k <= 10)%nat -> leaves_of gen_permut_leaves (2 ^ Z.of_nat k) = Some (model_leaves k).
Proof.
  intros Hk. pose proof leaves_all as F. rewrite forallb_forall in F. specialize (F k ltac:(apply in_seq; lia)). unfold leaves_check in F.
  destruct (leaves_of gen_permut_leaves (2 ^ Z.of_nat k)) as [L|]; [|discriminate]. f_equal. apply pairs_eqb_eq. exact F.
Qed.

Lemma set_at_upd (l : list Z) : forall i v, set_at l i v = upd i v l.
Proof. induction l as [|a l IH]; intros [|i] v; cbn [set_at upd]; try reflexivity. rewrite IH. reflexivity. Qed.

Lemma rset_lt s I : In I (rset s 0) -> (I < 2 ^ s)%nat.
Proof. intros H. apply (rset_In 0%nat s 0%nat I) in H. lia. Qed.

Section Unrolled.
Variable k0 : nat.
Notation k := (S k0).
Notation n := (2 ^ S k0)%nat.
Variables (x y : list Z).
Hypothesis Hx : (n <= length x)%nat.
Hypothesis Hy : (n <= length y)%nat.

Lemma run_model : forall (L : list nat) (y1 : list Z), (forall I, In I L -> (I < n)%nat) -> (n <= length y1)%nat ->
  run_leaves (map (fun I => (Z.of_nat (pc k I), Z.of_nat I)) L) y1 0 x 0 = Some (scatter k0 x L y1).
Proof.
  unfold run_leaves, scatter. induction L as [|I L IH]; intros y1 HL Hy1; cbn [map fold_left]; [reflexivity|].
  cbn [fst snd bind]. assert (HI : (I < n)%nat) by (apply HL; left; reflexivity).
  replace (0 + Z.of_nat I) with (Z.of_nat I) by lia. replace (0 + Z.of_nat (pc k I)) with (Z.of_nat (pc k I)) by lia.
  rewrite ld_some by lia. cbn [bind]. rewrite Nat2Z.id.
  assert (Hp : (pc k I < n)%nat) by (rewrite pc_is_rev; apply rev_lt).
  rewrite st_some by lia. rewrite Nat2Z.id. rewrite <- set_at_upd.
  apply IH; [intros J HJ; apply HL; right; exact HJ | rewrite set_at_length; exact Hy1].
Qed.

Theorem unrolled_ok : (S k0 <= 10)%nat -> bind (leaves_of gen_permut_leaves (Z.of_nat n)) (fun L => run_leaves L y 0 x 0) = Some (BR k0 x ++ skipn n y).
Proof.
  intros Hk. rewrite pow2_Z. rewrite (leaves_ok k) by lia. cbn [bind]. unfold model_leaves.
  rewrite run_model; [| intros I HI; apply rset_lt; exact HI | exact Hy].
  f_equal. apply scatter_BR_any. exact Hy.
Qed.
End Unrolled.

(* ---- the table of permut_compute and the copy loop (degree > 1024) ---- *)
Definition TabSt := (list Z * Z * Z * Z)%type.
Definition ptab_sh (stpk : Z -> Z -> Z -> (Z -> Z -> Z -> option TabSt) -> option TabSt) (fuel : nat) (degree : Z) (data_ : list Z) : option (list Z) :=
  (bind (for_up 0 degree 1 (fun i_1 data_ => (let ii_2 := i_1 in (let r_3 := 0 in (let h_4 := 1 in (bind (while_fuel fuel (fun '(data_, h_5, ii_6, r_7) => (h_5 <? degree)) (fun '(data_, h_5, ii_6, r_7) => (stpk h_5 ii_6 r_7 (fun h' ii' r' => Some (data_, h', ii', r')))) (data_, h_4, ii_2, r_3)) (fun '(data_, h_11, ii_12, r_13) => (bind (st data_ (0 + i_1) r_13) (fun data_ => Some data_)))))))) data_) (fun data_ => Some data_)).
Definition stpk16 (h ii r : Z) (K : Z -> Z -> Z -> option TabSt) : option TabSt :=
  (bind (chk 32 (r * 2 ^ 1)) (fun s_8 => (bind (chk 32 (Z.land ii 1)) (fun s_9 => (bind (chk 32 (Z.lor s_8 s_9)) (fun s_10 => (let r_11 := (uw 16 s_10) in (bind (chk 32 (ii / 2 ^ 1)) (fun s_12 => (let ii_13 := (uw 16 s_12) in (bind (chk 32 (h * 2 ^ 1)) (fun s_14 => (let h_15 := (uw 16 s_14) in K h_15 ii_13 r_11))))))))))))).
Definition stpk32 (h ii r : Z) (K : Z -> Z -> Z -> option TabSt) : option TabSt :=
  (let r_8 := (Z.lor (uw 32 (r * 2 ^ 1)) (Z.land ii 1)) in (let ii_9 := (ii / 2 ^ 1) in (let h_10 := (uw 32 (h * 2 ^ 1)) in K h_10 ii_9 r_8))).
Lemma ptab_i16_shape : gen_permut_table_i16 = ptab_sh stpk16. Proof. reflexivity. Qed.
Lemma ptab_i32_shape : gen_permut_table_i32 = ptab_sh stpk32. Proof. reflexivity. Qed.

Lemma lor_even_bit r b : 0 <= r -> 0 <= b <= 1 -> Z.lor (r * 2) b = r * 2 + b.
Proof.
  intros Hr Hb. assert (E : Z.land (r * 2) b = 0).
  { assert (b = 0 \/ b = 1) as [-> | ->] by lia; [apply Z.land_0_r|]. change 1 with (Z.ones 1). rewrite Z.land_ones by lia. change (2 ^ 1) with 2. apply Z.mod_mul. lia. }
  rewrite <- Z.lxor_lor by exact E. symmetry. apply Z.add_nocarry_lxor. exact E.
Qed.
Lemma land1_mod ii : Z.land ii 1 = ii mod 2.
Proof. change 1 with (Z.ones 1). rewrite Z.land_ones by lia. reflexivity. Qed.
Definition step_ok (w : Z) (stpk : Z -> Z -> Z -> (Z -> Z -> Z -> option TabSt) -> option TabSt) : Prop :=
  forall h ii r K, 0 < h -> 2 * h < 2 ^ w -> 0 <= ii < 2 ^ w -> 0 <= r -> 2 * r + 1 < 2 ^ w -> stpk h ii r K = K (2 * h) (ii / 2) (2 * r + ii mod 2).
Lemma stpk32_ok : step_ok 32 stpk32.
Proof.
  intros h ii r K Hh Hh2 Hii Hr Hr2. unfold stpk32. cbv zeta. change (2 ^ 1) with 2. rewrite land1_mod. rewrite !uw_small by lia.
  pose proof (Z.mod_pos_bound ii 2 ltac:(lia)). rewrite lor_even_bit by lia. f_equal; lia.
Qed.
Lemma stpk16_ok : step_ok 16 stpk16.
Proof.
  intros h ii r K Hh Hh2 Hii Hr Hr2. unfold stpk16. change (2 ^ 1) with 2. change (2 ^ 16) with 65536 in *. rewrite land1_mod.
  pose proof (Z.mod_pos_bound ii 2 ltac:(lia)) as Hm. assert (0 <= ii / 2 < 65536) by (split; [apply Z.div_pos; lia | apply Z.div_lt_upper_bound; lia]).
  rewrite chk_ok by (change (2 ^ (32 - 1)) with 2147483648; lia). cbn [bind].
  rewrite chk_ok by (change (2 ^ (32 - 1)) with 2147483648; lia). cbn [bind].
  rewrite lor_even_bit by lia. rewrite chk_ok by (change (2 ^ (32 - 1)) with 2147483648; lia). cbn [bind]. cbv zeta.
  rewrite chk_ok by (change (2 ^ (32 - 1)) with 2147483648; lia). cbn [bind].
  rewrite chk_ok by (change (2 ^ (32 - 1)) with 2147483648; lia). cbn [bind].
  rewrite !uw_small by (change (2 ^ 16) with 65536; lia). f_equal; lia.
Qed.

(* forward iteration of the shift loop *)
Fixpoint fw (t i : nat) : nat * nat := match t with O => (0, i)%nat | S t' => let '(r, ii) := fw t' i in (2 * r + ii mod 2, ii / 2)%nat end.
Lemma fw_pc : forall t s i, pc_loop s (fst (fw t i)) (snd (fw t i)) = pc_loop (s + t) 0 i.
Proof.
  induction t as [|t IH]; intros s i; [rewrite Nat.add_0_r; reflexivity|]. cbn [fw]. destruct (fw t i) as [r ii] eqn:E. cbn [fst snd].
  change (pc_loop s (2 * r + ii mod 2) (ii / 2)) with (pc_loop (S s) r ii). specialize (IH (S s) i). rewrite E in IH. cbn [fst snd] in IH. rewrite IH. f_equal. lia.
Qed.
Lemma fw_bounds : forall t i, (fst (fw t i) < 2 ^ t)%nat /\ snd (fw t i) = (i / 2 ^ t)%nat.
Proof.
  induction t as [|t IH]; intros i; [cbn; split; [lia | symmetry; apply Nat.div_1_r]|]. cbn [fw]. destruct (IH i) as [B D]. destruct (fw t i) as [r ii]. cbn [fst snd] in *.
  rewrite Nat.pow_succ_r'. split; [pose proof (Nat.mod_upper_bound ii 2); lia|]. subst ii. rewrite Nat.div_div by (try lia; apply Nat.pow_nonzero; lia). f_equal. lia.
Qed.

Section Table.
Variable w : Z.
Variable stpk : Z -> Z -> Z -> (Z -> Z -> Z -> option TabSt) -> option TabSt.
Hypothesis Hstp : step_ok w stpk.
Variable k : nat.
Notation n := (2 ^ k)%nat.
Hypothesis Hkw : Z.of_nat k < w.
Hypothesis Hw : w <= 62.
Hypothesis Hk1 : (1 <= k)%nat.
Variable fuel : nat.
Hypothesis Hfuel : (k < fuel)%nat.

Lemma shift_loop (D : list Z) i : (i < n)%nat ->
  while_fuel fuel (fun '(data_, h_5, ii_6, r_7) => (h_5 <? Z.of_nat n)) (fun '(data_, h_5, ii_6, r_7) => stpk h_5 ii_6 r_7 (fun h' ii' r' => Some (data_, h', ii', r'))) (D, 1, Z.of_nat i, 0)
  = Some (D, Z.of_nat n, Z.of_nat (i / n), Z.of_nat (pc k i)).
Proof.
  intros Hi. set (Q := fun t : nat => (D, Z.of_nat (2 ^ t), Z.of_nat (snd (fw t i)), Z.of_nat (fst (fw t i)))).
  assert (E0 : (D, 1, Z.of_nat i, 0) = Q 0%nat) by reflexivity.
  assert (Ek : (D, Z.of_nat n, Z.of_nat (i / n), Z.of_nat (pc k i)) = Q k).
  { unfold Q. destruct (fw_bounds k i) as [_ Ds]. rewrite Ds. pose proof (fw_pc k 0 i) as P. cbn [pc_loop Nat.add] in P. unfold pc. rewrite <- P. reflexivity. }
  rewrite E0, Ek. apply (PrepSpec.while_steps Q k); [| | exact Hfuel].
  - intros t Ht. unfold Q. cbv beta iota. destruct (fw_bounds t i) as [Bt Dt]. destruct (fw t i) as [r ii] eqn:Ef. cbn [fst snd] in *.
    assert (P2 : (2 ^ t < 2 ^ k)%nat) by (apply Nat.pow_lt_mono_r; lia).
    assert (Pw : Z.of_nat (2 ^ k) <= 2 ^ (w - 1)) by (rewrite pow2_Z; apply Z.pow_le_mono_r; lia).
    assert (E2w : 2 ^ w = 2 * 2 ^ (w - 1)) by (replace w with (1 + (w - 1)) at 1 by lia; rewrite Z.pow_add_r by lia; reflexivity).
    assert (Hii : (ii < 2 ^ k)%nat) by (subst ii; apply Nat.div_lt_upper_bound; [apply Nat.pow_nonzero; lia | pose proof (Nat.pow_nonzero 2 t ltac:(lia)); nia]).
    split; [apply Z.ltb_lt; lia|].
    rewrite Hstp by (try lia; pose proof (Nat.pow_nonzero 2 t ltac:(lia)); lia).
    cbn [fw]. rewrite Ef. cbn [fst snd]. rewrite Nat.pow_succ_r'. f_equal. f_equal; [f_equal; [f_equal; lia|]|].
    + rewrite Nat2Z.inj_div. reflexivity.
    + rewrite Nat2Z.inj_add, Nat2Z.inj_mul, Nat2Z.inj_mod. reflexivity.
  - unfold Q. cbv beta iota. apply Z.ltb_ge. lia.
Qed.

Theorem table_ok data0 : length data0 = n -> ptab_sh stpk fuel (Z.of_nat n) data0 = Some (map (fun i => Z.of_nat (pc k i)) (seq 0 n)).
Proof.
  intros Hd. unfold ptab_sh. set (F := fun i : nat => Z.of_nat (pc k i)).
  assert (Pw : Z.of_nat n <= 2 ^ 61) by (rewrite pow2_Z; apply Z.pow_le_mono_r; lia).
  assert (E0 : data0 = GaussSetSpec.filled F data0 0) by reflexivity. rewrite E0 at 1.
  rewrite (for_up_steps (fun j : nat => GaussSetSpec.filled F data0 j) n); try lia.
  - cbn [bind]. f_equal. rewrite <- Hd. rewrite GaussSetSpec.filled_all. rewrite Hd. reflexivity.
  - intros i Hi. replace (0 + 1 * Z.of_nat i) with (Z.of_nat i) by lia. cbv zeta beta.
    rewrite (shift_loop (GaussSetSpec.filled F data0 i) i Hi). cbn [bind]. replace (0 + Z.of_nat i) with (Z.of_nat i) by lia.
    rewrite st_some by (rewrite GaussSetSpec.filled_length by lia; lia). cbn [bind]. rewrite Nat2Z.id. change (Z.of_nat (pc k i)) with (F i). rewrite GaussSetSpec.filled_step by lia. reflexivity.
Qed.
End Table.

(* the copy loop y[i] = x[P(i)] on the table just built *)
Theorem copy_ok k0 (x y : list Z) : let k := S k0 in let n := (2 ^ k)%nat in (n <= length x)%nat -> (n <= length y)%nat -> Z.of_nat n < 2 ^ 62 ->
  gen_permut_copy (Z.of_nat n) (map (fun i => Z.of_nat (pc k i)) (seq 0 n)) y 0 x 0 = Some (BR k0 x ++ skipn n y).
Proof.
  intros k n Hx Hy Hn. unfold gen_permut_copy. set (F := fun i : nat => nth (pc k i) x 0).
  assert (E0 : y = GaussSetSpec.filled F y 0) by reflexivity. rewrite E0 at 1.
  rewrite (for_up_steps (fun j : nat => GaussSetSpec.filled F y j) n); try lia.
  - cbn [bind]. f_equal. unfold GaussSetSpec.filled. f_equal. rewrite <- (perm_table_BR k0 x). reflexivity.
  - intros i Hi. replace (0 + 1 * Z.of_nat i) with (Z.of_nat i) by lia. cbv beta.
    rewrite ld_some by (rewrite tabz_length; lia). cbn [bind]. rewrite Nat2Z.id. rewrite tabz_nth by exact Hi.
    assert (Hp : (pc k i < n)%nat) by (rewrite pc_is_rev; apply rev_lt).
    replace (0 + Z.of_nat (pc k i)) with (Z.of_nat (pc k i)) by lia. rewrite ld_some by lia. cbn [bind]. rewrite Nat2Z.id.
    replace (0 + Z.of_nat i) with (Z.of_nat i) by lia. rewrite st_some by (rewrite GaussSetSpec.filled_length by lia; lia). cbn [bind]. rewrite Nat2Z.id.
    fold (F i). rewrite GaussSetSpec.filled_step by lia. reflexivity.
Qed.

(* ---- permut<degree>::compute for every degree 2 .. 2^30 ---- *)
Theorem permut_ok k0 fuel (x y : list Z) : let n := (2 ^ S k0)%nat in (S k0 <= 30)%nat -> (S k0 < fuel)%nat -> (n <= length x)%nat -> (n <= length y)%nat ->
  gen_permut fuel (Z.of_nat n) y 0 x 0 = Some (BR k0 x ++ skipn n y).
Proof.
  intros n Hk Hf Hx Hy. unfold gen_permut. assert (En : Z.of_nat n = 2 ^ Z.of_nat (S k0)) by (apply pow2_Z).
  destruct (Z.leb_spec (Z.of_nat n) 1024) as [Hs|Hb].
  - apply unrolled_ok; try assumption. assert (Z.of_nat (S k0) <= 10); [|lia].
    destruct (Z.le_gt_cases (Z.of_nat (S k0)) 10) as [H|H]; [exact H|]. assert (2 ^ 11 <= 2 ^ Z.of_nat (S k0)) by (apply Z.pow_le_mono_r; lia). change (2 ^ 11) with 2048 in *. lia.
  - assert (Hn62 : Z.of_nat n < 2 ^ 62) by (rewrite En; apply Z.pow_lt_mono_r; lia).
    assert (Tab : (if Z.of_nat n <=? 65535 then gen_permut_table_i16 else gen_permut_table_i32) fuel (Z.of_nat n) (repeat 0 (Z.to_nat (Z.of_nat n))) = Some (map (fun i => Z.of_nat (pc (S k0) i)) (seq 0 n))).
    { rewrite Nat2Z.id. destruct (Z.leb_spec (Z.of_nat n) 65535) as [H16|H32].
      - rewrite ptab_i16_shape. apply (table_ok 16 stpk16 stpk16_ok (S k0)); try lia; [|apply repeat_length].
        destruct (Z.lt_ge_cases (Z.of_nat (S k0)) 16) as [H|H]; [exact H|]. assert (2 ^ 16 <= 2 ^ Z.of_nat (S k0)) by (apply Z.pow_le_mono_r; lia). change (2 ^ 16) with 65536 in *. lia.
      - rewrite ptab_i32_shape. apply (table_ok 32 stpk32 stpk32_ok (S k0)); try lia. apply repeat_length. }
    rewrite Tab. cbn [bind]. apply copy_ok; assumption.
Qed.
