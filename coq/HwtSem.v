(* The control skeleton of poly::set(hwt_dist const&) (include/nfl/core.hpp), over the memory operations of MemSem.v.  tools/cxxhwt2coq.py matches the
   statements of the source against this skeleton and supplies every integer expression (translated with C++ integer semantics) as an argument:

     std::vector<size_t> hitted(HSZ); std::iota(hitted.begin(), hitted.end(), IOTA0);
     std::vector<size_t> rnd(hitted.size()); auto rnd_end = rnd.end(); auto rnd_ptr = rnd_end;
     for (size_t k = K0; k < degree; ++k) {
       size_t pos = 0; size_t reject_sample = REJ(k);
       for (;;) { if (rnd_ptr == rnd_end) { fastrandombytes(rnd.data(), NB1(rnd.size())); rnd_ptr = rnd.begin(); }
                  pos = deref rnd_ptr++; if (ACC(pos, reject_sample, k)) { pos = RED(pos, k); break; } }
       if (HIT(pos)) hitted[pos] = k; }
     std::sort(hitted.begin(), hitted.end()); memset(_data, 0, ZB); fastrandombytes(rnd.data(), NB2(rnd.size()));
     for (size_t cm = 0, offset = 0; cm < NbModuli; ++cm, offset = OFFINC(offset)) {
       const T pm = PM(cm); rnd_ptr = rnd.begin(); for (size_t pos : hitted) _data[IDX(pos, offset)] = VAL(deref rnd_ptr++, pm); }
     memset(hitted.data(), 0, ...);                                       (not observable)

   Vectors are lists, an iterator is an index into its vector (end = the length), operator[] / * outside the vector has no result (ld / st),
   fastrandombytes delivers the next bytes of the tape as little-endian words (MemSem.rand_fill), std::sort is SamplersExec.sort (the sorted
   permutation; any correct sort gives the same list), the endless rejection loop runs on fuel (no result when it runs out). *)
From Coq Require Import ZArith List Lia Bool.
From NTT Require Import CxxSem MemSem SamplersExec.
Import ListNotations.
Local Open Scope Z_scope.

Section Prog.
Variables (fuel : nat) (esz degree nmoduli : Z) (_data tape : list Z).
Variables (hsz iota0 k0 : Z) (rej : Z -> Z) (acc : Z -> Z -> Z -> bool) (red : Z -> Z -> Z) (hit : Z -> bool) (nb1 nb2 : Z -> Z) (zb : Z)
          (pmf : Z -> Z) (idx : Z -> Z -> Z) (val : Z -> Z -> Z) (offinc : Z -> Z).

(* the rejection loop: (word accepted and reduced, rnd, rnd_ptr, tape) *)
Fixpoint hwt_draw (f : nat) (k : Z) (rnd : list Z) (ptr : Z) (tp : list Z) : option (Z * list Z * Z * list Z) :=
  match f with
  | O => None
  | S f' =>
      let '(rnd1, ptr1, tp1) := if ptr =? Z.of_nat (length rnd) then (let '(r, t) := MemSem.rand_fill 8 rnd 0 (nb1 (Z.of_nat (length rnd))) tp in (r, 0, t)) else (rnd, ptr, tp) in
      bind (ld rnd1 ptr1) (fun w =>
        let ptr2 := ptr1 + 1 in
        if acc w (rej k) k then Some (red w k, rnd1, ptr2, tp1) else hwt_draw f' k rnd1 ptr2 tp1)
  end.

(* the range-for over the positions *)
Fixpoint hwt_store (hitted : list Z) (rnd : list Z) (ptr : Z) (offset pm : Z) (data : list Z) : option (list Z) :=
  match hitted with
  | [] => Some data
  | pos :: r => bind (ld rnd ptr) (fun w => bind (st data (idx pos offset) (val w pm)) (fun data' => hwt_store r rnd (ptr + 1) offset pm data'))
  end.

Definition hwt_prog : option (list Z * list Z) :=
  let hitted := map (fun i => iota0 + Z.of_nat i) (seq 0 (Z.to_nat hsz)) in
  let rnd := repeat 0 (length hitted) in
  let ptr := Z.of_nat (length rnd) in
  bind (for_up k0 degree 1 (fun k '(hitted, rnd, ptr, tp) =>
          bind (hwt_draw fuel k rnd ptr tp) (fun '(pos, rnd, ptr, tp) =>
            if hit pos then bind (st hitted pos k) (fun hitted' => Some (hitted', rnd, ptr, tp)) else Some (hitted, rnd, ptr, tp)))
        (hitted, rnd, ptr, tape))
    (fun '(hitted, rnd, _, tp) =>
      let hitted := SamplersExec.sort hitted in
      let data := fill_all _data (zb / esz) 0 in
      let '(rnd, tp) := MemSem.rand_fill 8 rnd 0 (nb2 (Z.of_nat (length rnd))) tp in
      bind (for_up 0 nmoduli 1 (fun cm '(offset, data) =>
              bind (hwt_store hitted rnd 0 offset (pmf cm) data) (fun data' => Some (offinc offset, data')))
            (0, data))
        (fun '(_, data) => Some (data, tp))).
End Prog.
