(* The samplers translated from the source are the executable models of SamplersExec.v (C09/C12). *)
From Coq Require Import ZArith List Lia Bool Arith.
From NTT Require Import Layer Small Samplers SamplersExec CxxSem MemSem LoopSpec SamplerSpec.
From NTT.gen Require Import Gen GenVec GenLoop.
Import ListNotations.
Local Open Scope Z_scope.

Lemma Forall_weaken (A B : Z -> Prop) l : (forall a, A a -> B a) -> Forall A l -> Forall B l.
Proof. intros H F. eapply Forall_impl; [exact H | exact F]. Qed.
Lemma nth_firstn_in (R : Z -> Prop) m P c : Forall R (firstn m P) -> (m <= length P)%nat -> (c < m)%nat -> R (nth c P 0).
Proof.
  intros F Hl Hc. assert (E : nth c P 0 = nth c (firstn m P) 0) by (rewrite nth_firstn; replace (c <? m)%nat with true by (symmetry; apply Nat.ltb_lt; exact Hc); reflexivity).
  rewrite E. apply (Forall_nth_R R (firstn m P) c F). rewrite firstn_length. lia.
Qed.

(* ---- ZO_dist ---- *)
Lemma zo_u32_shape : gen_set_zo_u32 = zo_sh (fun v => uw 32 (v - 1)). Proof. reflexivity. Qed.
Lemma zo_u16_shape : gen_set_zo_u16 = zo_sh (fun v => uw 16 (uw 32 (v - 1))). Proof. reflexivity. Qed.
Lemma zo_u64_shape : gen_set_zo_u64 = zo_sh (fun v => uw 64 (v - 1)). Proof. reflexivity. Qed.

Section ZOAll.
Variables (n m : nat) (P : list Z) (rho : Z) (tape data0 : list Z).
Hypothesis HPl : (m <= length P)%nat.
Hypothesis Htl : (n <= length tape)%nat.
Hypothesis Htape : Forall (fun b => 0 <= b < 256) tape.
Hypothesis Hd : length data0 = (m * n)%nat.
Hypothesis Hsmall : Z.of_nat (m * n) < 2 ^ 62.
Hypothesis Hn : (0 < n)%nat.
Let out := Some (firstn n tape, set_zo n (firstn m P) rho tape, Z.of_nat (m * n)).

Theorem source_set_zo_u16 : Forall (fun p => 1 <= p < 2 ^ 16) (firstn m P) -> gen_set_zo_u16 (Z.of_nat n) data0 (Z.of_nat m) P rho tape = out.
Proof.
  intros HP. rewrite zo_u16_shape. apply zo_ok; try assumption.
  - intros c Hc. pose proof (nth_firstn_in _ m P c HP HPl Hc) as R. cbv beta in R. change (2 ^ 16) with 65536 in R.
    rewrite (uw_small 32) by (change (2 ^ 32) with 4294967296; lia). apply uw_small. change (2 ^ 16) with 65536. lia.
  - apply (Forall_weaken (fun p => 1 <= p < 2 ^ 16)); [intros a Ha; lia | exact HP].
Qed.
Theorem source_set_zo_u32 : Forall (fun p => 1 <= p < 2 ^ 32) (firstn m P) -> gen_set_zo_u32 (Z.of_nat n) data0 (Z.of_nat m) P rho tape = out.
Proof.
  intros HP. rewrite zo_u32_shape. apply zo_ok; try assumption.
  - intros c Hc. pose proof (nth_firstn_in _ m P c HP HPl Hc) as R. cbv beta in R. apply uw_small. lia.
  - apply (Forall_weaken (fun p => 1 <= p < 2 ^ 32)); [intros a Ha; lia | exact HP].
Qed.
Theorem source_set_zo_u64 : Forall (fun p => 1 <= p < 2 ^ 64) (firstn m P) -> gen_set_zo_u64 (Z.of_nat n) data0 (Z.of_nat m) P rho tape = out.
Proof.
  intros HP. rewrite zo_u64_shape. apply zo_ok; try assumption.
  - intros c Hc. pose proof (nth_firstn_in _ m P c HP HPl Hc) as R. cbv beta in R. apply uw_small. lia.
  - apply (Forall_weaken (fun p => 1 <= p < 2 ^ 64)); [intros a Ha; lia | exact HP].
Qed.
End ZOAll.

(* ---- uniform ---- *)
Definition udec (b : Z) (mask p w : Z) (d : list Z) (K : list Z * Z -> option (list Z)) : option (list Z) :=
  let tmp := Z.land w mask in bind (if tmp >=? p then (let tmp' := uw b (tmp - p) in Some (d, tmp')) else Some (d, tmp)) K.
Definition udec16 (mask p w : Z) (d : list Z) (K : list Z * Z -> option (list Z)) : option (list Z) :=
  bind (chk 32 (Z.land w mask)) (fun s => let tmp := uw 16 s in bind (if tmp >=? p then bind (chk 32 (tmp - p)) (fun s8 => let tmp9 := uw 16 s8 in Some (d, tmp9)) else Some (d, tmp)) K).
Lemma uni_u32_shape : gen_set_uniform_u32 = uni_sh 4 (fun sh => uw 32 (uw 64 (sh - 1))) (udec 32). Proof. reflexivity. Qed.
Lemma uni_u64_shape : gen_set_uniform_u64 = uni_sh 8 (fun sh => uw 64 (sh - 1)) (udec 64). Proof. reflexivity. Qed.
Lemma uni_u16_shape : gen_set_uniform_u16 = uni_sh 2 (fun sh => uw 16 (uw 64 (sh - 1))) udec16. Proof. reflexivity. Qed.

Lemma land_mask_mod w b : 0 <= b -> Z.land w (2 ^ b - 1) = w mod 2 ^ b.
Proof. intros Hb. rewrite <- Z.land_ones by exact Hb. f_equal. rewrite Z.ones_equiv. lia. Qed.
Lemma pow_le b c : 0 <= b <= c -> 2 ^ b <= 2 ^ c. Proof. intros H. apply Z.pow_le_mono_r; lia. Qed.

Lemma udec_ok bits b p w d K : 0 < b <= bits -> 1 <= p < 2 ^ b -> udec bits (2 ^ b - 1) p w d K = K (d, uni_decode b p w).
Proof.
  intros Hb Hp. unfold udec, uni_decode. cbv zeta. rewrite land_mask_mod by lia.
  pose proof (Z.mod_pos_bound w (2 ^ b) ltac:(lia)) as R. pose proof (pow_le b bits ltac:(lia)).
  destruct (Z.geb_spec (w mod 2 ^ b) p); cbn [bind]; [rewrite uw_small by lia|]; reflexivity.
Qed.
Lemma udec16_ok b p w d K : 0 < b <= 16 -> 1 <= p < 2 ^ b -> udec16 (2 ^ b - 1) p w d K = K (d, uni_decode b p w).
Proof.
  intros Hb Hp. unfold udec16, uni_decode. rewrite land_mask_mod by lia.
  pose proof (Z.mod_pos_bound w (2 ^ b) ltac:(lia)) as R. pose proof (pow_le b 16 ltac:(lia)) as Hle. change (2 ^ 16) with 65536 in Hle.
  rewrite chk_ok by (change (2 ^ (32 - 1)) with 2147483648; lia). cbn [bind]. cbv zeta. rewrite (uw_small 16) by (change (2 ^ 16) with 65536; lia).
  destruct (Z.geb_spec (w mod 2 ^ b) p); cbn [bind]; [|reflexivity].
  rewrite chk_ok by (change (2 ^ (32 - 1)) with 2147483648; lia). cbn [bind]. cbv zeta. rewrite uw_small by (change (2 ^ 16) with 65536; lia). reflexivity.
Qed.
Lemma mask_ok bits b : 0 < b <= bits -> b < 64 -> bits <= 64 -> uw bits (uw 64 (uw 64 (1 * 2 ^ b) - 1)) = 2 ^ b - 1.
Proof.
  intros Hb H64 Hbits. assert (0 < 2 ^ b) by (apply Z.pow_pos_nonneg; lia). assert (2 ^ b < 2 ^ 64) by (apply Z.pow_lt_mono_r; lia). pose proof (pow_le b bits ltac:(lia)).
  rewrite Z.mul_1_l. rewrite (uw_small 64 (2 ^ b)) by lia. rewrite (uw_small 64) by lia. apply uw_small. lia.
Qed.

(* the rows the translated loop writes are the hand model's *)
Lemma urows_set_uniform bits wb n m P tape : Z.to_nat (bits / 8) = wb -> (m <= length P)%nat ->
  urows wb n m P tape m = set_uniform bits n (firstn m P) tape.
Proof.
  intros Hwb Hl. unfold set_uniform. cbv zeta. rewrite Hwb, firstn_length, Nat.min_l by exact Hl. rewrite <- words_of_same. replace (n * m)%nat with (m * n)%nat by lia.
  assert (G : forall c, (c <= m)%nat -> urows wb n m P tape c =
     concat (map (fun cm => map (fun i => uni_decode (mask_bits (nth cm (firstn m P) 1)) (nth cm (firstn m P) 1) (nth (cm * n + i) (MemSem.words_of wb (m * n) tape) 0)) (seq 0 n)) (seq 0 c))).
  { induction c as [|c IH]; intros Hc; [reflexivity|]. cbn [urows]. rewrite IH by lia. rewrite seq_S, map_app, concat_app. cbn [map concat Nat.add]. rewrite app_nil_r. f_equal.
    unfold urow. assert (E : nth c (firstn m P) 1 = nth c P 0).
    { rewrite (nth_indep (firstn m P) 1 0) by (rewrite firstn_length; lia). rewrite nth_firstn. replace (c <? m)%nat with true by (symmetry; apply Nat.ltb_lt; lia). reflexivity. }
    rewrite E. reflexivity. }
  apply G. lia.
Qed.

Section UniAll.
Variables (n m : nat) (P tape data0 : list Z).
Hypothesis HPl : (m <= length P)%nat.
Hypothesis Htape : Forall (fun b => 0 <= b < 256) tape.
Hypothesis Hd : length data0 = (m * n)%nat.
Hypothesis Hsmall : Z.of_nat (m * n) < 2 ^ 61.
Hypothesis Hn : (0 < n)%nat.

Theorem source_set_uniform_u32 : Forall (fun p => 1 <= p < 2 ^ 32) (firstn m P) -> (m * n * 4 <= length tape)%nat ->
  gen_set_uniform_u32 (Z.of_nat n) data0 (Z.of_nat m) P tape = Some (set_uniform 32 n (firstn m P) tape).
Proof.
  intros HP Htl. rewrite uni_u32_shape. rewrite <- (urows_set_uniform 32 4 n m P tape) by (reflexivity || exact HPl).
  apply (uni_ok 32 4 ltac:(reflexivity) ltac:(lia) ltac:(lia)); try assumption.
  - intros b Hb H64. apply (mask_ok 32); lia.
  - intros b p w d K Hb Hp Hw. apply udec_ok; assumption.
  - apply (Forall_weaken (fun p => 1 <= p < 2 ^ 32)); [|exact HP]. intros a Ha. split; [exact Ha|]. change (2 ^ 32) with 4294967296 in Ha. change (2 ^ 63) with 9223372036854775808. lia.
Qed.
Theorem source_set_uniform_u16 : Forall (fun p => 1 <= p < 2 ^ 16) (firstn m P) -> (m * n * 2 <= length tape)%nat ->
  gen_set_uniform_u16 (Z.of_nat n) data0 (Z.of_nat m) P tape = Some (set_uniform 16 n (firstn m P) tape).
Proof.
  intros HP Htl. rewrite uni_u16_shape. rewrite <- (urows_set_uniform 16 2 n m P tape) by (reflexivity || exact HPl).
  apply (uni_ok 16 2 ltac:(reflexivity) ltac:(lia) ltac:(lia)); try assumption.
  - intros b Hb H64. apply (mask_ok 16); lia.
  - intros b p w d K Hb Hp Hw. apply udec16_ok; assumption.
  - apply (Forall_weaken (fun p => 1 <= p < 2 ^ 16)); [|exact HP]. intros a Ha. split; [exact Ha|]. change (2 ^ 16) with 65536 in Ha. change (2 ^ 63) with 9223372036854775808. lia.
Qed.
Theorem source_set_uniform_u64 : Forall (fun p => 1 <= p < 2 ^ 63) (firstn m P) -> (m * n * 8 <= length tape)%nat ->
  gen_set_uniform_u64 (Z.of_nat n) data0 (Z.of_nat m) P tape = Some (set_uniform 64 n (firstn m P) tape).
Proof.
  intros HP Htl. rewrite uni_u64_shape. rewrite <- (urows_set_uniform 64 8 n m P tape) by (reflexivity || exact HPl).
  apply (uni_ok 64 8 ltac:(reflexivity) ltac:(lia) ltac:(lia)); try assumption.
  - intros b Hb H64. rewrite <- (mask_ok 64 b) by lia. rewrite (uw_small 64 (uw 64 (uw 64 (1 * 2 ^ b) - 1))) by (apply uw_range; lia). reflexivity.
  - intros b p w d K Hb Hp Hw. apply udec_ok; assumption.
  - apply (Forall_weaken (fun p => 1 <= p < 2 ^ 63)); [|exact HP]. intros a Ha. split; [|lia]. change (2 ^ 63) with 9223372036854775808 in Ha. change (2 ^ 64) with 18446744073709551616. lia.
Qed.
End UniAll.
