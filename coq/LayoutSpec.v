(* The storage layout of class poly read from the source (gen/GenLayout.v): coefficient i of modulus cm lives at index cm * degree + i of the ONE
   array of degree * nmoduli words -- modulus-major --; the map (cm, i) -> index is a bijection between [0, nmoduli) x [0, degree) and
   [0, degree * nmoduli): every word belongs to exactly one (modulus, coefficient), rows do not overlap, nothing is left over.  (The reader also
   checks that _data is the only data member, that begin()/end() are std::begin/end(_data) and that the cereal hook archives _data alone.)
   This is the layout every row-wise model of the development assumes (concat of rows; SerialSrc; HwtStore; RoundTripSrc). *)
From Coq Require Import ZArith Lia.
From NTT Require Import CxxSem.
From NTT.gen Require Import GenLayout.
Local Open Scope Z_scope.

Definition modulus_major (gen_index : Z -> Z -> Z -> Z) : Prop :=
  forall degree nm, 0 < degree -> 0 <= nm -> degree * nm < 2 ^ 62 ->
  (forall cm i, 0 <= cm < nm -> 0 <= i < degree -> gen_index degree cm i = cm * degree + i /\ 0 <= gen_index degree cm i < degree * nm /\
                gen_index degree cm i / degree = cm /\ gen_index degree cm i mod degree = i) /\
  (forall k, 0 <= k < degree * nm -> exists cm i, 0 <= cm < nm /\ 0 <= i < degree /\ gen_index degree cm i = k) /\
  (forall cm i cm' i', 0 <= cm < nm -> 0 <= i < degree -> 0 <= cm' < nm -> 0 <= i' < degree -> gen_index degree cm i = gen_index degree cm' i' -> cm = cm' /\ i = i').

Lemma index_ok degree nm cm i : 0 < degree -> 0 <= nm -> degree * nm < 2 ^ 62 -> 0 <= cm < nm -> 0 <= i < degree ->
  uw 64 (uw 64 (cm * degree) + i) = cm * degree + i /\ 0 <= cm * degree + i < degree * nm.
Proof.
  intros Hd Hn Hb Hc Hi. assert (0 <= cm * degree) by nia. assert (cm * degree + i < degree * nm) by nia.
  rewrite (uw_small 64 (cm * degree)) by lia. rewrite uw_small by lia. lia.
Qed.
Lemma mm (g : Z -> Z -> Z -> Z) : (forall degree cm i, g degree cm i = uw 64 (uw 64 (cm * degree) + i)) -> modulus_major g.
Proof.
  intros E degree nm Hd Hn Hb. split; [|split].
  - intros cm i Hc Hi. rewrite E. destruct (index_ok degree nm cm i Hd Hn Hb Hc Hi) as [A B]. rewrite A. split; [reflexivity|]. split; [exact B|].
    split; [rewrite Z.div_add_l by lia; rewrite Z.div_small by lia; lia | rewrite Z.add_comm, Z.mod_add by lia; apply Z.mod_small; lia].
  - intros k Hk. exists (k / degree), (k mod degree).
    assert (0 <= k / degree < nm) by (split; [apply Z.div_pos; lia | apply Z.div_lt_upper_bound; lia]).
    assert (0 <= k mod degree < degree) by (apply Z.mod_pos_bound; lia).
    split; [assumption|]. split; [assumption|]. rewrite E. destruct (index_ok degree nm (k / degree) (k mod degree) Hd Hn Hb H H0) as [A _]. rewrite A.
    pose proof (Z.div_mod k degree ltac:(lia)). lia.
  - intros cm i cm' i' Hc Hi Hc' Hi' Eq. rewrite !E in Eq.
    destruct (index_ok degree nm cm i Hd Hn Hb Hc Hi) as [A _]. destruct (index_ok degree nm cm' i' Hd Hn Hb Hc' Hi') as [A' _]. rewrite A, A' in Eq.
    assert (cm = cm') by nia. subst. split; [reflexivity | lia].
Qed.
Theorem source_layout : modulus_major gen_index_u16 /\ modulus_major gen_index_u32 /\ modulus_major gen_index_u64.
Proof. split; [|split]; apply mm; intros; reflexivity. Qed.
Example source_layout_example : gen_index_u32 1024 2 5 = 2053 /\ gen_index_u16 8 0 7 = 7.
Proof. vm_compute. split; reflexivity. Qed.
