(* The loop structure of the transforms, part 1: one layer computed IN PLACE by a sequence of chunk steps.
   A layer is Layer.blocks bf M h x0 (M blocks of 2h elements, butterfly bf i on the pair (i, i+h) of each block).  The code computes it
   in place: block after block, and inside a block L lanes at a time (L = 1: scalar code; L = 4, 8, 16: one vector register), each step
   reading 2L cells and overwriting them.  `part r t` is the array when blocks < r are finished and lanes < t of block r are; a chunk
   step takes part r t to part r (t + L); part r h = part (r+1) 0; part M 0 is the layer.  No division or modulus on indices. *)
From Coq Require Import ZArith List Lia Bool Arith.
From NTT Require Import Layer MemSem.
Import ListNotations.

Lemma nth_ext0 (a b : list Z) : length a = length b -> (forall i, (i < length a)%nat -> nth i a 0%Z = nth i b 0%Z) -> a = b.
Proof. intros L H. apply (nth_ext a b 0%Z 0%Z L). exact H. Qed.
Lemma tabz_length (f : nat -> Z) n : length (map f (seq 0 n)) = n. Proof. now rewrite map_length, seq_length. Qed.
Lemma tabz_nth (f : nat -> Z) n i : (i < n)%nat -> nth i (map f (seq 0 n)) 0%Z = f i.
Proof. intros H. rewrite (nth_indep _ 0%Z (f 0%nat)) by (rewrite tabz_length; exact H). rewrite map_nth, seq_nth by exact H. reflexivity. Qed.
Lemma firstn_skipn_nth (m : list Z) a n j : (j < n)%nat -> (a + n <= length m)%nat -> nth j (firstn n (skipn a m)) 0%Z = nth (a + j) m 0%Z.
Proof. intros Hj Hl. rewrite nth_firstn. replace (j <? n)%nat with true by (symmetry; apply Nat.ltb_lt; exact Hj). apply nth_skipn. Qed.

Lemma bound M h r t L : (r < M)%nat -> (t + L <= h)%nat -> (2 * h * r + t + h + L <= M * (2 * h))%nat.
Proof. intros Hr Ht. assert ((2 * h * r + 2 * h <= M * (2 * h))%nat) by nia. lia. Qed.

Section Part.
Variable bf : nat -> Z -> Z -> Z * Z.
Variables M h : nat.
Hypothesis Hh : (0 < h)%nat.
Let N := (2 * h)%nat.
Variable x0 : list Z.
Hypothesis Hx : length x0 = (M * N)%nat.

Definition spec (idx : nat) : Z := nth idx (blocks bf M h x0) 0%Z.
Definition donep (r t idx : nat) : bool :=
  (idx <? N * r)%nat || ((N * r <=? idx)%nat && (idx <? N * r + t)%nat) || ((N * r + h <=? idx)%nat && (idx <? N * r + h + t)%nat).
Definition part (r t : nat) : list Z := map (fun idx => if donep r t idx then spec idx else nth idx x0 0%Z) (seq 0 (M * N)).

Lemma part_length r t : length (part r t) = (M * N)%nat. Proof. apply tabz_length. Qed.
Lemma part_nth r t idx : (idx < M * N)%nat -> nth idx (part r t) 0%Z = if donep r t idx then spec idx else nth idx x0 0%Z.
Proof. intros H. unfold part. rewrite tabz_nth by exact H. reflexivity. Qed.

Lemma part_start : part 0 0 = x0.
Proof.
  apply nth_ext0; [rewrite part_length; symmetry; exact Hx|]. intros i Hi. rewrite part_length in Hi. rewrite part_nth by exact Hi.
  replace (donep 0 0 i) with false; [reflexivity|]. unfold donep. symmetry.
  destruct (Nat.ltb_spec i (N * 0)); destruct (Nat.leb_spec (N * 0) i); destruct (Nat.ltb_spec i (N * 0 + 0)); destruct (Nat.leb_spec (N * 0 + h) i); destruct (Nat.ltb_spec i (N * 0 + h + 0)); try reflexivity; lia.
Qed.
Lemma part_row r : part r h = part (S r) 0.
Proof.
  apply nth_ext0; [now rewrite !part_length|]. intros i Hi. rewrite part_length in Hi. rewrite !part_nth by exact Hi.
  replace (donep (S r) 0 i) with (donep r h i); [reflexivity|]. unfold donep.
  assert (E : (N * S r = N * r + h + h)%nat) by (unfold N; lia). rewrite E.
  destruct (Nat.ltb_spec i (N * r)); destruct (Nat.leb_spec (N * r) i); destruct (Nat.ltb_spec i (N * r + h)); destruct (Nat.leb_spec (N * r + h) i); destruct (Nat.ltb_spec i (N * r + h + h));
  destruct (Nat.leb_spec (N * r + h + h) i); destruct (Nat.ltb_spec i (N * r + h + h + 0)); destruct (Nat.leb_spec (N * r + h + h + h) i); destruct (Nat.ltb_spec i (N * r + h + h + h + 0)); try reflexivity; lia.
Qed.
Lemma part_done : part M 0 = blocks bf M h x0.
Proof.
  apply nth_ext0; [rewrite part_length, blocks_length; [reflexivity | exact Hx]|]. intros i Hi. rewrite part_length in Hi. rewrite part_nth by exact Hi.
  replace (donep M 0 i) with true; [reflexivity|]. unfold donep. symmetry. replace (N * M)%nat with (M * N)%nat by lia.
  destruct (Nat.ltb_spec i (M * N)); [reflexivity | lia].
Qed.

(* what a chunk of L lanes of block r, starting at lane t, reads and writes *)
Definition lanes (r t L : nat) : list (Z * Z) :=
  map (fun j => bf (t + j) (nth (N * r + t + j) x0 0%Z) (nth (N * r + t + j + h) x0 0%Z)) (seq 0 L).
Lemma lanes_length r t L : length (lanes r t L) = L. Proof. unfold lanes. now rewrite map_length, seq_length. Qed.
Lemma lanes_nth r t L j : (j < L)%nat -> nth j (lanes r t L) (0%Z, 0%Z) = bf (t + j) (nth (N * r + t + j) x0 0%Z) (nth (N * r + t + j + h) x0 0%Z).
Proof.
  intros Hj. unfold lanes. set (f := fun j0 : nat => bf (t + j0) (nth (N * r + t + j0) x0 0%Z) (nth (N * r + t + j0 + h) x0 0%Z)).
  rewrite (nth_indep _ (0%Z, 0%Z) (f 0%nat)) by (rewrite map_length, seq_length; exact Hj). rewrite map_nth, seq_nth by exact Hj. reflexivity.
Qed.
Lemma map_fst_nth (l : list (Z * Z)) j : nth j (map fst l) 0%Z = fst (nth j l (0%Z, 0%Z)). Proof. exact (map_nth fst l (0%Z, 0%Z) j). Qed.
Lemma map_snd_nth (l : list (Z * Z)) j : nth j (map snd l) 0%Z = snd (nth j l (0%Z, 0%Z)). Proof. exact (map_nth snd l (0%Z, 0%Z) j). Qed.

Lemma spec_lo r i : (r < M)%nat -> (i < h)%nat -> spec (N * r + i) = fst (bf i (nth (N * r + i) x0 0%Z) (nth (N * r + i + h) x0 0%Z)).
Proof.
  intros Hr Hi. unfold spec. pose proof (blocks_nth bf M h x0 r i Hh Hx Hr ltac:(lia)) as B. cbv zeta in B. fold N in B. rewrite B.
  replace (i <? h)%nat with true by (symmetry; apply Nat.ltb_lt; exact Hi). reflexivity.
Qed.
Lemma spec_hi r i : (r < M)%nat -> (i < h)%nat -> spec (N * r + i + h) = snd (bf i (nth (N * r + i) x0 0%Z) (nth (N * r + i + h) x0 0%Z)).
Proof.
  intros Hr Hi. unfold spec. pose proof (blocks_nth bf M h x0 r (i + h) Hh Hx Hr ltac:(lia)) as B. cbv zeta in B. fold N in B.
  replace (N * r + (i + h))%nat with (N * r + i + h)%nat in B by lia. rewrite B.
  replace (i + h <? h)%nat with false by (symmetry; apply Nat.ltb_ge; lia).
  replace (i + h - h)%nat with i by lia. replace (N * r + i + h - h)%nat with (N * r + i)%nat by lia. reflexivity.
Qed.


(* reads of a chunk see the original values *)
Lemma part_read_lo r t L : (r < M)%nat -> (t + L <= h)%nat ->
  firstn L (skipn (N * r + t) (part r t)) = map (fun j => nth (N * r + t + j) x0 0%Z) (seq 0 L).
Proof.
  intros Hr Ht. pose proof (bound M h r t L Hr Ht) as Bd. fold N in Bd.
  apply nth_ext0; [rewrite firstn_length, skipn_length, part_length, tabz_length; lia|].
  intros j Hj. rewrite firstn_length, skipn_length, part_length in Hj. assert (Hj' : (j < L)%nat) by lia.
  rewrite firstn_skipn_nth by (rewrite ?part_length; lia). rewrite tabz_nth by exact Hj'. rewrite part_nth by lia.
  replace (donep r t (N * r + t + j)) with false; [reflexivity|]. unfold donep. symmetry.
  destruct (Nat.ltb_spec (N * r + t + j) (N * r)); destruct (Nat.leb_spec (N * r) (N * r + t + j)); destruct (Nat.ltb_spec (N * r + t + j) (N * r + t));
  destruct (Nat.leb_spec (N * r + h) (N * r + t + j)); destruct (Nat.ltb_spec (N * r + t + j) (N * r + h + t)); try reflexivity; lia.
Qed.
Lemma part_read_hi r t L : (r < M)%nat -> (t + L <= h)%nat ->
  firstn L (skipn (N * r + t + h) (part r t)) = map (fun j => nth (N * r + t + j + h) x0 0%Z) (seq 0 L).
Proof.
  intros Hr Ht. pose proof (bound M h r t L Hr Ht) as Bd. fold N in Bd.
  apply nth_ext0; [rewrite firstn_length, skipn_length, part_length, tabz_length; lia|].
  intros j Hj. rewrite firstn_length, skipn_length, part_length in Hj. assert (Hj' : (j < L)%nat) by lia.
  rewrite firstn_skipn_nth by (rewrite ?part_length; lia). rewrite tabz_nth by exact Hj'. rewrite part_nth by lia.
  replace (N * r + t + h + j)%nat with (N * r + t + j + h)%nat by lia.
  replace (donep r t (N * r + t + j + h)) with false; [reflexivity|]. unfold donep. symmetry.
  destruct (Nat.ltb_spec (N * r + t + j + h) (N * r)); destruct (Nat.leb_spec (N * r) (N * r + t + j + h)); destruct (Nat.ltb_spec (N * r + t + j + h) (N * r + t));
  destruct (Nat.leb_spec (N * r + h) (N * r + t + j + h)); destruct (Nat.ltb_spec (N * r + t + j + h) (N * r + h + t)); try reflexivity; lia.
Qed.

(* the chunk step *)
Theorem part_step r t L : (r < M)%nat -> (t + L <= h)%nat ->
  splice (N * r + t + h) (map snd (lanes r t L)) (splice (N * r + t) (map fst (lanes r t L)) (part r t)) = part r (t + L).
Proof.
  intros Hr Ht. pose proof (bound M h r t L Hr Ht) as Bd. fold N in Bd.
  assert (L1 : length (splice (N * r + t) (map fst (lanes r t L)) (part r t)) = (M * N)%nat)
    by (rewrite splice_length; rewrite ?map_length, ?lanes_length, ?part_length; [reflexivity | lia]).
  apply nth_ext0; [rewrite splice_length; rewrite ?map_length, ?lanes_length, ?L1, ?part_length; [reflexivity | lia]|].
  intros i Hi. rewrite splice_length in Hi by (rewrite map_length, lanes_length, L1; lia). rewrite L1 in Hi.
  rewrite splice_nth by (rewrite map_length, lanes_length, L1; lia). rewrite map_length, lanes_length.
  rewrite splice_nth by (rewrite map_length, lanes_length, part_length; lia). rewrite map_length, lanes_length.
  rewrite !part_nth by exact Hi.
  destruct (Nat.leb_spec (N * r + t + h) i) as [A1|A1]; destruct (Nat.ltb_spec i (N * r + t + h + L)) as [A2|A2]; cbn [andb].
  - (* an upper cell of the chunk *)
    set (j := (i - (N * r + t + h))%nat). assert (Hj : (j < L)%nat) by (unfold j; lia).
    fold j. rewrite map_snd_nth, lanes_nth by exact Hj.
    replace (donep r (t + L) i) with true.
    2:{ unfold donep. symmetry. destruct (Nat.ltb_spec i (N * r)); destruct (Nat.leb_spec (N * r) i); destruct (Nat.ltb_spec i (N * r + (t + L)));
        destruct (Nat.leb_spec (N * r + h) i); destruct (Nat.ltb_spec i (N * r + h + (t + L))); try reflexivity; lia. }
    replace i with (N * r + (t + j) + h)%nat at 1 by (unfold j; lia). rewrite spec_hi by lia.
    replace (N * r + (t + j))%nat with (N * r + t + j)%nat by lia. reflexivity.
  - destruct (Nat.leb_spec (N * r + t) i); destruct (Nat.ltb_spec i (N * r + t + L)); cbn [andb]; try lia.
    unfold donep.
    destruct (Nat.ltb_spec i (N * r)); destruct (Nat.leb_spec (N * r) i); destruct (Nat.ltb_spec i (N * r + (t + L))); destruct (Nat.ltb_spec i (N * r + t));
    destruct (Nat.leb_spec (N * r + h) i); destruct (Nat.ltb_spec i (N * r + h + (t + L))); destruct (Nat.ltb_spec i (N * r + h + t)); try reflexivity; lia.
  - destruct (Nat.leb_spec (N * r + t) i) as [B1|B1]; destruct (Nat.ltb_spec i (N * r + t + L)) as [B2|B2]; cbn [andb].
    + (* a lower cell of the chunk *)
      set (j := (i - (N * r + t))%nat). assert (Hj : (j < L)%nat) by (unfold j; lia).
      fold j. rewrite map_fst_nth, lanes_nth by exact Hj.
      replace (donep r (t + L) i) with true.
      2:{ unfold donep. symmetry. destruct (Nat.ltb_spec i (N * r)); destruct (Nat.leb_spec (N * r) i); destruct (Nat.ltb_spec i (N * r + (t + L)));
          destruct (Nat.leb_spec (N * r + h) i); destruct (Nat.ltb_spec i (N * r + h + (t + L))); try reflexivity; lia. }
      replace i with (N * r + (t + j))%nat at 1 by (unfold j; lia). rewrite spec_lo by lia.
      replace (N * r + (t + j))%nat with (N * r + t + j)%nat by lia. reflexivity.
    + unfold donep.
      destruct (Nat.ltb_spec i (N * r)); destruct (Nat.leb_spec (N * r) i); destruct (Nat.ltb_spec i (N * r + (t + L))); destruct (Nat.ltb_spec i (N * r + t));
      destruct (Nat.leb_spec (N * r + h) i); destruct (Nat.ltb_spec i (N * r + h + (t + L))); destruct (Nat.ltb_spec i (N * r + h + t)); try reflexivity; lia.
    + unfold donep.
      destruct (Nat.ltb_spec i (N * r)); destruct (Nat.leb_spec (N * r) i); destruct (Nat.ltb_spec i (N * r + (t + L))); destruct (Nat.ltb_spec i (N * r + t));
      destruct (Nat.leb_spec (N * r + h) i); destruct (Nat.ltb_spec i (N * r + h + (t + L))); destruct (Nat.ltb_spec i (N * r + h + t)); try reflexivity; lia.
    + lia.
  - unfold donep.
    destruct (Nat.leb_spec (N * r + t) i); destruct (Nat.ltb_spec i (N * r + t + L)); cbn [andb]; try lia;
    destruct (Nat.ltb_spec i (N * r)); destruct (Nat.leb_spec (N * r) i); destruct (Nat.ltb_spec i (N * r + (t + L))); destruct (Nat.ltb_spec i (N * r + t));
    destruct (Nat.leb_spec (N * r + h) i); destruct (Nat.ltb_spec i (N * r + h + (t + L))); destruct (Nat.ltb_spec i (N * r + h + t)); try reflexivity; lia.
Qed.
End Part.

(* ================= part 2: the chunk steps as the generated code performs them (ld/st, ldv/stv on the array) ================= *)
From NTT Require Import CxxSem.
Local Open Scope Z_scope.

Fixpoint zip4 (f : Z -> Z -> Z -> Z -> Z * Z) (A B I Wt : list Z) : list (Z * Z) :=
  match A, B, I, Wt with a :: A', b :: B', i :: I', w :: Wt' => f a b i w :: zip4 f A' B' I' Wt' | _, _, _, _ => [] end.
Lemma zip4_length f : forall A B I Wt L, length A = L -> length B = L -> length I = L -> length Wt = L -> length (zip4 f A B I Wt) = L.
Proof. induction A as [|a A IH]; intros [|b B] [|i I] [|w Wt] L HA HB HI HW; cbn in *; try lia. destruct L; [lia|]. f_equal. apply IH; lia. Qed.
Lemma zip4_nth f : forall A B I Wt j, (j < length A)%nat -> length B = length A -> length I = length A -> length Wt = length A ->
  nth j (zip4 f A B I Wt) (0, 0) = f (nth j A 0) (nth j B 0) (nth j I 0) (nth j Wt 0).
Proof. induction A as [|a A IH]; intros [|b B] [|i I] [|w Wt] j Hj HB HI HW; cbn in *; try lia. destruct j; [reflexivity|]. apply IH; lia. Qed.
Lemma Forall_firstn' (R : Z -> Prop) n : forall m, Forall R m -> Forall R (firstn n m).
Proof. induction n as [|n IH]; intros [|a m] F; cbn [firstn]; try constructor; inversion F; subst; auto. Qed.
Lemma Forall_skipn' (R : Z -> Prop) n : forall m, Forall R m -> Forall R (skipn n m).
Proof. induction n as [|n IH]; intros [|a m] F; cbn [skipn]; auto. inversion F; subst; auto. Qed.
Lemma Forall_firstn_skipn (R : Z -> Prop) m a n : Forall R m -> Forall R (firstn n (skipn a m)).
Proof. intros F. apply Forall_firstn', Forall_skipn'. exact F. Qed.
Lemma Forall_tab (R : Z -> Prop) (f : nat -> Z) n : (forall j, (j < n)%nat -> R (f j)) -> Forall R (map f (seq 0 n)).
Proof. intros H. apply Forall_forall. intros v Hv. apply in_map_iff in Hv. destruct Hv as (j & <- & Hj). apply in_seq in Hj. apply H. lia. Qed.
Lemma Forall_nth_R (R : Z -> Prop) m i : Forall R m -> (i < length m)%nat -> R (nth i m 0).
Proof. intros F Hi. eapply Forall_forall; [exact F|]. apply nth_In. exact Hi. Qed.

(* ---- the shapes of the generated code (tools/cxxloop2coq.py), with the kernels as parameters; GenLoopEq.v shows gen_* = these by reflexivity ---- *)
Definition St := (list Z * Z * Z)%type.           (* x, wtab_o, winvtab_o *)
Definition body_s {T} (sk : Z -> Z -> Z -> Z -> Z -> option (Z * Z)) (p : Z) (wtab winvtab : list Z) (ia ib ic id : Z) (k : list Z -> option T) (x : list Z) : option T :=
  bind (ld x ia) (fun a_ => bind (ld x ib) (fun b_ => bind (ld winvtab ic) (fun wi_ => bind (ld wtab id) (fun wt_ =>
    bind (sk p a_ b_ wi_ wt_) (fun r_ => bind (st x ia (fst r_)) (fun x => bind (st x ib (snd r_)) (fun x => k x))))))).
Definition body_v {T} (bits : Z) (words : nat) (vk : Z -> list Z -> list Z -> list Z -> list Z -> list Z * list Z) (p : Z) (wtab winvtab : list Z) (ia ib ic id : Z)
  (k : list Z -> option T) (x : list Z) : option T :=
  bind (ldv bits words x ia) (fun a_ => bind (ldv bits words x ib) (fun b_ => bind (ldv bits words winvtab ic) (fun wi_ => bind (ldv bits words wtab id) (fun wt_ =>
    let r_ := vk p a_ b_ wi_ wt_ in bind (stv bits x ia (fst r_)) (fun x => bind (stv bits x ib (snd r_)) (fun x => k x)))))).
(* rows: the loop over i inside block r *)
Definition row_s2 sk p (wtab winvtab : list Z) (x_o N r : Z) : St -> option St :=
  fun '(x, wtab_o, winvtab_o) => bind (for_up 0 (N / 2) 2 (fun i '(x, wtab_o, winvtab_o) =>
    body_s sk p wtab winvtab (x_o + (uw 64 ((uw 64 ((uw 64 (N * r)) + i)) + 0))) (x_o + (uw 64 ((uw 64 ((uw 64 ((uw 64 (N * r)) + i)) + 0)) + (N / 2)))) (winvtab_o + (uw 64 (i + 0))) (wtab_o + (uw 64 (i + 0)))
      (fun x => body_s sk p wtab winvtab (x_o + (uw 64 ((uw 64 ((uw 64 (N * r)) + i)) + 1))) (x_o + (uw 64 ((uw 64 ((uw 64 ((uw 64 (N * r)) + i)) + 1)) + (N / 2)))) (winvtab_o + (uw 64 (i + 1))) (wtab_o + (uw 64 (i + 1)))
        (fun x => Some (x, wtab_o, winvtab_o)) x) x) (x, wtab_o, winvtab_o)) (fun '(x, wtab_o, winvtab_o) => Some (x, wtab_o, winvtab_o)).
Definition row_s1 sk p (wtab winvtab : list Z) (x_o N r : Z) : St -> option St :=
  fun '(x, wtab_o, winvtab_o) => bind (for_up 0 (N / 2) 1 (fun i '(x, wtab_o, winvtab_o) =>
    body_s sk p wtab winvtab (x_o + (uw 64 ((uw 64 (N * r)) + i))) (x_o + (uw 64 ((uw 64 ((uw 64 (N * r)) + i)) + (N / 2)))) (winvtab_o + i) (wtab_o + i)
      (fun x => Some (x, wtab_o, winvtab_o)) x) (x, wtab_o, winvtab_o)) (fun '(x, wtab_o, winvtab_o) => Some (x, wtab_o, winvtab_o)).
Definition row_v bits words (step : Z) vk p (wtab winvtab : list Z) (x_o N r : Z) : St -> option St :=
  fun '(x, wtab_o, winvtab_o) => bind (for_up 0 (N / 2) step (fun i '(x, wtab_o, winvtab_o) =>
    body_v bits words vk p wtab winvtab (x_o + (uw 64 ((uw 64 (N * r)) + i))) (x_o + (uw 64 ((uw 64 ((uw 64 (N * r)) + i)) + (N / 2)))) (winvtab_o + i) (wtab_o + i)
      (fun x => Some (x, wtab_o, winvtab_o)) x) (x, wtab_o, winvtab_o)) (fun '(x, wtab_o, winvtab_o) => Some (x, wtab_o, winvtab_o)).
Definition row_avx2 bits (E : Z) vk8 vk4 p (wtab winvtab : list Z) (x_o N r : Z) : St -> option St :=
  fun '(x, wtab_o, winvtab_o) => let Navx2 := (uw 64 (((N / 2) / E) * E)) in
    bind (for_up 0 Navx2 E (fun i '(x, wtab_o, winvtab_o) =>
      body_v bits 8 vk8 p wtab winvtab (x_o + (uw 64 ((uw 64 (N * r)) + i))) (x_o + (uw 64 ((uw 64 ((uw 64 (N * r)) + i)) + (N / 2)))) (winvtab_o + i) (wtab_o + i)
        (fun x => Some (x, wtab_o, winvtab_o)) x) (x, wtab_o, winvtab_o))
    (fun '(x, wtab_o, winvtab_o) => bind (if (negb (Navx2 =? (N / 2))) then (let i := Navx2 in
      body_v bits 4 vk4 p wtab winvtab (x_o + (uw 64 ((uw 64 (N * r)) + i))) (x_o + (uw 64 ((uw 64 ((uw 64 (N * r)) + i)) + (N / 2)))) (winvtab_o + i) (wtab_o + i)
        (fun x => Some (x, wtab_o, winvtab_o)) x) else Some (x, wtab_o, winvtab_o)) (fun '(x, wtab_o, winvtab_o) => Some (x, wtab_o, winvtab_o))).
(* one layer: M = 1 << w blocks of N = degree >> w elements, then both table pointers advance by N/2 *)
Definition layer_sh (ROW : Z -> Z -> St -> option St) (degree w : Z) : St -> option St :=
  fun '(x, wtab_o, winvtab_o) => bind (shl_s 32 1 w) (fun sh => let M := (uw 64 sh) in bind (shr_u 64 degree w) (fun sh' => let N := sh' in
    bind (for_up 0 M 1 (fun r => ROW N r) (x, wtab_o, winvtab_o)) (fun '(x, wtab_o, winvtab_o) =>
      let wtab_o := (wtab_o + (N / 2)) in let winvtab_o := (winvtab_o + (N / 2)) in Some (x, wtab_o, winvtab_o)))).
Definition ret_sh (degree : Z) : St -> option (St * Z) :=
  fun '(x, wtab_o, winvtab_o) => bind (shl_s 32 1 (uw 64 ((Z.log2 degree) - 2))) (fun sh => Some ((x, wtab_o, winvtab_o), (uw 64 sh))).
Definition run_serial_sh sk (degree : Z) (x : list Z) (x_o : Z) (wtab : list Z) (wtab_o : Z) (winvtab : list Z) (winvtab_o : Z) (p : Z) : option (St * Z) :=
  bind (for_up 0 (uw 64 ((Z.log2 degree) - 2)) 1 (fun w => layer_sh (row_s2 sk p wtab winvtab x_o) degree w) (x, wtab_o, winvtab_o)) (ret_sh degree).
(* SSE / AVX2: J-1 vector layers, then the layer with blocks of 8 done by the scalar body, then the return value *)
Definition last_layer_sh (ROW : Z -> Z -> St -> option St) (degree w : Z) : St -> option (St * Z) :=
  fun '(x, wtab_o, winvtab_o) => bind (shl_s 32 1 w) (fun sh => let M := (uw 64 sh) in bind (shr_u 64 degree w) (fun sh' => let N := sh' in
    bind (for_up 0 M 1 (fun r => ROW N r) (x, wtab_o, winvtab_o)) (fun '(x, wtab_o, winvtab_o) =>
      let wtab_o := (wtab_o + (N / 2)) in let winvtab_o := (winvtab_o + (N / 2)) in
      bind (shl_s 32 1 (uw 64 ((Z.log2 degree) - 2))) (fun sh => Some ((x, wtab_o, winvtab_o), (uw 64 sh)))))).
Definition run_simd_sh (ROWV : Z -> list Z -> list Z -> Z -> Z -> Z -> St -> option St) sk (degree : Z) (x : list Z) (x_o : Z) (wtab : list Z) (wtab_o : Z) (winvtab : list Z) (winvtab_o : Z) (p : Z) : option (St * Z) :=
  bind (for_up 0 (uw 64 ((uw 64 ((Z.log2 degree) - 2)) - 1)) 1 (fun w => layer_sh (ROWV p wtab winvtab x_o) degree w) (x, wtab_o, winvtab_o))
    (fun '(x, wtab_o, winvtab_o) => let w := (uw 64 ((uw 64 ((Z.log2 degree) - 2)) - 1)) in last_layer_sh (row_s1 sk p wtab winvtab x_o) degree w (x, wtab_o, winvtab_o)).

Section Mem.
Variable bf4 : Z -> Z -> Z -> Z -> Z * Z.                 (* a b winv w *)
Variables W W' : list Z.                                   (* wtab, winvtab: whole arrays *)
Variables Rx Rwi Rwt : Z -> Prop.
Hypothesis HW : Forall Rwt W.
Hypothesis HW' : Forall Rwi W'.
Variables M h : nat.
Hypothesis Hh : (0 < h)%nat.
Let N := (2 * h)%nat.
Variable wo : nat.                                          (* both table pointers, at this layer *)
Hypothesis HWl : (wo + h <= length W)%nat.
Hypothesis HWl' : (wo + h <= length W')%nat.
Variable x0 : list Z.
Hypothesis Hx : length x0 = (M * N)%nat.
Hypothesis HRx : Forall Rx x0.
Definition bfm (i : nat) (a b : Z) : Z * Z := bf4 a b (nth (wo + i) W' 0) (nth (wo + i) W 0).
Notation P := (part bfm M h x0).

Lemma P_unread_lo r t j : (r < M)%nat -> (t + j < h)%nat -> nth (N * r + t + j) (P r t) 0 = nth (N * r + t + j) x0 0.
Proof.
  intros Hr Ht. pose proof (part_read_lo bfm M h Hh x0 Hx r t (S j) Hr ltac:(lia)) as E.
  apply (f_equal (fun l => nth j l 0)) in E. rewrite firstn_skipn_nth in E; [|lia|rewrite part_length; pose proof (bound M h r t (S j) Hr ltac:(lia)) as Bd; fold N in Bd; lia].
  rewrite tabz_nth in E by lia. exact E.
Qed.
Lemma P_unread_hi r t j : (r < M)%nat -> (t + j < h)%nat -> nth (N * r + t + j + h) (P r t) 0 = nth (N * r + t + j + h) x0 0.
Proof.
  intros Hr Ht. pose proof (part_read_hi bfm M h Hh x0 Hx r t (S j) Hr ltac:(lia)) as E.
  apply (f_equal (fun l => nth j l 0)) in E. rewrite firstn_skipn_nth in E; [|lia|rewrite part_length; pose proof (bound M h r t (S j) Hr ltac:(lia)) as Bd; fold N in Bd; lia].
  rewrite tabz_nth in E by lia. fold N in E. replace (N * r + t + h + j)%nat with (N * r + t + j + h)%nat in E by lia. exact E.
Qed.

(* ---- the scalar butterfly call, as generated ---- *)
Variable skp : Z -> Z -> Z -> Z -> Z -> option (Z * Z).
Variable p : Z.
Hypothesis Hsk : forall a b wi wt, Rx a -> Rx b -> Rwi wi -> Rwt wt -> skp p a b wi wt = Some (bf4 a b wi wt).

Lemma sstep {T} r t (k : list Z -> option T) ia ib ic id : (r < M)%nat -> (t < h)%nat ->
  ia = Z.of_nat (N * r + t) -> ib = Z.of_nat (N * r + t + h) -> ic = Z.of_nat (wo + t) -> id = Z.of_nat (wo + t) ->
  bind (ld (P r t) ia) (fun a_ => bind (ld (P r t) ib) (fun b_ => bind (ld W' ic) (fun wi_ => bind (ld W id) (fun wt_ =>
    bind (skp p a_ b_ wi_ wt_) (fun r_ => bind (st (P r t) ia (fst r_)) (fun x => bind (st x ib (snd r_)) (fun x => k x))))))) = k (P r (t + 1)%nat).
Proof.
  intros Hr Ht -> -> -> ->. pose proof (bound M h r t 1 Hr ltac:(lia)) as Bd. fold N in Bd.
  rewrite !ld_some by (rewrite ?part_length; lia). rewrite !Nat2Z.id. cbn [bind].
  pose proof (P_unread_lo r t 0 Hr ltac:(lia)) as E1. pose proof (P_unread_hi r t 0 Hr ltac:(lia)) as E2. rewrite !Nat.add_0_r in E1, E2. rewrite E1, E2.
  rewrite Hsk.
  2,3: apply Forall_nth_R; [exact HRx | lia].
  2: apply Forall_nth_R; [exact HW' | lia].
  2: apply Forall_nth_R; [exact HW | lia].
  cbn [bind]. rewrite st_some by (rewrite part_length; lia). cbn [bind]. rewrite st_some by (rewrite upd_length, part_length; lia). cbn [bind].
  rewrite !Nat2Z.id. rewrite !upd_splice by (rewrite ?upd_length, part_length; lia).
  f_equal. rewrite <- (part_step bfm M h Hh x0 Hx r t 1 Hr ltac:(lia)). fold N.
  unfold lanes. cbn [seq map]. rewrite !Nat.add_0_r. unfold bfm. reflexivity.
Qed.

(* ---- the vector butterfly call, as generated: a register of `words` words of elements of `bits` bits ---- *)
Section Vec.
Variable bits : Z.
Variable words : nat.
Let L := elts bits words.
Variable vkp : Z -> list Z -> list Z -> list Z -> list Z -> list Z * list Z.      (* the translated kernel, on registers *)
Let kern := vkp p.
Hypothesis HL : (0 < L)%nat.
Hypothesis Hkern : forall A B I Wt, length A = L -> length B = L -> length I = L -> length Wt = L ->
  Forall Rx A -> Forall Rx B -> Forall Rwi I -> Forall Rwt Wt ->
  let r := kern (enc bits A) (enc bits B) (enc bits I) (enc bits Wt) in
  dec bits (fst r) = map fst (zip4 bf4 A B I Wt) /\ dec bits (snd r) = map snd (zip4 bf4 A B I Wt).

Lemma lanes_zip r t : (r < M)%nat -> (t + L <= h)%nat ->
  zip4 bf4 (firstn L (skipn (N * r + t) (P r t))) (firstn L (skipn (N * r + t + h) (P r t))) (firstn L (skipn (wo + t) W')) (firstn L (skipn (wo + t) W)) = lanes bfm h x0 r t L.
Proof.
  intros Hr Ht. pose proof (bound M h r t L Hr Ht) as Bd. fold N in Bd.
  assert (LA : length (firstn L (skipn (N * r + t) (P r t))) = L) by (rewrite firstn_length, skipn_length, part_length; lia).
  assert (LB : length (firstn L (skipn (N * r + t + h) (P r t))) = L) by (rewrite firstn_length, skipn_length, part_length; lia).
  assert (LI : length (firstn L (skipn (wo + t) W')) = L) by (rewrite firstn_length, skipn_length; lia).
  assert (LW : length (firstn L (skipn (wo + t) W)) = L) by (rewrite firstn_length, skipn_length; lia).
  apply (nth_ext _ _ (0, 0) (0, 0)); [rewrite (zip4_length _ _ _ _ _ L), lanes_length; auto|].
  intros j Hj. rewrite (zip4_length _ _ _ _ _ L) in Hj by auto.
  rewrite zip4_nth by lia. rewrite lanes_nth by exact Hj.
  pose proof (part_read_lo bfm M h Hh x0 Hx r t L Hr Ht) as E1. pose proof (part_read_hi bfm M h Hh x0 Hx r t L Hr Ht) as E2. fold N in E1, E2.
  rewrite E1, E2. rewrite !tabz_nth by exact Hj.
  rewrite !firstn_skipn_nth by lia. unfold bfm. f_equal; f_equal; lia.
Qed.

Lemma vstep {T} r t (k : list Z -> option T) ia ib ic id : (r < M)%nat -> (t + L <= h)%nat ->
  ia = Z.of_nat (N * r + t) -> ib = Z.of_nat (N * r + t + h) -> ic = Z.of_nat (wo + t) -> id = Z.of_nat (wo + t) ->
  ia mod Z.of_nat L = 0 -> ib mod Z.of_nat L = 0 -> ic mod Z.of_nat L = 0 ->
  bind (ldv bits words (P r t) ia) (fun a_ => bind (ldv bits words (P r t) ib) (fun b_ => bind (ldv bits words W' ic) (fun wi_ => bind (ldv bits words W id) (fun wt_ =>
    let r_ := vkp p a_ b_ wi_ wt_ in bind (stv bits (P r t) ia (fst r_)) (fun x => bind (stv bits x ib (snd r_)) (fun x => k x)))))) = k (P r (t + L)%nat).
Proof.
  intros Hr Ht -> -> -> -> Aa Ab Ac. pose proof (bound M h r t L Hr Ht) as Bd. fold N in Bd.
  unfold ldv. fold L. rewrite !ldn_some by (rewrite ?part_length; lia). rewrite !Nat2Z.id. cbn [bind]. cbv zeta.
  set (A := firstn L (skipn (N * r + t) (P r t))). set (B := firstn L (skipn (N * r + t + h) (P r t))).
  set (I := firstn L (skipn (wo + t) W')). set (Wt := firstn L (skipn (wo + t) W)).
  assert (LA : length A = L) by (unfold A; rewrite firstn_length, skipn_length, part_length; lia).
  assert (LB : length B = L) by (unfold B; rewrite firstn_length, skipn_length, part_length; lia).
  assert (LI : length I = L) by (unfold I; rewrite firstn_length, skipn_length; lia).
  assert (LW : length Wt = L) by (unfold Wt; rewrite firstn_length, skipn_length; lia).
  assert (FA : Forall Rx A).
  { unfold A. pose proof (part_read_lo bfm M h Hh x0 Hx r t L Hr Ht) as E1. fold N in E1. rewrite E1. apply Forall_tab. intros j Hj. apply Forall_nth_R; [exact HRx | lia]. }
  assert (FB : Forall Rx B).
  { unfold B. pose proof (part_read_hi bfm M h Hh x0 Hx r t L Hr Ht) as E2. fold N in E2. rewrite E2. apply Forall_tab. intros j Hj. apply Forall_nth_R; [exact HRx | lia]. }
  pose proof (Hkern A B I Wt LA LB LI LW FA FB (Forall_firstn_skipn _ _ _ _ HW') (Forall_firstn_skipn _ _ _ _ HW)) as [K1 K2]. cbv zeta in K1, K2. unfold kern in K1, K2.
  unfold stv. rewrite K1, K2. unfold A, B, I, Wt. rewrite (lanes_zip r t Hr Ht).
  rewrite stn_some by (rewrite ?map_length, ?lanes_length, ?part_length; lia). cbn [bind].
  rewrite stn_some.
  2: lia.
  2:{ rewrite !app_length, firstn_length, skipn_length, !map_length, !lanes_length, part_length. lia. }
  2:{ rewrite map_length, lanes_length. exact Ab. }
  cbn [bind]. rewrite !Nat2Z.id. f_equal. apply (part_step bfm M h Hh x0 Hx r t L Hr Ht).
Qed.
End Vec.

(* ---- rows ---- *)
Hypothesis Hsmall : Z.of_nat (M * N) < 2 ^ 62.
Hypothesis HM : (0 < M)%nat.
Lemma h_small : Z.of_nat h < 2 ^ 62.
Proof. assert ((h <= M * N)%nat) by (unfold N; nia). lia. Qed.
Let Nz := Z.of_nat N.
Let woz := Z.of_nat wo.
Lemma Nz_half : Nz / 2 = Z.of_nat h.
Proof. unfold Nz, N. rewrite Nat2Z.inj_mul. change (Z.of_nat 2) with 2. rewrite Z.mul_comm, Z.div_mul by lia. reflexivity. Qed.
Lemma idx_lo r i : (r < M)%nat -> (i < h)%nat -> uw 64 (uw 64 (Nz * Z.of_nat r) + Z.of_nat i) = Z.of_nat (N * r + i).
Proof.
  intros Hr Hi. pose proof (bound M h r i 0 Hr ltac:(lia)) as Bd. fold N in Bd. unfold Nz.
  rewrite <- Nat2Z.inj_mul. rewrite (uw_small 64 (Z.of_nat (N * r))) by lia. rewrite <- Nat2Z.inj_add. apply uw_small. lia.
Qed.
Lemma idx_hi r i : (r < M)%nat -> (i < h)%nat -> uw 64 (uw 64 (uw 64 (Nz * Z.of_nat r) + Z.of_nat i) + Nz / 2) = Z.of_nat (N * r + i + h).
Proof.
  intros Hr Hi. rewrite idx_lo by assumption. rewrite Nz_half. pose proof (bound M h r i 0 Hr ltac:(lia)) as Bd. fold N in Bd.
  rewrite <- Nat2Z.inj_add. apply uw_small. lia.
Qed.

Lemma row_s1_ok r : (r < M)%nat -> row_s1 skp p W W' 0 Nz (Z.of_nat r) (P r 0%nat, woz, woz) = Some (P (S r) 0%nat, woz, woz).
Proof.
  intros Hr. unfold row_s1.
  rewrite (for_up_steps (fun j => (P r j, woz, woz)) h).
  - cbn [bind]. rewrite (part_row bfm M h Hh x0 Hx r). reflexivity.
  - lia.
  - rewrite Nz_half. lia.
  - rewrite Nz_half. pose proof h_small. lia.
  - intros j Hj. cbv beta iota. unfold body_s. replace (0 + 1 * Z.of_nat j) with (Z.of_nat j) by lia.
    rewrite (sstep r j (fun x => Some (x, woz, woz))); try assumption.
    + replace (j + 1)%nat with (S j) by lia. reflexivity.
    + rewrite idx_lo by assumption. lia.
    + rewrite idx_hi by assumption. lia.
    + unfold woz. lia.
    + unfold woz. lia.
Qed.
Lemma row_s2_ok r n : (r < M)%nat -> (h = 2 * n)%nat -> row_s2 skp p W W' 0 Nz (Z.of_nat r) (P r 0%nat, woz, woz) = Some (P (S r) 0%nat, woz, woz).
Proof.
  intros Hr Hn. unfold row_s2. pose proof h_small as Hs.
  rewrite (for_up_steps (fun j => (P r (2 * j)%nat, woz, woz)) n).
  - cbn [bind]. rewrite <- Hn. rewrite (part_row bfm M h Hh x0 Hx r). reflexivity.
  - lia.
  - rewrite Nz_half. lia.
  - rewrite Nz_half. lia.
  - intros j Hj. cbv beta iota. unfold body_s. replace (0 + 2 * Z.of_nat j) with (Z.of_nat (2 * j)) by lia.
    pose proof (bound M h r (2 * j) 2 Hr ltac:(lia)) as Bd. fold N in Bd.
    rewrite (sstep r (2 * j) _); try assumption; try lia.
    + rewrite (sstep r (2 * j + 1) (fun x => Some (x, woz, woz))); try assumption; try lia.
      * replace (2 * j + 1 + 1)%nat with (2 * S j)%nat by lia. reflexivity.
      * rewrite idx_lo by (assumption || lia). rewrite uw_small by lia. lia.
      * rewrite idx_lo by (assumption || lia). rewrite (uw_small 64 (Z.of_nat (N * r + 2 * j) + 1)) by lia. rewrite Nz_half. rewrite uw_small by lia. lia.
      * rewrite uw_small by lia. unfold woz. lia.
      * rewrite uw_small by lia. unfold woz. lia.
    + rewrite idx_lo by (assumption || lia). rewrite uw_small by lia. lia.
    + rewrite idx_lo by (assumption || lia). rewrite (uw_small 64 (Z.of_nat (N * r + 2 * j) + 0)) by lia. rewrite Nz_half. rewrite uw_small by lia. lia.
    + rewrite uw_small by lia. unfold woz. lia.
    + rewrite uw_small by lia. unfold woz. lia.
Qed.

Lemma mod_mul0 a L q : (a = L * q)%nat -> Z.of_nat a mod Z.of_nat L = 0.
Proof. intros ->. rewrite Nat2Z.inj_mul. rewrite Z.mul_comm. destruct L; [cbn [Z.of_nat]; rewrite Z.mul_0_r; reflexivity|]. apply Z.mod_mul. lia. Qed.

Section RowV.
Variable bits : Z.
Variable words : nat.
Let L := elts bits words.
Variable vkp : Z -> list Z -> list Z -> list Z -> list Z -> list Z * list Z.
Hypothesis HL : (0 < L)%nat.
Hypothesis Hkern : forall A B I Wt, length A = L -> length B = L -> length I = L -> length Wt = L ->
  Forall Rx A -> Forall Rx B -> Forall Rwi I -> Forall Rwt Wt ->
  let r := vkp p (enc bits A) (enc bits B) (enc bits I) (enc bits Wt) in
  dec bits (fst r) = map fst (zip4 bf4 A B I Wt) /\ dec bits (snd r) = map snd (zip4 bf4 A B I Wt).
Variable woq : nat.
Hypothesis Hwo : (wo = L * woq)%nat.

(* n vector chunks starting at lane 0 *)
Lemma vchunks r n : (r < M)%nat -> (L * n <= h)%nat -> (exists q, h = L * q)%nat ->
  for_up 0 (Z.of_nat (L * n)) (Z.of_nat L) (fun i '(x, wtab_o, winvtab_o) =>
    body_v bits words vkp p W W' (0 + (uw 64 ((uw 64 (Nz * Z.of_nat r)) + i))) (0 + (uw 64 ((uw 64 ((uw 64 (Nz * Z.of_nat r)) + i)) + (Nz / 2)))) (winvtab_o + i) (wtab_o + i)
      (fun x => Some (x, wtab_o, winvtab_o)) x) (P r 0%nat, woz, woz) = Some (P r (L * n)%nat, woz, woz).
Proof.
  intros Hr Hn [q Hq]. pose proof h_small as Hs.
  replace (P r 0%nat) with (P r (L * 0)%nat) by (f_equal; lia).
  rewrite (for_up_steps (fun j => (P r (L * j)%nat, woz, woz)) n).
  - reflexivity.
  - lia.
  - lia.
  - assert ((L <= h)%nat) by (destruct q as [|q']; [lia | rewrite Hq; rewrite Nat.mul_succ_r; lia]). lia.
  - intros j Hj. cbv beta iota. unfold body_v. replace (0 + Z.of_nat L * Z.of_nat j) with (Z.of_nat (L * j)) by lia.
    assert (Hlt : (L * j + L <= h)%nat) by nia.
    pose proof (bound M h r (L * j) L Hr Hlt) as Bd. fold N in Bd.
    rewrite (vstep bits words vkp HL Hkern r (L * j) (fun x => Some (x, woz, woz))); try assumption.
    + fold L. replace (L * j + L)%nat with (L * S j)%nat by lia. reflexivity.
    + rewrite idx_lo by (assumption || lia). lia.
    + rewrite idx_hi by (assumption || lia). lia.
    + unfold woz. lia.
    + unfold woz. lia.
    + rewrite idx_lo by (assumption || lia). change (0 + ?a) with a. apply (mod_mul0 _ L (2 * q * r + j)). unfold N. nia.
    + rewrite idx_hi by (assumption || lia). change (0 + ?a) with a. apply (mod_mul0 _ L (2 * q * r + j + q)). unfold N. nia.
    + unfold woz. rewrite <- Nat2Z.inj_add. apply (mod_mul0 _ L (woq + j)). nia.
Qed.

Lemma row_v_ok r q : (r < M)%nat -> (h = L * q)%nat ->
  row_v bits words (Z.of_nat L) vkp p W W' 0 Nz (Z.of_nat r) (P r 0%nat, woz, woz) = Some (P (S r) 0%nat, woz, woz).
Proof.
  intros Hr Hq. unfold row_v. pose proof Nz_half as E. rewrite Hq in E. rewrite E at 1. rewrite (vchunks r q) by (try assumption; try lia; exists q; exact Hq).
  cbn [bind]. rewrite <- Hq. rewrite (part_row bfm M h Hh x0 Hx r). reflexivity.
Qed.
End RowV.
Section RowA.
Variable bits : Z.
Variables vk8 vk4 : Z -> list Z -> list Z -> list Z -> list Z -> list Z * list Z.
Let L8 := elts bits 8.
Let L4 := elts bits 4.
Hypothesis HL4 : (0 < L4)%nat.
Hypothesis HL84 : (L8 = 2 * L4)%nat.
Hypothesis Hkern8 : forall A B I Wt, length A = L8 -> length B = L8 -> length I = L8 -> length Wt = L8 ->
  Forall Rx A -> Forall Rx B -> Forall Rwi I -> Forall Rwt Wt ->
  let r := vk8 p (enc bits A) (enc bits B) (enc bits I) (enc bits Wt) in
  dec bits (fst r) = map fst (zip4 bf4 A B I Wt) /\ dec bits (snd r) = map snd (zip4 bf4 A B I Wt).
Hypothesis Hkern4 : forall A B I Wt, length A = L4 -> length B = L4 -> length I = L4 -> length Wt = L4 ->
  Forall Rx A -> Forall Rx B -> Forall Rwi I -> Forall Rwt Wt ->
  let r := vk4 p (enc bits A) (enc bits B) (enc bits I) (enc bits Wt) in
  dec bits (fst r) = map fst (zip4 bf4 A B I Wt) /\ dec bits (snd r) = map snd (zip4 bf4 A B I Wt).
Variable woq : nat.
Hypothesis Hwo : (wo = L8 * woq)%nat.

(* a whole number of 256-bit registers per half block: the AVX2 loop does everything, the SSE tail is skipped *)
Lemma row_avx2_full r q : (r < M)%nat -> (h = L8 * q)%nat ->
  row_avx2 bits (Z.of_nat L8) vk8 vk4 p W W' 0 Nz (Z.of_nat r) (P r 0%nat, woz, woz) = Some (P (S r) 0%nat, woz, woz).
Proof.
  intros Hr Hq. unfold row_avx2. cbv zeta. pose proof h_small as Hs.
  assert (E : uw 64 (Nz / 2 / Z.of_nat L8 * Z.of_nat L8) = Z.of_nat (L8 * q)).
  { rewrite Nz_half, Hq. rewrite Nat2Z.inj_mul. rewrite (Z.mul_comm (Z.of_nat L8)), Z.div_mul by lia. rewrite uw_small by lia. reflexivity. }
  rewrite E. cbv delta [L8]. rewrite (vchunks bits 8 vk8 ltac:(fold L8; lia) Hkern8 woq Hwo r q) by (try assumption; try (fold L8; lia); exists q; exact Hq).
  cbn [bind]. rewrite Nz_half. fold L8. rewrite <- Hq. rewrite Z.eqb_refl.
  cbn [negb bind]. rewrite (part_row bfm M h Hh x0 Hx r). reflexivity.
Qed.
(* half a 256-bit register per half block (16-bit limbs, blocks of 16): no AVX2 iteration, one SSE chunk *)
Lemma row_avx2_half r : (r < M)%nat -> (h = L4)%nat ->
  row_avx2 bits (Z.of_nat L8) vk8 vk4 p W W' 0 Nz (Z.of_nat r) (P r 0%nat, woz, woz) = Some (P (S r) 0%nat, woz, woz).
Proof.
  intros Hr Hq. unfold row_avx2. cbv zeta. pose proof h_small as Hs.
  assert (E : uw 64 (Nz / 2 / Z.of_nat L8 * Z.of_nat L8) = 0).
  { rewrite Nz_half, Hq. rewrite Z.div_small by lia. reflexivity. }
  rewrite E. rewrite for_up_empty. cbn [bind].
  rewrite Nz_half. replace (0 =? Z.of_nat h) with false by (symmetry; apply Z.eqb_neq; lia). cbn [negb]. cbv zeta.
  unfold body_v.
  assert (Hwo4 : (wo = L4 * (2 * woq))%nat) by (rewrite Hwo, HL84; lia).
  rewrite (vstep bits 4 vk4 HL4 Hkern4 r 0 (fun x => Some (x, woz, woz))); try assumption.
  - cbn [bind]. fold L4. rewrite Nat.add_0_l, <- Hq. rewrite (part_row bfm M h Hh x0 Hx r). reflexivity.
  - fold L4. lia.
  - pose proof (idx_lo r 0 Hr Hh) as E1. cbn [Z.of_nat] in E1. rewrite E1. lia.
  - pose proof (idx_hi r 0 Hr Hh) as E2. rewrite Nz_half in E2. cbn [Z.of_nat] in E2. rewrite E2. lia.
  - unfold woz. lia.
  - unfold woz. lia.
  - pose proof (idx_lo r 0 Hr Hh) as E1. cbn [Z.of_nat] in E1. rewrite E1. change (0 + ?a) with a. fold L4. apply (mod_mul0 _ L4 (2 * r)). unfold N. nia.
  - pose proof (idx_hi r 0 Hr Hh) as E2. rewrite Nz_half in E2. cbn [Z.of_nat] in E2. rewrite E2. change (0 + ?a) with a. fold L4. apply (mod_mul0 _ L4 (2 * r + 1)). unfold N. nia.
  - unfold woz. fold L4. rewrite Z.add_0_r. apply (mod_mul0 _ L4 (2 * woq)). exact Hwo4.
Qed.
End RowA.
(* ---- one layer ---- *)
Lemma rows_ok (ROW : Z -> Z -> St -> option St) :
  (forall r, (r < M)%nat -> ROW Nz (Z.of_nat r) (P r 0%nat, woz, woz) = Some (P (S r) 0%nat, woz, woz)) ->
  for_up 0 (Z.of_nat M) 1 (fun r => ROW Nz r) (x0, woz, woz) = Some (blocks bfm M h x0, woz, woz).
Proof.
  intros H. rewrite <- (part_start bfm M h Hh x0 Hx) at 1.
  rewrite (for_up_steps (fun r => (P r 0%nat, woz, woz)) M).
  - rewrite (part_done bfm M h Hh x0 Hx). reflexivity.
  - lia.
  - lia.
  - assert ((M <= M * N)%nat) by (unfold N; nia). lia.
  - intros r Hr. replace (0 + 1 * Z.of_nat r) with (Z.of_nat r) by lia. apply H. exact Hr.
Qed.
Lemma layer_ok ROW degree w :
  (forall r, (r < M)%nat -> ROW Nz (Z.of_nat r) (P r 0%nat, woz, woz) = Some (P (S r) 0%nat, woz, woz)) ->
  shl_s 32 1 w = Some (Z.of_nat M) -> shr_u 64 degree w = Some Nz ->
  layer_sh ROW degree w (x0, woz, woz) = Some (blocks bfm M h x0, Z.of_nat (wo + h), Z.of_nat (wo + h)).
Proof.
  intros H H1 H2. unfold layer_sh. rewrite H1. cbn [bind]. cbv zeta. rewrite H2. cbn [bind].
  assert ((M <= M * N)%nat) by (unfold N; nia).
  rewrite uw_small by lia. rewrite (rows_ok ROW H). cbn [bind]. rewrite Nz_half. unfold woz. rewrite <- Nat2Z.inj_add. reflexivity.
Qed.
Lemma last_layer_ok ROW degree w ret :
  (forall r, (r < M)%nat -> ROW Nz (Z.of_nat r) (P r 0%nat, woz, woz) = Some (P (S r) 0%nat, woz, woz)) ->
  shl_s 32 1 w = Some (Z.of_nat M) -> shr_u 64 degree w = Some Nz -> shl_s 32 1 (uw 64 ((Z.log2 degree) - 2)) = Some ret ->
  last_layer_sh ROW degree w (x0, woz, woz) = Some ((blocks bfm M h x0, Z.of_nat (wo + h), Z.of_nat (wo + h)), uw 64 ret).
Proof.
  intros H H1 H2 H3. unfold last_layer_sh. rewrite H1. cbn [bind]. cbv zeta. rewrite H2. cbn [bind].
  assert ((M <= M * N)%nat) by (unfold N; nia).
  rewrite uw_small by lia. rewrite (rows_ok ROW H). cbn [bind]. rewrite H3. cbn [bind]. rewrite Nz_half. unfold woz. rewrite <- Nat2Z.inj_add. reflexivity.
Qed.
End Mem.
