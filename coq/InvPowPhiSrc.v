(* core::invntt_pow_invphi of the source (all builds), translated with the expression-template statement as the oracle
   ExprSem.expr_shoup_mul: on the arrays core::initialize() builds (row c of invomegas = FlatTable.flat of invomega with the Shoup
   companions degree words further, invpoly_times_invphis / shoupinvpoly_times_invphis = NTTInst.cs and its companions), for any number of
   moduli and any degree 2^k, k = 4..30, canonical rows: row c of the polynomial becomes NTTInst.ntt_inv_s of row c -- the extracted
   inverse transform on which the round-trip and product theorems are stated.  Each iteration is core::inv_ntt at its place (InvAnywhere);
   the scratch array of the translated inv_ntt is threaded through the iterations (its last word is never written). *)
From Coq Require Import ZArith List Lia Bool Arith.
From NTT Require Import Algebra Rev Layer Transform Structural Tables FlatTable Inverse NTTInst NTTClosed CxxSem MemSem ExprSem LoopSpec LoopRun LoopInst Setters InvNttSrc InvNttAll SourceModel ScalarOps GenCorrect RebaseAll InvAnywhere PowPhiSrc.
From NTT.gen Require Import Gen GenLoop.
Import ListNotations.
Local Open Scope Z_scope.

Definition invT := nat -> Z -> list Z -> Z -> list Z -> Z -> list Z -> Z -> Z -> Z -> list Z -> option (list Z * list Z * Z * Z * bool).
Definition inv_pow_sh (inv : invT) (bits : Z) (fuel : nat) (degree : Z) (nmoduli : Z) (op_data : list Z) (invomegas : list Z) (invpolyDegree : list Z) (invpoly_times_invphis : list Z) (shoupinvpoly_times_invphis : list Z) (P : list Z) (y : list Z) : option (list Z * list Z) :=
  (bind (for_up 0 nmoduli 1 (fun cm '(op_data, y) => (bind (ld invpolyDegree cm) (fun invK => (bind (inv fuel degree op_data (cm * degree + 0) invomegas (cm * (degree * 2)) invomegas (cm * (degree * 2) + degree) invK (tabP P cm) y) (fun '(op_data, y, _, _, ret_) => Some (op_data, y)))))) (op_data, y)) (fun '(op_data, y) => (bind (expr_shoup_mul bits degree nmoduli op_data invpoly_times_invphis shoupinvpoly_times_invphis P) (fun op_data => Some (op_data, y))))).

Lemma concat_rows_id n : forall nm data, length data = (nm * n)%nat -> concat (map (fun c => slice data (c * n) n) (seq 0 nm)) = data.
Proof.
  induction nm as [|nm IH]; intros data H.
  - destruct data; [reflexivity | discriminate H].
  - cbn [seq map concat]. rewrite <- seq_shift, map_map.
    transitivity (firstn n data ++ skipn n data); [|apply firstn_skipn]. f_equal.
    rewrite <- (IH (skipn n data)) by (rewrite skipn_length; lia). f_equal. apply map_ext. intros c. unfold slice. rewrite skipn_skipn. f_equal.
Qed.
Lemma slice_concat_rows (f : nat -> list Z) n nm c : (forall c, length (f c) = n) -> (c < nm)%nat -> slice (concat (map f (seq 0 nm))) (c * n) n = f c.
Proof.
  intros Hf Hc. rewrite (seq_split3 nm c Hc). rewrite !map_app, !concat_app. cbn [map concat]. rewrite app_nil_r.
  unfold slice. rewrite skipn_app. rewrite (concat_rows_length f n Hf 0 c). rewrite skipn_all2 by (rewrite (concat_rows_length f n Hf 0 c); lia).
  cbn [app]. replace (c * n - c * n)%nat with 0%nat by lia. cbn [skipn]. rewrite firstn_app, Hf. replace (n - n)%nat with 0%nat by lia. cbn [firstn]. rewrite app_nil_r. apply firstn_all2. rewrite Hf. lia.
Qed.

(* the expression statement on rows: a generic form of PowPhiSrc.twist_step (multipliers mc c) *)
Section Mul.
Variables (bits : Z) (k0 nm : nat) (P : list Z) (data A B : list Z) (mc : nat -> list Z).
Notation n := (2 ^ S k0)%nat.
Hypothesis Hdata : length data = (nm * n)%nat.
Hypothesis HA : (nm * n <= length A)%nat.
Hypothesis HB : (nm * n <= length B)%nat.
Hypothesis Hmc : forall c, (c < nm)%nat -> length (mc c) = n /\ Forall (fun v => 0 <= v < pc P c) (mc c).
Hypothesis Hmsh : forall c, (c < nm)%nat -> forall x y, 0 <= x < pc P c -> 0 <= y < pc P c -> msh_k bits (pc P c) x y (sh bits P c y) = Some ((x * y) mod pc P c).
Hypothesis Hcan : forall c, (c < nm)%nat -> Forall (fun v => 0 <= v < pc P c) (row k0 data c).
Hypothesis HA_c : forall c, (c < nm)%nat -> row k0 A c = mc c.
Hypothesis HB_c : forall c, (c < nm)%nat -> row k0 B c = map (sh bits P c) (mc c).
Lemma mul_rows : expr_shoup_mul bits (Z.of_nat n) (Z.of_nat nm) data A B P = Some (concat (map (fun c => tab k0 (fun i => (nth i (row k0 data c) 0 * nth i (mc c) 0) mod pc P c)) (seq 0 nm))).
Proof.
  unfold expr_shoup_mul. cbv zeta. rewrite !Nat2Z.id.
  replace ((0 <=? Z.of_nat n) && (0 <=? Z.of_nat nm) && (nm * n <=? length data)%nat && (nm * n <=? length A)%nat && (nm * n <=? length B)%nat) with true.
  2:{ symmetry. rewrite !andb_true_iff. repeat split; try (apply Z.leb_le; lia); apply Nat.leb_le; lia. }
  rewrite (map_opt_some _ (fun c => tab k0 (fun i => (nth i (row k0 data c) 0 * nth i (mc c) 0) mod pc P c))).
  - cbn [bind]. rewrite skipn_all2 by lia. rewrite app_nil_r. reflexivity.
  - intros c Hc. apply in_seq in Hc. assert (Hc' : (c < nm)%nat) by lia. unfold tab. destruct (Hmc c Hc') as [Lm Rm].
    apply map_opt_some. intros i Hi. apply in_seq in Hi. assert (Hi' : (i < n)%nat) by lia.
    assert (Bd : (c * n + n <= nm * n)%nat) by nia.
    unfold tabP. rewrite Nat2Z.id. fold (pc P c).
    rewrite <- (slice_nth data (c * n) n i Hi') by lia. fold (row k0 data c).
    rewrite <- (slice_nth A (c * n) n i Hi') by lia. fold (row k0 A c). rewrite (HA_c c Hc').
    rewrite <- (slice_nth B (c * n) n i Hi') by lia. fold (row k0 B c). rewrite (HB_c c Hc').
    rewrite (nth_indep (map (sh bits P c) (mc c)) 0 (sh bits P c 0)) by (rewrite map_length, Lm; exact Hi'). rewrite map_nth.
    apply (Hmsh c Hc').
    + apply (Forall_nth_R (fun v => 0 <= v < pc P c)); [apply Hcan; exact Hc' | unfold row; rewrite slice_length by lia; exact Hi'].
    + apply (Forall_nth_R (fun v => 0 <= v < pc P c)); [exact Rm | rewrite Lm; exact Hi'].
Qed.
End Mul.

Section Inv.
Variables (bits : Z) (inv : invT) (K k0 nm : nat) (fuel : nat) (P roots invk : list Z) (data iom ipd ipi sipi y0 : list Z).
Notation k := (S k0).
Notation n := (2 ^ S k0)%nat.
Notation p_ c := (pc P c).
Notation g_ c := (gc roots c).
Definition ik_c (c : nat) : Z := nth c invk 0.
Definition iom_c (c : nat) : Z := invomega (p_ c) (g_ c) K k0.
Definition cs_c (c : nat) : list Z := cs (p_ c) (g_ c) (ik_c c) K k0.
Definition Fi (c : nat) (x : list Z) : list Z := ntt_core bits (p_ c) k (fun lvl => nth lvl (prep (p_ c) k (iom_c c)) nil) x.
Definition zc (c : nat) : list Z := BR k0 (Fi c (BR k0 (row k0 data c))).

Hypothesis Hk : (4 <= k <= 30)%nat.
Hypothesis Hbits : 0 < bits.
Hypothesis Hnm : Z.of_nat nm < 2 ^ 28.
Hypothesis Hf : (k < fuel)%nat.
Hypothesis Hdata : length data = (nm * n)%nat.
Hypothesis Hipd : (nm <= length ipd)%nat.
Hypothesis Hipi : (nm * n <= length ipi)%nat.
Hypothesis Hsipi : (nm * n <= length sipi)%nat.
Hypothesis Hiom : (nm * (2 * n) <= length iom)%nat.
Hypothesis Hy0 : length y0 = S n.
Hypothesis Hp : forall c, (c < nm)%nat -> 1 < p_ c /\ p_ c <= 2 ^ bits.
Hypothesis Hmsh : forall c, (c < nm)%nat -> forall x y, 0 <= x < p_ c -> 0 <= y < p_ c -> msh_k bits (p_ c) x y (sh bits P c y) = Some ((x * y) mod p_ c).
Hypothesis Hcan : forall c, (c < nm)%nat -> Forall (fun v => 0 <= v < p_ c) (row k0 data c).
Hypothesis Hz : forall c, (c < nm)%nat -> Forall (fun v => 0 <= v < p_ c) (zc c).
Hypothesis Hcs : forall c, (c < nm)%nat -> Forall (fun v => 0 <= v < p_ c) (cs_c c).
Hypothesis Hipi_c : forall c, (c < nm)%nat -> row k0 ipi c = cs_c c.
Hypothesis Hsipi_c : forall c, (c < nm)%nat -> row k0 sipi c = map (sh bits P c) (cs_c c).
Hypothesis Hiom_c : forall c, (c < nm)%nat -> slice iom (c * (2 * n)) (n - 1) = flat (p_ c) k (iom_c c) /\ slice iom (c * (2 * n) + n) (n - 1) = map (sh bits P c) (flat (p_ c) k (iom_c c)).
Hypothesis Hany : forall c, (c < nm)%nat -> forall x px sx pw sw pw' sw' T T' yy invK, length x = n -> Forall (fun v => 0 <= v < 2 ^ bits) x -> length yy = S n ->
  Z.of_nat (length pw) mod 16 = 0 -> Z.of_nat (length pw') mod 16 = 0 ->
  T = pw ++ (flat (p_ c) k (iom_c c) ++ []) ++ sw -> T' = pw' ++ (map (sh bits P c) (flat (p_ c) k (iom_c c)) ++ []) ++ sw' ->
  inv fuel (Z.of_nat n) (px ++ x ++ sx) (Z.of_nat (length px)) T (Z.of_nat (length pw)) T' (Z.of_nat (length pw')) invK (p_ c) yy =
    Some ((px ++ BR k0 (Fi c (BR k0 x)) ++ sx, Fi c (BR k0 x) ++ skipn n yy, Z.of_nat (length pw), Z.of_nat (length pw')), true).

Lemma Fi_len c x : length x = n -> length (Fi c x) = n. Proof. intros H. unfold Fi. apply ntt_core_length; [exact Hbits | lia | exact H]. Qed.
Lemma zc_len c : length (zc c) = n. Proof. unfold zc. apply BR_len. Qed.
Lemma row_len c : (c < nm)%nat -> length (row k0 data c) = n. Proof. intros Hc. unfold row. apply slice_length. nia. Qed.

Fixpoint Yj (j : nat) : list Z := match j with O => y0 | S j' => Fi j' (BR k0 (row k0 data j')) ++ skipn n (Yj j') end.
Lemma Yj_len j : length (Yj j) = S n.
Proof. induction j as [|j IH]; cbn [Yj]; [exact Hy0|]. rewrite app_length, Fi_len by apply BR_len. rewrite skipn_length, IH. lia. Qed.
Definition Dj (j : nat) : list Z := concat (map (fun c => if (c <? j)%nat then zc c else row k0 data c) (seq 0 nm)).
Definition pxj (j : nat) : list Z := concat (map zc (seq 0 j)).
Definition sxj (j : nat) : list Z := concat (map (row k0 data) (seq (S j) (nm - j - 1))).
Lemma pxj_len j : length (pxj j) = (j * n)%nat. Proof. unfold pxj. apply concat_rows_length. intros c. apply zc_len. Qed.
Lemma Dj_split j jj : (j < nm)%nat -> (jj = j \/ jj = S j) -> Dj jj = pxj j ++ (if (j <? jj)%nat then zc j else row k0 data j) ++ sxj j.
Proof.
  intros Hj Hjj. unfold Dj. rewrite (seq_split3 nm j Hj). rewrite !map_app, !concat_app. cbn [map concat]. rewrite app_nil_r. f_equal; [|f_equal].
  - unfold pxj. f_equal. apply map_ext_in. intros c Hc. apply in_seq in Hc. replace (c <? jj)%nat with true by (symmetry; apply Nat.ltb_lt; lia). reflexivity.
  - unfold sxj. f_equal. apply map_ext_in. intros c Hc. apply in_seq in Hc. replace (c <? jj)%nat with false by (symmetry; apply Nat.ltb_ge; lia). reflexivity.
Qed.
Lemma Dj_0 : Dj 0 = data. Proof. unfold Dj. transitivity (concat (map (fun c => slice data (c * n) n) (seq 0 nm))); [f_equal | apply (concat_rows_id n nm data Hdata)]. Qed.
Lemma Dj_nm : Dj nm = concat (map zc (seq 0 nm)).
Proof. unfold Dj. f_equal. apply map_ext_in. intros c Hc. apply in_seq in Hc. replace (c <? nm)%nat with true by (symmetry; apply Nat.ltb_lt; lia). reflexivity. Qed.

Theorem inv_pow_ok : exists yf, inv_pow_sh inv bits fuel (Z.of_nat n) (Z.of_nat nm) data iom ipd ipi sipi P y0 =
  Some (concat (map (fun c => ntt_inv_s bits (p_ c) (g_ c) (ik_c c) K k0 (row k0 data c)) (seq 0 nm)), yf).
Proof.
  exists (Yj nm). unfold inv_pow_sh. rewrite <- Dj_0 at 1.
  rewrite (for_up_steps (fun j => (Dj j, Yj j)) nm); try lia.
  - cbn [bind]. rewrite Dj_nm.
    rewrite (mul_rows bits k0 nm P (concat (map zc (seq 0 nm))) ipi sipi cs_c).
    + cbn [bind]. f_equal. f_equal. f_equal. apply map_ext_in. intros c Hc. apply in_seq in Hc. unfold row.
      rewrite (slice_concat_rows zc n nm c zc_len ltac:(lia)). reflexivity.
    + apply concat_rows_length. exact zc_len.
    + exact Hipi.
    + exact Hsipi.
    + intros c Hc. split; [unfold cs_c, cs; apply pows_length | apply Hcs; exact Hc].
    + exact Hmsh.
    + intros c Hc. unfold row. rewrite (slice_concat_rows zc n nm c zc_len Hc). apply Hz. exact Hc.
    + exact Hipi_c.
    + exact Hsipi_c.
  - intros j Hj. cbv beta iota.
    rewrite (Dj_split j j Hj (or_introl eq_refl)), (Dj_split j (S j) Hj (or_intror eq_refl)).
    rewrite Nat.ltb_irrefl. replace (j <? S j)%nat with true by (symmetry; apply Nat.ltb_lt; lia).
    destruct (Hp j Hj) as [Hp1 Hp2]. destruct (Hiom_c j Hj) as [O1 O2].
    assert (Np : (0 < n)%nat) by (apply Nat.neq_0_lt_0, Nat.pow_nonzero; discriminate).
    assert (B1 : (j * (2 * n) + n + (n - 1) <= length iom)%nat) by nia.
    pose proof (slice_split iom (j * (2 * n)) (n - 1) ltac:(lia)) as S1. rewrite O1 in S1. rewrite <- (app_nil_r (flat (p_ j) k (iom_c j))) in S1.
    pose proof (slice_split iom (j * (2 * n) + n) (n - 1) ltac:(lia)) as S2. rewrite O2 in S2. rewrite <- (app_nil_r (map (sh bits P j) (flat (p_ j) k (iom_c j)))) in S2.
    assert (L1 : length (firstn (j * (2 * n)) iom) = (j * (2 * n))%nat) by (rewrite firstn_length; lia).
    assert (L2 : length (firstn (j * (2 * n) + n) iom) = (j * (2 * n) + n)%nat) by (rewrite firstn_length; lia).
    assert (RR : Forall (fun v => 0 <= v < 2 ^ bits) (row k0 data j)) by (eapply Forall_impl; [|apply Hcan; exact Hj]; cbv beta; intros; lia).
    pose proof (Hany j Hj (row k0 data j) (pxj j) (sxj j) _ _ _ _ iom iom (Yj j) (nth j ipd 0) (row_len j Hj) RR (Yj_len j)
      ltac:(rewrite L1; replace (j * (2 * n))%nat with ((2 * j) * n)%nat by lia; apply al16; lia)
      ltac:(rewrite L2; replace (j * (2 * n) + n)%nat with ((2 * j + 1) * n)%nat by lia; apply al16; lia) S1 S2) as E.
    rewrite pxj_len, L1, L2 in E.
    replace (0 + 1 * Z.of_nat j) with (Z.of_nat j) by lia.
    rewrite ld_some by lia. rewrite Nat2Z.id. cbn [bind]. unfold tabP. rewrite Nat2Z.id. fold (p_ j).
    replace (Z.of_nat j * Z.of_nat n + 0) with (Z.of_nat (j * n)) by lia.
    replace (Z.of_nat j * (Z.of_nat n * 2)) with (Z.of_nat (j * (2 * n))) by lia.
    replace (Z.of_nat (j * (2 * n)) + Z.of_nat n) with (Z.of_nat (j * (2 * n) + n)) by lia.
    rewrite E. cbn [bind Yj]. reflexivity.
Qed.
End Inv.

Lemma ipp_shape_serial_u16 : gen_invntt_pow_invphi_serial_u16 = inv_pow_sh gen_inv_ntt_serial_u16 16. Proof. reflexivity. Qed.
Lemma ipp_shape_sse_u16 : gen_invntt_pow_invphi_sse_u16 = inv_pow_sh gen_inv_ntt_sse_u16 16. Proof. reflexivity. Qed.
Lemma ipp_shape_avx2_u16 : gen_invntt_pow_invphi_avx2_u16 = inv_pow_sh gen_inv_ntt_avx2_u16 16. Proof. reflexivity. Qed.
Lemma ipp_shape_serial_u32 : gen_invntt_pow_invphi_serial_u32 = inv_pow_sh gen_inv_ntt_serial_u32 32. Proof. reflexivity. Qed.
Lemma ipp_shape_sse_u32 : gen_invntt_pow_invphi_sse_u32 = inv_pow_sh gen_inv_ntt_sse_u32 32. Proof. reflexivity. Qed.
Lemma ipp_shape_avx2_u32 : gen_invntt_pow_invphi_avx2_u32 = inv_pow_sh gen_inv_ntt_avx2_u32 32. Proof. reflexivity. Qed.
Lemma ipp_shape_serial_u64 : gen_invntt_pow_invphi_serial_u64 = inv_pow_sh gen_inv_ntt_serial_u64 64. Proof. reflexivity. Qed.
Lemma ipp_shape_sse_u64 : gen_invntt_pow_invphi_sse_u64 = inv_pow_sh gen_inv_ntt_sse_u64 64. Proof. reflexivity. Qed.
Lemma ipp_shape_avx2_u64 : gen_invntt_pow_invphi_avx2_u64 = inv_pow_sh gen_inv_ntt_avx2_u64 64. Proof. reflexivity. Qed.

Section AllInv.
Variables (K k0 nm fuel : nat) (P roots invk : list Z) (data iom ipd ipi sipi y0 : list Z).
Notation k := (S k0).
Notation n := (2 ^ S k0)%nat.
Hypothesis Hk : (4 <= k <= 30)%nat.
Hypothesis HkK : (k <= K)%nat.
Hypothesis Hnm : Z.of_nat nm < 2 ^ 28.
Hypothesis Hf : (k < fuel)%nat.
Hypothesis Hdata : length data = (nm * n)%nat.
Hypothesis Hipd : (nm <= length ipd)%nat.
Hypothesis Hipi : (nm * n <= length ipi)%nat.
Hypothesis Hsipi : (nm * n <= length sipi)%nat.
Hypothesis Hiom : (nm * (2 * n) <= length iom)%nat.
Hypothesis Hy0 : length y0 = S n.
Hypothesis Hcan : forall c, (c < nm)%nat -> Forall (fun v => 0 <= v < pc P c) (row k0 data c).
Hypothesis Hg : forall c, (c < nm)%nat -> (gc roots c ^ (2 ^ Z.of_nat K)) mod pc P c = pc P c - 1.

Definition itables_ok (bits : Z) : Prop := forall c, (c < nm)%nat -> let p := nth c P 0 in let g := nth c roots 0 in let ik := nth c invk 0 in let shp := map (fun v => (v * 2 ^ bits) / p) in
  (forall i, (i < n)%nat -> nth (c * n + i) ipi 0 = nth i (cs p g ik K k0) 0 /\ nth (c * n + i) sipi 0 = nth i (shp (cs p g ik K k0)) 0) /\
  (forall i, (i < n - 1)%nat -> nth (c * (n * 2) + i) iom 0 = nth i (flat p k (invomega p g K k0)) 0 /\ nth (c * (n * 2) + n + i) iom 0 = nth i (shp (flat p k (invomega p g K k0))) 0).
Definition inv_out (bits : Z) (r : option (list Z * list Z)) : Prop :=
  exists yf, r = Some (concat (map (fun c => ntt_inv_s bits (nth c P 0) (nth c roots 0) (nth c invk 0) K k0 (row k0 data c)) (seq 0 nm)), yf).

Lemma one_inv (bits : Z) (inv : invT) : 0 < bits ->
  (forall c, (c < nm)%nat -> ScalarOps.Hrow bits (pc P c)) ->
  (forall p, ScalarOps.Hrow bits p -> forall x y, 0 <= x < p -> 0 <= y < p -> msh_k bits p x y ((y * 2 ^ bits) / p) = Some ((x * y) mod p)) ->
  itables_ok bits ->
  (forall c, (c < nm)%nat -> forall x px sx pw sw pw' sw' T T' yy invK, length x = n -> Forall (fun v => 0 <= v < 2 ^ bits) x -> length yy = S n ->
    Z.of_nat (length pw) mod 16 = 0 -> Z.of_nat (length pw') mod 16 = 0 ->
    T = pw ++ (flat (pc P c) k (iom_c K k0 P roots c) ++ []) ++ sw -> T' = pw' ++ (map (sh bits P c) (flat (pc P c) k (iom_c K k0 P roots c)) ++ []) ++ sw' ->
    inv fuel (Z.of_nat n) (px ++ x ++ sx) (Z.of_nat (length px)) T (Z.of_nat (length pw)) T' (Z.of_nat (length pw')) invK (pc P c) yy =
      Some ((px ++ BR k0 (Fi bits K k0 P roots c (BR k0 x)) ++ sx, Fi bits K k0 P roots c (BR k0 x) ++ skipn n yy, Z.of_nat (length pw), Z.of_nat (length pw')), true)) ->
  inv_out bits (inv_pow_sh inv bits fuel (Z.of_nat n) (Z.of_nat nm) data iom ipd ipi sipi P y0).
Proof.
  intros Hb HR Hm HT HA. unfold inv_out.
  assert (F1 : forall c, (c < nm)%nat -> 1 < pc P c /\ pc P c <= 2 ^ bits /\ 4 * pc P c <= 2 ^ bits).
  { intros c Hc. pose proof (ScalarOps.Hrow_facts bits (pc P c) (HR c Hc)) as (A & B & C & D & E). destruct (HR c Hc) as [W3 [W1 W2]].
    assert (2 ^ 1 <= 2 ^ (bits - 3)) by (apply Z.pow_le_mono_r; lia). change (2 ^ 1) with 2 in *. lia. }
  apply (inv_pow_ok bits inv K k0 nm fuel P roots invk data iom ipd ipi sipi y0 Hk Hb Hnm Hf Hdata Hipd Hipi Hsipi Hiom Hy0).
  - intros c Hc. destruct (F1 c Hc) as (A & B & C). split; assumption.
  - intros c Hc x y Hx Hy. apply (Hm (pc P c) (HR c Hc) x y Hx Hy).
  - exact Hcan.
  - intros c Hc. destruct (F1 c Hc) as (A & B & C). unfold zc. apply BR_Forall; [unfold Fi; apply ntt_core_length; [exact Hb | lia | apply BR_len]|].
    unfold Fi. apply (closed_inv_core_canonical bits (pc P c) (gc roots c) K k0 Hb A C (Hg c Hc) HkK).
    split; [unfold row; apply slice_length; nia|]. intros i Hi. apply (Forall_nth_R (fun v => 0 <= v < pc P c)); [apply Hcan; exact Hc | unfold row; rewrite slice_length by nia; exact Hi].
  - intros c Hc. destruct (F1 c Hc) as (A & B & C). unfold cs_c, cs. apply LoopInst.pows_range; [lia|]. unfold ninv, mulm. apply Z.mod_pos_bound. lia.
  - intros c Hc. destruct (HT c Hc) as [H1 _]. fold (pc P c) (gc roots c) in H1. unfold row, cs_c, ik_c.
    assert (B : (c * n + n <= nm * n)%nat) by nia.
    apply nth_ext0; [rewrite slice_length by lia; unfold cs; rewrite pows_length; reflexivity|]. rewrite slice_length by lia. intros i Hi. rewrite slice_nth by lia. apply H1. exact Hi.
  - intros c Hc. destruct (HT c Hc) as [H1 _]. fold (pc P c) (gc roots c) in H1. unfold row, cs_c, ik_c, sh.
    assert (B : (c * n + n <= nm * n)%nat) by nia.
    apply nth_ext0; [rewrite slice_length by lia; rewrite map_length; unfold cs; rewrite pows_length; reflexivity|]. rewrite slice_length by lia. intros i Hi. rewrite slice_nth by lia. apply H1. exact Hi.
  - intros c Hc. destruct (HT c Hc) as [_ H2]. fold (pc P c) (gc roots c) in H2. unfold iom_c, sh.
    pose proof (flat_length (pc P c) k (invomega (pc P c) (gc roots c) K k0)) as FL.
    assert (Np : (0 < n)%nat) by (apply Nat.neq_0_lt_0, Nat.pow_nonzero; discriminate).
    assert (B2 : (c * (2 * n) + n + (n - 1) <= nm * (2 * n))%nat) by nia.
    split.
    + apply nth_ext0; [rewrite slice_length by lia; lia|]. rewrite slice_length by lia. intros i Hi. rewrite slice_nth by lia.
      replace (c * (2 * n))%nat with (c * (n * 2))%nat by lia. apply H2. exact Hi.
    + apply nth_ext0; [rewrite slice_length by lia; rewrite map_length; lia|]. rewrite slice_length by lia. intros i Hi. rewrite slice_nth by lia.
      replace (c * (2 * n) + n + i)%nat with (c * (n * 2) + n + i)%nat by lia. apply H2. exact Hi.
  - exact HA.
Qed.
End AllInv.

Theorem source_invntt_pow_invphi K k0 nm fuel P roots invk data iom ipd ipi sipi y0 : (4 <= S k0 <= 30)%nat -> (S k0 <= K)%nat -> Z.of_nat nm < 2 ^ 28 -> (S k0 < fuel)%nat ->
  length data = (nm * 2 ^ S k0)%nat -> (nm <= length ipd)%nat -> (nm * 2 ^ S k0 <= length ipi)%nat -> (nm * 2 ^ S k0 <= length sipi)%nat -> (nm * (2 * 2 ^ S k0) <= length iom)%nat ->
  length y0 = S (2 ^ S k0) ->
  (forall c, (c < nm)%nat -> Forall (fun v => 0 <= v < pc P c) (row k0 data c)) ->
  (forall c, (c < nm)%nat -> (gc roots c ^ (2 ^ Z.of_nat K)) mod pc P c = pc P c - 1) ->
  let run := fun (f : nat -> Z -> Z -> list Z -> list Z -> list Z -> list Z -> list Z -> list Z -> list Z -> option (list Z * list Z)) => f fuel (Z.of_nat (2 ^ S k0)) (Z.of_nat nm) data iom ipd ipi sipi P y0 in
  ((forall c, (c < nm)%nat -> ScalarOps.Hrow 16 (pc P c)) -> itables_ok K k0 nm P roots invk iom ipi sipi 16 ->
     inv_out K k0 nm P roots invk data 16 (run gen_invntt_pow_invphi_serial_u16) /\ inv_out K k0 nm P roots invk data 16 (run gen_invntt_pow_invphi_sse_u16) /\ inv_out K k0 nm P roots invk data 16 (run gen_invntt_pow_invphi_avx2_u16)) /\
  ((forall c, (c < nm)%nat -> ScalarOps.Hrow 32 (pc P c)) -> itables_ok K k0 nm P roots invk iom ipi sipi 32 ->
     inv_out K k0 nm P roots invk data 32 (run gen_invntt_pow_invphi_serial_u32) /\ inv_out K k0 nm P roots invk data 32 (run gen_invntt_pow_invphi_sse_u32) /\ inv_out K k0 nm P roots invk data 32 (run gen_invntt_pow_invphi_avx2_u32)) /\
  ((forall c, (c < nm)%nat -> ScalarOps.Hrow 64 (pc P c)) -> itables_ok K k0 nm P roots invk iom ipi sipi 64 ->
     inv_out K k0 nm P roots invk data 64 (run gen_invntt_pow_invphi_serial_u64) /\ inv_out K k0 nm P roots invk data 64 (run gen_invntt_pow_invphi_sse_u64) /\ inv_out K k0 nm P roots invk data 64 (run gen_invntt_pow_invphi_avx2_u64)).
Proof.
  intros Hk HkK Hnm Hf Hd Hipd Hipi Hsipi Hiom Hy0 Hcan Hg run. unfold run.
  assert (ANY : forall c px sx pw sw pw' sw' T invK, 1 < pc P c -> Z.of_nat (length pw) mod 16 = 0 -> Z.of_nat (length pw') mod 16 = 0 -> _)
    by (intros c px sx pw sw pw' sw' T invK H1 A2 A3; exact (source_inv_ntt_anywhere k0 (pc P c) (iom_c K k0 P roots c) [] [] fuel invK px sx pw sw pw' sw' T ltac:(lia) H1 (Forall_nil _) Hf A2 A3)).
  cbv zeta in ANY.
  split; [|split]; intros HR HT.
  - assert (P1 : forall c, (c < nm)%nat -> 1 < pc P c /\ pc P c < 2 ^ 14).
    { intros c Hc. destruct (HR c Hc) as [_ [W1 W2]]. change (2 ^ (16 - 3)) with 8192 in W1. change (2 ^ (16 - 2)) with (2 ^ 14) in W2. lia. }
    rewrite ipp_shape_serial_u16, ipp_shape_sse_u16, ipp_shape_avx2_u16.
    repeat split; (apply (one_inv K k0 nm fuel P roots invk data iom ipd ipi sipi y0 Hk HkK Hnm Hf Hd Hipd Hipi Hsipi Hiom Hy0 Hcan Hg 16 _ ltac:(lia) HR);
      [intros p Hp x y Hx Hy; exact (GenCorrect.se_msh _ _ _ _ _ _ _ _ (GenCorrect.source_exact16 p Hp) x y Hx Hy) | exact HT |
       intros c Hc x px sx pw sw pw' sw' T T' yy invK Hx HRx Hyy A2 A3 ET ET'; destruct (P1 c Hc) as [Q1 Q2];
       destruct (ANY c px sx pw sw pw' sw' T invK Q1 A2 A3 ET) as (L16 & _ & _); destruct (L16 Q2 (Forall_nil _) T' ET' x yy Hx HRx Hyy) as (E1 & E2 & E3); assumption]).
  - assert (P1 : forall c, (c < nm)%nat -> 1 < pc P c /\ 4 * pc P c <= 2 ^ 32).
    { intros c Hc. pose proof (ScalarOps.Hrow_facts 32 _ (HR c Hc)) as (A & B & _). destruct (HR c Hc) as [_ [W1 W2]]. change (2 ^ (32 - 3)) with 536870912 in W1. lia. }
    rewrite ipp_shape_serial_u32, ipp_shape_sse_u32, ipp_shape_avx2_u32.
    repeat split; (apply (one_inv K k0 nm fuel P roots invk data iom ipd ipi sipi y0 Hk HkK Hnm Hf Hd Hipd Hipi Hsipi Hiom Hy0 Hcan Hg 32 _ ltac:(lia) HR);
      [intros p Hp x y Hx Hy; exact (GenCorrect.se_msh _ _ _ _ _ _ _ _ (GenCorrect.source_exact32 p Hp) x y Hx Hy) | exact HT |
       intros c Hc x px sx pw sw pw' sw' T T' yy invK Hx HRx Hyy A2 A3 ET ET'; destruct (P1 c Hc) as [Q1 Q2];
       destruct (ANY c px sx pw sw pw' sw' T invK Q1 A2 A3 ET) as (_ & L32 & _); destruct (L32 Q2 (Forall_nil _) T' ET' x yy Hx HRx Hyy) as (E1 & E2 & E3); assumption]).
  - assert (P1 : forall c, (c < nm)%nat -> 1 < pc P c /\ 4 * pc P c <= 2 ^ 64).
    { intros c Hc. pose proof (ScalarOps.Hrow_facts 64 _ (HR c Hc)) as (A & B & _). destruct (HR c Hc) as [_ [W1 W2]]. change (2 ^ (64 - 3)) with 2305843009213693952 in W1. lia. }
    rewrite ipp_shape_serial_u64, ipp_shape_sse_u64, ipp_shape_avx2_u64.
    repeat split; (apply (one_inv K k0 nm fuel P roots invk data iom ipd ipi sipi y0 Hk HkK Hnm Hf Hd Hipd Hipi Hsipi Hiom Hy0 Hcan Hg 64 _ ltac:(lia) HR);
      [intros p Hp x y Hx Hy; exact (GenCorrect.se_msh _ _ _ _ _ _ _ _ (GenCorrect.source_exact64 p Hp) x y Hx Hy) | exact HT |
       intros c Hc x px sx pw sw pw' sw' T T' yy invK Hx HRx Hyy A2 A3 ET ET'; destruct (P1 c Hc) as [Q1 Q2];
       destruct (ANY c px sx pw sw pw' sw' T invK Q1 A2 A3 ET) as (_ & _ & L64); destruct (L64 Q2 (Forall_nil _) T' ET' x yy Hx HRx Hyy) as (E1 & E2 & E3); assumption]).
Qed.
