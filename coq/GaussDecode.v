From Coq Require Import ZArith Lia List Bool Sorted.
Import ListNotations.
Local Open Scope Z_scope.

(* Gaussian sampler, depth 1: decoding one output from the first word + (flagged cells) the full comparison
   equals "vmin + number of barriers <= the input string", for any lexicographically sorted barrier table. *)
Definition str := list Z.                       (* big-endian words *)
Fixpoint lex_le (a b : str) : bool :=           (* a <= b, strings of equal length *)
  match a, b with
  | x :: a', y :: b' => if x <? y then true else if y <? x then false else lex_le a' b'
  | _, _ => true
  end.
Definition hd0 (s : str) : Z := hd 0 s.

(* the code's loop: for (b : list) { if (cmp(b, noise) == 1) break; output++; } *)
Fixpoint prefix_count (l : list str) (s : str) : Z :=
  match l with [] => 0 | b :: r => if lex_le b s then 1 + prefix_count r s else 0 end.
Definition count (P : str -> bool) (l : list str) : Z := Z.of_nat (length (filter P l)).

Section Decode.
Variable vmin : Z.
Variable barriers : list str.
(* closed form of the level-1 table built by buildLookupTables (validated against the real object, Appendix A) *)
Definition val1 (c : Z) : Z := vmin + count (fun b => hd0 b <? c) barriers.
Definition list1 (c : Z) : list str := filter (fun b => hd0 b =? c) barriers.
Definition flag1 (c : Z) : bool := negb (match list1 c with [] => true | _ => false end).
Definition decode1 (s : str) : Z :=
  let c := hd0 s in if flag1 c then val1 c + prefix_count (list1 c) s else val1 c.

Definition sorted (l : list str) : Prop := StronglySorted (fun a b => lex_le a b = true) l.

Lemma lex_le_hd_lt a b : a <> [] -> b <> [] -> hd0 a < hd0 b -> lex_le a b = true.
Proof. destruct a, b; try congruence. simpl. intros _ _ H. now apply Z.ltb_lt in H as ->. Qed.
Lemma lex_le_hd_gt a b : a <> [] -> b <> [] -> hd0 b < hd0 a -> lex_le a b = false.
Proof. destruct a, b; try congruence. simpl. intros _ _ H. destruct (Z.ltb_spec z z0); [lia|]. now apply Z.ltb_lt in H as ->. Qed.
Lemma lex_le_trans a b c : length a = length b -> length b = length c -> lex_le a b = true -> lex_le b c = true -> lex_le a c = true.
Proof. revert b c; induction a as [|x a IH]; intros [|y b] [|z c]; simpl; try discriminate; auto. intros L1 L2.
  destruct (Z.ltb_spec x y), (Z.ltb_spec y z), (Z.ltb_spec y x), (Z.ltb_spec z y), (Z.ltb_spec x z), (Z.ltb_spec z x);
    try lia; try discriminate; auto. apply IH; lia. Qed.

(* on a sorted list the break-at-first-greater count is the count of all elements <= s *)
Lemma prefix_is_count l s : (forall b, In b l -> length b = length s) -> sorted l ->
  prefix_count l s = count (fun b => lex_le b s) l.
Proof.
  induction l as [|b r IH]; intros Hlen Hs; [reflexivity|]. unfold count in *. cbn [prefix_count filter].
  inversion Hs as [|? ? Hr Hb]; subst.
  destruct (lex_le b s) eqn:E.
  - cbn [length]. rewrite IH; auto; [lia | intros; apply Hlen; now right].
  - (* everything after b is >= b > s *)
    assert (Z0 : filter (fun b0 => lex_le b0 s) r = []).
    { clear IH Hr Hs. induction r as [|b' r' IHr]; [reflexivity|]. cbn [filter].
      inversion Hb as [|? ? Hbb' Hb']; subst.
      destruct (lex_le b' s) eqn:E'.
      + rewrite (lex_le_trans b b' s) in E; try discriminate; auto.
        * rewrite (Hlen b), (Hlen b'); simpl; auto.
        * apply Hlen; simpl; auto.
      + apply IHr; auto. intros x Hx. apply Hlen. simpl in *. tauto. }
    rewrite Z0. reflexivity.
Qed.

Lemma count_app P l1 l2 : count P (l1 ++ l2) = count P l1 + count P l2.
Proof. unfold count. rewrite filter_app, app_length. lia. Qed.

(* split a count by the first word relative to c *)
Lemma count_split (P : str -> bool) c l :
  count P l = count (fun b => P b && (hd0 b <? c)) l + count (fun b => P b && (hd0 b =? c)) l + count (fun b => P b && (c <? hd0 b)) l.
Proof. unfold count. induction l as [|b r IH]; [reflexivity|]. cbn [filter].
  destruct (P b); cbn [andb]; [|lia].
  destruct (Z.ltb_spec (hd0 b) c), (Z.eqb_spec (hd0 b) c), (Z.ltb_spec c (hd0 b)); try lia; cbn [length]; lia. Qed.

Lemma count_ext P Q l : (forall b, In b l -> P b = Q b) -> count P l = count Q l.
Proof. intros H. unfold count. now rewrite (filter_ext_in P Q l H). Qed.

Lemma count_false l : count (fun _ : str => false) l = 0.
Proof. unfold count. induction l; auto. Qed.

Lemma count_filter P Q l : count P (filter Q l) = count (fun b => P b && Q b) l.
Proof. unfold count. induction l as [|b r IH]; [reflexivity|]. cbn [filter]. destruct (Q b); cbn [filter]; destruct (P b); cbn [andb length]; lia. Qed.

Lemma sorted_filter Q l : sorted l -> sorted (filter Q l).
Proof. induction 1 as [|b r Hr IH Hb]; [constructor|]. cbn [filter]. destruct (Q b); auto. constructor; auto.
  apply Forall_forall. intros x Hx. apply filter_In in Hx. destruct Hx as [Hx _]. now apply (proj1 (Forall_forall _ _) Hb). Qed.

(* the decoding theorem *)
Theorem decode1_is_count s : s <> [] -> (forall b, In b barriers -> length b = length s) -> sorted barriers ->
  decode1 s = vmin + count (fun b => lex_le b s) barriers.
Proof.
  intros Hs Hlen Hsort. unfold decode1. set (c := hd0 s).
  assert (Hne : forall b, In b barriers -> b <> []).
  { intros b Hb E. specialize (Hlen b Hb). rewrite E in Hlen. destruct s; [congruence | discriminate]. }
  rewrite (count_split (fun b => lex_le b s) c barriers).
  (* barriers with a smaller first word are all <= s; with a larger first word none is *)
  rewrite (count_ext (fun b => lex_le b s && (hd0 b <? c)) (fun b => hd0 b <? c)).
  2:{ intros b Hb. destruct (Z.ltb_spec (hd0 b) c); [|now rewrite andb_false_r]. rewrite lex_le_hd_lt; auto. }
  rewrite (count_ext (fun b => lex_le b s && (c <? hd0 b)) (fun _ => false)).
  2:{ intros b Hb. destruct (Z.ltb_spec c (hd0 b)); [|now rewrite andb_false_r]. rewrite lex_le_hd_gt; auto. }
  rewrite count_false, Z.add_0_r.
  assert (Pc : prefix_count (list1 c) s = count (fun b => lex_le b s && (hd0 b =? c)) barriers).
  { unfold list1. rewrite prefix_is_count.
    - apply count_filter.
    - intros b Hb. apply filter_In in Hb. now apply Hlen.
    - now apply sorted_filter. }
  unfold val1. destruct (flag1 c) eqn:F.
  - rewrite Pc. lia.
  - (* no barrier has first word c *)
    unfold flag1 in F. apply negb_false_iff in F. destruct (list1 c) eqn:E; [|discriminate].
    rewrite <- Pc. cbn [prefix_count]. lia.
Qed.
End Decode.
Print Assumptions decode1_is_count.
