(* The Gaussian setter translated from the source equals the executable model SamplersExec.set_gauss: for every degree, number of moduli,
   amplifier and noise vector, for the three limb types. *)
From Coq Require Import ZArith List Lia Bool Arith.
From NTT Require Import Layer Small Samplers SamplersExec CxxSem MemSem LoopSpec SamplerSpec BoundedSpec GaussSetSpec.
From NTT.gen Require Import GenLoop.
Import ListNotations.
Local Open Scope Z_scope.

Definition negk16 (p l : Z) (k : Z -> option GS) : option GS := bind (chk 32 (p + sw 16 l)) (fun s => k (uw 16 s)).
Definition negkw (bits p l : Z) (k : Z -> option GS) : option GS := k (uw bits (p + uw bits (sw bits l))).
Lemma gauss_u16_shape : gen_set_gauss_u16 = gset_sh 16 negk16. Proof. reflexivity. Qed.
Lemma gauss_u32_shape : gen_set_gauss_u32 = gset_sh 32 (negkw 32). Proof. reflexivity. Qed.
Lemma gauss_u64_shape : gen_set_gauss_u64 = gset_sh 64 (negkw 64). Proof. reflexivity. Qed.

Lemma negkw_ok bits : 8 <= bits <= 64 -> forall p l k, 0 <= p < 2 ^ bits -> 0 <= l < 2 ^ bits -> sgn bits l < 0 -> negkw bits p l k = k ((p + sgn bits l) mod 2 ^ bits).
Proof.
  intros Hb p l k Hp Hl Hneg. unfold negkw. f_equal. rewrite (sw_sgn bits l Hl). unfold uw. rewrite Z.add_mod_idemp_r by (pose proof (Z.pow_pos_nonneg 2 bits); lia). reflexivity.
Qed.
Lemma negk16_ok p l k : 0 <= p < 2 ^ 16 -> 0 <= l < 2 ^ 16 -> sgn 16 l < 0 -> negk16 p l k = k ((p + sgn 16 l) mod 2 ^ 16).
Proof.
  intros Hp Hl Hneg. unfold negk16. rewrite (sw_sgn 16 l Hl). pose proof (sgn_range 16 l ltac:(lia) Hl) as R. rewrite chk_ok by (change (2 ^ (16 - 1)) with 32768 in R; change (2 ^ 16) with 65536 in Hp; change (2 ^ (32 - 1)) with 2147483648; lia).
  reflexivity.
Qed.

Section Inst.
Variables (n m : nat) (P noise data0 : list Z) (A : Z).
Hypothesis HA : 0 <= A < 2 ^ 64.
Hypothesis HPl : (m <= length P)%nat.
Hypothesis Hnl : (n <= length noise)%nat.
Hypothesis Hd : length data0 = (m * n)%nat.
Hypothesis Hsmall : Z.of_nat (m * n) < 2 ^ 61.
Hypothesis Hn : (0 < n)%nat.
Hypothesis Hn61 : Z.of_nat n < 2 ^ 61.

(* what is left in the local array `rnd` (the amplified noise) is part of the result of the translation; only _data is observable *)
Theorem source_set_gauss_u16 : Forall (fun p => 0 <= p < 2 ^ 16) (firstn m P) -> Forall (fun x => 0 <= x < 2 ^ 16) noise ->
  exists rnd, gen_set_gauss_u16 (Z.of_nat n) data0 A (Z.of_nat m) P noise = Some (rnd, set_gauss 16 (firstn m P) A (firstn n noise)).
Proof. intros HP HN. eexists. rewrite gauss_u16_shape. apply (gauss_set_ok 16 ltac:(lia) negk16 negk16_ok n m P noise data0 A); assumption. Qed.
Theorem source_set_gauss_u32 : Forall (fun p => 0 <= p < 2 ^ 32) (firstn m P) -> Forall (fun x => 0 <= x < 2 ^ 32) noise ->
  exists rnd, gen_set_gauss_u32 (Z.of_nat n) data0 A (Z.of_nat m) P noise = Some (rnd, set_gauss 32 (firstn m P) A (firstn n noise)).
Proof. intros HP HN. eexists. rewrite gauss_u32_shape. apply (gauss_set_ok 32 ltac:(lia) (negkw 32) (negkw_ok 32 ltac:(lia)) n m P noise data0 A); assumption. Qed.
Theorem source_set_gauss_u64 : Forall (fun p => 0 <= p < 2 ^ 64) (firstn m P) -> Forall (fun x => 0 <= x < 2 ^ 64) noise ->
  exists rnd, gen_set_gauss_u64 (Z.of_nat n) data0 A (Z.of_nat m) P noise = Some (rnd, set_gauss 64 (firstn m P) A (firstn n noise)).
Proof. intros HP HN. eexists. rewrite gauss_u64_shape. apply (gauss_set_ok 64 ltac:(lia) (negkw 64) (negkw_ok 64 ltac:(lia)) n m P noise data0 A); assumption. Qed.
End Inst.
