(* Meaning of what tools/cxxperm2coq.py extracts from include/nfl/permut.hpp: the unrolled permutation is the list of the assignments
   y[r] = x[I] its template recursion executes, in order; executing them is a fold with bounds-checked loads and stores. *)
From Coq Require Import ZArith List Bool.
From NTT Require Import CxxSem MemSem.
Import ListNotations.
Local Open Scope Z_scope.

Definition run_leaves (L : list (Z * Z)) (y : list Z) (y_o : Z) (x : list Z) (x_o : Z) : option (list Z) :=
  fold_left (fun acc ri => bind acc (fun y => bind (ld x (x_o + snd ri)) (fun v => st y (y_o + fst ri) v))) L (Some y).
Fixpoint leaves_of (tbl : list (Z * list (Z * Z))) (degree : Z) : option (list (Z * Z)) :=
  match tbl with [] => None | (d, l) :: r => if d =? degree then Some l else leaves_of r degree end.
