(* C16: the textual form written by operator<<(ostream&, poly const&) -- "{ v0T, v1T, ..., vkT }" with T = U / UL / ULL --
   as a byte string, a parser for it, and the parse-back theorem. *)
From Coq Require Import NArith List Lia Decimal DecimalN Bool.
Import ListNotations.
Local Open Scope N_scope.

(* decimal digits of a stored word, most significant first (what ostream << unsigned prints) *)
Fixpoint digits (u : uint) : list N :=
  match u with
  | Nil => [] | D0 u => 48 :: digits u | D1 u => 49 :: digits u | D2 u => 50 :: digits u | D3 u => 51 :: digits u | D4 u => 52 :: digits u
  | D5 u => 53 :: digits u | D6 u => 54 :: digits u | D7 u => 55 :: digits u | D8 u => 56 :: digits u | D9 u => 57 :: digits u
  end.
Definition dec (n : N) : list N := digits (N.to_uint n).

Definition is_digit (c : N) : bool := (48 <=? c) && (c <=? 57).
Definition push (c : N) (u : uint) : uint :=
  if c =? 48 then D0 u else if c =? 49 then D1 u else if c =? 50 then D2 u else if c =? 51 then D3 u else if c =? 52 then D4 u
  else if c =? 53 then D5 u else if c =? 54 then D6 u else if c =? 55 then D7 u else if c =? 56 then D8 u else D9 u.
(* the maximal run of digits at the head of s *)
Fixpoint rd (s : list N) : uint * list N :=
  match s with
  | c :: r => if is_digit c then let (u, r') := rd r in (push c u, r') else (Nil, s)
  | [] => (Nil, [])
  end.

Definition nondigit_head (s : list N) : Prop := match s with [] => True | c :: _ => is_digit c = false end.
Lemma rd_digits u rest : nondigit_head rest -> rd (digits u ++ rest) = (u, rest).
Proof.
  intros H. induction u as [|u IH|u IH|u IH|u IH|u IH|u IH|u IH|u IH|u IH|u IH]; cbn [digits];
    try (rewrite <- app_comm_cons; cbn [rd];
         match goal with |- context [is_digit ?c] => change (is_digit c) with true end; cbv iota; rewrite IH; reflexivity).
  rewrite app_nil_l. destruct rest as [|c r]; [reflexivity|]. cbn [rd]. unfold nondigit_head in H. rewrite H. reflexivity.
Qed.

Section Text.
Variable suf : list N.                                  (* "U", "UL" or "ULL" *)
Hypothesis suf_head : exists r, suf = 85 :: r.          (* starts with 'U' *)

(* operator<< : the loop with its `first` flag *)
Fixpoint loop (first : bool) (ws : list N) : list N :=
  match ws with [] => [] | v :: r => (if first then dec v else suf ++ [44; 32] ++ dec v) ++ loop false r end.
Definition print (ws : list N) : list N := [123; 32] ++ loop true ws ++ suf ++ [32; 125].

(* the same string, item by item *)
Fixpoint items (v : N) (r : list N) : list N :=
  dec v ++ suf ++ match r with [] => [32; 125] | v' :: r' => [44; 32] ++ items v' r' end.
Lemma loop_items v r : dec v ++ loop false r ++ suf ++ [32; 125] = items v r.
Proof.
  revert v. induction r as [|v' r IH]; intros v; cbn [loop items app]; [reflexivity|].
  rewrite <- IH. rewrite <- !app_assoc. reflexivity.
Qed.
Lemma print_items v r : print (v :: r) = [123; 32] ++ items v r.
Proof. unfold print. cbn [loop]. rewrite <- loop_items, <- !app_assoc. reflexivity. Qed.

(* parser *)
Fixpoint strip (pre s : list N) : option (list N) :=
  match pre, s with
  | [], _ => Some s
  | a :: pre', b :: s' => if a =? b then strip pre' s' else None
  | _ :: _, [] => None
  end.
Lemma strip_app pre s : strip pre (pre ++ s) = Some s.
Proof. induction pre as [|a pre IH]; [reflexivity|]. rewrite <- app_comm_cons. cbn [strip]. rewrite N.eqb_refl. exact IH. Qed.

Fixpoint parse_items (fuel : nat) (s : list N) : option (list N) :=
  match fuel with
  | O => None
  | S f =>
      let (u, r) := rd s in
      match u with Nil => None | _ =>
        match strip suf r with
        | None => None
        | Some r1 =>
            match r1 with
            | [32; 125] => Some [N.of_uint u]
            | 44 :: 32 :: r2 => match parse_items f r2 with Some l => Some (N.of_uint u :: l) | None => None end
            | _ => None
            end
        end
      end
  end.
Definition parse (s : list N) : option (list N) :=
  match s with 123 :: 32 :: r => parse_items (length r) r | _ => None end.

Lemma to_uint_not_nil n : N.to_uint n <> Nil.
Proof. intros H. pose proof (DecimalN.Unsigned.of_to n) as K. rewrite H in K. cbn in K. subst n. discriminate H. Qed.

Lemma dec_nonempty n : dec n <> [].
Proof. unfold dec. pose proof (to_uint_not_nil n). destruct (N.to_uint n); cbn; congruence. Qed.

Lemma items_len v r : (1 <= length (items v r))%nat.
Proof. destruct r; cbn [items]; rewrite app_length; pose proof (dec_nonempty v); destruct (dec v); cbn [length]; try congruence; lia. Qed.
Lemma items_cons_len v v' r : (length (items v' r) < length (items v (v' :: r)))%nat.
Proof. cbn [items]. rewrite !app_length. cbn [length]. lia. Qed.

Lemma parse_items_ok : forall r v fuel, (length (items v r) <= fuel)%nat -> parse_items fuel (items v r) = Some (v :: r).
Proof.
  destruct suf_head as [sr Es].
  induction r as [|v' r IH]; intros v fuel Hf.
  - destruct fuel as [|f]; [pose proof (items_len v []); lia|].
    cbn [parse_items items]. unfold dec. rewrite rd_digits by (rewrite Es; reflexivity).
    pose proof (to_uint_not_nil v) as NN. destruct (N.to_uint v) eqn:E; try congruence;
      rewrite strip_app; rewrite <- E, DecimalN.Unsigned.of_to; reflexivity.
  - destruct fuel as [|f]; [pose proof (items_len v (v' :: r)); lia|].
    pose proof (items_cons_len v v' r) as Hl.
    cbn [parse_items]. cbn [items]. unfold dec at 1. rewrite rd_digits by (rewrite Es; reflexivity).
    pose proof (to_uint_not_nil v) as NN. destruct (N.to_uint v) eqn:E; try congruence;
      rewrite strip_app; change ([44; 32] ++ items v' r) with (44 :: 32 :: items v' r); cbv beta iota; rewrite (IH v' f ltac:(lia)); rewrite <- E, DecimalN.Unsigned.of_to; reflexivity.
Qed.

(* the text parses back to exactly the stored words *)
Theorem parse_print ws : ws <> [] -> parse (print ws) = Some ws.
Proof.
  destruct ws as [|v r]; [congruence|]. intros _. rewrite print_items. cbn [app parse]. apply parse_items_ok. lia.
Qed.

(* ... and nothing else prints to the same text *)
Corollary print_injective ws ws' : ws <> [] -> ws' <> [] -> print ws = print ws' -> ws = ws'.
Proof. intros H H' E. pose proof (parse_print ws H) as P. rewrite E, (parse_print ws' H') in P. congruence. Qed.
End Text.
Print Assumptions parse_print.
