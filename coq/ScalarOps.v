(* C03: the remaining scalar functors of nfl::ops (division-based mulmod / muladd, 64-bit Barrett-Newton muladd) and
   the row hypothesis under which all functor theorems hold.  No dependence on the generated tables (see ScalarClosed.v). *)
From Coq Require Import ZArith Znumtheory Lia List Bool.
From NTT Require Import Functors.
Import ListNotations.
Local Open Scope Z_scope.

(* mulmod<T,serial> (generic): res = (greater)x * y;  res = res % p;  return (T) res *)
Definition mulmod_gen (w p x y : Z) : Z := (((x * y) mod 2 ^ (2 * w)) mod p) mod 2 ^ w.
(* muladd<T,serial> (generic): res = (greater)x * y; res += rop; res %= p; return (T) res *)
Definition muladd_gen (w p rop x y : Z) : Z := ((((x * y) mod 2 ^ (2 * w) + rop) mod 2 ^ (2 * w)) mod p) mod 2 ^ w.
(* muladd<uint64_t,serial>: Barrett-Newton product, then r += rop; if (r >= p) r -= p *)
Definition muladd64 (p pn rop x y : Z) : Z :=
  let r := mulmod64 p pn x y in
  let r2 := (r + rop) mod B64 in
  (if r2 >=? p then r2 - p else r2) mod B64.

Definition Hrow (w p : Z) : Prop := 3 < w /\ 2 ^ (w - 3) <= p < 2 ^ (w - 2).

Lemma Hrow_facts w p : Hrow w p -> 0 < p /\ 4 * p <= 2 ^ w /\ 2 ^ w <= 8 * p /\ 2 * p <= 2 ^ w /\ p < 2 ^ w.
Proof.
  intros (Hw & H1 & H2).
  assert (E2 : 2 ^ w = 4 * 2 ^ (w - 2)) by (replace w with (2 + (w - 2)) at 1 by lia; rewrite Z.pow_add_r by lia; reflexivity).
  assert (E3 : 2 ^ w = 8 * 2 ^ (w - 3)) by (replace w with (3 + (w - 3)) at 1 by lia; rewrite Z.pow_add_r by lia; reflexivity).
  assert (0 < 2 ^ (w - 3)) by (apply Z.pow_pos_nonneg; lia). lia.
Qed.

Lemma sq_lt_B2 w p : Hrow w p -> forall x y, 0 <= x < p -> 0 <= y < p -> 0 <= x * y < 2 ^ (2 * w) /\ x * y + p < 2 ^ (2 * w).
Proof.
  intros H x y Hx Hy. destruct (Hrow_facts w p H) as (Hp & H4 & _ & _ & _). destruct H as (Hw & _).
  assert (E : 2 ^ (2 * w) = 2 ^ w * 2 ^ w) by (rewrite <- Z.pow_add_r by lia; f_equal; lia).
  assert (0 < 2 ^ w) by (apply Z.pow_pos_nonneg; lia). rewrite E. nia.
Qed.

Theorem mulmod_gen_correct w p x y : Hrow w p -> 0 <= x < p -> 0 <= y < p -> mulmod_gen w p x y = (x * y) mod p.
Proof.
  intros H Hx Hy. unfold mulmod_gen. destruct (sq_lt_B2 w p H x y Hx Hy) as [S1 S2].
  destruct (Hrow_facts w p H) as (Hp & H4 & _ & _ & HpB).
  rewrite (Z.mod_small (x * y)) by lia. apply Z.mod_small. pose proof (Z.mod_pos_bound (x * y) p Hp). lia.
Qed.

Theorem muladd_gen_correct w p rop x y : Hrow w p -> 0 <= rop < p -> 0 <= x < p -> 0 <= y < p ->
  muladd_gen w p rop x y = (x * y + rop) mod p.
Proof.
  intros H Hr Hx Hy. unfold muladd_gen. destruct (sq_lt_B2 w p H x y Hx Hy) as [S1 S2].
  destruct (Hrow_facts w p H) as (Hp & H4 & _ & _ & HpB).
  rewrite (Z.mod_small (x * y)) by lia. rewrite (Z.mod_small (x * y + rop)) by lia.
  apply Z.mod_small. pose proof (Z.mod_pos_bound (x * y + rop) p Hp). lia.
Qed.

Definition Hrow64 (p pn : Z) : Prop := 2 ^ 61 < p < 2 ^ 62 /\ pn = B128 / p - 2 ^ 66 /\ 0 <= pn < 2 ^ 63.

Theorem muladd64_correct p pn rop x y : Hrow64 p pn -> 0 <= rop < p -> 0 <= x < p -> 0 <= y < p ->
  muladd64 p pn rop x y = (x * y + rop) mod p.
Proof.
  intros (Hp & Hpn & Hpn') Hr Hx Hy. unfold muladd64. rewrite mulmod64_correct by assumption.
  assert (P0 : 0 < p) by lia. pose proof (Z.mod_pos_bound (x * y) p P0) as M.
  assert (HB : 2 * p <= B64) by (change B64 with (2 ^ 64); lia).
  set (r := (x * y) mod p) in *. rewrite (Z.mod_small (r + rop)) by lia.
  assert (E : (x * y + rop) mod p = (r + rop) mod p) by (unfold r; rewrite Z.add_mod_idemp_l by lia; reflexivity).
  rewrite E. destruct (Z.geb_spec (r + rop) p).
  - rewrite Z.mod_small by lia. apply (Z.mod_unique_pos (r + rop) p 1); lia.
  - rewrite Z.mod_small by lia. symmetry. apply Z.mod_small; lia.
Qed.

(* compute_shoup terminates within its fuel for every word under the row hypothesis (B <= 8p suffices) *)
Theorem compute_shoup_row w p x : Hrow w p -> 0 <= x < 2 ^ w ->
  compute_shoup w p x = Some (((x mod p) * 2 ^ w) / p).
Proof.
  intros H Hx. destruct (Hrow_facts w p H) as (Hp & H4 & H8 & H2 & HpB). destruct H as (Hw & _).
  unfold compute_shoup. assert (HB : 0 < 2 ^ w) by (apply Z.pow_pos_nonneg; lia).
  rewrite (reduce_loop_spec w ltac:(lia) 9 p x Hp Hx).
  - f_equal. unfold wr. apply Z.mod_small. pose proof (Z.mod_pos_bound x p Hp). split; [apply Z.div_pos; nia|].
    apply Z.div_lt_upper_bound; nia.
  - assert (x / p < 9); [|lia]. apply Z.div_lt_upper_bound; lia.
Qed.

(* ---------- all functor theorems under the row hypothesis, in one record ---------- *)
Record functors_exact (w p : Z) : Prop := {
  fe_add  : forall x y, 0 <= x < p -> 0 <= y < p -> addmod w p x y = (x + y) mod p;
  fe_sub  : forall x y, 0 <= x < p -> 0 <= y < p -> submod w p x y = (x - y) mod p;
  fe_mul  : forall x y, 0 <= x < p -> 0 <= y < p -> mulmod_gen w p x y = (x * y) mod p;
  fe_csh  : forall y, 0 <= y < 2 ^ w -> compute_shoup w p y = Some (((y mod p) * 2 ^ w) / p);
  fe_msh  : forall x y, 0 <= x < p -> 0 <= y < p -> mulmod_shoup w p x y ((y * 2 ^ w) / p) = (x * y) mod p;
  fe_mad  : forall z x y, 0 <= z < p -> 0 <= x < p -> 0 <= y < p -> muladd_gen w p z x y = (x * y + z) mod p;
  fe_mads : forall z x y, 0 <= z < p -> 0 <= x < p -> 0 <= y < p ->
            let r := muladd_shoup w p z x y ((y * 2 ^ w) / p) in 0 <= r < 2 * p /\ r mod p = (x * y + z) mod p;
  fe_range : forall x y, 0 <= x < p -> 0 <= y < p -> 0 <= (x + y) mod p < p
}.

Theorem functors_exact_of_row w p : Hrow w p -> functors_exact w p.
Proof.
  intros H. destruct (Hrow_facts w p H) as (Hp & H4 & H8 & H2 & HpB). pose proof H as (Hw & _).
  constructor; intros.
  - apply addmod_correct; lia.
  - apply submod_correct; lia.
  - apply mulmod_gen_correct; assumption.
  - apply compute_shoup_row; assumption.
  - apply mulmod_shoup_correct; lia.
  - apply muladd_gen_correct; assumption.
  - apply muladd_shoup_lazy; lia.
  - apply Z.mod_pos_bound; lia.
Qed.

