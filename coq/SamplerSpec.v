(* The samplers of nfl::poly translated from the source (gen_set_zo_uN, gen_set_uniform_uN, gen_set_bounded_uN: decoding of the random
   tape into coefficients) are the executable models of SamplersExec.v on which the distribution theorems (C09/C12) are stated. *)
From Coq Require Import ZArith List Lia Bool Arith.
From NTT Require Import Layer Small Samplers SamplersExec CxxSem MemSem LoopSpec LoopRun PrepSpec.
Import ListNotations.
Local Open Scope Z_scope.

Lemma words_of_same wb cnt tape : MemSem.words_of wb cnt tape = SamplersExec.words_of wb cnt tape.
Proof. revert tape. induction cnt as [|c IH]; intros tape; [reflexivity|]. cbn [MemSem.words_of SamplersExec.words_of]. rewrite IH. reflexivity. Qed.
Lemma bytes_of n : forall tape, (n <= length tape)%nat -> MemSem.words_of 1 n tape = firstn n tape.
Proof.
  induction n as [|n IH]; intros tape H; [reflexivity|]. destruct tape as [|b t]; [cbn in H; lia|].
  cbn [MemSem.words_of firstn skipn MemSem.le_word]. rewrite IH by (cbn in H; lia). f_equal. lia.
Qed.
Lemma splice_all (vs m : list Z) : length vs = length m -> splice 0 vs m = vs.
Proof. intros H. unfold splice. cbn [firstn app Nat.add]. rewrite skipn_all2 by lia. apply app_nil_r. Qed.

Lemma firstn_S_nth' (l : list Z) : forall j, (j < length l)%nat -> firstn (S j) l = firstn j l ++ [nth j l 0].
Proof.
  induction l as [|a l IH]; intros j L; [cbn in L; lia|]. destruct j as [|j]; [reflexivity|].
  change (firstn (S (S j)) (a :: l)) with (a :: firstn (S j) l). change (firstn (S j) (a :: l)) with (a :: firstn j l). cbn [nth app].
  rewrite IH by (cbn in L; lia). reflexivity.
Qed.
Lemma skipn_S_tl' (l : list Z) : forall j, skipn (S j) l = tl (skipn j l).
Proof. induction l as [|a l IH]; intros j; [destruct j; reflexivity|]. destruct j as [|j]; [reflexivity|]. change (skipn (S (S j)) (a :: l)) with (skipn (S j) l). change (skipn (S j) (a :: l)) with (skipn j l). apply IH. Qed.
Lemma skipn_add' (l : list Z) a b : skipn a (skipn b l) = skipn (b + a) l.
Proof. revert l. induction b as [|b IH]; intros l; [reflexivity|]. destruct l as [|x l]; [destruct a; reflexivity|]. cbn [skipn Nat.add]. apply IH. Qed.

(* a loop that appends f 0, f 1, ... f (n-1) behind `pre`, overwriting `post` *)
Lemma append_steps {C} (c : C) (f : nat -> Z) n pre post (body : Z -> C * list Z * Z -> option (C * list Z * Z)) : (n <= length post)%nat -> Z.of_nat n < 2 ^ 62 ->
  (forall j, (j < n)%nat -> body (Z.of_nat j) (c, (pre ++ map f (seq 0 j)) ++ skipn j post, Z.of_nat (length pre + j)) =
                            Some (c, (pre ++ map f (seq 0 (S j))) ++ skipn (S j) post, Z.of_nat (length pre + S j))) ->
  for_up 0 (Z.of_nat n) 1 body (c, pre ++ post, Z.of_nat (length pre)) = Some (c, (pre ++ map f (seq 0 n)) ++ skipn n post, Z.of_nat (length pre + n)).
Proof.
  intros Hn Hs H.
  set (P := fun j : nat => (c, (pre ++ map f (seq 0 j)) ++ skipn j post, Z.of_nat (length pre + j))).
  assert (E0 : (c, pre ++ post, Z.of_nat (length pre)) = P 0%nat) by (unfold P; cbn [seq map skipn]; rewrite app_nil_r, Nat.add_0_r; reflexivity).
  rewrite E0. apply (for_up_steps P n); try lia. intros j Hj. replace (0 + 1 * Z.of_nat j) with (Z.of_nat j) by lia. apply H. exact Hj.
Qed.
Lemma seq_snoc_map (f : nat -> Z) j : map f (seq 0 (S j)) = map f (seq 0 j) ++ [f j].
Proof. rewrite seq_S, map_app. reflexivity. Qed.

(* ---------------- ZO_dist ---------------- *)
Definition zo_sh (pmf : Z -> Z) (degree : Z) (_data : list Z) (nmoduli : Z) (P : list Z) (mode_rho : Z) (tape : list Z) : option (list Z * list Z * Z) :=
  (let ptr_o := 0 in (let rnd := (@nil Z) in (let rnd := (repeat 0 (Z.to_nat degree)) in (let '(rnd, tape) := rand_fill 1 rnd 0 (degree * 1) tape in (let ptr_o := 0 in (bind (for_up 0 nmoduli 1 (fun cm_1 '(rnd, _data, ptr_o) => (let pm_2 := pmf (tabP P cm_1) in (bind (for_up 0 degree 1 (fun i_3 '(rnd, _data, ptr_o) => (bind (ld rnd (0 + i_3)) (fun ld_7 => (bind (if (ld_7 <=? mode_rho) then (bind (ld rnd (0 + i_3)) (fun ld_4 => (bind (chk 32 (Z.land ld_4 2)) (fun s_5 => Some (if (negb (s_5 =? 0)) then 1 else pm_2))))) else Some 0) (fun c_6 => (bind (st _data ptr_o c_6) (fun _data => (let ptr_o := (ptr_o + 1) in Some (rnd, _data, ptr_o))))))))) (rnd, _data, ptr_o)) (fun '(rnd, _data, ptr_o) => Some (rnd, _data, ptr_o))))) (rnd, _data, ptr_o)) (fun '(rnd, _data, ptr_o) => Some (rnd, _data, ptr_o)))))))).

Lemma land2_bit : forallb (fun b => Z.eqb (Z.land b 2) (if Z.testbit b 1 then 2 else 0)) (map Z.of_nat (seq 0 256)) = true.
Proof. vm_compute. reflexivity. Qed.
Lemma land2 b : 0 <= b < 256 -> Z.land b 2 = if Z.testbit b 1 then 2 else 0.
Proof.
  intros Hb. pose proof land2_bit as F. rewrite forallb_forall in F. apply Z.eqb_eq. apply F. apply in_map_iff. exists (Z.to_nat b). split; [lia|]. apply in_seq. lia.
Qed.

Section ZO.
Variable pmf : Z -> Z.
Variables (n m : nat) (P : list Z) (rho : Z) (tape data0 : list Z).
Hypothesis Hpmf : forall c, (c < m)%nat -> pmf (nth c P 0) = nth c P 0 - 1.
Hypothesis HP : Forall (fun p => 1 <= p) (firstn m P).
Hypothesis HPl : (m <= length P)%nat.
Hypothesis Htl : (n <= length tape)%nat.
Hypothesis Htape : Forall (fun b => 0 <= b < 256) tape.
Hypothesis Hd : length data0 = (m * n)%nat.
Hypothesis Hsmall : Z.of_nat (m * n) < 2 ^ 62.
Hypothesis Hn : (0 < n)%nat.
Let bs := firstn n tape.

Definition rows (c : nat) : list Z := concat (map (fun p => map (zo_store p rho) bs) (firstn c P)).
Lemma rows_length c : (c <= m)%nat -> length (rows c) = (c * n)%nat.
Proof.
  intros Hc. unfold rows. assert (L : length (firstn c P) = c) by (rewrite firstn_length; lia). revert L. generalize (firstn c P). intros l. revert c Hc.
  induction l as [|p l IH]; intros c Hc L; cbn [map concat length] in *; [subst; reflexivity|]. destruct c as [|c]; [discriminate|].
  rewrite app_length, map_length. unfold bs at 1. rewrite firstn_length, Nat.min_l by exact Htl. rewrite (IH c) by lia. lia.
Qed.
Lemma rows_S c : (c < m)%nat -> rows (S c) = rows c ++ map (zo_store (nth c P 0) rho) bs.
Proof.
  intros Hc. unfold rows. rewrite (firstn_S_nth' P c) by lia. rewrite map_app, concat_app. cbn [map concat]. rewrite app_nil_r. reflexivity.
Qed.
Lemma bs_nth i : (i < n)%nat -> nth i bs 0 = nth i tape 0. Proof. intros H. unfold bs. rewrite nth_firstn. replace (i <? n)%nat with true by (symmetry; apply Nat.ltb_lt; exact H). reflexivity. Qed.
Lemma bs_length : length bs = n. Proof. unfold bs. rewrite firstn_length. lia. Qed.
Lemma bs_range i : (i < n)%nat -> 0 <= nth i bs 0 < 256.
Proof. intros H. rewrite bs_nth by exact H. apply (Forall_nth_R (fun b => 0 <= b < 256) tape i Htape). lia. Qed.

Theorem zo_ok : zo_sh pmf (Z.of_nat n) data0 (Z.of_nat m) P rho tape = Some (bs, set_zo n (firstn m P) rho tape, Z.of_nat (m * n)).
Proof.
  unfold zo_sh. cbv zeta.
  unfold rand_fill. rewrite Z.mul_1_r, Z.div_1_r, Nat2Z.id. change (Z.to_nat 1) with 1%nat. change (Z.to_nat 0) with 0%nat.
  rewrite bytes_of by exact Htl. rewrite splice_all by (rewrite repeat_length, firstn_length; lia). fold bs.
  (* outer loop: one row per modulus *)
  assert (Hs2 : Z.of_nat m < 2 ^ 62) by nia.
  set (PP := fun c : nat => (bs, rows c ++ skipn (c * n) data0, Z.of_nat (c * n))).
  assert (E0 : (bs, data0, 0) = PP 0%nat) by reflexivity.
  rewrite E0. rewrite (for_up_steps PP m); try lia.
  - unfold PP. cbn [bind]. rewrite skipn_all2 by lia. rewrite app_nil_r. reflexivity.
  - intros c Hc. replace (0 + 1 * Z.of_nat c) with (Z.of_nat c) by lia. unfold PP at 1. cbv beta iota zeta.
    unfold tabP. rewrite Nat2Z.id.
    assert (Hp1 : 1 <= nth c P 0).
    { assert (E : nth c P 0 = nth c (firstn m P) 0) by (rewrite nth_firstn; replace (c <? m)%nat with true by (symmetry; apply Nat.ltb_lt; exact Hc); reflexivity).
      rewrite E. apply (Forall_nth_R (fun p => 1 <= p) (firstn m P) c HP). rewrite firstn_length. lia. }
    rewrite (Hpmf c Hc).
    assert (Lr : length (rows c) = (c * n)%nat) by (apply rows_length; lia).
    rewrite <- Lr at 2.
    assert (Hpost : (n <= length (skipn (c * n) data0))%nat) by (rewrite skipn_length; nia).
    rewrite (append_steps bs (fun j => zo_store (nth c P 0) rho (nth j bs 0)) n (rows c) (skipn (c * n) data0)); try assumption; try nia.
    + cbn [bind]. rewrite Lr. unfold PP. rewrite rows_S by exact Hc. rewrite skipn_add'.
      assert (EM : map (fun j : nat => zo_store (nth c P 0) rho (nth j bs 0)) (seq 0 n) = map (zo_store (nth c P 0) rho) bs).
      { apply nth_ext0; [rewrite !map_length, seq_length, bs_length; reflexivity|]. intros j Hj. rewrite map_length, seq_length in Hj.
        rewrite tabz_nth by exact Hj. rewrite (nth_indep (map (zo_store (nth c P 0) rho) bs) 0 (zo_store (nth c P 0) rho 0)) by (rewrite map_length, bs_length; exact Hj). rewrite map_nth. reflexivity. }
      rewrite EM. replace (S c * n)%nat with (c * n + n)%nat by lia. reflexivity.
    + intros j Hj. cbv beta iota. replace (0 + Z.of_nat j) with (Z.of_nat j) by lia.
      rewrite !ld_some by (rewrite bs_length; lia). rewrite Nat2Z.id. cbn [bind]. pose proof (bs_range j Hj) as Rb.
      rewrite land2 by exact Rb.
      assert (Hchk : forall v, 0 <= v <= 2 -> chk 32 v = Some v) by (intros v Hv; apply chk_ok; change (2 ^ (32 - 1)) with 2147483648; lia).
      rewrite Hchk by (destruct (Z.testbit (nth j bs 0) 1); lia). cbn [bind].
      set (val := zo_store (nth c P 0) rho (nth j bs 0)).
      assert (EV : (if nth j bs 0 <=? rho then Some (if negb ((if Z.testbit (nth j bs 0) 1 then 2 else 0) =? 0) then 1 else nth c P 0 - 1) else Some 0) = Some val).
      { unfold val, zo_store. destruct (nth j bs 0 <=? rho); [|reflexivity]. destruct (Z.testbit (nth j bs 0) 1); reflexivity. }
      rewrite EV. cbn [bind].
      assert (LA : length (rows c ++ map (fun j0 : nat => zo_store (nth c P 0) rho (nth j0 bs 0)) (seq 0 j)) = (length (rows c) + j)%nat) by (rewrite app_length, map_length, seq_length; reflexivity).
      rewrite <- LA. rewrite st_append by (intros E; apply (f_equal (@length Z)) in E; rewrite skipn_length in E; cbn [length] in E; lia). cbn [bind].
      rewrite LA. rewrite seq_snoc_map, skipn_S_tl', app_assoc. f_equal. f_equal. lia.
Qed.
End ZO.

(* ---------------- uniform ---------------- *)
Definition uni_sh (es : Z) (maskc : Z -> Z) (decf : Z -> Z -> Z -> list Z -> (list Z * Z -> option (list Z)) -> option (list Z))
  (degree : Z) (_data : list Z) (nmoduli : Z) (P : list Z) (tape : list Z) : option (list Z) :=
  (let '(_data, tape) := rand_fill es _data 0 (degree * nmoduli * es) tape in (bind (for_up 0 nmoduli 1 (fun cm_1 _data => (bind (shl_u 64 1 (Z.log2 (tabP P cm_1) + 1)) (fun sh_2 => (let mask_3 := maskc sh_2 in (bind (for_up 0 degree 1 (fun i_4 _data => (bind (ld _data (0 + (uw 64 (i_4 + (uw 64 (degree * cm_1)))))) (fun ld_5 => decf mask_3 (tabP P cm_1) ld_5 _data (fun '(_data, tmp_8) => (bind (st _data (0 + (uw 64 (i_4 + (uw 64 (degree * cm_1))))) tmp_8) (fun _data => Some _data)))))) _data) (fun _data => Some _data)))))) _data) (fun _data => Some _data))).

Lemma append_steps' (f : nat -> Z) n pre post (body : Z -> list Z -> option (list Z)) : (n <= length post)%nat -> Z.of_nat n < 2 ^ 62 ->
  (forall j, (j < n)%nat -> body (Z.of_nat j) ((pre ++ map f (seq 0 j)) ++ skipn j post) = Some ((pre ++ map f (seq 0 (S j))) ++ skipn (S j) post)) ->
  for_up 0 (Z.of_nat n) 1 body (pre ++ post) = Some ((pre ++ map f (seq 0 n)) ++ skipn n post).
Proof.
  intros Hn Hs H.
  set (P := fun j : nat => (pre ++ map f (seq 0 j)) ++ skipn j post).
  assert (E0 : pre ++ post = P 0%nat) by (unfold P; cbn [seq map skipn]; rewrite app_nil_r; reflexivity).
  rewrite E0. apply (for_up_steps P n); try lia. intros j Hj. replace (0 + 1 * Z.of_nat j) with (Z.of_nat j) by lia. apply H. exact Hj.
Qed.
Lemma nth_app_skip (pre post : list Z) j : (j < length post)%nat -> nth (length pre + j) (pre ++ skipn 0 post) 0 = nth j post 0.
Proof. intros H. rewrite app_nth2 by lia. f_equal. lia. Qed.

Section Uniform.
Variable bits : Z.
Variable wb : nat.                       (* bytes per limb *)
Hypothesis Hbits8 : bits = 8 * Z.of_nat wb.
Hypothesis Hes : (0 < wb)%nat.
Hypothesis Hbits : bits <= 64.
Variable maskc : Z -> Z.
Variable decf : Z -> Z -> Z -> list Z -> (list Z * Z -> option (list Z)) -> option (list Z).
Hypothesis Hmask : forall b, 0 < b <= bits -> b < 64 -> maskc (uw 64 (1 * 2 ^ b)) = 2 ^ b - 1.
Hypothesis Hdec : forall b p w d K, 0 < b <= bits -> 1 <= p < 2 ^ b -> 0 <= w < 2 ^ bits -> decf (2 ^ b - 1) p w d K = K (d, uni_decode b p w).
Variables (n m : nat) (P tape data0 : list Z).
Hypothesis HP : Forall (fun p => 1 <= p < 2 ^ bits /\ p < 2 ^ 63) (firstn m P).
Hypothesis HPl : (m <= length P)%nat.
Hypothesis Htl : (m * n * wb <= length tape)%nat.
Hypothesis Htape : Forall (fun b => 0 <= b < 256) tape.
Hypothesis Hd : length data0 = (m * n)%nat.
Hypothesis Hsmall : Z.of_nat (m * n) < 2 ^ 61.
Hypothesis Hn : (0 < n)%nat.
Let ws := MemSem.words_of wb (m * n) tape.

Lemma words_length c : forall t, length (MemSem.words_of wb c t) = c.
Proof. induction c as [|c IH]; intros t; [reflexivity|]. cbn [MemSem.words_of length]. rewrite IH. reflexivity. Qed.
Lemma le_word_range bs : Forall (fun b => 0 <= b < 256) bs -> 0 <= MemSem.le_word bs < 256 ^ Z.of_nat (length bs).
Proof.
  induction bs as [|b r IH]; intros F; [cbn; lia|]. inversion F as [|? ? Hb Fr]; subst. specialize (IH Fr). cbn [MemSem.le_word length].
  rewrite Nat2Z.inj_succ, Z.pow_succ_r by lia. nia.
Qed.
Lemma pow256 : 256 ^ Z.of_nat wb = 2 ^ bits.
Proof. change 256 with (2 ^ 8). rewrite <- Z.pow_mul_r by lia. rewrite Hbits8. reflexivity. Qed.
Lemma words_range c : forall t, Forall (fun b => 0 <= b < 256) t -> (c * wb <= length t)%nat -> Forall (fun v => 0 <= v < 2 ^ bits) (MemSem.words_of wb c t).
Proof.
  induction c as [|c IH]; intros t Ft Hl; [constructor|]. cbn [MemSem.words_of]. constructor.
  - pose proof (le_word_range (firstn wb t) (Forall_firstn' _ _ _ Ft)) as R. rewrite firstn_length, Nat.min_l in R by nia. rewrite pow256 in R. exact R.
  - apply IH; [apply Forall_skipn'; exact Ft | rewrite skipn_length; nia].
Qed.
Lemma ws_length : length ws = (m * n)%nat. Proof. apply words_length. Qed.
Lemma ws_range j : (j < m * n)%nat -> 0 <= nth j ws 0 < 2 ^ bits.
Proof. intros H. apply (Forall_nth_R (fun v => 0 <= v < 2 ^ bits) ws j); [apply words_range; [exact Htape | lia] | rewrite ws_length; exact H]. Qed.

Definition urow (c : nat) : list Z := map (fun i => uni_decode (mask_bits (nth c P 0)) (nth c P 0) (nth (c * n + i) ws 0)) (seq 0 n).
Fixpoint urows (c : nat) : list Z := match c with O => [] | S c' => urows c' ++ urow c' end.
Lemma urows_length c : length (urows c) = (c * n)%nat.
Proof. induction c as [|c IH]; [reflexivity|]. cbn [urows]. rewrite app_length, IH. unfold urow. rewrite map_length, seq_length. lia. Qed.

Theorem uni_ok : uni_sh (Z.of_nat wb) maskc decf (Z.of_nat n) data0 (Z.of_nat m) P tape = Some (urows m).
Proof.
  unfold uni_sh. unfold rand_fill. change (Z.to_nat 0) with 0%nat. rewrite Nat2Z.id.
  replace (Z.to_nat (Z.of_nat n * Z.of_nat m * Z.of_nat wb / Z.of_nat wb)) with (m * n)%nat by (rewrite Z.div_mul by lia; lia).
  fold ws. rewrite splice_all by (rewrite ws_length; lia).
  assert (Hs2 : Z.of_nat m < 2 ^ 61) by nia.
  set (PP := fun c : nat => urows c ++ skipn (c * n) ws).
  assert (E0 : ws = PP 0%nat) by reflexivity. rewrite E0 at 1. rewrite (for_up_steps PP m); try lia.
  - unfold PP. cbn [bind]. rewrite skipn_all2 by (rewrite ws_length; lia). rewrite app_nil_r. reflexivity.
  - intros c Hc. replace (0 + 1 * Z.of_nat c) with (Z.of_nat c) by lia. unfold PP at 1. cbv beta.
    unfold tabP. rewrite Nat2Z.id. set (p := nth c P 0).
    assert (Hp1 : 1 <= p < 2 ^ bits /\ p < 2 ^ 63).
    { assert (E : p = nth c (firstn m P) 0) by (unfold p; rewrite nth_firstn; replace (c <? m)%nat with true by (symmetry; apply Nat.ltb_lt; exact Hc); reflexivity).
      rewrite E. apply (Forall_nth_R (fun p => 1 <= p < 2 ^ bits /\ p < 2 ^ 63) (firstn m P) c HP). rewrite firstn_length. lia. }
    destruct Hp1 as [Hp1 Hp63].
    assert (Hb : 0 < Z.log2 p + 1 <= bits /\ Z.log2 p + 1 < 64).
    { pose proof (Z.log2_nonneg p). assert (Z.log2 p < bits) by (apply Z.log2_lt_pow2; lia). assert (Z.log2 p < 63) by (apply Z.log2_lt_pow2; lia). lia. }
    assert (Hpb : 1 <= p < 2 ^ (Z.log2 p + 1)) by (split; [lia | apply Z.log2_spec; lia]).
    unfold shl_u. destruct (Z.leb_spec 0 (Z.log2 p + 1)); [|lia]. destruct (Z.ltb_spec (Z.log2 p + 1) 64); [|lia]. cbn [andb bind]. cbv zeta.
    rewrite Hmask by lia.
    assert (Lr : length (urows c) = (c * n)%nat) by apply urows_length.
    assert (Hpost : (n <= length (skipn (c * n) ws))%nat) by (rewrite skipn_length, ws_length; nia).
    rewrite (append_steps' (fun i => uni_decode (mask_bits p) p (nth (c * n + i) ws 0)) n (urows c) (skipn (c * n) ws)); try assumption; try nia.
    + cbn [bind]. unfold PP. cbn [urows]. rewrite skipn_add'. fold p. unfold urow. fold p. replace (S c * n)%nat with (c * n + n)%nat by lia. reflexivity.
    + intros j Hj.
      assert (Eidx : 0 + uw 64 (Z.of_nat j + uw 64 (Z.of_nat n * Z.of_nat c)) = Z.of_nat (c * n + j)).
      { rewrite (uw_small 64 (Z.of_nat n * Z.of_nat c)) by nia. rewrite uw_small by nia. nia. }
      rewrite Eidx.
      set (cur := (urows c ++ map (fun i : nat => uni_decode (mask_bits p) p (nth (c * n + i) ws 0)) (seq 0 j)) ++ skipn j (skipn (c * n) ws)).
      assert (LA : length (urows c ++ map (fun i : nat => uni_decode (mask_bits p) p (nth (c * n + i) ws 0)) (seq 0 j)) = (c * n + j)%nat) by (rewrite app_length, map_length, seq_length, Lr; reflexivity).
      assert (Lc : length cur = (m * n)%nat) by (unfold cur; rewrite app_length, LA, !skipn_length, ws_length; nia).
      rewrite ld_some by (rewrite Lc; nia). rewrite Nat2Z.id. cbn [bind].
      assert (Ew : nth (c * n + j) cur 0 = nth (c * n + j) ws 0).
      { unfold cur. rewrite app_nth2 by (rewrite LA; lia). rewrite LA, Nat.sub_diag. rewrite skipn_add'. rewrite nth_skipn. f_equal. lia. }
      rewrite Ew. rewrite Hdec by (try lia; apply ws_range; nia).
      unfold cur. replace (Z.of_nat (c * n + j)) with (Z.of_nat (length (urows c ++ map (fun i : nat => uni_decode (mask_bits p) p (nth (c * n + i) ws 0)) (seq 0 j)))) by (rewrite LA; reflexivity). rewrite st_append by (intros E; apply (f_equal (@length Z)) in E; rewrite !skipn_length, ws_length in E; cbn [length] in E; nia). cbn [bind].
      rewrite seq_snoc_map, skipn_S_tl', app_assoc. unfold mask_bits. reflexivity.
Qed.
End Uniform.
