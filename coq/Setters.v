From Coq Require Import ZArith Lia List Arith Bool.
Import ListNotations.
Local Open Scope Z_scope.

Lemma nth_skipn {A} (l : list A) n i d : nth i (skipn n l) d = nth (n + i) l d.
Proof. revert n; induction l as [|a l IH]; intros [|n]; simpl; auto. destruct i; reflexivity. Qed.
Lemma skipn_skipn {A} (l : list A) a b : skipn a (skipn b l) = skipn (b + a) l.
Proof. revert l; induction b; intros l; simpl; auto. destruct l; auto. now destruct a. Qed.

(* ================= C15: poly::set(It first, It last, bool reduce) ================= *)
Section Setters.
Variable n nm : nat.                       (* degree, number of moduli *)
Variable P : nat -> Z.                     (* modulus of slice cm *)
Hypothesis P_pos : forall cm, 0 < P cm.

Definition red (reduce : bool) (cm : nat) (v : Z) : Z := if reduce then v mod P cm else v.

(* one slice: the first n values of vs (reduced), zero-padded *)
Fixpoint fill (reduce : bool) (cm : nat) (k : nat) (vs : list Z) : list Z :=
  match k with O => [] | S k' => match vs with [] => 0 :: fill reduce cm k' [] | v :: r => red reduce cm v :: fill reduce cm k' r end end.

(* the loop over the moduli: viter is rewound to `first` unless size = n*nm, in which case it keeps advancing *)
Fixpoint slices (reduce full : bool) (cm cnt : nat) (first cur : list Z) : list Z :=
  match cnt with
  | O => []
  | S c => let src := if full then cur else first in
           fill reduce cm n src ++ slices reduce full (S cm) c first (skipn n src)
  end.

Definition set_list (reduce : bool) (vs : list Z) (old : list Z) : option (list Z) :=   (* None = throws, old untouched *)
  let size := length vs in
  if (n <? size)%nat && negb (size =? n * nm)%nat then None
  else Some (slices reduce (size =? n * nm)%nat 0 nm vs vs).

Lemma fill_length r cm k vs : length (fill r cm k vs) = k.
Proof. revert vs; induction k; intros [|v vs]; simpl; auto. Qed.
Lemma fill_nth r cm k vs i : (i < k)%nat -> nth i (fill r cm k vs) 0 = if (i <? length vs)%nat then red r cm (nth i vs 0) else 0.
Proof. revert vs i; induction k as [|k IH]; intros vs i Hi; [lia|]. destruct vs as [|v vs]; destruct i as [|i]; cbn [fill nth length]; auto.
  - rewrite IH by lia. reflexivity.
  - rewrite IH by lia. change (S i <? S (length vs))%nat with (i <? length vs)%nat. reflexivity. Qed.

Lemma slices_length r f cm cnt first cur : length (slices r f cm cnt first cur) = (cnt * n)%nat.
Proof. revert cm cur; induction cnt; intros; simpl; auto. rewrite app_length, fill_length, IHcnt. lia. Qed.

(* word (cm, i) of the result *)
Lemma slices_nth r f cm0 cnt first cur cm i : (cm < cnt)%nat -> (i < n)%nat ->
  nth (cm * n + i) (slices r f cm0 cnt first cur) 0 =
    let src := if f then skipn (cm * n) cur else first in
    if (i <? length src)%nat then red r (cm0 + cm) (nth i src 0) else 0.
Proof.
  revert cm0 cur cm; induction cnt as [|c IH]; intros cm0 cur cm Hcm Hi; [lia|]. cbn [slices].
  destruct cm as [|cm].
  - rewrite app_nth1 by (rewrite fill_length; lia). rewrite fill_nth by lia. simpl. rewrite Nat.add_0_r. destruct f; reflexivity.
  - rewrite app_nth2 by (rewrite fill_length; lia). rewrite fill_length. replace (S cm * n + i - n)%nat with (cm * n + i)%nat by lia.
    rewrite IH by lia. replace (S cm0 + cm)%nat with (cm0 + S cm)%nat by lia. destruct f; [|reflexivity].
    cbv zeta. rewrite skipn_skipn. replace (cm * n + n)%nat with (S cm * n)%nat by lia. reflexivity.
Qed.

(* the documented rules *)
Theorem set_short reduce vs old : (length vs <= n)%nat -> (length vs <> n * nm)%nat \/ nm = 1%nat ->
  exists res, set_list reduce vs old = Some res /\ length res = (nm * n)%nat /\
  forall cm i, (cm < nm)%nat -> (i < n)%nat ->
    nth (cm * n + i) res 0 = if (i <? length vs)%nat then red reduce cm (nth i vs 0) else 0.
Proof.
  intros Hk Hc. unfold set_list. replace (n <? length vs)%nat with false by (symmetry; apply Nat.ltb_ge; lia). cbn [andb].
  eexists. split; [reflexivity|]. split; [apply slices_length|]. intros cm i Hcm Hi. rewrite slices_nth by auto. cbv zeta. simpl plus.
  destruct (length vs =? n * nm)%nat eqn:E; [|reflexivity].
  apply Nat.eqb_eq in E. destruct Hc as [Hc|Hc]; [congruence|]. subst nm. assert (cm = 0)%nat by lia. subst cm. reflexivity.
Qed.

Theorem set_full reduce vs old : length vs = (n * nm)%nat ->
  exists res, set_list reduce vs old = Some res /\ length res = (nm * n)%nat /\
  forall cm i, (cm < nm)%nat -> (i < n)%nat -> nth (cm * n + i) res 0 = red reduce cm (nth (cm * n + i) vs 0).
Proof.
  intros Hk. unfold set_list. rewrite Hk, Nat.eqb_refl. cbn [negb]. rewrite andb_false_r.
  eexists. split; [reflexivity|]. split; [apply slices_length|]. intros cm i Hcm Hi. rewrite slices_nth by auto. cbv zeta. simpl plus.
  rewrite skipn_length, nth_skipn. replace (i <? length vs - cm * n)%nat with true; [reflexivity|].
  symmetry. apply Nat.ltb_lt. rewrite Hk. nia.
Qed.

(* anything else throws, and the polynomial is untouched (None carries no new state) *)
Theorem set_throws reduce vs old : (n < length vs)%nat -> length vs <> (n * nm)%nat -> set_list reduce vs old = None.
Proof. intros H1 H2. unfold set_list. replace (n <? length vs)%nat with true by (symmetry; apply Nat.ltb_lt; lia).
  replace (length vs =? n * nm)%nat with false by (symmetry; apply Nat.eqb_neq; lia). reflexivity. Qed.
End Setters.
Print Assumptions set_full.
Print Assumptions set_short.
