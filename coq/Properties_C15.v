(* C15 — coefficient-list setters follow the documented length and reduction rules.  Statements only (Setters.v). *)
From Coq Require Import ZArith List Arith.
From NTT Require Import Setters.
Local Open Scope Z_scope.

(* k <= degree: value i reduced into every modulus at coefficient i, zero fill *)
Theorem C15_short : forall n nm P reduce vs old, (length vs <= n)%nat -> (length vs <> n * nm)%nat \/ nm = 1%nat ->
  exists res, set_list n nm P reduce vs old = Some res /\ length res = (nm * n)%nat /\
  forall cm i, (cm < nm)%nat -> (i < n)%nat ->
    nth (cm * n + i) res 0 = if (i <? length vs)%nat then red P reduce cm (nth i vs 0) else 0.
Proof. exact set_short. Qed.
Print Assumptions C15_short.

(* k = degree * moduli: slice by slice *)
Theorem C15_full : forall n nm P reduce vs old, length vs = (n * nm)%nat ->
  exists res, set_list n nm P reduce vs old = Some res /\ length res = (nm * n)%nat /\
  forall cm i, (cm < nm)%nat -> (i < n)%nat -> nth (cm * n + i) res 0 = red P reduce cm (nth (cm * n + i) vs 0).
Proof. exact set_full. Qed.
Print Assumptions C15_full.

(* otherwise: throws, nothing written *)
Theorem C15_throws : forall n nm P reduce vs old, (n < length vs)%nat -> length vs <> (n * nm)%nat -> set_list n nm P reduce vs old = None.
Proof. exact set_throws. Qed.
Print Assumptions C15_throws.

(* reduction: canonical non-negative residue for integers of any sign and magnitude; disabled = verbatim *)
Theorem C15_red : forall P cm v, 0 < P cm -> 0 <= red P true cm v < P cm /\ red P true cm v = v mod P cm /\ red P false cm v = v.
Proof. intros P cm v H. unfold red. split; [apply Z.mod_pos_bound; exact H | split; reflexivity]. Qed.
Print Assumptions C15_red.
