(* C15 — coefficient-list setters follow the documented length and reduction rules.  Statements only (Setters.v). *)
From Coq Require Import ZArith List Arith.
From NTT Require Import Setters.
From NTT Require SetterSpec GenSetterEq.
From NTT Require Setters SetterSpec SetMpzSpec ScalarSetSpec.
From NTT.gen Require GenLoop GenCreators.
From NTT.gen Require GenLoop.
Local Open Scope Z_scope.

(* k <= degree: value i reduced into every modulus at coefficient i, zero fill *)
Theorem C15_short : forall n nm P reduce vs old, (length vs <= n)%nat -> (length vs <> n * nm)%nat \/ nm = 1%nat ->
  exists res, set_list n nm P reduce vs old = Some res /\ length res = (nm * n)%nat /\
  forall cm i, (cm < nm)%nat -> (i < n)%nat ->
    nth (cm * n + i) res 0 = if (i <? length vs)%nat then red P reduce cm (nth i vs 0) else 0.
Proof. exact set_short. Qed.
Print Assumptions C15_short.

(* k = degree * moduli: slice by slice *)
Theorem C15_full : forall n nm P reduce vs old, length vs = (n * nm)%nat ->
  exists res, set_list n nm P reduce vs old = Some res /\ length res = (nm * n)%nat /\
  forall cm i, (cm < nm)%nat -> (i < n)%nat -> nth (cm * n + i) res 0 = red P reduce cm (nth (cm * n + i) vs 0).
Proof. exact set_full. Qed.
Print Assumptions C15_full.

(* otherwise: throws, nothing written *)
Theorem C15_throws : forall n nm P reduce vs old, (n < length vs)%nat -> length vs <> (n * nm)%nat -> set_list n nm P reduce vs old = None.
Proof. exact set_throws. Qed.
Print Assumptions C15_throws.

(* reduction: canonical non-negative residue for integers of any sign and magnitude; disabled = verbatim *)
Theorem C15_red : forall P cm v, 0 < P cm -> 0 <= red P true cm v < P cm /\ red P true cm v = v mod P cm /\ red P false cm v = v.
Proof. intros P cm v H. unfold red. split; [apply Z.mod_pos_bound; exact H | split; reflexivity]. Qed.
Print Assumptions C15_red.

(* THE SETTER OF THE SOURCE: poly::set(It first, It last, bool reduce_coeffs), instantiated at It = const value_type* (the instance behind
   the initializer-list and pointer setters and constructors), translated by tools/cxxloop2coq.py on every run into gen/GenLoop.v --
   [first, last) is a range of an array, this->_data an array, every access bounds-checked, `throw` = no result, the two non-canonical
   `for` loops become fuelled while loops -- writes exactly Setters.set_list, the model of the theorems above, for every degree, number
   of moduli, input range and flag, and throws exactly when the model does.  16-bit limbs: the remainder `*viter % p` is evaluated in the promoted
   type int. *)
Theorem C15_source_set_list : forall n nm P vals data0 f l reduce fuel, (f <= l <= length vals)%nat -> length data0 = (nm * n)%nat ->
  Z.of_nat (nm * n) < 2 ^ 61 -> Z.of_nat n < 2 ^ 61 -> Z.of_nat nm < 2 ^ 61 -> Z.of_nat (length vals) < 2 ^ 61 -> (n < fuel)%nat -> (nm <= length P)%nat ->
  let out := set_list n nm (fun cm => nth cm P 0) reduce (firstn (l - f) (skipn f vals)) data0 in
  let res := option_map (fun s : SetterSpec.SS => fst (fst s)) in
  (Forall (fun p => 0 < p < 2 ^ 16) (firstn nm P) -> Forall (fun v => 0 <= v < 2 ^ 16) vals ->
     res (GenLoop.gen_set_list_u16 fuel (Z.of_nat n) data0 vals (Z.of_nat f) (Z.of_nat l) reduce (Z.of_nat nm) P) = out) /\
  (Forall (fun p => 0 < p < 2 ^ 32) (firstn nm P) -> Forall (fun v => 0 <= v < 2 ^ 32) vals ->
     res (GenLoop.gen_set_list_u32 fuel (Z.of_nat n) data0 vals (Z.of_nat f) (Z.of_nat l) reduce (Z.of_nat nm) P) = out) /\
  (Forall (fun p => 0 < p < 2 ^ 64) (firstn nm P) -> Forall (fun v => 0 <= v < 2 ^ 64) vals ->
     res (GenLoop.gen_set_list_u64 fuel (Z.of_nat n) data0 vals (Z.of_nat f) (Z.of_nat l) reduce (Z.of_nat nm) P) = out).
Proof.
  exact (fun n nm P vals data0 f l reduce fuel Hfl Hd Hs Hn Hnm Hl Hfu HPl =>
    conj (GenSetterEq.source_set_list_u16 n nm P vals data0 f l reduce fuel Hfl Hd Hs Hn Hnm Hl Hfu HPl)
   (conj (GenSetterEq.source_set_list_u32 n nm P vals data0 f l reduce fuel Hfl Hd Hs Hn Hnm Hl Hfu HPl)
         (GenSetterEq.source_set_list_u64 n nm P vals data0 f l reduce fuel Hfl Hd Hs Hn Hnm Hl Hfu HPl))).
Qed.
Print Assumptions C15_source_set_list.

(* THE BIG-INTEGER SETTER OF THE SOURCE: poly::set_mpz(It first, It last) of gmp.hpp at It = const mpz_class* (the instance behind every
   mpz_t / mpz_class / array / initializer-list setter, constructor and operator=), translated on every run into gen/GenLoop.v
   (mpz_fdiv_ui with GmpSem's meaning: the floor remainder): for ARBITRARY integers of any sign and magnitude it writes exactly
   Setters.set_list with the reduction on -- value i reduced into every modulus and zero fill when k <= degree, slice by slice when
   k = degree x moduli, throws (no result, nothing written) otherwise. *)
Theorem C15_source_set_mpz : forall n nm P vals data0 f l fuel, (f <= l <= length vals)%nat -> length data0 = (nm * n)%nat ->
  Z.of_nat (nm * n) < 2 ^ 61 -> Z.of_nat n < 2 ^ 61 -> Z.of_nat nm < 2 ^ 61 -> Z.of_nat (length vals) < 2 ^ 61 -> (n < fuel)%nat -> (nm <= length P)%nat ->
  let out := Setters.set_list n nm (fun cm => List.nth cm P 0) true (List.firstn (l - f) (List.skipn f vals)) data0 in
  let res := option_map (fun s : SetterSpec.SS => fst (fst s)) in
  (List.Forall (fun p => 0 < p < 2 ^ 16) (List.firstn nm P) -> res (GenLoop.gen_set_mpz_u16 fuel (Z.of_nat n) data0 vals (Z.of_nat f) (Z.of_nat l) (Z.of_nat nm) P) = out) /\
  (List.Forall (fun p => 0 < p < 2 ^ 32) (List.firstn nm P) -> res (GenLoop.gen_set_mpz_u32 fuel (Z.of_nat n) data0 vals (Z.of_nat f) (Z.of_nat l) (Z.of_nat nm) P) = out) /\
  (List.Forall (fun p => 0 < p < 2 ^ 64) (List.firstn nm P) -> res (GenLoop.gen_set_mpz_u64 fuel (Z.of_nat n) data0 vals (Z.of_nat f) (Z.of_nat l) (Z.of_nat nm) P) = out).
Proof.
  exact (fun n nm P vals data0 f l fuel Hfl Hd Hs Hn Hnm Hl Hfu HPl =>
    conj (SetMpzSpec.source_set_mpz_u16 n nm P vals data0 f l fuel Hfl Hd Hs Hn Hnm Hl Hfu HPl)
   (conj (SetMpzSpec.source_set_mpz_u32 n nm P vals data0 f l fuel Hfl Hd Hs Hn Hnm Hl Hfu HPl)
         (SetMpzSpec.source_set_mpz_u64 n nm P vals data0 f l fuel Hfl Hd Hs Hn Hnm Hl Hfu HPl))).
Qed.
Print Assumptions C15_source_set_mpz.

(* THE SCALAR SETTER OF THE SOURCE: poly::set(value_type v, bool reduce_coeffs), read from the source on every run (its `if (v == 0) std::fill(begin(),
   end(), 0) else set({v}, reduce_coeffs)` and the forwarding of the initializer-list overload to set(values.begin(), values.end(), reduce_coeffs)
   are matched structurally; the list setter it ends in is the translated one): a single scalar gives the constant polynomial -- v, reduced
   or verbatim, at coefficient 0 of every modulus and 0 everywhere else -- and 0 gives the zero polynomial. *)
Theorem C15_source_set_scalar : forall n nm P data0 v reduce fuel, (1 <= n)%nat -> length data0 = (nm * n)%nat -> Z.of_nat (nm * n) < 2 ^ 61 -> Z.of_nat n < 2 ^ 61 -> Z.of_nat nm < 2 ^ 61 -> (n < fuel)%nat -> (nm <= length P)%nat ->
  let const := fun res => length res = (nm * n)%nat /\ forall cm i, (cm < nm)%nat -> (i < n)%nat -> nth (cm * n + i) res 0 = if (i =? 0)%nat then red (fun cm => nth cm P 0) reduce cm v else 0 in
  (Forall (fun p => 0 < p < 2 ^ 16) (firstn nm P) -> 0 <= v < 2 ^ 16 -> exists res, GenLoop.gen_set_scalar_u16 fuel (Z.of_nat n) data0 v reduce (Z.of_nat nm) P = Some res /\ const res) /\
  (Forall (fun p => 0 < p < 2 ^ 32) (firstn nm P) -> 0 <= v < 2 ^ 32 -> exists res, GenLoop.gen_set_scalar_u32 fuel (Z.of_nat n) data0 v reduce (Z.of_nat nm) P = Some res /\ const res) /\
  (Forall (fun p => 0 < p < 2 ^ 64) (firstn nm P) -> 0 <= v < 2 ^ 64 -> exists res, GenLoop.gen_set_scalar_u64 fuel (Z.of_nat n) data0 v reduce (Z.of_nat nm) P = Some res /\ const res).
Proof. exact ScalarSetSpec.source_set_scalar. Qed.
Print Assumptions C15_source_set_scalar.

(* non-vacuity: the translated big-integer and scalar setters RUN on the 16- and 32-bit table rows: negative and huge integers get their
   non-negative residues, a scalar above the modulus is reduced into coefficient 0 of every modulus, 0 clears the polynomial *)
Example C15_source_nonvacuous :
  option_map (fun s : SetterSpec.SS => fst (fst s)) (GenLoop.gen_set_mpz_u16 10%nat 4 (repeat 7 8) (-1 :: 15362 :: -15361 :: 2 ^ 70 :: nil) 0 4 2 (15361 :: 13313 :: nil))
    = Some (15360 :: 1 :: 0 :: 8592 :: 13312 :: 2049 :: 11265 :: 2722 :: nil) /\
  GenLoop.gen_set_scalar_u32 10%nat 4 (repeat 7 8) 1073479682 true 2 (1073479681 :: 1072496641 :: nil) = Some (1 :: 0 :: 0 :: 0 :: 983041 :: 0 :: 0 :: 0 :: nil) /\
  GenLoop.gen_set_scalar_u32 10%nat 4 (repeat 7 8) 0 true 2 (1073479681 :: 1072496641 :: nil) = Some (repeat 0 8).
Proof. vm_compute. repeat split. Qed.
Print Assumptions C15_source_nonvacuous.

(* THE ENTRY POINTS.  The constructors, assignment operators and setter wrappers of class poly are read from the source on every run
   (tools/cxxcreators2coq.py -> gen/GenCreators.v): each is a one-call wrapper of set(...) / set_mpz(...) on the same object, its arguments being its
   own parameters in order, or `p0.begin(), p0.end()` and the remaining parameters, or the one-element list `{p0}`; poly() delegates to poly(0).
   Every one of them reaches, through at most three such calls, one of the implementations set(It, It, bool), set_mpz(It, It),
   set(value_type, bool), set(uniform), set(non_uniform), set(hwt_dist), set(ZO_dist), set(gaussian) -- the functions translated from the source
   and proved to be the models (C15_source_set_list, C15_source_set_mpz, C15_source_set_scalar above; C09; C12_source_set_hwt) -- and the 29
   entry points the properties speak about are among them. *)
From NTT Require CreatorsSpec.
Theorem C15_source_creators :
  List.forallb (fun e => CreatorsSpec.reaches 3 (CreatorsSpec.callee e)) GenCreators.gen_poly_creators = true /\
  List.forallb (fun k => List.existsb (fun e => CreatorsSpec.key_eqb (CreatorsSpec.src e) k) GenCreators.gen_poly_creators) CreatorsSpec.creators_needed = true.
Proof. exact CreatorsSpec.creators_reach_implementations. Qed.
Print Assumptions C15_source_creators.
Theorem C15_source_creator_present : forall k, List.In k CreatorsSpec.creators_needed ->
  exists e, List.In e GenCreators.gen_poly_creators /\ CreatorsSpec.src e = k /\ CreatorsSpec.reaches 3 (CreatorsSpec.callee e) = true.
Proof. exact CreatorsSpec.creator_present. Qed.
Print Assumptions C15_source_creator_present.
