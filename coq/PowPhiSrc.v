(* core::ntt_pow_phi of the source (all builds), translated with the expression-template statement as the oracle ExprSem.expr_shoup_mul:
   on the arrays core::initialize() builds (C02_source_initialize: row c of phis / shoupphis = NTTInst.phis and its Shoup companions, row c of
   omegas = FlatTable.flat of omega at its start and the Shoup companions degree words further), for ANY number of moduli and any degree
   2^k, k = 4..30, row c of the polynomial becomes NTTInst.ntt_fwd_s of row c -- the extracted forward transform on which the round-trip,
   linearity and product theorems are stated.  The loop over the moduli, the row offsets into _data and omegas (both tables in one array),
   and the pointer-array alias shoupomegas[cm] = omegas[cm] + degree are the translated ones; each iteration is C05_source_loops_anywhere. *)
From Coq Require Import ZArith List Lia Bool Arith.
From NTT Require Import Algebra Rev Layer Transform Structural Tables FlatTable Inverse NTTInst CxxSem MemSem ExprSem LoopSpec LoopRun LoopInst Setters InvNttAll SourceModel ScalarOps GenCorrect RebaseAll.
From NTT.gen Require Import Gen GenLoop.
Import ListNotations.
Local Open Scope Z_scope.

Definition nttT := Z -> list Z -> Z -> list Z -> Z -> list Z -> Z -> Z -> option (list Z * Z * Z * Z * bool).
Definition pow_phi_sh (ntt : nttT) (bits : Z) (degree : Z) (nmoduli : Z) (op_data : list Z) (phis : list Z) (shoupphis : list Z) (omegas : list Z) (P : list Z) : option (list Z) :=
  (bind (expr_shoup_mul bits degree nmoduli op_data phis shoupphis P) (fun op_data => (bind (for_up 0 nmoduli 1 (fun cm op_data => (bind (ntt degree op_data (cm * degree + 0) omegas (cm * (degree * 2)) omegas (cm * (degree * 2) + degree) (tabP P cm)) (fun '(op_data, _, _, _, ret_) => Some (op_data)))) op_data) (fun op_data => Some op_data)))).

Definition slice (l : list Z) (a len : nat) : list Z := firstn len (skipn a l).
Lemma slice_nth l a len i : (i < len)%nat -> (a + len <= length l)%nat -> nth i (slice l a len) 0 = nth (a + i) l 0.
Proof. intros. unfold slice. apply firstn_skipn_nth; assumption. Qed.
Lemma slice_length l a len : (a + len <= length l)%nat -> length (slice l a len) = len.
Proof. intros. unfold slice. rewrite firstn_length, skipn_length. lia. Qed.
Lemma slice_split l a len : (a + len <= length l)%nat -> l = firstn a l ++ slice l a len ++ skipn (a + len) l.
Proof. intros. unfold slice. rewrite <- (skipn_skipn l len a). rewrite firstn_skipn. rewrite firstn_skipn. reflexivity. Qed.

Lemma map_opt_some {A B} (f : A -> option B) (g : A -> B) l : (forall a, In a l -> f a = Some (g a)) -> map_opt f l = Some (map g l).
Proof. induction l as [|a r IH]; intros H; cbn [map_opt map]; [reflexivity|]. rewrite (H a (or_introl eq_refl)). cbn [bind]. rewrite IH by (intros b Hb; apply H; right; exact Hb). reflexivity. Qed.

(* rows of length n laid one after the other *)
Lemma concat_rows_length (f : nat -> list Z) n : (forall c, length (f c) = n) -> forall a cnt, length (concat (map f (seq a cnt))) = (cnt * n)%nat.
Proof. intros H a cnt. revert a. induction cnt as [|cnt IH]; intros a; cbn [seq map concat]; [reflexivity|]. rewrite app_length, H, IH. lia. Qed.
Lemma seq_split3 nm j : (j < nm)%nat -> seq 0 nm = seq 0 j ++ [j] ++ seq (S j) (nm - j - 1).
Proof. intros H. replace nm with (j + (1 + (nm - j - 1)))%nat at 1 by lia. rewrite seq_app. reflexivity. Qed.

Lemma al16 k0 j : (4 <= S k0)%nat -> Z.of_nat (j * 2 ^ S k0) mod 16 = 0.
Proof.
  intros H. replace (S k0) with (4 + (S k0 - 4))%nat by lia. rewrite Nat.pow_add_r. change (2 ^ 4)%nat with 16%nat.
  replace (j * (16 * 2 ^ (S k0 - 4)))%nat with ((j * 2 ^ (S k0 - 4)) * 16)%nat by lia. rewrite Nat2Z.inj_mul. apply Z.mod_mul. discriminate.
Qed.

Section Fwd.
Variables (bits : Z) (ntt : nttT) (K k0 nm : nat) (P roots : list Z) (data ph sph om : list Z).
Notation k := (S k0).
Notation n := (2 ^ S k0)%nat.
Definition pc (c : nat) : Z := nth c P 0.
Definition gc (c : nat) : Z := nth c roots 0.
Definition phis_c (c : nat) : list Z := phis (pc c) (gc c) K k0.
Definition om_c (c : nat) : Z := omega (pc c) (gc c) K k0.
Definition sh (c : nat) (v : Z) : Z := (v * 2 ^ bits) / pc c.
Definition row (l : list Z) (c : nat) : list Z := slice l (c * n) n.
Definition Fc (c : nat) (x : list Z) : list Z := ntt_core bits (pc c) k (fun lvl => nth lvl (prep (pc c) k (om_c c)) nil) x.
Definition tw (c : nat) : list Z := twist (pc c) k0 (phis_c c) (row data c).

Hypothesis Hk : (4 <= k <= 30)%nat.
Hypothesis Hbits : 0 < bits.
Hypothesis Hnm : Z.of_nat nm < 2 ^ 28.
Hypothesis Hdata : length data = (nm * n)%nat.
Hypothesis Hph : (nm * n <= length ph)%nat.
Hypothesis Hsph : (nm * n <= length sph)%nat.
Hypothesis Hom : (nm * (2 * n) <= length om)%nat.
Hypothesis Hp : forall c, (c < nm)%nat -> 1 < pc c /\ pc c <= 2 ^ bits.
Hypothesis Hmsh : forall c, (c < nm)%nat -> forall x y, 0 <= x < pc c -> 0 <= y < pc c -> msh_k bits (pc c) x y (sh c y) = Some ((x * y) mod pc c).
Hypothesis Hcan : forall c, (c < nm)%nat -> Forall (fun v => 0 <= v < pc c) (row data c).
Hypothesis Hph_c : forall c, (c < nm)%nat -> row ph c = phis_c c.
Hypothesis Hsph_c : forall c, (c < nm)%nat -> row sph c = map (sh c) (phis_c c).
Hypothesis Hom_c : forall c, (c < nm)%nat -> slice om (c * (2 * n)) (n - 1) = flat (pc c) k (om_c c) /\ slice om (c * (2 * n) + n) (n - 1) = map (sh c) (flat (pc c) k (om_c c)).
Hypothesis Hany : forall c, (c < nm)%nat -> forall x0 px sx pw sw pw' sw' T T', length x0 = n -> Forall (fun v => 0 <= v < 2 ^ bits) x0 ->
  Z.of_nat (length px) mod 16 = 0 -> Z.of_nat (length pw) mod 16 = 0 -> Z.of_nat (length pw') mod 16 = 0 ->
  T = pw ++ (flat (pc c) k (om_c c) ++ []) ++ sw -> T' = pw' ++ (map (sh c) (flat (pc c) k (om_c c)) ++ []) ++ sw' ->
  exists a b d, ntt (Z.of_nat n) (px ++ x0 ++ sx) (Z.of_nat (length px)) T (Z.of_nat (length pw)) T' (Z.of_nat (length pw')) (pc c) = Some ((px ++ Fc c x0 ++ sx, a, b, d), true).

Lemma npos : (0 < n)%nat. Proof. apply Nat.neq_0_lt_0, Nat.pow_nonzero. discriminate. Qed.
Lemma tw_len c : length (tw c) = n. Proof. unfold tw, twist. apply tab_length. Qed.
Lemma Fc_len c x : length x = n -> length (Fc c x) = n. Proof. intros H. unfold Fc. apply ntt_core_length; [exact Hbits | lia | exact H]. Qed.
Lemma phis_rng c : (c < nm)%nat -> Forall (fun v => 0 <= v < pc c) (phis_c c).
Proof. intros Hc. destruct (Hp c Hc) as [A B]. unfold phis_c, phis. apply LoopInst.pows_range; lia. Qed.
Lemma phis_len c : length (phis_c c) = n. Proof. unfold phis_c, phis. apply pows_length. Qed.

(* step 1: the twist *)
Lemma twist_step : expr_shoup_mul bits (Z.of_nat n) (Z.of_nat nm) data ph sph P = Some (concat (map tw (seq 0 nm))).
Proof.
  unfold expr_shoup_mul. cbv zeta. rewrite !Nat2Z.id.
  replace ((0 <=? Z.of_nat n) && (0 <=? Z.of_nat nm) && (nm * n <=? length data)%nat && (nm * n <=? length ph)%nat && (nm * n <=? length sph)%nat) with true.
  2:{ symmetry. rewrite !andb_true_iff. repeat split; try (apply Z.leb_le; lia); apply Nat.leb_le; lia. }
  rewrite (map_opt_some _ tw).
  - cbn [bind]. rewrite skipn_all2 by lia. rewrite app_nil_r. reflexivity.
  - intros c Hc. apply in_seq in Hc. assert (Hc' : (c < nm)%nat) by lia. unfold tw, twist, tab.
    apply map_opt_some. intros i Hi. apply in_seq in Hi. assert (Hi' : (i < n)%nat) by lia.
    assert (B : (c * n + n <= nm * n)%nat) by nia.
    unfold tabP. rewrite Nat2Z.id. fold (pc c).
    rewrite <- (slice_nth data (c * n) n i Hi') by lia. fold (row data c).
    rewrite <- (slice_nth ph (c * n) n i Hi') by lia. fold (row ph c). rewrite (Hph_c c Hc').
    rewrite <- (slice_nth sph (c * n) n i Hi') by lia. fold (row sph c). rewrite (Hsph_c c Hc').
    rewrite (nth_indep (map (sh c) (phis_c c)) 0 (sh c 0)) by (rewrite map_length, phis_len; exact Hi'). rewrite map_nth.
    apply (Hmsh c Hc').
    + apply (Forall_nth_R (fun v => 0 <= v < pc c)); [apply Hcan; exact Hc' | unfold row; rewrite slice_length by lia; exact Hi'].
    + apply (Forall_nth_R (fun v => 0 <= v < pc c)); [apply phis_rng; exact Hc' | rewrite phis_len; exact Hi'].
Qed.

(* step 2: the loop over the moduli *)
Definition Dj (j : nat) : list Z := concat (map (fun c => if (c <? j)%nat then Fc c (tw c) else tw c) (seq 0 nm)).
Definition pxj (j : nat) : list Z := concat (map (fun c => Fc c (tw c)) (seq 0 j)).
Definition sxj (j : nat) : list Z := concat (map tw (seq (S j) (nm - j - 1))).
Lemma pxj_len j : length (pxj j) = (j * n)%nat.
Proof. unfold pxj. apply concat_rows_length. intros c. apply Fc_len, tw_len. Qed.
Lemma Dj_split j jj : (j < nm)%nat -> (jj = j \/ jj = S j) -> Dj jj = pxj j ++ (if (j <? jj)%nat then Fc j (tw j) else tw j) ++ sxj j.
Proof.
  intros Hj Hjj. unfold Dj. rewrite (seq_split3 nm j Hj). rewrite !map_app, !concat_app. cbn [map concat]. rewrite app_nil_r. f_equal; [|f_equal].
  - unfold pxj. f_equal. apply map_ext_in. intros c Hc. apply in_seq in Hc. replace (c <? jj)%nat with true by (symmetry; apply Nat.ltb_lt; lia). reflexivity.
  - unfold sxj. f_equal. apply map_ext_in. intros c Hc. apply in_seq in Hc. replace (c <? jj)%nat with false by (symmetry; apply Nat.ltb_ge; lia). reflexivity.
Qed.
Lemma Dj_0 : Dj 0 = concat (map tw (seq 0 nm)). Proof. unfold Dj. f_equal. Qed.
Lemma Dj_nm : Dj nm = concat (map (fun c => Fc c (tw c)) (seq 0 nm)).
Proof. unfold Dj. f_equal. apply map_ext_in. intros c Hc. apply in_seq in Hc. replace (c <? nm)%nat with true by (symmetry; apply Nat.ltb_lt; lia). reflexivity. Qed.

Theorem pow_phi_ok : pow_phi_sh ntt bits (Z.of_nat n) (Z.of_nat nm) data ph sph om P = Some (concat (map (fun c => ntt_fwd_s bits (pc c) (gc c) K k0 (row data c)) (seq 0 nm))).
Proof.
  unfold pow_phi_sh. rewrite twist_step. cbn [bind]. rewrite <- Dj_0.
  rewrite (for_up_steps Dj nm); try lia.
  - cbn [bind]. rewrite Dj_nm. reflexivity.
  - intros j Hj. rewrite (Dj_split j j Hj (or_introl eq_refl)), (Dj_split j (S j) Hj (or_intror eq_refl)).
    rewrite Nat.ltb_irrefl. replace (j <? S j)%nat with true by (symmetry; apply Nat.ltb_lt; lia).
    destruct (Hp j Hj) as [Hp1 Hp2]. destruct (Hom_c j Hj) as [O1 O2].
    assert (B1 : (j * (2 * n) + n + (n - 1) <= length om)%nat) by (pose proof npos; nia).
    pose proof (slice_split om (j * (2 * n)) (n - 1) ltac:(lia)) as S1. rewrite O1 in S1. rewrite <- (app_nil_r (flat (pc j) k (om_c j))) in S1.
    pose proof (slice_split om (j * (2 * n) + n) (n - 1) ltac:(lia)) as S2. rewrite O2 in S2. rewrite <- (app_nil_r (map (sh j) (flat (pc j) k (om_c j)))) in S2.
    assert (L1 : length (firstn (j * (2 * n)) om) = (j * (2 * n))%nat) by (rewrite firstn_length; lia).
    assert (L2 : length (firstn (j * (2 * n) + n) om) = (j * (2 * n) + n)%nat) by (rewrite firstn_length; lia).
    pose proof (twist_rng (pc j) k0 (phis_c j) (row data j) bits ltac:(lia) Hp2) as TR. fold (tw j) in TR.
    destruct (Hany j Hj (tw j) (pxj j) (sxj j) _ _ _ _ om om (tw_len j) TR
      ltac:(rewrite pxj_len; apply al16; lia) ltac:(rewrite L1; replace (j * (2 * n))%nat with ((2 * j) * n)%nat by lia; apply al16; lia)
      ltac:(rewrite L2; replace (j * (2 * n) + n)%nat with ((2 * j + 1) * n)%nat by lia; apply al16; lia) S1 S2) as (a & b & d & E).
    rewrite pxj_len, L1, L2 in E.
    replace (0 + 1 * Z.of_nat j) with (Z.of_nat j) by lia. unfold tabP. rewrite Nat2Z.id. fold (pc j).
    replace (Z.of_nat j * Z.of_nat n + 0) with (Z.of_nat (j * n)) by lia.
    replace (Z.of_nat j * (Z.of_nat n * 2)) with (Z.of_nat (j * (2 * n))) by lia.
    replace (Z.of_nat (j * (2 * n)) + Z.of_nat n) with (Z.of_nat (j * (2 * n) + n)) by lia.
    rewrite E. reflexivity.
Qed.
End Fwd.

(* the nine translated functions have that shape *)
Lemma pp_shape_serial_u16 : gen_ntt_pow_phi_serial_u16 = pow_phi_sh gen_ntt_serial_u16 16. Proof. reflexivity. Qed.
Lemma pp_shape_sse_u16 : gen_ntt_pow_phi_sse_u16 = pow_phi_sh gen_ntt_sse_u16 16. Proof. reflexivity. Qed.
Lemma pp_shape_avx2_u16 : gen_ntt_pow_phi_avx2_u16 = pow_phi_sh gen_ntt_avx2_u16 16. Proof. reflexivity. Qed.
Lemma pp_shape_serial_u32 : gen_ntt_pow_phi_serial_u32 = pow_phi_sh gen_ntt_serial_u32 32. Proof. reflexivity. Qed.
Lemma pp_shape_sse_u32 : gen_ntt_pow_phi_sse_u32 = pow_phi_sh gen_ntt_sse_u32 32. Proof. reflexivity. Qed.
Lemma pp_shape_avx2_u32 : gen_ntt_pow_phi_avx2_u32 = pow_phi_sh gen_ntt_avx2_u32 32. Proof. reflexivity. Qed.
Lemma pp_shape_serial_u64 : gen_ntt_pow_phi_serial_u64 = pow_phi_sh gen_ntt_serial_u64 64. Proof. reflexivity. Qed.
Lemma pp_shape_sse_u64 : gen_ntt_pow_phi_sse_u64 = pow_phi_sh gen_ntt_sse_u64 64. Proof. reflexivity. Qed.
Lemma pp_shape_avx2_u64 : gen_ntt_pow_phi_avx2_u64 = pow_phi_sh gen_ntt_avx2_u64 64. Proof. reflexivity. Qed.

Section All.
Variables (K k0 nm : nat) (P roots : list Z) (data ph sph om : list Z).
Notation k := (S k0).
Notation n := (2 ^ S k0)%nat.
Hypothesis Hk : (4 <= k <= 30)%nat.
Hypothesis Hnm : Z.of_nat nm < 2 ^ 28.
Hypothesis Hdata : length data = (nm * n)%nat.
Hypothesis Hph : (nm * n <= length ph)%nat.
Hypothesis Hsph : (nm * n <= length sph)%nat.
Hypothesis Hom : (nm * (2 * n) <= length om)%nat.
Hypothesis Hcan : forall c, (c < nm)%nat -> Forall (fun v => 0 <= v < pc P c) (row k0 data c).

Definition tables_ok (bits : Z) : Prop := forall c, (c < nm)%nat ->
  row k0 ph c = phis_c K k0 P roots c /\ row k0 sph c = map (sh bits P c) (phis_c K k0 P roots c) /\
  slice om (c * (2 * n)) (n - 1) = flat (pc P c) k (om_c K k0 P roots c) /\ slice om (c * (2 * n) + n) (n - 1) = map (sh bits P c) (flat (pc P c) k (om_c K k0 P roots c)).
Definition fwd_out (bits : Z) := Some (concat (map (fun c => ntt_fwd_s bits (pc P c) (gc roots c) K k0 (row k0 data c)) (seq 0 nm))).

Lemma one_build (bits : Z) (ntt : nttT) : 0 < bits ->
  (forall c, (c < nm)%nat -> ScalarOps.Hrow bits (pc P c)) ->
  (forall p, ScalarOps.Hrow bits p -> forall x y, 0 <= x < p -> 0 <= y < p -> msh_k bits p x y ((y * 2 ^ bits) / p) = Some ((x * y) mod p)) ->
  tables_ok bits ->
  (forall c, (c < nm)%nat -> forall x0 px sx pw sw pw' sw' T T', length x0 = n -> Forall (fun v => 0 <= v < 2 ^ bits) x0 ->
    Z.of_nat (length px) mod 16 = 0 -> Z.of_nat (length pw) mod 16 = 0 -> Z.of_nat (length pw') mod 16 = 0 ->
    T = pw ++ (flat (pc P c) k (om_c K k0 P roots c) ++ []) ++ sw -> T' = pw' ++ (map (sh bits P c) (flat (pc P c) k (om_c K k0 P roots c)) ++ []) ++ sw' ->
    exists a b d, ntt (Z.of_nat n) (px ++ x0 ++ sx) (Z.of_nat (length px)) T (Z.of_nat (length pw)) T' (Z.of_nat (length pw')) (pc P c) = Some ((px ++ Fc bits K k0 P roots c x0 ++ sx, a, b, d), true)) ->
  pow_phi_sh ntt bits (Z.of_nat n) (Z.of_nat nm) data ph sph om P = fwd_out bits.
Proof.
  intros Hb HR Hm HT HA. unfold fwd_out.
  apply (pow_phi_ok bits ntt K k0 nm P roots data ph sph om Hk Hb Hnm Hdata Hph Hsph Hom).
  - intros c Hc. pose proof (ScalarOps.Hrow_facts bits (pc P c) (HR c Hc)) as (A & B & C & D & E). destruct (HR c Hc) as [W3 [W1 W2]].
    split; [|lia]. assert (2 ^ 1 <= 2 ^ (bits - 3)) by (apply Z.pow_le_mono_r; lia). change (2 ^ 1) with 2 in *. lia.
  - intros c Hc x y Hx Hy. apply (Hm (pc P c) (HR c Hc) x y Hx Hy).
  - exact Hcan.
  - intros c Hc. apply (HT c Hc).
  - intros c Hc. apply (HT c Hc).
  - intros c Hc. destruct (HT c Hc) as (_ & _ & A & B). split; assumption.
  - exact HA.
Qed.
End All.

(* every build, every limb type *)
Theorem source_ntt_pow_phi K k0 nm P roots data ph sph om : (4 <= S k0 <= 30)%nat -> Z.of_nat nm < 2 ^ 28 ->
  length data = (nm * 2 ^ S k0)%nat -> (nm * 2 ^ S k0 <= length ph)%nat -> (nm * 2 ^ S k0 <= length sph)%nat -> (nm * (2 * 2 ^ S k0) <= length om)%nat ->
  (forall c, (c < nm)%nat -> Forall (fun v => 0 <= v < pc P c) (row k0 data c)) ->
  ((forall c, (c < nm)%nat -> ScalarOps.Hrow 16 (pc P c)) -> tables_ok K k0 nm P roots ph sph om 16 ->
     gen_ntt_pow_phi_serial_u16 (Z.of_nat (2 ^ S k0)) (Z.of_nat nm) data ph sph om P = fwd_out K k0 nm P roots data 16 /\
     gen_ntt_pow_phi_sse_u16 (Z.of_nat (2 ^ S k0)) (Z.of_nat nm) data ph sph om P = fwd_out K k0 nm P roots data 16 /\
     gen_ntt_pow_phi_avx2_u16 (Z.of_nat (2 ^ S k0)) (Z.of_nat nm) data ph sph om P = fwd_out K k0 nm P roots data 16) /\
  ((forall c, (c < nm)%nat -> ScalarOps.Hrow 32 (pc P c)) -> tables_ok K k0 nm P roots ph sph om 32 ->
     gen_ntt_pow_phi_serial_u32 (Z.of_nat (2 ^ S k0)) (Z.of_nat nm) data ph sph om P = fwd_out K k0 nm P roots data 32 /\
     gen_ntt_pow_phi_sse_u32 (Z.of_nat (2 ^ S k0)) (Z.of_nat nm) data ph sph om P = fwd_out K k0 nm P roots data 32 /\
     gen_ntt_pow_phi_avx2_u32 (Z.of_nat (2 ^ S k0)) (Z.of_nat nm) data ph sph om P = fwd_out K k0 nm P roots data 32) /\
  ((forall c, (c < nm)%nat -> ScalarOps.Hrow 64 (pc P c)) -> tables_ok K k0 nm P roots ph sph om 64 ->
     gen_ntt_pow_phi_serial_u64 (Z.of_nat (2 ^ S k0)) (Z.of_nat nm) data ph sph om P = fwd_out K k0 nm P roots data 64 /\
     gen_ntt_pow_phi_sse_u64 (Z.of_nat (2 ^ S k0)) (Z.of_nat nm) data ph sph om P = fwd_out K k0 nm P roots data 64 /\
     gen_ntt_pow_phi_avx2_u64 (Z.of_nat (2 ^ S k0)) (Z.of_nat nm) data ph sph om P = fwd_out K k0 nm P roots data 64).
Proof.
  intros Hk Hnm Hd Hph Hsph Hom Hcan.
  assert (ANY : forall c x0 px sx pw sw pw' sw' T, 1 < pc P c -> length x0 = (2 ^ S k0)%nat ->
     Z.of_nat (length px) mod 16 = 0 -> Z.of_nat (length pw) mod 16 = 0 -> Z.of_nat (length pw') mod 16 = 0 -> _)
    by (intros c x0 px sx pw sw pw' sw' T H1 Hx A1 A2 A3; exact (RebaseAll.source_loops_anywhere (S k0) (pc P c) (om_c K k0 P roots c) [] [] x0 px sx pw sw pw' sw' T ltac:(lia) H1 (Forall_nil _) Hx A1 A2 A3)).
  cbv zeta in ANY.
  split; [|split]; intros HR HT.
  - assert (G : forall ntt, (forall c x0 px sx pw sw pw' sw' T T', (c < nm)%nat -> length x0 = (2 ^ S k0)%nat -> Forall (fun v => 0 <= v < 2 ^ 16) x0 ->
        Z.of_nat (length px) mod 16 = 0 -> Z.of_nat (length pw) mod 16 = 0 -> Z.of_nat (length pw') mod 16 = 0 ->
        T = pw ++ (flat (pc P c) (S k0) (om_c K k0 P roots c) ++ []) ++ sw -> T' = pw' ++ (map (sh 16 P c) (flat (pc P c) (S k0) (om_c K k0 P roots c)) ++ []) ++ sw' ->
        exists a b d, ntt (Z.of_nat (2 ^ S k0)) (px ++ x0 ++ sx) (Z.of_nat (length px)) T (Z.of_nat (length pw)) T' (Z.of_nat (length pw')) (pc P c) = Some ((px ++ Fc 16 K k0 P roots c x0 ++ sx, a, b, d), true)) ->
        pow_phi_sh ntt 16 (Z.of_nat (2 ^ S k0)) (Z.of_nat nm) data ph sph om P = fwd_out K k0 nm P roots data 16).
    { intros ntt HA. apply (one_build K k0 nm P roots data ph sph om Hk Hnm Hd Hph Hsph Hom Hcan 16 ntt ltac:(lia) HR); [|exact HT|].
      - intros p Hp x y Hx Hy. exact (GenCorrect.se_msh _ _ _ _ _ _ _ _ (GenCorrect.source_exact16 p Hp) x y Hx Hy).
      - intros c Hc x0 px sx pw sw pw' sw' T T' Hx HRx A1 A2 A3 ET ET'. eapply HA; eassumption. }
    assert (P1 : forall c, (c < nm)%nat -> 1 < pc P c /\ pc P c < 2 ^ 14).
    { intros c Hc. destruct (HR c Hc) as [_ [W1 W2]]. change (2 ^ (16 - 3)) with 8192 in W1. change (2 ^ (16 - 2)) with (2 ^ 14) in W2. lia. }
    rewrite pp_shape_serial_u16, pp_shape_sse_u16, pp_shape_avx2_u16. repeat split; apply G; intros c x0 px sx pw sw pw' sw' T T' Hc Hx HRx A1 A2 A3 ET ET';
      destruct (P1 c Hc) as [Q1 Q2]; destruct (ANY c x0 px sx pw sw pw' sw' T Q1 Hx A1 A2 A3 ET) as (L16 & _ & _);
      destruct (L16 Q2 (Forall_nil _) HRx T' ET') as (E1 & E2 & E3); eauto.
  - assert (G : forall ntt, (forall c x0 px sx pw sw pw' sw' T T', (c < nm)%nat -> length x0 = (2 ^ S k0)%nat -> Forall (fun v => 0 <= v < 2 ^ 32) x0 ->
        Z.of_nat (length px) mod 16 = 0 -> Z.of_nat (length pw) mod 16 = 0 -> Z.of_nat (length pw') mod 16 = 0 ->
        T = pw ++ (flat (pc P c) (S k0) (om_c K k0 P roots c) ++ []) ++ sw -> T' = pw' ++ (map (sh 32 P c) (flat (pc P c) (S k0) (om_c K k0 P roots c)) ++ []) ++ sw' ->
        exists a b d, ntt (Z.of_nat (2 ^ S k0)) (px ++ x0 ++ sx) (Z.of_nat (length px)) T (Z.of_nat (length pw)) T' (Z.of_nat (length pw')) (pc P c) = Some ((px ++ Fc 32 K k0 P roots c x0 ++ sx, a, b, d), true)) ->
        pow_phi_sh ntt 32 (Z.of_nat (2 ^ S k0)) (Z.of_nat nm) data ph sph om P = fwd_out K k0 nm P roots data 32).
    { intros ntt HA. apply (one_build K k0 nm P roots data ph sph om Hk Hnm Hd Hph Hsph Hom Hcan 32 ntt ltac:(lia) HR); [|exact HT|].
      - intros p Hp x y Hx Hy. exact (GenCorrect.se_msh _ _ _ _ _ _ _ _ (GenCorrect.source_exact32 p Hp) x y Hx Hy).
      - intros c Hc x0 px sx pw sw pw' sw' T T' Hx HRx A1 A2 A3 ET ET'. eapply HA; eassumption. }
    assert (P1 : forall c, (c < nm)%nat -> 1 < pc P c /\ 4 * pc P c <= 2 ^ 32).
    { intros c Hc. pose proof (ScalarOps.Hrow_facts 32 _ (HR c Hc)) as (A & B & _). destruct (HR c Hc) as [_ [W1 W2]]. change (2 ^ (32 - 3)) with 536870912 in W1. lia. }
    rewrite pp_shape_serial_u32, pp_shape_sse_u32, pp_shape_avx2_u32. repeat split; apply G; intros c x0 px sx pw sw pw' sw' T T' Hc Hx HRx A1 A2 A3 ET ET';
      destruct (P1 c Hc) as [Q1 Q2]; destruct (ANY c x0 px sx pw sw pw' sw' T Q1 Hx A1 A2 A3 ET) as (_ & L32 & _);
      destruct (L32 Q2 (Forall_nil _) HRx T' ET') as (E1 & E2 & E3); eauto.
  - assert (G : forall ntt, (forall c x0 px sx pw sw pw' sw' T T', (c < nm)%nat -> length x0 = (2 ^ S k0)%nat -> Forall (fun v => 0 <= v < 2 ^ 64) x0 ->
        Z.of_nat (length px) mod 16 = 0 -> Z.of_nat (length pw) mod 16 = 0 -> Z.of_nat (length pw') mod 16 = 0 ->
        T = pw ++ (flat (pc P c) (S k0) (om_c K k0 P roots c) ++ []) ++ sw -> T' = pw' ++ (map (sh 64 P c) (flat (pc P c) (S k0) (om_c K k0 P roots c)) ++ []) ++ sw' ->
        exists a b d, ntt (Z.of_nat (2 ^ S k0)) (px ++ x0 ++ sx) (Z.of_nat (length px)) T (Z.of_nat (length pw)) T' (Z.of_nat (length pw')) (pc P c) = Some ((px ++ Fc 64 K k0 P roots c x0 ++ sx, a, b, d), true)) ->
        pow_phi_sh ntt 64 (Z.of_nat (2 ^ S k0)) (Z.of_nat nm) data ph sph om P = fwd_out K k0 nm P roots data 64).
    { intros ntt HA. apply (one_build K k0 nm P roots data ph sph om Hk Hnm Hd Hph Hsph Hom Hcan 64 ntt ltac:(lia) HR); [|exact HT|].
      - intros p Hp x y Hx Hy. exact (GenCorrect.se_msh _ _ _ _ _ _ _ _ (GenCorrect.source_exact64 p Hp) x y Hx Hy).
      - intros c Hc x0 px sx pw sw pw' sw' T T' Hx HRx A1 A2 A3 ET ET'. eapply HA; eassumption. }
    assert (P1 : forall c, (c < nm)%nat -> 1 < pc P c /\ 4 * pc P c <= 2 ^ 64).
    { intros c Hc. pose proof (ScalarOps.Hrow_facts 64 _ (HR c Hc)) as (A & B & _). destruct (HR c Hc) as [_ [W1 W2]]. change (2 ^ (64 - 3)) with 2305843009213693952 in W1. lia. }
    rewrite pp_shape_serial_u64, pp_shape_sse_u64, pp_shape_avx2_u64. repeat split; apply G; intros c x0 px sx pw sw pw' sw' T T' Hc Hx HRx A1 A2 A3 ET ET';
      destruct (P1 c Hc) as [Q1 Q2]; destruct (ANY c x0 px sx pw sw pw' sw' T Q1 Hx A1 A2 A3 ET) as (_ & _ & L64);
      destruct (L64 Q2 (Forall_nil _) HRx T' ET') as (E1 & E2 & E3); eauto.
Qed.

(* the pointwise form in which C02_source_initialize describes the arrays core::initialize() leaves gives tables_ok *)
Lemma tables_of_init K k0 nm P roots ph sph om bits : (nm * 2 ^ S k0 <= length ph)%nat -> (nm * 2 ^ S k0 <= length sph)%nat -> (nm * (2 * 2 ^ S k0) <= length om)%nat ->
  (forall c, (c < nm)%nat -> let p := nth c P 0 in let g := nth c roots 0 in let shp := map (fun v => (v * 2 ^ bits) / p) in let n := (2 ^ S k0)%nat in
     (forall i, (i < n)%nat -> nth (c * n + i) ph 0 = nth i (phis p g K k0) 0 /\ nth (c * n + i) sph 0 = nth i (shp (phis p g K k0)) 0) /\
     (forall i, (i < n - 1)%nat -> nth (c * (n * 2) + i) om 0 = nth i (flat p (S k0) (omega p g K k0)) 0 /\ nth (c * (n * 2) + n + i) om 0 = nth i (shp (flat p (S k0) (omega p g K k0))) 0)) ->
  tables_ok K k0 nm P roots ph sph om bits.
Proof.
  intros Lph Lsph Lom H c Hc. specialize (H c Hc). cbv zeta in H. destruct H as [H1 H2]. fold (pc P c) (gc roots c) in H1, H2.
  pose proof (flat_length (pc P c) (S k0) (om_c K k0 P roots c)) as FL.
  assert (Np : (0 < 2 ^ S k0)%nat) by (apply Nat.neq_0_lt_0, Nat.pow_nonzero; discriminate).
  assert (B : (c * 2 ^ S k0 + 2 ^ S k0 <= nm * 2 ^ S k0)%nat) by nia.
  assert (B2 : (c * (2 * 2 ^ S k0) + 2 ^ S k0 + (2 ^ S k0 - 1) <= nm * (2 * 2 ^ S k0))%nat) by nia.
  unfold row, phis_c, sh, om_c. repeat split.
  - apply nth_ext0; [rewrite slice_length by lia; unfold phis; rewrite pows_length; reflexivity|]. rewrite slice_length by lia. intros i Hi. rewrite slice_nth by lia. apply H1. exact Hi.
  - apply nth_ext0; [rewrite slice_length by lia; rewrite map_length; unfold phis; rewrite pows_length; reflexivity|]. rewrite slice_length by lia. intros i Hi. rewrite slice_nth by lia. apply H1. exact Hi.
  - apply nth_ext0; [rewrite slice_length by lia; unfold om_c in FL; lia|]. rewrite slice_length by lia. intros i Hi. rewrite slice_nth by lia.
    replace (c * (2 * 2 ^ S k0))%nat with (c * (2 ^ S k0 * 2))%nat by lia. apply H2. exact Hi.
  - apply nth_ext0; [rewrite slice_length by lia; rewrite map_length; unfold om_c in FL; lia|]. rewrite slice_length by lia. intros i Hi. rewrite slice_nth by lia.
    replace (c * (2 * 2 ^ S k0) + 2 ^ S k0 + i)%nat with (c * (2 ^ S k0 * 2) + 2 ^ S k0 + i)%nat by lia. apply H2. exact Hi.
Qed.

(* the same with the arrays described pointwise, as C02_source_initialize describes them *)
Theorem source_ntt_pow_phi_pointwise K k0 nm P roots data ph sph om : (4 <= S k0 <= 30)%nat -> Z.of_nat nm < 2 ^ 28 ->
  length data = (nm * 2 ^ S k0)%nat -> (nm * 2 ^ S k0 <= length ph)%nat -> (nm * 2 ^ S k0 <= length sph)%nat -> (nm * (2 * 2 ^ S k0) <= length om)%nat ->
  let n := (2 ^ S k0)%nat in let row := fun c => firstn n (skipn (c * n) data) in
  (forall c, (c < nm)%nat -> Forall (fun v => 0 <= v < nth c P 0) (row c)) ->
  let tables := fun bits => forall c, (c < nm)%nat -> let p := nth c P 0 in let g := nth c roots 0 in let shp := map (fun v => (v * 2 ^ bits) / p) in
     (forall i, (i < n)%nat -> nth (c * n + i) ph 0 = nth i (phis p g K k0) 0 /\ nth (c * n + i) sph 0 = nth i (shp (phis p g K k0)) 0) /\
     (forall i, (i < n - 1)%nat -> nth (c * (n * 2) + i) om 0 = nth i (flat p (S k0) (omega p g K k0)) 0 /\
                                   nth (c * (n * 2) + n + i) om 0 = nth i (shp (flat p (S k0) (omega p g K k0))) 0) in
  let out := fun bits => Some (concat (map (fun c => ntt_fwd_s bits (nth c P 0) (nth c roots 0) K k0 (row c)) (seq 0 nm))) in
  ((forall c, (c < nm)%nat -> ScalarOps.Hrow 16 (nth c P 0)) -> tables 16 ->
     gen_ntt_pow_phi_serial_u16 (Z.of_nat n) (Z.of_nat nm) data ph sph om P = out 16 /\ gen_ntt_pow_phi_sse_u16 (Z.of_nat n) (Z.of_nat nm) data ph sph om P = out 16 /\ gen_ntt_pow_phi_avx2_u16 (Z.of_nat n) (Z.of_nat nm) data ph sph om P = out 16) /\
  ((forall c, (c < nm)%nat -> ScalarOps.Hrow 32 (nth c P 0)) -> tables 32 ->
     gen_ntt_pow_phi_serial_u32 (Z.of_nat n) (Z.of_nat nm) data ph sph om P = out 32 /\ gen_ntt_pow_phi_sse_u32 (Z.of_nat n) (Z.of_nat nm) data ph sph om P = out 32 /\ gen_ntt_pow_phi_avx2_u32 (Z.of_nat n) (Z.of_nat nm) data ph sph om P = out 32) /\
  ((forall c, (c < nm)%nat -> ScalarOps.Hrow 64 (nth c P 0)) -> tables 64 ->
     gen_ntt_pow_phi_serial_u64 (Z.of_nat n) (Z.of_nat nm) data ph sph om P = out 64 /\ gen_ntt_pow_phi_sse_u64 (Z.of_nat n) (Z.of_nat nm) data ph sph om P = out 64 /\ gen_ntt_pow_phi_avx2_u64 (Z.of_nat n) (Z.of_nat nm) data ph sph om P = out 64).
Proof.
  intros Hk Hnm Hd Hph Hsph Hom n row Hcan tables out.
  destruct (source_ntt_pow_phi K k0 nm P roots data ph sph om Hk Hnm Hd Hph Hsph Hom Hcan) as (A16 & A32 & A64).
  split; [|split]; intros HR HT.
  - apply A16; [exact HR | apply tables_of_init; assumption].
  - apply A32; [exact HR | apply tables_of_init; assumption].
  - apply A64; [exact HR | apply tables_of_init; assumption].
Qed.
