From Coq Require Import ZArith Lia List Arith Morphisms Setoid.
From NTT Require Import Functors Algebra Layer Transform Rev.
Import ListNotations.
Local Open Scope Z_scope.

(* inverse o forward = identity for the twisted (negacyclic) transform, list level, every degree 2^(S k0) *)
Section Roundtrip.
Variable w : Z.  Hypothesis Hw : 0 < w.
Variable p : Z.  Hypothesis Hp : 0 < p.  Hypothesis H4p : 4 * p <= 2 ^ w.
Variable k0 : nat.
Let k := S k0.
Let n := (2 ^ k)%nat.
Variables phi phi' ninv : Z.
Hypothesis Hphi : cg p (pw phi (2 ^ k)) (-1).
Hypothesis Hinv : cg p (phi * phi') 1.
Hypothesis Hninv : cg p (ninv * Z.of_nat n) 1.
Let om := phi * phi.
Let om' := phi' * phi'.
Variables tws twsi : nat -> list Z.
Hypothesis tws_ok : forall lvl i, (lvl < k)%nat -> (i < 2 ^ (k - lvl - 1))%nat ->
  0 <= nth i (tws lvl) 0 < p /\ cg p (nth i (tws lvl) 0) (pw om (2 ^ lvl * i)).
Hypothesis twsi_ok : forall lvl i, (lvl < k)%nat -> (i < 2 ^ (k - lvl - 1))%nat ->
  0 <= nth i (twsi lvl) 0 < p /\ cg p (nth i (twsi lvl) 0) (pw om' (2 ^ lvl * i)).
Variables phis cs : list Z.
Hypothesis phis_ok : forall i, (i < n)%nat -> cg p (nth i phis 0) (pw phi i).
Hypothesis cs_ok : forall i, (i < n)%nat -> cg p (nth i cs 0) (ninv * pw phi' i).

Local Instance cgE : Equivalence (cg p) := cg_equiv p.
Local Instance cgA : Proper (cg p ==> cg p ==> cg p) Z.add := add_cg p Hp.
Local Instance cgM : Proper (cg p ==> cg p ==> cg p) Z.mul := mul_cg p Hp.
Local Instance cgP : Proper (cg p ==> eq ==> cg p) pw := pw_cg p Hp.

Definition tab (f : nat -> Z) : list Z := map f (seq 0 n).
Lemma tab_length f : length (tab f) = n. Proof. unfold tab. now rewrite map_length, seq_length. Qed.
Lemma tab_nth f i : (i < n)%nat -> nth i (tab f) 0 = f i.
Proof. intros Hi. unfold tab. rewrite (nth_indep _ 0 (f 0%nat)) by (rewrite map_length, seq_length; auto).
  rewrite map_nth, seq_nth; auto. Qed.

Definition twist (x : list Z) : list Z := tab (fun i => (nth i x 0 * nth i phis 0) mod p).
Definition BR (y : list Z) : list Z := tab (fun i => nth (rev k i) y 0).
Definition fwd (x : list Z) : list Z := ntt_list w p k tws (twist x).
Definition inv (y : list Z) : list Z :=
  tab (fun i => (nth i (BR (ntt_list w p k twsi (BR y))) 0 * nth i cs 0) mod p).

Lemma om_half : forall k', k = S k' -> cg p (pw om (2 ^ k')) (-1).
Proof. intros k' E. injection E as <-. unfold om. rewrite pw_mul_base, <- pw_add.
  replace (2 ^ k0 + 2 ^ k0)%nat with (2 ^ k)%nat by (unfold k; rewrite Nat.pow_succ_r'; lia). exact Hphi. Qed.
Lemma om_inv : cg p (om * om') 1.
Proof. unfold om, om'. transitivity ((phi * phi') * (phi * phi')); [unfold cg; f_equal; ring|]. rewrite Hinv. reflexivity. Qed.
Lemma om'_half : forall k', k = S k' -> cg p (pw om' (2 ^ k')) (-1).
Proof. intros k' E. pose proof (om_half k' E) as H.
  assert (O : cg p (pw (om * om') (2 ^ k')) 1) by (rewrite om_inv; rewrite pw_1; reflexivity).
  rewrite pw_mul_base, H in O. transitivity (-1 * (-1 * pw om' (2 ^ k'))); [unfold cg; f_equal; ring|].
  rewrite O. reflexivity. Qed.

Theorem inv_fwd x : length x = n -> (forall i, (i < n)%nat -> 0 <= nth i x 0 < p) -> inv (fwd x) = x.
Proof.
  intros Hlen Hx.
  (* 1. the twisted input *)
  set (a := fun t => (nth t x 0 * nth t phis 0) mod p).
  assert (Tw : forall i, (i < n)%nat -> 0 <= nth i (twist x) 0 < 2 * p /\ nth i (twist x) 0 = a i).
  { intros i Hi. unfold twist. rewrite tab_nth by auto. pose proof (Z.mod_pos_bound (nth i x 0 * nth i phis 0) p Hp). split; [lia | reflexivity]. }
  (* 2. forward transform *)
  destruct (ntt_list_correct w Hw p Hp H4p om k om_half tws tws_ok a (twist x) (tab_length _) Tw) as [LF F].
  fold (fwd x) in LF, F.
  (* 3. bit-reverse: natural-order spectrum X_r *)
  set (X := fun r => (sum (2 ^ k) (fun t => a t * pw om (t * r))) mod p).
  assert (G : forall r, (r < n)%nat -> 0 <= nth r (BR (fwd x)) 0 < 2 * p /\ nth r (BR (fwd x)) 0 = X r).
  { intros r Hr. unfold BR. rewrite tab_nth by auto. pose proof (rev_lt k r) as Hrr. rewrite F by exact Hrr.
    rewrite rev_involutive by exact Hr. unfold X. pose proof (Z.mod_pos_bound (sum (2 ^ k) (fun t => a t * pw om (t * r))) p Hp). split; [lia | reflexivity]. }
  (* 4. second transform with the inverse roots *)
  destruct (ntt_list_correct w Hw p Hp H4p om' k om'_half twsi twsi_ok X (BR (fwd x)) (tab_length _) G) as [LZ Zs].
  (* 5./6. bit-reverse again, scale, and compare entry by entry *)
  apply (nth_ext _ _ 0 0). { unfold inv. rewrite tab_length. auto. }
  intros s Hs. unfold inv in Hs |- *. rewrite tab_length in Hs. rewrite tab_nth by auto.
  unfold BR at 1. rewrite tab_nth by auto. rewrite Zs by (apply rev_lt). rewrite rev_involutive by exact Hs.
  destruct (Hx s Hs) as [X0 X1]. rewrite <- (Z.mod_small (nth s x 0) p) by lia.
  change (cg p ((sum (2 ^ k) (fun t => X t * pw om' (t * s))) mod p * nth s cs 0) (nth s x 0)).
  (* the inner sum is n * a_s *)
  assert (S1 : cg p (sum (2 ^ k) (fun t => X t * pw om' (t * s))) (Z.of_nat n * a s)).
  { transitivity (sum (2 ^ S k0) (fun r => sum (2 ^ S k0) (fun t => a t * pw om (t * r)) * pw om' (r * s))).
    - apply sum_cg; auto. intros r _. apply mul_cg; auto; [|reflexivity]. unfold X, cg. now rewrite Z.mod_mod by lia.
    - apply (inv_dft p Hp k0 om om' a s); [apply om_half; reflexivity | apply om_inv | exact Hs]. }
  assert (M : cg p ((sum (2 ^ k) (fun t => X t * pw om' (t * s))) mod p) (Z.of_nat n * a s)).
  { rewrite <- S1. unfold cg. now rewrite Z.mod_mod by lia. }
  rewrite M, (cs_ok s Hs).
  assert (A : cg p (a s) (nth s x 0 * pw phi s)).
  { unfold a. transitivity (nth s x 0 * nth s phis 0); [unfold cg; now rewrite Z.mod_mod by lia|]. now rewrite (phis_ok s Hs). }
  rewrite A.
  transitivity (nth s x 0 * (ninv * Z.of_nat n) * (pw phi s * pw phi' s)); [unfold cg; f_equal; ring|].
  rewrite Hninv, <- pw_mul_base, Hinv, pw_1. unfold cg; f_equal; ring.
Qed.

(* ---- the product theorem (C01) ---- *)
Definition psi (j : nat) : Z := phi * pw om (rev k j).

(* the forward transform is evaluation at the n roots psi_j of X^n + 1 *)
Lemma fwd_nth x j : length x = n -> (j < n)%nat ->
  length (fwd x) = n /\ nth j (fwd x) 0 = (sum n (fun t => nth t x 0 * pw (psi j) t)) mod p.
Proof.
  intros Hlen Hj.
  set (a := fun t => (nth t x 0 * nth t phis 0) mod p).
  assert (Tw : forall i, (i < n)%nat -> 0 <= nth i (twist x) 0 < 2 * p /\ nth i (twist x) 0 = a i).
  { intros i Hi. unfold twist. rewrite tab_nth by auto. pose proof (Z.mod_pos_bound (nth i x 0 * nth i phis 0) p Hp). split; [lia | reflexivity]. }
  destruct (ntt_list_correct w Hw p Hp H4p om k om_half tws tws_ok a (twist x) (tab_length _) Tw) as [LF F].
  split; [exact LF|]. unfold fwd. rewrite F by exact Hj.
  change (cg p (sum (2 ^ k) (fun t => a t * pw om (t * rev k j))) (sum n (fun t => nth t x 0 * pw (psi j) t))).
  apply sum_cg; auto. intros t Ht. unfold psi. rewrite pw_mul_base, <- pw_mul.
  transitivity (nth t x 0 * nth t phis 0 * pw om (t * rev k j)).
  - apply mul_cg; auto; [|reflexivity]. unfold a, cg. now rewrite Z.mod_mod by lia.
  - rewrite (phis_ok t Ht). replace (rev k j * t)%nat with (t * rev k j)%nat by lia. unfold cg; f_equal; ring.
Qed.

Lemma psi_root j : cg p (pw (psi j) n) (-1).
Proof.
  unfold psi. rewrite pw_mul_base. fold k in Hphi. unfold n. rewrite Hphi.
  rewrite <- pw_mul. replace (rev k j * 2 ^ k)%nat with (2 ^ k * rev k j)%nat by lia. rewrite pw_mul.
  assert (O : cg p (pw om (2 ^ k)) 1).
  { unfold om. rewrite pw_mul_base, Hphi. unfold cg; f_equal. }
  rewrite O, pw_1. unfold cg; f_equal; ring.
Qed.

(* ---- forward o inverse = identity (the other direction of C02), by the symmetric computation ---- *)
Theorem fwd_inv y : length y = n -> (forall i, (i < n)%nat -> 0 <= nth i y 0 < p) -> fwd (inv y) = y.
Proof.
  intros Hlen Hy.
  set (b := fun r => nth (rev k r) y 0).
  assert (G : forall r, (r < n)%nat -> 0 <= nth r (BR y) 0 < 2 * p /\ nth r (BR y) 0 = b r).
  { intros r Hr. unfold BR. rewrite tab_nth by auto. pose proof (Hy (rev k r) (rev_lt k r)). split; [lia | reflexivity]. }
  destruct (ntt_list_correct w Hw p Hp H4p om' k om'_half twsi twsi_ok b (BR y) (tab_length _) G) as [LZ Zs].
  set (W := fun s => (sum (2 ^ k) (fun t => b t * pw om' (t * s))) mod p).
  assert (Zi : forall s, (s < n)%nat -> nth s (inv y) 0 = (W s * nth s cs 0) mod p).
  { intros s Hs. unfold inv. rewrite tab_nth by auto. unfold BR at 1. rewrite tab_nth by auto.
    rewrite Zs by (apply rev_lt). rewrite rev_involutive by exact Hs. reflexivity. }
  assert (Li : length (inv y) = n) by (unfold inv; apply tab_length).
  apply (nth_ext _ _ 0 0). { destruct (fwd_nth (inv y) 0%nat Li ltac:(unfold n; apply pow2_pos)) as [L _]. lia. }
  intros j Hj. destruct (fwd_nth (inv y) 0%nat Li ltac:(unfold n; apply pow2_pos)) as [L0 _]. rewrite L0 in Hj.
  destruct (fwd_nth (inv y) j Li Hj) as [_ ->].
  destruct (Hy j Hj) as [Y0 Y1]. rewrite <- (Z.mod_small (nth j y 0) p) by lia.
  change (cg p (sum n (fun t => nth t (inv y) 0 * pw (psi j) t)) (nth j y 0)).
  transitivity (ninv * sum n (fun t => sum n (fun u => b u * pw om' (u * t)) * pw om (t * rev k j))).
  { rewrite Z.mul_comm, <- sum_scale. apply sum_cg; auto. intros t Ht. rewrite (Zi t Ht).
    transitivity (W t * nth t cs 0 * pw (psi j) t); [apply mul_cg; auto; [unfold cg; now rewrite Z.mod_mod by lia | reflexivity]|].
    rewrite (cs_ok t Ht). unfold psi. rewrite pw_mul_base, <- pw_mul.
    transitivity (W t * ((ninv * (pw phi' t * pw phi t)) * pw om (rev k j * t))); [unfold cg; f_equal; ring|].
    transitivity (sum n (fun u => b u * pw om' (u * t)) * ((ninv * (pw phi' t * pw phi t)) * pw om (rev k j * t))).
    { apply mul_cg; auto; [|reflexivity]. unfold W, cg. fold n. now rewrite Z.mod_mod by lia. }
    rewrite <- pw_mul_base. assert (E : cg p (phi' * phi) 1) by (rewrite Z.mul_comm; exact Hinv). rewrite E, pw_1.
    replace (rev k j * t)%nat with (t * rev k j)%nat by lia. unfold cg; f_equal; ring. }
  assert (S1 : cg p (sum n (fun t => sum n (fun u => b u * pw om' (u * t)) * pw om (t * rev k j))) (Z.of_nat n * b (rev k j))).
  { apply (inv_dft p Hp k0 om' om b (rev k j)); [apply om'_half; reflexivity | rewrite Z.mul_comm; apply om_inv | apply rev_lt]. }
  rewrite S1. unfold b. rewrite rev_involutive by exact Hj.
  transitivity ((ninv * Z.of_nat n) * nth j y 0); [unfold cg; f_equal; ring|]. rewrite Hninv. unfold cg; f_equal; ring.
Qed.

Definition pointwise (u v : list Z) : list Z := tab (fun j => (nth j u 0 * nth j v 0) mod p).
Definition negacyclic (a b : list Z) : list Z :=
  tab (fun i => (negacyc n (fun t => nth t a 0) (fun t => nth t b 0) i) mod p).

Theorem ntt_product a b : length a = n -> length b = n ->
  inv (pointwise (fwd a) (fwd b)) = negacyclic a b.
Proof.
  intros La Lb.
  set (c := negacyclic a b).
  assert (Lc : length c = n) by (unfold c, negacyclic; apply tab_length).
  assert (Cc : forall i, (i < n)%nat -> 0 <= nth i c 0 < p).
  { intros i Hi. unfold c, negacyclic. rewrite tab_nth by auto. apply Z.mod_pos_bound; lia. }
  rewrite <- (inv_fwd c Lc Cc). f_equal.
  (* fwd c = pointwise product, entry by entry *)
  apply (nth_ext _ _ 0 0).
  { unfold pointwise. rewrite tab_length. now destruct (fwd_nth c 0%nat Lc ltac:(unfold n; apply pow2_pos)). }
  intros j Hj. unfold pointwise in Hj |- *. rewrite tab_length in Hj. rewrite tab_nth by auto.
  destruct (fwd_nth a j La Hj) as [_ ->]. destruct (fwd_nth b j Lb Hj) as [_ ->]. destruct (fwd_nth c j Lc Hj) as [_ ->].
  change (cg p ((sum n (fun t => nth t a 0 * pw (psi j) t)) mod p * ((sum n (fun t => nth t b 0 * pw (psi j) t)) mod p))
               (sum n (fun t => nth t c 0 * pw (psi j) t))).
  transitivity (sum n (fun t => nth t a 0 * pw (psi j) t) * sum n (fun t => nth t b 0 * pw (psi j) t)).
  { apply mul_cg; auto; unfold cg; now rewrite Z.mod_mod by lia. }
  rewrite <- (negacyc_eval p Hp n (psi j) (fun t => nth t a 0) (fun t => nth t b 0) (psi_root j)).
  apply sum_cg; auto. intros t Ht. apply mul_cg; auto; [|reflexivity].
  unfold c, negacyclic. rewrite tab_nth by auto. unfold cg. now rewrite Z.mod_mod by lia.
Qed.

End Roundtrip.
Print Assumptions inv_fwd.
Print Assumptions ntt_product.
Print Assumptions fwd_inv.
