(* C07/C08: executable element-wise evaluation of expression trees with the real functors (machine-word wrap),
   its exactness, and the link to the aliasing-safe blockwise assignment of Expr.v. *)
From Coq Require Import ZArith Lia List Arith Bool.
From NTT Require Import Functors ScalarOps Expr.
Import ListNotations.
Local Open Scope Z_scope.

Inductive etree :=
| ELeaf (h : nat) | EAdd (a b : etree) | ESub (a b : etree) | EMul (a b : etree)
| EShoup3 (a b b' : etree) | ECShoup (a : etree) | EEq (a b : etree) | ENeq (a b : etree).

Section Elt.
Variables w p pn : Z.

Definition fmul (x y : Z) : Z := if w =? 64 then mulmod64 p pn x y else mulmod_gen w p x y.
Definition fcsh (x : Z) : Z := match compute_shoup w p x with Some v => v | None => 0 end.
Definition feqz (x y : Z) : Z := if x =? y then 1 else 0.
Definition fneqz (x y : Z) : Z := if x =? y then 0 else 1.

(* what the functor chain computes for one coefficient; env h = word of operand h at this (modulus, index) *)
Fixpoint eval (env : nat -> Z) (t : etree) : Z :=
  match t with
  | ELeaf h => env h
  | EAdd a b => addmod w p (eval env a) (eval env b)
  | ESub a b => submod w p (eval env a) (eval env b)
  | EMul a b => fmul (eval env a) (eval env b)
  | EShoup3 a b b' => mulmod_shoup w p (eval env a) (eval env b) (eval env b')
  | ECShoup a => fcsh (eval env a)
  | EEq a b => feqz (eval env a) (eval env b)
  | ENeq a b => fneqz (eval env a) (eval env b)
  end.

(* the coefficient-wise meaning with exact modular arithmetic *)
Fixpoint spec (env : nat -> Z) (t : etree) : Z :=
  match t with
  | ELeaf h => env h
  | EAdd a b => (spec env a + spec env b) mod p
  | ESub a b => (spec env a - spec env b) mod p
  | EMul a b => (spec env a * spec env b) mod p
  | EShoup3 a b _ => (spec env a * spec env b) mod p
  | ECShoup a => ((spec env a mod p) * 2 ^ w) / p
  | EEq a b => feqz (spec env a) (spec env b)
  | ENeq a b => fneqz (spec env a) (spec env b)
  end.

(* residue-valued trees the library is meant to evaluate: canonical leaves; the third operand of a
   precomputed-quotient product holds the quotient of the second *)
Inductive val (env : nat -> Z) : etree -> Prop :=
| VLeaf h : 0 <= env h < p -> val env (ELeaf h)
| VAdd a b : val env a -> val env b -> val env (EAdd a b)
| VSub a b : val env a -> val env b -> val env (ESub a b)
| VMul a b : val env a -> val env b -> val env (EMul a b)
| VShoup a b b' : val env a -> val env b -> eval env b' = (eval env b * 2 ^ w) / p -> val env (EShoup3 a b b').

Hypothesis HR : Hrow w p.
Hypothesis HR64 : w = 64 -> Hrow64 p pn.

Lemma fmul_exact x y : 0 <= x < p -> 0 <= y < p -> fmul x y = (x * y) mod p.
Proof.
  intros Hx Hy. unfold fmul. destruct (Z.eqb_spec w 64) as [E|E].
  - destruct (HR64 E) as (A & B & C). apply mulmod64_correct; assumption.
  - apply mulmod_gen_correct; assumption.
Qed.

Theorem eval_exact env t : val env t -> eval env t = spec env t /\ 0 <= eval env t < p.
Proof.
  destruct (functors_exact_of_row w p HR) as [Fadd Fsub _ Fcsh Fmsh _ _ _].
  destruct (Hrow_facts w p HR) as (Hp & _).
  induction 1 as [h Hh | a b _ [Ea Ra] _ [Eb Rb] | a b _ [Ea Ra] _ [Eb Rb] | a b _ [Ea Ra] _ [Eb Rb] | a b b' _ [Ea Ra] _ [Eb Rb] Hq]; cbn [eval spec].
  - split; [reflexivity | exact Hh].
  - rewrite Fadd by assumption. rewrite Ea, Eb. split; [reflexivity | apply Z.mod_pos_bound; lia].
  - rewrite Fsub by assumption. rewrite Ea, Eb. split; [reflexivity | apply Z.mod_pos_bound; lia].
  - rewrite fmul_exact by assumption. rewrite Ea, Eb. split; [reflexivity | apply Z.mod_pos_bound; lia].
  - rewrite Hq. rewrite Fmsh by assumption. rewrite Ea, Eb. split; [reflexivity | apply Z.mod_pos_bound; lia].
Qed.

(* quotient precomputation at the top of an expression: exact for any residue-valued operand *)
Theorem eval_cshoup_exact env a : val env a -> eval env (ECShoup a) = spec env (ECShoup a).
Proof.
  intros V. destruct (eval_exact env a V) as [E R]. cbn [eval spec]. unfold fcsh.
  destruct (functors_exact_of_row w p HR) as [_ _ _ Fcsh _ _ _ _]. destruct (Hrow_facts w p HR) as (Hp & _ & _ & _ & HpB).
  rewrite Fcsh by lia. rewrite E. reflexivity.
Qed.

(* consequently shoup(a*b, compute_shoup(b)) is exact without any side condition *)
Theorem val_shoup_cshoup env a b : val env a -> val env b -> val env (EShoup3 a b (ECShoup b)).
Proof.
  intros Va Vb. constructor; try assumption. rewrite (eval_cshoup_exact env b Vb). cbn [spec].
  destruct (eval_exact env b Vb) as [E R]. rewrite <- E. rewrite Z.mod_small by exact R. reflexivity.
Qed.

(* comparisons at the top *)
Theorem eval_eq_exact env a b : val env a -> val env b ->
  eval env (EEq a b) = (if spec env a =? spec env b then 1 else 0) /\ eval env (ENeq a b) = (if spec env a =? spec env b then 0 else 1).
Proof. intros Va Vb. destruct (eval_exact env a Va) as [Ea _]. destruct (eval_exact env b Vb) as [Eb _]. cbn [eval]. rewrite Ea, Eb. split; reflexivity. Qed.
End Elt.

(* ---------- link with the blockwise, aliasing-tolerant assignment of Expr.v ---------- *)
Section Link.
Variables w p pn : Z.
Definition fop (o : nat) : Z -> Z -> Z :=
  match o with
  | 0%nat => addmod w p | 1%nat => submod w p | 2%nat => fmul w p pn | 3%nat => feqz | _ => fneqz
  end.
Fixpoint tr (t : etree) : tree :=
  match t with
  | ELeaf h => Leaf h
  | EAdd a b => Bin 0 (tr a) (tr b) | ESub a b => Bin 1 (tr a) (tr b) | EMul a b => Bin 2 (tr a) (tr b)
  | EShoup3 a b b' => Shoup3 (tr a) (tr b) (tr b') | ECShoup a => CShoup (tr a)
  | EEq a b => Bin 3 (tr a) (tr b) | ENeq a b => Bin 4 (tr a) (tr b)
  end.
Lemma ev_tr (h : heap) t i : ev fop (mulmod_shoup w p) (fcsh w p) h (tr t) i = eval w p pn (fun x => h x i) t.
Proof. induction t; cbn [tr ev eval]; try rewrite IHt1, IHt2; try rewrite IHt3; try rewrite IHt; reflexivity. Qed.

(* C07 on one modulus slice: after `dst = expression` evaluated in blocks of L lanes (L = 1, 4, 8, 16 ...), with the
   destination possibly one of the operands, element i of dst is the element-wise functor value on the ORIGINAL operands,
   and every other operand (and everything beyond m*L) is untouched *)
Theorem assign_eval dst t L m (h0 : heap) :
  let h' := assign fop (mulmod_shoup w p) (fcsh w p) dst (tr t) L m h0 in
  (forall i, (i < m * L)%nat -> h' dst i = eval w p pn (fun x => h0 x i) t) /\
  (forall x i, x <> dst \/ (m * L <= i)%nat -> h' x i = h0 x i).
Proof.
  destruct (assign_correct fop (mulmod_shoup w p) (fcsh w p) dst (tr t) L m h0) as [A B]. cbv zeta. split.
  - intros i Hi. rewrite A by exact Hi. apply ev_tr.
  - exact B.
Qed.
Lemma assign_width dst t L1 m1 L2 m2 (h0 : heap) i : (m1 * L1 = m2 * L2)%nat -> (i < m1 * L1)%nat ->
  assign fop (mulmod_shoup w p) (fcsh w p) dst (tr t) L1 m1 h0 dst i = assign fop (mulmod_shoup w p) (fcsh w p) dst (tr t) L2 m2 h0 dst i.
Proof. apply width_irrelevant. Qed.
End Link.

(* ---------- list-level executable form used by the model runner ---------- *)
Definition eval_slice (w p pn : Z) (ops : list (list Z)) (t : etree) (n : nat) : list Z :=
  map (fun i => eval w p pn (fun h => nth i (nth h ops []) 0) t) (seq 0 n).
Definition spec_slice (w p : Z) (ops : list (list Z)) (t : etree) (n : nat) : list Z :=
  map (fun i => spec w p (fun h => nth i (nth h ops []) 0) t) (seq 0 n).
Definition any_nzl (l : list Z) : bool := existsb (fun v => negb (v =? 0)) l.
Definition all_nzl (l : list Z) : bool := forallb (fun v => negb (v =? 0)) l.
