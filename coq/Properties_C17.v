(* C17 — concurrent arithmetic on distinct polynomials is deterministic.  Statements only (Conc.v).
   Every modelled public operation is a function of (immutable tables, the thread's own objects); the theorem quantifies
   over all programs with pairwise disjoint footprints and ALL schedules. *)
From Coq Require Import List Arith.
From NTT Require Import Conc.

Theorem C17_invariant : forall (V : Type) (region : nat -> nat -> bool), (forall t u i, t <> u -> region t i = true -> region u i = false) ->
  forall (prog : nat -> list (op V)), (forall t o, In o (prog t) -> well_behaved V o /\ forall i, foot V o i = true -> region t i = true) ->
  forall (init : store V) sched, Inv V region prog init (exec V prog sched (init, fun _ => 0)).
Proof. exact exec_inv. Qed.
Print Assumptions C17_invariant.

(* whatever the schedule, once a thread has run all its operations its objects hold exactly its sequential result *)
Theorem C17_deterministic : forall (V : Type) (region : nat -> nat -> bool), (forall t u i, t <> u -> region t i = true -> region u i = false) ->
  forall (prog : nat -> list (op V)), (forall t o, In o (prog t) -> well_behaved V o /\ forall i, foot V o i = true -> region t i = true) ->
  forall (init : store V) sched t i, region t i = true ->
  let g := exec V prog sched (init, fun _ => 0) in
  length (prog t) <= snd g t -> fst g i = run_seq V (prog t) init i.
Proof. exact deterministic. Qed.
Print Assumptions C17_deterministic.
