From Coq Require Import ZArith List Lia Bool Arith.
From NTT Require Import CxxSem VecSem MemSem Layer LoopSpec.
From NTT.gen Require Import Gen GenVec GenLoop.
Import ListNotations.
Local Open Scope Z_scope.

Lemma run_serial_u32_shape : gen_run_serial_u32 = run_serial_sh gen_bfly_u32. Proof. reflexivity. Qed.
Lemma run_serial_u64_shape : gen_run_serial_u64 = run_serial_sh gen_bfly_u64. Proof. reflexivity. Qed.
Lemma run_serial_u16_shape : gen_run_serial_u16 = run_serial_sh gen_bfly_u16. Proof. reflexivity. Qed.
Lemma run_sse_u32_shape : gen_run_sse_u32 = run_simd_sh (row_v 32 4 4 gen_sse_ntt_loop_body_u32) gen_bfly_u32. Proof. reflexivity. Qed.
Lemma run_sse_u16_shape : gen_run_sse_u16 = run_simd_sh (row_v 16 4 8 gen_sse_ntt_loop_body_u16) gen_bfly_u16. Proof. reflexivity. Qed.
Lemma run_avx2_u32_shape : gen_run_avx2_u32 = run_simd_sh (row_avx2 32 8 gen_avx2_ntt_loop_body_u32 gen_sse_ntt_loop_body_u32) gen_bfly_u32. Proof. reflexivity. Qed.
Lemma run_avx2_u16_shape : gen_run_avx2_u16 = run_simd_sh (row_avx2 16 16 gen_avx2_ntt_loop_body_u16 gen_sse_ntt_loop_body_u16) gen_bfly_u16. Proof. reflexivity. Qed.
From NTT Require Import LoopRun.
Lemma ntt_serial_u32_shape : gen_ntt_serial_u32 = ntt_sh gen_run_serial_u32 gen_deg2_u32 gen_fused_u32 gen_loop_u32_region1. Proof. reflexivity. Qed.
Lemma ntt_serial_u16_shape : gen_ntt_serial_u16 = ntt_sh gen_run_serial_u16 gen_deg2_u16 gen_fused_u16 gen_loop_u16_region1. Proof. reflexivity. Qed.
Lemma ntt_serial_u64_shape : gen_ntt_serial_u64 = ntt_sh gen_run_serial_u64 gen_deg2_u64 gen_fused_u64 gen_loop_u64_region1. Proof. reflexivity. Qed.
Lemma ntt_sse_u32_shape : gen_ntt_sse_u32 = ntt_sh gen_run_sse_u32 gen_deg2_u32 gen_fused_u32 gen_loop_u32_region1. Proof. reflexivity. Qed.
Lemma ntt_sse_u16_shape : gen_ntt_sse_u16 = ntt_sh gen_run_sse_u16 gen_deg2_u16 gen_fused_u16 gen_loop_u16_region1. Proof. reflexivity. Qed.
Lemma ntt_sse_u64_shape : gen_ntt_sse_u64 = ntt_sh gen_run_serial_u64 gen_deg2_u64 gen_fused_u64 gen_loop_u64_region1. Proof. reflexivity. Qed.
Lemma ntt_avx2_u32_shape : gen_ntt_avx2_u32 = ntt_sh gen_run_avx2_u32 gen_deg2_u32 gen_fused_u32 gen_loop_u32_region1. Proof. reflexivity. Qed.
Lemma ntt_avx2_u16_shape : gen_ntt_avx2_u16 = ntt_sh gen_run_avx2_u16 gen_deg2_u16 gen_fused_u16 gen_loop_u16_region1. Proof. reflexivity. Qed.
Lemma ntt_avx2_u64_shape : gen_ntt_avx2_u64 = ntt_sh gen_run_serial_u64 gen_deg2_u64 gen_fused_u64 gen_loop_u64_region1. Proof. reflexivity. Qed.

(* ================= the translated loops compute Structural.ntt_core: serial build ================= *)
From NTT Require Import Functors Fused Tables FlatTable Transform Structural LoopInst GenEq.

Lemma strict_region32 p v : 0 < p -> 0 <= v < 2 ^ 32 -> gen_loop_u32_region1 p v = Some (LoopInst.strict1 p v).
Proof. intros Hp Hv. unfold gen_loop_u32_region1, LoopInst.strict1. cbv zeta. f_equal. destruct (Z.geb_spec v p); rewrite uw_small by lia; lia. Qed.
Lemma strict_region64 p v : 0 < p -> 0 <= v < 2 ^ 64 -> gen_loop_u64_region1 p v = Some (LoopInst.strict1 p v).
Proof. intros Hp Hv. unfold gen_loop_u64_region1, LoopInst.strict1. cbv zeta. f_equal. destruct (Z.geb_spec v p); rewrite uw_small by lia; lia. Qed.
Lemma strict_region16 p v : 0 < p < 2 ^ 16 -> 0 <= v < 2 ^ 16 -> gen_loop_u16_region1 p v = Some (LoopInst.strict1 p v).
Proof.
  intros Hp Hv. unfold gen_loop_u16_region1, LoopInst.strict1. change (2 ^ 16) with 65536 in *.
  rewrite chk_ok by (change (2 ^ (32 - 1)) with 2147483648; destruct (Z.geb_spec v p); lia). cbn [bind]. cbv zeta. f_equal.
  destruct (Z.geb_spec v p); rewrite uw_small by (change (2 ^ 16) with 65536; lia); lia.
Qed.

Section Serial.
Variables (k : nat) (p om : Z).
Hypothesis Hk : (2 <= k <= 30)%nat.
Variables padW padW' : list Z.
Hypothesis HpadW : Forall (fun v => 0 <= v < p) padW.
Let W := flat p k om ++ padW.
Definition Wp (w : Z) : list Z := map (fun v => (v * 2 ^ w) / p) (flat p k om) ++ padW'.
Let tws (lvl : nat) : list Z := nth lvl (prep p k om) [].
Lemma Wlen (w : Z) : (2 ^ k - 1 <= length W)%nat /\ (2 ^ k - 1 <= length (Wp w))%nat.
Proof. unfold W, Wp. rewrite !app_length, map_length. pose proof (flat_length p k om). lia. Qed.
Lemma WF : 1 < p -> Forall (fun v => 0 <= v < p) W.
Proof. intros Hp. apply Forall_app. split; [apply flat_range; exact Hp | exact HpadW]. Qed.
Lemma WpF w : 0 < w -> 1 < p -> Forall (fun v => 0 <= v < 2 ^ w) padW' -> Forall (fun v => 0 <= v < 2 ^ w) (Wp w).
Proof. intros Hw Hp Hpad. apply Forall_app. split; [apply shoup_range; [exact Hw | lia | apply flat_range; exact Hp] | exact Hpad]. Qed.

Theorem ntt_serial_u32_ok x0 : 1 < p -> 4 * p <= 2 ^ 32 -> Forall (fun v => 0 <= v < 2 ^ 32) padW' -> length x0 = (2 ^ k)%nat -> Forall (fun v => 0 <= v < 2 ^ 32) x0 ->
  gen_ntt_serial_u32 (Z.of_nat (2 ^ k)) x0 0 W 0 (Wp 32) 0 p =
  Some ((ntt_core 32 p k tws x0, Z.of_nat (2 ^ k), Z.of_nat (off k (k - 2)), Z.of_nat (off k (k - 2))), true).
Proof.
  intros Hp H4 Hpad' Hx Fx. rewrite ntt_serial_u32_shape, run_serial_u32_shape. destruct (Wlen 32) as [L1 L2].
  assert (K1 : forall a b wi wt, 0 <= a < 2 ^ 32 -> 0 <= b < 2 ^ 32 -> 0 <= wi < 2 ^ 32 -> 0 <= wt < p -> gen_bfly_u32 p a b wi wt = Some (bf4 32 p a b wi wt))
    by (intros a b wi wt Ha Hb Hwi Hwt; apply gen_bfly32; lia).
  assert (K2 : forall u0 u1 u2 u3 w1' w1, 0 <= u0 < 2 ^ 32 -> 0 <= u1 < 2 ^ 32 -> 0 <= u2 < 2 ^ 32 -> 0 <= u3 < 2 ^ 32 -> 0 <= w1' < 2 ^ 32 -> 0 <= w1 < p ->
    gen_fused_u32 p u0 u1 u2 u3 w1' w1 = Some (fused 32 p w1 w1' u0 u1 u2 u3)) by (intros u0 u1 u2 u3 w1' w1 H0 H1 H2 H3 Hw1' Hw1; apply gen_fused32; lia).
  assert (K3 : forall v, 0 <= v < 2 ^ 32 -> gen_loop_u32_region1 p v = Some (LoopInst.strict1 p v)) by (intros v Hv; apply strict_region32; lia).
  rewrite (ntt_serial_inst 32 ltac:(lia) p k ltac:(lia) W _ (WF Hp) (WpF 32 ltac:(lia) Hp Hpad') L1 L2
             gen_bfly_u32 K1 gen_deg2_u32 gen_fused_u32 K2 gen_loop_u32_region1 K3 x0 ltac:(lia) Hx Fx).
  unfold W, tws. unfold Wp. rewrite (result_is_ntt_core 32 p k om padW padW' x0) by lia. reflexivity.
Qed.
Theorem ntt_serial_u64_ok x0 : 1 < p -> 4 * p <= 2 ^ 64 -> Forall (fun v => 0 <= v < 2 ^ 64) padW' -> length x0 = (2 ^ k)%nat -> Forall (fun v => 0 <= v < 2 ^ 64) x0 ->
  gen_ntt_serial_u64 (Z.of_nat (2 ^ k)) x0 0 W 0 (Wp 64) 0 p =
  Some ((ntt_core 64 p k tws x0, Z.of_nat (2 ^ k), Z.of_nat (off k (k - 2)), Z.of_nat (off k (k - 2))), true).
Proof.
  intros Hp H4 Hpad' Hx Fx. rewrite ntt_serial_u64_shape, run_serial_u64_shape. destruct (Wlen 64) as [L1 L2].
  assert (K1 : forall a b wi wt, 0 <= a < 2 ^ 64 -> 0 <= b < 2 ^ 64 -> 0 <= wi < 2 ^ 64 -> 0 <= wt < p -> gen_bfly_u64 p a b wi wt = Some (bf4 64 p a b wi wt))
    by (intros a b wi wt Ha Hb Hwi Hwt; apply gen_bfly64; lia).
  assert (K2 : forall u0 u1 u2 u3 w1' w1, 0 <= u0 < 2 ^ 64 -> 0 <= u1 < 2 ^ 64 -> 0 <= u2 < 2 ^ 64 -> 0 <= u3 < 2 ^ 64 -> 0 <= w1' < 2 ^ 64 -> 0 <= w1 < p ->
    gen_fused_u64 p u0 u1 u2 u3 w1' w1 = Some (fused 64 p w1 w1' u0 u1 u2 u3)) by (intros u0 u1 u2 u3 w1' w1 H0 H1 H2 H3 Hw1' Hw1; apply gen_fused64; lia).
  assert (K3 : forall v, 0 <= v < 2 ^ 64 -> gen_loop_u64_region1 p v = Some (LoopInst.strict1 p v)) by (intros v Hv; apply strict_region64; lia).
  rewrite (ntt_serial_inst 64 ltac:(lia) p k ltac:(lia) W _ (WF Hp) (WpF 64 ltac:(lia) Hp Hpad') L1 L2
             gen_bfly_u64 K1 gen_deg2_u64 gen_fused_u64 K2 gen_loop_u64_region1 K3 x0 ltac:(lia) Hx Fx).
  unfold W, tws. unfold Wp. rewrite (result_is_ntt_core 64 p k om padW padW' x0) by lia. reflexivity.
Qed.
Theorem ntt_serial_u16_ok x0 : 1 < p -> p < 2 ^ 14 -> Forall (fun v => 0 <= v < 2 ^ 16) padW' -> length x0 = (2 ^ k)%nat -> Forall (fun v => 0 <= v < 2 ^ 16) x0 ->
  gen_ntt_serial_u16 (Z.of_nat (2 ^ k)) x0 0 W 0 (Wp 16) 0 p =
  Some ((ntt_core 16 p k tws x0, Z.of_nat (2 ^ k), Z.of_nat (off k (k - 2)), Z.of_nat (off k (k - 2))), true).
Proof.
  intros Hp P14 Hpad' Hx Fx. rewrite ntt_serial_u16_shape, run_serial_u16_shape. destruct (Wlen 16) as [L1 L2].
  assert (H4 : 4 * p <= 2 ^ 16) by (change (2 ^ 16) with 65536; change (2 ^ 14) with 16384 in P14; lia).
  assert (K1 : forall a b wi wt, 0 <= a < 2 ^ 16 -> 0 <= b < 2 ^ 16 -> 0 <= wi < 2 ^ 16 -> 0 <= wt < p -> gen_bfly_u16 p a b wi wt = Some (bf4 16 p a b wi wt))
    by (intros a b wi wt Ha Hb Hwi Hwt; apply gen_bfly16; lia).
  assert (K2 : forall u0 u1 u2 u3 w1' w1, 0 <= u0 < 2 ^ 16 -> 0 <= u1 < 2 ^ 16 -> 0 <= u2 < 2 ^ 16 -> 0 <= u3 < 2 ^ 16 -> 0 <= w1' < 2 ^ 16 -> 0 <= w1 < p ->
    gen_fused_u16 p u0 u1 u2 u3 w1' w1 = Some (fused 16 p w1 w1' u0 u1 u2 u3)) by (intros u0 u1 u2 u3 w1' w1 H0 H1 H2 H3 Hw1' Hw1; apply gen_fused16; lia).
  assert (K3 : forall v, 0 <= v < 2 ^ 16 -> gen_loop_u16_region1 p v = Some (LoopInst.strict1 p v)) by (intros v Hv; apply strict_region16; lia).
  rewrite (ntt_serial_inst 16 ltac:(lia) p k ltac:(lia) W _ (WF Hp) (WpF 16 ltac:(lia) Hp Hpad') L1 L2
             gen_bfly_u16 K1 gen_deg2_u16 gen_fused_u16 K2 gen_loop_u16_region1 K3 x0 ltac:(lia) Hx Fx).
  unfold W, tws. unfold Wp. rewrite (result_is_ntt_core 16 p k om padW padW' x0) by lia. reflexivity.
Qed.
End Serial.

Lemma source_loops_serial k p om padW padW' x0 : (2 <= k <= 30)%nat -> 1 < p -> Forall (fun v => 0 <= v < p) padW -> length x0 = (2 ^ k)%nat ->
  let W := flat p k om ++ padW in let W' := fun w => map (fun v => (v * 2 ^ w) / p) (flat p k om) ++ padW' in let tws := fun lvl => nth lvl (prep p k om) nil in
  (p < 2 ^ 14 -> Forall (fun v => 0 <= v < 2 ^ 16) padW' -> Forall (fun v => 0 <= v < 2 ^ 16) x0 ->
     gen_ntt_serial_u16 (Z.of_nat (2 ^ k)) x0 0 W 0 (W' 16) 0 p =
     Some ((ntt_core 16 p k tws x0, Z.of_nat (2 ^ k), Z.of_nat (off k (k - 2)), Z.of_nat (off k (k - 2))), true)) /\
  (4 * p <= 2 ^ 32 -> Forall (fun v => 0 <= v < 2 ^ 32) padW' -> Forall (fun v => 0 <= v < 2 ^ 32) x0 ->
     gen_ntt_serial_u32 (Z.of_nat (2 ^ k)) x0 0 W 0 (W' 32) 0 p =
     Some ((ntt_core 32 p k tws x0, Z.of_nat (2 ^ k), Z.of_nat (off k (k - 2)), Z.of_nat (off k (k - 2))), true)) /\
  (4 * p <= 2 ^ 64 -> Forall (fun v => 0 <= v < 2 ^ 64) padW' -> Forall (fun v => 0 <= v < 2 ^ 64) x0 ->
     gen_ntt_serial_u64 (Z.of_nat (2 ^ k)) x0 0 W 0 (W' 64) 0 p =
     Some ((ntt_core 64 p k tws x0, Z.of_nat (2 ^ k), Z.of_nat (off k (k - 2)), Z.of_nat (off k (k - 2))), true)).
Proof.
  intros Hk Hp HpadW Hx W W' tws. split; [|split]; intros H1 Hpad' Fx.
  - apply (ntt_serial_u16_ok k p om Hk padW padW' HpadW); assumption.
  - apply (ntt_serial_u32_ok k p om Hk padW padW' HpadW); assumption.
  - apply (ntt_serial_u64_ok k p om Hk padW padW' HpadW); assumption.
Qed.
