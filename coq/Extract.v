(* Extraction of the executable models (and the spec side of the theorems) to OCaml.
   ExtrOcamlBasic only: bool/option/unit/list/prod/sumbool/sumor map to OCaml's; Z, N, positive, nat stay Coq's datatypes.
   No Extract Constant.  Run from build/model:  coqc -Q /verif/coq NTT /verif/coq/Extract.v *)
From Coq Require Import ZArith List ExtrOcamlBasic.
From NTT Require Import ExtractDeps.
Extraction Language OCaml.
Extraction "model.ml"
  Functors.addmod Functors.submod Functors.mulmod_shoup Functors.compute_shoup Functors.muladd_shoup Functors.mulmod64
  ScalarOps.mulmod_gen ScalarOps.muladd_gen ScalarOps.muladd64
  Simd.addmod_vec SimdKernels.lane_add SimdKernels.lane_sub SimdKernels.lane_mulshoup32 SimdKernels.lane_mulshoup16 SimdKernels.lane_muladdshoup16 SimdKernels.lane_bfly Functors.bfly_lazy
  NTTInst.ntt_fwd NTTInst.ntt_inv NTTInst.ntt_fwd_s NTTInst.ntt_inv_s NTTInst.ntt_mul NTTInst.nega_spec NTTInst.ntt_fwd1 NTTInst.ntt_inv1
  ExprExec.eval_slice ExprExec.spec_slice ExprExec.any_nzl ExprExec.all_nzl
  CRTExec.poly2mpz_coef CRTExec.mpz2poly_coef CRT.prod
  Setters.set_list
  Serial.serialize Serial.deserialize Serial.overlay Text.print Text.parse
  PolyP.step PolyP.spec_step PolyP.abs PolyP.init PolyP.hs
  RandBytes.randombytes RandBytes.calls
  Prng.run_hist Prng.g0 Prng.g_seedings Salsa.stream
  PrngConc.init PrngConc.run PrngConc.thr PrngConc.outs PrngConc.seeds PrngConc.log
  SamplersExec.set_uniform SamplersExec.set_bounded SamplersExec.set_zo SamplersExec.set_hwt SamplersExec.set_gauss Samplers.zo_val Samplers.bnd_val Samplers.bnd_tmp SamplersExec.mask_bits
  GaussExec.get_noise GaussExec.decode_spec
  Params.rows16 Params.rows32 Params.rows64 Shards.K16 Shards.K32 Shards.K64
  Z.modulo Z.div Z.mul Z.add Z.sub Z.pow Z.to_N Z.of_N.
