(* The constructors, assignment operators and setter wrappers of class poly, as tools/cxxcreators2coq.py reads them from the source on every run
   (gen/GenCreators.v: each a one-call wrapper, with the overload its call resolves to and the form of its arguments): every one of them reaches,
   through at most three such calls, one of the IMPLEMENTATIONS -- set(It, It, bool), set_mpz(It, It), set(value_type, bool), set(uniform),
   set(non_uniform), set(hwt_dist), set(ZO_dist), set(gaussian) -- which are the functions translated from the source and proved to be the
   models (C15_source_set_list, C15_source_set_mpz, C15_source_set_scalar, the samplers of C09, C12_source_set_hwt). *)
From Coq Require Import String List Bool.
From NTT.gen Require Import GenCreators.
Import ListNotations.
Local Open Scope string_scope.

Definition entry := (string * string * string * string * string)%type.
Definition src (e : entry) : string * string := let '(n, t, _, _, _) := e in (n, t).
Definition callee (e : entry) : string * string := let '(_, _, c, ct, _) := e in (c, ct).
Definition key_eqb (a b : string * string) : bool := String.eqb (fst a) (fst b) && String.eqb (snd a) (snd b).
Definition impls : list (string * string) :=
  [("set", "It, It, bool"); ("set_mpz", "It, It"); ("set", "value_type, bool"); ("set", "uniform"); ("set", "non_uniform"); ("set", "hwt_dist"); ("set", "ZO_dist"); ("set", "gaussian")].
Fixpoint reaches (fuel : nat) (k : string * string) : bool :=
  if existsb (key_eqb k) impls then true else
  match fuel with O => false | S f => match find (fun e => key_eqb (src e) k) gen_poly_creators with Some e => reaches f (callee e) | None => false end end.
(* the wrappers the properties speak about *)
Definition creators_needed : list (string * string) :=
  [("poly", ""); ("poly", "uniform"); ("poly", "non_uniform"); ("poly", "hwt_dist"); ("poly", "ZO_dist"); ("poly", "gaussian"); ("poly", "value_type, bool");
   ("poly", "initializer_list<value_type>, bool"); ("poly", "It, It, bool"); ("poly", "mpz_t"); ("poly", "mpz_class"); ("poly", "array<mpz_class, Degree>"); ("poly", "initializer_list<mpz_class>");
   ("operator=", "value_type"); ("operator=", "uniform"); ("operator=", "non_uniform"); ("operator=", "hwt_dist"); ("operator=", "ZO_dist"); ("operator=", "gaussian");
   ("operator=", "initializer_list<value_type>"); ("operator=", "mpz_t"); ("operator=", "mpz_class"); ("operator=", "array<mpz_class, Degree>"); ("operator=", "initializer_list<mpz_class>");
   ("set", "initializer_list<value_type>, bool"); ("set_mpz", "mpz_t"); ("set_mpz", "mpz_class"); ("set_mpz", "array<mpz_class, Degree>"); ("set_mpz", "initializer_list<mpz_class>")].

Theorem creators_reach_implementations :
  forallb (fun e => reaches 3 (callee e)) gen_poly_creators = true /\
  forallb (fun k => existsb (fun e => key_eqb (src e) k) gen_poly_creators) creators_needed = true.
Proof. split; vm_compute; reflexivity. Qed.
(* read as a statement about members *)
Corollary creator_present k : In k creators_needed -> exists e, In e gen_poly_creators /\ src e = k /\ reaches 3 (callee e) = true.
Proof.
  intros Hk. destruct creators_reach_implementations as [A B]. rewrite forallb_forall in A, B. specialize (B k Hk). apply existsb_exists in B. destruct B as [e [He E]].
  exists e. split; [exact He|]. split; [| apply A; exact He].
  unfold key_eqb in E. apply andb_true_iff in E. destruct E as [E1 E2]. apply String.eqb_eq in E1, E2. destruct (src e) as [a b], k as [c d]. cbn in *. subst. reflexivity.
Qed.
