(* C01/C02 closed over every row of the generated tables and every admissible degree. *)
From Coq Require Import ZArith Znumtheory Lia List Arith.
From NTT Require Import Functors Algebra Layer Transform Rev Inverse Tables Fused Structural NTTInst NTTClosed NumTheoryMC TablesOK Shards C06Closed ScalarOps ScalarClosed.
From NTT.gen Require Import Params.
Import ListNotations.
Local Open Scope Z_scope.

(* what a (limb width, table, K) triple offers: every row and every degree 2^(S k0) <= 2^K *)
Definition transform_ok (w : Z) (K : nat) (rows : list (Z * Z * Z * Z)) : Prop :=
  forall r, In r rows -> forall k0, (S k0 <= K)%nat ->
  let '(p, _, g, ik) := r in
  let n := (2 ^ S k0)%nat in
  let can := fun x : list Z => length x = n /\ forall i, (i < n)%nat -> 0 <= nth i x 0 < p in
  (forall x, can x -> ntt_inv w p g ik K k0 (ntt_fwd w p g K k0 x) = x) /\
  (forall y, can y -> ntt_fwd w p g K k0 (ntt_inv w p g ik K k0 y) = y) /\
  (forall x, length x = n -> can (ntt_fwd w p g K k0 x)) /\
  (forall a b c, length a = n -> length b = n -> length c = n ->
     (forall t, (t < n)%nat -> nth t c 0 = (nth t a 0 + nth t b 0) mod p) ->
     forall j, (j < n)%nat -> nth j (ntt_fwd w p g K k0 c) 0 = (nth j (ntt_fwd w p g K k0 a) 0 + nth j (ntt_fwd w p g K k0 b) 0) mod p) /\
  (forall a b, length a = n -> length b = n ->
     ntt_inv w p g ik K k0 (ntt_mul p k0 (ntt_fwd w p g K k0 a) (ntt_fwd w p g K k0 b)) = nega_spec p k0 a b) /\
  (* the transforms as structured in the source (special case, generic layers, fused last two layers) are the generic ones *)
  (forall x, length x = n -> ntt_fwd_s w p g K k0 x = ntt_fwd w p g K k0 x) /\
  (forall y, can y -> ntt_inv_s w p g ik K k0 y = ntt_inv w p g ik K k0 y).

Lemma transform_ok_of_valid w bits K nmod rows : 3 < w -> table_valid w bits (2 ^ Z.of_nat K) nmod rows -> transform_ok w K rows.
Proof.
  intros Hw T r Hr k0 Hk. pose proof (tv_rows _ _ _ _ _ T r Hr) as V. pose proof (tv_bits _ _ _ _ _ T) as Hb.
  pose proof (row_valid_Hrow w bits _ r Hw Hb V) as HR. destruct (Hrow_facts _ _ HR) as (Hp & H4 & _ & _ & _).
  destruct V as [Vp _ _ _ Vroot _ _ _ Vinv _]. destruct r as [[[p pn] g] ik]. cbn [fst snd] in *.
  apply prime_ge_2 in Vp. assert (Hp1 : 1 < p) by lia. assert (Hw0 : 0 < w) by lia.
  cbv zeta. split; [|split; [|split; [|split; [|split; [|split]]]]].
  - intros x [L C]. apply (closed_inv_fwd w p g ik K k0 Hw0 Hp1 H4 Vroot Vinv Hk). split; assumption.
  - intros y [L C]. apply (closed_fwd_inv w p g ik K k0 Hw0 Hp1 H4 Vroot Vinv Hk). split; assumption.
  - intros x H. exact (closed_fwd_canonical w p g K k0 Hw0 Hp1 H4 Vroot Hk x H).
  - intros a b c La Lb Lc Hc j Hj. apply (closed_fwd_linear w p g K k0 Hw0 Hp1 H4 Vroot Hk a b c La Lb Lc Hc j Hj).
  - intros a b La Lb. apply (closed_product w p g ik K k0 Hw0 Hp1 H4 Vroot Vinv Hk a b La Lb).
  - intros x L. apply (closed_struct_fwd w p g K k0 Hw0 Hp1 H4 Vroot Hk x L).
  - intros y [L C]. apply (closed_struct_inv w p g ik K k0 Hw0 Hp1 H4 Vroot Hk). split; assumption.
Qed.

Theorem transform_ok_tables : transform_ok 16 K16 rows16 /\ transform_ok 32 K32 rows32 /\ transform_ok 64 K64 rows64.
Proof.
  destruct tables_valid as (T16 & T32 & T64).
  rewrite maxdeg16_pow in T16. rewrite maxdeg32_pow in T32. rewrite maxdeg64_pow in T64.
  change w16 with 16 in T16. change w32 with 32 in T32. change w64 with 64 in T64.
  split; [|split].
  - apply (transform_ok_of_valid 16 bits16 K16 nmod16 rows16 ltac:(lia) T16).
  - apply (transform_ok_of_valid 32 bits32 K32 nmod32 rows32 ltac:(lia) T32).
  - apply (transform_ok_of_valid 64 bits64 K64 nmod64 rows64 ltac:(lia) T64).
Qed.

(* degree 1 *)
Theorem degree1_tables : forall w K rows bits nmod, table_valid w bits (2 ^ Z.of_nat K) nmod rows ->
  forall r, In r rows -> let '(p, _, _, ik) := r in
  forall x, Forall (fun v => 0 <= v < p) x -> ntt_fwd1 p x = x /\ ntt_inv1 p ik K x = x.
Proof.
  intros w K rows bits nmod T r Hr. pose proof (tv_rows _ _ _ _ _ T r Hr) as V.
  destruct V as [Vp _ _ _ _ _ _ _ Vinv _]. destruct r as [[[p pn] g] ik]. cbn [fst snd] in *.
  apply prime_ge_2 in Vp. intros x Hx. split; [apply deg1_fwd | apply (deg1_inv p ik K)]; try assumption; lia.
Qed.
