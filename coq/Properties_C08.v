(* C08 — equality / inequality compare whole polynomials (Expr.v, ExprExec.v).  Statements only. *)
From Coq Require Import ZArith List Bool.
From NTT Require Import Expr ExprExec VecCompare.
Local Open Scope Z_scope.

(* a != b converts to true exactly when some stored word differs *)
Theorem C08_neq : forall fop fsh fcs oneq, (forall x y, fop oneq x y = if x =? y then 0 else 1) ->
  forall (h : heap) a b n, any_nz fop fsh fcs h (Bin oneq (Leaf a) (Leaf b)) n = true <-> exists i, (i < n)%nat /\ h a i <> h b i.
Proof. intros fop fsh fcs oneq H. exact (neq_spec fop fsh fcs oneq H). Qed.
Print Assumptions C08_neq.

(* a == b (all-of conversion, i.e. the repaired library) is true exactly when every stored word is equal *)
Theorem C08_eq : forall fop fsh fcs oeq, (forall x y, fop oeq x y = if x =? y then 1 else 0) ->
  forall (h : heap) a b n, all_nz fop fsh fcs h (Bin oeq (Leaf a) (Leaf b)) n = true <-> forall i, (i < n)%nat -> h a i = h b i.
Proof. intros fop fsh fcs oeq H. exact (eq_spec fop fsh fcs oeq H). Qed.
Print Assumptions C08_eq.

Theorem C08_complementary : forall fop fsh fcs oeq oneq, (forall x y, fop oeq x y = if x =? y then 1 else 0) -> (forall x y, fop oneq x y = if x =? y then 0 else 1) ->
  forall (h : heap) a b n, all_nz fop fsh fcs h (Bin oeq (Leaf a) (Leaf b)) n = negb (any_nz fop fsh fcs h (Bin oneq (Leaf a) (Leaf b)) n).
Proof. intros fop fsh fcs oeq oneq H1 H2. exact (eq_neq_complementary fop fsh fcs oeq oneq H1 H2). Qed.
Print Assumptions C08_complementary.

(* the pinned (unrepaired) library converted a == b with the any-of scan: refuted on a 2-coefficient witness *)
Theorem C08_pinned_eq_refuted : forall fop fsh fcs oeq, (forall x y, fop oeq x y = if x =? y then 1 else 0) ->
  forall (h : heap) a b, h a 0%nat = h b 0%nat -> h a 1%nat <> h b 1%nat ->
  any_nz fop fsh fcs h (Bin oeq (Leaf a) (Leaf b)) 2 = true /\ ~ (forall i, (i < 2)%nat -> h a i = h b i).
Proof. intros fop fsh fcs oeq H. exact (pinned_eq_refuted fop fsh fcs oeq H). Qed.
Print Assumptions C08_pinned_eq_refuted.

(* SIMD builds: == / != on vector registers compare 64-bit LANES (g = 64/w limbs each; all-ones or zero per lane).  The all-of scan of
   (x == y) still decides limb-for-limb equality, the any-of scan of (x != y) still decides "some limb differs", and they are complementary *)
Theorem C08_vector_lane_eq : forall g, (0 < g)%nat -> forall (x y : nat -> Z) n, (exists m, n = (m * g)%nat) -> forall ones, ones <> 0 ->
  ((forall i, (i < n)%nat -> veq g x y ones i <> 0) <-> (forall i, (i < n)%nat -> x i = y i)).
Proof. exact veq_all. Qed.
Print Assumptions C08_vector_lane_eq.
Theorem C08_vector_lane_neq : forall g, (0 < g)%nat -> forall (x y : nat -> Z) n, (exists m, n = (m * g)%nat) -> forall ones, ones <> 0 ->
  ((exists i, (i < n)%nat /\ vne g x y ones i <> 0) <-> (exists i, (i < n)%nat /\ x i <> y i)).
Proof. exact vne_any. Qed.
Print Assumptions C08_vector_lane_neq.
Theorem C08_vector_lane_complementary : forall g, (0 < g)%nat -> forall (x y : nat -> Z) n, (exists m, n = (m * g)%nat) -> forall ones, ones <> 0 ->
  ((forall i, (i < n)%nat -> veq g x y ones i <> 0) <-> ~ (exists i, (i < n)%nat /\ vne g x y ones i <> 0)).
Proof. exact veq_vne_complementary. Qed.
Print Assumptions C08_vector_lane_complementary.

(* poly::operator bool() OF THE SOURCE (read from the source on every run: std::find_if(begin(), end(), [](value_type v) { return v != 0; }) != end(),
   emitted with MemSem.find_if -- the offset of the first element satisfying the predicate, the end if none): the conversion of a plain
   polynomial to bool is true exactly when some stored word is non-zero, for every degree, number of moduli and contents, all limb types. *)
From NTT Require PolyBoolSpec.
From NTT.gen Require GenLoop GenExprBool.
Theorem C08_source_poly_bool : forall n nm data, (nm * n <= length data)%nat ->
  let any := Some (List.existsb (fun v => negb (Z.eqb v 0)) (List.firstn (nm * n) data)) in
  GenLoop.gen_poly_bool_u16 (Z.of_nat n) (Z.of_nat nm) data = any /\ GenLoop.gen_poly_bool_u32 (Z.of_nat n) (Z.of_nat nm) data = any /\ GenLoop.gen_poly_bool_u64 (Z.of_nat n) (Z.of_nat nm) data = any.
Proof. exact PolyBoolSpec.source_poly_bool. Qed.
Print Assumptions C08_source_poly_bool.

(* non-vacuity: the translated conversion RUNS: zero polynomial false, one non-zero word true, and the non-zero polynomial whose words sum to
   0 modulo 2^16 (15360 * 4 + 4096 = 65536) true *)
Example C08_source_nonvacuous :
  GenLoop.gen_poly_bool_u16 4 2 (0 :: 0 :: 0 :: 0 :: 0 :: 0 :: 0 :: 0 :: nil) = Some false /\ GenLoop.gen_poly_bool_u16 4 2 (0 :: 0 :: 0 :: 0 :: 0 :: 0 :: 5 :: 0 :: nil) = Some true /\
  GenLoop.gen_poly_bool_u16 4 2 (15360 :: 15360 :: 4096 :: 15360 :: 15360 :: 0 :: 0 :: 0 :: nil) = Some true.
Proof. vm_compute. repeat split. Qed.
Print Assumptions C08_source_nonvacuous.

(* ops::expr<Op, ...>::operator bool() OF THE SOURCE -- the conversion behind `a == b`, `a != b` and `if (a - b)` -- read from include/nfl/ops.hpp on
   every run at 27 instantiations (eqmod, neqmod, an arithmetic operator; three limb types; serial, SSE, AVX2), each with the polarity
   bool_requires_all<Op>::value and the vector width the source gives it (gen/GenExprBool.v over ExprSem.scan: the loop nest with its early
   return): `==` is true exactly when ALL degree * nmoduli values of the comparison are non-zero, the others exactly when SOME value is,
   whatever the vector width, for every degree (a multiple of 16: every vector width divides it), number of moduli and contents. *)
From NTT Require ExprBoolSpec.
Theorem C08_source_expr_bool : ExprBoolSpec.expr_bool_statement.
Proof. exact ExprBoolSpec.source_expr_bool. Qed.
Print Assumptions C08_source_expr_bool.
(* the statement read in full for one of them *)
Theorem C08_source_expr_bool_eq_avx2_u16 : forall degree nm val, 0 <= degree < 2 ^ 62 -> 0 <= nm < 2 ^ 62 -> (16 | degree) ->
  GenExprBool.gen_expr_bool_eq_avx2_u16 degree nm val
  = Some (List.forallb (fun v => negb (Z.eqb v 0)) (List.concat (List.map (fun cm => List.map (fun i => val (Z.of_nat cm) (0 + Z.of_nat i)) (List.seq 0 (Z.to_nat degree))) (List.seq 0 (Z.to_nat nm))))).
Proof. exact (proj1 (proj2 (proj2 (proj2 (proj2 (proj2 (proj2 (proj1 ExprBoolSpec.source_expr_bool)))))))). Qed.
Print Assumptions C08_source_expr_bool_eq_avx2_u16.
Example C08_source_expr_bool_nonvacuous :
  let a := fun cm i => cm * 100 + i in let b := fun cm i => if (cm =? 2) && (i =? 31) then 7 else cm * 100 + i in
  GenExprBool.gen_expr_bool_eq_avx2_u16 32 3 (ExprBoolSpec.eq_val a a) = Some true /\ GenExprBool.gen_expr_bool_eq_avx2_u16 32 3 (ExprBoolSpec.eq_val a b) = Some false /\
  GenExprBool.gen_expr_bool_neq_sse_u64 32 3 (ExprBoolSpec.neq_val a a) = Some false /\ GenExprBool.gen_expr_bool_neq_sse_u64 32 3 (ExprBoolSpec.neq_val a b) = Some true /\
  GenExprBool.gen_expr_bool_eq_avx2_u16 8 3 (ExprBoolSpec.eq_val a a) = None.
Proof. exact ExprBoolSpec.expr_bool_nonvacuous. Qed.
