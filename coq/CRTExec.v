(* C04: executable model of nfl::poly::GMP (lifting integers, poly2mpz with its Shoup-style reduction, mpz2poly / set_mpz)
   and the theorems: unique representative in [0,Q), congruent to every residue, mutual inverses modulo Q. *)
From Coq Require Import ZArith Znumtheory Lia List Arith Bool.
From NTT Require Import CRT.
Import ListNotations.
Local Open Scope Z_scope.

(* ---------- mpz_invert: extended Euclid with fuel ---------- *)
Fixpoint egcd (fuel : nat) (a b : Z) : Z * Z * Z :=        (* (g, u, v) with u*a + v*b = g *)
  match fuel with
  | O => (a, 1, 0)
  | S f => if b =? 0 then (a, 1, 0) else let '(g, u, v) := egcd f b (a mod b) in (g, v, u - (a / b) * v)
  end.

Lemma egcd_bezout fuel : forall a b, let '(g, u, v) := egcd fuel a b in u * a + v * b = g.
Proof.
  induction fuel as [|f IH]; intros a b; cbn [egcd]; [lia|].
  destruct (Z.eqb_spec b 0) as [->|Hb]; [lia|].
  specialize (IH b (a mod b)). destruct (egcd f b (a mod b)) as [[g u] v].
  pose proof (Z.div_mod a b Hb). nia.
Qed.

Definition fuel_for (b : Z) : nat := (2 * (Z.to_nat (Z.log2 b) + 1) + 1)%nat.
Definition modinv (a p : Z) : option Z :=                   (* the inverse of a modulo p in [0,p), if gcd = 1 *)
  let '(g, u, v) := egcd (fuel_for p) p (a mod p) in
  if g =? 1 then Some (v mod p) else None.

Theorem modinv_ok a p i : 1 < p -> modinv a p = Some i -> (a * i) mod p = 1 /\ 0 <= i < p.
Proof.
  intros Hp. unfold modinv. pose proof (egcd_bezout (fuel_for p) p (a mod p)) as B.
  destruct (egcd (fuel_for p) p (a mod p)) as [[g u] v]. destruct (Z.eqb_spec g 1) as [->|]; [|discriminate].
  intros E. injection E as <-. split; [|apply Z.mod_pos_bound; lia].
  rewrite Z.mul_mod_idemp_r by lia. rewrite <- Z.mul_mod_idemp_l by lia.
  replace ((a mod p) * v) with (1 + (- u) * p) by lia. rewrite Z.mod_add by lia. apply Z.mod_small; lia.
Qed.

(* ---------- GMP::GMP() and poly2mpz on one coefficient ---------- *)
Definition modinvs (ps : list Z) : list (option Z) := map (fun i => modinv (others i ps) (nth i ps 1)) (seq 0 (length ps)).
Definition shiftQ (w : Z) (ps : list Z) : Z := (Z.log2 (prod ps) + 1) + w + Z.log2 (Z.of_nat (length ps)) + 1.
Fixpoint accl (rs Ls : list Z) : Z :=                       (* sum r_i * L_i; the code skips zero residues, same value *)
  match rs, Ls with r :: rs', l :: Ls' => (if r =? 0 then 0 else r * l) + accl rs' Ls' | _, _ => 0 end.
Fixpoint all_some (l : list (option Z)) : option (list Z) :=
  match l with [] => Some [] | Some x :: t => option_map (cons x) (all_some t) | None :: _ => None end.
Definition lifting (ps : list Z) : option (list Z) :=
  option_map (fun invs => map (fun i => (prod ps / nth i ps 1) * nth i invs 0) (seq 0 (length ps))) (all_some (modinvs ps)).
Definition poly2mpz_coef (w : Z) (ps rs : list Z) : option Z :=
  option_map (fun Ls => reduceQ (prod ps) (shiftQ w ps) (accl rs Ls)) (lifting ps).
Definition mpz2poly_coef (ps : list Z) (v : Z) : list Z := map (fun p => v mod p) ps.     (* mpz_fdiv_ui: floor residue *)

(* ---------- proofs ---------- *)
Lemma all_some_nth l xs i : all_some l = Some xs -> (i < length l)%nat -> nth i l None = Some (nth i xs 0) /\ length xs = length l.
Proof.
  revert xs i. induction l as [|[x|] t IH]; intros xs i E Hi; cbn [all_some] in E; [simpl in Hi; lia | | discriminate].
  destruct (all_some t) as [ys|] eqn:Et; [|discriminate]. injection E as <-. simpl in Hi.
  destruct i as [|i]; cbn [nth length].
  - split; [reflexivity|]. destruct t as [|? ?]; [simpl in Et; injection Et as <-; reflexivity|].
    f_equal. apply (IH ys 0%nat eq_refl). simpl. lia.
  - destruct (IH ys i eq_refl ltac:(lia)) as [A B]. split; [exact A | f_equal; exact B].
Qed.

Lemma all_some_length l xs : all_some l = Some xs -> length xs = length l.
Proof.
  revert xs. induction l as [|[x|] t IH]; intros xs E; cbn [all_some] in E; [injection E as <-; reflexivity | | discriminate].
  destruct (all_some t) as [ys|]; [|discriminate]. injection E as <-. simpl. f_equal. apply IH. reflexivity.
Qed.

Section Exec.
Variable w : Z.
Variable ps : list Z.
Hypothesis Hw : 0 <= w.
Hypothesis ps_ne : ps <> [].
Hypothesis ps_rng : forall i, (i < length ps)%nat -> 1 < nth i ps 1 < 2 ^ w.

Let ps_pos : forall i, (i < length ps)%nat -> 1 < nth i ps 1.
Proof. intros i Hi. apply ps_rng. exact Hi. Qed.

Variable invs : list Z.
Hypothesis Hinvs : all_some (modinvs ps) = Some invs.

Lemma invs_ok : forall i, (i < length ps)%nat -> (others i ps * nth i invs 0) mod nth i ps 1 = 1 /\ 0 <= nth i invs 0 < nth i ps 1.
Proof.
  intros i Hi. assert (Hl : length (modinvs ps) = length ps) by (unfold modinvs; rewrite map_length, seq_length; reflexivity).
  destruct (all_some_nth _ _ i Hinvs ltac:(lia)) as [E _].
  unfold modinvs in E. rewrite (nth_indep _ None (modinv (others 0 ps) (nth 0 ps 1))) in E by (rewrite map_length, seq_length; lia).
  rewrite (map_nth (fun i => modinv (others i ps) (nth i ps 1))) in E. rewrite seq_nth in E by lia. simpl in E.
  apply modinv_ok; auto.
Qed.

Let inv := fun i => nth i invs 0.
Let Lf := L ps inv.

Lemma lifting_eq : lifting ps = Some (map Lf (seq 0 (length ps))).
Proof. unfold lifting. rewrite Hinvs. cbn [option_map]. reflexivity. Qed.

Lemma L_range i : (i < length ps)%nat -> 0 <= Lf i < Q ps.
Proof.
  intros Hi. unfold Lf, L. destruct (invs_ok i Hi) as [_ R]. pose proof (ps_pos i Hi) as P.
  rewrite (Q_div ps ps_pos i Hi).
  assert (E : Q ps = nth i ps 1 * others i ps) by (unfold Q; apply prod_others; exact Hi).
  assert (O : 0 < others i ps).
  { pose proof (Q_pos ps ps_pos). rewrite E in H. nia. }
  fold (inv i) in R. rewrite E. nia.
Qed.

(* the accumulator, as a function of the index-based residues *)
Lemma accl_acc : forall n rs, length rs = length ps -> (n <= length ps)%nat ->
  accl (firstn n rs) (map Lf (seq 0 n)) = acc ps inv (fun i => nth i rs 0) n.
Proof.
  induction n as [|n IH]; intros rs Hl Hn; [reflexivity|].
  rewrite seq_S, map_app. cbn [map]. cbn [acc]. rewrite <- (IH rs Hl ltac:(lia)).
  assert (F : firstn (S n) rs = firstn n rs ++ [nth n rs 0]).
  { clear - Hl Hn. revert rs Hl Hn. generalize (length ps). induction n as [|n IH]; intros m rs Hl Hn.
    - destruct rs; simpl in *; [lia | reflexivity].
    - destruct rs as [|r rs]; simpl in *; [lia|]. f_equal. apply (IH (pred m)); simpl; lia. }
  rewrite F. clear F.
  assert (G : forall (a : list Z) (b : list Z) x y, length a = length b -> accl (a ++ [x]) (b ++ [y]) = accl a b + (if x =? 0 then 0 else x * y)).
  { induction a as [|a0 a IHa]; intros [|b0 b] x y E; simpl in E; try lia; cbn [accl app]; [lia|]. rewrite IHa by lia. lia. }
  rewrite G by (rewrite firstn_length, map_length, seq_length; lia).
  change (0 + n)%nat with n. fold Lf. destruct (Z.eqb_spec (nth n rs 0) 0) as [->|]; lia.
Qed.

Lemma acc_bound (r : nat -> Z) : (forall i, (i < length ps)%nat -> 0 <= r i < 2 ^ w) ->
  forall n, (n <= length ps)%nat -> 0 <= acc ps inv r n <= Z.of_nat n * (2 ^ w * Q ps).
Proof.
  intros Hr. induction n as [|n IH]; intros Hn; cbn [acc]; [lia|].
  specialize (IH ltac:(lia)). pose proof (L_range n ltac:(lia)) as LR. fold Lf. specialize (Hr n ltac:(lia)).
  assert (0 <= r n * Lf n <= 2 ^ w * Q ps) by nia. lia.
Qed.

Lemma shift_ok : Z.of_nat (length ps) * (2 ^ w * Q ps) < 2 ^ shiftQ w ps /\ 0 <= shiftQ w ps.
Proof.
  unfold shiftQ. fold (Q ps). pose proof (Q_pos ps ps_pos) as HQ.
  assert (Hn : 0 < Z.of_nat (length ps)) by (destruct ps; [congruence | simpl; lia]).
  pose proof (Z.log2_nonneg (Q ps)). pose proof (Z.log2_nonneg (Z.of_nat (length ps))).
  destruct (Z.log2_spec (Q ps) HQ) as [_ Q2]. destruct (Z.log2_spec _ Hn) as [_ N2].
  split; [|lia].
  replace (Z.log2 (Q ps) + 1 + w + Z.log2 (Z.of_nat (length ps)) + 1) with (Z.succ (Z.log2 (Z.of_nat (length ps))) + (w + Z.succ (Z.log2 (Q ps)))) by lia.
  rewrite !Z.pow_add_r by lia.
  assert (0 < 2 ^ w) by (apply Z.pow_pos_nonneg; lia).
  apply Z.mul_lt_mono_nonneg; [lia | exact N2 | nia |]. nia.
Qed.

(* C04, lifting direction: the unique representative in [0,Q) congruent to every stored residue *)
Theorem poly2mpz_correct rs : length rs = length ps -> (forall i, (i < length ps)%nat -> 0 <= nth i rs 0 < nth i ps 1) ->
  exists x, poly2mpz_coef w ps rs = Some x /\ 0 <= x < Q ps /\ forall j, (j < length ps)%nat -> x mod nth j ps 1 = nth j rs 0.
Proof.
  intros Hl Hr. unfold poly2mpz_coef. rewrite lifting_eq. cbn [option_map]. eexists. split; [reflexivity|].
  pose proof (accl_acc (length ps) rs Hl ltac:(lia)) as A. rewrite firstn_all2 in A by lia. rewrite A.
  destruct shift_ok as [S1 S0].
  assert (Hr' : forall i, (i < length ps)%nat -> 0 <= nth i rs 0 < 2 ^ w).
  { intros i Hi. specialize (Hr i Hi). specialize (ps_rng i Hi). lia. }
  pose proof (acc_bound (fun i => nth i rs 0) Hr' (length ps) ltac:(lia)) as B.
  apply (lift_correct ps inv ps_pos invs_ok (fun i => nth i rs 0) (shiftQ w ps) S0); [lia | exact Hr].
Qed.
End Exec.

(* ---------- uniqueness (Chinese remainder) and the reverse direction ---------- *)
Lemma divide_prod ps d : (forall i, (i < length ps)%nat -> (nth i ps 1 | d)) ->
  (forall i j, (i < length ps)%nat -> (j < length ps)%nat -> i <> j -> rel_prime (nth i ps 1) (nth j ps 1)) -> (prod ps | d).
Proof.
  induction ps as [|p t IH]; intros Hd Hc; simpl; [apply Z.divide_1_l|].
  assert (Dt : (prod t | d)).
  { apply IH; [intros i Hi; apply (Hd (S i)); simpl; lia | intros i j Hi Hj Hij; apply (Hc (S i) (S j)); simpl; lia]. }
  assert (Dp : (p | d)) by (apply (Hd 0%nat); simpl; lia).
  assert (R : rel_prime (prod t) p).
  { clear - Hc. assert (G : forall l, (forall j, (j < length l)%nat -> rel_prime (nth j l 1) p) -> rel_prime (prod l) p).
    { induction l as [|q l IHl]; intros H; simpl; [apply rel_prime_1|].
      apply rel_prime_sym, rel_prime_mult; apply rel_prime_sym; [apply (H 0%nat); simpl; lia | apply IHl; intros j Hj; apply (H (S j)); simpl; lia]. }
    apply G. intros j Hj. apply (Hc (S j) 0%nat); simpl; lia. }
  destruct Dp as [k Hk]. subst d.
  assert (Dk : (prod t | k)) by (apply (Gauss (prod t) p k); [rewrite Z.mul_comm; exact Dt | exact R]).
  destruct Dk as [m ->]. exists m. ring.
Qed.

Theorem crt_unique ps x y : (forall i, (i < length ps)%nat -> 1 < nth i ps 1) ->
  (forall i j, (i < length ps)%nat -> (j < length ps)%nat -> i <> j -> rel_prime (nth i ps 1) (nth j ps 1)) ->
  0 <= x < prod ps -> 0 <= y < prod ps -> (forall i, (i < length ps)%nat -> x mod nth i ps 1 = y mod nth i ps 1) -> x = y.
Proof.
  intros Hp Hc Hx Hy Hm.
  assert (D : (prod ps | x - y)).
  { apply divide_prod; [|exact Hc]. intros i Hi. specialize (Hp i Hi). specialize (Hm i Hi).
    apply Z.mod_divide; [lia|]. rewrite Zminus_mod, Hm, Z.sub_diag. apply Z.mod_0_l. lia. }
  destruct D as [k Hk]. assert (k = 0) by nia. lia.
Qed.

Section Roundtrip.
Variable w : Z.
Variable ps : list Z.
Hypothesis Hw : 0 <= w.
Hypothesis ps_ne : ps <> [].
Hypothesis ps_rng : forall i, (i < length ps)%nat -> 1 < nth i ps 1 < 2 ^ w.
Hypothesis ps_cop : forall i j, (i < length ps)%nat -> (j < length ps)%nat -> i <> j -> rel_prime (nth i ps 1) (nth j ps 1).
Variable invs : list Z.
Hypothesis Hinvs : all_some (modinvs ps) = Some invs.

Lemma mpz2poly_nth v j : (j < length ps)%nat -> nth j (mpz2poly_coef ps v) 0 = v mod nth j ps 1.
Proof.
  intros Hj. unfold mpz2poly_coef. rewrite (nth_indep _ 0 (v mod 1)) by (rewrite map_length; exact Hj).
  rewrite (map_nth (fun p => v mod p)). reflexivity.
Qed.

(* big integer -> residues -> big integer is reduction modulo Q, for integers of any magnitude and sign *)
Theorem poly2mpz_mpz2poly v : poly2mpz_coef w ps (mpz2poly_coef ps v) = Some (v mod prod ps).
Proof.
  assert (Hl : length (mpz2poly_coef ps v) = length ps) by (unfold mpz2poly_coef; apply map_length).
  assert (Hr : forall i, (i < length ps)%nat -> 0 <= nth i (mpz2poly_coef ps v) 0 < nth i ps 1).
  { intros i Hi. rewrite mpz2poly_nth by exact Hi. apply Z.mod_pos_bound. specialize (ps_rng i Hi). lia. }
  destruct (poly2mpz_correct w ps Hw ps_ne ps_rng invs Hinvs _ Hl Hr) as (x & E & R & C). rewrite E. f_equal.
  assert (Pp : forall i, (i < length ps)%nat -> 1 < nth i ps 1) by (intros i Hi; apply ps_rng; exact Hi).
  pose proof (Q_pos ps Pp) as HQ. unfold Q in *.
  apply (crt_unique ps); auto; [apply Z.mod_pos_bound; lia|].
  intros i Hi. rewrite (C i Hi), mpz2poly_nth by exact Hi. specialize (Pp i Hi).
  apply Zmod_div_mod; [lia | lia |]. rewrite (prod_others i ps Hi). apply Z.divide_factor_l.
Qed.

(* residues -> big integer -> residues is the identity on canonical residues *)
Theorem mpz2poly_poly2mpz rs x : length rs = length ps -> (forall i, (i < length ps)%nat -> 0 <= nth i rs 0 < nth i ps 1) ->
  poly2mpz_coef w ps rs = Some x -> mpz2poly_coef ps x = rs.
Proof.
  intros Hl Hr E. destruct (poly2mpz_correct w ps Hw ps_ne ps_rng invs Hinvs rs Hl Hr) as (x' & E' & R & C).
  rewrite E in E'. injection E' as <-.
  apply (nth_ext _ _ 0 0); [unfold mpz2poly_coef; rewrite map_length; lia|].
  intros j Hj. unfold mpz2poly_coef in Hj. rewrite map_length in Hj. rewrite mpz2poly_nth by exact Hj. apply C. exact Hj.
Qed.
End Roundtrip.

(* non-vacuity: the first three 30-bit rows *)
Example crt_example : poly2mpz_coef 32 [1073479681; 1072496641; 1071513601] [1073479680; 0; 5] <> None.
Proof. vm_compute. discriminate. Qed.

(* ---------- adequacy of the Euclid fuel: for pairwise coprime moduli every inverse IS found ---------- *)
Lemma egcd_g_step f a b : b <> 0 -> fst (fst (egcd (S f) a b)) = fst (fst (egcd f b (a mod b))).
Proof. intros Hb. cbn [egcd]. destruct (Z.eqb_spec b 0); [congruence|]. destruct (egcd f b (a mod b)) as [[g u] v]. reflexivity. Qed.
Lemma egcd_g_zero f a : fst (fst (egcd (S f) a 0)) = a.
Proof. reflexivity. Qed.

Lemma mod_halves b r : 0 < r < b -> 2 * (b mod r) < b.
Proof.
  intros Hr. pose proof (Z.mod_pos_bound b r ltac:(lia)) as M. pose proof (Z.div_mod b r ltac:(lia)) as D.
  assert (Q : 1 <= b / r) by (apply Z.div_le_lower_bound; lia). nia.
Qed.

Lemma egcd_is_gcd : forall k a b fuel, 0 <= k -> 0 <= a -> 0 <= b < 2 ^ k -> (Z.to_nat (2 * k + 1) <= fuel)%nat ->
  fst (fst (egcd fuel a b)) = Z.gcd a b.
Proof.
  intros k a b fuel Hk. revert a b fuel. pattern k. apply natlike_ind; [| |exact Hk].
  - intros a b fuel Ha Hb Hf. assert (b = 0) by (change (2 ^ 0) with 1 in Hb; lia). subst b.
    destruct fuel as [|f]; [simpl in Hf; lia|]. rewrite egcd_g_zero, Z.gcd_0_r. symmetry. apply Z.abs_eq. lia.
  - clear k Hk. intros k Hk IH a b fuel Ha Hb Hf.
    rewrite Z.pow_succ_r in Hb by lia.
    assert (F2 : (Z.to_nat (2 * k + 1) + 2 <= fuel)%nat).
    { replace (2 * Z.succ k + 1) with ((2 * k + 1) + 2) in Hf by lia. rewrite Z2Nat.inj_add in Hf by lia.
      change (Z.to_nat 2) with 2%nat in Hf. exact Hf. }
    destruct fuel as [|[|f]]; try lia.
    destruct (Z.eq_dec b 0) as [->|Nb].
    + rewrite egcd_g_zero, Z.gcd_0_r. symmetry. apply Z.abs_eq. lia.
    + rewrite egcd_g_step by exact Nb.
      pose proof (Z.mod_pos_bound a b ltac:(lia)) as Mr. set (r := a mod b) in *.
      assert (G1 : Z.gcd a b = Z.gcd b r) by (unfold r; rewrite (Z.gcd_comm b), Z.gcd_mod by exact Nb; apply Z.gcd_comm).
      destruct (Z.eq_dec r 0) as [Er|Nr].
      * rewrite Er. rewrite egcd_g_zero. rewrite G1, Er, Z.gcd_0_r. symmetry. apply Z.abs_eq. lia.
      * rewrite egcd_g_step by exact Nr.
        pose proof (mod_halves b r ltac:(lia)) as H2. pose proof (Z.mod_pos_bound b r ltac:(lia)) as Mr2.
        rewrite (IH r (b mod r) f) by lia.
        rewrite G1. rewrite (Z.gcd_comm r), Z.gcd_mod by exact Nr. apply Z.gcd_comm.
Qed.

Theorem modinv_complete a p : 1 < p -> rel_prime a p -> exists i, modinv a p = Some i.
Proof.
  intros Hp Hr. unfold modinv. pose proof (egcd_bezout (fuel_for p) p (a mod p)) as B.
  assert (G : fst (fst (egcd (fuel_for p) p (a mod p))) = 1).
  { pose proof (Z.mod_pos_bound a p ltac:(lia)) as M. pose proof (Z.log2_nonneg p) as L0.
    destruct (Z.log2_spec p ltac:(lia)) as [_ L2].
    assert (L3 : a mod p < 2 ^ (Z.log2 p + 1)) by (replace (Z.log2 p + 1) with (Z.succ (Z.log2 p)) by lia; lia).
    rewrite (egcd_is_gcd (Z.log2 p + 1)); try lia.
    - rewrite Z.gcd_comm, Z.gcd_mod by lia. rewrite Z.gcd_comm. apply Zgcd_1_rel_prime. exact Hr.
    - unfold fuel_for. rewrite Z2Nat.inj_add, Z2Nat.inj_mul, Z2Nat.inj_add by lia. simpl. lia. }
  clear B. destruct (egcd (fuel_for p) p (a mod p)) as [[g u] v]. simpl in G. subst g. change (1 =? 1) with true. cbv iota. eexists. reflexivity.
Qed.

Lemma rel_prime_others ps i : (i < length ps)%nat ->
  (forall a b, (a < length ps)%nat -> (b < length ps)%nat -> a <> b -> rel_prime (nth a ps 1) (nth b ps 1)) ->
  rel_prime (others i ps) (nth i ps 1).
Proof.
  revert i. induction ps as [|p t IH]; intros i Hi Hc; [simpl in Hi; lia|].
  assert (P : forall l q, (forall j, (j < length l)%nat -> rel_prime (nth j l 1) q) -> rel_prime (prod l) q).
  { induction l as [|x l IHl]; intros q H; simpl; [apply rel_prime_1|].
    apply rel_prime_sym, rel_prime_mult; apply rel_prime_sym; [apply (H 0%nat); simpl; lia | apply IHl; intros j Hj; apply (H (S j)); simpl; lia]. }
  destruct i as [|i]; cbn [others nth].
  - apply P. intros j Hj. apply (Hc (S j) 0%nat); simpl; lia.
  - apply rel_prime_sym, rel_prime_mult; apply rel_prime_sym.
    + apply (Hc 0%nat (S i)); simpl in *; lia.
    + apply IH; [simpl in Hi; lia|]. intros a b Ha Hb Hab. apply (Hc (S a) (S b)); simpl; lia.
Qed.

Lemma all_some_complete l : (forall i, (i < length l)%nat -> nth i l None <> None) -> exists xs, all_some l = Some xs.
Proof.
  induction l as [|o t IH]; intros H; [exists []; reflexivity|].
  destruct o as [x|]; [|exfalso; apply (H 0%nat); simpl; [lia | reflexivity]].
  destruct IH as [xs E]; [intros i Hi; apply (H (S i)); simpl; lia|]. exists (x :: xs). cbn [all_some]. rewrite E. reflexivity.
Qed.

Theorem modinvs_complete ps : (forall i, (i < length ps)%nat -> 1 < nth i ps 1) ->
  (forall a b, (a < length ps)%nat -> (b < length ps)%nat -> a <> b -> rel_prime (nth a ps 1) (nth b ps 1)) ->
  exists invs, all_some (modinvs ps) = Some invs.
Proof.
  intros Hp Hc. apply all_some_complete. intros i Hi. unfold modinvs in *. rewrite map_length, seq_length in Hi.
  rewrite (nth_indep _ None (modinv (others 0 ps) (nth 0 ps 1))) by (rewrite map_length, seq_length; exact Hi).
  rewrite (map_nth (fun i => modinv (others i ps) (nth i ps 1))), seq_nth by exact Hi. simpl.
  destruct (modinv_complete (others i ps) (nth i ps 1) (Hp i Hi) (rel_prime_others ps i Hi Hc)) as [x ->]. discriminate.
Qed.

(* C04 without the side condition: for pairwise coprime moduli below 2^w the lift exists, is in [0,Q) and congruent to every residue *)
Theorem poly2mpz_total w ps : 0 <= w -> ps <> [] -> (forall i, (i < length ps)%nat -> 1 < nth i ps 1 < 2 ^ w) ->
  (forall a b, (a < length ps)%nat -> (b < length ps)%nat -> a <> b -> rel_prime (nth a ps 1) (nth b ps 1)) ->
  forall rs, length rs = length ps -> (forall i, (i < length ps)%nat -> 0 <= nth i rs 0 < nth i ps 1) ->
  exists x, poly2mpz_coef w ps rs = Some x /\ 0 <= x < prod ps /\ forall j, (j < length ps)%nat -> x mod nth j ps 1 = nth j rs 0.
Proof.
  intros Hw Hne Hr Hc rs Hl Hrs.
  destruct (modinvs_complete ps (fun i Hi => proj1 (Hr i Hi)) Hc) as [invs E].
  exact (poly2mpz_correct w ps Hw Hne Hr invs E rs Hl Hrs).
Qed.
Print Assumptions poly2mpz_total.
