(* C01: the circuit theorem closed over every row of the generated tables and every admissible degree *)
From Coq Require Import ZArith Znumtheory Lia List Arith.
From NTT Require Import Functors Algebra Inverse NTTInst NTTClosed Circuit NumTheoryMC TablesOK Shards C06Closed ScalarOps ScalarClosed.
From NTT.gen Require Import Params.
Import ListNotations.
Local Open Scope Z_scope.

Definition circuits_ok (w : Z) (K : nat) (rows : list (Z * Z * Z * Z)) : Prop :=
  forall r, In r rows -> forall k0, (S k0 <= K)%nat ->
  let '(p, _, g, ik) := r in
  forall (env : nat -> list Z) (e : cexp), (forall i, canonical p k0 (env i)) ->
  ntt_inv w p g ik K k0 (evalN p k0 (fun i => ntt_fwd w p g K k0 (env i)) e) = evalR p k0 env e.

Lemma circuits_ok_of_valid w bits K nmod rows : 3 < w -> table_valid w bits (2 ^ Z.of_nat K) nmod rows -> circuits_ok w K rows.
Proof.
  intros Hw T r Hr k0 Hk. pose proof (tv_rows _ _ _ _ _ T r Hr) as V. pose proof (tv_bits _ _ _ _ _ T) as Hb.
  pose proof (row_valid_Hrow w bits _ r Hw Hb V) as HR. destruct (Hrow_facts _ _ HR) as (Hp & H4 & _ & _ & _).
  destruct V as [Vp _ _ _ Vroot _ _ _ Vinv _]. destruct r as [[[p pn] g] ik]. cbn [fst snd] in *.
  apply prime_ge_2 in Vp. intros env e He.
  apply (circuit_correct w p g ik K k0 ltac:(lia) ltac:(lia) H4 Vroot Vinv Hk env e He).
Qed.

Theorem circuits_ok_tables : circuits_ok 16 K16 rows16 /\ circuits_ok 32 K32 rows32 /\ circuits_ok 64 K64 rows64.
Proof.
  destruct tables_valid as (T16 & T32 & T64).
  rewrite maxdeg16_pow in T16. rewrite maxdeg32_pow in T32. rewrite maxdeg64_pow in T64.
  change w16 with 16 in T16. change w32 with 32 in T32. change w64 with 64 in T64.
  split; [|split].
  - apply (circuits_ok_of_valid 16 bits16 K16 nmod16 rows16 ltac:(lia) T16).
  - apply (circuits_ok_of_valid 32 bits32 K32 nmod32 rows32 ltac:(lia) T32).
  - apply (circuits_ok_of_valid 64 bits64 K64 nmod64 rows64 ltac:(lia) T64).
Qed.
Print Assumptions circuits_ok_tables.
