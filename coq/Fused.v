From Coq Require Import ZArith Lia List.
From NTT Require Import Functors.
Local Open Scope Z_scope.

(* the fused last two layers of core::ntt on one block (u0,u1,u2,u3), with w1 = wtab[1], w1' = winvtab[1] *)
Section Fused.
Variable w : Z.  Hypothesis Hw : 0 < w.
Let B := 2 ^ w.
Variable p : Z.  Hypothesis Hp : 0 < p.  Hypothesis H4p : 4 * p <= B.

Definition wrp (x : Z) := x mod B.
Definition sgnw (x : Z) : Z := if x <? 2 ^ (w - 1) then x else x - B.               (* (signed_value_type) x *)
Definition ladd (a b : Z) : Z := let v := wrp (a + b) in wrp (v - (if v >=? 2 * p then 2 * p else 0)).
Definition lsub (a b : Z) : Z := let v := wrp (a - b) in wrp (v + (if sgnw v <? 0 then 2 * p else 0)).

Definition fused (w1 w1' u0 u1 u2 u3 : Z) : Z * Z * Z * Z :=
  let v0 := ladd u0 u2 in let v2 := lsub u0 u2 in let v1 := ladd u1 u3 in
  (* t = u1 - u3 + 2p; q = (t * w1') >> w; v3 = t * w1 - q * p : textually the second half of ntt_loop_body *)
  let v3 := snd (bfly_lazy w p w1 w1' u1 u3) in
  (ladd v0 v1, lsub v0 v1, ladd v2 v3, lsub v2 v3).

Lemma B_pos' : 0 < B. Proof. apply Z.pow_pos_nonneg; lia. Qed.
Lemma Bhalf : B = 2 * 2 ^ (w - 1). Proof. unfold B. rewrite <- Z.pow_succ_r by lia. f_equal. lia. Qed.

Lemma ladd_ok a b : 0 <= a < 2 * p -> 0 <= b < 2 * p -> 0 <= ladd a b < 2 * p /\ (ladd a b) mod p = (a + b) mod p.
Proof. intros Ha Hb. pose proof B_pos'. unfold ladd, wrp. rewrite (Z.mod_small (a + b)) by lia.
  destruct (Z.geb_spec (a + b) (2 * p)); rewrite Z.mod_small by lia; (split; [lia|]).
  - replace (a + b - 2 * p) with (a + b + (-2) * p) by ring. apply Z.mod_add. lia.
  - now rewrite Z.sub_0_r. Qed.

Lemma lsub_ok a b : 0 <= a < 2 * p -> 0 <= b < 2 * p -> 0 <= lsub a b < 2 * p /\ (lsub a b) mod p = (a - b) mod p.
Proof. intros Ha Hb. pose proof B_pos'. pose proof Bhalf as E. assert (P : 0 < 2 ^ (w - 1)) by (apply Z.pow_pos_nonneg; lia).
  unfold lsub, wrp, sgnw. destruct (Z_lt_le_dec (a - b) 0).
  - (* negative: wraps to a - b + B, top bit set *)
    replace ((a - b) mod B) with (a - b + B) by (apply (Z.mod_unique_pos _ B (-1)); lia).
    destruct (Z.ltb_spec (a - b + B) (2 ^ (w - 1))); [lia|].
    destruct (Z.ltb_spec (a - b + B - B) 0); [|lia].
    replace ((a - b + B + 2 * p) mod B) with (a - b + 2 * p) by (apply (Z.mod_unique_pos _ B 1); lia).
    split; [lia|]. replace (a - b + 2 * p) with (a - b + 2 * p) by ring. rewrite Z.add_comm, Z.mul_comm. 
    replace (p * 2 + (a - b)) with ((a - b) + 2 * p) by ring. apply Z.mod_add. lia.
  - rewrite (Z.mod_small (a - b)) by lia. destruct (Z.ltb_spec (a - b) (2 ^ (w - 1))); [|lia].
    destruct (Z.ltb_spec (a - b) 0); [lia|]. rewrite Z.add_0_r, Z.mod_small by lia. split; [lia | reflexivity]. Qed.

Theorem fused_correct w1 u0 u1 u2 u3 : 0 <= w1 < p ->
  0 <= u0 < 2 * p -> 0 <= u1 < 2 * p -> 0 <= u2 < 2 * p -> 0 <= u3 < 2 * p ->
  let '(z0, z1, z2, z3) := fused w1 ((w1 * B) / p) u0 u1 u2 u3 in
  (0 <= z0 < 2 * p /\ z0 mod p = ((u0 + u2) + (u1 + u3)) mod p) /\
  (0 <= z1 < 2 * p /\ z1 mod p = ((u0 + u2) - (u1 + u3)) mod p) /\
  (0 <= z2 < 2 * p /\ z2 mod p = ((u0 - u2) + (u1 - u3) * w1) mod p) /\
  (0 <= z3 < 2 * p /\ z3 mod p = ((u0 - u2) - (u1 - u3) * w1) mod p).
Proof.
  intros Hw1 H0 H1 H2 H3. unfold fused. pose proof B_pos'.
  destruct (ladd_ok u0 u2 H0 H2) as [R0 C0]. destruct (lsub_ok u0 u2 H0 H2) as [R2 C2]. destruct (ladd_ok u1 u3 H1 H3) as [R1 C1].
  (* v3: the twiddled difference, through the lazy butterfly lemma *)
  pose proof (bfly_lazy_correct w Hw p w1 u1 u3 Hp H4p Hw1 H1 H3) as BL. fold B in BL.
  destruct (bfly_lazy w p w1 (w1 * B / p) u1 u3) as [s3 v3]. destruct BL as [_ [R3 C3]]. cbn [snd].
  set (v0 := ladd u0 u2) in *. set (v2 := lsub u0 u2) in *. set (v1 := ladd u1 u3) in *.
  destruct (ladd_ok v0 v1 R0 R1) as [Ra Ca]. destruct (lsub_ok v0 v1 R0 R1) as [Rb Cb].
  destruct (ladd_ok v2 v3 R2 R3) as [Rc Cc]. destruct (lsub_ok v2 v3 R2 R3) as [Rd Cd].
  repeat split; try lia.
  - rewrite Ca, Z.add_mod, C0, C1, <- Z.add_mod by lia. reflexivity.
  - rewrite Cb, Zminus_mod, C0, C1, <- Zminus_mod. reflexivity.
  - rewrite Cc, Z.add_mod, C2, C3, <- Z.add_mod by lia. reflexivity.
  - rewrite Cd, Zminus_mod, C2, C3, <- Zminus_mod. reflexivity.
Qed.
End Fused.
Print Assumptions fused_correct.

