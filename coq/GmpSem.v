(* The meaning of the GMP calls made by include/nfl/gmp.hpp, as the GMP manual documents them: an mpz_t is an integer, the functions are
   total on the arguments the manual allows and have no result (None) otherwise (division by zero, mpz_divexact on a non-multiple,
   mpz_invert without an inverse: "the return value is zero and rop is undefined").  Trusted: this file IS the specification of GMP used
   by the translation tools/cxxgmp2coq.py; it is short on purpose. *)
From Coq Require Import ZArith Bool.
From NTT Require Import CRTExec.
Local Open Scope Z_scope.

Definition gmp_sizeinbase2 (x : Z) : Z := if x =? 0 then 1 else Z.log2 (Z.abs x) + 1.          (* mpz_sizeinbase(x, 2) *)
Definition gmp_cmp (a b : Z) : Z := match a ?= b with Lt => -1 | Eq => 0 | Gt => 1 end.         (* mpz_cmp: only the sign is specified *)
Definition gmp_fdiv_ui (n d : Z) : option Z := if d =? 0 then None else Some (n mod d).          (* mpz_fdiv_ui: floor remainder, 0 <= r < d *)
Definition gmp_tdiv_q (n d : Z) : option Z := if d =? 0 then None else Some (Z.quot n d).        (* mpz_tdiv_q: quotient rounded towards zero *)
Definition gmp_tdiv_q_2exp (n b : Z) : Z := Z.quot n (2 ^ b).                                    (* mpz_tdiv_q_2exp *)
Definition gmp_divexact (n d : Z) : option Z := if (d =? 0) || negb (n mod d =? 0) then None else Some (n / d).   (* mpz_divexact: d must divide n *)
(* mpz_invert(rop, a, m): the inverse of a modulo m in [0, m) when it exists; CRTExec.modinv is that function (modinv_ok: what it returns
   is the inverse in [0,m); modinv_complete: it returns one whenever gcd(a,m) = 1) *)
Definition gmp_invert (a m : Z) : option Z := modinv a m.
