(* C16 — raw serialisation round-trips and has a stable byte layout.  Statements only (Serial.v). *)
From Coq Require Import ZArith List Arith.
From NTT Require Import Serial Text.
Import ListNotations.
Local Open Scope Z_scope.

(* writing then reading reproduces the words, consumes exactly count*wb bytes, leaves the rest of the stream (so several polynomials read back in sequence) *)
Theorem C16_roundtrip : forall wb, (0 < wb)%nat -> forall ws rest, Forall (fun x => 0 <= x < 256 ^ Z.of_nat wb) ws ->
  deserialize wb (length ws) (serialize wb ws ++ rest) = (ws, rest, true).
Proof. exact deserialize_serialize. Qed.
Print Assumptions C16_roundtrip.

(* layout: exactly degree*moduli limbs of wb bytes, in storage (modulus-major) order, little-endian *)
Theorem C16_length : forall wb ws, length (serialize wb ws) = (length ws * wb)%nat.
Proof. exact serialize_length. Qed.
Print Assumptions C16_length.
Theorem C16_limb_little_endian : forall n x, 0 <= x < 256 ^ Z.of_nat n -> le_decode (le_encode n x) = x.
Proof. exact le_decode_encode. Qed.
Print Assumptions C16_limb_little_endian.

(* every truncation point reports failure ... *)
Theorem C16_truncated_fails : forall wb, (0 < wb)%nat -> forall cnt stream, (length stream < cnt * wb)%nat -> snd (deserialize wb cnt stream) = false.
Proof. exact deserialize_truncated. Qed.
Print Assumptions C16_truncated_fails.

(* ... and the object then holds the restored prefix followed by its old content: nothing outside the object can be written
   (the result is a list of exactly `length old` words) *)
Theorem C16_truncated_overlay : forall wb, (0 < wb)%nat -> forall old ws k, length ws = length old -> (k <= length old)%nat ->
  Forall (fun x => 0 <= x < 256 ^ Z.of_nat wb) ws -> Forall (fun x => 0 <= x < 256 ^ Z.of_nat wb) old ->
  overlay wb old (serialize wb (firstn k ws)) = firstn k ws ++ skipn k old.
Proof. exact overlay_whole_limbs. Qed.
Print Assumptions C16_truncated_overlay.

(* the textual form "{ v0T, v1T, ..., vkT }" (T = U / UL / ULL: any suffix starting with 'U') written by the loop of operator<<
   lists the stored words in order and parses back to exactly them; distinct polynomials have distinct texts *)
Theorem C16_text_parses_back : forall suf, (exists r, suf = 85%N :: r) -> forall ws, ws <> nil -> Text.parse suf (Text.print suf ws) = Some ws.
Proof. exact Text.parse_print. Qed.
Print Assumptions C16_text_parses_back.
Theorem C16_text_injective : forall suf, (exists r, suf = 85%N :: r) -> forall ws ws', ws <> nil -> ws' <> nil ->
  Text.print suf ws = Text.print suf ws' -> ws = ws'.
Proof. exact Text.print_injective. Qed.
Print Assumptions C16_text_injective.
Example C16_text_example : Text.print [85; 76]%N [0; 42; 1073479681]%N
  = [123; 32; 48; 85; 76; 44; 32; 52; 50; 85; 76; 44; 32; 49; 48; 55; 51; 52; 55; 57; 54; 56; 49; 85; 76; 32; 125]%N.   (* "{ 0UL, 42UL, 1073479681UL }" *)
Proof. vm_compute. reflexivity. Qed.
