(* C16 — raw serialisation round-trips and has a stable byte layout.  Statements only (Serial.v). *)
From Coq Require Import ZArith List Arith.
From NTT Require Import Serial.
Local Open Scope Z_scope.

(* writing then reading reproduces the words, consumes exactly count*wb bytes, leaves the rest of the stream (so several polynomials read back in sequence) *)
Theorem C16_roundtrip : forall wb, (0 < wb)%nat -> forall ws rest, Forall (fun x => 0 <= x < 256 ^ Z.of_nat wb) ws ->
  deserialize wb (length ws) (serialize wb ws ++ rest) = (ws, rest, true).
Proof. exact deserialize_serialize. Qed.
Print Assumptions C16_roundtrip.

(* layout: exactly degree*moduli limbs of wb bytes, in storage (modulus-major) order, little-endian *)
Theorem C16_length : forall wb ws, length (serialize wb ws) = (length ws * wb)%nat.
Proof. exact serialize_length. Qed.
Print Assumptions C16_length.
Theorem C16_limb_little_endian : forall n x, 0 <= x < 256 ^ Z.of_nat n -> le_decode (le_encode n x) = x.
Proof. exact le_decode_encode. Qed.
Print Assumptions C16_limb_little_endian.

(* every truncation point reports failure ... *)
Theorem C16_truncated_fails : forall wb, (0 < wb)%nat -> forall cnt stream, (length stream < cnt * wb)%nat -> snd (deserialize wb cnt stream) = false.
Proof. exact deserialize_truncated. Qed.
Print Assumptions C16_truncated_fails.

(* ... and the object then holds the restored prefix followed by its old content: nothing outside the object can be written
   (the result is a list of exactly `length old` words) *)
Theorem C16_truncated_overlay : forall wb, (0 < wb)%nat -> forall old ws k, length ws = length old -> (k <= length old)%nat ->
  Forall (fun x => 0 <= x < 256 ^ Z.of_nat wb) ws -> Forall (fun x => 0 <= x < 256 ^ Z.of_nat wb) old ->
  overlay wb old (serialize wb (firstn k ws)) = firstn k ws ++ skipn k old.
Proof. exact overlay_whole_limbs. Qed.
Print Assumptions C16_truncated_overlay.
