(* C16 — raw serialisation round-trips and has a stable byte layout.  Statements only (Serial.v). *)
From Coq Require Import ZArith List Arith.
From NTT Require Import Serial Text.
Import ListNotations.
Local Open Scope Z_scope.

(* writing then reading reproduces the words, consumes exactly count*wb bytes, leaves the rest of the stream (so several polynomials read back in sequence) *)
Theorem C16_roundtrip : forall wb, (0 < wb)%nat -> forall ws rest, Forall (fun x => 0 <= x < 256 ^ Z.of_nat wb) ws ->
  deserialize wb (length ws) (serialize wb ws ++ rest) = (ws, rest, true).
Proof. exact deserialize_serialize. Qed.
Print Assumptions C16_roundtrip.

(* layout: exactly degree*moduli limbs of wb bytes, in storage (modulus-major) order, little-endian *)
Theorem C16_length : forall wb ws, length (serialize wb ws) = (length ws * wb)%nat.
Proof. exact serialize_length. Qed.
Print Assumptions C16_length.
Theorem C16_limb_little_endian : forall n x, 0 <= x < 256 ^ Z.of_nat n -> le_decode (le_encode n x) = x.
Proof. exact le_decode_encode. Qed.
Print Assumptions C16_limb_little_endian.

(* every truncation point reports failure ... *)
Theorem C16_truncated_fails : forall wb, (0 < wb)%nat -> forall cnt stream, (length stream < cnt * wb)%nat -> snd (deserialize wb cnt stream) = false.
Proof. exact deserialize_truncated. Qed.
Print Assumptions C16_truncated_fails.

(* ... and the object then holds the restored prefix followed by its old content: nothing outside the object can be written
   (the result is a list of exactly `length old` words) *)
Theorem C16_truncated_overlay : forall wb, (0 < wb)%nat -> forall old ws k, length ws = length old -> (k <= length old)%nat ->
  Forall (fun x => 0 <= x < 256 ^ Z.of_nat wb) ws -> Forall (fun x => 0 <= x < 256 ^ Z.of_nat wb) old ->
  overlay wb old (serialize wb (firstn k ws)) = firstn k ws ++ skipn k old.
Proof. exact overlay_whole_limbs. Qed.
Print Assumptions C16_truncated_overlay.

(* the textual form "{ v0T, v1T, ..., vkT }" (T = U / UL / ULL: any suffix starting with 'U') written by the loop of operator<<
   lists the stored words in order and parses back to exactly them; distinct polynomials have distinct texts *)
Theorem C16_text_parses_back : forall suf, (exists r, suf = 85%N :: r) -> forall ws, ws <> nil -> Text.parse suf (Text.print suf ws) = Some ws.
Proof. exact Text.parse_print. Qed.
Print Assumptions C16_text_parses_back.
Theorem C16_text_injective : forall suf, (exists r, suf = 85%N :: r) -> forall ws ws', ws <> nil -> ws' <> nil ->
  Text.print suf ws = Text.print suf ws' -> ws = ws'.
Proof. exact Text.print_injective. Qed.
Print Assumptions C16_text_injective.
Example C16_text_example : Text.print [85; 76]%N [0; 42; 1073479681]%N
  = [123; 32; 48; 85; 76; 44; 32; 52; 50; 85; 76; 44; 32; 49; 48; 55; 51; 52; 55; 57; 54; 56; 49; 85; 76; 32; 125]%N.   (* "{ 0UL, 42UL, 1073479681UL }" *)
Proof. vm_compute. reflexivity. Qed.

(* THE RAW SERIALISERS OF THE SOURCE: poly::serialize_manually / deserialize_manually, read from the source on every run (each is one stream call,
   ostream::write / istream::read, on the bytes of _data with N * sizeof(T) bytes, N = Degree * NbModuli checked in the AST; IoSem.v gives the
   calls their byte-level meaning on a little-endian machine): what the first writes is Serial.serialize of the stored limbs -- exactly N * wb
   bytes appended to the stream -- and the second reads it back into any polynomial, consuming exactly those bytes and reporting success. *)
From NTT Require IoSem SerialSrc.
From NTT.gen Require GenLoop.
Theorem C16_source_round_trip : forall n nm data old rest, length data = (nm * n)%nat -> length old = (nm * n)%nat ->
  (Forall (fun x => 0 <= x < 256 ^ 2) data -> exists bs, GenLoop.gen_serialize_u16 (Z.of_nat n) (Z.of_nat nm) data nil = Some bs /\ length bs = (nm * n * 2)%nat /\ GenLoop.gen_deserialize_u16 (Z.of_nat n) (Z.of_nat nm) old (bs ++ rest) = Some (data, rest, true)) /\
  (Forall (fun x => 0 <= x < 256 ^ 4) data -> exists bs, GenLoop.gen_serialize_u32 (Z.of_nat n) (Z.of_nat nm) data nil = Some bs /\ length bs = (nm * n * 4)%nat /\ GenLoop.gen_deserialize_u32 (Z.of_nat n) (Z.of_nat nm) old (bs ++ rest) = Some (data, rest, true)) /\
  (Forall (fun x => 0 <= x < 256 ^ 8) data -> exists bs, GenLoop.gen_serialize_u64 (Z.of_nat n) (Z.of_nat nm) data nil = Some bs /\ length bs = (nm * n * 8)%nat /\ GenLoop.gen_deserialize_u64 (Z.of_nat n) (Z.of_nat nm) old (bs ++ rest) = Some (data, rest, true)).
Proof. exact SerialSrc.source_serial_round_trip. Qed.
Print Assumptions C16_source_round_trip.
Theorem C16_source_is_model : forall n nm data s, length data = (nm * n)%nat ->
  (forall out, GenLoop.gen_serialize_u16 (Z.of_nat n) (Z.of_nat nm) data out = Some (out ++ serialize 2 data) /\ GenLoop.gen_serialize_u32 (Z.of_nat n) (Z.of_nat nm) data out = Some (out ++ serialize 4 data) /\
               GenLoop.gen_serialize_u64 (Z.of_nat n) (Z.of_nat nm) data out = Some (out ++ serialize 8 data)) /\
  (let r := fun wb => Some (let '(ws, rest, ok) := deserialize wb (nm * n) s in ((if ok then ws else overlay wb data s), rest, ok)) in
   GenLoop.gen_deserialize_u16 (Z.of_nat n) (Z.of_nat nm) data s = r 2%nat /\ GenLoop.gen_deserialize_u32 (Z.of_nat n) (Z.of_nat nm) data s = r 4%nat /\ GenLoop.gen_deserialize_u64 (Z.of_nat n) (Z.of_nat nm) data s = r 8%nat).
Proof. exact (fun n nm data s Hd => conj (fun out => SerialSrc.source_serialize n nm data out Hd) (SerialSrc.source_deserialize n nm data s Hd)). Qed.
Print Assumptions C16_source_is_model.

(* non-vacuity: the translated serialisers RUN: little-endian limbs appended to the stream; read back with the rest of the stream left *)
Example C16_source_nonvacuous :
  GenLoop.gen_serialize_u16 2 2 (258 :: 1 :: 65535 :: 0 :: nil) (9 :: nil) = Some (9 :: 2 :: 1 :: 1 :: 0 :: 255 :: 255 :: 0 :: 0 :: nil) /\
  GenLoop.gen_deserialize_u16 2 2 (0 :: 0 :: 0 :: 0 :: nil) (2 :: 1 :: 1 :: 0 :: 255 :: 255 :: 0 :: 0 :: 77 :: nil) = Some (258 :: 1 :: 65535 :: 0 :: nil, 77 :: nil, true).
Proof. vm_compute. repeat split. Qed.
Print Assumptions C16_source_nonvacuous.

(* operator<<(std::ostream&, poly const&) OF THE SOURCE (include/nfl/core.hpp), translated on every run by tools/cxxtext2coq.py into gen/GenText.v (the
   bool flag, the suffix chosen by the typeid comparisons of the instantiation, the chains of stream insertions, the range-for over the stored
   words, each UNSIGNED word printed in decimal): for the three limb types it appends exactly Text.print with the suffix "U", "UL", "ULL" -- all
   stored words in order, each with the limb-width suffix -- and therefore parses back to the same words (C16_text_parses_back). *)
From NTT Require TextSrc.
From NTT.gen Require GenText.
Theorem C16_source_print : (forall data, GenText.gen_print_u16 data = Text.print (85 :: nil)%N data) /\ (forall data, GenText.gen_print_u32 data = Text.print (85 :: 76 :: nil)%N data) /\
  (forall data, GenText.gen_print_u64 data = Text.print (85 :: 76 :: 76 :: nil)%N data).
Proof. exact TextSrc.source_print. Qed.
Print Assumptions C16_source_print.
Theorem C16_source_print_parses_back : forall ws, ws <> nil ->
  Text.parse (85 :: nil)%N (GenText.gen_print_u16 ws) = Some ws /\ Text.parse (85 :: 76 :: nil)%N (GenText.gen_print_u32 ws) = Some ws /\ Text.parse (85 :: 76 :: 76 :: nil)%N (GenText.gen_print_u64 ws) = Some ws.
Proof. exact TextSrc.source_print_parses_back. Qed.
Print Assumptions C16_source_print_parses_back.
Example C16_source_print_example : GenText.gen_print_u32 (0 :: 42 :: 1073479681 :: nil)%N =
  (123 :: 32 :: 48 :: 85 :: 76 :: 44 :: 32 :: 52 :: 50 :: 85 :: 76 :: 44 :: 32 :: 49 :: 48 :: 55 :: 51 :: 52 :: 55 :: 57 :: 54 :: 56 :: 49 :: 85 :: 76 :: 32 :: 125 :: nil)%N.
Proof. exact TextSrc.source_print_example. Qed.
Print Assumptions C16_source_print_example.

(* THE LAYOUT.  The storage of class poly is read from the source on every run (tools/cxxlayout2coq.py -> gen/GenLayout.v, three limb types): the
   only data member is the aligned array `T _data[Degree * NbModuli]`; operator()(cm, i), const and non-const, is `_data[INDEX]` with INDEX
   translated (unsigned 64-bit arithmetic); begin()/end() (all six) are std::begin/end(_data); the cereal hook archives `_data` alone.  The
   index is cm * degree + i -- MODULUS-MAJOR -- and (cm, i) -> index is a bijection of [0, nmoduli) x [0, degree) onto [0, degree * nmoduli): the
   raw form (the object representation of _data: C16_source_is_model) is exactly degree x moduli limbs, modulus by modulus. *)
From NTT Require LayoutSpec.
From NTT.gen Require GenLayout.
Theorem C16_source_layout : LayoutSpec.modulus_major GenLayout.gen_index_u16 /\ LayoutSpec.modulus_major GenLayout.gen_index_u32 /\ LayoutSpec.modulus_major GenLayout.gen_index_u64.
Proof. exact LayoutSpec.source_layout. Qed.
Print Assumptions C16_source_layout.
Example C16_source_layout_example : GenLayout.gen_index_u32 1024 2 5 = 2053 /\ GenLayout.gen_index_u16 8 0 7 = 7.
Proof. exact LayoutSpec.source_layout_example. Qed.
