(* C05 — serial, SSE and AVX2 builds compute bit-identical results.  Statements only.
   What is proved: every value-changing step of the SSE/AVX2 kernels (addmod, submod, mulmod_shoup u32/u16, muladd_shoup u16,
   the vector Harvey butterfly), modelled per lane with its machine widths, signed-compare trick and pack saturation, equals
   the scalar functor; layers and expression assignment do not depend on the lane grouping.  Lane-preserving data movement
   (shuffle/blend/widen/pack order) is tied by the cross-build correspondence (see DESIGN.md). *)
From Coq Require Import ZArith List Arith.
From NTT Require Import Functors ScalarOps Simd SimdKernels Layer Expr ExprExec.
Local Open Scope Z_scope.

(* addmod<uint32_t/uint16_t, sse/avx2>: the signed-compare trick = the scalar functor in every lane, any lane count *)
Theorem C05_addmod_lanes : forall w, 1 < w -> forall p, 0 < p -> 2 * p <= 2 ^ w -> forall x y, length x = length y ->
  Forall (fun v => 0 <= v < p) x -> Forall (fun v => 0 <= v < p) y -> addmod_vec w p x y = map2 (addmod w p) x y.
Proof. exact addmod_vec_lanes. Qed.
Print Assumptions C05_addmod_lanes.

(* a transform layer computed block by block (any grouping of the butterflies into vector lanes) is determined by its
   per-butterfly function: the nth characterisation of the executable layer *)
Theorem C05_layer_nth : forall (bf : nat -> Z -> Z -> Z * Z) (M half : nat) (x : list Z) (r i : nat),
  (0 < half)%nat -> length x = (M * (2 * half))%nat -> (r < M)%nat -> (i < 2 * half)%nat ->
  let idx := (2 * half * r + i)%nat in
  nth idx (blocks bf M half x) 0 =
  (if (i <? half)%nat then fst (bf i (nth idx x 0) (nth (idx + half) x 0))
   else snd (bf (i - half)%nat (nth (idx - half) x 0) (nth idx x 0))).
Proof. exact blocks_nth. Qed.
Print Assumptions C05_layer_nth.

(* expression assignment: the stored words do not depend on the vector width (1, 4, 8, 16 lanes) *)
Theorem C05_assign_width_irrelevant : forall w p pn dst t L1 m1 L2 m2 (h0 : heap) i, (m1 * L1 = m2 * L2)%nat -> (i < m1 * L1)%nat ->
  assign (fop w p pn) (mulmod_shoup w p) (fcsh w p) dst (tr t) L1 m1 h0 dst i = assign (fop w p pn) (mulmod_shoup w p) (fcsh w p) dst (tr t) L2 m2 h0 dst i.
Proof. exact assign_width. Qed.
Print Assumptions C05_assign_width_irrelevant.

(* submod<T, sse/avx2> = addmod(x, set1(p) - y): exact in every lane *)
Theorem C05_submod_lane : forall w p x y, 1 < w -> 0 < p -> 2 * p <= 2 ^ w -> 0 <= x < p -> 0 <= y < p -> lane_sub w p x y = (x - y) mod p.
Proof. exact lane_sub_exact. Qed.
Print Assumptions C05_submod_lane.

(* mulmod_shoup<uint32_t, sse>: 64-bit product lanes, 64-bit compare trick, low half kept *)
Theorem C05_mulmod_shoup32_lane : forall p x y, Hrow 32 p -> 0 <= x < p -> 0 <= y < p -> lane_mulshoup32 p x y ((y * 2 ^ 32) / p) = (x * y) mod p.
Proof. exact lane_mulshoup32_exact. Qed.
Print Assumptions C05_mulmod_shoup32_lane.

(* mulmod_shoup<uint16_t, sse/avx2>: widened 32-bit lanes, packus saturation never triggers *)
Theorem C05_mulmod_shoup16_lane : forall p x y, Hrow 16 p -> 0 <= x < p -> 0 <= y < p -> lane_mulshoup16 p x y ((y * 2 ^ 16) / p) = (x * y) mod p.
Proof. exact lane_mulshoup16_exact. Qed.
Print Assumptions C05_mulmod_shoup16_lane.

(* muladd_shoup<uint16_t, sse/avx2> = the scalar (lazy) functor, word for word *)
Theorem C05_muladd_shoup16_lane : forall p rop x y, Hrow 16 p -> 0 <= rop < p -> 0 <= x < p -> 0 <= y < p ->
  let r := lane_muladdshoup16 p rop x y ((y * 2 ^ 16) / p) in
  r = muladd_shoup 16 p rop x y ((y * 2 ^ 16) / p) /\ 0 <= r < 2 * p /\ r mod p = (x * y + rop) mod p.
Proof. exact lane_muladdshoup16_lazy. Qed.
Print Assumptions C05_muladd_shoup16_lane.

(* ntt_loop_body<sse/avx2, u16/u32>: the vector butterfly is the scalar lazy butterfly for ALL lane contents *)
Theorem C05_butterfly_lane : forall w p wt wt' a b, 1 < w -> 0 < p -> 4 * p <= 2 ^ w -> 0 <= a < 2 ^ w -> 0 <= b < 2 ^ w ->
  lane_bfly w p wt wt' a b = bfly_lazy w p wt wt' a b.
Proof. exact lane_bfly_scalar. Qed.
Print Assumptions C05_butterfly_lane.
