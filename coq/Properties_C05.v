(* C05 — serial, SSE and AVX2 builds compute bit-identical results.  Statements only.
   What is proved: the vector kernels/loops that are modelled are equal, as functions on word lists, to the scalar ones;
   the remaining kernels are tied by the cross-build correspondence (see DESIGN.md). *)
From Coq Require Import ZArith List Arith.
From NTT Require Import Functors Simd Layer Expr ExprExec.
Local Open Scope Z_scope.

(* addmod<uint32_t/uint16_t, sse/avx2>: the signed-compare trick = the scalar functor in every lane, any lane count *)
Theorem C05_addmod_lanes : forall w, 1 < w -> forall p, 0 < p -> 2 * p <= 2 ^ w -> forall x y, length x = length y ->
  Forall (fun v => 0 <= v < p) x -> Forall (fun v => 0 <= v < p) y -> addmod_vec w p x y = map2 (addmod w p) x y.
Proof. exact addmod_vec_lanes. Qed.
Print Assumptions C05_addmod_lanes.

(* a transform layer computed block by block (any grouping of the butterflies into vector lanes) is determined by its
   per-butterfly function: the nth characterisation of the executable layer *)
Theorem C05_layer_nth : forall (bf : nat -> Z -> Z -> Z * Z) (M half : nat) (x : list Z) (r i : nat),
  (0 < half)%nat -> length x = (M * (2 * half))%nat -> (r < M)%nat -> (i < 2 * half)%nat ->
  let idx := (2 * half * r + i)%nat in
  nth idx (blocks bf M half x) 0 =
  (if (i <? half)%nat then fst (bf i (nth idx x 0) (nth (idx + half) x 0))
   else snd (bf (i - half)%nat (nth (idx - half) x 0) (nth idx x 0))).
Proof. exact blocks_nth. Qed.
Print Assumptions C05_layer_nth.

(* expression assignment: the stored words do not depend on the vector width (1, 4, 8, 16 lanes) *)
Theorem C05_assign_width_irrelevant : forall w p pn dst t L1 m1 L2 m2 (h0 : heap) i, (m1 * L1 = m2 * L2)%nat -> (i < m1 * L1)%nat ->
  assign (fop w p pn) (mulmod_shoup w p) (fcsh w p) dst (tr t) L1 m1 h0 dst i = assign (fop w p pn) (mulmod_shoup w p) (fcsh w p) dst (tr t) L2 m2 h0 dst i.
Proof. exact assign_width. Qed.
Print Assumptions C05_assign_width_irrelevant.
