(* C05 — serial, SSE and AVX2 builds compute bit-identical results.  Statements only.
   What is proved: every value-changing step of the SSE/AVX2 kernels (addmod, submod, mulmod_shoup u32/u16, muladd_shoup u16,
   the vector Harvey butterfly), modelled per lane with its machine widths, signed-compare trick and pack saturation, equals
   the scalar functor; layers and expression assignment do not depend on the lane grouping.  Lane-preserving data movement
   (shuffle/blend/widen/pack order) is tied by the cross-build correspondence (see DESIGN.md). *)
From Coq Require Import ZArith List Arith.
From NTT Require Import Functors ScalarOps Simd SimdKernels Layer Expr ExprExec.
From NTT Require VecSem GenVecEq.
From NTT.gen Require GenVec GenLoop.
From NTT Require Structural FlatTable Tables GenLoopSimd.
Import ListNotations.
Local Open Scope Z_scope.

(* addmod<uint32_t/uint16_t, sse/avx2>: the signed-compare trick = the scalar functor in every lane, any lane count *)
Theorem C05_addmod_lanes : forall w, 1 < w -> forall p, 0 < p -> 2 * p <= 2 ^ w -> forall x y, length x = length y ->
  Forall (fun v => 0 <= v < p) x -> Forall (fun v => 0 <= v < p) y -> addmod_vec w p x y = map2 (addmod w p) x y.
Proof. exact addmod_vec_lanes. Qed.
Print Assumptions C05_addmod_lanes.

(* a transform layer computed block by block (any grouping of the butterflies into vector lanes) is determined by its
   per-butterfly function: the nth characterisation of the executable layer *)
Theorem C05_layer_nth : forall (bf : nat -> Z -> Z -> Z * Z) (M half : nat) (x : list Z) (r i : nat),
  (0 < half)%nat -> length x = (M * (2 * half))%nat -> (r < M)%nat -> (i < 2 * half)%nat ->
  let idx := (2 * half * r + i)%nat in
  nth idx (blocks bf M half x) 0 =
  (if (i <? half)%nat then fst (bf i (nth idx x 0) (nth (idx + half) x 0))
   else snd (bf (i - half)%nat (nth (idx - half) x 0) (nth idx x 0))).
Proof. exact blocks_nth. Qed.
Print Assumptions C05_layer_nth.

(* expression assignment: the stored words do not depend on the vector width (1, 4, 8, 16 lanes) *)
Theorem C05_assign_width_irrelevant : forall w p pn dst t L1 m1 L2 m2 (h0 : heap) i, (m1 * L1 = m2 * L2)%nat -> (i < m1 * L1)%nat ->
  assign (fop w p pn) (mulmod_shoup w p) (fcsh w p) dst (tr t) L1 m1 h0 dst i = assign (fop w p pn) (mulmod_shoup w p) (fcsh w p) dst (tr t) L2 m2 h0 dst i.
Proof. exact assign_width. Qed.
Print Assumptions C05_assign_width_irrelevant.

(* submod<T, sse/avx2> = addmod(x, set1(p) - y): exact in every lane *)
Theorem C05_submod_lane : forall w p x y, 1 < w -> 0 < p -> 2 * p <= 2 ^ w -> 0 <= x < p -> 0 <= y < p -> lane_sub w p x y = (x - y) mod p.
Proof. exact lane_sub_exact. Qed.
Print Assumptions C05_submod_lane.

(* mulmod_shoup<uint32_t, sse>: 64-bit product lanes, 64-bit compare trick, low half kept *)
Theorem C05_mulmod_shoup32_lane : forall p x y, Hrow 32 p -> 0 <= x < p -> 0 <= y < p -> lane_mulshoup32 p x y ((y * 2 ^ 32) / p) = (x * y) mod p.
Proof. exact lane_mulshoup32_exact. Qed.
Print Assumptions C05_mulmod_shoup32_lane.

(* mulmod_shoup<uint16_t, sse/avx2>: widened 32-bit lanes, packus saturation never triggers *)
Theorem C05_mulmod_shoup16_lane : forall p x y, Hrow 16 p -> 0 <= x < p -> 0 <= y < p -> lane_mulshoup16 p x y ((y * 2 ^ 16) / p) = (x * y) mod p.
Proof. exact lane_mulshoup16_exact. Qed.
Print Assumptions C05_mulmod_shoup16_lane.

(* muladd_shoup<uint16_t, sse/avx2> = the scalar (lazy) functor, word for word *)
Theorem C05_muladd_shoup16_lane : forall p rop x y, Hrow 16 p -> 0 <= rop < p -> 0 <= x < p -> 0 <= y < p ->
  let r := lane_muladdshoup16 p rop x y ((y * 2 ^ 16) / p) in
  r = muladd_shoup 16 p rop x y ((y * 2 ^ 16) / p) /\ 0 <= r < 2 * p /\ r mod p = (x * y + rop) mod p.
Proof. exact lane_muladdshoup16_lazy. Qed.
Print Assumptions C05_muladd_shoup16_lane.

(* ntt_loop_body<sse/avx2, u16/u32>: the vector butterfly is the scalar lazy butterfly for ALL lane contents *)
Theorem C05_butterfly_lane : forall w p wt wt' a b, 1 < w -> 0 < p -> 4 * p <= 2 ^ w -> 0 <= a < 2 ^ w -> 0 <= b < 2 ^ w ->
  lane_bfly w p wt wt' a b = bfly_lazy w p wt wt' a b.
Proof. exact lane_bfly_scalar. Qed.
Print Assumptions C05_butterfly_lane.

(* THE SOURCE ITSELF (gen/GenVec.v: the SSE / AVX2 kernels translated from include/nfl/opt/arch/{sse,avx2}.hpp on every run, every
   intrinsic -- including shuffles, blends, 64-bit multiplies, shifts -- given its word-level meaning in VecSem.v): in every lane the
   translated kernels compute the scalar functor / the per-lane model above *)
Theorem C05_source_sse_addmod32 : forall p x0 x1 x2 x3 y0 y1 y2 y3, 0 < p -> 2 * p <= 2 ^ 32 ->
  0 <= x0 < p -> 0 <= x1 < p -> 0 <= x2 < p -> 0 <= x3 < p -> 0 <= y0 < p -> 0 <= y1 < p -> 0 <= y2 < p -> 0 <= y3 < p ->
  GenVec.gen_sse_addmod_u32 p [x0; x1; x2; x3] [y0; y1; y2; y3] = [addmod 32 p x0 y0; addmod 32 p x1 y1; addmod 32 p x2 y2; addmod 32 p x3 y3].
Proof. exact GenVecEq.sse_addmod32. Qed.
Print Assumptions C05_source_sse_addmod32.
Theorem C05_source_sse_submod32 : forall p x0 x1 x2 x3 y0 y1 y2 y3, 0 < p -> 2 * p <= 2 ^ 32 ->
  0 <= x0 < p -> 0 <= x1 < p -> 0 <= x2 < p -> 0 <= x3 < p -> 0 <= y0 < p -> 0 <= y1 < p -> 0 <= y2 < p -> 0 <= y3 < p ->
  GenVec.gen_sse_submod_u32 p [x0; x1; x2; x3] [y0; y1; y2; y3] = [submod 32 p x0 y0; submod 32 p x1 y1; submod 32 p x2 y2; submod 32 p x3 y3].
Proof. exact GenVecEq.sse_submod32. Qed.
Print Assumptions C05_source_sse_submod32.
(* mulmod_shoup<uint32_t, sse>: two passes on 64-bit lanes (even words, then the shuffled odd words), shift, blend *)
Theorem C05_source_sse_mulmod_shoup32 : forall p x0 x1 x2 x3 y0 y1 y2 y3 z0 z1 z2 z3, 0 < p < 2 ^ 31 ->
  0 <= x0 < 2 ^ 32 -> 0 <= x1 < 2 ^ 32 -> 0 <= x2 < 2 ^ 32 -> 0 <= x3 < 2 ^ 32 -> 0 <= y0 < 2 ^ 32 -> 0 <= y1 < 2 ^ 32 -> 0 <= y2 < 2 ^ 32 -> 0 <= y3 < 2 ^ 32 ->
  0 <= z0 < 2 ^ 32 -> 0 <= z1 < 2 ^ 32 -> 0 <= z2 < 2 ^ 32 -> 0 <= z3 < 2 ^ 32 ->
  GenVec.gen_sse_mulmod_shoup_u32 p [x0; x1; x2; x3] [y0; y1; y2; y3] [z0; z1; z2; z3] =
  [lane_mulshoup32 p x0 y0 z0; lane_mulshoup32 p x1 y1 z1; lane_mulshoup32 p x2 y2 z2; lane_mulshoup32 p x3 y3 z3].
Proof. exact GenVecEq.sse_mulmod_shoup32. Qed.
Print Assumptions C05_source_sse_mulmod_shoup32.
(* the vector butterflies, for ALL lane contents *)
Theorem C05_source_sse_butterfly32 : forall p a0 a1 a2 a3 b0 b1 b2 b3 i0 i1 i2 i3 w0 w1 w2 w3, 0 < p -> 4 * p <= 2 ^ 32 ->
  0 <= a0 < 2 ^ 32 -> 0 <= a1 < 2 ^ 32 -> 0 <= a2 < 2 ^ 32 -> 0 <= a3 < 2 ^ 32 -> 0 <= b0 < 2 ^ 32 -> 0 <= b1 < 2 ^ 32 -> 0 <= b2 < 2 ^ 32 -> 0 <= b3 < 2 ^ 32 ->
  0 <= i0 < 2 ^ 32 -> 0 <= i1 < 2 ^ 32 -> 0 <= i2 < 2 ^ 32 -> 0 <= i3 < 2 ^ 32 ->
  GenVec.gen_sse_ntt_loop_body_u32 p [a0; a1; a2; a3] [b0; b1; b2; b3] [i0; i1; i2; i3] [w0; w1; w2; w3] =
  (map fst [lane_bfly 32 p w0 i0 a0 b0; lane_bfly 32 p w1 i1 a1 b1; lane_bfly 32 p w2 i2 a2 b2; lane_bfly 32 p w3 i3 a3 b3],
   map snd [lane_bfly 32 p w0 i0 a0 b0; lane_bfly 32 p w1 i1 a1 b1; lane_bfly 32 p w2 i2 a2 b2; lane_bfly 32 p w3 i3 a3 b3]).
Proof. exact GenVecEq.sse_bfly32. Qed.
Print Assumptions C05_source_sse_butterfly32.
Theorem C05_source_avx2_butterfly32 : forall p a0 a1 a2 a3 a4 a5 a6 a7 b0 b1 b2 b3 b4 b5 b6 b7 i0 i1 i2 i3 i4 i5 i6 i7 w0 w1 w2 w3 w4 w5 w6 w7, 0 < p -> 4 * p <= 2 ^ 32 ->
  Forall (fun v => 0 <= v < 2 ^ 32) [a0; a1; a2; a3; a4; a5; a6; a7; b0; b1; b2; b3; b4; b5; b6; b7; i0; i1; i2; i3; i4; i5; i6; i7] ->
  let L := [lane_bfly 32 p w0 i0 a0 b0; lane_bfly 32 p w1 i1 a1 b1; lane_bfly 32 p w2 i2 a2 b2; lane_bfly 32 p w3 i3 a3 b3;
            lane_bfly 32 p w4 i4 a4 b4; lane_bfly 32 p w5 i5 a5 b5; lane_bfly 32 p w6 i6 a6 b6; lane_bfly 32 p w7 i7 a7 b7] in
  GenVec.gen_avx2_ntt_loop_body_u32 p [a0; a1; a2; a3; a4; a5; a6; a7] [b0; b1; b2; b3; b4; b5; b6; b7] [i0; i1; i2; i3; i4; i5; i6; i7] [w0; w1; w2; w3; w4; w5; w6; w7] = (map fst L, map snd L).
Proof. exact GenVecEq.avx2_bfly32. Qed.
Print Assumptions C05_source_avx2_butterfly32.
Theorem C05_source_avx2_addsub32 : forall p x0 x1 x2 x3 x4 x5 x6 x7 y0 y1 y2 y3 y4 y5 y6 y7, 0 < p -> 2 * p <= 2 ^ 32 ->
  Forall (fun v => 0 <= v < p) [x0; x1; x2; x3; x4; x5; x6; x7; y0; y1; y2; y3; y4; y5; y6; y7] ->
  GenVec.gen_avx2_addmod_u32 p [x0; x1; x2; x3; x4; x5; x6; x7] [y0; y1; y2; y3; y4; y5; y6; y7] =
    [addmod 32 p x0 y0; addmod 32 p x1 y1; addmod 32 p x2 y2; addmod 32 p x3 y3; addmod 32 p x4 y4; addmod 32 p x5 y5; addmod 32 p x6 y6; addmod 32 p x7 y7] /\
  GenVec.gen_avx2_submod_u32 p [x0; x1; x2; x3; x4; x5; x6; x7] [y0; y1; y2; y3; y4; y5; y6; y7] =
    [submod 32 p x0 y0; submod 32 p x1 y1; submod 32 p x2 y2; submod 32 p x3 y3; submod 32 p x4 y4; submod 32 p x5 y5; submod 32 p x6 y6; submod 32 p x7 y7].
Proof. exact GenVecEq.avx2_addsub32. Qed.
Print Assumptions C05_source_avx2_addsub32.
(* 16-bit limbs: two lanes per 32-bit word (mk16 lo hi) *)
Theorem C05_source_sse_addsub16 : forall p x0 x1 x2 x3 x4 x5 x6 x7 y0 y1 y2 y3 y4 y5 y6 y7, 0 < p -> 2 * p <= 2 ^ 16 ->
  Forall (fun v => 0 <= v < p) [x0; x1; x2; x3; x4; x5; x6; x7; y0; y1; y2; y3; y4; y5; y6; y7] ->
  GenVec.gen_sse_addmod_u16 p [VecSem.mk16 x0 x1; VecSem.mk16 x2 x3; VecSem.mk16 x4 x5; VecSem.mk16 x6 x7] [VecSem.mk16 y0 y1; VecSem.mk16 y2 y3; VecSem.mk16 y4 y5; VecSem.mk16 y6 y7] =
    [VecSem.mk16 (addmod 16 p x0 y0) (addmod 16 p x1 y1); VecSem.mk16 (addmod 16 p x2 y2) (addmod 16 p x3 y3); VecSem.mk16 (addmod 16 p x4 y4) (addmod 16 p x5 y5); VecSem.mk16 (addmod 16 p x6 y6) (addmod 16 p x7 y7)] /\
  GenVec.gen_sse_submod_u16 p [VecSem.mk16 x0 x1; VecSem.mk16 x2 x3; VecSem.mk16 x4 x5; VecSem.mk16 x6 x7] [VecSem.mk16 y0 y1; VecSem.mk16 y2 y3; VecSem.mk16 y4 y5; VecSem.mk16 y6 y7] =
    [VecSem.mk16 (submod 16 p x0 y0) (submod 16 p x1 y1); VecSem.mk16 (submod 16 p x2 y2) (submod 16 p x3 y3); VecSem.mk16 (submod 16 p x4 y4) (submod 16 p x5 y5); VecSem.mk16 (submod 16 p x6 y6) (submod 16 p x7 y7)].
Proof. exact GenVecEq.sse_addsub16. Qed.
Print Assumptions C05_source_sse_addsub16.
(* AVX2, 16-bit limbs (eight words = sixteen lanes), in two levels: for ANY register content the kernel is a per-word function
   mapped over the register; on words mk16 lo hi of reduced lanes the per-word function is the scalar functor in both lanes *)
Theorem C05_source_avx2_addsub16_words : forall p X Y, length X = 8%nat -> length Y = 8%nat ->
  GenVec.gen_avx2_addmod_u16 p X Y = VecSem.map2 (GenVecEq.add16_word p) X Y /\ GenVec.gen_avx2_submod_u16 p X Y = VecSem.map2 (GenVecEq.sub16_word p) X Y.
Proof. exact (fun p X Y HX HY => conj (GenVecEq.avx2_addmod16_words p X Y HX HY) (GenVecEq.avx2_submod16_words p X Y HX HY)). Qed.
Print Assumptions C05_source_avx2_addsub16_words.
Theorem C05_source_word16_addsub : forall p a b c d, 0 < p -> 2 * p <= 2 ^ 16 -> 0 <= a < p -> 0 <= b < p -> 0 <= c < p -> 0 <= d < p ->
  GenVecEq.add16_word p (VecSem.mk16 a b) (VecSem.mk16 c d) = VecSem.mk16 (addmod 16 p a c) (addmod 16 p b d) /\
  GenVecEq.sub16_word p (VecSem.mk16 a b) (VecSem.mk16 c d) = VecSem.mk16 (submod 16 p a c) (submod 16 p b d).
Proof. exact (fun p a b c d Hp H2 Ha Hb Hc Hd => conj (GenVecEq.add16_word_lanes p a b c d Hp H2 Ha Hb Hc Hd) (GenVecEq.sub16_word_ok p a b c d Hp H2 Ha Hb Hc Hd)). Qed.
Print Assumptions C05_source_word16_addsub.
(* the 16-bit vector butterflies: SSE (4 words) and AVX2 (8 words) are the same per-word function, whose two lanes are the scalar lazy butterfly for ALL lane contents *)
Theorem C05_source_butterfly16_words : forall p,
  (forall A B I Wt, length A = 4%nat -> length B = 4%nat -> length I = 4%nat -> length Wt = 4%nat ->
     GenVec.gen_sse_ntt_loop_body_u16 p A B I Wt = (map fst (GenVecEq.map4 (GenVecEq.bfly16_word p) A B I Wt), map snd (GenVecEq.map4 (GenVecEq.bfly16_word p) A B I Wt))) /\
  (forall A B I Wt, length A = 8%nat -> length B = 8%nat -> length I = 8%nat -> length Wt = 8%nat ->
     GenVec.gen_avx2_ntt_loop_body_u16 p A B I Wt = (map fst (GenVecEq.map4 (GenVecEq.bfly16_word p) A B I Wt), map snd (GenVecEq.map4 (GenVecEq.bfly16_word p) A B I Wt))).
Proof. exact (fun p => conj (GenVecEq.sse_bfly16_words p) (GenVecEq.avx2_bfly16_words p)). Qed.
Print Assumptions C05_source_butterfly16_words.
Theorem C05_source_word16_butterfly : forall p a a' b b' i i' w w', 0 < p -> 4 * p <= 2 ^ 16 ->
  0 <= a < 2 ^ 16 -> 0 <= a' < 2 ^ 16 -> 0 <= b < 2 ^ 16 -> 0 <= b' < 2 ^ 16 -> 0 <= i < 2 ^ 16 -> 0 <= i' < 2 ^ 16 -> 0 <= w < 2 ^ 16 -> 0 <= w' < 2 ^ 16 ->
  GenVecEq.bfly16_word p (VecSem.mk16 a a') (VecSem.mk16 b b') (VecSem.mk16 i i') (VecSem.mk16 w w') =
  (VecSem.mk16 (fst (lane_bfly 16 p w i a b)) (fst (lane_bfly 16 p w' i' a' b')), VecSem.mk16 (snd (lane_bfly 16 p w i a b)) (snd (lane_bfly 16 p w' i' a' b'))).
Proof. exact GenVecEq.bfly16_word_lanes. Qed.
Print Assumptions C05_source_word16_butterfly.
(* mulmod_shoup / muladd_shoup <uint16_t>: mulhi_epu16, widening (cvtepu16, the 8-byte shift on SSE; cvtepu16 of the whole register,
   permute2x128 and castsi256_si128 on AVX2), 32-bit lane arithmetic with the signed compare, packus with its saturation -- the translated
   kernels give lane_mulshoup16 / lane_muladdshoup16 (= the scalar functors on reduced operands, the C05_lane theorems) in all eight lanes, in order *)
Theorem C05_source_sse_shoup16 : forall p r0 r1 r2 r3 r4 r5 r6 r7 x0 x1 x2 x3 x4 x5 x6 x7 y0 y1 y2 y3 y4 y5 y6 y7 z0 z1 z2 z3 z4 z5 z6 z7, 0 < p < 2 ^ 31 ->
  Forall (fun v => 0 <= v < 65536) [r0; r1; r2; r3; r4; r5; r6; r7; x0; x1; x2; x3; x4; x5; x6; x7; y0; y1; y2; y3; y4; y5; y6; y7; z0; z1; z2; z3; z4; z5; z6; z7] ->
  let m := VecSem.mk16 in
  GenVec.gen_sse_mulmod_shoup_u16 p [m x0 x1; m x2 x3; m x4 x5; m x6 x7] [m y0 y1; m y2 y3; m y4 y5; m y6 y7] [m z0 z1; m z2 z3; m z4 z5; m z6 z7] =
    [m (lane_mulshoup16 p x0 y0 z0) (lane_mulshoup16 p x1 y1 z1); m (lane_mulshoup16 p x2 y2 z2) (lane_mulshoup16 p x3 y3 z3);
     m (lane_mulshoup16 p x4 y4 z4) (lane_mulshoup16 p x5 y5 z5); m (lane_mulshoup16 p x6 y6 z6) (lane_mulshoup16 p x7 y7 z7)] /\
  GenVec.gen_sse_muladd_shoup_u16 p [m r0 r1; m r2 r3; m r4 r5; m r6 r7] [m x0 x1; m x2 x3; m x4 x5; m x6 x7] [m y0 y1; m y2 y3; m y4 y5; m y6 y7] [m z0 z1; m z2 z3; m z4 z5; m z6 z7] =
    [m (lane_muladdshoup16 p r0 x0 y0 z0) (lane_muladdshoup16 p r1 x1 y1 z1); m (lane_muladdshoup16 p r2 x2 y2 z2) (lane_muladdshoup16 p r3 x3 y3 z3);
     m (lane_muladdshoup16 p r4 x4 y4 z4) (lane_muladdshoup16 p r5 x5 y5 z5); m (lane_muladdshoup16 p r6 x6 y6 z6) (lane_muladdshoup16 p r7 x7 y7 z7)].
Proof. exact GenVecEq.sse_shoup16. Qed.
Print Assumptions C05_source_sse_shoup16.
Theorem C05_source_avx2_shoup16 : forall p r0 r1 r2 r3 r4 r5 r6 r7 x0 x1 x2 x3 x4 x5 x6 x7 y0 y1 y2 y3 y4 y5 y6 y7 z0 z1 z2 z3 z4 z5 z6 z7, 0 < p < 2 ^ 31 ->
  Forall (fun v => 0 <= v < 65536) [r0; r1; r2; r3; r4; r5; r6; r7; x0; x1; x2; x3; x4; x5; x6; x7; y0; y1; y2; y3; y4; y5; y6; y7; z0; z1; z2; z3; z4; z5; z6; z7] ->
  let m := VecSem.mk16 in
  GenVec.gen_avx2_mulmod_shoup_u16 p [m x0 x1; m x2 x3; m x4 x5; m x6 x7] [m y0 y1; m y2 y3; m y4 y5; m y6 y7] [m z0 z1; m z2 z3; m z4 z5; m z6 z7] =
    [m (lane_mulshoup16 p x0 y0 z0) (lane_mulshoup16 p x1 y1 z1); m (lane_mulshoup16 p x2 y2 z2) (lane_mulshoup16 p x3 y3 z3);
     m (lane_mulshoup16 p x4 y4 z4) (lane_mulshoup16 p x5 y5 z5); m (lane_mulshoup16 p x6 y6 z6) (lane_mulshoup16 p x7 y7 z7)] /\
  GenVec.gen_avx2_muladd_shoup_u16 p [m r0 r1; m r2 r3; m r4 r5; m r6 r7] [m x0 x1; m x2 x3; m x4 x5; m x6 x7] [m y0 y1; m y2 y3; m y4 y5; m y6 y7] [m z0 z1; m z2 z3; m z4 z5; m z6 z7] =
    [m (lane_muladdshoup16 p r0 x0 y0 z0) (lane_muladdshoup16 p r1 x1 y1 z1); m (lane_muladdshoup16 p r2 x2 y2 z2) (lane_muladdshoup16 p r3 x3 y3 z3);
     m (lane_muladdshoup16 p r4 x4 y4 z4) (lane_muladdshoup16 p r5 x5 y5 z5); m (lane_muladdshoup16 p r6 x6 y6 z6) (lane_muladdshoup16 p r7 x7 y7 z7)].
Proof. exact GenVecEq.avx2_shoup16. Qed.
Print Assumptions C05_source_avx2_shoup16.
(* THE LOOPS OF ALL THREE BUILDS, translated from the source on every run (tools/cxxloop2coq.py -> gen/GenLoop.v): poly::core::ntt with
   ntt_loop<serial>::run, ntt_loop_sse_unrolled::run (J-1 layers four/eight lanes at a time through the SSE butterfly, then the scalar
   layer) and ntt_loop_avx2_unrolled::run (eight/sixteen lanes through the AVX2 butterfly, an SSE register for the half-filled rows of
   16-bit limbs, then the scalar layer) -- every index expression, loop bound, pointer advance, bounds-checked and alignment-checked
   access -- all return the SAME array: Structural.ntt_core on the library's flat tables.  Every degree 8..2^30, every limb type. *)
Theorem C05_source_loops_all_builds : forall k p om padW padW' x0, (3 <= k <= 30)%nat -> 1 < p -> List.Forall (fun v => 0 <= v < p) padW -> length x0 = (2 ^ k)%nat ->
  let W := (FlatTable.flat p k om ++ padW)%list in let W' := fun w => (List.map (fun v => (v * 2 ^ w) / p) (FlatTable.flat p k om) ++ padW')%list in
  let tws := fun lvl => List.nth lvl (Tables.prep p k om) nil in
  let out w := Some ((Structural.ntt_core w p k tws x0, Z.of_nat (2 ^ k), Z.of_nat (FlatTable.off k (k - 2)), Z.of_nat (FlatTable.off k (k - 2))), true) in
  (p < 2 ^ 14 -> List.Forall (fun v => 0 <= v < 2 ^ 16) padW' -> List.Forall (fun v => 0 <= v < 2 ^ 16) x0 ->
     GenLoop.gen_ntt_serial_u16 (Z.of_nat (2 ^ k)) x0 0 W 0 (W' 16) 0 p = out 16 /\
     GenLoop.gen_ntt_sse_u16 (Z.of_nat (2 ^ k)) x0 0 W 0 (W' 16) 0 p = out 16 /\
     GenLoop.gen_ntt_avx2_u16 (Z.of_nat (2 ^ k)) x0 0 W 0 (W' 16) 0 p = out 16) /\
  (4 * p <= 2 ^ 32 -> List.Forall (fun v => 0 <= v < 2 ^ 32) padW' -> List.Forall (fun v => 0 <= v < 2 ^ 32) x0 ->
     GenLoop.gen_ntt_serial_u32 (Z.of_nat (2 ^ k)) x0 0 W 0 (W' 32) 0 p = out 32 /\
     GenLoop.gen_ntt_sse_u32 (Z.of_nat (2 ^ k)) x0 0 W 0 (W' 32) 0 p = out 32 /\
     GenLoop.gen_ntt_avx2_u32 (Z.of_nat (2 ^ k)) x0 0 W 0 (W' 32) 0 p = out 32) /\
  (4 * p <= 2 ^ 64 -> List.Forall (fun v => 0 <= v < 2 ^ 64) padW' -> List.Forall (fun v => 0 <= v < 2 ^ 64) x0 ->
     GenLoop.gen_ntt_serial_u64 (Z.of_nat (2 ^ k)) x0 0 W 0 (W' 64) 0 p = out 64 /\
     GenLoop.gen_ntt_sse_u64 (Z.of_nat (2 ^ k)) x0 0 W 0 (W' 64) 0 p = out 64 /\
     GenLoop.gen_ntt_avx2_u64 (Z.of_nat (2 ^ k)) x0 0 W 0 (W' 64) 0 p = out 64).
Proof. exact GenLoopSimd.source_loops_all_builds. Qed.
Print Assumptions C05_source_loops_all_builds.

(* THE SAME, AT THE PLACE WHERE THE LIBRARY RUNS core::ntt: the coefficients are a slice of a larger array (row cm of _data: px before, sx
   after), the twiddle table a slice of T at |pw| and its Shoup companion a slice of T' at |pw'| -- T and T' may be one array (omegas[cm]
   and omegas[cm] + degree) --, the three prefixes multiples of 16 elements (the register alignment of the vector loops; not needed by the
   serial loops).  Every access stays inside the slices, px / sx are untouched, the returned pointers are the shifted ones.  From Rebase.v
   (a successful run of every shape of the translated loops can be rebased) and the register lengths of the four translated vector butterflies. *)
From NTT Require RebaseAll.
Theorem C05_source_loops_anywhere : forall k p om padW padW' x0 px sx pw sw pw' sw' T, (3 <= k <= 30)%nat -> 1 < p -> List.Forall (fun v => 0 <= v < p) padW -> length x0 = (2 ^ k)%nat ->
  Z.of_nat (length px) mod 16 = 0 -> Z.of_nat (length pw) mod 16 = 0 -> Z.of_nat (length pw') mod 16 = 0 ->
  let W := (FlatTable.flat p k om ++ padW)%list in let W' := fun w => (List.map (fun v => (v * 2 ^ w) / p) (FlatTable.flat p k om) ++ padW')%list in
  let tws := fun lvl => List.nth lvl (Tables.prep p k om) nil in
  T = (pw ++ W ++ sw)%list ->
  let Lx := Z.of_nat (length px) in let Lw := Z.of_nat (length pw) in let Lw' := Z.of_nat (length pw') in
  let out w := Some (((px ++ Structural.ntt_core w p k tws x0 ++ sx)%list, Lx + Z.of_nat (2 ^ k), Lw + Z.of_nat (FlatTable.off k (k - 2)), Lw' + Z.of_nat (FlatTable.off k (k - 2))), true) in
  let X := (px ++ x0 ++ sx)%list in
  (p < 2 ^ 14 -> List.Forall (fun v => 0 <= v < 2 ^ 16) padW' -> List.Forall (fun v => 0 <= v < 2 ^ 16) x0 -> forall T', T' = (pw' ++ W' 16 ++ sw')%list ->
     GenLoop.gen_ntt_serial_u16 (Z.of_nat (2 ^ k)) X Lx T Lw T' Lw' p = out 16 /\ GenLoop.gen_ntt_sse_u16 (Z.of_nat (2 ^ k)) X Lx T Lw T' Lw' p = out 16 /\ GenLoop.gen_ntt_avx2_u16 (Z.of_nat (2 ^ k)) X Lx T Lw T' Lw' p = out 16) /\
  (4 * p <= 2 ^ 32 -> List.Forall (fun v => 0 <= v < 2 ^ 32) padW' -> List.Forall (fun v => 0 <= v < 2 ^ 32) x0 -> forall T', T' = (pw' ++ W' 32 ++ sw')%list ->
     GenLoop.gen_ntt_serial_u32 (Z.of_nat (2 ^ k)) X Lx T Lw T' Lw' p = out 32 /\ GenLoop.gen_ntt_sse_u32 (Z.of_nat (2 ^ k)) X Lx T Lw T' Lw' p = out 32 /\ GenLoop.gen_ntt_avx2_u32 (Z.of_nat (2 ^ k)) X Lx T Lw T' Lw' p = out 32) /\
  (4 * p <= 2 ^ 64 -> List.Forall (fun v => 0 <= v < 2 ^ 64) padW' -> List.Forall (fun v => 0 <= v < 2 ^ 64) x0 -> forall T', T' = (pw' ++ W' 64 ++ sw')%list ->
     GenLoop.gen_ntt_serial_u64 (Z.of_nat (2 ^ k)) X Lx T Lw T' Lw' p = out 64 /\ GenLoop.gen_ntt_sse_u64 (Z.of_nat (2 ^ k)) X Lx T Lw T' Lw' p = out 64 /\ GenLoop.gen_ntt_avx2_u64 (Z.of_nat (2 ^ k)) X Lx T Lw T' Lw' p = out 64).
Proof. exact RebaseAll.source_loops_anywhere. Qed.
Print Assumptions C05_source_loops_anywhere.
