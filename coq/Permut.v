(* C02: the bit-reversal copy of inv_ntt (permut.hpp) -- both implementations the library selects between by degree:
   the table variant  y[i] = x[P(i)]  with P computed by the shift loop of permut_compute, and the unrolled template recursion
   r_set<0,1,degree>  performing  y[r_loop(I)] = x[I]  at its leaves -- equal the model's BR (Inverse.v). *)
From Coq Require Import ZArith Lia List Arith.
From NTT Require Import Algebra Rev Inverse.
Import ListNotations.

(* permut_compute / r_loop:  r = 0; ii = i;  for (h = 1; h < degree; h <<= 1) { r = (r << 1) | (ii & 1); ii >>= 1; } *)
Fixpoint pc_loop (steps r ii : nat) : nat := match steps with O => r | S s => pc_loop s (2 * r + ii mod 2) (ii / 2) end.
Definition pc (k i : nat) : nat := pc_loop k 0 i.

Lemma pc_loop_spec s : forall r ii, pc_loop s r ii = r * 2 ^ s + rev s ii.
Proof.
  induction s as [|s IH]; intros r ii; cbn [pc_loop rev]; [simpl; lia|].
  rewrite IH. rewrite Nat.pow_succ_r'. lia.
Qed.
Theorem pc_is_rev k i : pc k i = rev k i.
Proof. unfold pc. rewrite pc_loop_spec. lia. Qed.

Section P.
Variable k0 : nat.
Let k := S k0.
Let n := (2 ^ k)%nat.
Local Open Scope Z_scope.

(* table variant:  for (i = 0; i < degree; ++i) y[i] = x[P(i)]; *)
Definition perm_table (x : list Z) : list Z := map (fun i => nth (pc k i) x 0) (seq 0 n).
Theorem perm_table_BR x : perm_table x = BR k0 x.
Proof. unfold perm_table, BR, tab. apply map_ext. intros i. now rewrite pc_is_rev. Qed.

(* unrolled variant: the leaves of r_set<0,1,degree>, in the order the recursion reaches them *)
Fixpoint rset (s I : nat) : list nat := match s with O => [I] | S s' => rset s' (2 * I) ++ rset s' (2 * I + 1) end.
Fixpoint set_at (l : list Z) (i : nat) (v : Z) : list Z :=
  match l, i with [], _ => [] | _ :: t, O => v :: t | a :: t, S i' => a :: set_at t i' v end.
Definition scatter (x : list Z) (L : list nat) (y : list Z) : list Z := fold_left (fun y I => set_at y (pc k I) (nth I x 0)) L y.
Definition perm_unrolled (x : list Z) : list Z := scatter x (rset k 0) (repeat 0 n).      (* y is uninitialised stack memory in C++ *)

Lemma set_at_length l i v : length (set_at l i v) = length l.
Proof. revert i; induction l; destruct i; simpl; auto. Qed.
Lemma set_at_nth l i v j : (i < length l)%nat -> nth j (set_at l i v) 0 = if (j =? i)%nat then v else nth j l 0.
Proof. revert i j; induction l as [|a l IH]; intros [|i] [|j] H; simpl in *; try lia; auto. apply IH. lia. Qed.

Lemma rset_In s : forall b I, In I (rset s b) <-> (b * 2 ^ s <= I < (b + 1) * 2 ^ s)%nat.
Proof.
  induction s as [|s IH]; intros b I; cbn [rset].
  - simpl. split; [intros [<-|[]]; lia | intros H; left; lia].
  - rewrite in_app_iff, !IH. rewrite Nat.pow_succ_r'. split; [intros [H|H]; nia | intros H].
    destruct (Nat.lt_ge_cases I ((2 * b + 1) * 2 ^ s)); [left | right]; nia.
Qed.

Lemma scatter_length x L : forall y, length (scatter x L y) = length y.
Proof. unfold scatter. induction L as [|I L IH]; intros y; cbn [fold_left]; [reflexivity|]. rewrite IH. apply set_at_length. Qed.

(* a position written by some leaf I0 ends up holding x[I0]: a later leaf writing the same position is the same leaf *)
Lemma scatter_nth x L : forall y I0, (n <= length y)%nat -> (forall I, In I L -> (I < n)%nat) -> In I0 L ->
  nth (rev k I0) (scatter x L y) 0 = nth I0 x 0.
Proof.
  unfold scatter. induction L as [|I L IH] using rev_ind; intros y I0 Hy Hlt Hin; [destruct Hin|].
  rewrite fold_left_app. cbn [fold_left].
  assert (Ly : (n <= length (fold_left (fun y I => set_at y (pc k I) (nth I x 0%Z)) L y))%nat) by (pose proof (scatter_length x L y) as E; unfold scatter in E; rewrite E; exact Hy).
  rewrite set_at_nth by (rewrite pc_is_rev; pose proof (rev_lt k I); unfold n in Ly; lia).
  rewrite pc_is_rev. destruct (Nat.eqb_spec (rev k I0) (rev k I)) as [E|E].
  - (* same position: same leaf *)
    assert (I0 = I); [|now subst].
    assert (H0 : (I0 < n)%nat) by (apply Hlt; exact Hin). assert (H1 : (I < n)%nat) by (apply Hlt; apply in_or_app; right; now left).
    rewrite <- (rev_involutive k I0 H0), <- (rev_involutive k I H1), E. reflexivity.
  - apply in_app_or in Hin. destruct Hin as [Hin|[->|[]]]; [|congruence].
    apply IH; auto. intros J HJ. apply Hlt. apply in_or_app. now left.
Qed.

Theorem perm_unrolled_BR x : perm_unrolled x = BR k0 x.
Proof.
  unfold perm_unrolled. apply (nth_ext _ _ 0 0).
  - rewrite scatter_length, repeat_length. unfold BR. now rewrite tab_length.
  - intros j Hj. rewrite scatter_length, repeat_length in Hj.
    unfold BR. rewrite tab_nth by exact Hj.
    pose proof (rev_lt k j) as Hr.
    rewrite <- (rev_involutive k j Hj) at 1.
    apply scatter_nth; [rewrite repeat_length; apply Nat.le_refl | intros I HI; apply rset_In in HI; rewrite Nat.mul_0_l, Nat.add_0_l, Nat.mul_1_l in HI; apply HI
                        | apply rset_In; rewrite Nat.mul_0_l, Nat.add_0_l, Nat.mul_1_l; split; [lia | exact Hr]].
Qed.

Lemma nth_skipn_Z (l : list Z) a i : nth i (skipn a l) 0 = nth (a + i) l 0.
Proof. revert a; induction l as [|b l IH]; intros [|a]; simpl; auto. destruct i; reflexivity. Qed.
(* the same for a destination of any contents and any length >= n (the scratch array of inv_ntt has n+1 uninitialised words): the first n
   words become the bit-reversed copy, the others are not touched *)
Lemma scatter_keeps x L : forall y j, (forall I, In I L -> (I < n)%nat) -> (n <= j)%nat -> nth j (scatter x L y) 0 = nth j y 0.
Proof.
  unfold scatter. induction L as [|I L IH]; intros y j Hlt Hj; cbn [fold_left]; [reflexivity|].
  rewrite IH by (try exact Hj; intros J HJ; apply Hlt; right; exact HJ).
  destruct (Nat.lt_ge_cases (pc k I) (length y)) as [Hin|Hout].
  - rewrite set_at_nth by exact Hin. assert (pc k I < n)%nat by (rewrite pc_is_rev; apply rev_lt). destruct (Nat.eqb_spec j (pc k I)); [lia | reflexivity].
  - assert (E : set_at y (pc k I) (nth I x 0) = y).
    { clear - Hout. revert Hout. generalize (pc k I) as i. induction y as [|a y IHy]; intros i Hi; [reflexivity|]. destruct i as [|i]; [cbn in Hi; lia|]. cbn [set_at]. rewrite IHy by (cbn in Hi; lia). reflexivity. }
    rewrite E. reflexivity.
Qed.
Theorem scatter_BR_any x y : (n <= length y)%nat -> scatter x (rset k 0) y = BR k0 x ++ skipn n y.
Proof.
  intros Hy. assert (Hall : forall I, In I (rset k 0) -> (I < n)%nat) by (intros I HI; apply rset_In in HI; rewrite Nat.mul_0_l, Nat.add_0_l, Nat.mul_1_l in HI; apply HI).
  apply (nth_ext _ _ 0 0).
  - rewrite scatter_length, app_length, skipn_length. unfold BR. rewrite tab_length. fold k n. lia.
  - intros j Hj. rewrite scatter_length in Hj. destruct (Nat.lt_ge_cases j n) as [Hlt|Hge].
    + rewrite app_nth1 by (unfold BR; rewrite tab_length; exact Hlt). unfold BR. rewrite tab_nth by exact Hlt.
      rewrite <- (rev_involutive k j Hlt) at 1. apply scatter_nth; [exact Hy | exact Hall | apply rset_In; rewrite Nat.mul_0_l, Nat.add_0_l, Nat.mul_1_l; split; [lia | apply rev_lt]].
    + rewrite app_nth2 by (unfold BR; rewrite tab_length; exact Hge). unfold BR. rewrite tab_length. fold k n. rewrite nth_skipn_Z. replace (n + (j - n))%nat with j by lia.
      apply scatter_keeps; assumption.
Qed.
End P.
Print Assumptions perm_unrolled_BR.
