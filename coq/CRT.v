From Coq Require Import ZArith Znumtheory Lia List.
Import ListNotations.
Local Open Scope Z_scope.

Lemma floor_bounds a b : 0 < b -> (a / b) * b <= a < (a / b) * b + b.
Proof. intros Hb. pose proof (Z.mod_pos_bound a b Hb). pose proof (Z.div_mod a b ltac:(lia)). lia. Qed.

(* ---- the reduction modulo Q used by poly2mpz: t = floor(x * floor(2^s/Q) / 2^s), r = x - t Q, one conditional subtraction ---- *)
Definition reduceQ (Q s x : Z) : Z :=
  let ms := 2 ^ s / Q in
  let t := (x * ms) / 2 ^ s in
  let r := x - t * Q in
  if r >=? Q then r - Q else r.

Lemma reduceQ_spec Q s x : 0 < Q -> 0 <= s -> 0 <= x < 2 ^ s -> reduceQ Q s x = x mod Q.
Proof.
  intros HQ Hs Hx. unfold reduceQ.
  set (B := 2 ^ s). assert (HB : 0 < B) by (apply Z.pow_pos_nonneg; lia).
  set (ms := B / Q). set (t := x * ms / B).
  assert (Hms : ms * Q <= B < ms * Q + Q) by (apply floor_bounds; lia).
  assert (Ht : t * B <= x * ms < t * B + B) by (apply floor_bounds; lia).
  assert (Hms0 : 0 <= ms) by (apply Z.div_pos; lia).
  assert (Ht0 : 0 <= t) by (apply Z.div_pos; [nia | lia]).
  (* 0 <= x - t Q < 2 Q *)
  assert (R1 : t * Q <= x).
  { assert (t * B * Q <= x * ms * Q) by (apply Z.mul_le_mono_nonneg_r; lia).
    assert (x * (ms * Q) <= x * B) by (apply Z.mul_le_mono_nonneg_l; lia).
    assert ((t * Q) * B <= x * B) by lia. apply Z.mul_le_mono_pos_r in H1; lia. }
  assert (R2 : x - t * Q < 2 * Q).
  { assert (x * B <= x * (ms * Q + Q)) by (apply Z.mul_le_mono_nonneg_l; lia).
    assert ((x * ms) * Q < (t * B + B) * Q) by (apply Z.mul_lt_mono_pos_r; lia).
    assert (x * Q < B * Q) by (apply Z.mul_lt_mono_pos_r; lia).
    assert (x * B < (t * Q + 2 * Q) * B) by lia. apply Z.mul_lt_mono_pos_r in H2; lia. }
  destruct (x - t * Q >=? Q) eqn:E.
  - apply Z.geb_le in E. apply (Z.mod_unique_pos x Q (t + 1)); lia.
  - assert (x - t * Q < Q) by (destruct (Z.geb_spec (x - t * Q) Q); [discriminate | lia]).
    apply (Z.mod_unique_pos x Q t); lia.
Qed.

(* ---- lifting integers and the Chinese remainder property ---- *)
Definition prod (ps : list Z) : Z := fold_right Z.mul 1 ps.
Fixpoint others (i : nat) (ps : list Z) : Z :=           (* product of all moduli but the i-th *)
  match ps, i with
  | [], _ => 1
  | _ :: t, O => prod t
  | p :: t, S i' => p * others i' t
  end.

Lemma prod_others i ps : (i < length ps)%nat -> prod ps = nth i ps 1 * others i ps.
Proof. revert i; induction ps as [|p t IH]; intros [|i] Hi; simpl in *; try lia. rewrite (IH i) by lia. ring. Qed.

Lemma others_div i j ps : (j < length ps)%nat -> i <> j -> (nth j ps 1 | others i ps).
Proof.
  revert i j; induction ps as [|p t IH]; intros i j Hj Hij; simpl in *; [lia|].
  destruct i as [|i], j as [|j]; try congruence.
  - (* i = 0, j = S j : p_j divides prod t *)
    clear IH Hij. assert (Hj' : (j < length t)%nat) by lia. clear Hj. revert j Hj'.
    induction t as [|q t IH]; intros j Hj; simpl in *; [lia|]. destruct j; [apply Z.divide_factor_l|].
    apply Z.divide_mul_r. apply IH. lia.
  - apply Z.divide_factor_l.
  - apply Z.divide_mul_r. apply IH; [lia | congruence].
Qed.

Section Lift.
Variable ps : list Z.                                   (* the moduli *)
Variable inv : nat -> Z.                                (* inv i = (Q/p_i)^-1 mod p_i, as mpz_invert returns it *)
Hypothesis ps_pos : forall i, (i < length ps)%nat -> 1 < nth i ps 1.
Hypothesis inv_ok : forall i, (i < length ps)%nat -> (others i ps * inv i) mod nth i ps 1 = 1 /\ 0 <= inv i < nth i ps 1.

Definition Q := prod ps.
Definition L (i : nat) : Z := (Q / nth i ps 1) * inv i.  (* lifting integer, exactly as GMP::GMP() computes it *)

Lemma Q_div i : (i < length ps)%nat -> Q / nth i ps 1 = others i ps.
Proof. intros Hi. unfold Q. rewrite (prod_others i ps Hi). rewrite Z.mul_comm, Z.div_mul; [reflexivity|]. specialize (ps_pos i Hi). lia. Qed.

Lemma L_self i : (i < length ps)%nat -> L i mod nth i ps 1 = 1.
Proof. intros Hi. unfold L. rewrite Q_div by auto. apply inv_ok; auto. Qed.

Lemma L_other i j : (i < length ps)%nat -> (j < length ps)%nat -> i <> j -> L i mod nth j ps 1 = 0.
Proof. intros Hi Hj Hij. unfold L. rewrite Q_div by auto. apply Z.mod_divide; [specialize (ps_pos j Hj); lia|].
  apply Z.divide_mul_l. apply others_div; auto. Qed.

(* sum_{i<n} r_i L_i *)
Fixpoint acc (r : nat -> Z) (n : nat) : Z := match n with O => 0 | S n' => acc r n' + r n' * L n' end.

Lemma acc_mod r n j : (n <= length ps)%nat -> (j < length ps)%nat ->
  acc r n mod nth j ps 1 = (if (j <? n)%nat then r j else 0) mod nth j ps 1.
Proof.
  intros Hn Hj. pose proof (ps_pos j Hj) as Pj. induction n as [|n IH]; [reflexivity|]. simpl acc.
  rewrite Z.add_mod, IH by lia. destruct (Nat.eq_dec n j) as [->|Nj].
  - replace (j <? j)%nat with false by (symmetry; apply Nat.ltb_ge; lia). replace (j <? S j)%nat with true by (symmetry; apply Nat.ltb_lt; lia).
    rewrite (Z.mul_mod (r j)), L_self by (auto; lia). rewrite Z.mod_0_l by lia. rewrite Z.add_0_l, Z.mul_1_r, !Z.mod_mod by lia. reflexivity.
  - rewrite (Z.mul_mod (r n)), (L_other n j) by (auto; lia). rewrite Z.mul_0_r, Z.mod_0_l, Z.add_0_r, Z.mod_mod by lia.
    destruct (j <? n)%nat eqn:E1; [apply Nat.ltb_lt in E1; replace (j <? S n)%nat with true by (symmetry; apply Nat.ltb_lt; lia) |
                                   apply Nat.ltb_ge in E1; replace (j <? S n)%nat with false by (symmetry; apply Nat.ltb_ge; lia)]; reflexivity.
Qed.

Lemma Q_pos : 0 < Q.
Proof. unfold Q. assert (G : forall l, (forall i, (i < length l)%nat -> 1 < nth i l 1) -> 0 < prod l).
  { induction l as [|p t IH]; intros Hl; simpl; [lia|]. pose proof (Hl 0%nat ltac:(simpl; lia)). simpl in H.
    assert (0 < prod t) by (apply IH; intros i Hi; apply (Hl (S i)); simpl; lia). nia. }
  apply G. exact ps_pos. Qed.

(* poly2mpz on one coefficient: the unique representative in [0,Q) of the residues r *)
Theorem lift_correct (r : nat -> Z) (s : Z) :
  0 <= s -> 0 <= acc r (length ps) < 2 ^ s ->
  (forall i, (i < length ps)%nat -> 0 <= r i < nth i ps 1) ->
  let x := reduceQ Q s (acc r (length ps)) in
  0 <= x < Q /\ forall j, (j < length ps)%nat -> x mod nth j ps 1 = r j.
Proof.
  intros Hs Hacc Hr x. unfold x. rewrite reduceQ_spec by (auto using Q_pos).
  split; [apply Z.mod_pos_bound, Q_pos|].
  intros j Hj. pose proof (ps_pos j Hj) as Pj.
  (* p_j | Q, so reducing modulo Q first does not change the residue modulo p_j *)
  assert (D : (nth j ps 1 | Q)) by (unfold Q; rewrite (prod_others j ps Hj); apply Z.divide_factor_l).
  rewrite <- (Zmod_div_mod (nth j ps 1) Q) by (auto using Q_pos; lia).
  rewrite acc_mod by (auto; lia). replace (j <? length ps)%nat with true by (symmetry; apply Nat.ltb_lt; auto).
  apply Z.mod_small. apply Hr; auto.
Qed.
End Lift.
Print Assumptions lift_correct.
