(* C09 — everything that creates a polynomial yields canonical, CRT-consistent residues.  Statements only. *)
From Coq Require Import ZArith List.
From NTT Require Import Small Samplers SamplersExec Setters HwtStore.
Local Open Scope Z_scope.

(* uniform: any word, any modulus > 1: canonical *)
Theorem C09_uniform_canonical : forall p word, 1 < p -> 0 <= uni_decode (mask_bits p) p word < p.
Proof. exact uniform_word_canonical. Qed.
Print Assumptions C09_uniform_canonical.

(* bounded (with amplifier): ONE signed value v, |v| <= B-1, stored as (A*v) mod p for every modulus p with A*(B-1) < p *)
Theorem C09_bounded_consistent : forall w p B A word, 8 <= w <= 64 -> 1 <= B -> 1 <= A -> B < p -> p < 2 ^ w -> A * (B - 1) < p ->
  let tmp := bnd_tmp (mask_bits (2 * B - 1)) B word in let v := bnd_val B tmp in
  - (B - 1) <= v <= B - 1 /\ 0 <= bnd_store_amp w p B A tmp < p /\ bnd_store_amp w p B A tmp = (A * v) mod p.
Proof. exact bounded_amp_consistent. Qed.
Print Assumptions C09_bounded_consistent.

(* ternary: stored = (value in {-1,0,1}) mod p, canonical, the same value for every modulus *)
Theorem C09_ternary_consistent : forall p rho byte, 2 < p -> 0 <= zo_store p rho byte < p /\ zo_store p rho byte = (zo_val rho byte) mod p.
Proof. exact zo_store_consistent. Qed.
Print Assumptions C09_ternary_consistent.

(* Gaussian wrapper: signed noise z with |z*A| < p is stored as (z*A) mod p for every modulus *)
Theorem C09_gaussian_consistent : forall w p A z, 8 <= w -> 0 < p < 2 ^ (w - 1) -> - 2 ^ (w - 1) <= z < 2 ^ (w - 1) -> 1 <= A -> - p < z * A < p ->
  let noise := z mod 2 ^ w in 0 <= gauss_store w p A noise < p /\ gauss_store w p A noise = (z * A) mod p.
Proof. exact gauss_store_consistent. Qed.
Print Assumptions C09_gaussian_consistent.

(* the pinned library stored +1 as p+1 in the ternary and fixed-weight samplers: refuted *)
Theorem C09_ternary_pinned_refuted : forall p, 1 < p -> exists byte, 0 <= byte < 256 /\ ~ (zo_store_pinned p 255 byte < p).
Proof. exact ternary_pinned_refuted. Qed.
Print Assumptions C09_ternary_pinned_refuted.

(* fixed Hamming weight: every row is canonical and all rows are one signed polynomial with coefficients in {-1,0,1} (the same sign words
   are reused for every modulus) *)
Theorem C09_hwt_consistent : forall n pos signs, (length pos <= length signs)%nat -> forall p, 2 < p ->
  hwt_row n p pos signs = map (fun i => hwt_val pos signs i mod p) (seq 0 n) /\ Forall (fun v => 0 <= v < p) (hwt_row n p pos signs).
Proof. exact hwt_row_consistent. Qed.
Print Assumptions C09_hwt_consistent.
