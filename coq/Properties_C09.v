(* C09 — everything that creates a polynomial yields canonical, CRT-consistent residues.  Statements only. *)
From Coq Require Import ZArith List.
From NTT Require Import Small Samplers SamplersExec Setters HwtStore.
From NTT Require GenSamplerEq GenBoundedEq BoundedSpec GaussSetSpec GenGaussSetEq.
From NTT.gen Require GenLoop.
Local Open Scope Z_scope.

(* uniform: any word, any modulus > 1: canonical *)
Theorem C09_uniform_canonical : forall p word, 1 < p -> 0 <= uni_decode (mask_bits p) p word < p.
Proof. exact uniform_word_canonical. Qed.
Print Assumptions C09_uniform_canonical.

(* bounded (with amplifier): ONE signed value v, |v| <= B-1, stored as (A*v) mod p for every modulus p with A*(B-1) < p *)
Theorem C09_bounded_consistent : forall w p B A word, 8 <= w <= 64 -> 1 <= B -> 1 <= A -> B < p -> p < 2 ^ w -> A * (B - 1) < p ->
  let tmp := bnd_tmp (mask_bits (2 * B - 1)) B word in let v := bnd_val B tmp in
  - (B - 1) <= v <= B - 1 /\ 0 <= bnd_store_amp w p B A tmp < p /\ bnd_store_amp w p B A tmp = (A * v) mod p.
Proof. exact bounded_amp_consistent. Qed.
Print Assumptions C09_bounded_consistent.

(* ternary: stored = (value in {-1,0,1}) mod p, canonical, the same value for every modulus *)
Theorem C09_ternary_consistent : forall p rho byte, 2 < p -> 0 <= zo_store p rho byte < p /\ zo_store p rho byte = (zo_val rho byte) mod p.
Proof. exact zo_store_consistent. Qed.
Print Assumptions C09_ternary_consistent.

(* Gaussian wrapper: signed noise z with |z*A| < p is stored as (z*A) mod p for every modulus *)
Theorem C09_gaussian_consistent : forall w p A z, 8 <= w -> 0 < p < 2 ^ (w - 1) -> - 2 ^ (w - 1) <= z < 2 ^ (w - 1) -> 1 <= A -> - p < z * A < p ->
  let noise := z mod 2 ^ w in 0 <= gauss_store w p A noise < p /\ gauss_store w p A noise = (z * A) mod p.
Proof. exact gauss_store_consistent. Qed.
Print Assumptions C09_gaussian_consistent.

(* the pinned library stored +1 as p+1 in the ternary and fixed-weight samplers: refuted *)
Theorem C09_ternary_pinned_refuted : forall p, 1 < p -> exists byte, 0 <= byte < 256 /\ ~ (zo_store_pinned p 255 byte < p).
Proof. exact ternary_pinned_refuted. Qed.
Print Assumptions C09_ternary_pinned_refuted.

(* fixed Hamming weight: every row is canonical and all rows are one signed polynomial with coefficients in {-1,0,1} (the same sign words
   are reused for every modulus) *)
Theorem C09_hwt_consistent : forall n pos signs, (length pos <= length signs)%nat -> forall p, 2 < p ->
  hwt_row n p pos signs = map (fun i => hwt_val pos signs i mod p) (seq 0 n) /\ Forall (fun v => 0 <= v < p) (hwt_row n p pos signs).
Proof. exact hwt_row_consistent. Qed.
Print Assumptions C09_hwt_consistent.

(* THE SAMPLERS OF THE SOURCE (poly::set(ZO_dist const&), poly::set(uniform const&), translated by tools/cxxloop2coq.py on every run into
   gen/GenLoop.v: the call of fastrandombytes becomes the random tape, this->_data an array, params<T>::P a table, every access bounds-
   checked): for any degree n, any number m of moduli and any tape they never leave their arrays and write exactly the executable models
   SamplersExec.set_zo / set_uniform, on which the canonicity and consistency theorems above (and the counts of C12) are stated. *)
Theorem C09_source_set_zo : forall n m P rho tape data0, (m <= length P)%nat -> (n <= length tape)%nat -> List.Forall (fun b => 0 <= b < 256) tape ->
  length data0 = (m * n)%nat -> Z.of_nat (m * n) < 2 ^ 62 -> (0 < n)%nat ->
  let out := Some (List.firstn n tape, set_zo n (List.firstn m P) rho tape, Z.of_nat (m * n)) in
  (List.Forall (fun p => 1 <= p < 2 ^ 16) (List.firstn m P) -> GenLoop.gen_set_zo_u16 (Z.of_nat n) data0 (Z.of_nat m) P rho tape = out) /\
  (List.Forall (fun p => 1 <= p < 2 ^ 32) (List.firstn m P) -> GenLoop.gen_set_zo_u32 (Z.of_nat n) data0 (Z.of_nat m) P rho tape = out) /\
  (List.Forall (fun p => 1 <= p < 2 ^ 64) (List.firstn m P) -> GenLoop.gen_set_zo_u64 (Z.of_nat n) data0 (Z.of_nat m) P rho tape = out).
Proof.
  exact (fun n m P rho tape data0 HPl Htl Ht Hd Hs Hn => conj (GenSamplerEq.source_set_zo_u16 n m P rho tape data0 HPl Htl Ht Hd Hs Hn)
    (conj (GenSamplerEq.source_set_zo_u32 n m P rho tape data0 HPl Htl Ht Hd Hs Hn) (GenSamplerEq.source_set_zo_u64 n m P rho tape data0 HPl Htl Ht Hd Hs Hn))).
Qed.
Print Assumptions C09_source_set_zo.
Theorem C09_source_set_uniform : forall n m P tape data0, (m <= length P)%nat -> List.Forall (fun b => 0 <= b < 256) tape ->
  length data0 = (m * n)%nat -> Z.of_nat (m * n) < 2 ^ 61 -> (0 < n)%nat ->
  (List.Forall (fun p => 1 <= p < 2 ^ 16) (List.firstn m P) -> (m * n * 2 <= length tape)%nat ->
     GenLoop.gen_set_uniform_u16 (Z.of_nat n) data0 (Z.of_nat m) P tape = Some (set_uniform 16 n (List.firstn m P) tape)) /\
  (List.Forall (fun p => 1 <= p < 2 ^ 32) (List.firstn m P) -> (m * n * 4 <= length tape)%nat ->
     GenLoop.gen_set_uniform_u32 (Z.of_nat n) data0 (Z.of_nat m) P tape = Some (set_uniform 32 n (List.firstn m P) tape)) /\
  (List.Forall (fun p => 1 <= p < 2 ^ 63) (List.firstn m P) -> (m * n * 8 <= length tape)%nat ->
     GenLoop.gen_set_uniform_u64 (Z.of_nat n) data0 (Z.of_nat m) P tape = Some (set_uniform 64 n (List.firstn m P) tape)).
Proof.
  exact (fun n m P tape data0 HPl Ht Hd Hs Hn => conj (GenSamplerEq.source_set_uniform_u16 n m P tape data0 HPl Ht Hd Hs Hn)
    (conj (GenSamplerEq.source_set_uniform_u32 n m P tape data0 HPl Ht Hd Hs Hn) (GenSamplerEq.source_set_uniform_u64 n m P tape data0 HPl Ht Hd Hs Hn))).
Qed.
Print Assumptions C09_source_set_uniform.
(* poly::set(non_uniform const&) of the source (all three limb types): the range check (which throws exactly when the bound reaches a
   modulus: no result), the bit-length loop of the mask, the reduction and centring of each word, the amplifier, the column-wise writes
   _data[degree*cm + i] -- the translated function writes exactly SamplersExec.set_bounded, for any degree, number of moduli, bound,
   amplifier and tape.  16-bit limbs: `rnd[i] & mask` and `P[cm] + tmp` are evaluated in the promoted type int, overflow being "no
   result": it never happens. *)
Theorem C09_source_set_bounded : forall n m P tape data0 B A fuel, 1 <= B -> (m <= length P)%nat -> List.Forall (fun x => 0 <= x < 256) tape ->
  length data0 = (m * n)%nat -> Z.of_nat (m * n) < 2 ^ 61 -> (0 < n)%nat -> (0 < m)%nat -> (64 < fuel)%nat -> 0 <= A < 2 ^ 64 -> List.Forall (fun p => B < p) (List.firstn m P) ->
  (2 * B - 1 < 2 ^ 15 -> (n * 2 <= length tape)%nat -> List.Forall (fun p => 0 <= p < 2 ^ 16) (List.firstn m P) ->
     option_map snd (GenLoop.gen_set_bounded_u16 fuel (Z.of_nat n) data0 B A (Z.of_nat m) P tape) = set_bounded 16 n (List.firstn m P) B A tape) /\
  (2 * B - 1 < 2 ^ 31 -> (n * 4 <= length tape)%nat -> List.Forall (fun p => 0 <= p < 2 ^ 32) (List.firstn m P) ->
     option_map snd (GenLoop.gen_set_bounded_u32 fuel (Z.of_nat n) data0 B A (Z.of_nat m) P tape) = set_bounded 32 n (List.firstn m P) B A tape) /\
  (2 * B - 1 < 2 ^ 63 -> (n * 8 <= length tape)%nat -> List.Forall (fun p => 0 <= p < 2 ^ 64) (List.firstn m P) ->
     option_map snd (GenLoop.gen_set_bounded_u64 fuel (Z.of_nat n) data0 B A (Z.of_nat m) P tape) = set_bounded 64 n (List.firstn m P) B A tape).
Proof.
  exact (fun n m P tape data0 B A fuel HB HPl Ht Hd Hs Hn Hm Hf HA HBp =>
    conj (fun Hc Htl HPr => GenBoundedEq.source_set_bounded_u16 n m P tape data0 B A HB Hc HPl Htl Ht Hd Hs Hn Hm HPr fuel Hf HA HBp)
   (conj (fun Hc Htl HPr => GenBoundedEq.source_set_bounded_u32 n m P tape data0 B A HB Hc HPl Htl Ht Hd Hs Hn Hm HPr fuel Hf HA HBp)
         (fun Hc Htl HPr => GenBoundedEq.source_set_bounded_u64 n m P tape data0 B A HB Hc HPl Htl Ht Hd Hs Hn Hm HPr fuel Hf HA HBp))).
Qed.
Print Assumptions C09_source_set_bounded.
Theorem C09_source_set_bounded_throws : forall n m P tape data0 B A fuel, Z.of_nat m < 2 ^ 61 -> (exists cm, (cm < m)%nat /\ List.nth cm P 0 <= B) ->
  GenLoop.gen_set_bounded_u16 fuel n data0 B A (Z.of_nat m) P tape = None /\ GenLoop.gen_set_bounded_u32 fuel n data0 B A (Z.of_nat m) P tape = None /\
  GenLoop.gen_set_bounded_u64 fuel n data0 B A (Z.of_nat m) P tape = None.
Proof. exact GenBoundedEq.source_set_bounded_throws. Qed.
Print Assumptions C09_source_set_bounded_throws.

(* poly::set(gaussian<in_class, T, depth> const&) of the source (all three limb types; FastGaussianNoise::getNoise is an oracle, the noise
   vector it writes): the copy into the signed local array, the in-place amplification `rnd[i] *= amplifier` in the signed limb type
   (through uint64_t), the sign test and the row-wise stores `_data[degree*cm+i] = P[cm] + rnd[i]` / `= rnd[i]` never leave their arrays,
   never overflow a signed type (16-bit limbs: the promoted int sum) and write exactly SamplersExec.set_gauss, the model of
   C09_gaussian_consistent. *)
Theorem C09_source_set_gauss : forall n m P noise data0 A, (m <= length P)%nat -> (n <= length noise)%nat ->
  length data0 = (m * n)%nat -> Z.of_nat (m * n) < 2 ^ 61 -> (0 < n)%nat -> Z.of_nat n < 2 ^ 61 ->
  (List.Forall (fun p => 0 <= p < 2 ^ 16) (List.firstn m P) -> List.Forall (fun x => 0 <= x < 2 ^ 16) noise ->
     exists rnd, GenLoop.gen_set_gauss_u16 (Z.of_nat n) data0 A (Z.of_nat m) P noise = Some (rnd, set_gauss 16 (List.firstn m P) A (List.firstn n noise))) /\
  (List.Forall (fun p => 0 <= p < 2 ^ 32) (List.firstn m P) -> List.Forall (fun x => 0 <= x < 2 ^ 32) noise ->
     exists rnd, GenLoop.gen_set_gauss_u32 (Z.of_nat n) data0 A (Z.of_nat m) P noise = Some (rnd, set_gauss 32 (List.firstn m P) A (List.firstn n noise))) /\
  (List.Forall (fun p => 0 <= p < 2 ^ 64) (List.firstn m P) -> List.Forall (fun x => 0 <= x < 2 ^ 64) noise ->
     exists rnd, GenLoop.gen_set_gauss_u64 (Z.of_nat n) data0 A (Z.of_nat m) P noise = Some (rnd, set_gauss 64 (List.firstn m P) A (List.firstn n noise))).
Proof.
  exact (fun n m P noise data0 A HPl Hnl Hd Hs Hn Hn61 => conj (GenGaussSetEq.source_set_gauss_u16 n m P noise data0 A HPl Hnl Hd Hs Hn Hn61)
    (conj (GenGaussSetEq.source_set_gauss_u32 n m P noise data0 A HPl Hnl Hd Hs Hn Hn61) (GenGaussSetEq.source_set_gauss_u64 n m P noise data0 A HPl Hnl Hd Hs Hn Hn61))).
Qed.
Print Assumptions C09_source_set_gauss.
