(* The transform theorems at the place where the library runs core::ntt: x is a slice of a larger array (row cm of _data), the two tables
   are slices of arrays that may be one and the same (omegas[cm] and omegas[cm] + degree).  From Rebase.v and the translated kernels'
   register lengths (by computation on symbolic registers). *)
From Coq Require Import ZArith List Lia Bool Arith.
From NTT Require Import CxxSem VecSem MemSem LoopSpec LoopRun LoopInst Structural Tables FlatTable GenLoopEq GenLoopSimd Frame Rebase.
From NTT.gen Require Import Gen GenVec GenLoop.
Import ListNotations.
Local Open Scope Z_scope.

Ltac explode4 a := destruct a as [|? [|? [|? [|? [|? ?]]]]]; cbn [length]; try (intros; discriminate); try (intros; lia).
Ltac explode8 a := destruct a as [|? [|? [|? [|? [|? [|? [|? [|? [|? ?]]]]]]]]]; cbn [length]; try (intros; discriminate); try (intros; lia).
Lemma len_sse32 p a b c d : length a = 4%nat -> length b = 4%nat -> length c = 4%nat -> length d = 4%nat ->
  length (fst (gen_sse_ntt_loop_body_u32 p a b c d)) = 4%nat /\ length (snd (gen_sse_ntt_loop_body_u32 p a b c d)) = 4%nat.
Proof. explode4 a. explode4 b. explode4 c. explode4 d. intros _ _ _ _. split; reflexivity. Qed.
Lemma len_sse16 p a b c d : length a = 4%nat -> length b = 4%nat -> length c = 4%nat -> length d = 4%nat ->
  length (fst (gen_sse_ntt_loop_body_u16 p a b c d)) = 4%nat /\ length (snd (gen_sse_ntt_loop_body_u16 p a b c d)) = 4%nat.
Proof. explode4 a. explode4 b. explode4 c. explode4 d. intros _ _ _ _. split; reflexivity. Qed.
Lemma len_avx32 p a b c d : length a = 8%nat -> length b = 8%nat -> length c = 8%nat -> length d = 8%nat ->
  length (fst (gen_avx2_ntt_loop_body_u32 p a b c d)) = 8%nat /\ length (snd (gen_avx2_ntt_loop_body_u32 p a b c d)) = 8%nat.
Proof. explode8 a. explode8 b. explode8 c. explode8 d. intros _ _ _ _. split; reflexivity. Qed.
Lemma len_avx16 p a b c d : length a = 8%nat -> length b = 8%nat -> length c = 8%nat -> length d = 8%nat ->
  length (fst (gen_avx2_ntt_loop_body_u16 p a b c d)) = 8%nat /\ length (snd (gen_avx2_ntt_loop_body_u16 p a b c d)) = 8%nat.
Proof. explode8 a. explode8 b. explode8 c. explode8 d. intros _ _ _ _. split; reflexivity. Qed.

Section Place.
Variables px sx pw sw pw' sw' W W' T T' : list Z.
Hypothesis HT : T = pw ++ W ++ sw.
Hypothesis HT' : T' = pw' ++ W' ++ sw'.
Hypothesis Ax : Z.of_nat (length px) mod 16 = 0.
Hypothesis Aw : Z.of_nat (length pw) mod 16 = 0.
Hypothesis Aw' : Z.of_nat (length pw') mod 16 = 0.
Notation Lx := (Z.of_nat (length px)).
Notation Lw := (Z.of_nat (length pw)).
Notation Lw' := (Z.of_nat (length pw')).

Lemma agW j v : ld W j = Some v -> ld T (Lw + j) = Some v. Proof. rewrite HT. apply (ld_rb pw sw). Qed.
Lemma agW' j v : ld W' j = Some v -> ld T' (Lw' + j) = Some v. Proof. rewrite HT'. apply (ld_rb pw' sw'). Qed.
Lemma agWv bits words (H : lanes_ok (elts bits words)) j v : ldv bits words W j = Some v -> ldv bits words T (Lw + j) = Some v.
Proof. rewrite HT. apply (ldv_rb pw sw Aw bits words H). Qed.
Lemma agWv' bits words (H : lanes_ok (elts bits words)) j v : ldv bits words W' j = Some v -> ldv bits words T' (Lw' + j) = Some v.
Proof. rewrite HT'. apply (ldv_rb pw' sw' Aw' bits words H). Qed.
Lemma l4 : lanes_ok (elts 32 4). Proof. left. reflexivity. Qed.
Lemma l8 : lanes_ok (elts 32 8). Proof. right. left. reflexivity. Qed.
Lemma l8' : lanes_ok (elts 16 4). Proof. right. left. reflexivity. Qed.
Lemma l16 : lanes_ok (elts 16 8). Proof. right. right. reflexivity. Qed.

Definition NTTrb (ntt : Z -> list Z -> Z -> list Z -> Z -> list Z -> Z -> Z -> option (St4 * bool)) : Prop :=
  forall degree x x_o wo wo' p r, ntt degree x x_o W wo W' wo' p = Some r -> ntt degree (emb px sx x) (Lx + x_o) T (Lw + wo) T' (Lw' + wo') p = Some (r4b px sx Lw Lw' r).

Lemma rb_serial sk : RUNrb px sx W W' T T' Lw Lw' (run_serial_sh sk).
Proof. intros degree x x_o wo wo' p r. apply run_serial_sh_rb; [exact agW | exact agW']. Qed.
Lemma rb_sse32 sk : RUNrb px sx W W' T T' Lw Lw' (run_simd_sh (row_v 32 4 4 gen_sse_ntt_loop_body_u32) sk).
Proof. intros degree x x_o wo wo' p r. apply run_simd_sh_rb; [exact agW | exact agW' |]. intros p0 xo N r0 s s'. apply row_v_rb; [exact Ax | exact l4 | apply agWv, l4 | apply agWv', l4 | exact len_sse32]. Qed.
Lemma rb_sse16 sk : RUNrb px sx W W' T T' Lw Lw' (run_simd_sh (row_v 16 4 8 gen_sse_ntt_loop_body_u16) sk).
Proof. intros degree x x_o wo wo' p r. apply run_simd_sh_rb; [exact agW | exact agW' |]. intros p0 xo N r0 s s'. apply row_v_rb; [exact Ax | exact l8' | apply agWv, l8' | apply agWv', l8' | exact len_sse16]. Qed.
Lemma rb_avx32 sk : RUNrb px sx W W' T T' Lw Lw' (run_simd_sh (row_avx2 32 8 gen_avx2_ntt_loop_body_u32 gen_sse_ntt_loop_body_u32) sk).
Proof. intros degree x x_o wo wo' p r. apply run_simd_sh_rb; [exact agW | exact agW' |]. intros p0 xo N r0 s s'.
  apply row_avx2_rb; [exact Ax | exact l8 | exact l4 | apply agWv, l8 | apply agWv', l8 | apply agWv, l4 | apply agWv', l4 | exact len_avx32 | exact len_sse32]. Qed.
Lemma rb_avx16 sk : RUNrb px sx W W' T T' Lw Lw' (run_simd_sh (row_avx2 16 16 gen_avx2_ntt_loop_body_u16 gen_sse_ntt_loop_body_u16) sk).
Proof. intros degree x x_o wo wo' p r. apply run_simd_sh_rb; [exact agW | exact agW' |]. intros p0 xo N r0 s s'.
  apply row_avx2_rb; [exact Ax | exact l16 | exact l8' | apply agWv, l16 | apply agWv', l16 | apply agWv, l8' | apply agWv', l8' | exact len_avx16 | exact len_sse16]. Qed.

Ltac nttrb sh rsh rb := intros degree x x_o wo wo' p r; rewrite sh; apply ntt_sh_rb; [exact agW | exact agW' | rewrite rsh; apply rb].
Lemma rb_ntt_serial_u16 : NTTrb gen_ntt_serial_u16. Proof. nttrb ntt_serial_u16_shape run_serial_u16_shape rb_serial. Qed.
Lemma rb_ntt_serial_u32 : NTTrb gen_ntt_serial_u32. Proof. nttrb ntt_serial_u32_shape run_serial_u32_shape rb_serial. Qed.
Lemma rb_ntt_serial_u64 : NTTrb gen_ntt_serial_u64. Proof. nttrb ntt_serial_u64_shape run_serial_u64_shape rb_serial. Qed.
Lemma rb_ntt_sse_u16 : NTTrb gen_ntt_sse_u16. Proof. nttrb ntt_sse_u16_shape run_sse_u16_shape rb_sse16. Qed.
Lemma rb_ntt_sse_u32 : NTTrb gen_ntt_sse_u32. Proof. nttrb ntt_sse_u32_shape run_sse_u32_shape rb_sse32. Qed.
Lemma rb_ntt_sse_u64 : NTTrb gen_ntt_sse_u64. Proof. nttrb ntt_sse_u64_shape run_serial_u64_shape rb_serial. Qed.
Lemma rb_ntt_avx2_u16 : NTTrb gen_ntt_avx2_u16. Proof. nttrb ntt_avx2_u16_shape run_avx2_u16_shape rb_avx16. Qed.
Lemma rb_ntt_avx2_u32 : NTTrb gen_ntt_avx2_u32. Proof. nttrb ntt_avx2_u32_shape run_avx2_u32_shape rb_avx32. Qed.
Lemma rb_ntt_avx2_u64 : NTTrb gen_ntt_avx2_u64. Proof. nttrb ntt_avx2_u64_shape run_serial_u64_shape rb_serial. Qed.
End Place.

(* all builds, all limb types, anywhere: x0 inside px ++ x0 ++ sx, the twiddle table inside T at |pw|, its Shoup companion inside T' at |pw'|
   (T and T' may be the same array, e.g. pw' = pw ++ flat ++ ...), prefixes of a multiple of 16 elements *)
Theorem source_loops_anywhere k p om padW padW' x0 px sx pw sw pw' sw' T : (3 <= k <= 30)%nat -> 1 < p -> Forall (fun v => 0 <= v < p) padW -> length x0 = (2 ^ k)%nat ->
  Z.of_nat (length px) mod 16 = 0 -> Z.of_nat (length pw) mod 16 = 0 -> Z.of_nat (length pw') mod 16 = 0 ->
  let W := flat p k om ++ padW in let W' := fun w => map (fun v => (v * 2 ^ w) / p) (flat p k om) ++ padW' in let tws := fun lvl => nth lvl (prep p k om) nil in
  T = pw ++ W ++ sw ->
  let Lx := Z.of_nat (length px) in let Lw := Z.of_nat (length pw) in let Lw' := Z.of_nat (length pw') in
  let out w := Some ((px ++ ntt_core w p k tws x0 ++ sx, Lx + Z.of_nat (2 ^ k), Lw + Z.of_nat (off k (k - 2)), Lw' + Z.of_nat (off k (k - 2))), true) in
  let X := px ++ x0 ++ sx in
  (p < 2 ^ 14 -> Forall (fun v => 0 <= v < 2 ^ 16) padW' -> Forall (fun v => 0 <= v < 2 ^ 16) x0 -> forall T', T' = pw' ++ W' 16 ++ sw' ->
     gen_ntt_serial_u16 (Z.of_nat (2 ^ k)) X Lx T Lw T' Lw' p = out 16 /\ gen_ntt_sse_u16 (Z.of_nat (2 ^ k)) X Lx T Lw T' Lw' p = out 16 /\ gen_ntt_avx2_u16 (Z.of_nat (2 ^ k)) X Lx T Lw T' Lw' p = out 16) /\
  (4 * p <= 2 ^ 32 -> Forall (fun v => 0 <= v < 2 ^ 32) padW' -> Forall (fun v => 0 <= v < 2 ^ 32) x0 -> forall T', T' = pw' ++ W' 32 ++ sw' ->
     gen_ntt_serial_u32 (Z.of_nat (2 ^ k)) X Lx T Lw T' Lw' p = out 32 /\ gen_ntt_sse_u32 (Z.of_nat (2 ^ k)) X Lx T Lw T' Lw' p = out 32 /\ gen_ntt_avx2_u32 (Z.of_nat (2 ^ k)) X Lx T Lw T' Lw' p = out 32) /\
  (4 * p <= 2 ^ 64 -> Forall (fun v => 0 <= v < 2 ^ 64) padW' -> Forall (fun v => 0 <= v < 2 ^ 64) x0 -> forall T', T' = pw' ++ W' 64 ++ sw' ->
     gen_ntt_serial_u64 (Z.of_nat (2 ^ k)) X Lx T Lw T' Lw' p = out 64 /\ gen_ntt_sse_u64 (Z.of_nat (2 ^ k)) X Lx T Lw T' Lw' p = out 64 /\ gen_ntt_avx2_u64 (Z.of_nat (2 ^ k)) X Lx T Lw T' Lw' p = out 64).
Proof.
  intros Hk Hp HpW Hx Ax Aw Aw' W W' tws HT Lx Lw Lw' out X.
  pose proof (source_loops_all_builds k p om padW padW' x0 Hk Hp HpW Hx) as L. cbv zeta in L. fold W tws in L. destruct L as (L16 & L32 & L64).
  assert (G : forall w ntt T', T' = pw' ++ W' w ++ sw' -> NTTrb px sx pw pw' W (W' w) T T' ntt ->
    ntt (Z.of_nat (2 ^ k)) x0 0 W 0 (W' w) 0 p = Some ((ntt_core w p k tws x0, Z.of_nat (2 ^ k), Z.of_nat (off k (k - 2)), Z.of_nat (off k (k - 2))), true) ->
    ntt (Z.of_nat (2 ^ k)) X Lx T Lw T' Lw' p = out w).
  { intros w ntt T' HT' R E. pose proof (R _ _ _ _ _ _ _ E) as E'. unfold r4b, r4, emb in E'. cbn [fst snd] in E'. rewrite !Z.add_0_r in E'. exact E'. }
  split; [|split]; intros H1 H2 H3 T' HT'.
  - destruct (L16 H1 H2 H3) as (A & B & C). repeat split; (eapply G; [exact HT' | | eassumption]).
    + apply (rb_ntt_serial_u16 px sx pw sw pw' sw' W (W' 16) T T' HT HT').
    + apply (rb_ntt_sse_u16 px sx pw sw pw' sw' W (W' 16) T T' HT HT' Ax Aw Aw').
    + apply (rb_ntt_avx2_u16 px sx pw sw pw' sw' W (W' 16) T T' HT HT' Ax Aw Aw').
  - destruct (L32 H1 H2 H3) as (A & B & C). repeat split; (eapply G; [exact HT' | | eassumption]).
    + apply (rb_ntt_serial_u32 px sx pw sw pw' sw' W (W' 32) T T' HT HT').
    + apply (rb_ntt_sse_u32 px sx pw sw pw' sw' W (W' 32) T T' HT HT' Ax Aw Aw').
    + apply (rb_ntt_avx2_u32 px sx pw sw pw' sw' W (W' 32) T T' HT HT' Ax Aw Aw').
  - destruct (L64 H1 H2 H3) as (A & B & C). repeat split; (eapply G; [exact HT' | | eassumption]).
    + apply (rb_ntt_serial_u64 px sx pw sw pw' sw' W (W' 64) T T' HT HT').
    + apply (rb_ntt_sse_u64 px sx pw sw pw' sw' W (W' 64) T T' HT HT').
    + apply (rb_ntt_avx2_u64 px sx pw sw pw' sw' W (W' 64) T T' HT HT').
Qed.
