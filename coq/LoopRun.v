(* The loop structure of the transforms, part 3: the layers one after the other (ntt_loop<...>::run), for the three shapes of the
   generated code: serial (all J = k-2 layers by the scalar body, two lanes per iteration), SSE / AVX2 (J-1 layers by vector rows,
   the layer with blocks of 8 by the scalar body).  The result is `upto`: layer lvl uses the flat tables at offset FlatTable.off k lvl. *)
From Coq Require Import ZArith List Lia Bool Arith.
From NTT Require Import CxxSem MemSem Layer LoopSpec FlatTable.
Import ListNotations.
Local Open Scope Z_scope.

Lemma pairs_Forall (R : Z -> Prop) bf : (forall i a b, R (fst (bf i a b)) /\ R (snd (bf i a b))) ->
  forall lo hi i, Forall R (fst (pairs bf i lo hi)) /\ Forall R (snd (pairs bf i lo hi)).
Proof.
  intros H. induction lo as [|a lo IH]; intros [|b hi] i; cbn [pairs fst snd]; try (split; constructor).
  specialize (IH hi (S i)). destruct (pairs bf (S i) lo hi) as [s d]. cbn [fst snd] in *. destruct IH as [I1 I2].
  split; constructor; try assumption; apply H.
Qed.
Lemma blocks_Forall (R : Z -> Prop) bf : (forall i a b, R (fst (bf i a b)) /\ R (snd (bf i a b))) -> forall M h x, Forall R (blocks bf M h x).
Proof.
  intros H. induction M as [|M IH]; intros h x; cbn [blocks]; [constructor|].
  apply Forall_app. split; [|apply IH]. unfold block.
  pose proof (pairs_Forall R bf H (firstn h (firstn (2 * h) x)) (skipn h (firstn (2 * h) x)) 0%nat) as [P1 P2].
  destruct (pairs bf 0 (firstn h (firstn (2 * h) x)) (skipn h (firstn (2 * h) x))) as [s d]. cbn [fst snd] in *. apply Forall_app. split; assumption.
Qed.

Lemma pow2_Z n : Z.of_nat (2 ^ n) = 2 ^ Z.of_nat n.
Proof. induction n as [|n IH]; [reflexivity|]. rewrite Nat.pow_succ_r', Nat2Z.inj_mul, IH, (Nat2Z.inj_succ n). rewrite Z.pow_succ_r by lia. reflexivity. Qed.
Lemma pow2_split k lvl : (lvl < k)%nat -> (2 ^ lvl * (2 * 2 ^ (k - lvl - 1)) = 2 ^ k)%nat.
Proof. intros H. rewrite <- Nat.pow_succ_r', <- Nat.pow_add_r. f_equal. lia. Qed.
Lemma off_next k lvl : off k (S lvl) = (off k lvl + 2 ^ (k - lvl - 1))%nat. Proof. reflexivity. Qed.
Lemma off_fits k lvl : (lvl < k)%nat -> (off k lvl + 2 ^ (k - lvl - 1) <= 2 ^ k - 1)%nat.
Proof.
  intros H. pose proof (off_closed k (S lvl) ltac:(lia)) as E. rewrite off_next in E.
  assert (1 <= 2 ^ (k - S lvl))%nat by (apply Nat.neq_0_lt_0, Nat.pow_nonzero; lia). lia.
Qed.
Lemma shl_pow lvl : (lvl <= 30)%nat -> shl_s 32 1 (Z.of_nat lvl) = Some (Z.of_nat (2 ^ lvl)).
Proof.
  intros H. unfold shl_s. destruct (Z.leb_spec 0 (Z.of_nat lvl)); [|lia]. destruct (Z.ltb_spec (Z.of_nat lvl) 32); [|lia]. cbn [andb].
  rewrite Z.mul_1_l, <- pow2_Z. apply chk_ok.
  assert (2 ^ Z.of_nat lvl <= 2 ^ 30) by (apply Z.pow_le_mono_r; lia). rewrite pow2_Z. change (2 ^ (32 - 1)) with (2 * 2 ^ 30). lia.
Qed.
Lemma shr_pow k lvl : (lvl < k)%nat -> (k <= 62)%nat -> shr_u 64 (Z.of_nat (2 ^ k)) (Z.of_nat lvl) = Some (Z.of_nat (2 * 2 ^ (k - lvl - 1))).
Proof.
  intros H Hk. unfold shr_u. destruct (Z.leb_spec 0 (Z.of_nat lvl)); [|lia]. destruct (Z.ltb_spec (Z.of_nat lvl) 64); [|lia]. cbn [andb]. f_equal.
  rewrite <- Nat.pow_succ_r'. replace (S (k - lvl - 1)) with (k - lvl)%nat by lia. rewrite !pow2_Z.
  replace (Z.of_nat k) with (Z.of_nat (k - lvl) + Z.of_nat lvl) by lia. rewrite Z.pow_add_r by lia. apply Z.div_mul. apply Z.pow_nonzero; lia.
Qed.
Lemma log2_pow k : Z.log2 (Z.of_nat (2 ^ k)) = Z.of_nat k.
Proof. rewrite pow2_Z. apply Z.log2_pow2. lia. Qed.

Section Run.
Variable bf4 : Z -> Z -> Z -> Z -> Z * Z.
Variables W W' : list Z.
Variable k : nat.
Variable Rx : Z -> Prop.
Hypothesis Hout : forall a b wi wt, Rx (fst (bf4 a b wi wt)) /\ Rx (snd (bf4 a b wi wt)).
Hypothesis HWl : (2 ^ k - 1 <= length W)%nat.
Hypothesis HWl' : (2 ^ k - 1 <= length W')%nat.
Hypothesis Hk : (k <= 30)%nat.

Definition lay (lvl : nat) (x : list Z) : list Z := blocks (bfm bf4 W W' (off k lvl)) (2 ^ lvl) (2 ^ (k - lvl - 1)) x.
Fixpoint upto (lvl : nat) (x : list Z) : list Z := match lvl with O => x | S l => lay l (upto l x) end.

Lemma upto_length lvl x : (lvl <= k)%nat -> length x = (2 ^ k)%nat -> length (upto lvl x) = (2 ^ k)%nat.
Proof.
  induction lvl as [|l IH]; intros Hl Hx; cbn [upto]; [exact Hx|]. unfold lay. rewrite blocks_length; [apply pow2_split; lia|].
  rewrite IH by (lia || exact Hx). symmetry. apply pow2_split. lia.
Qed.
Lemma upto_Forall lvl x : Forall Rx x -> Forall Rx (upto lvl x).
Proof. intros F. destruct lvl as [|l]; [exact F|]. cbn [upto]. unfold lay. apply blocks_Forall. intros i a b. apply Hout. Qed.

(* a row function is right at level lvl *)
Definition RowOK (ROW : Z -> Z -> St -> option St) (lvl : nat) : Prop :=
  forall x, length x = (2 ^ k)%nat -> Forall Rx x -> forall r, (r < 2 ^ lvl)%nat ->
  ROW (Z.of_nat (2 * 2 ^ (k - lvl - 1))) (Z.of_nat r) (part (bfm bf4 W W' (off k lvl)) (2 ^ lvl) (2 ^ (k - lvl - 1)) x r 0%nat, Z.of_nat (off k lvl), Z.of_nat (off k lvl)) =
  Some (part (bfm bf4 W W' (off k lvl)) (2 ^ lvl) (2 ^ (k - lvl - 1)) x (S r) 0%nat, Z.of_nat (off k lvl), Z.of_nat (off k lvl)).

Lemma hpos lvl : (0 < 2 ^ (k - lvl - 1))%nat. Proof. apply Nat.neq_0_lt_0, Nat.pow_nonzero. lia. Qed.
Lemma mpos lvl : (0 < 2 ^ lvl)%nat. Proof. apply Nat.neq_0_lt_0, Nat.pow_nonzero. lia. Qed.
Lemma small lvl : (lvl < k)%nat -> Z.of_nat (2 ^ lvl * (2 * 2 ^ (k - lvl - 1))) < 2 ^ 62.
Proof. intros H. rewrite pow2_split by exact H. rewrite pow2_Z. apply Z.pow_lt_mono_r; lia. Qed.

Lemma layer_step ROW lvl x : (lvl < k)%nat -> RowOK ROW lvl -> length x = (2 ^ k)%nat -> Forall Rx x ->
  layer_sh ROW (Z.of_nat (2 ^ k)) (Z.of_nat lvl) (x, Z.of_nat (off k lvl), Z.of_nat (off k lvl)) = Some (lay lvl x, Z.of_nat (off k (S lvl)), Z.of_nat (off k (S lvl))).
Proof.
  intros Hl HR Hx Fx. unfold lay. rewrite off_next.
  apply (layer_ok bf4 W W' (2 ^ lvl) (2 ^ (k - lvl - 1)) (hpos lvl) (off k lvl)).
  - pose proof (off_fits k lvl Hl). lia.
  - pose proof (off_fits k lvl Hl). lia.
  - rewrite Hx. symmetry. apply pow2_split. exact Hl.
  - apply small. exact Hl.
  - apply mpos.
  - intros r Hr. apply HR; assumption.
  - apply shl_pow. lia.
  - apply shr_pow; lia.
Qed.

(* n layers from level 0, all with the same row function *)
Lemma layers_loop ROW n x0 : (n <= k)%nat -> (forall lvl, (lvl < n)%nat -> RowOK ROW lvl) -> length x0 = (2 ^ k)%nat -> Forall Rx x0 ->
  for_up 0 (Z.of_nat n) 1 (fun w => layer_sh ROW (Z.of_nat (2 ^ k)) w) (x0, 0, 0) = Some (upto n x0, Z.of_nat (off k n), Z.of_nat (off k n)).
Proof.
  intros Hn HR Hx Fx.
  change (x0, 0, 0) with ((fun lvl => (upto lvl x0, Z.of_nat (off k lvl), Z.of_nat (off k lvl))) 0%nat).
  apply (for_up_steps (fun lvl => (upto lvl x0, Z.of_nat (off k lvl), Z.of_nat (off k lvl))) n); try lia.
  intros lvl Hl. replace (0 + 1 * Z.of_nat lvl) with (Z.of_nat lvl) by lia. cbn [upto].
  apply layer_step; [lia | apply HR; exact Hl | apply upto_length; [lia | exact Hx] | apply upto_Forall; exact Fx].
Qed.

(* ---- ntt_loop<serial>::run ---- *)
Theorem run_serial_ok sk p x0 : (2 <= k)%nat -> (forall lvl, (lvl < k - 2)%nat -> RowOK (row_s2 sk p W W' 0) lvl) -> length x0 = (2 ^ k)%nat -> Forall Rx x0 ->
  run_serial_sh sk (Z.of_nat (2 ^ k)) x0 0 W 0 W' 0 p = Some ((upto (k - 2) x0, Z.of_nat (off k (k - 2)), Z.of_nat (off k (k - 2))), Z.of_nat (2 ^ (k - 2))).
Proof.
  intros Hk2 HR Hx Fx. unfold run_serial_sh. rewrite log2_pow.
  replace (uw 64 (Z.of_nat k - 2)) with (Z.of_nat (k - 2)) by (rewrite uw_small by lia; lia).
  rewrite (layers_loop _ (k - 2)) by (try lia; assumption). cbn [bind]. unfold ret_sh. rewrite log2_pow.
  replace (uw 64 (Z.of_nat k - 2)) with (Z.of_nat (k - 2)) by (rewrite uw_small by lia; lia).
  rewrite shl_pow by lia. cbn [bind]. rewrite uw_small; [reflexivity|].
  rewrite pow2_Z. split; [apply Z.pow_nonneg; lia|]. apply Z.pow_lt_mono_r; lia.
Qed.

(* ---- ntt_loop_sse_unrolled::run / ntt_loop_avx2_unrolled::run ---- *)
Theorem run_simd_ok ROWV sk p x0 : (3 <= k)%nat -> (forall lvl, (lvl < k - 3)%nat -> RowOK (ROWV p W W' 0) lvl) -> RowOK (row_s1 sk p W W' 0) (k - 3) ->
  length x0 = (2 ^ k)%nat -> Forall Rx x0 ->
  run_simd_sh ROWV sk (Z.of_nat (2 ^ k)) x0 0 W 0 W' 0 p = Some ((upto (k - 2) x0, Z.of_nat (off k (k - 2)), Z.of_nat (off k (k - 2))), Z.of_nat (2 ^ (k - 2))).
Proof.
  intros Hk3 HR HRs Hx Fx. unfold run_simd_sh. rewrite log2_pow.
  replace (uw 64 (uw 64 (Z.of_nat k - 2) - 1)) with (Z.of_nat (k - 3)) by (rewrite (uw_small 64 (Z.of_nat k - 2)) by lia; rewrite uw_small by lia; lia).
  rewrite (layers_loop _ (k - 3)) by (try lia; assumption). cbn [bind]. cbv zeta.
  replace (k - 2)%nat with (S (k - 3)) by lia. cbn [upto]. unfold lay. rewrite off_next.
  assert (Hl : (k - 3 < k)%nat) by lia.
  assert (Hu : uw 64 (Z.of_nat (2 ^ S (k - 3))) = Z.of_nat (2 ^ S (k - 3))).
  { apply uw_small. rewrite pow2_Z. split; [apply Z.pow_nonneg; lia|]. apply Z.pow_lt_mono_r; lia. }
  rewrite <- Hu.
  apply (last_layer_ok bf4 W W' (2 ^ (k - 3)) (2 ^ (k - (k - 3) - 1)) (hpos (k - 3)) (off k (k - 3))).
  - pose proof (off_fits k (k - 3) Hl). lia.
  - pose proof (off_fits k (k - 3) Hl). lia.
  - rewrite upto_length by (lia || exact Hx). symmetry. apply pow2_split. exact Hl.
  - apply small. exact Hl.
  - apply mpos.
  - intros r Hr. apply HRs; [apply upto_length; [lia | exact Hx] | apply upto_Forall; exact Fx | exact Hr].
  - apply shl_pow. lia.
  - apply shr_pow; lia.
  - rewrite log2_pow. replace (uw 64 (Z.of_nat k - 2)) with (Z.of_nat (S (k - 3))) by (rewrite uw_small by lia; lia). apply shl_pow. lia.
Qed.
End Run.

(* ================= part 4: poly::core::ntt -- degree 1 and 2, run, the fused last two layers four by four, the final strict reduction ================= *)
Definition St4 := (list Z * Z * Z * Z)%type.      (* x, x_o, wtab_o, winvtab_o *)
Definition ntt_sh (RUN : Z -> list Z -> Z -> list Z -> Z -> list Z -> Z -> Z -> option (St * Z))
  (deg2k : Z -> Z -> Z -> option (Z * Z)) (fusedk : Z -> Z -> Z -> Z -> Z -> Z -> Z -> option (Z * Z * Z * Z)) (strictk : Z -> Z -> option Z)
  (degree : Z) (x : list Z) (x_o : Z) (wtab : list Z) (wtab_o : Z) (winvtab : list Z) (winvtab_o : Z) (p : Z) : option (St4 * bool) :=
  (let x_orig_o_1 := x_o in (if (degree =? 1) then Some ((x, x_o, wtab_o, winvtab_o), true) else (if (degree =? 2) then (bind (ld x (x_o + 0)) (fun x_0 => bind (ld x (x_o + 1)) (fun x_1 => bind (deg2k p x_0 x_1) (fun '(o_x_0, o_x_1) => bind (st x (x_o + 0) o_x_0) (fun x => bind (st x (x_o + 1) o_x_1) (fun x => Some ((x, x_o, wtab_o, winvtab_o), true))))))) else (bind (RUN degree x x_o wtab wtab_o winvtab winvtab_o p) (fun '(x, wtab_o, winvtab_o, ret_) => (let M_2 := ret_ in (bind (for_up 0 M_2 1 (fun r_3 '(x, x_o, wtab_o, winvtab_o) => (bind (ld x (x_o + 0)) (fun x_0 => bind (ld x (x_o + 1)) (fun x_1 => bind (ld x (x_o + 2)) (fun x_2 => bind (ld x (x_o + 3)) (fun x_3 => bind (ld winvtab (winvtab_o + 1)) (fun winvtab_1 => bind (ld wtab (wtab_o + 1)) (fun wtab_1 => bind (fusedk p x_0 x_1 x_2 x_3 winvtab_1 wtab_1) (fun '(o_x_0, o_x_1, o_x_2, o_x_3) => bind (st x (x_o + 0) o_x_0) (fun x => bind (st x (x_o + 1) o_x_1) (fun x => bind (st x (x_o + 2) o_x_2) (fun x => bind (st x (x_o + 3) o_x_3) (fun x => (let x_o := (x_o + 4) in Some (x, x_o, wtab_o, winvtab_o))))))))))))))) (x, x_o, wtab_o, winvtab_o)) (fun '(x, x_o, wtab_o, winvtab_o) => (bind (for_up 0 degree 1 (fun i_4 '(x, x_o, wtab_o, winvtab_o) => (bind (ld x (x_orig_o_1 + i_4)) (fun x_orig_at_i => bind (strictk p x_orig_at_i) (fun o_x_orig_at_i => bind (st x (x_orig_o_1 + i_4) o_x_orig_at_i) (fun x => Some (x, x_o, wtab_o, winvtab_o)))))) (x, x_o, wtab_o, winvtab_o)) (fun '(x, x_o, wtab_o, winvtab_o) => Some ((x, x_o, wtab_o, winvtab_o), true))))))))))).

Section Fused.
Variable fusedf : Z -> Z -> Z -> Z -> Z -> Z -> Z * Z * Z * Z.     (* w1 w1' u0 u1 u2 u3 *)
Fixpoint fpass (M : nat) (w1 w1' : Z) (x : list Z) : list Z :=
  match M, x with
  | S M', u0 :: u1 :: u2 :: u3 :: rest => let '(z0, z1, z2, z3) := fusedf w1 w1' u0 u1 u2 u3 in z0 :: z1 :: z2 :: z3 :: fpass M' w1 w1' rest
  | _, _ => []
  end.
Lemma fpass_length M w1 w1' : forall x, length x = (4 * M)%nat -> length (fpass M w1 w1' x) = (4 * M)%nat.
Proof.
  induction M as [|M IH]; intros x H; [reflexivity|]. destruct x as [|u0 [|u1 [|u2 [|u3 rest]]]]; cbn [length] in H; try lia.
  cbn [fpass]. destruct (fusedf w1 w1' u0 u1 u2 u3) as [[[z0 z1] z2] z3]. cbn [length]. rewrite IH by lia. lia.
Qed.
Lemma fpass_nth M w1 w1' : forall x r, length x = (4 * M)%nat -> (r < M)%nat ->
  let '(z0, z1, z2, z3) := fusedf w1 w1' (nth (4 * r) x 0) (nth (4 * r + 1) x 0) (nth (4 * r + 2) x 0) (nth (4 * r + 3) x 0) in
  let y := fpass M w1 w1' x in
  nth (4 * r) y 0 = z0 /\ nth (4 * r + 1) y 0 = z1 /\ nth (4 * r + 2) y 0 = z2 /\ nth (4 * r + 3) y 0 = z3.
Proof.
  induction M as [|M IH]; intros x r H Hr; [lia|].
  destruct x as [|u0 [|u1 [|u2 [|u3 rest]]]]; cbn [length] in H; try lia.
  cbn [fpass]. destruct r as [|r].
  - cbn [Nat.mul Nat.add nth]. destruct (fusedf w1 w1' u0 u1 u2 u3) as [[[z0 z1] z2] z3]. cbn [nth]. auto.
  - specialize (IH rest r ltac:(lia) ltac:(lia)).
    replace (4 * S r)%nat with (S (S (S (S (4 * r))))) by lia. replace (S (S (S (S (4 * r)))) + 1)%nat with (S (S (S (S (4 * r + 1))))) by lia.
    replace (S (S (S (S (4 * r)))) + 2)%nat with (S (S (S (S (4 * r + 2))))) by lia. replace (S (S (S (S (4 * r)))) + 3)%nat with (S (S (S (S (4 * r + 3))))) by lia.
    cbn [nth]. destruct (fusedf w1 w1' u0 u1 u2 u3) as [[[y0 y1] y2] y3].
    destruct (fusedf w1 w1' (nth (4 * r) rest 0) (nth (4 * r + 1) rest 0) (nth (4 * r + 2) rest 0) (nth (4 * r + 3) rest 0)) as [[[z0 z1] z2] z3].
    cbn [nth]. exact IH.
Qed.

(* the array when r groups of four are done *)
Definition fpart (M : nat) (w1 w1' : Z) (x0 : list Z) (r : nat) : list Z := firstn (4 * r) (fpass M w1 w1' x0) ++ skipn (4 * r) x0.
Lemma fpart_length M w1 w1' x0 r : length x0 = (4 * M)%nat -> (r <= M)%nat -> length (fpart M w1 w1' x0 r) = (4 * M)%nat.
Proof. intros H Hr. unfold fpart. rewrite app_length, firstn_length, skipn_length, fpass_length by exact H. lia. Qed.
Lemma fpart_nth M w1 w1' x0 r j : length x0 = (4 * M)%nat -> (r <= M)%nat ->
  nth j (fpart M w1 w1' x0 r) 0 = if (j <? 4 * r)%nat then nth j (fpass M w1 w1' x0) 0 else nth j x0 0.
Proof.
  intros H Hr. unfold fpart. destruct (Nat.ltb_spec j (4 * r)).
  - rewrite app_nth1 by (rewrite firstn_length, fpass_length by exact H; lia). rewrite nth_firstn. replace (j <? 4 * r)%nat with true by (symmetry; apply Nat.ltb_lt; lia). reflexivity.
  - rewrite app_nth2 by (rewrite firstn_length, fpass_length by exact H; lia). rewrite firstn_length, fpass_length by exact H. rewrite nth_skipn. f_equal. lia.
Qed.
Lemma fpart_step M w1 w1' x0 r : length x0 = (4 * M)%nat -> (r < M)%nat ->
  let '(z0, z1, z2, z3) := fusedf w1 w1' (nth (4 * r) x0 0) (nth (4 * r + 1) x0 0) (nth (4 * r + 2) x0 0) (nth (4 * r + 3) x0 0) in
  upd (4 * r + 3) z3 (upd (4 * r + 2) z2 (upd (4 * r + 1) z1 (upd (4 * r) z0 (fpart M w1 w1' x0 r)))) = fpart M w1 w1' x0 (S r).
Proof.
  intros H Hr. pose proof (fpass_nth M w1 w1' x0 r H Hr) as F.
  destruct (fusedf w1 w1' (nth (4 * r) x0 0) (nth (4 * r + 1) x0 0) (nth (4 * r + 2) x0 0) (nth (4 * r + 3) x0 0)) as [[[z0 z1] z2] z3]. cbv zeta in F.
  destruct F as (F0 & F1 & F2 & F3).
  apply nth_ext0; [rewrite !upd_length, !fpart_length by (exact H || lia); reflexivity|].
  intros j Hj. rewrite !upd_length, fpart_length in Hj by (exact H || lia).
  rewrite !upd_nth, !upd_length, !fpart_length, !fpart_nth by (exact H || lia).
  destruct (Nat.eqb_spec j (4 * r + 3)); destruct (Nat.eqb_spec j (4 * r + 2)); destruct (Nat.eqb_spec j (4 * r + 1)); destruct (Nat.eqb_spec j (4 * r));
  destruct (Nat.ltb_spec (4 * r + 3) (4 * M)); destruct (Nat.ltb_spec (4 * r + 2) (4 * M)); destruct (Nat.ltb_spec (4 * r + 1) (4 * M)); destruct (Nat.ltb_spec (4 * r) (4 * M));
  destruct (Nat.ltb_spec j (4 * S r)); destruct (Nat.ltb_spec j (4 * r)); cbn [andb]; try lia; subst; auto.
Qed.
End Fused.

Section Ntt.
Variable fusedf : Z -> Z -> Z -> Z -> Z -> Z -> Z * Z * Z * Z.
Variable deg2f : Z -> Z -> Z * Z.
Variable sf : Z -> Z.
Variable bf4 : Z -> Z -> Z -> Z -> Z * Z.
Variables W W' : list Z.
Variable k : nat.
Variables Rx Rwi Rwt : Z -> Prop.
Hypothesis HW : Forall Rwt W.
Hypothesis HW' : Forall Rwi W'.
Hypothesis HWl : (2 ^ k - 1 <= length W)%nat.
Hypothesis HWl' : (2 ^ k - 1 <= length W')%nat.
Hypothesis Hk : (k <= 30)%nat.
Variable RUN : Z -> list Z -> Z -> list Z -> Z -> list Z -> Z -> Z -> option (St * Z).
Variable deg2k : Z -> Z -> Z -> option (Z * Z).
Variable fusedk : Z -> Z -> Z -> Z -> Z -> Z -> Z -> option (Z * Z * Z * Z).
Variable strictk : Z -> Z -> option Z.
Variable p : Z.
Hypothesis Hout : forall a b wi wt, Rx (fst (bf4 a b wi wt)) /\ Rx (snd (bf4 a b wi wt)).
Hypothesis HRUN : (2 <= k)%nat -> forall x0, length x0 = (2 ^ k)%nat -> Forall Rx x0 ->
  RUN (Z.of_nat (2 ^ k)) x0 0 W 0 W' 0 p = Some ((upto bf4 W W' k (k - 2) x0, Z.of_nat (off k (k - 2)), Z.of_nat (off k (k - 2))), Z.of_nat (2 ^ (k - 2))).
Hypothesis Hdeg2 : forall u0 u1, Rx u0 -> Rx u1 -> deg2k p u0 u1 = Some (deg2f u0 u1).
Hypothesis Hfused : forall u0 u1 u2 u3 w1' w1, Rx u0 -> Rx u1 -> Rx u2 -> Rx u3 -> Rwi w1' -> Rwt w1 -> fusedk p u0 u1 u2 u3 w1' w1 = Some (fusedf w1 w1' u0 u1 u2 u3).
Hypothesis Hfout : forall w1 w1' u0 u1 u2 u3, let '(z0, z1, z2, z3) := fusedf w1 w1' u0 u1 u2 u3 in Rx z0 /\ Rx z1 /\ Rx z2 /\ Rx z3.
Hypothesis Hstrict : forall v, Rx v -> strictk p v = Some (sf v).

Lemma fpass_Forall M w1 w1' : forall x, Forall Rx (fpass fusedf M w1 w1' x).
Proof.
  induction M as [|M IH]; intros x; [constructor|]. destruct x as [|u0 [|u1 [|u2 [|u3 rest]]]]; cbn [fpass]; try constructor.
  pose proof (Hfout w1 w1' u0 u1 u2 u3) as F. destruct (fusedf w1 w1' u0 u1 u2 u3) as [[[z0 z1] z2] z3]. destruct F as (F0 & F1 & F2 & F3).
  repeat (constructor; [assumption|]). apply IH.
Qed.

(* the fused loop: for (r = 0; r < M; r++, x += 4) *)
Lemma fused_loop M y wo : length y = (4 * M)%nat -> Forall Rx y -> (wo + 1 < length W)%nat -> (wo + 1 < length W')%nat -> Z.of_nat (4 * M) < 2 ^ 62 ->
  for_up 0 (Z.of_nat M) 1 (fun r_3 '(x, x_o, wtab_o, winvtab_o) => (bind (ld x (x_o + 0)) (fun x_0 => bind (ld x (x_o + 1)) (fun x_1 => bind (ld x (x_o + 2)) (fun x_2 => bind (ld x (x_o + 3)) (fun x_3 => bind (ld W' (winvtab_o + 1)) (fun winvtab_1 => bind (ld W (wtab_o + 1)) (fun wtab_1 => bind (fusedk p x_0 x_1 x_2 x_3 winvtab_1 wtab_1) (fun '(o_x_0, o_x_1, o_x_2, o_x_3) => bind (st x (x_o + 0) o_x_0) (fun x => bind (st x (x_o + 1) o_x_1) (fun x => bind (st x (x_o + 2) o_x_2) (fun x => bind (st x (x_o + 3) o_x_3) (fun x => Some (x, x_o + 4, wtab_o, winvtab_o)))))))))))))) (y, 0, Z.of_nat wo, Z.of_nat wo)
  = Some (fpass fusedf M (nth (wo + 1) W 0) (nth (wo + 1) W' 0) y, Z.of_nat (4 * M), Z.of_nat wo, Z.of_nat wo).
Proof.
  intros Hy Fy Hw Hw' Hs. set (w1 := nth (wo + 1) W 0). set (w1' := nth (wo + 1) W' 0).
  assert (E0 : (y, 0, Z.of_nat wo, Z.of_nat wo) = (fpart fusedf M w1 w1' y 0, Z.of_nat (4 * 0), Z.of_nat wo, Z.of_nat wo)) by (unfold fpart; rewrite Nat.mul_0_r; reflexivity).
  rewrite E0.
  rewrite (for_up_steps (fun r => (fpart fusedf M w1 w1' y r, Z.of_nat (4 * r), Z.of_nat wo, Z.of_nat wo)) M); try lia.
  - f_equal. f_equal. f_equal. f_equal. unfold fpart. rewrite skipn_all2 by lia. rewrite app_nil_r. apply firstn_all2. rewrite fpass_length by exact Hy. lia.
  - intros r Hr. cbv beta iota.
    assert (L0 : length (fpart fusedf M w1 w1' y r) = (4 * M)%nat) by (apply fpart_length; [exact Hy | lia]).
    replace (Z.of_nat (4 * r) + 0) with (Z.of_nat (4 * r)) by lia. replace (Z.of_nat (4 * r) + 1) with (Z.of_nat (4 * r + 1)) by lia.
    replace (Z.of_nat (4 * r) + 2) with (Z.of_nat (4 * r + 2)) by lia. replace (Z.of_nat (4 * r) + 3) with (Z.of_nat (4 * r + 3)) by lia.
    replace (Z.of_nat wo + 1) with (Z.of_nat (wo + 1)) by lia.
    rewrite !ld_some by lia. rewrite !Nat2Z.id. cbn [bind].
    rewrite !fpart_nth by (exact Hy || lia).
    replace (4 * r <? 4 * r)%nat with false by (symmetry; apply Nat.ltb_ge; lia). replace (4 * r + 1 <? 4 * r)%nat with false by (symmetry; apply Nat.ltb_ge; lia).
    replace (4 * r + 2 <? 4 * r)%nat with false by (symmetry; apply Nat.ltb_ge; lia). replace (4 * r + 3 <? 4 * r)%nat with false by (symmetry; apply Nat.ltb_ge; lia).
    rewrite Hfused; try (apply Forall_nth_R; [assumption | lia]).
    fold w1 w1'. cbn [bind].
    pose proof (fpart_step fusedf M w1 w1' y r Hy Hr) as Stp.
    destruct (fusedf w1 w1' (nth (4 * r) y 0) (nth (4 * r + 1) y 0) (nth (4 * r + 2) y 0) (nth (4 * r + 3) y 0)) as [[[z0 z1] z2] z3].
    rewrite st_some by lia. cbn [bind]. rewrite st_some by (rewrite upd_length; lia). cbn [bind].
    rewrite st_some by (rewrite !upd_length; lia). cbn [bind]. rewrite st_some by (rewrite !upd_length; lia). cbn [bind].
    rewrite !Nat2Z.id. rewrite Stp. f_equal. f_equal. f_equal. f_equal. lia.
Qed.

(* the final loop: x_orig[i] -= (x_orig[i] >= p) ? p : 0 *)
Definition spart (z : list Z) (i : nat) : list Z := map (fun j => if (j <? i)%nat then sf (nth j z 0) else nth j z 0) (seq 0 (length z)).
Lemma strict_loop z (a b c : Z) : Forall Rx z -> Z.of_nat (length z) < 2 ^ 62 ->
  for_up 0 (Z.of_nat (length z)) 1 (fun i_4 '(x, x_o, wtab_o, winvtab_o) => (bind (ld x (0 + i_4)) (fun x_orig_at_i => bind (strictk p x_orig_at_i) (fun o_x_orig_at_i => bind (st x (0 + i_4) o_x_orig_at_i) (fun x => Some (x, x_o, wtab_o, winvtab_o)))))) (z, a, b, c)
  = Some (map sf z, a, b, c).
Proof.
  intros Fz Hs.
  assert (E0 : z = spart z 0).
  { apply nth_ext0; [unfold spart; rewrite tabz_length; reflexivity|]. intros j Hj. unfold spart. rewrite tabz_nth by exact Hj. reflexivity. }
  rewrite E0 at 2.
  rewrite (for_up_steps (fun i => (spart z i, a, b, c)) (length z)); try lia.
  - f_equal. f_equal. f_equal. f_equal. apply nth_ext0; [unfold spart; rewrite tabz_length, map_length; reflexivity|].
    intros j Hj. unfold spart in *. rewrite tabz_length in Hj. rewrite tabz_nth by exact Hj.
    replace (j <? length z)%nat with true by (symmetry; apply Nat.ltb_lt; exact Hj).
    rewrite (nth_indep (map sf z) 0 (sf 0)) by (rewrite map_length; exact Hj). rewrite map_nth. reflexivity.
  - intros i Hi. cbv beta iota. replace (0 + (0 + 1 * Z.of_nat i)) with (Z.of_nat i) by lia.
    assert (Ls : length (spart z i) = length z) by (unfold spart; apply tabz_length).
    rewrite ld_some by lia. cbn [bind]. rewrite Nat2Z.id. unfold spart at 1. rewrite tabz_nth by exact Hi.
    replace (i <? i)%nat with false by (symmetry; apply Nat.ltb_ge; lia).
    rewrite Hstrict by (apply Forall_nth_R; [exact Fz | exact Hi]). cbn [bind]. rewrite st_some by lia. cbn [bind]. rewrite Nat2Z.id.
    f_equal. f_equal. f_equal. f_equal. apply nth_ext0; [rewrite upd_length, Ls; unfold spart; rewrite tabz_length; reflexivity|].
    intros j Hj. rewrite upd_length, Ls in Hj. rewrite upd_nth, Ls. unfold spart. rewrite !tabz_nth by exact Hj.
    destruct (Nat.eqb_spec j i); destruct (Nat.ltb_spec i (length z)); destruct (Nat.ltb_spec j (S i)); destruct (Nat.ltb_spec j i); cbn [andb]; try lia; subst; reflexivity.
Qed.

Theorem ntt_ok x0 : (2 <= k)%nat -> length x0 = (2 ^ k)%nat -> Forall Rx x0 ->
  let wo := off k (k - 2) in
  ntt_sh RUN deg2k fusedk strictk (Z.of_nat (2 ^ k)) x0 0 W 0 W' 0 p =
  Some ((map sf (fpass fusedf (2 ^ (k - 2)) (nth (wo + 1) W 0) (nth (wo + 1) W' 0) (upto bf4 W W' k (k - 2) x0)), Z.of_nat (2 ^ k), Z.of_nat wo, Z.of_nat wo), true).
Proof.
  intros Hk2 Hx Fx wo. unfold ntt_sh. cbv zeta.
  assert (P4 : (4 * 2 ^ (k - 2) = 2 ^ k)%nat) by (replace k with (S (S (k - 2))) at 2 by lia; rewrite !Nat.pow_succ_r'; lia).
  assert (Big : (4 <= 2 ^ k)%nat) by (rewrite <- P4; assert (0 < 2 ^ (k - 2))%nat by (apply Nat.neq_0_lt_0, Nat.pow_nonzero; lia); lia).
  replace (Z.of_nat (2 ^ k) =? 1) with false by (symmetry; apply Z.eqb_neq; lia).
  replace (Z.of_nat (2 ^ k) =? 2) with false by (symmetry; apply Z.eqb_neq; lia).
  rewrite (HRUN Hk2 x0 Hx Fx). cbn [bind]. cbv zeta. fold wo.
  assert (Hwo : (wo + 4 = 2 ^ k)%nat).
  { unfold wo. pose proof (off_closed k (k - 2) ltac:(lia)) as E. replace (k - (k - 2))%nat with 2%nat in E by lia. cbn [Nat.pow Nat.mul] in E. lia. }
  assert (Lu : length (upto bf4 W W' k (k - 2) x0) = (4 * 2 ^ (k - 2))%nat) by (rewrite P4; apply upto_length; (assumption || lia)).
  assert (Sm : Z.of_nat (2 ^ k) < 2 ^ 62) by (rewrite pow2_Z; apply Z.pow_lt_mono_r; lia).
  rewrite (fused_loop (2 ^ (k - 2)) _ wo Lu (upto_Forall bf4 W W' k Rx Hout (k - 2) x0 Fx)) by lia.
  cbn [bind].
  set (z := fpass fusedf (2 ^ (k - 2)) (nth (wo + 1) W 0) (nth (wo + 1) W' 0) (upto bf4 W W' k (k - 2) x0)).
  assert (Lz : length z = (2 ^ k)%nat) by (unfold z; rewrite fpass_length by exact Lu; exact P4).
  rewrite <- Lz at 1. rewrite (strict_loop z) by (try (apply fpass_Forall); lia). cbn [bind]. rewrite P4. reflexivity.
Qed.

(* degree 1: nothing; degree 2: the special case *)
Theorem ntt_ok_deg1 x0 : k = 0%nat -> ntt_sh RUN deg2k fusedk strictk (Z.of_nat (2 ^ k)) x0 0 W 0 W' 0 p = Some ((x0, 0, 0, 0), true).
Proof. intros ->. reflexivity. Qed.
Theorem ntt_ok_deg2 u0 u1 : k = 1%nat -> Rx u0 -> Rx u1 ->
  ntt_sh RUN deg2k fusedk strictk (Z.of_nat (2 ^ k)) [u0; u1] 0 W 0 W' 0 p = Some (([fst (deg2f u0 u1); snd (deg2f u0 u1)], 0, 0, 0), true).
Proof.
  intros -> R0 R1. unfold ntt_sh. cbn [Nat.pow Nat.mul Nat.add Z.of_nat Pos.of_succ_nat Pos.succ Z.eqb Pos.eqb]. cbv zeta.
  cbn [Z.add]. rewrite !ld_some by (cbn [length Z.of_nat Pos.of_succ_nat Pos.succ]; lia). change (Z.to_nat 0) with 0%nat. change (Z.to_nat 1) with 1%nat. cbn [bind nth].
  rewrite Hdeg2 by assumption. destruct (deg2f u0 u1) as [o0 o1]. cbn [bind fst snd].
  rewrite st_some by (cbn [length Z.of_nat Pos.of_succ_nat Pos.succ upd]; lia). cbn [bind]. rewrite st_some by (rewrite upd_length; cbn [length Z.of_nat Pos.of_succ_nat Pos.succ upd]; lia). reflexivity.
Qed.
End Ntt.
