(* C03 — coefficient-wise modular operations are exact for every operand and every modulus of the tables.
   Statements only.  The models (Functors.v, ScalarOps.v) carry the C++ machine-word wrap explicitly. *)
From Coq Require Import ZArith List.
From NTT Require Import Functors ScalarOps ScalarClosed Simd Promote16 GenCorrect.
From NTT.gen Require Gen.
From NTT.gen Require Import Params.
Local Open Scope Z_scope.

(* for every row of every table (as generated from params.hpp on this run) and all canonical operands:
   addmod, submod, mulmod, compute_shoup (any word), mulmod_shoup, muladd are exact; muladd_shoup is lazy (< 2p, congruent) *)
Theorem C03_functors_exact_all_rows :
  (forall r, In r rows16 -> functors_exact 16 (fst (fst (fst r)))) /\
  (forall r, In r rows32 -> functors_exact 32 (fst (fst (fst r)))) /\
  (forall r, In r rows64 -> functors_exact 64 (fst (fst (fst r)))).
Proof. exact functors_exact_tables. Qed.
Print Assumptions C03_functors_exact_all_rows.

(* the 64-bit specialisations (Barrett-Newton with the tabulated Newton quotient) *)
Theorem C03_functors64_all_rows : forall r, In r rows64 ->
  let p := fst (fst (fst r)) in let pn := snd (fst (fst r)) in
  (forall x y, 0 <= x < p -> 0 <= y < p -> mulmod64 p pn x y = (x * y) mod p) /\
  (forall z x y, 0 <= z < p -> 0 <= x < p -> 0 <= y < p -> muladd64 p pn z x y = (x * y + z) mod p).
Proof. exact functors64_tables. Qed.
Print Assumptions C03_functors64_all_rows.

(* open form: any modulus of w-2 bits *)
Theorem C03_functors_exact_open : forall w p, Hrow w p -> functors_exact w p.
Proof. exact functors_exact_of_row. Qed.
Print Assumptions C03_functors_exact_open.

(* the SSE/AVX2 addmod kernel (signed-compare trick) equals the scalar functor in every lane, any lane count *)
Theorem C03_addmod_vector_lanes : forall w, 1 < w -> forall p, 0 < p -> 2 * p <= 2 ^ w -> forall x y, length x = length y ->
  Forall (fun v => 0 <= v < p) x -> Forall (fun v => 0 <= v < p) y ->
  addmod_vec w p x y = map2 (addmod w p) x y.
Proof. exact addmod_vec_lanes. Qed.
Print Assumptions C03_addmod_vector_lanes.

(* non-vacuity: a real row satisfies the row hypothesis and the functors compute on it *)
Example C03_nonvacuous : Hrow 32 1073479681 /\ addmod 32 1073479681 1073479680 1 = 0 /\ mulmod_gen 32 1073479681 1073479680 1073479680 = 1.
Proof. unfold Hrow. vm_compute. repeat split; congruence. Qed.

(* 16-bit limbs as C++ evaluates them: operands promoted to 32-bit signed int (overflow there would be undefined behaviour), unsigned
   32-bit arithmetic under the casts, truncation on the store.  No signed overflow ever occurs and the result is the word of the
   limb-width model, for EVERY 16-bit x (canonical or not) and canonical y / twiddle; same for the scalar butterfly on all operands *)
Theorem C03_u16_promotion_add : forall p x y, 0 <= p < 2 ^ 16 -> 0 <= x < 2 ^ 16 -> 0 <= y < 2 ^ 16 ->
  Promote16.addmod16 p x y = Some (addmod 16 p x y) /\ Promote16.submod16 p x y = Some (submod 16 p x y).
Proof. exact Promote16.addsub16_ok. Qed.
Print Assumptions C03_u16_promotion_add.
Theorem C03_u16_promotion_mulshoup : forall p x y, Hrow 16 p -> 0 <= x < 2 ^ 16 -> 0 <= y < p ->
  Promote16.mulmod_shoup16 p x y ((y * 2 ^ 16) / p) = Some (mulmod_shoup 16 p x y ((y * 2 ^ 16) / p)).
Proof. exact Promote16.mulmod_shoup16_ok. Qed.
Print Assumptions C03_u16_promotion_mulshoup.
Theorem C03_u16_promotion_butterfly : forall p wt a b, Hrow 16 p -> 0 <= wt < p -> 0 <= a < 2 ^ 16 -> 0 <= b < 2 ^ 16 ->
  Promote16.bfly16 p wt ((wt * 2 ^ 16) / p) a b = Some (bfly_lazy 16 p wt ((wt * 2 ^ 16) / p) a b).
Proof. exact Promote16.bfly16_ok. Qed.
Print Assumptions C03_u16_promotion_butterfly.

(* THE SOURCE ITSELF: gen/Gen.v is translated from the C++ on every run (tools/cxx2coq.py, through clang's AST of the explicit
   instantiations, with every integer promotion and conversion explicit).  For every row of every generated table the translated
   addmod, submod, mulmod, muladd, compute_shoup (any word), mulmod_shoup and muladd_shoup return exactly the modular values above and
   never reach undefined behaviour (a signed overflow would make them None). *)
Theorem C03_source_exact_all_rows :
  (forall r, In r rows16 -> let p := fst (fst (fst r)) in
     GenCorrect.source_exact 16 p Gen.gen_addmod_u16 Gen.gen_submod_u16 Gen.gen_mulmod_u16 Gen.gen_compute_shoup_u16 Gen.gen_mulmod_shoup_u16 Gen.gen_muladd_shoup_u16 /\
     forall z x y, 0 <= z < p -> 0 <= x < p -> 0 <= y < p -> Gen.gen_mulmod_u16 p x y = Some ((x * y) mod p) /\ Gen.gen_muladd_u16 p z x y = Some ((x * y + z) mod p)) /\
  (forall r, In r rows32 -> let p := fst (fst (fst r)) in
     GenCorrect.source_exact 32 p Gen.gen_addmod_u32 Gen.gen_submod_u32 Gen.gen_mulmod_u32 Gen.gen_compute_shoup_u32 Gen.gen_mulmod_shoup_u32 Gen.gen_muladd_shoup_u32 /\
     forall z x y, 0 <= z < p -> 0 <= x < p -> 0 <= y < p -> Gen.gen_mulmod_u32 p x y = Some ((x * y) mod p) /\ Gen.gen_muladd_u32 p z x y = Some ((x * y + z) mod p)) /\
  (forall r, In r rows64 -> let p := fst (fst (fst r)) in let pn := snd (fst (fst r)) in
     GenCorrect.source_exact 64 p Gen.gen_addmod_u64 Gen.gen_submod_u64 (fun p x y => None) Gen.gen_compute_shoup_u64 Gen.gen_mulmod_shoup_u64 Gen.gen_muladd_shoup_u64 /\
     forall z x y, 0 <= z < p -> 0 <= x < p -> 0 <= y < p -> Gen.gen_mulmod_u64 p pn x y = Some ((x * y) mod p) /\ Gen.gen_muladd_u64 p pn z x y = Some ((x * y + z) mod p)).
Proof. exact GenCorrect.source_exact_tables. Qed.
Print Assumptions C03_source_exact_all_rows.
