(* poly::set(gaussian<in_class, T, depth> const&) translated from the source (gen_set_gauss_uN: copy of the noise vector, in-place
   amplification in the signed limb type, row-wise stores with the sign folded into each modulus) is the executable model
   SamplersExec.set_gauss on which the consistency theorem (C09_gaussian_consistent) is stated.  FastGaussianNoise::getNoise is an
   oracle here: the noise vector it writes (its distribution is C10, its memory behaviour C11). *)
From Coq Require Import ZArith List Lia Bool Arith.
From NTT Require Import Layer Small Samplers SamplersExec CxxSem MemSem LoopSpec LoopRun PrepSpec SamplerSpec BoundedSpec.
Import ListNotations.
Local Open Scope Z_scope.

Definition GS := (list Z * list Z)%type.
Definition gset_sh (bits : Z) (negk : Z -> Z -> (Z -> option GS) -> option GS) (degree : Z) (_data : list Z) (mode_amplifier : Z) (nmoduli : Z) (P : list Z) (noise : list Z) : option GS :=
  (let rnd := (@nil Z) in (let amplifier_1 := mode_amplifier in (let rnd := (repeat 0 (Z.to_nat degree)) in (let '(rnd, noise) := noise_fill rnd 0 degree noise in (bind (if (negb (amplifier_1 =? 1)) then (bind (for_up 0 degree 1 (fun i_2 '(rnd, _data) => (bind (ld rnd (0 + i_2)) (fun ld_3 => (bind (st rnd (0 + i_2) (uw bits (sw bits (uw 64 ((uw 64 (sw bits ld_3)) * amplifier_1))))) (fun rnd => Some (rnd, _data)))))) (rnd, _data)) (fun '(rnd, _data) => Some (rnd, _data))) else Some (rnd, _data)) (fun '(rnd, _data) => (bind (for_up 0 nmoduli 1 (fun cm_4 '(rnd, _data) => (bind (for_up 0 degree 1 (fun i_5 '(rnd, _data) => (bind (ld rnd (0 + i_5)) (fun ld_6 => (bind (if ((sw bits ld_6) <? 0) then (bind (ld rnd (0 + i_5)) (fun ld_7 => negk (tabP P cm_4) ld_7 (fun v => (bind (st _data (0 + (uw 64 ((uw 64 (degree * cm_4)) + i_5))) v) (fun _data => Some (rnd, _data)))))) else (bind (ld rnd (0 + i_5)) (fun ld_8 => (bind (st _data (0 + (uw 64 ((uw 64 (degree * cm_4)) + i_5))) (uw bits (sw bits ld_8))) (fun _data => Some (rnd, _data)))))) (fun '(rnd, _data) => Some (rnd, _data)))))) (rnd, _data)) (fun '(rnd, _data) => Some (rnd, _data)))) (rnd, _data)) (fun '(rnd, _data) => Some (rnd, _data))))))))).

(* ---- an array rewritten in place, element by element ---- *)
Definition mapped (f : Z -> Z) (l : list Z) (j : nat) : list Z := map f (firstn j l) ++ skipn j l.
Lemma mapped_length f l j : length (mapped f l j) = length l.
Proof. unfold mapped. rewrite app_length, map_length. rewrite <- (firstn_skipn j l) at 3. rewrite app_length. reflexivity. Qed.
Lemma mapped_0 f l : mapped f l 0 = l. Proof. reflexivity. Qed.
Lemma mapped_all f l : mapped f l (length l) = map f l.
Proof. unfold mapped. rewrite firstn_all, skipn_all. apply app_nil_r. Qed.
Lemma mapped_nth f l j : (j < length l)%nat -> nth j (mapped f l j) 0 = nth j l 0.
Proof.
  intros H. unfold mapped. rewrite app_nth2 by (rewrite map_length, firstn_length; lia). rewrite map_length, firstn_length.
  rewrite nth_skipn. f_equal. lia.
Qed.
Lemma nth_map_firstn f (l : list Z) j i : (i < j)%nat -> (j <= length l)%nat -> nth i (map f (firstn j l)) 0 = f (nth i l 0).
Proof.
  intros Hi Hj. rewrite (nth_indep _ 0 (f 0)) by (rewrite map_length, firstn_length; lia). rewrite map_nth. f_equal. rewrite nth_firstn.
  assert (E : (i <? j)%nat = true) by (apply Nat.ltb_lt; exact Hi). rewrite E. reflexivity.
Qed.
Lemma mapped_step f l j : (j < length l)%nat -> upd j (f (nth j l 0)) (mapped f l j) = mapped f l (S j).
Proof.
  intros H. apply nth_ext0; [rewrite upd_length, !mapped_length; reflexivity|]. rewrite upd_length, mapped_length. intros i Hi.
  rewrite upd_nth, mapped_length. unfold mapped.
  destruct (Nat.eqb_spec i j) as [->|Hne].
  - assert (E : (j <? length l)%nat = true) by (apply Nat.ltb_lt; exact H). rewrite E. cbn [andb].
    rewrite app_nth1 by (rewrite map_length, firstn_length; lia). rewrite nth_map_firstn by lia. reflexivity.
  - cbn [andb]. destruct (Nat.ltb_spec i j) as [Hlt|Hge].
    + rewrite !app_nth1 by (rewrite map_length, firstn_length; lia). rewrite !nth_map_firstn by lia. reflexivity.
    + rewrite !app_nth2 by (rewrite map_length, firstn_length; lia). rewrite !map_length, !firstn_length.
      rewrite !nth_skipn. f_equal. lia.
Qed.

(* ---- an array filled in index order ---- *)
Definition filled (F : nat -> Z) (d : list Z) (k : nat) : list Z := map F (seq 0 k) ++ skipn k d.
Lemma filled_length F d k : (k <= length d)%nat -> length (filled F d k) = length d.
Proof. intros H. unfold filled. rewrite app_length, map_length, seq_length, skipn_length. lia. Qed.
Lemma filled_step F d k : (k < length d)%nat -> upd k (F k) (filled F d k) = filled F d (S k).
Proof.
  intros H. apply nth_ext0; [rewrite upd_length, !filled_length by lia; reflexivity|]. rewrite upd_length, filled_length by lia. intros i Hi.
  rewrite upd_nth, filled_length by lia. unfold filled.
  destruct (Nat.eqb_spec i k) as [->|Hne].
  - assert (E : (k <? length d)%nat = true) by (apply Nat.ltb_lt; exact H). rewrite E. cbn [andb].
    rewrite app_nth1 by (rewrite map_length, seq_length; lia). rewrite tabz_nth by lia. reflexivity.
  - cbn [andb]. destruct (Nat.ltb_spec i k) as [Hlt|Hge].
    + rewrite !app_nth1 by (rewrite map_length, seq_length; lia). rewrite !tabz_nth by lia. reflexivity.
    + rewrite !app_nth2 by (rewrite map_length, seq_length; lia). rewrite !map_length, !seq_length. rewrite !nth_skipn. f_equal. lia.
Qed.
Lemma filled_all F d : filled F d (length d) = map F (seq 0 (length d)).
Proof. unfold filled. rewrite skipn_all. apply app_nil_r. Qed.

(* ---- word-level facts ---- *)
Lemma sw_sgn w l : 0 <= l < 2 ^ w -> sw w l = sgn w l.
Proof. intros H. unfold sw, sgn. cbv zeta. rewrite Z.mod_small by exact H. reflexivity. Qed.
Lemma sgn_mod w l : 0 < w -> (sgn w l) mod 2 ^ w = l mod 2 ^ w.
Proof.
  intros Hw. unfold sgn. destruct (l <? 2 ^ (w - 1)); [reflexivity|]. replace (l - 2 ^ w) with (l + (-1) * 2 ^ w) by ring. apply Z.mod_add. pose proof (Z.pow_pos_nonneg 2 w). lia.
Qed.
Lemma sw_mod' b v : 0 < b -> (sw b v) mod 2 ^ b = v mod 2 ^ b.
Proof.
  intros Hb. unfold sw. cbv zeta. pose proof (Z.pow_pos_nonneg 2 b). destruct (v mod 2 ^ b <? 2 ^ (b - 1)); [apply Z.mod_mod; lia|].
  replace (v mod 2 ^ b - 2 ^ b) with (v mod 2 ^ b + (-1) * 2 ^ b) by ring. rewrite Z.mod_add by lia. apply Z.mod_mod. lia.
Qed.
Lemma sgn_range w l : 0 < w -> 0 <= l < 2 ^ w -> - 2 ^ (w - 1) <= sgn w l < 2 ^ (w - 1).
Proof.
  intros Hw H. assert (E : 2 ^ w = 2 * 2 ^ (w - 1)) by (replace w with (1 + (w - 1)) at 1 by lia; rewrite Z.pow_add_r by lia; reflexivity).
  unfold sgn. destruct (Z.ltb_spec l (2 ^ (w - 1))); lia.
Qed.

Lemma nth_firstn_in' (R : Z -> Prop) m P c : Forall R (firstn m P) -> (m <= length P)%nat -> (c < m)%nat -> R (nth c P 0).
Proof.
  intros F Hl Hc. assert (E : nth c P 0 = nth c (firstn m P) 0) by (rewrite nth_firstn; replace (c <? m)%nat with true by (symmetry; apply Nat.ltb_lt; exact Hc); reflexivity).
  rewrite E. apply (Forall_nth_R R (firstn m P) c F). rewrite firstn_length. lia.
Qed.

Section Gauss.
Variable bits : Z.
Hypothesis Hb8 : 8 <= bits <= 64.
Variable negk : Z -> Z -> (Z -> option GS) -> option GS.
Hypothesis Hnegk : forall p l k, 0 <= p < 2 ^ bits -> 0 <= l < 2 ^ bits -> sgn bits l < 0 -> negk p l k = k ((p + sgn bits l) mod 2 ^ bits).
Variables (n m : nat) (P noise data0 : list Z) (A : Z).
Hypothesis HA : 0 <= A < 2 ^ 64.
Hypothesis HPl : (m <= length P)%nat.
Hypothesis HPr : Forall (fun p => 0 <= p < 2 ^ bits) (firstn m P).
Hypothesis Hnl : (n <= length noise)%nat.
Hypothesis Hnr : Forall (fun x => 0 <= x < 2 ^ bits) noise.
Hypothesis Hd : length data0 = (m * n)%nat.
Hypothesis Hsmall : Z.of_nat (m * n) < 2 ^ 61.
Hypothesis Hn : (0 < n)%nat.
Hypothesis Hn61 : Z.of_nat n < 2 ^ 61.

Let N0 := firstn n noise.
Definition amp (l : Z) : Z := uw bits (sw bits (uw 64 (uw 64 (sw bits l) * A))).
Definition amp1 (l : Z) : Z := if A =? 1 then l else amp l.
Let R := map amp1 N0.
Definition gs (p l : Z) : Z := if sgn bits l <? 0 then (p + sgn bits l) mod 2 ^ bits else sgn bits l.
Definition Fg (j : nat) : Z := gs (nth (j / n) P 0) (nth (j mod n) R 0).

Lemma N0_len : length N0 = n. Proof. unfold N0. rewrite firstn_length. lia. Qed.
Lemma R_len : length R = n. Proof. unfold R. rewrite map_length. apply N0_len. Qed.
Lemma N0_rng i : (i < n)%nat -> 0 <= nth i N0 0 < 2 ^ bits.
Proof. intros Hi. apply (Forall_nth_R (fun x => 0 <= x < 2 ^ bits)); [apply Forall_firstn'; exact Hnr | rewrite N0_len; exact Hi]. Qed.
Lemma pow_bits : 0 < 2 ^ bits. Proof. apply Z.pow_pos_nonneg; lia. Qed.
Lemma pow_bits_64 : exists q, 2 ^ 64 = q * 2 ^ bits.
Proof. exists (2 ^ (64 - bits)). rewrite <- Z.pow_add_r by lia. f_equal. lia. Qed.

Lemma amp_val l : 0 <= l < 2 ^ bits -> amp l = (sgn bits l * A) mod 2 ^ bits.
Proof.
  intros Hl. unfold amp. rewrite (sw_sgn bits l Hl). unfold uw at 1. rewrite (sw_mod' bits) by lia. unfold uw.
  destruct pow_bits_64 as [q Eq]. pose proof pow_bits.
  assert (M : forall x, (x mod 2 ^ 64) mod 2 ^ bits = x mod 2 ^ bits).
  { intros x. symmetry. apply Znumtheory.Zmod_div_mod; [lia | lia | exists q; exact Eq]. }
  rewrite M. rewrite Z.mul_mod by lia. rewrite M. rewrite <- Z.mul_mod by lia. reflexivity.
Qed.
Lemma amp1_rng l : 0 <= l < 2 ^ bits -> 0 <= amp1 l < 2 ^ bits.
Proof. intros Hl. unfold amp1. destruct (A =? 1); [exact Hl|]. rewrite amp_val by exact Hl. apply Z.mod_pos_bound. apply pow_bits. Qed.
Lemma R_rng i : (i < n)%nat -> 0 <= nth i R 0 < 2 ^ bits.
Proof.
  intros Hi. unfold R. rewrite (nth_indep _ 0 (amp1 0)) by (rewrite map_length, N0_len; exact Hi). rewrite map_nth. apply amp1_rng. apply N0_rng. exact Hi.
Qed.
(* the stored word is the model's *)
Lemma gs_store p l : 0 <= l < 2 ^ bits -> gs p (amp1 l) = gauss_store bits p A l.
Proof.
  intros Hl. unfold gs, gauss_store. cbv zeta. unfold amp1. destruct (Z.eqb_spec A 1) as [E1|HA1].
  - rewrite E1. rewrite Z.mul_1_r. rewrite sgn_mod by lia. rewrite (Z.mod_small l) by exact Hl. reflexivity.
  - rewrite amp_val by exact Hl. reflexivity.
Qed.

Lemma amplify_loop : A <> 1 ->
  for_up 0 (Z.of_nat n) 1 (fun i_2 '(rnd, _data) => (bind (ld rnd (0 + i_2)) (fun ld_3 => (bind (st rnd (0 + i_2) (uw bits (sw bits (uw 64 ((uw 64 (sw bits ld_3)) * A))))) (fun rnd => Some (rnd, _data)))))) (N0, data0)
  = Some (R, data0).
Proof.
  intros HA1. assert (ER : R = mapped amp N0 n).
  { pose proof (mapped_all amp N0) as X. rewrite N0_len in X. rewrite X. unfold R. apply map_ext. intros a. unfold amp1. destruct (Z.eqb_spec A 1); [contradiction|reflexivity]. }
  rewrite ER. rewrite <- (mapped_0 amp N0) at 1.
  rewrite (for_up_steps (fun j : nat => (mapped amp N0 j, data0)) n); try lia; [reflexivity|].
  intros j Hj. replace (0 + 1 * Z.of_nat j) with (Z.of_nat j) by lia. cbv beta iota. replace (0 + Z.of_nat j) with (Z.of_nat j) by lia.
  rewrite ld_some by (rewrite mapped_length, N0_len; lia). cbn [bind]. rewrite Nat2Z.id.
  rewrite st_some by (rewrite mapped_length, N0_len; lia). cbn [bind]. rewrite Nat2Z.id.
  rewrite mapped_nth by (rewrite N0_len; exact Hj). fold (amp (nth j N0 0)). rewrite mapped_step by (rewrite N0_len; exact Hj). reflexivity.
Qed.

Lemma row_loop cm : (cm < m)%nat ->
  for_up 0 (Z.of_nat n) 1 (fun i_5 '(rnd, _data) => (bind (ld rnd (0 + i_5)) (fun ld_6 => (bind (if ((sw bits ld_6) <? 0) then (bind (ld rnd (0 + i_5)) (fun ld_7 => negk (tabP P (Z.of_nat cm)) ld_7 (fun v => (bind (st _data (0 + (uw 64 ((uw 64 (Z.of_nat n * Z.of_nat cm)) + i_5))) v) (fun _data => Some (rnd, _data)))))) else (bind (ld rnd (0 + i_5)) (fun ld_8 => (bind (st _data (0 + (uw 64 ((uw 64 (Z.of_nat n * Z.of_nat cm)) + i_5))) (uw bits (sw bits ld_8))) (fun _data => Some (rnd, _data)))))) (fun '(rnd, _data) => Some (rnd, _data)))))) (R, filled Fg data0 (n * cm))
  = Some (R, filled Fg data0 (n * S cm)).
Proof.
  intros Hcm.
  assert (E0 : (n * cm = n * cm + 0)%nat) by lia. rewrite E0 at 1. replace (n * S cm)%nat with (n * cm + n)%nat by lia.
  rewrite (for_up_steps (fun i : nat => (R, filled Fg data0 (n * cm + i))) n); try lia; [reflexivity|].
  intros i Hi. replace (0 + 1 * Z.of_nat i) with (Z.of_nat i) by lia. cbv beta iota. replace (0 + Z.of_nat i) with (Z.of_nat i) by lia.
  assert (Hk : (n * cm + i < m * n)%nat) by nia.
  assert (Eidx : 0 + uw 64 (uw 64 (Z.of_nat n * Z.of_nat cm) + Z.of_nat i) = Z.of_nat (n * cm + i)).
  { rewrite (uw_small 64 (Z.of_nat n * Z.of_nat cm)) by nia. rewrite uw_small by nia. nia. }
  rewrite Eidx. rewrite ld_some by (rewrite R_len; lia). cbn [bind]. rewrite Nat2Z.id.
  pose proof (R_rng i Hi) as Hr. rewrite (sw_sgn bits _ Hr).
  assert (HF : Fg (n * cm + i) = gs (nth cm P 0) (nth i R 0)).
  { unfold Fg. destruct (divmod_of n cm i Hi) as [D M]. rewrite D, M. reflexivity. }
  assert (Hp : 0 <= nth cm P 0 < 2 ^ bits).
  { apply (nth_firstn_in' (fun p => 0 <= p < 2 ^ bits) m P cm HPr HPl Hcm). }
  destruct (Z.ltb_spec (sgn bits (nth i R 0)) 0) as [Hneg|Hpos].
  - cbv iota. cbn [bind]. unfold tabP. rewrite ?Nat2Z.id.
    rewrite Hnegk by (try exact Hp; try exact Hr; exact Hneg).
    rewrite st_some by (rewrite filled_length by lia; lia). cbn [bind]. rewrite Nat2Z.id.
    replace ((nth cm P 0 + sgn bits (nth i R 0)) mod 2 ^ bits) with (Fg (n * cm + i)).
    2:{ rewrite HF. unfold gs. destruct (Z.ltb_spec (sgn bits (nth i R 0)) 0); [reflexivity|lia]. }
    rewrite filled_step by lia. replace (S (n * cm + i)) with (n * cm + S i)%nat by lia. reflexivity.
  - cbv iota. cbn [bind]. rewrite ?Nat2Z.id.
    rewrite st_some by (rewrite filled_length by lia; lia). cbn [bind]. rewrite ?Nat2Z.id.
    rewrite ?(sw_sgn bits _ Hr).
    replace (uw bits (sgn bits (nth i R 0))) with (Fg (n * cm + i)).
    2:{ rewrite HF. unfold gs. destruct (Z.ltb_spec (sgn bits (nth i R 0)) 0); [lia|]. symmetry. apply uw_small.
        pose proof (sgn_range bits (nth i R 0) ltac:(lia) Hr). assert (2 ^ (bits - 1) < 2 ^ bits) by (apply Z.pow_lt_mono_r; lia). lia. }
    rewrite filled_step by lia. replace (S (n * cm + i)) with (n * cm + S i)%nat by lia. reflexivity.
Qed.

Lemma final_list : map Fg (seq 0 (m * n)) = set_gauss bits (firstn m P) A N0.
Proof.
  unfold set_gauss. apply nth_ext0.
  - rewrite tabz_length. assert (G : forall l : list Z, length (concat (map (fun p => map (gauss_store bits p A) N0) l)) = (length l * n)%nat).
    { induction l as [|p l IH]; [reflexivity|]. cbn [map concat length]. rewrite app_length, map_length, IH, N0_len. lia. }
    rewrite G. replace (length (firstn m P)) with m by (rewrite firstn_length; lia). reflexivity.
  - rewrite tabz_length. intros j Hj. rewrite tabz_nth by exact Hj.
    assert (Lp : length (firstn m P) = m) by (rewrite firstn_length; lia).
    rewrite (nth_concat_rows (fun p x => gauss_store bits p A x) N0) by (rewrite ?Lp, N0_len; lia).
    rewrite N0_len. unfold Fg.
    assert (Hq : (j / n < m)%nat) by (apply Nat.div_lt_upper_bound; lia).
    assert (Hr : (j mod n < n)%nat) by (apply Nat.mod_upper_bound; lia).
    rewrite nth_firstn by exact Hq. assert (E : (j / n <? m)%nat = true) by (apply Nat.ltb_lt; exact Hq). rewrite ?E.
    unfold R. rewrite (nth_indep (map amp1 N0) 0 (amp1 0)) by (rewrite map_length, N0_len; exact Hr). rewrite map_nth.
    apply gs_store. apply N0_rng. exact Hr.
Qed.

Theorem gauss_set_ok : gset_sh bits negk (Z.of_nat n) data0 A (Z.of_nat m) P noise = Some (R, set_gauss bits (firstn m P) A N0).
Proof.
  unfold gset_sh. cbv zeta. unfold noise_fill. rewrite Nat2Z.id. change (Z.to_nat 0) with 0%nat.
  rewrite splice_all by (rewrite repeat_length; apply N0_len). fold N0.
  assert (Eamp : (if negb (A =? 1) then bind (for_up 0 (Z.of_nat n) 1 (fun i_2 '(rnd, _data) => (bind (ld rnd (0 + i_2)) (fun ld_3 => (bind (st rnd (0 + i_2) (uw bits (sw bits (uw 64 ((uw 64 (sw bits ld_3)) * A))))) (fun rnd => Some (rnd, _data)))))) (N0, data0)) (fun '(rnd, _data) => Some (rnd, _data)) else Some (N0, data0)) = Some (R, data0)).
  { destruct (Z.eqb_spec A 1) as [E1|E1]; cbn [negb].
    - f_equal. f_equal. unfold R. rewrite <- (map_id N0) at 1. apply map_ext. intros a. unfold amp1. rewrite E1. reflexivity.
    - rewrite amplify_loop by exact E1. reflexivity. }
  rewrite Eamp. cbn [bind].
  assert (Hm61 : Z.of_nat m < 2 ^ 61) by nia.
  assert (Estart : data0 = filled Fg data0 (n * 0)) by (rewrite Nat.mul_0_r; reflexivity). rewrite Estart at 1.
  rewrite (for_up_steps (fun cm : nat => (R, filled Fg data0 (n * cm))) m); try lia.
  - cbn [bind]. f_equal. f_equal. replace (n * m)%nat with (length data0) by lia. rewrite filled_all. rewrite Hd. apply final_list.
  - intros cm Hcm. replace (0 + 1 * Z.of_nat cm) with (Z.of_nat cm) by lia. cbv beta iota. rewrite (row_loop cm Hcm). reflexivity.
Qed.
End Gauss.
