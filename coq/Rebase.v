(* Rebasing the translated transform loops: the theorems of LoopRun / GenLoopEq / GenLoopSimd are stated for a coefficient array x of exactly
   `degree` words at offset 0 and two separate table arrays at offset 0, while the library calls core::ntt on row cm of _data, on
   omegas[cm] and on omegas[cm] + degree (both tables inside one array).  Here: a run that succeeds on (x, x_o, W, wo, W', wo') succeeds on
   (px ++ x ++ sx, |px| + x_o, T, Lw + wo, T', Lw' + wo') with the same result embedded (px and sx untouched, offsets shifted), whenever T
   holds W from Lw on and T' holds W' from Lw' on (as far as loads are concerned; T and T' may be the same array) and, for the vector
   loops, |px| is a multiple of 16 elements and the vector kernel returns registers as long as those it is given. *)
From Coq Require Import ZArith List Lia Bool.
From NTT Require Import CxxSem VecSem MemSem LoopSpec LoopRun Frame.
Import ListNotations.
Local Open Scope Z_scope.

Section Rebase.
Variables px sx : list Z.
Notation Lx := (Z.of_nat (length px)).
Definition emb (x : list Z) : list Z := px ++ x ++ sx.
Variables (W W' T T' : list Z) (Lw Lw' : Z).
Hypothesis AgW : forall j v, ld W j = Some v -> ld T (Lw + j) = Some v.
Hypothesis AgW' : forall j v, ld W' j = Some v -> ld T' (Lw' + j) = Some v.

Lemma inb_pos x i : inb x i = true -> 0 <= i < Z.of_nat (length x).
Proof. unfold inb. intros H. apply andb_true_iff in H. destruct H as [A B]. apply Z.leb_le in A. apply Z.ltb_lt in B. lia. Qed.
Lemma inb_emb x i : inb x i = true -> inb (emb x) (Lx + i) = true.
Proof. intros H. apply inb_pos in H. unfold inb, emb. rewrite !app_length, !Nat2Z.inj_add. apply andb_true_iff. split; [apply Z.leb_le | apply Z.ltb_lt]; lia. Qed.
Lemma upd_emb n v x : (n < length x)%nat -> upd (length px + n) v (emb x) = emb (upd n v x).
Proof.
  intros Hn. unfold emb. induction px as [|h t IH]; cbn [length app Nat.add upd].
  - apply (upd_app sx). exact Hn.
  - f_equal. exact IH.
Qed.
Lemma ld_rb x i v : ld x i = Some v -> ld (emb x) (Lx + i) = Some v.
Proof.
  unfold ld. destruct (inb x i) eqn:E; [|discriminate]. rewrite (inb_emb _ _ E). intros H. rewrite <- H. f_equal. apply inb_pos in E.
  unfold emb. replace (Z.to_nat (Lx + i)) with (length px + Z.to_nat i)%nat by lia. rewrite app_nth2_plus. apply app_nth1. lia.
Qed.
Lemma st_rb x i v x' : st x i v = Some x' -> st (emb x) (Lx + i) v = Some (emb x').
Proof.
  unfold st. destruct (inb x i) eqn:E; [|discriminate]. rewrite (inb_emb _ _ E). intros H. injection H as <-. f_equal. apply inb_pos in E.
  replace (Z.to_nat (Lx + i)) with (length px + Z.to_nat i)%nat by lia. apply upd_emb. lia.
Qed.

(* vector accesses: alignment is counted in elements from the base of the array *)
Hypothesis HLx : Lx mod 16 = 0.
Definition lanes_ok (n : nat) : Prop := n = 4%nat \/ n = 8%nat \/ n = 16%nat.
Lemma mod_shift n i : lanes_ok n -> i mod Z.of_nat n = 0 -> (Lx + i) mod Z.of_nat n = 0.
Proof.
  intros Hn Hi. assert (E : Lx mod Z.of_nat n = 0).
  { destruct Hn as [-> | [-> | ->]]; cbn [Z.of_nat Pos.of_succ_nat Pos.succ]; [| |exact HLx].
    - pose proof (Z.div_mod Lx 16 ltac:(lia)) as D. rewrite HLx in D. rewrite D. replace (16 * (Lx / 16) + 0) with ((4 * (Lx / 16)) * 4) by lia. apply Z.mod_mul. lia.
    - pose proof (Z.div_mod Lx 16 ltac:(lia)) as D. rewrite HLx in D. rewrite D. replace (16 * (Lx / 16) + 0) with ((2 * (Lx / 16)) * 8) by lia. apply Z.mod_mul. lia. }
  assert (Hn0 : Z.of_nat n <> 0) by (destruct Hn as [-> | [-> | ->]]; cbn; lia).
  rewrite Z.add_mod by exact Hn0. rewrite E, Hi. cbn [Z.add]. apply Z.mod_0_l. exact Hn0.
Qed.
Lemma okn_parts n x i : okn n x i = true -> 0 <= i /\ i + Z.of_nat n <= Z.of_nat (length x) /\ i mod Z.of_nat n = 0.
Proof. unfold okn. intros H. apply andb_true_iff in H. destruct H as [H C]. apply andb_true_iff in H. destruct H as [A B]. apply Z.leb_le in A, B. apply Z.eqb_eq in C. auto. Qed.
Lemma okn_emb n x i : lanes_ok n -> okn n x i = true -> okn n (emb x) (Lx + i) = true.
Proof.
  intros Hn H. apply okn_parts in H. destruct H as (A & B & C). apply okn_true; [lia | unfold emb; rewrite !app_length, !Nat2Z.inj_add; lia | apply mod_shift; assumption].
Qed.
Lemma ldn_rb n x i v : lanes_ok n -> ldn n x i = Some v -> ldn n (emb x) (Lx + i) = Some v.
Proof.
  intros Hn. unfold ldn. destruct (okn n x i) eqn:E; [|discriminate]. rewrite (okn_emb _ _ _ Hn E). intros H. rewrite <- H. f_equal.
  apply okn_parts in E. destruct E as (A & B & C). unfold emb.
  replace (Z.to_nat (Lx + i)) with (length px + Z.to_nat i)%nat by lia. rewrite skipn_app. rewrite skipn_all2 by lia. cbn [app].
  replace (length px + Z.to_nat i - length px)%nat with (Z.to_nat i) by lia. rewrite skipn_app, firstn_app. rewrite skipn_length.
  replace (n - (length x - Z.to_nat i))%nat with 0%nat by lia. cbn [firstn]. rewrite app_nil_r. reflexivity.
Qed.
Lemma stn_rb x i vs x' : lanes_ok (length vs) -> stn x i vs = Some x' -> stn (emb x) (Lx + i) vs = Some (emb x').
Proof.
  intros Hn. unfold stn. destruct (okn (length vs) x i) eqn:E; [|discriminate]. rewrite (okn_emb _ _ _ Hn E). intros H. injection H as <-. f_equal.
  apply okn_parts in E. destruct E as (A & B & C). unfold emb.
  replace (Z.to_nat (Lx + i)) with (length px + Z.to_nat i)%nat by lia.
  rewrite firstn_app. rewrite firstn_all2 by lia. replace (length px + Z.to_nat i - length px)%nat with (Z.to_nat i) by lia.
  rewrite firstn_app. replace (Z.to_nat i - length x)%nat with 0%nat by lia. cbn [firstn]. rewrite app_nil_r.
  rewrite skipn_app. rewrite skipn_all2 by lia. cbn [app]. replace (length px + Z.to_nat i + length vs - length px)%nat with (Z.to_nat i + length vs)%nat by lia.
  rewrite skipn_app. replace (Z.to_nat i + length vs - length x)%nat with 0%nat by lia. cbn [skipn]. rewrite <- !app_assoc. reflexivity.
Qed.

(* two-body version of the loop lemma of Frame.v *)
Section Loop.
Context {S : Type}.
Variable ext : S -> S.
Lemma for_fuel_rel (bA bB : Z -> S -> option S) : (forall i s s', bA i s = Some s' -> bB i (ext s) = Some (ext s')) ->
  forall n i hi step s s', for_fuel n i hi step bA s = Some s' -> for_fuel n i hi step bB (ext s) = Some (ext s').
Proof.
  intros Hb n. induction n as [|n IH]; intros i hi step s s'; cbn [for_fuel]; destruct (i <? hi); try discriminate; try (intros H; injection H as <-; reflexivity).
  destruct (bA i s) as [s1|] eqn:E; [|discriminate]. rewrite (Hb _ _ _ E). cbn [bind]. destruct (i + step <? 2 ^ 64); [|discriminate]. apply IH.
Qed.
Lemma for_up_rel (bA bB : Z -> S -> option S) lo hi step s s' : (forall i s s', bA i s = Some s' -> bB i (ext s) = Some (ext s')) ->
  for_up lo hi step bA s = Some s' -> for_up lo hi step bB (ext s) = Some (ext s').
Proof. intros Hb. unfold for_up. apply for_fuel_rel. exact Hb. Qed.
End Loop.

Definition r3 (s : St) : St := let '(x, a, b) := s in (emb x, Lw + a, Lw' + b).
Definition r4 (s : St4) : St4 := let '(x, xo, a, b) := s in (emb x, Lx + xo, Lw + a, Lw' + b).

Lemma body_s_rb {R} (extT : R -> R) sk p ia ib ic id (k k' : list Z -> option R) :
  (forall x r, k x = Some r -> k' (emb x) = Some (extT r)) -> forall x r, body_s sk p W W' ia ib ic id k x = Some r -> body_s sk p T T' (Lx + ia) (Lx + ib) (Lw' + ic) (Lw + id) k' (emb x) = Some (extT r).
Proof.
  intros Hk x r H. unfold body_s in *.
  destruct (ld x ia) eqn:E1; [|discriminate H]. rewrite (ld_rb _ _ _ E1). cbn [bind] in H |- *.
  destruct (ld x ib) eqn:E2; [|discriminate H]. rewrite (ld_rb _ _ _ E2). cbn [bind] in H |- *.
  destruct (ld W' ic) eqn:E5; [|discriminate H]. rewrite (AgW' _ _ E5). cbn [bind] in H |- *.
  destruct (ld W id) eqn:E6; [|discriminate H]. rewrite (AgW _ _ E6). cbn [bind] in H |- *.
  destruct (sk p z z0 z1 z2) as [r_|]; [|discriminate H]. cbn [bind] in H |- *.
  destruct (st x ia (fst r_)) as [x1|] eqn:E3; [|discriminate H]. rewrite (st_rb _ _ _ _ E3). cbn [bind] in H |- *.
  destruct (st x1 ib (snd r_)) as [x2|] eqn:E4; [|discriminate H]. rewrite (st_rb _ _ _ _ E4). cbn [bind] in H |- *. apply Hk. exact H.
Qed.

Lemma k3_rb (a b : Z) : forall x r, (fun x => Some (x, a, b)) x = Some r -> (fun x : list Z => Some (x, Lw + a, Lw' + b)) (emb x) = Some (r3 r).
Proof. intros x r H. injection H as <-. reflexivity. Qed.

Lemma row_s2_rb sk p x_o N r s s' : row_s2 sk p W W' x_o N r s = Some s' -> row_s2 sk p T T' (Lx + x_o) N r (r3 s) = Some (r3 s').
Proof.
  destruct s as [[x a] b]. unfold row_s2. cbn [r3]. cbv beta iota. rewrite !bind_id3. intros H0. change (emb x, Lw + a, Lw' + b) with (r3 (x, a, b)).
  eapply for_up_rel; [|exact H0]. clear H0. intros i [[x1 a1] b1] s1 H. cbn [r3].
  rewrite <- !(Z.add_assoc Lx x_o), <- !(Z.add_assoc Lw' b1), <- !(Z.add_assoc Lw a1).
  eapply (body_s_rb r3); [|exact H]. intros x2 r2 H2. eapply (body_s_rb r3); [|exact H2]. apply k3_rb.
Qed.
Lemma row_s1_rb sk p x_o N r s s' : row_s1 sk p W W' x_o N r s = Some s' -> row_s1 sk p T T' (Lx + x_o) N r (r3 s) = Some (r3 s').
Proof.
  destruct s as [[x a] b]. unfold row_s1. cbn [r3]. cbv beta iota. rewrite !bind_id3. intros H0. change (emb x, Lw + a, Lw' + b) with (r3 (x, a, b)).
  eapply for_up_rel; [|exact H0]. clear H0. intros i [[x1 a1] b1] s1 H. cbn [r3].
  rewrite <- !(Z.add_assoc Lx x_o), <- !(Z.add_assoc Lw' b1), <- !(Z.add_assoc Lw a1).
  eapply (body_s_rb r3); [|exact H]. apply k3_rb.
Qed.

(* the vector body: loads of `words` 32-bit words holding elts elements; the kernel returns registers as long as those it is given *)
Lemma pack16_len : forall n l, length l = (2 * n)%nat -> length (pack16 l) = n.
Proof. induction n as [|n IH]; intros [|a [|b r]] H; cbn [length] in H; try lia; cbn [pack16 length]; [reflexivity|]. f_equal. apply IH. lia. Qed.
Lemma unpack16_len : forall l, length (unpack16 l) = (2 * length l)%nat.
Proof. induction l as [|a r IH]; cbn [unpack16 length]; [reflexivity|]. rewrite IH. lia. Qed.

Section Vec.
Variables (bits : Z) (words : nat).
Hypothesis Hel : lanes_ok (elts bits words).
Hypothesis AgWv : forall j v, ldv bits words W j = Some v -> ldv bits words T (Lw + j) = Some v.
Hypothesis AgWv' : forall j v, ldv bits words W' j = Some v -> ldv bits words T' (Lw' + j) = Some v.
Variable vk : Z -> list Z -> list Z -> list Z -> list Z -> list Z * list Z.
Hypothesis Hvk : forall p a b c d, length a = words -> length b = words -> length c = words -> length d = words ->
  length (fst (vk p a b c d)) = words /\ length (snd (vk p a b c d)) = words.

Lemma ldv_rb x i v : ldv bits words x i = Some v -> ldv bits words (emb x) (Lx + i) = Some v.
Proof. unfold ldv. destruct (ldn (elts bits words) x i) eqn:E; [|discriminate]. rewrite (ldn_rb _ _ _ _ Hel E). auto. Qed.
Lemma ldv_len x i v : ldv bits words x i = Some v -> length v = words.
Proof.
  unfold ldv, ldn. destruct (okn (elts bits words) x i) eqn:E; [|discriminate]. intros H. injection H as <-. apply okn_parts in E. destruct E as (A & B & C).
  assert (L : length (firstn (elts bits words) (skipn (Z.to_nat i) x)) = elts bits words) by (rewrite firstn_length, skipn_length; lia).
  unfold enc, elts in *. destruct (bits =? 32); [exact L | apply pack16_len; exact L].
Qed.
Lemma dec_len reg : length reg = words -> length (dec bits reg) = elts bits words.
Proof. intros H. unfold dec, elts. destruct (bits =? 32); [exact H | rewrite unpack16_len, H; reflexivity]. Qed.
Lemma stv_rb x i reg x' : length reg = words -> stv bits x i reg = Some x' -> stv bits (emb x) (Lx + i) reg = Some (emb x').
Proof. intros Hr. unfold stv. apply stn_rb. rewrite (dec_len _ Hr). exact Hel. Qed.

Lemma body_v_rb {R} (extT : R -> R) p ia ib ic id (k k' : list Z -> option R) :
  (forall x r, k x = Some r -> k' (emb x) = Some (extT r)) -> forall x r, body_v bits words vk p W W' ia ib ic id k x = Some r ->
  body_v bits words vk p T T' (Lx + ia) (Lx + ib) (Lw' + ic) (Lw + id) k' (emb x) = Some (extT r).
Proof.
  intros Hk x r H. unfold body_v in *.
  destruct (ldv bits words x ia) as [a_|] eqn:E1; [|discriminate H]. rewrite (ldv_rb _ _ _ E1). cbn [bind] in H |- *.
  destruct (ldv bits words x ib) as [b_|] eqn:E2; [|discriminate H]. rewrite (ldv_rb _ _ _ E2). cbn [bind] in H |- *.
  destruct (ldv bits words W' ic) as [wi_|] eqn:E5; [|discriminate H]. rewrite (AgWv' _ _ E5). cbn [bind] in H |- *.
  destruct (ldv bits words W id) as [wt_|] eqn:E6; [|discriminate H]. rewrite (AgWv _ _ E6). cbn [bind] in H |- *.
  cbv zeta in H |- *.
  destruct (Hvk p a_ b_ wi_ wt_ (ldv_len _ _ _ E1) (ldv_len _ _ _ E2) (ldv_len _ _ _ E5) (ldv_len _ _ _ E6)) as [L1 L2].
  destruct (stv bits x ia _) as [x1|] eqn:E3; [|discriminate H]. rewrite (stv_rb _ _ _ _ L1 E3). cbn [bind] in H |- *.
  destruct (stv bits x1 ib _) as [x2|] eqn:E4; [|discriminate H]. rewrite (stv_rb _ _ _ _ L2 E4). cbn [bind] in H |- *. apply Hk. exact H.
Qed.
End Vec.

Lemma row_v_rb bits words step vk p x_o N r s s' : lanes_ok (elts bits words) ->
  (forall j v, ldv bits words W j = Some v -> ldv bits words T (Lw + j) = Some v) -> (forall j v, ldv bits words W' j = Some v -> ldv bits words T' (Lw' + j) = Some v) ->
  (forall p a b c d, length a = words -> length b = words -> length c = words -> length d = words -> length (fst (vk p a b c d)) = words /\ length (snd (vk p a b c d)) = words) ->
  row_v bits words step vk p W W' x_o N r s = Some s' -> row_v bits words step vk p T T' (Lx + x_o) N r (r3 s) = Some (r3 s').
Proof.
  intros Hel A1 A2 Hvk. destruct s as [[x a] b]. unfold row_v. cbn [r3]. cbv beta iota. rewrite !bind_id3. intros H0. change (emb x, Lw + a, Lw' + b) with (r3 (x, a, b)).
  eapply for_up_rel; [|exact H0]. clear H0. intros i [[x1 a1] b1] s1 H. cbn [r3].
  rewrite <- !(Z.add_assoc Lx x_o), <- !(Z.add_assoc Lw' b1), <- !(Z.add_assoc Lw a1).
  eapply (body_v_rb bits words Hel A1 A2 vk Hvk r3); [|exact H]. apply k3_rb.
Qed.
Ltac relfor ext E1 tac :=
  match goal with |- bind ?fu _ = _ => match type of E1 with _ = Some ?s0 =>
    let Ex := fresh "Ex" in assert (Ex : fu = Some (ext s0)); [eapply for_up_rel; [|exact E1]; tac | unfold St, St4 in Ex |- *; rewrite Ex; clear Ex] end end.

Lemma row_avx2_rb bits E vk8 vk4 p x_o N r s s' : lanes_ok (elts bits 8) -> lanes_ok (elts bits 4) ->
  (forall j v, ldv bits 8 W j = Some v -> ldv bits 8 T (Lw + j) = Some v) -> (forall j v, ldv bits 8 W' j = Some v -> ldv bits 8 T' (Lw' + j) = Some v) ->
  (forall j v, ldv bits 4 W j = Some v -> ldv bits 4 T (Lw + j) = Some v) -> (forall j v, ldv bits 4 W' j = Some v -> ldv bits 4 T' (Lw' + j) = Some v) ->
  (forall p a b c d, length a = 8%nat -> length b = 8%nat -> length c = 8%nat -> length d = 8%nat -> length (fst (vk8 p a b c d)) = 8%nat /\ length (snd (vk8 p a b c d)) = 8%nat) ->
  (forall p a b c d, length a = 4%nat -> length b = 4%nat -> length c = 4%nat -> length d = 4%nat -> length (fst (vk4 p a b c d)) = 4%nat /\ length (snd (vk4 p a b c d)) = 4%nat) ->
  row_avx2 bits E vk8 vk4 p W W' x_o N r s = Some s' -> row_avx2 bits E vk8 vk4 p T T' (Lx + x_o) N r (r3 s) = Some (r3 s').
Proof.
  intros He8 He4 A1 A2 A3 A4 Hv8 Hv4. destruct s as [[x a] b]. unfold row_avx2. cbn [r3]. cbv beta iota zeta. intros H.
  destruct (for_up 0 _ E _ (x, a, b)) as [s1|] eqn:E1; [|discriminate H].
  change (emb x, Lw + a, Lw' + b) with (r3 (x, a, b)).
  relfor r3 E1 ltac:(intros i [[x1 a1] b1] s2 H2; cbn [r3]; rewrite <- !(Z.add_assoc Lx x_o), <- !(Z.add_assoc Lw' b1), <- !(Z.add_assoc Lw a1);
      eapply (body_v_rb bits 8 He8 A1 A2 vk8 Hv8 r3); [|exact H2]; apply k3_rb).
  destruct s1 as [[x1 a1] b1]. cbn [bind r3] in H |- *. rewrite bind_id3 in H |- *.
  destruct (negb _); [|injection H as <-; reflexivity].
  rewrite <- !(Z.add_assoc Lx x_o), <- !(Z.add_assoc Lw' b1), <- !(Z.add_assoc Lw a1).
  eapply (body_v_rb bits 4 He4 A3 A4 vk4 Hv4 r3); [|exact H]. apply k3_rb.
Qed.

Ltac dfor' H E1 := match type of H with bind ?e _ = _ => destruct e as [?s1|] eqn:E1; [|discriminate H] end.

(* a row function of the original run and the row function of the rebased run *)
Definition ROWrb (RA RB : Z -> Z -> St -> option St) : Prop := forall N r s s', RA N r s = Some s' -> RB N r (r3 s) = Some (r3 s').

Lemma layer_sh_rb RA RB (HR : ROWrb RA RB) degree w s s' : layer_sh RA degree w s = Some s' -> layer_sh RB degree w (r3 s) = Some (r3 s').
Proof.
  destruct s as [[x a] b]. intros H. unfold layer_sh in *. cbn [r3]. cbv beta iota. destruct (shl_s 32 1 w); [|discriminate H]. cbn [bind] in H |- *. destruct (shr_u 64 degree w); [|discriminate H]. cbn [bind] in H |- *.
  cbv zeta in H |- *. dfor' H E1.
  change (emb x, Lw + a, Lw' + b) with (r3 (x, a, b)). relfor r3 E1 ltac:(intros i s2 s3; apply HR).
  destruct s1 as [[x1 a1] b1]. cbn [bind r3] in H |- *. injection H as <-. cbn [r3]. rewrite !Z.add_assoc. reflexivity.
Qed.

Definition r3z (s : St * Z) : St * Z := (r3 (fst s), snd s).
Lemma ret_sh_rb degree s r : ret_sh degree s = Some r -> ret_sh degree (r3 s) = Some (r3z r).
Proof. destruct s as [[x a] b]. unfold ret_sh. cbn [r3]. cbv beta iota. destruct (shl_s 32 1 _); [|discriminate]. cbn [bind]. intros H. injection H as <-. reflexivity. Qed.

Lemma run_serial_sh_rb sk degree x x_o wo wo' p r :
  run_serial_sh sk degree x x_o W wo W' wo' p = Some r -> run_serial_sh sk degree (emb x) (Lx + x_o) T (Lw + wo) T' (Lw' + wo') p = Some (r3z r).
Proof.
  unfold run_serial_sh. intros H. dfor' H E1.
  change (emb x, Lw + wo, Lw' + wo') with (r3 (x, wo, wo')).
  relfor r3 E1 ltac:(intros w s2 s3; apply layer_sh_rb; intros N r0 s4 s5; apply row_s2_rb). cbn [bind] in H |- *. apply ret_sh_rb. exact H.
Qed.
Lemma last_layer_sh_rb RA RB (HR : ROWrb RA RB) degree w s r : last_layer_sh RA degree w s = Some r -> last_layer_sh RB degree w (r3 s) = Some (r3z r).
Proof.
  destruct s as [[x a] b]. intros H. unfold last_layer_sh in *. cbn [r3]. cbv beta iota. destruct (shl_s 32 1 w); [|discriminate H]. cbn [bind] in H |- *. destruct (shr_u 64 degree w); [|discriminate H]. cbn [bind] in H |- *.
  cbv zeta in H |- *. dfor' H E1.
  change (emb x, Lw + a, Lw' + b) with (r3 (x, a, b)). relfor r3 E1 ltac:(intros i s2 s3; apply HR).
  destruct s1 as [[x1 a1] b1]. cbn [bind r3] in H |- *. destruct (shl_s 32 1 _); [|discriminate H]. cbn [bind] in H |- *. injection H as <-. unfold r3z. cbn [fst snd r3]. rewrite !Z.add_assoc. reflexivity.
Qed.
Lemma run_simd_sh_rb ROWV (HROWV : forall p x_o, ROWrb (ROWV p W W' x_o) (ROWV p T T' (Lx + x_o))) sk degree x x_o wo wo' p r :
  run_simd_sh ROWV sk degree x x_o W wo W' wo' p = Some r -> run_simd_sh ROWV sk degree (emb x) (Lx + x_o) T (Lw + wo) T' (Lw' + wo') p = Some (r3z r).
Proof.
  unfold run_simd_sh. intros H. dfor' H E1.
  change (emb x, Lw + wo, Lw' + wo') with (r3 (x, wo, wo')).
  relfor r3 E1 ltac:(intros w s2 s3; apply layer_sh_rb; apply HROWV). cbn [bind] in H |- *.
  destruct s1 as [[x1 a1] b1]. cbv zeta in H |- *. apply (last_layer_sh_rb _ _ (fun N r0 s4 s5 => row_s1_rb sk p x_o N r0 s4 s5) degree _ (x1, a1, b1)). exact H.
Qed.

Definition r4b (s : St4 * bool) : St4 * bool := (r4 (fst s), snd s).
Definition RUNrb (RUN : Z -> list Z -> Z -> list Z -> Z -> list Z -> Z -> Z -> option (St * Z)) : Prop :=
  forall degree x x_o wo wo' p r, RUN degree x x_o W wo W' wo' p = Some r -> RUN degree (emb x) (Lx + x_o) T (Lw + wo) T' (Lw' + wo') p = Some (r3z r).

Ltac stq H :=
  match type of H with
  | bind (ld W' ?i) _ = Some _ => let E := fresh "E" in destruct (ld W' i) eqn:E; [|discriminate H]; rewrite ?Z.add_assoc; rewrite <- ?(Z.add_assoc Lw'); rewrite (AgW' _ _ E); cbn [bind] in H |- *
  | bind (ld W ?i) _ = Some _ => let E := fresh "E" in destruct (ld W i) eqn:E; [|discriminate H]; rewrite <- ?(Z.add_assoc Lw); rewrite (AgW _ _ E); cbn [bind] in H |- *
  | bind (ld ?x ?i) _ = Some _ => let E := fresh "E" in destruct (ld x i) eqn:E; [|discriminate H]; rewrite <- ?(Z.add_assoc Lx); rewrite (ld_rb _ _ _ E); cbn [bind] in H |- *
  | bind (st ?x ?i ?v) _ = Some _ => let E := fresh "E" in destruct (st x i v) eqn:E; [|discriminate H]; rewrite <- ?(Z.add_assoc Lx); rewrite (st_rb _ _ _ _ E); cbn [bind] in H |- *
  | bind ?e _ = Some _ => let E := fresh "E" in destruct e eqn:E; [|discriminate H]; cbn [bind] in H |- *
  end.

Lemma ntt_sh_rb RUN deg2k fusedk strictk (HRUN : RUNrb RUN) degree x x_o wo wo' p r :
  ntt_sh RUN deg2k fusedk strictk degree x x_o W wo W' wo' p = Some r -> ntt_sh RUN deg2k fusedk strictk degree (emb x) (Lx + x_o) T (Lw + wo) T' (Lw' + wo') p = Some (r4b r).
Proof.
  unfold ntt_sh. cbv zeta. destruct (degree =? 1); [intros H; injection H as <-; reflexivity|].
  destruct (degree =? 2).
  - intros H. stq H. stq H. stq H. destruct p0 as [o0 o1]. stq H. stq H. injection H as <-. reflexivity.
  - intros H. destruct (RUN degree x x_o W wo W' wo' p) as [r1|] eqn:E1; [|discriminate H]. rewrite (HRUN _ _ _ _ _ _ _ E1).
    destruct r1 as [[[x1 a1] b1] ret]. cbn [bind r3z r3 fst snd] in H |- *.
    dfor' H E2.
    change (emb x1, Lx + x_o, Lw + a1, Lw' + b1) with (r4 (x1, x_o, a1, b1)).
    relfor r4 E2 ltac:(clear H E1 E2; intros i [[[y yo] wa] wb] s' H; cbn [r4];
        stq H; stq H; stq H; stq H; stq H; stq H; stq H; destruct p0 as [[[o0 o1] o2] o3]; stq H; stq H; stq H; stq H; injection H as <-; cbn [r4]; rewrite !Z.add_assoc; reflexivity).
    destruct s1 as [[[x2 xo2] a2] b2]. cbn [bind r4] in H |- *.
    dfor' H E3.
    change (emb x2, Lx + xo2, Lw + a2, Lw' + b2) with (r4 (x2, xo2, a2, b2)).
    relfor r4 E3 ltac:(clear H E1 E3; intros i [[[y yo] wa] wb] s' H; cbn [r4]; stq H; stq H; stq H; injection H as <-; reflexivity).
    destruct s1 as [[[x3 xo3] a3] b3]. cbn [bind r4] in H |- *. injection H as <-. reflexivity.
Qed.
End Rebase.
