(* C04 — CRT lift returns the unique representative and is inverse to reduction.  Statements only (CRT.v, CRTExec.v). *)
From Coq Require Import ZArith Znumtheory List.
From NTT Require Import CRT CRTExec CRTClosed CRTRing CRTRingClosed.
From NTT.gen Require Import Params.
Import ListNotations.
From NTT Require GmpSpec GenGmpEq.
From NTT Require Setters SetterSpec SetMpzSpec.
From NTT.gen Require GenLoop.
From NTT.gen Require GenGmp.
Local Open Scope Z_scope.

(* poly2mpz on one coefficient (lifting integers, accumulation, Shoup-style reduction with ONE conditional subtraction):
   the result is in [0,Q) and congruent to every stored residue, for any number of moduli *)
Theorem C04_lift : forall w ps, 0 <= w -> ps <> [] -> (forall i, (i < length ps)%nat -> 1 < nth i ps 1 < 2 ^ w) ->
  forall invs, all_some (modinvs ps) = Some invs ->
  forall rs, length rs = length ps -> (forall i, (i < length ps)%nat -> 0 <= nth i rs 0 < nth i ps 1) ->
  exists x, poly2mpz_coef w ps rs = Some x /\ 0 <= x < prod ps /\ forall j, (j < length ps)%nat -> x mod nth j ps 1 = nth j rs 0.
Proof. exact poly2mpz_correct. Qed.
Print Assumptions C04_lift.

(* uniqueness of that representative (pairwise coprime moduli) *)
Theorem C04_unique : forall ps x y, (forall i, (i < length ps)%nat -> 1 < nth i ps 1) ->
  (forall i j, (i < length ps)%nat -> (j < length ps)%nat -> i <> j -> rel_prime (nth i ps 1) (nth j ps 1)) ->
  0 <= x < prod ps -> 0 <= y < prod ps -> (forall i, (i < length ps)%nat -> x mod nth i ps 1 = y mod nth i ps 1) -> x = y.
Proof. exact crt_unique. Qed.
Print Assumptions C04_unique.

(* integers of any magnitude and sign: mpz2poly stores floor residues; lifting them back gives v mod Q *)
Theorem C04_reduce_then_lift : forall w ps, 0 <= w -> ps <> [] -> (forall i, (i < length ps)%nat -> 1 < nth i ps 1 < 2 ^ w) ->
  (forall i j, (i < length ps)%nat -> (j < length ps)%nat -> i <> j -> rel_prime (nth i ps 1) (nth j ps 1)) ->
  forall invs, all_some (modinvs ps) = Some invs -> forall v, poly2mpz_coef w ps (mpz2poly_coef ps v) = Some (v mod prod ps).
Proof. exact poly2mpz_mpz2poly. Qed.
Print Assumptions C04_reduce_then_lift.

Theorem C04_lift_then_reduce : forall w ps, 0 <= w -> ps <> [] -> (forall i, (i < length ps)%nat -> 1 < nth i ps 1 < 2 ^ w) ->
  forall invs, all_some (modinvs ps) = Some invs ->
  forall rs x, length rs = length ps -> (forall i, (i < length ps)%nat -> 0 <= nth i rs 0 < nth i ps 1) ->
  poly2mpz_coef w ps rs = Some x -> mpz2poly_coef ps x = rs.
Proof. exact mpz2poly_poly2mpz. Qed.
Print Assumptions C04_lift_then_reduce.

(* the reduction step alone *)
Theorem C04_reduceQ : forall Q s x, 0 < Q -> 0 <= s -> 0 <= x < 2 ^ s -> reduceQ Q s x = x mod Q.
Proof. exact reduceQ_spec. Qed.
Print Assumptions C04_reduceQ.

Example C04_nonvacuous : poly2mpz_coef 32 [1073479681; 1072496641; 1071513601] [1073479680; 0; 5] <> None.
Proof. exact crt_example. Qed.

(* without the side condition: pairwise coprime moduli below 2^w (the extended-Euclid fuel is adequate, so every inverse is found) *)
Theorem C04_lift_total : forall w ps, 0 <= w -> ps <> [] -> (forall i, (i < length ps)%nat -> 1 < nth i ps 1 < 2 ^ w) ->
  (forall a b, (a < length ps)%nat -> (b < length ps)%nat -> a <> b -> rel_prime (nth a ps 1) (nth b ps 1)) ->
  forall rs, length rs = length ps -> (forall i, (i < length ps)%nat -> 0 <= nth i rs 0 < nth i ps 1) ->
  exists x, poly2mpz_coef w ps rs = Some x /\ 0 <= x < prod ps /\ forall j, (j < length ps)%nat -> x mod nth j ps 1 = nth j rs 0.
Proof. exact poly2mpz_total. Qed.
Print Assumptions C04_lift_total.

(* closed over the tables generated on this run: every non-empty prefix of every table (= every instantiable number of moduli) *)
Theorem C04_lift_all_tables :
  forall (wb : Z * Z * list (Z * Z * Z * Z)), In wb [(w16, bits16, rows16); (w32, bits32, rows32); (w64, bits64, rows64)] ->
  let '(w, bits, rows) := wb in
  forall m, basis m rows <> [] ->
  forall rs, length rs = length (basis m rows) -> (forall i, (i < length (basis m rows))%nat -> 0 <= nth i rs 0 < nth i (basis m rows) 1) ->
  exists x, poly2mpz_coef w (basis m rows) rs = Some x /\ 0 <= x < prod (basis m rows) /\
            forall j, (j < length (basis m rows))%nat -> x mod nth j (basis m rows) 1 = nth j rs 0.
Proof. exact lift_tables. Qed.
Print Assumptions C04_lift_all_tables.

(* ring isomorphism: residue-wise +, -, * (any congruence-respecting operation) and the negacyclic product of whole polynomials, lifted
   coefficient by coefficient, equal the same operation on the lifted big integers modulo Q -- for every generated table and every
   number of moduli in use.  (ring_ok is the conjunction of the two statements; open forms: CRTRing.crt_ring_op, crt_negacyclic) *)
Theorem C04_ring_isomorphism_all_tables :
  forall (wb : Z * Z * list (Z * Z * Z * Z)), In wb [(w16, bits16, rows16); (w32, bits32, rows32); (w64, bits64, rows64)] ->
  let '(w, bits, rows) := wb in forall m, basis m rows <> [] -> CRTRingClosed.ring_ok w (basis m rows).
Proof. exact CRTRingClosed.ring_tables. Qed.
Print Assumptions C04_ring_isomorphism_all_tables.
Theorem C04_ring_op_open : forall w, 0 <= w -> forall ps, ps <> [] -> (forall i, (i < length ps)%nat -> 1 < nth i ps 1 < 2 ^ w) ->
  (forall i j, (i < length ps)%nat -> (j < length ps)%nat -> i <> j -> rel_prime (nth i ps 1) (nth j ps 1)) ->
  forall f ra rb xa xb, CRTRing.compat f -> CRTRing.canon ps ra -> CRTRing.canon ps rb -> poly2mpz_coef w ps ra = Some xa -> poly2mpz_coef w ps rb = Some xb ->
  poly2mpz_coef w ps (CRTRing.rns_op ps f ra rb) = Some (f xa xb mod prod ps).
Proof. exact CRTRing.crt_ring_op. Qed.
Print Assumptions C04_ring_op_open.
Theorem C04_compat_add_sub_mul : CRTRing.compat Z.add /\ CRTRing.compat Z.sub /\ CRTRing.compat Z.mul.
Proof. exact (conj CRTRing.compat_add (conj CRTRing.compat_sub CRTRing.compat_mul)). Qed.
Print Assumptions C04_compat_add_sub_mul.

(* THE BIG-INTEGER FUNCTIONS OF THE SOURCE (include/nfl/gmp.hpp: GMP::GMP(), GMP::poly2mpz, GMP::mpz2poly), translated by tools/cxxgmp2coq.py
   on every run into gen/GenGmp.v -- an mpz_t is an integer, every GMP call has the meaning GmpSem.v gives it (the GMP manual's), arrays
   are bounds-checked lists, size_t arithmetic wraps -- for any degree n and any number m of moduli:
   the translated constructor computes the product Q of the moduli, the shift s, the Shoup value floor(2^s / Q) and the lifting integers
   of the model; the translated poly2mpz, run on what the constructor left, returns for every coefficient exactly CRTExec.poly2mpz_coef of
   its column of residues -- the function C04_lift / C04_unique / C04_ring_isomorphism are about; the translated mpz2poly stores
   CRTExec.mpz2poly_coef.  (That the inverses exist for the tabulated moduli is C04_lift_all_tables.) *)
Theorem C04_source_lift : GenGmpEq.lift_statement 16 GenGmp.gen_gmp_ctor_u16 GenGmp.gen_poly2mpz_u16 /\
  GenGmpEq.lift_statement 32 GenGmp.gen_gmp_ctor_u32 GenGmp.gen_poly2mpz_u32 /\ GenGmpEq.lift_statement 64 GenGmp.gen_gmp_ctor_u64 GenGmp.gen_poly2mpz_u64.
Proof. exact (conj GenGmpEq.source_lift_u16 (conj GenGmpEq.source_lift_u32 GenGmpEq.source_lift_u64)). Qed.
Print Assumptions C04_source_lift.
Theorem C04_source_lift_statement : forall w ctor p2m, GenGmpEq.lift_statement w ctor p2m <->
  (forall (n m : nat) (P L0 op rop0 invs : list Z), (m <= length P)%nat -> length L0 = m ->
    (forall i, (i < m)%nat -> 1 < nth i (firstn m P) 1) -> shiftQ w (firstn m P) < 2 ^ 62 -> all_some (modinvs (firstn m P)) = Some invs ->
    length op = (m * n)%nat -> Forall (fun x => 0 <= x) op -> length rop0 = n -> Z.of_nat (m * n) < 2 ^ 61 -> Z.of_nat n < 2 ^ 61 -> Z.of_nat m < 2 ^ 61 ->
    forall a b c d e : Z, exists (bits b2 q cur t : Z) (res : list Z),
      let psl := firstn m P in let Q := prod psl in let s := shiftQ w psl in let Ls := map (GmpSpec.Fl m P invs) (seq 0 m) in
      ctor (Z.of_nat m) P a b c d e L0 = Some (Q, bits, s, 2 ^ s / Q, b2, q, cur, Ls) /\
      p2m (Z.of_nat n) (Z.of_nat m) s b2 rop0 op Ls (2 ^ s / Q) Q = Some (t, res) /\ length res = n /\
      forall i, (i < n)%nat -> poly2mpz_coef w psl (GmpSpec.col n m op i) = Some (nth i res 0)).
Proof. intros w ctor p2m. unfold GenGmpEq.lift_statement. split; intros H; exact H. Qed.
Print Assumptions C04_source_lift_statement.
Theorem C04_source_mpz2poly : GenGmpEq.m2p_statement 16 GenGmp.gen_mpz2poly_u16 /\ GenGmpEq.m2p_statement 32 GenGmp.gen_mpz2poly_u32 /\
  GenGmpEq.m2p_statement 64 GenGmp.gen_mpz2poly_u64.
Proof. exact (conj GenGmpEq.source_mpz2poly_u16 (conj GenGmpEq.source_mpz2poly_u32 GenGmpEq.source_mpz2poly_u64)). Qed.
Print Assumptions C04_source_mpz2poly.
Theorem C04_source_mpz2poly_statement : forall bits m2p, GenGmpEq.m2p_statement bits m2p <->
  (forall (n nm : nat) (P vals data0 : list Z), length data0 = (nm * n)%nat -> length vals = n -> Z.of_nat (nm * n) < 2 ^ 61 ->
    (0 < n)%nat -> Z.of_nat n < 2 ^ 61 -> (nm <= length P)%nat -> Forall (fun p => 0 < p < 2 ^ bits) (firstn nm P) ->
    exists res, m2p (Z.of_nat n) (Z.of_nat nm) P data0 vals = Some res /\ length res = (nm * n)%nat /\
    forall cm i, (cm < nm)%nat -> (i < n)%nat -> nth (cm * n + i) res 0 = nth cm (mpz2poly_coef (firstn nm P) (nth i vals 0)) 0).
Proof. intros bits m2p. unfold GenGmpEq.m2p_statement. split; intros H; exact H. Qed.
Print Assumptions C04_source_mpz2poly_statement.

(* set_mpz(It, It) OF THE SOURCE (gmp.hpp, the routine behind every big-integer setter and constructor; translated on every run into
   gen/GenLoop.v): integers of any magnitude or sign are stored as their non-negative residues (Setters.set_list with the reduction on,
   whose reduction is `v mod p`, C15_red) -- the second way into a polynomial besides GMP::mpz2poly (C04_source_mpz2poly). *)
Theorem C04_source_set_mpz : forall n nm P vals data0 f l fuel, (f <= l <= length vals)%nat -> length data0 = (nm * n)%nat ->
  Z.of_nat (nm * n) < 2 ^ 61 -> Z.of_nat n < 2 ^ 61 -> Z.of_nat nm < 2 ^ 61 -> Z.of_nat (length vals) < 2 ^ 61 -> (n < fuel)%nat -> (nm <= length P)%nat ->
  let out := Setters.set_list n nm (fun cm => List.nth cm P 0) true (List.firstn (l - f) (List.skipn f vals)) data0 in
  let res := option_map (fun s : SetterSpec.SS => fst (fst s)) in
  (List.Forall (fun p => 0 < p < 2 ^ 16) (List.firstn nm P) -> res (GenLoop.gen_set_mpz_u16 fuel (Z.of_nat n) data0 vals (Z.of_nat f) (Z.of_nat l) (Z.of_nat nm) P) = out) /\
  (List.Forall (fun p => 0 < p < 2 ^ 32) (List.firstn nm P) -> res (GenLoop.gen_set_mpz_u32 fuel (Z.of_nat n) data0 vals (Z.of_nat f) (Z.of_nat l) (Z.of_nat nm) P) = out) /\
  (List.Forall (fun p => 0 < p < 2 ^ 64) (List.firstn nm P) -> res (GenLoop.gen_set_mpz_u64 fuel (Z.of_nat n) data0 vals (Z.of_nat f) (Z.of_nat l) (Z.of_nat nm) P) = out).
Proof.
  exact (fun n nm P vals data0 f l fuel Hfl Hd Hs Hn Hnm Hl Hfu HPl =>
    conj (SetMpzSpec.source_set_mpz_u16 n nm P vals data0 f l fuel Hfl Hd Hs Hn Hnm Hl Hfu HPl)
   (conj (SetMpzSpec.source_set_mpz_u32 n nm P vals data0 f l fuel Hfl Hd Hs Hn Hnm Hl Hfu HPl)
         (SetMpzSpec.source_set_mpz_u64 n nm P vals data0 f l fuel Hfl Hd Hs Hn Hnm Hl Hfu HPl))).
Qed.
Print Assumptions C04_source_set_mpz.
