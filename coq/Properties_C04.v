(* C04 — CRT lift returns the unique representative and is inverse to reduction.  Statements only (CRT.v, CRTExec.v). *)
From Coq Require Import ZArith Znumtheory List.
From NTT Require Import CRT CRTExec CRTClosed CRTRing CRTRingClosed.
From NTT.gen Require Import Params.
Import ListNotations.
Local Open Scope Z_scope.

(* poly2mpz on one coefficient (lifting integers, accumulation, Shoup-style reduction with ONE conditional subtraction):
   the result is in [0,Q) and congruent to every stored residue, for any number of moduli *)
Theorem C04_lift : forall w ps, 0 <= w -> ps <> [] -> (forall i, (i < length ps)%nat -> 1 < nth i ps 1 < 2 ^ w) ->
  forall invs, all_some (modinvs ps) = Some invs ->
  forall rs, length rs = length ps -> (forall i, (i < length ps)%nat -> 0 <= nth i rs 0 < nth i ps 1) ->
  exists x, poly2mpz_coef w ps rs = Some x /\ 0 <= x < prod ps /\ forall j, (j < length ps)%nat -> x mod nth j ps 1 = nth j rs 0.
Proof. exact poly2mpz_correct. Qed.
Print Assumptions C04_lift.

(* uniqueness of that representative (pairwise coprime moduli) *)
Theorem C04_unique : forall ps x y, (forall i, (i < length ps)%nat -> 1 < nth i ps 1) ->
  (forall i j, (i < length ps)%nat -> (j < length ps)%nat -> i <> j -> rel_prime (nth i ps 1) (nth j ps 1)) ->
  0 <= x < prod ps -> 0 <= y < prod ps -> (forall i, (i < length ps)%nat -> x mod nth i ps 1 = y mod nth i ps 1) -> x = y.
Proof. exact crt_unique. Qed.
Print Assumptions C04_unique.

(* integers of any magnitude and sign: mpz2poly stores floor residues; lifting them back gives v mod Q *)
Theorem C04_reduce_then_lift : forall w ps, 0 <= w -> ps <> [] -> (forall i, (i < length ps)%nat -> 1 < nth i ps 1 < 2 ^ w) ->
  (forall i j, (i < length ps)%nat -> (j < length ps)%nat -> i <> j -> rel_prime (nth i ps 1) (nth j ps 1)) ->
  forall invs, all_some (modinvs ps) = Some invs -> forall v, poly2mpz_coef w ps (mpz2poly_coef ps v) = Some (v mod prod ps).
Proof. exact poly2mpz_mpz2poly. Qed.
Print Assumptions C04_reduce_then_lift.

Theorem C04_lift_then_reduce : forall w ps, 0 <= w -> ps <> [] -> (forall i, (i < length ps)%nat -> 1 < nth i ps 1 < 2 ^ w) ->
  forall invs, all_some (modinvs ps) = Some invs ->
  forall rs x, length rs = length ps -> (forall i, (i < length ps)%nat -> 0 <= nth i rs 0 < nth i ps 1) ->
  poly2mpz_coef w ps rs = Some x -> mpz2poly_coef ps x = rs.
Proof. exact mpz2poly_poly2mpz. Qed.
Print Assumptions C04_lift_then_reduce.

(* the reduction step alone *)
Theorem C04_reduceQ : forall Q s x, 0 < Q -> 0 <= s -> 0 <= x < 2 ^ s -> reduceQ Q s x = x mod Q.
Proof. exact reduceQ_spec. Qed.
Print Assumptions C04_reduceQ.

Example C04_nonvacuous : poly2mpz_coef 32 [1073479681; 1072496641; 1071513601] [1073479680; 0; 5] <> None.
Proof. exact crt_example. Qed.

(* without the side condition: pairwise coprime moduli below 2^w (the extended-Euclid fuel is adequate, so every inverse is found) *)
Theorem C04_lift_total : forall w ps, 0 <= w -> ps <> [] -> (forall i, (i < length ps)%nat -> 1 < nth i ps 1 < 2 ^ w) ->
  (forall a b, (a < length ps)%nat -> (b < length ps)%nat -> a <> b -> rel_prime (nth a ps 1) (nth b ps 1)) ->
  forall rs, length rs = length ps -> (forall i, (i < length ps)%nat -> 0 <= nth i rs 0 < nth i ps 1) ->
  exists x, poly2mpz_coef w ps rs = Some x /\ 0 <= x < prod ps /\ forall j, (j < length ps)%nat -> x mod nth j ps 1 = nth j rs 0.
Proof. exact poly2mpz_total. Qed.
Print Assumptions C04_lift_total.

(* closed over the tables generated on this run: every non-empty prefix of every table (= every instantiable number of moduli) *)
Theorem C04_lift_all_tables :
  forall (wb : Z * Z * list (Z * Z * Z * Z)), In wb [(w16, bits16, rows16); (w32, bits32, rows32); (w64, bits64, rows64)] ->
  let '(w, bits, rows) := wb in
  forall m, basis m rows <> [] ->
  forall rs, length rs = length (basis m rows) -> (forall i, (i < length (basis m rows))%nat -> 0 <= nth i rs 0 < nth i (basis m rows) 1) ->
  exists x, poly2mpz_coef w (basis m rows) rs = Some x /\ 0 <= x < prod (basis m rows) /\
            forall j, (j < length (basis m rows))%nat -> x mod nth j (basis m rows) 1 = nth j rs 0.
Proof. exact lift_tables. Qed.
Print Assumptions C04_lift_all_tables.

(* ring isomorphism: residue-wise +, -, * (any congruence-respecting operation) and the negacyclic product of whole polynomials, lifted
   coefficient by coefficient, equal the same operation on the lifted big integers modulo Q -- for every generated table and every
   number of moduli in use.  (ring_ok is the conjunction of the two statements; open forms: CRTRing.crt_ring_op, crt_negacyclic) *)
Theorem C04_ring_isomorphism_all_tables :
  forall (wb : Z * Z * list (Z * Z * Z * Z)), In wb [(w16, bits16, rows16); (w32, bits32, rows32); (w64, bits64, rows64)] ->
  let '(w, bits, rows) := wb in forall m, basis m rows <> [] -> CRTRingClosed.ring_ok w (basis m rows).
Proof. exact CRTRingClosed.ring_tables. Qed.
Print Assumptions C04_ring_isomorphism_all_tables.
Theorem C04_ring_op_open : forall w, 0 <= w -> forall ps, ps <> [] -> (forall i, (i < length ps)%nat -> 1 < nth i ps 1 < 2 ^ w) ->
  (forall i j, (i < length ps)%nat -> (j < length ps)%nat -> i <> j -> rel_prime (nth i ps 1) (nth j ps 1)) ->
  forall f ra rb xa xb, CRTRing.compat f -> CRTRing.canon ps ra -> CRTRing.canon ps rb -> poly2mpz_coef w ps ra = Some xa -> poly2mpz_coef w ps rb = Some xb ->
  poly2mpz_coef w ps (CRTRing.rns_op ps f ra rb) = Some (f xa xb mod prod ps).
Proof. exact CRTRing.crt_ring_op. Qed.
Print Assumptions C04_ring_op_open.
Theorem C04_compat_add_sub_mul : CRTRing.compat Z.add /\ CRTRing.compat Z.sub /\ CRTRing.compat Z.mul.
Proof. exact (conj CRTRing.compat_add (conj CRTRing.compat_sub CRTRing.compat_mul)). Qed.
Print Assumptions C04_compat_add_sub_mul.
