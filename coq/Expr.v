From Coq Require Import ZArith Lia List Arith Bool.
Import ListNotations.
Local Open Scope Z_scope.

(* C07: assigning an expression tree to a destination that may alias its operands; C08: conversion to bool *)
Section Expr.
Variable nops : nat.
Variable fop : nat -> Z -> Z -> Z.                (* the exact element-wise meaning of binary functor number o *)
Variable fshoup3 : Z -> Z -> Z -> Z.              (* shoup(mul(a,b),b') rewritten to the 3-operand node *)
Variable fcshoup : Z -> Z.                        (* compute_shoup *)

Inductive tree := Leaf (h : nat) | Bin (o : nat) (a b : tree) | Shoup3 (a b b' : tree) | CShoup (a : tree).
Definition heap := nat -> nat -> Z.               (* handle -> index -> word  (one modulus slice) *)

Fixpoint ev (h : heap) (t : tree) (i : nat) : Z :=
  match t with
  | Leaf x => h x i
  | Bin o a b => fop o (ev h a i) (ev h b i)
  | Shoup3 a b b' => fshoup3 (ev h a i) (ev h b i) (ev h b' i)
  | CShoup a => fcshoup (ev h a i)
  end.

(* load<M>(cm, j) evaluates lanes j .. j+L-1 from the current heap, then store() writes them to dst *)
Definition store_block (dst : nat) (t : tree) (L j : nat) (h : heap) : heap :=
  fun x i => if (x =? dst)%nat && (j <=? i)%nat && (i <? j + L)%nat then ev h t i else h x i.
Fixpoint assign_from (dst : nat) (t : tree) (L : nat) (j m : nat) (h : heap) : heap :=   (* m blocks starting at index j *)
  match m with O => h | S m' => assign_from dst t L (j + L) m' (store_block dst t L j h) end.
Definition assign (dst : nat) (t : tree) (L m : nat) (h : heap) : heap := assign_from dst t L 0 m h.

(* an element of the result depends only on the same-index elements of the operands *)
Lemma ev_local h h' t i : (forall x, h x i = h' x i) -> ev h t i = ev h' t i.
Proof. intros E. induction t; simpl; congruence. Qed.

Lemma assign_from_spec dst t L : forall m j h0 h,
  (forall x i, (x <> dst \/ (j <= i)%nat) -> h x i = h0 x i) ->
  (forall i, (i < j)%nat -> h dst i = ev h0 t i) ->
  let h' := assign_from dst t L j m h in
  (forall x i, (x <> dst \/ (j + m * L <= i)%nat) -> h' x i = h0 x i) /\
  (forall i, (i < j + m * L)%nat -> h' dst i = ev h0 t i).
Proof.
  induction m as [|m IH]; intros j h0 h Hun Hdone; cbn [assign_from].
  - simpl. rewrite Nat.add_0_r. split; auto.
  - specialize (IH (j + L)%nat h0 (store_block dst t L j h)).
    replace (j + S m * L)%nat with (j + L + m * L)%nat by lia. apply IH.
    + intros x i Hc. unfold store_block.
      destruct ((x =? dst)%nat && (j <=? i)%nat && (i <? j + L)%nat) eqn:C.
      * apply andb_true_iff in C. destruct C as [C C3]. apply andb_true_iff in C. destruct C as [C1 C2].
        apply Nat.eqb_eq in C1. apply Nat.ltb_lt in C3. destruct Hc; [congruence | lia].
      * apply Hun. destruct Hc; [now left | right; lia].
    + intros i Hi. unfold store_block. rewrite Nat.eqb_refl. cbn [andb].
      destruct ((j <=? i)%nat && (i <? j + L)%nat) eqn:C.
      * apply andb_true_iff in C. destruct C as [C2 C3]. apply Nat.leb_le in C2.
        apply ev_local. intros x. apply Hun. right. exact C2.
      * apply Hdone. apply andb_false_iff in C. destruct C as [C|C]; [apply Nat.leb_gt in C | apply Nat.ltb_ge in C]; lia.
Qed.

(* C07: whatever the aliasing between destination and operands and whatever the vector width, the
   destination receives the element-wise value of the tree on the ORIGINAL operands; nothing else changes *)
Theorem assign_correct dst t L m h0 :
  let h' := assign dst t L m h0 in
  (forall i, (i < m * L)%nat -> h' dst i = ev h0 t i) /\
  (forall x i, x <> dst \/ (m * L <= i)%nat -> h' x i = h0 x i).
Proof.
  pose proof (assign_from_spec dst t L m 0 h0 h0 ltac:(auto) ltac:(intros; lia)) as [A B].
  cbv zeta. unfold assign. split; [intros i Hi; apply B; simpl; lia | intros x i Hc; apply A; simpl; tauto].
Qed.
Corollary width_irrelevant dst t L1 m1 L2 m2 h0 i : (m1 * L1 = m2 * L2)%nat -> (i < m1 * L1)%nat ->
  assign dst t L1 m1 h0 dst i = assign dst t L2 m2 h0 dst i.
Proof. intros E Hi. destruct (assign_correct dst t L1 m1 h0) as [A _]. destruct (assign_correct dst t L2 m2 h0) as [B _].
  rewrite A, B; auto; lia. Qed.

(* C08: conversion of an expression to bool scans all n elements: "any non-zero" (generic) / "all non-zero" (eq after the fix) *)
Definition any_nz (h : heap) (t : tree) (n : nat) : bool := existsb (fun i => negb (ev h t i =? 0)) (seq 0 n).
Definition all_nz (h : heap) (t : tree) (n : nat) : bool := forallb (fun i => negb (ev h t i =? 0)) (seq 0 n).
Variable oeq oneq : nat.
Hypothesis feq : forall x y, fop oeq x y = if x =? y then 1 else 0.
Hypothesis fneq : forall x y, fop oneq x y = if x =? y then 0 else 1.

Theorem neq_spec h a b n : any_nz h (Bin oneq (Leaf a) (Leaf b)) n = true <-> exists i, (i < n)%nat /\ h a i <> h b i.
Proof. unfold any_nz. rewrite existsb_exists. split.
  - intros [i [Hi E]]. apply in_seq in Hi. exists i. split; [lia|]. simpl in E. rewrite fneq in E. destruct (Z.eqb_spec (h a i) (h b i)); [discriminate | auto].
  - intros [i [Hi N]]. exists i. split; [apply in_seq; lia|]. simpl. rewrite fneq. destruct (Z.eqb_spec (h a i) (h b i)); [contradiction | reflexivity].
Qed.
Theorem eq_spec h a b n : all_nz h (Bin oeq (Leaf a) (Leaf b)) n = true <-> forall i, (i < n)%nat -> h a i = h b i.
Proof. unfold all_nz. rewrite forallb_forall. split.
  - intros H i Hi. specialize (H i ltac:(apply in_seq; lia)). simpl in H. rewrite feq in H. destruct (Z.eqb_spec (h a i) (h b i)); [auto | discriminate].
  - intros H i Hi. apply in_seq in Hi. simpl. rewrite feq, (H i) by lia. now rewrite Z.eqb_refl.
Qed.
Corollary eq_neq_complementary h a b n : all_nz h (Bin oeq (Leaf a) (Leaf b)) n = negb (any_nz h (Bin oneq (Leaf a) (Leaf b)) n).
Proof.
  pose proof (eq_spec h a b n) as [E1 E2]. pose proof (neq_spec h a b n) as [N1 N2].
  destruct (all_nz h (Bin oeq (Leaf a) (Leaf b)) n) eqn:A; destruct (any_nz h (Bin oneq (Leaf a) (Leaf b)) n) eqn:B; auto.
  - destruct (N1 eq_refl) as [i [Hi N]]. now specialize (E1 eq_refl i Hi).
  - exfalso. assert (Hall : forall i, (i < n)%nat -> h a i = h b i).
    { intros i Hi. destruct (Z.eq_dec (h a i) (h b i)); auto. assert (true = false) by (rewrite <- N2; eauto). discriminate. }
    specialize (E2 Hall). discriminate.
Qed.
(* the pinned tree converts `a == b` with any_nz: true as soon as one element matches *)
Theorem pinned_eq_refuted h a b : h a 0%nat = h b 0%nat -> h a 1%nat <> h b 1%nat ->
  any_nz h (Bin oeq (Leaf a) (Leaf b)) 2 = true /\ ~ (forall i, (i < 2)%nat -> h a i = h b i).
Proof. intros E N. split; [|intros H; apply N, H; lia]. unfold any_nz. simpl. rewrite !feq, E, Z.eqb_refl. reflexivity. Qed.
End Expr.
Print Assumptions assign_correct.
Print Assumptions eq_neq_complementary.
