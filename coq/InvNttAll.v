(* core::inv_ntt of the source, every build and limb type, unconditionally: the translated function (bit-reversal copy of x into the
   (degree+1)-word scratch array, core::ntt there, bit-reversal copy back) returns  BR (ntt_core (BR x))  -- Structural.ntt_core being what
   C05_source_loops_all_builds shows the translated core::ntt computes, and Frame.v showing it leaves the extra word of the scratch array alone. *)
From Coq Require Import ZArith List Lia Bool Arith.
From NTT Require Import Algebra Rev Layer Transform Structural Tables FlatTable Inverse Permut CxxSem MemSem LoopSpec LoopRun LoopInst GenLoopEq GenLoopSimd PermSem PermSrc InvNttSrc Frame.
From NTT.gen Require Import GenPerm GenLoop.
Import ListNotations.
Local Open Scope Z_scope.

Lemma run_layers_length w p k tws : forall j lvl x, (lvl + j <= k)%nat -> length x = (2 ^ k)%nat -> length (run_layers w p k tws lvl j x) = (2 ^ k)%nat.
Proof.
  induction j as [|j IH]; intros lvl x Hl Hx; cbn [run_layers]; [exact Hx|]. apply IH; [lia|].
  rewrite blocks_length; rewrite (LoopRun.pow2_split k lvl) by lia; [reflexivity | exact Hx].
Qed.
Lemma ntt_core_length w p k tws x : 0 < w -> (2 <= k)%nat -> length x = (2 ^ k)%nat -> length (ntt_core w p k tws x) = (2 ^ k)%nat.
Proof.
  intros Hw Hk Hx. unfold ntt_core. destruct k as [|[|k2]]; try lia. cbn [ntt_core_at]. unfold strict. rewrite map_length.
  assert (E : (2 ^ S (S k2) = 4 * 2 ^ k2)%nat) by (rewrite !Nat.pow_succ_r'; lia).
  set (kk := S (S k2)) in *. rewrite (fused_pass_length w Hw); [symmetry; exact E|]. rewrite <- E. apply run_layers_length; [unfold kk; lia | exact Hx].
Qed.

(* the frame property for the nine translated core::ntt *)
Lemma fr_serial sk pad : RUNfr pad (run_serial_sh sk). Proof. intros degree x x_o wtab wtab_o winvtab winvtab_o p r. apply run_serial_sh_fr. Qed.
Lemma fr_sse bits words step vk sk pad : RUNfr pad (run_simd_sh (row_v bits words step vk) sk).
Proof. intros degree x x_o wtab wtab_o winvtab winvtab_o p r. apply run_simd_sh_fr. intros. apply row_v_fr. Qed.
Lemma fr_avx2 bits E vk8 vk4 sk pad : RUNfr pad (run_simd_sh (row_avx2 bits E vk8 vk4) sk).
Proof. intros degree x x_o wtab wtab_o winvtab winvtab_o p r. apply run_simd_sh_fr. intros. apply row_avx2_fr. Qed.

Definition nttT := Z -> list Z -> Z -> list Z -> Z -> list Z -> Z -> Z -> option (list Z * Z * Z * Z * bool).
Definition NTTfr (ntt : nttT) : Prop := forall pad degree x x_o wtab wtab_o winvtab winvtab_o p r,
  ntt degree x x_o wtab wtab_o winvtab winvtab_o p = Some r -> ntt degree (x ++ pad) x_o wtab wtab_o winvtab winvtab_o p = Some (e4b pad r).
Lemma fr_ntt_serial_u16 : NTTfr gen_ntt_serial_u16. Proof. intros pad. intros. rewrite ntt_serial_u16_shape in *. apply ntt_sh_fr; [|assumption]. rewrite run_serial_u16_shape. apply fr_serial. Qed.
Lemma fr_ntt_serial_u32 : NTTfr gen_ntt_serial_u32. Proof. intros pad. intros. rewrite ntt_serial_u32_shape in *. apply ntt_sh_fr; [|assumption]. rewrite run_serial_u32_shape. apply fr_serial. Qed.
Lemma fr_ntt_serial_u64 : NTTfr gen_ntt_serial_u64. Proof. intros pad. intros. rewrite ntt_serial_u64_shape in *. apply ntt_sh_fr; [|assumption]. rewrite run_serial_u64_shape. apply fr_serial. Qed.
Lemma fr_ntt_sse_u16 : NTTfr gen_ntt_sse_u16. Proof. intros pad. intros. rewrite ntt_sse_u16_shape in *. apply ntt_sh_fr; [|assumption]. rewrite run_sse_u16_shape. apply fr_sse. Qed.
Lemma fr_ntt_sse_u32 : NTTfr gen_ntt_sse_u32. Proof. intros pad. intros. rewrite ntt_sse_u32_shape in *. apply ntt_sh_fr; [|assumption]. rewrite run_sse_u32_shape. apply fr_sse. Qed.
Lemma fr_ntt_sse_u64 : NTTfr gen_ntt_sse_u64. Proof. intros pad. intros. rewrite ntt_sse_u64_shape in *. apply ntt_sh_fr; [|assumption]. rewrite run_serial_u64_shape. apply fr_serial. Qed.
Lemma fr_ntt_avx2_u16 : NTTfr gen_ntt_avx2_u16. Proof. intros pad. intros. rewrite ntt_avx2_u16_shape in *. apply ntt_sh_fr; [|assumption]. rewrite run_avx2_u16_shape. apply fr_avx2. Qed.
Lemma fr_ntt_avx2_u32 : NTTfr gen_ntt_avx2_u32. Proof. intros pad. intros. rewrite ntt_avx2_u32_shape in *. apply ntt_sh_fr; [|assumption]. rewrite run_avx2_u32_shape. apply fr_avx2. Qed.
Lemma fr_ntt_avx2_u64 : NTTfr gen_ntt_avx2_u64. Proof. intros pad. intros. rewrite ntt_avx2_u64_shape in *. apply ntt_sh_fr; [|assumption]. rewrite run_serial_u64_shape. apply fr_serial. Qed.

Section All.
Variables (k0 : nat) (p om : Z) (padW padW' : list Z) (fuel : nat) (invK : Z).
Notation k := (S k0).
Notation n := (2 ^ S k0)%nat.
Hypothesis Hk : (3 <= k <= 30)%nat.
Hypothesis Hp : 1 < p.
Hypothesis HpadW : Forall (fun v => 0 <= v < p) padW.
Hypothesis Hf : (k < fuel)%nat.
Definition Wt := flat p k om ++ padW.
Definition Wt' (w : Z) := map (fun v => (v * 2 ^ w) / p) (flat p k om) ++ padW'.
Definition twsf := fun lvl => nth lvl (prep p k om) nil.
Definition Fc (w : Z) (x : list Z) := ntt_core w p k twsf x.
Definition inv_out (w : Z) (x y0 : list Z) := Some ((BR k0 (Fc w (BR k0 x)), Fc w (BR k0 x) ++ skipn n y0, 0, 0), true).

Lemma one (w : Z) (ntt : nttT) inv : 0 < w -> NTTfr ntt ->
  (forall fuel degree x x_o w wo w' wo' invK p y, inv fuel degree x x_o w wo w' wo' invK p y =
    (if (degree =? 1) then Some ((x, y, wo, wo'), true) else (bind (gen_permut fuel degree y 0 x x_o) (fun y => (bind (ntt degree y 0 w wo w' wo' p) (fun '(y, _, _, _, ret_) => (bind (gen_permut fuel degree x x_o y 0) (fun x => Some ((x, y, wo, wo'), true))))))))) ->
  (forall x0, length x0 = n -> Forall (fun v => 0 <= v < 2 ^ w) x0 -> ntt (Z.of_nat n) x0 0 Wt 0 (Wt' w) 0 p = Some ((ntt_core w p k twsf x0, Z.of_nat n, Z.of_nat (off k (k - 2)), Z.of_nat (off k (k - 2))), true)) ->
  forall x y0, length x = n -> Forall (fun v => 0 <= v < 2 ^ w) x -> length y0 = S n -> inv fuel (Z.of_nat n) x 0 Wt 0 (Wt' w) 0 invK p y0 = inv_out w x y0.
Proof.
  intros Hw Hfr Hshape Hntt x y0 Hx HR Hy. unfold inv_out.
  apply (inv_ntt_ok ntt inv Hshape k0 fuel Wt (Wt' w) p invK (Fc w) ltac:(lia) Hf (fun v Hv => ntt_core_length w p k twsf v Hw ltac:(lia) Hv) (fun v => 0 <= v < 2 ^ w)); try assumption.
  intros v pad Hv HRv Hpad. pose proof (Hfr pad _ _ _ _ _ _ _ _ _ (Hntt v Hv HRv)) as E. unfold e4b, e4 in E. cbn [fst snd] in E. eauto.
Qed.
End All.

Definition rng (w : Z) (v : Z) : Prop := 0 <= v < 2 ^ w.
Theorem source_inv_ntt_all_builds k0 p om padW padW' fuel invK : (3 <= S k0 <= 30)%nat -> 1 < p -> Forall (fun v => 0 <= v < p) padW -> (S k0 < fuel)%nat ->
  let n := (2 ^ S k0)%nat in let W := Wt k0 p om padW in let W' := Wt' k0 p om padW' in
  (p < 2 ^ 14 -> Forall (fun v => 0 <= v < 2 ^ 16) padW' -> forall x y0, length x = n -> Forall (fun v => 0 <= v < 2 ^ 16) x -> length y0 = S n ->
     gen_inv_ntt_serial_u16 fuel (Z.of_nat n) x 0 W 0 (W' 16) 0 invK p y0 = inv_out k0 p om 16 x y0 /\
     gen_inv_ntt_sse_u16 fuel (Z.of_nat n) x 0 W 0 (W' 16) 0 invK p y0 = inv_out k0 p om 16 x y0 /\
     gen_inv_ntt_avx2_u16 fuel (Z.of_nat n) x 0 W 0 (W' 16) 0 invK p y0 = inv_out k0 p om 16 x y0) /\
  (4 * p <= 2 ^ 32 -> Forall (fun v => 0 <= v < 2 ^ 32) padW' -> forall x y0, length x = n -> Forall (fun v => 0 <= v < 2 ^ 32) x -> length y0 = S n ->
     gen_inv_ntt_serial_u32 fuel (Z.of_nat n) x 0 W 0 (W' 32) 0 invK p y0 = inv_out k0 p om 32 x y0 /\
     gen_inv_ntt_sse_u32 fuel (Z.of_nat n) x 0 W 0 (W' 32) 0 invK p y0 = inv_out k0 p om 32 x y0 /\
     gen_inv_ntt_avx2_u32 fuel (Z.of_nat n) x 0 W 0 (W' 32) 0 invK p y0 = inv_out k0 p om 32 x y0) /\
  (4 * p <= 2 ^ 64 -> Forall (fun v => 0 <= v < 2 ^ 64) padW' -> forall x y0, length x = n -> Forall (fun v => 0 <= v < 2 ^ 64) x -> length y0 = S n ->
     gen_inv_ntt_serial_u64 fuel (Z.of_nat n) x 0 W 0 (W' 64) 0 invK p y0 = inv_out k0 p om 64 x y0 /\
     gen_inv_ntt_sse_u64 fuel (Z.of_nat n) x 0 W 0 (W' 64) 0 invK p y0 = inv_out k0 p om 64 x y0 /\
     gen_inv_ntt_avx2_u64 fuel (Z.of_nat n) x 0 W 0 (W' 64) 0 invK p y0 = inv_out k0 p om 64 x y0).
Proof.
  intros Hk Hp HpadW Hf n W W'.
  assert (L : forall x0, length x0 = n -> _) by (intros x0 Hx0; exact (source_loops_all_builds (S k0) p om padW padW' x0 Hk Hp HpadW Hx0)).
  cbv zeta in L. fold (Wt k0 p om padW) (twsf k0 p om) in L.
  split; [|split].
  - intros Hp14 HpW' x y0 Hx HR Hy. repeat split.
    + eapply (one k0 p om padW padW' fuel invK Hk Hf 16 gen_ntt_serial_u16); try eassumption; [lia | exact fr_ntt_serial_u16 | exact inv_shape_serial_u16 |].
      intros x0 Hx0 HR0. destruct (L x0 Hx0) as (A & _). destruct (A Hp14 HpW' HR0) as (E & _). exact E.
    + eapply (one k0 p om padW padW' fuel invK Hk Hf 16 gen_ntt_sse_u16); try eassumption; [lia | exact fr_ntt_sse_u16 | exact inv_shape_sse_u16 |].
      intros x0 Hx0 HR0. destruct (L x0 Hx0) as (A & _). destruct (A Hp14 HpW' HR0) as (_ & E & _). exact E.
    + eapply (one k0 p om padW padW' fuel invK Hk Hf 16 gen_ntt_avx2_u16); try eassumption; [lia | exact fr_ntt_avx2_u16 | exact inv_shape_avx2_u16 |].
      intros x0 Hx0 HR0. destruct (L x0 Hx0) as (A & _). destruct (A Hp14 HpW' HR0) as (_ & _ & E). exact E.
  - intros Hp14 HpW' x y0 Hx HR Hy. repeat split.
    + eapply (one k0 p om padW padW' fuel invK Hk Hf 32 gen_ntt_serial_u32); try eassumption; [lia | exact fr_ntt_serial_u32 | exact inv_shape_serial_u32 |].
      intros x0 Hx0 HR0. destruct (L x0 Hx0) as (_ & A & _). destruct (A Hp14 HpW' HR0) as (E & _). exact E.
    + eapply (one k0 p om padW padW' fuel invK Hk Hf 32 gen_ntt_sse_u32); try eassumption; [lia | exact fr_ntt_sse_u32 | exact inv_shape_sse_u32 |].
      intros x0 Hx0 HR0. destruct (L x0 Hx0) as (_ & A & _). destruct (A Hp14 HpW' HR0) as (_ & E & _). exact E.
    + eapply (one k0 p om padW padW' fuel invK Hk Hf 32 gen_ntt_avx2_u32); try eassumption; [lia | exact fr_ntt_avx2_u32 | exact inv_shape_avx2_u32 |].
      intros x0 Hx0 HR0. destruct (L x0 Hx0) as (_ & A & _). destruct (A Hp14 HpW' HR0) as (_ & _ & E). exact E.
  - intros Hp14 HpW' x y0 Hx HR Hy. repeat split.
    + eapply (one k0 p om padW padW' fuel invK Hk Hf 64 gen_ntt_serial_u64); try eassumption; [lia | exact fr_ntt_serial_u64 | exact inv_shape_serial_u64 |].
      intros x0 Hx0 HR0. destruct (L x0 Hx0) as (_ & _ & A). destruct (A Hp14 HpW' HR0) as (E & _). exact E.
    + eapply (one k0 p om padW padW' fuel invK Hk Hf 64 gen_ntt_sse_u64); try eassumption; [lia | exact fr_ntt_sse_u64 | exact inv_shape_sse_u64 |].
      intros x0 Hx0 HR0. destruct (L x0 Hx0) as (_ & _ & A). destruct (A Hp14 HpW' HR0) as (_ & E & _). exact E.
    + eapply (one k0 p om padW padW' fuel invK Hk Hf 64 gen_ntt_avx2_u64); try eassumption; [lia | exact fr_ntt_avx2_u64 | exact inv_shape_avx2_u64 |].
      intros x0 Hx0 HR0. destruct (L x0 Hx0) as (_ & _ & A). destruct (A Hp14 HpW' HR0) as (_ & _ & E). exact E.
Qed.
