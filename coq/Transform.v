From Coq Require Import ZArith Lia List Arith.
From NTT Require Import Functors Algebra Layer.
Import ListNotations.
Local Open Scope Z_scope.

(* The lazy list-level transform (all k layers generic; the fused last two layers of core::ntt are
   shown equal to two generic layers separately) and its meaning: DFT in bit-reversed order, mod p. *)
Section Transform.
Variable w : Z.                     (* limb width *)
Hypothesis Hw : 0 < w.
Variable p : Z.
Hypothesis Hp : 0 < p.
Hypothesis H4p : 4 * p <= 2 ^ w.
Variable om : Z.
Variable k : nat.
Hypothesis Hhalf : forall k', k = S k' -> cg p (pw om (2 ^ k')) (-1).
Variable tws : nat -> list Z.       (* twiddle table of layer lvl: entries w_N^i, i < N/2, N = 2^(k-lvl) *)
Hypothesis tws_ok : forall lvl i, (lvl < k)%nat -> (i < 2 ^ (k - lvl - 1))%nat ->
  0 <= nth i (tws lvl) 0 < p /\ cg p (nth i (tws lvl) 0) (pw om (2 ^ lvl * i)).

Definition bfL (lvl : nat) : nat -> Z -> Z -> Z * Z :=
  fun i a b => let wt := nth i (tws lvl) 0 in bfly_lazy w p wt ((wt * 2 ^ w) / p) a b.

Fixpoint run_layers (lvl j : nat) (x : list Z) : list Z :=
  match j with
  | O => x
  | S j' => run_layers (S lvl) j' (blocks (bfL lvl) (2 ^ lvl) (2 ^ (k - lvl - 1)) x)
  end.

Definition strict (x : list Z) : list Z := map (fun v => if v >=? p then v - p else v) x.
Definition ntt_list (x : list Z) : list Z := strict (run_layers 0 k x).

Variable a : nat -> Z.              (* the input, as an index function *)
Definition InvL (lvl : nat) (x : list Z) : Prop :=
  length x = (2 ^ k)%nat /\
  forall idx, (idx < 2 ^ k)%nat -> 0 <= nth idx x 0 < 2 * p /\ cg p (nth idx x 0) (layers om k a lvl idx).

Lemma pow2_split lvl : (lvl < k)%nat -> (2 ^ k = 2 ^ lvl * (2 * 2 ^ (k - lvl - 1)))%nat.
Proof. intros H. replace (2 * 2 ^ (k - lvl - 1))%nat with (2 ^ (k - lvl))%nat.
  - rewrite <- Nat.pow_add_r. f_equal. lia.
  - replace (k - lvl)%nat with (S (k - lvl - 1)) at 1 by lia. now rewrite Nat.pow_succ_r'. Qed.

Lemma step_InvL lvl x : (lvl < k)%nat -> InvL lvl x -> InvL (S lvl) (blocks (bfL lvl) (2 ^ lvl) (2 ^ (k - lvl - 1)) x).
Proof.
  intros Hl [Hlen Hx]. set (half := (2 ^ (k - lvl - 1))%nat). set (M := (2 ^ lvl)%nat).
  assert (Hh : (0 < half)%nat) by (unfold half; apply pow2_pos).
  assert (Hn : (2 ^ k = M * (2 * half))%nat) by (apply pow2_split; auto).
  split; [rewrite blocks_length; lia|].
  intros idx Hidx.
  set (N := (2 * half)%nat) in *.
  assert (HN : (2 ^ (k - lvl) = N)%nat).
  { unfold N, half. replace (k - lvl)%nat with (S (k - lvl - 1)) at 1 by lia. now rewrite Nat.pow_succ_r'. }
  pose proof (Nat.div_mod idx N ltac:(lia)) as Edm. set (r := (idx / N)%nat) in *. set (i := (idx mod N)%nat) in *.
  assert (Hi : (i < N)%nat) by (apply Nat.mod_upper_bound; lia).
  assert (Hr : (r < M)%nat) by (apply Nat.div_lt_upper_bound; lia).
  pose proof (blocks_nth (bfL lvl) M half x r i Hh ltac:(lia) Hr Hi) as BN. cbv zeta in BN. fold N in BN. rewrite <- Edm in BN.
  rewrite BN. clear BN.
  (* the reference value: one layer_fn step *)
  cbn [layers]. unfold layer_fn. rewrite HN. fold i.
  replace (N / 2)%nat with half by (unfold N; rewrite Nat.mul_comm, Nat.div_mul; lia).
  assert (Hblk : (N * r + N <= 2 ^ k)%nat) by (rewrite Hn; nia).
  destruct (i <? half)%nat eqn:Ei.
  - apply Nat.ltb_lt in Ei.
    destruct (Hx idx Hidx) as [Ra Ca]. destruct (Hx (idx + half)%nat ltac:(unfold N in *; lia)) as [Rb Cb].
    destruct (tws_ok lvl i Hl Ei) as [Rw _].
    pose proof (bfly_lazy_correct w Hw p (nth i (tws lvl) 0) (nth idx x 0) (nth (idx + half) x 0) Hp H4p Rw Ra Rb) as BL.
    unfold bfL. destruct (bfly_lazy _ _ _ _ _ _) as [s d]. destruct BL as [[Rs Cs] _]. simpl fst.
    split; [exact Rs|]. unfold cg in *. rewrite Cs, Z.add_mod, Ca, Cb, <- Z.add_mod by lia. reflexivity.
  - apply Nat.ltb_ge in Ei.
    destruct (Hx (idx - half)%nat ltac:(unfold N in *; lia)) as [Ra Ca]. destruct (Hx idx Hidx) as [Rb Cb].
    destruct (tws_ok lvl (i - half)%nat Hl ltac:(unfold N in Hi; lia)) as [Rw Cw].
    pose proof (bfly_lazy_correct w Hw p (nth (i - half) (tws lvl) 0) (nth (idx - half) x 0) (nth idx x 0) Hp H4p Rw Ra Rb) as BL.
    unfold bfL. destruct (bfly_lazy _ _ _ _ _ _) as [s d]. destruct BL as [_ [Rd Cd]]. simpl snd.
    split; [exact Rd|]. unfold cg in *. rewrite Cd.
    rewrite Z.mul_mod, Zminus_mod, Ca, Cb, <- Zminus_mod, Cw, <- Z.mul_mod by lia. reflexivity.
Qed.

Lemma run_InvL : forall j lvl x, (lvl + j <= k)%nat -> InvL lvl x -> InvL (lvl + j) (run_layers lvl j x).
Proof.
  induction j as [|j IH]; intros lvl x Hj I; cbn [run_layers].
  - now rewrite Nat.add_0_r.
  - replace (lvl + S j)%nat with (S lvl + j)%nat by lia. apply IH; [lia|]. apply step_InvL; [lia | exact I].
Qed.

(* the transform computes the DFT at the powers of om in bit-reversed order, reduced into [0,p) *)
Theorem ntt_list_correct x :
  length x = (2 ^ k)%nat -> (forall idx, (idx < 2 ^ k)%nat -> 0 <= nth idx x 0 < 2 * p /\ nth idx x 0 = a idx) ->
  length (ntt_list x) = (2 ^ k)%nat /\
  forall j, (j < 2 ^ k)%nat -> nth j (ntt_list x) 0 = (sum (2 ^ k) (fun t => a t * pw om (t * rev k j))) mod p.
Proof.
  intros Hlen Hx.
  assert (I0 : InvL 0 x).
  { split; auto. intros idx Hidx. destruct (Hx idx Hidx) as [R E]. split; auto. cbn [layers]. rewrite E. reflexivity. }
  pose proof (run_InvL k 0 x ltac:(lia) I0) as [L I]. simpl plus in L, I.
  unfold ntt_list, strict. split; [now rewrite map_length|].
  intros j Hj. destruct (I j Hj) as [R C].
  set (f := fun v : Z => if v >=? p then v - p else v).
  rewrite (nth_indep (map f (run_layers 0 k x)) 0 (f 0)) by (rewrite map_length; lia).
  rewrite map_nth. unfold f.
  pose proof (dif_is_dft_bitrev p Hp om k Hhalf a j Hj) as D. unfold cg in *. rewrite <- D, <- C.
  destruct (Z.geb_spec (nth j (run_layers 0 k x) 0) p).
  - apply (Z.mod_unique_pos _ p 1); lia.
  - symmetry. apply Z.mod_small. lia.
Qed.
End Transform.
Print Assumptions ntt_list_correct.
