(* The transform tables as core::initialize() computes them from a table row (p, g = primitive_roots[cm],
   ik = invkMaxPolyDegree[cm]) for degree n = 2^k <= maxdeg = 2^K, and the public transform pair built on them.
   Definitions only (executable, extracted); proofs are in NTTClosed.v. *)
From Coq Require Import ZArith List Arith.
From NTT Require Import Functors Algebra Layer Transform Rev Inverse Tables Fused Structural.
Import ListNotations.
Local Open Scope Z_scope.

Section Inst.
Variables (w p g ik : Z) (K : nat).

Definition mulm (a b : Z) : Z := (a * b) mod p.                       (* ops::mulmod on canonical operands *)
Fixpoint sqs (i : nat) (x : Z) : Z := match i with O => x | S i' => sqs i' (mulm x x) end.
Fixpoint last_pow (cnt : nat) (wv cur : Z) : Z := match cnt with O => cur | S c => last_pow c wv (mulm cur wv) end.

Section Deg.
Variable k0 : nat.                                                   (* degree n = 2^(S k0) >= 2 *)
Let k := S k0.
Let n := (2 ^ k)%nat.
Definition phi : Z := sqs (K - k) g.                                  (* K-k squarings of the tabulated root *)
Definition phis : list Z := pows p phi n 1.                           (* phi^i *)
Definition phi_n : Z := last_pow n phi 1.                             (* temp after the loop: phi^n *)
Definition invphi : Z := mulm phi_n (nth (n - 1) phis 0).             (* phi^(2n-1) *)
Definition ninv : Z := mulm ik (2 ^ Z.of_nat (K - k)).                (* invkMaxPolyDegree * (maxdeg/n) *)
Definition cs : list Z := pows p invphi n ninv.                       (* n^-1 * invphi^i *)
Definition omega : Z := mulm phi phi.
Definition invomega : Z := mulm invphi invphi.
Definition tws (lvl : nat) : list Z := nth lvl (prep p k omega) [].
Definition twsi (lvl : nat) : list Z := nth lvl (prep p k invomega) [].

(* the tables are built once (let), then the list-level transform of Inverse.v runs on them *)
Definition ntt_fwd (x : list Z) : list Z :=                                       (* ntt_pow_phi on one modulus *)
  let T := prep p k omega in let ph := phis in fwd w p k0 (fun lvl => nth lvl T []) ph x.
Definition ntt_inv (y : list Z) : list Z :=                                       (* invntt_pow_invphi *)
  let T := prep p k invomega in let c := cs in
  let z := BR k0 (ntt_list w p k (fun lvl => nth lvl T []) (BR k0 y)) in           (* = Inverse.inv, with the transform shared *)
  tab k0 (fun i => (nth i z 0 * nth i c 0) mod p).
Lemma ntt_inv_eq y : ntt_inv y = inv w p k0 twsi cs y.
Proof. reflexivity. Qed.
Lemma ntt_fwd_eq x : ntt_fwd x = fwd w p k0 tws phis x.
Proof. reflexivity. Qed.
(* the same pair with core::ntt as it is structured in the source (degree-2 special case, k-2 generic layers, fused last two
   layers, strict reduction): THIS is the model that is extracted and run against the library *)
Definition ntt_fwd_s (x : list Z) : list Z :=
  let T := prep p k omega in let ph := phis in ntt_core w p k (fun lvl => nth lvl T []) (twist p k0 ph x).
Definition ntt_inv_s (y : list Z) : list Z :=
  let T := prep p k invomega in let c := cs in
  let z := BR k0 (ntt_core w p k (fun lvl => nth lvl T []) (BR k0 y)) in
  tab k0 (fun i => (nth i z 0 * nth i c 0) mod p).
Lemma ntt_fwd_s_eq x : ntt_fwd_s x = ntt_core w p k tws (twist p k0 phis x).
Proof. reflexivity. Qed.
Lemma ntt_inv_s_eq y : ntt_inv_s y = tab k0 (fun i => (nth i (BR k0 (ntt_core w p k twsi (BR k0 y))) 0 * nth i cs 0) mod p).
Proof. reflexivity. Qed.
Definition ntt_mul (u v : list Z) : list Z := pointwise p k0 u v.                 (* operator* in evaluation form *)
Definition nega_spec (a b : list Z) : list Z := negacyclic p k0 a b.              (* the ring product, schoolbook *)
End Deg.

(* degree 1: both transforms are the identity (phis = [1], n^-1 = ik * maxdeg = 1) *)
Definition ntt_fwd1 (x : list Z) : list Z := map (fun v => mulm v 1) x.
Definition ntt_inv1 (y : list Z) : list Z := map (fun v => mulm v (mulm ik (2 ^ Z.of_nat K))) y.
End Inst.
