(* Frame property of the translated transform loops: a run that succeeds on an array x succeeds on x ++ pad with the same result followed by
   pad untouched (every load and store of the successful run was inside x).  Proved for the shapes of LoopSpec.v / LoopRun.v, i.e. for the
   generated core::ntt of every build; used for core::inv_ntt, whose scratch array has degree + 1 words. *)
From Coq Require Import ZArith List Lia Bool.
From NTT Require Import CxxSem VecSem MemSem LoopSpec LoopRun.
Import ListNotations.
Local Open Scope Z_scope.

Section Frame.
Variable pad : list Z.

Lemma inb_fr x i : inb x i = true -> inb (x ++ pad) i = true.
Proof. unfold inb. rewrite app_length, Nat2Z.inj_add. intros H. apply andb_true_iff in H. destruct H as [A B]. apply andb_true_iff. split; [exact A|]. apply Z.ltb_lt in B. apply Z.ltb_lt. lia. Qed.
Lemma inb_lt x i : inb x i = true -> (Z.to_nat i < length x)%nat.
Proof. unfold inb. intros H. apply andb_true_iff in H. destruct H as [A B]. apply Z.leb_le in A. apply Z.ltb_lt in B. lia. Qed.
Lemma upd_app n v : forall x, (n < length x)%nat -> upd n v (x ++ pad) = upd n v x ++ pad.
Proof. induction n as [|n IH]; intros [|h t] H; cbn [length] in H; try lia; cbn [upd app]; [reflexivity|]. rewrite IH by lia. reflexivity. Qed.
Lemma ld_fr x i v : ld x i = Some v -> ld (x ++ pad) i = Some v.
Proof. unfold ld. destruct (inb x i) eqn:E; [|discriminate]. rewrite (inb_fr _ _ E). intros H. rewrite app_nth1 by (apply inb_lt; exact E). exact H. Qed.
Lemma st_fr x i v x' : st x i v = Some x' -> st (x ++ pad) i v = Some (x' ++ pad).
Proof. unfold st. destruct (inb x i) eqn:E; [|discriminate]. rewrite (inb_fr _ _ E). intros H. injection H as <-. rewrite upd_app by (apply inb_lt; exact E). reflexivity. Qed.
Lemma okn_fr n x i : okn n x i = true -> okn n (x ++ pad) i = true.
Proof. unfold okn. rewrite app_length, Nat2Z.inj_add. intros H. apply andb_true_iff in H. destruct H as [H C]. apply andb_true_iff in H. destruct H as [A B].
  rewrite A, C. apply Z.leb_le in B. replace (i + Z.of_nat n <=? Z.of_nat (length x) + Z.of_nat (length pad)) with true by (symmetry; apply Z.leb_le; lia). reflexivity. Qed.
Lemma okn_le n x i : okn n x i = true -> (Z.to_nat i + n <= length x)%nat.
Proof. unfold okn. intros H. apply andb_true_iff in H. destruct H as [H C]. apply andb_true_iff in H. destruct H as [A B]. apply Z.leb_le in A, B. lia. Qed.
Lemma ldn_fr n x i v : ldn n x i = Some v -> ldn n (x ++ pad) i = Some v.
Proof. unfold ldn. destruct (okn n x i) eqn:E; [|discriminate]. rewrite (okn_fr _ _ _ E). intros H. injection H as <-. f_equal.
  pose proof (okn_le _ _ _ E) as L. rewrite skipn_app. rewrite firstn_app. rewrite skipn_length.
  replace (n - (length x - Z.to_nat i))%nat with 0%nat by lia. cbn [firstn]. rewrite app_nil_r. reflexivity. Qed.
Lemma stn_fr x i vs x' : stn x i vs = Some x' -> stn (x ++ pad) i vs = Some (x' ++ pad).
Proof. unfold stn. destruct (okn (length vs) x i) eqn:E; [|discriminate]. rewrite (okn_fr _ _ _ E). intros H. injection H as <-. f_equal.
  pose proof (okn_le _ _ _ E) as L. rewrite firstn_app, skipn_app.
  replace (Z.to_nat i - length x)%nat with 0%nat by lia. replace (Z.to_nat i + length vs - length x)%nat with 0%nat by lia. cbn [firstn skipn]. rewrite app_nil_r, <- !app_assoc. reflexivity. Qed.
Lemma ldv_fr bits words x i v : ldv bits words x i = Some v -> ldv bits words (x ++ pad) i = Some v.
Proof. unfold ldv. destruct (ldn (elts bits words) x i) eqn:E; [|discriminate]. rewrite (ldn_fr _ _ _ _ E). auto. Qed.
Lemma stv_fr bits x i reg x' : stv bits x i reg = Some x' -> stv bits (x ++ pad) i reg = Some (x' ++ pad).
Proof. unfold stv. apply stn_fr. Qed.

(* loops: the state carries the array; ext appends pad to it *)
Section Loop.
Context {S : Type}.
Variable ext : S -> S.
Definition FR (f : S -> option S) : Prop := forall s s', f s = Some s' -> f (ext s) = Some (ext s').
Lemma for_fuel_fr body : (forall i, FR (body i)) -> forall n i hi step, FR (for_fuel n i hi step body).
Proof.
  intros Hb n. induction n as [|n IH]; intros i hi step s s'; cbn [for_fuel]; destruct (i <? hi); try discriminate; try (intros H; injection H as <-; reflexivity).
  destruct (body i s) as [s1|] eqn:E; [|discriminate]. rewrite (Hb _ _ _ E). cbn [bind]. destruct (i + step <? 2 ^ 64); [|discriminate]. apply IH.
Qed.
Lemma for_up_fr body lo hi step : (forall i, FR (body i)) -> FR (for_up lo hi step body).
Proof. intros Hb. unfold for_up. apply for_fuel_fr. exact Hb. Qed.
Lemma for_up_fr' body lo hi step s s' : (forall i s s', body i s = Some s' -> body i (ext s) = Some (ext s')) -> for_up lo hi step body s = Some s' -> for_up lo hi step body (ext s) = Some (ext s').
Proof. intros Hb. apply for_up_fr. exact Hb. Qed.
End Loop.

Definition e3 (s : St) : St := let '(x, a, b) := s in (x ++ pad, a, b).
Definition e4 (s : St4) : St4 := let '(x, a, b, c) := s in (x ++ pad, a, b, c).

Ltac stp H :=
  match type of H with
  | bind (ld ?x ?i) _ = Some _ => let E := fresh "E" in destruct (ld x i) eqn:E; [|discriminate H]; first [rewrite (ld_fr _ _ _ E) | idtac]; cbn [bind] in H |- *
  | bind (ldv ?b ?w ?x ?i) _ = Some _ => let E := fresh "E" in destruct (ldv b w x i) eqn:E; [|discriminate H]; first [rewrite (ldv_fr _ _ _ _ _ E) | idtac]; cbn [bind] in H |- *
  | bind (st ?x ?i ?v) _ = Some _ => let E := fresh "E" in destruct (st x i v) eqn:E; [|discriminate H]; rewrite (st_fr _ _ _ _ E); cbn [bind] in H |- *
  | bind (stv ?b ?x ?i ?v) _ = Some _ => let E := fresh "E" in destruct (stv b x i v) eqn:E; [|discriminate H]; rewrite (stv_fr _ _ _ _ _ E); cbn [bind] in H |- *
  | bind ?e _ = Some _ => let E := fresh "E" in destruct e eqn:E; [|discriminate H]; cbn [bind] in H |- *
  end.

(* the table loads ld wtab / ld winvtab are on other arrays: they do not change *)
Lemma body_s_fr {T} (extT : T -> T) sk p wtab winvtab ia ib ic id (k : list Z -> option T) :
  (forall x r, k x = Some r -> k (x ++ pad) = Some (extT r)) -> forall x r, body_s sk p wtab winvtab ia ib ic id k x = Some r -> body_s sk p wtab winvtab ia ib ic id k (x ++ pad) = Some (extT r).
Proof.
  intros Hk x r H. unfold body_s in *.
  destruct (ld x ia) eqn:E1; [|discriminate H]. rewrite (ld_fr _ _ _ E1). cbn [bind] in H |- *.
  destruct (ld x ib) eqn:E2; [|discriminate H]. rewrite (ld_fr _ _ _ E2). cbn [bind] in H |- *.
  destruct (ld winvtab ic); [|discriminate H]. cbn [bind] in H |- *. destruct (ld wtab id); [|discriminate H]. cbn [bind] in H |- *.
  destruct (sk p z z0 z1 z2) as [r_|]; [|discriminate H]. cbn [bind] in H |- *.
  destruct (st x ia (fst r_)) as [x1|] eqn:E3; [|discriminate H]. rewrite (st_fr _ _ _ _ E3). cbn [bind] in H |- *.
  destruct (st x1 ib (snd r_)) as [x2|] eqn:E4; [|discriminate H]. rewrite (st_fr _ _ _ _ E4). cbn [bind] in H |- *. apply Hk. exact H.
Qed.
Lemma body_v_fr {T} (extT : T -> T) bits words vk p wtab winvtab ia ib ic id (k : list Z -> option T) :
  (forall x r, k x = Some r -> k (x ++ pad) = Some (extT r)) -> forall x r, body_v bits words vk p wtab winvtab ia ib ic id k x = Some r -> body_v bits words vk p wtab winvtab ia ib ic id k (x ++ pad) = Some (extT r).
Proof.
  intros Hk x r H. unfold body_v in *.
  destruct (ldv bits words x ia) eqn:E1; [|discriminate H]. rewrite (ldv_fr _ _ _ _ _ E1). cbn [bind] in H |- *.
  destruct (ldv bits words x ib) eqn:E2; [|discriminate H]. rewrite (ldv_fr _ _ _ _ _ E2). cbn [bind] in H |- *.
  destruct (ldv bits words winvtab ic); [|discriminate H]. cbn [bind] in H |- *. destruct (ldv bits words wtab id); [|discriminate H]. cbn [bind] in H |- *.
  cbv zeta in H |- *.
  destruct (stv bits x ia _) as [x1|] eqn:E3; [|discriminate H]. rewrite (stv_fr _ _ _ _ _ E3). cbn [bind] in H |- *.
  destruct (stv bits x1 ib _) as [x2|] eqn:E4; [|discriminate H]. rewrite (stv_fr _ _ _ _ _ E4). cbn [bind] in H |- *. apply Hk. exact H.
Qed.

Lemma k3_fr (a b : Z) : forall x r, (fun x => Some (x, a, b)) x = Some r -> (fun x : list Z => Some (x, a, b)) (x ++ pad) = Some (e3 r).
Proof. intros x r H. injection H as <-. reflexivity. Qed.

Lemma bind_id3 (o : option St) : bind o (fun '(x, a, b) => Some (x, a, b)) = o.
Proof. destruct o as [[[x a] b]|]; reflexivity. Qed.

Lemma row_s2_fr sk p wtab winvtab x_o N r : FR e3 (row_s2 sk p wtab winvtab x_o N r).
Proof.
  intros [[x a] b] s'. unfold row_s2. cbn [e3]. cbv beta iota. rewrite !bind_id3. intros H0. change (x ++ pad, a, b) with (e3 (x, a, b)). apply for_up_fr'; [|exact H0]. clear.
  intros i [[x a] b] s' H. cbn [e3]. eapply (body_s_fr e3); [|exact H]. intros x1 r1 H1. eapply (body_s_fr e3); [|exact H1]. apply k3_fr.
Qed.
Lemma row_s1_fr sk p wtab winvtab x_o N r : FR e3 (row_s1 sk p wtab winvtab x_o N r).
Proof.
  intros [[x a] b] s'. unfold row_s1. cbn [e3]. cbv beta iota. rewrite !bind_id3. intros H0. change (x ++ pad, a, b) with (e3 (x, a, b)). apply for_up_fr'; [|exact H0]. clear.
  intros i [[x a] b] s' H. cbn [e3]. eapply (body_s_fr e3); [|exact H]. apply k3_fr.
Qed.
Lemma row_v_fr bits words step vk p wtab winvtab x_o N r : FR e3 (row_v bits words step vk p wtab winvtab x_o N r).
Proof.
  intros [[x a] b] s'. unfold row_v. cbn [e3]. cbv beta iota. rewrite !bind_id3. intros H0. change (x ++ pad, a, b) with (e3 (x, a, b)). apply for_up_fr'; [|exact H0]. clear.
  intros i [[x a] b] s' H. cbn [e3]. eapply (body_v_fr e3); [|exact H]. apply k3_fr.
Qed.
Lemma row_avx2_fr bits E vk8 vk4 p wtab winvtab x_o N r : FR e3 (row_avx2 bits E vk8 vk4 p wtab winvtab x_o N r).
Proof.
  intros [[x a] b] s'. unfold row_avx2. cbn [e3]. cbv beta iota zeta. intros H.
  destruct (for_up 0 _ E _ (x, a, b)) as [s1|] eqn:E1; [|discriminate H].
  change (x ++ pad, a, b) with (e3 (x, a, b)).
  apply (for_up_fr' e3) in E1.
  2:{ intros i [[x1 a1] b1] s2 H2. cbn [e3]. eapply (body_v_fr e3); [|exact H2]. apply k3_fr. }
  unfold St in E1. rewrite E1.
  destruct s1 as [[x1 a1] b1]. cbn [bind e3] in H |- *. rewrite bind_id3 in H |- *.
  destruct (negb _); [|injection H as <-; reflexivity].
  eapply (body_v_fr e3); [|exact H]. apply k3_fr.
Qed.

Ltac dfor H E1 := match type of H with bind ?e _ = _ => destruct e as [?s1|] eqn:E1; [|discriminate H] end.

Section Layers.
Variable ROW : Z -> Z -> St -> option St.
Hypothesis HROW : forall N r, FR e3 (ROW N r).
Lemma layer_sh_fr degree w : FR e3 (layer_sh ROW degree w).
Proof.
  intros [[x a] b] s' H. unfold layer_sh in *. cbn [e3]. cbv beta iota. destruct (shl_s 32 1 w); [|discriminate H]. cbn [bind] in H |- *. destruct (shr_u 64 degree w); [|discriminate H]. cbn [bind] in H |- *.
  cbv zeta in H |- *. dfor H E1.
  change (x ++ pad, a, b) with (e3 (x, a, b)). apply (for_up_fr' e3) in E1; [|intros i s2 s3; apply HROW]. unfold St in E1 |- *. rewrite E1.
  destruct s1 as [[x1 a1] b1]. cbn [bind e3] in H |- *. injection H as <-. reflexivity.
Qed.
End Layers.

Definition e3z (s : St * Z) : St * Z := (e3 (fst s), snd s).
Lemma ret_sh_fr degree s r : ret_sh degree s = Some r -> ret_sh degree (e3 s) = Some (e3z r).
Proof. destruct s as [[x a] b]. unfold ret_sh. cbn [e3]. cbv beta iota. destruct (shl_s 32 1 _); [|discriminate]. cbn [bind]. intros H. injection H as <-. reflexivity. Qed.

Lemma run_serial_sh_fr sk degree x x_o wtab wtab_o winvtab winvtab_o p r :
  run_serial_sh sk degree x x_o wtab wtab_o winvtab winvtab_o p = Some r -> run_serial_sh sk degree (x ++ pad) x_o wtab wtab_o winvtab winvtab_o p = Some (e3z r).
Proof.
  unfold run_serial_sh. intros H. dfor H E1.
  change (x ++ pad, wtab_o, winvtab_o) with (e3 (x, wtab_o, winvtab_o)).
  apply (for_up_fr' e3) in E1; [|intros w s2 s3; apply layer_sh_fr; apply row_s2_fr]. unfold St in E1 |- *. rewrite E1. cbn [bind] in H |- *. apply ret_sh_fr. exact H.
Qed.
Lemma last_layer_sh_fr ROW (HROW : forall N r, FR e3 (ROW N r)) degree w s r : last_layer_sh ROW degree w s = Some r -> last_layer_sh ROW degree w (e3 s) = Some (e3z r).
Proof.
  destruct s as [[x a] b]. intros H. unfold last_layer_sh in *. cbn [e3]. cbv beta iota. destruct (shl_s 32 1 w); [|discriminate H]. cbn [bind] in H |- *. destruct (shr_u 64 degree w); [|discriminate H]. cbn [bind] in H |- *.
  cbv zeta in H |- *. dfor H E1.
  change (x ++ pad, a, b) with (e3 (x, a, b)). apply (for_up_fr' e3) in E1; [|intros i s2 s3; apply HROW]. unfold St in E1 |- *. rewrite E1.
  destruct s1 as [[x1 a1] b1]. cbn [bind e3] in H |- *. destruct (shl_s 32 1 _); [|discriminate H]. cbn [bind] in H |- *. injection H as <-. reflexivity.
Qed.
Lemma run_simd_sh_fr ROWV (HROWV : forall p wtab winvtab x_o N r, FR e3 (ROWV p wtab winvtab x_o N r)) sk degree x x_o wtab wtab_o winvtab winvtab_o p r :
  run_simd_sh ROWV sk degree x x_o wtab wtab_o winvtab winvtab_o p = Some r -> run_simd_sh ROWV sk degree (x ++ pad) x_o wtab wtab_o winvtab winvtab_o p = Some (e3z r).
Proof.
  unfold run_simd_sh. intros H. dfor H E1.
  change (x ++ pad, wtab_o, winvtab_o) with (e3 (x, wtab_o, winvtab_o)).
  apply (for_up_fr' e3) in E1; [|intros w s2 s3; apply layer_sh_fr; apply HROWV]. unfold St in E1 |- *. rewrite E1. cbn [bind] in H |- *.
  destruct s1 as [[x1 a1] b1]. cbv zeta in H |- *. apply (last_layer_sh_fr _ (row_s1_fr sk p wtab winvtab x_o) degree _ (x1, a1, b1)). exact H.
Qed.

Definition e4b (s : St4 * bool) : St4 * bool := (e4 (fst s), snd s).
Definition RUNfr (RUN : Z -> list Z -> Z -> list Z -> Z -> list Z -> Z -> Z -> option (St * Z)) : Prop :=
  forall degree x x_o wtab wtab_o winvtab winvtab_o p r, RUN degree x x_o wtab wtab_o winvtab winvtab_o p = Some r -> RUN degree (x ++ pad) x_o wtab wtab_o winvtab winvtab_o p = Some (e3z r).

Lemma ntt_sh_fr RUN deg2k fusedk strictk (HRUN : RUNfr RUN) degree x x_o wtab wtab_o winvtab winvtab_o p r :
  ntt_sh RUN deg2k fusedk strictk degree x x_o wtab wtab_o winvtab winvtab_o p = Some r -> ntt_sh RUN deg2k fusedk strictk degree (x ++ pad) x_o wtab wtab_o winvtab winvtab_o p = Some (e4b r).
Proof.
  unfold ntt_sh. cbv zeta. destruct (degree =? 1); [intros H; injection H as <-; reflexivity|].
  destruct (degree =? 2).
  - intros H. stp H. stp H. stp H. destruct p0 as [o0 o1]. stp H. stp H. injection H as <-. reflexivity.
  - intros H. destruct (RUN degree x x_o wtab wtab_o winvtab winvtab_o p) as [r1|] eqn:E1; [|discriminate H]. rewrite (HRUN _ _ _ _ _ _ _ _ _ E1).
    destruct r1 as [[[x1 a1] b1] ret]. cbn [bind e3z e3 fst snd] in H |- *.
    dfor H E2.
    change (x1 ++ pad, x_o, a1, b1) with (e4 (x1, x_o, a1, b1)).
    apply (for_up_fr' e4) in E2.
    2:{ clear. intros i [[[y yo] wa] wb] s' H. cbn [e4].
        stp H. stp H. stp H. stp H. stp H. stp H. stp H. destruct p0 as [[[o0 o1] o2] o3]. stp H. stp H. stp H. stp H. injection H as <-. reflexivity. }
    unfold St4 in E2 |- *. rewrite E2.
    destruct s1 as [[[x2 xo2] a2] b2]. cbn [bind e4] in H |- *.
    dfor H E3.
    change (x2 ++ pad, xo2, a2, b2) with (e4 (x2, xo2, a2, b2)).
    apply (for_up_fr' e4) in E3.
    2:{ clear. intros i [[[y yo] wa] wb] s' H. cbn [e4]. stp H. stp H. stp H. injection H as <-. reflexivity. }
    unfold St4 in E3 |- *. rewrite E3.
    destruct s1 as [[[x3 xo3] a3] b3]. cbn [bind e4] in H |- *. injection H as <-. reflexivity.
Qed.
End Frame.
