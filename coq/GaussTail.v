From Coq Require Import Reals Lra Lia.
From Coquelicot Require Import Coquelicot.
Open Scope R_scope.

(* one-sided Gaussian tail, dominated by a geometric series:
   for a > 0, t0 >= 0:  sum_{n>=0} exp(-a (t0+n)^2)  <=  exp(-a t0^2) / (1 - exp(-a (2 t0 + 1))) *)
Section Tail.
Variables a t0 : R.
Hypothesis Ha : 0 < a.
Hypothesis Ht : 0 <= t0.
Definition rho (n : nat) : R := exp (- a * (t0 + INR n) ^ 2).
Definition r : R := exp (- a * (2 * t0 + 1)).

Lemma r_lt1 : 0 < r < 1.
Proof. unfold r. split; [apply exp_pos|].
  assert (H : 0 < a * (2 * t0 + 1)) by (apply Rmult_lt_0_compat; lra).
  assert (E : exp (- a * (2 * t0 + 1)) < exp 0).
  { apply exp_increasing. replace (- a * (2 * t0 + 1)) with (- (a * (2 * t0 + 1))) by ring. lra. }
  now rewrite exp_0 in E. Qed.

Lemma rho_le n : 0 <= rho n <= exp (- a * t0 ^ 2) * r ^ n.
Proof.
  unfold rho, r. split; [left; apply exp_pos|].
  assert (E : exp (- a * (2 * t0 + 1)) ^ n = exp (INR n * (- a * (2 * t0 + 1)))).
  { induction n. - simpl. rewrite Rmult_0_l, exp_0. reflexivity.
    - rewrite S_INR. simpl pow. rewrite IHn, <- exp_plus. f_equal. ring. }
  rewrite E, <- exp_plus.
  assert (Hn : 0 <= INR n) by apply pos_INR.
  assert (Hn2 : INR n <= INR n * INR n).
  { destruct n. - simpl. lra. - assert (1 <= INR (S n)) by (rewrite S_INR; pose proof (pos_INR n); lra). nra. }
  assert (K : a * (t0 ^ 2 + INR n * (2 * t0 + 1)) <= a * (t0 + INR n) ^ 2).
  { apply Rmult_le_compat_l; [lra|]. nra. }
  assert (L : - a * (t0 + INR n) ^ 2 <= - a * t0 ^ 2 + INR n * (- a * (2 * t0 + 1))).
  { replace (- a * t0 ^ 2 + INR n * (- a * (2 * t0 + 1))) with (- (a * (t0 ^ 2 + INR n * (2 * t0 + 1)))) by ring.
    replace (- a * (t0 + INR n) ^ 2) with (- (a * (t0 + INR n) ^ 2)) by ring. lra. }
  destruct L as [L|L]; [left; apply exp_increasing; exact L | right; now rewrite L].
Qed.

Lemma ex_rho : ex_series rho.
Proof.
  apply (ex_series_le (V := R_CompleteNormedModule) rho (fun n => exp (- a * t0 ^ 2) * r ^ n)).
  - intros n. unfold norm; simpl. unfold abs; simpl. rewrite Rabs_pos_eq; apply rho_le.
  - apply (ex_series_scal_l (V := R_NormedModule)). apply ex_series_geom. rewrite Rabs_pos_eq; [apply r_lt1 | left; apply r_lt1].
Qed.

Lemma tail_bound : Series rho <= exp (- a * t0 ^ 2) / (1 - r).
Proof.
  apply Rle_trans with (Series (fun n => exp (- a * t0 ^ 2) * r ^ n)).
  - apply Series_le. + apply rho_le.
    + apply (ex_series_scal_l (V := R_NormedModule)). apply ex_series_geom. rewrite Rabs_pos_eq; [apply r_lt1 | left; apply r_lt1].
  - rewrite Series_scal_l, Series_geom by (rewrite Rabs_pos_eq; [apply r_lt1 | left; apply r_lt1]). unfold Rdiv. lra.
Qed.
End Tail.
Print Assumptions tail_bound.
