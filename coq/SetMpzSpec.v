(* poly::set_mpz(It first, It last) of gmp.hpp translated from the source (It = const mpz_class*: the instance behind every big-integer
   setter and constructor) is the list setter of C15 with the reduction always on, the values being arbitrary integers and the reduction
   mpz_fdiv_ui (floor remainder): same size check, same rewind rule, same copy / padding loops. *)
From Coq Require Import ZArith List Lia Bool Arith.
From NTT Require Import Setters CxxSem MemSem GmpSem LoopSpec GaussSetSpec SetterSpec.
From NTT.gen Require Import GenLoop.
Import ListNotations.
Local Open Scope Z_scope.

Definition setm_sh (redk : Z -> Z -> option Z) (stw : Z -> Z) (fuel : nat) (degree : Z) (_data : list Z) (vals : list Z) (first_o : Z) (last_o : Z) (nmoduli : Z) (P : list Z) : option SS :=
  (let viter_o := 0 in (let iter_o := 0 in (bind (dist vals first_o last_o) (fun dist_1 => (let size_2 := (uw 64 dist_1) in (bind (if ((size_2 >? degree) && (negb (size_2 =? (uw 64 (degree * nmoduli))))) then None else Some (_data, viter_o, iter_o)) (fun '(_data, viter_o, iter_o) => (let iter_o := 0 in (let viter_o := first_o in (bind (for_up 0 nmoduli 1 (fun cm_3 '(_data, viter_o, iter_o) => (let p_4 := (tabP P cm_3) in (bind (if (negb (size_2 =? (uw 64 (degree * nmoduli)))) then (let viter_o := first_o in Some (_data, viter_o, iter_o)) else Some (_data, viter_o, iter_o)) (fun '(_data, viter_o, iter_o) => (let i_5 := 0 in (bind (while_fuel fuel (fun '(_data, viter_o, iter_o, i_6) => ((i_6 <? degree) && (viter_o <? last_o))) (fun '(_data, viter_o, iter_o, i_6) => (bind (ld vals viter_o) (fun ld_7 => (bind (redk ld_7 p_4) (fun fd_8 => (bind (st _data iter_o (stw fd_8)) (fun _data => (let i_9 := (uw 64 (i_6 + 1)) in (let viter_o := (viter_o + 1) in (let iter_o := (iter_o + 1) in Some (_data, viter_o, iter_o, i_9))))))))))) (_data, viter_o, iter_o, i_5)) (fun '(_data, viter_o, iter_o, i_10) => (bind (while_fuel fuel (fun '(_data, viter_o, iter_o, i_11) => (i_11 <? degree)) (fun '(_data, viter_o, iter_o, i_11) => (bind (st _data iter_o 0) (fun _data => (let i_12 := (uw 64 (i_11 + 1)) in (let iter_o := (iter_o + 1) in Some (_data, viter_o, iter_o, i_12)))))) (_data, viter_o, iter_o, i_10)) (fun '(_data, viter_o, iter_o, i_13) => Some (_data, viter_o, iter_o)))))))))) (_data, viter_o, iter_o)) (fun '(_data, viter_o, iter_o) => Some (_data, viter_o, iter_o)))))))))))).

Lemma setm_u16_shape : gen_set_mpz_u16 = setm_sh gmp_fdiv_ui (fun c => uw 16 c). Proof. reflexivity. Qed.
Lemma setm_u32_shape : gen_set_mpz_u32 = setm_sh gmp_fdiv_ui (fun c => uw 32 c). Proof. reflexivity. Qed.
Lemma setm_u64_shape : gen_set_mpz_u64 = setm_sh gmp_fdiv_ui (fun c => c). Proof. reflexivity. Qed.

Lemma while_fuel_ext {S} (c : S -> bool) (b b' : S -> option S) : (forall s, b s = b' s) -> forall fuel s, while_fuel fuel c b s = while_fuel fuel c b' s.
Proof. intros E fuel. induction fuel as [|fu IH]; intros s; cbn [while_fuel]; [reflexivity|]. destruct (c s); [|reflexivity]. rewrite E. destruct (b' s); cbn [bind]; [apply IH | reflexivity]. Qed.
Lemma for_fuel_ext {S} (b b' : Z -> S -> option S) : (forall i s, b i s = b' i s) -> forall n i hi step s, for_fuel n i hi step b s = for_fuel n i hi step b' s.
Proof. intros E n. induction n as [|n IH]; intros i hi step s; cbn [for_fuel]; destruct (i <? hi); try reflexivity. rewrite E. destruct (b' i s); cbn [bind]; [|reflexivity]. destruct (i + step <? 2 ^ 64); [apply IH | reflexivity]. Qed.
Lemma for_up_ext {S} (b b' : Z -> S -> option S) lo hi step s : (forall i s, b i s = b' i s) -> for_up lo hi step b s = for_up lo hi step b' s.
Proof. intros E. unfold for_up. apply for_fuel_ext. exact E. Qed.

Lemma setm_eq redk stw fuel degree _data vals first_o last_o nmoduli P :
  setm_sh redk stw fuel degree _data vals first_o last_o nmoduli P = setl_sh redk stw fuel degree _data vals first_o last_o true nmoduli P.
Proof.
  unfold setm_sh, setl_sh. cbv zeta. destruct (dist vals first_o last_o) as [d|]; [|reflexivity]. cbn [bind].
  destruct (_ && _); [reflexivity|]. cbn [bind]. f_equal. apply for_up_ext. intros cm [[d0 v0] i0].
  match goal with |- bind ?e _ = bind ?e _ => destruct e as [[[d1 v1] i1]|]; [|reflexivity] end. cbn [bind].
  f_equal. apply while_fuel_ext. intros [[[d2 v2] i2] j2]. destruct (ld vals v2); reflexivity.
Qed.

Lemma fdiv_ok v p : 0 < p -> gmp_fdiv_ui v p = Some (v mod p).
Proof. intros Hp. unfold gmp_fdiv_ui. destruct (Z.eqb_spec p 0); [lia | reflexivity]. Qed.

Section Inst.
Variables (n nm : nat) (P vals data0 : list Z) (f l : nat) (fuel : nat).
Hypothesis Hfl : (f <= l <= length vals)%nat.
Hypothesis Hd : length data0 = (nm * n)%nat.
Hypothesis Hsmall : Z.of_nat (nm * n) < 2 ^ 61.
Hypothesis Hn61 : Z.of_nat n < 2 ^ 61.
Hypothesis Hnm61 : Z.of_nat nm < 2 ^ 61.
Hypothesis Hl61 : Z.of_nat (length vals) < 2 ^ 61.
Hypothesis Hfuel : (n < fuel)%nat.
Hypothesis HPl : (nm <= length P)%nat.
Definition outm := set_list n nm (fun cm => nth cm P 0) true (firstn (l - f) (skipn f vals)) data0.
Definition resm (o : option SS) := option_map (fun s : SS => fst (fst s)) o.
Lemma allT : Forall (fun _ : Z => True) vals. Proof. apply Forall_forall. intros; exact I. Qed.

Theorem source_set_mpz_u16 : Forall (fun p => 0 < p < 2 ^ 16) (firstn nm P) -> resm (gen_set_mpz_u16 fuel (Z.of_nat n) data0 vals (Z.of_nat f) (Z.of_nat l) (Z.of_nat nm) P) = outm.
Proof.
  intros HP. rewrite setm_u16_shape, setm_eq. apply (setter_is_model_gen 16 gmp_fdiv_ui (fun c => uw 16 c) (fun _ => True)); try assumption; try lia; try exact allT; try (intros H; discriminate H); try (intros v p _ Hp; apply fdiv_ok; lia); try (intros c Hc; apply uw_small; exact Hc); try (intros c Hc; reflexivity).
Qed.
Theorem source_set_mpz_u32 : Forall (fun p => 0 < p < 2 ^ 32) (firstn nm P) -> resm (gen_set_mpz_u32 fuel (Z.of_nat n) data0 vals (Z.of_nat f) (Z.of_nat l) (Z.of_nat nm) P) = outm.
Proof.
  intros HP. rewrite setm_u32_shape, setm_eq. apply (setter_is_model_gen 32 gmp_fdiv_ui (fun c => uw 32 c) (fun _ => True)); try assumption; try lia; try exact allT; try (intros H; discriminate H); try (intros v p _ Hp; apply fdiv_ok; lia); try (intros c Hc; apply uw_small; exact Hc); try (intros c Hc; reflexivity).
Qed.
Theorem source_set_mpz_u64 : Forall (fun p => 0 < p < 2 ^ 64) (firstn nm P) -> resm (gen_set_mpz_u64 fuel (Z.of_nat n) data0 vals (Z.of_nat f) (Z.of_nat l) (Z.of_nat nm) P) = outm.
Proof.
  intros HP. rewrite setm_u64_shape, setm_eq. apply (setter_is_model_gen 64 gmp_fdiv_ui (fun c => c) (fun _ => True)); try assumption; try lia; try exact allT; try (intros H; discriminate H); try (intros v p _ Hp; apply fdiv_ok; lia); try (intros c Hc; apply uw_small; exact Hc); try (intros c Hc; reflexivity).
Qed.
End Inst.
