(* C19 — key seeding survives short reads and transient entropy-source failures.  Statements only (RandBytes.v). *)
From Coq Require Import List Arith.
From NTT Require Import RandBytes.

(* one call, any event list on which it completes: exactly xlen bytes, exactly those delivered, in order; <= 1 successful open *)
Theorem C19_one_call : forall evs s xlen s' out rest, Inv s -> randombytes evs s xlen = Some (s', out, rest) ->
  length out = xlen /\ (exists used, evs = used ++ rest /\ out = delivered used) /\ Inv s' /\ opens_ok s' <= 1.
Proof. exact randombytes_correct. Qed.
Print Assumptions C19_one_call.

(* any sequence of calls in one process *)
Theorem C19_all_calls : forall lens evs s s' outs rest, Inv s -> calls evs s lens = Some (s', outs, rest) ->
  map (@length nat) outs = lens /\ (exists used, evs = used ++ rest /\ concat outs = delivered used) /\ opens_ok s' <= 1.
Proof. exact calls_correct. Qed.
Print Assumptions C19_all_calls.
