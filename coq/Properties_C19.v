(* C19 — key seeding survives short reads and transient entropy-source failures.  Statements only (RandBytes.v). *)
From Coq Require Import List Arith ZArith.
From NTT Require Import RandBytes.
From NTT Require RandBytesSrc OsSem.
From NTT.gen Require GenOs.

(* one call, any event list on which it completes: exactly xlen bytes, exactly those delivered, in order; <= 1 successful open *)
Theorem C19_one_call : forall evs s xlen s' out rest, Inv s -> randombytes evs s xlen = Some (s', out, rest) ->
  length out = xlen /\ (exists used, evs = used ++ rest /\ out = delivered used) /\ Inv s' /\ opens_ok s' <= 1.
Proof. exact randombytes_correct. Qed.
Print Assumptions C19_one_call.

(* any sequence of calls in one process *)
Theorem C19_all_calls : forall lens evs s s' outs rest, Inv s -> calls evs s lens = Some (s', outs, rest) ->
  map (@length nat) outs = lens /\ (exists used, evs = used ++ rest /\ concat outs = delivered used) /\ opens_ok s' <= 1.
Proof. exact calls_correct. Qed.
Print Assumptions C19_all_calls.

(* progress: k failed opens, one successful open, then ANY interleaving of failed / empty reads with single-byte
   deliveries containing at least xlen deliveries: the call returns (it is never left blocked) *)
Theorem C19_progress : forall k reads s xlen, fd_open s = false -> forallb unit_read reads = true -> xlen <= deliveries reads ->
  randombytes (repeat OpenFail k ++ OpenOk :: reads) s xlen <> None.
Proof. exact call_progress. Qed.
Print Assumptions C19_progress.

(* nfl::randombytes OF THE SOURCE (lib/prng/randombytes.cpp), translated by tools/cxxos2coq.py on every run into gen/GenOs.v: the program
   state is a record (the static descriptor fd, the buffer x with its offset, xlen, i, the script of OS answers still to come, the number
   of sleeps); `for (;;)` with `break`, `while` with `continue` are the fuelled loops of OsSem.v; open(2) / read(2) consume one scripted
   answer each (a read delivers at most `count` bytes, stored at x); integer conversions follow the C types.  On every script on which the
   model above completes, the translated function completes (fuel: one iteration per answer), consumes the same answers, sleeps as often,
   ends with the descriptor open and xlen = 0, and x[0 .. xlen) holds exactly the model's output -- so C19_one_call / C19_all_calls are
   statements about the translated source. *)
Theorem C19_source_randombytes : forall evs (s : GenOs.st) hs xlen hs' out rest', List.Forall RandBytesSrc.ev_ok evs -> GenOs.w_os s = evs ->
  (GenOs.v_xlen s = Z.of_nat xlen)%Z -> (Z.of_nat xlen < 2 ^ 62)%Z ->
  (0 <= GenOs.o_x s)%Z -> (GenOs.o_x s + Z.of_nat xlen <= Z.of_nat (length (GenOs.b_x s)))%Z ->
  fd_open hs = negb (GenOs.v_fd s =? -1)%Z ->
  randombytes (List.map RandBytesSrc.tr evs) hs xlen = Some (hs', out, rest') ->
  forall fuel, length evs < fuel ->
  exists s', GenOs.gen_randombytes fuel s = Some (OsSem.Norm s') /\ (GenOs.v_xlen s' = 0)%Z /\ (GenOs.v_fd s' <> -1)%Z /\ List.map RandBytesSrc.tr (GenOs.w_os s') = rest' /\ length out = xlen /\
    GenOs.b_x s' = (firstn (Z.to_nat (GenOs.o_x s)) (GenOs.b_x s) ++ List.map Z.of_nat out ++ skipn (Z.to_nat (GenOs.o_x s) + xlen) (GenOs.b_x s))%list /\
    (GenOs.o_x s' = GenOs.o_x s + Z.of_nat xlen)%Z /\ (GenOs.w_sleeps s' = GenOs.w_sleeps s + Z.of_nat (sleeps hs' - sleeps hs))%Z.
Proof. exact RandBytesSrc.source_randombytes. Qed.
Print Assumptions C19_source_randombytes.
