(* C19 — key seeding survives short reads and transient entropy-source failures.  Statements only (RandBytes.v). *)
From Coq Require Import List Arith.
From NTT Require Import RandBytes.

(* one call, any event list on which it completes: exactly xlen bytes, exactly those delivered, in order; <= 1 successful open *)
Theorem C19_one_call : forall evs s xlen s' out rest, Inv s -> randombytes evs s xlen = Some (s', out, rest) ->
  length out = xlen /\ (exists used, evs = used ++ rest /\ out = delivered used) /\ Inv s' /\ opens_ok s' <= 1.
Proof. exact randombytes_correct. Qed.
Print Assumptions C19_one_call.

(* any sequence of calls in one process *)
Theorem C19_all_calls : forall lens evs s s' outs rest, Inv s -> calls evs s lens = Some (s', outs, rest) ->
  map (@length nat) outs = lens /\ (exists used, evs = used ++ rest /\ concat outs = delivered used) /\ opens_ok s' <= 1.
Proof. exact calls_correct. Qed.
Print Assumptions C19_all_calls.

(* progress: k failed opens, one successful open, then ANY interleaving of failed / empty reads with single-byte
   deliveries containing at least xlen deliveries: the call returns (it is never left blocked) *)
Theorem C19_progress : forall k reads s xlen, fd_open s = false -> forallb unit_read reads = true -> xlen <= deliveries reads ->
  randombytes (repeat OpenFail k ++ OpenOk :: reads) s xlen <> None.
Proof. exact call_progress. Qed.
Print Assumptions C19_progress.
