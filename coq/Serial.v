From Coq Require Import ZArith Lia List Arith.
Import ListNotations.
Local Open Scope Z_scope.

(* ---- C13: the 8-byte little-endian nonce of fastrandombytes and its increment ---- *)
Fixpoint le_decode (bs : list Z) : Z := match bs with [] => 0 | b :: r => b + 256 * le_decode r end.
Fixpoint le_encode (n : nat) (x : Z) : list Z := match n with O => [] | S n' => x mod 256 :: le_encode n' (x / 256) end.

Lemma le_decode_encode n x : 0 <= x < 256 ^ Z.of_nat n -> le_decode (le_encode n x) = x.
Proof.
  revert x; induction n as [|n IH]; intros x Hx.
  - cbn [le_encode le_decode]. change (256 ^ Z.of_nat 0) with 1 in Hx. lia.
  - cbn [le_encode le_decode]. rewrite Nat2Z.inj_succ, Z.pow_succ_r in Hx by lia.
    rewrite IH. + pose proof (Z.div_mod x 256 ltac:(lia)). lia.
    + split; [apply Z.div_pos; lia | apply Z.div_lt_upper_bound; lia].
Qed.
Lemma le_encode_bytes n x : Forall (fun b => 0 <= b < 256) (le_encode n x).
Proof. revert x; induction n; intros x; simpl; constructor; auto. apply Z.mod_pos_bound. lia. Qed.
Lemma le_encode_length n x : length (le_encode n x) = n.
Proof. revert x; induction n; intros; simpl; auto. Qed.
Lemma le_encode_decode bs : Forall (fun b => 0 <= b < 256) bs -> le_encode (length bs) (le_decode bs) = bs.
Proof. induction 1 as [|b r Hb Hr IH]; [reflexivity|]. cbn [le_encode le_decode length].
  replace (b + 256 * le_decode r) with (b + le_decode r * 256) by ring.
  rewrite Z.mod_add, Z.div_add by lia. rewrite Z.mod_small, Z.div_small by lia. rewrite Z.add_0_l. now rewrite IH. Qed.

(* ================= C16: raw serialisation of the coefficient array ================= *)
Section Serial.
Variable wb : nat.                          (* bytes per limb: 2, 4 or 8 *)
Hypothesis wb_pos : (0 < wb)%nat.

Definition serialize (ws : list Z) : list Z := flat_map (le_encode wb) ws.

(* istream::read of cnt limbs: all-or-fail on the stream; on a short stream the bytes present are still
   copied (whole limbs and a partial one), failbit is set, the stream is exhausted *)
Fixpoint chunks (cnt : nat) (bs : list Z) : list Z :=
  match cnt with O => [] | S c => le_decode (firstn wb bs) :: chunks c (skipn wb bs) end.
Definition deserialize (cnt : nat) (stream : list Z) : list Z * list Z * bool :=
  if (cnt * wb <=? length stream)%nat
  then (chunks cnt stream, skipn (cnt * wb) stream, true)
  else (chunks (length stream / wb) stream, [], false).          (* only the limbs wholly present are reported *)

Lemma serialize_length ws : length (serialize ws) = (length ws * wb)%nat.
Proof. induction ws as [|x ws IH]; simpl; auto. now rewrite app_length, le_encode_length, IH. Qed.

Lemma chunks_serialize ws rest : Forall (fun x => 0 <= x < 256 ^ Z.of_nat wb) ws ->
  chunks (length ws) (serialize ws ++ rest) = ws.
Proof.
  induction 1 as [|x ws Hx Hws IH]; [reflexivity|]. cbn [serialize flat_map length chunks]. rewrite <- app_assoc.
  rewrite firstn_app, le_encode_length, Nat.sub_diag, firstn_O, app_nil_r, firstn_all2 by (rewrite le_encode_length; lia).
  rewrite le_decode_encode by exact Hx.
  rewrite skipn_app, le_encode_length, Nat.sub_diag, skipn_O, skipn_all2 by (rewrite le_encode_length; lia).
  cbn [app]. f_equal. exact IH.
Qed.

(* round trip, exact length, several polynomials back to back *)
Theorem deserialize_serialize ws rest : Forall (fun x => 0 <= x < 256 ^ Z.of_nat wb) ws ->
  deserialize (length ws) (serialize ws ++ rest) = (ws, rest, true).
Proof.
  intros H. unfold deserialize. rewrite app_length, serialize_length.
  replace (length ws * wb <=? length ws * wb + length rest)%nat with true by (symmetry; apply Nat.leb_le; lia).
  rewrite chunks_serialize by exact H. f_equal. f_equal.
  rewrite skipn_app, serialize_length, Nat.sub_diag, skipn_O, skipn_all2 by (rewrite serialize_length; lia). reflexivity.
Qed.

(* every truncation point reports failure *)
Theorem deserialize_truncated cnt stream : (length stream < cnt * wb)%nat -> snd (deserialize cnt stream) = false.
Proof. intros H. unfold deserialize. replace (cnt * wb <=? length stream)%nat with false by (symmetry; apply Nat.leb_gt; lia). reflexivity. Qed.

Lemma Forall_firstn' {A} (Pr : A -> Prop) (l : list A) k : Forall Pr l -> Forall Pr (firstn k l).
Proof. intros H. revert k. induction H; intros [|k]; simpl; constructor; auto. Qed.
Lemma Forall_skipn' {A} (Pr : A -> Prop) (l : list A) k : Forall Pr l -> Forall Pr (skipn k l).
Proof. intros H. revert k. induction H; intros [|k]; simpl; auto. Qed.

(* what the object holds after a short read: the bytes present overlay the old content, nothing else changes *)
Definition overlay (old : list Z) (stream : list Z) : list Z :=
  let ob := serialize old in chunks (length old) (firstn (length ob) stream ++ skipn (length stream) ob).

Lemma chunks_app_whole ws rest cnt : Forall (fun x => 0 <= x < 256 ^ Z.of_nat wb) ws ->
  chunks (length ws + cnt) (serialize ws ++ rest) = ws ++ chunks cnt rest.
Proof.
  induction 1 as [|x ws Hx Hws IH]; [reflexivity|]. cbn [serialize flat_map length chunks plus app]. rewrite <- app_assoc.
  rewrite firstn_app, le_encode_length, Nat.sub_diag, firstn_O, app_nil_r, firstn_all2 by (rewrite le_encode_length; lia).
  rewrite le_decode_encode by exact Hx.
  rewrite skipn_app, le_encode_length, Nat.sub_diag, skipn_O, skipn_all2 by (rewrite le_encode_length; lia).
  cbn [app]. f_equal. exact IH.
Qed.

(* a stream cut after k whole limbs of `ws` (plus nothing): the first k words are restored, the others keep their old value *)
Theorem overlay_whole_limbs old ws k : length ws = length old -> (k <= length old)%nat ->
  Forall (fun x => 0 <= x < 256 ^ Z.of_nat wb) ws -> Forall (fun x => 0 <= x < 256 ^ Z.of_nat wb) old ->
  overlay old (serialize (firstn k ws)) = firstn k ws ++ skipn k old.
Proof.
  intros Hl Hk Hw Ho. unfold overlay.
  assert (Lk : length (firstn k ws) = k) by (rewrite firstn_length; lia).
  rewrite firstn_all2 by (rewrite !serialize_length; rewrite Lk; nia).
  rewrite serialize_length, Lk.
  assert (E : skipn (k * wb) (serialize old) = serialize (skipn k old)).
  { clear - wb_pos. revert k. induction old as [|x old IH]; intros k.
    - destruct k; cbn [serialize flat_map]; rewrite ?skipn_nil; reflexivity.
    - destruct k as [|k]; [reflexivity|]. cbn [serialize flat_map skipn mult].
      rewrite skipn_app, le_encode_length. replace (wb + k * wb - wb)%nat with (k * wb)%nat by lia.
      rewrite skipn_all2 by (rewrite le_encode_length; lia). cbn [app]. apply IH. }
  rewrite E.
  replace (length old) with (length (firstn k ws) + length (skipn k old))%nat by (rewrite Lk, skipn_length; lia).
  rewrite chunks_app_whole by (apply Forall_firstn'; exact Hw). f_equal.
  rewrite <- (app_nil_r (serialize (skipn k old))). rewrite <- (Nat.add_0_r (length (skipn k old))).
  rewrite chunks_app_whole by (apply Forall_skipn'; exact Ho). cbn [chunks]. apply app_nil_r.
Qed.
End Serial.
Print Assumptions deserialize_serialize.
Print Assumptions overlay_whole_limbs.
