(* C03/C05: the per-lane computations of the remaining SSE/AVX2 kernels (submod, mulmod_shoup u32/u16, muladd_shoup u16,
   the vector Harvey butterfly) with their machine widths, signed-compare tricks and pack saturation, and their equality
   with the scalar functors.  Data movement between lanes (shuffle, blend, cvtepu16_epi32 widening, permute, pack order) is
   lane-preserving and is not modelled here: what IS modelled is everything that could change a value. *)
From Coq Require Import ZArith Lia List.
From NTT Require Import Functors ScalarOps Simd.
Local Open Scope Z_scope.

Definition sg (w x : Z) : Z := if x <? 2 ^ (w - 1) then x else x - 2 ^ w.            (* two's complement view of a w-bit lane *)
(* mask lane of  cmpgt(z - 0x80.., c - 0x80.. - 1): all ones iff z >= c (unsigned), for w-bit lanes *)
Definition ge_mask (w z c : Z) : bool := sg w ((z - 2 ^ (w - 1)) mod 2 ^ w) >? sg w ((c - 2 ^ (w - 1) - 1) mod 2 ^ w).

Lemma ge_mask_spec w z c : 1 < w -> 0 < c < 2 ^ w -> 0 <= z < 2 ^ w -> ge_mask w z c = (z >=? c).
Proof. intros Hw Hc Hz. unfold ge_mask, sg. exact (cmp_trick w Hw c z Hc Hz). Qed.

(* ---------- submod<T, sse/avx2>: addmod(x, set1(p) - y) ---------- *)
Definition lane_add (w p x y : Z) : Z := let z := (x + y) mod 2 ^ w in (z - (if ge_mask w z p then p else 0)) mod 2 ^ w.
Definition lane_sub (w p x y : Z) : Z := lane_add w p x ((p - y) mod 2 ^ w).

Lemma lane_add_scalar w p x y : 1 < w -> 0 < p < 2 ^ w -> 0 <= x -> 0 <= y -> x + y < 2 ^ w -> lane_add w p x y = addmod w p x y.
Proof.
  intros Hw Hp Hx Hy Hs. unfold lane_add, addmod, wr. rewrite (Z.mod_small (x + y)) by lia.
  rewrite ge_mask_spec by lia. reflexivity.
Qed.

Theorem lane_sub_exact w p x y : 1 < w -> 0 < p -> 2 * p <= 2 ^ w -> 0 <= x < p -> 0 <= y < p -> lane_sub w p x y = (x - y) mod p.
Proof.
  intros Hw Hp HB Hx Hy. unfold lane_sub. rewrite (Z.mod_small (p - y)) by lia.
  rewrite lane_add_scalar by lia. rewrite <- (submod_correct w ltac:(lia) p x y) by lia.
  unfold submod, wr. rewrite (Z.mod_small (p - y)) by lia. reflexivity.
Qed.

(* ---------- mulmod_shoup<uint32_t, sse>: 64-bit lanes for the products, low 32 bits kept ---------- *)
Definition lane_mulshoup32 (p x y y' : Z) : Z :=
  let q := (x * y') / 2 ^ 32 in                                   (* mulhi_epu32 *)
  let res := ((x * y) mod 2 ^ 64 - (q * p) mod 2 ^ 64) mod 2 ^ 64 in   (* _mm_sub_epi64(_mm_mul_epu32(x,y), _mm_mul_epu32(q,p)) *)
  let r := (res - (if ge_mask 64 res p then p else 0)) mod 2 ^ 64 in
  r mod 2 ^ 32.                                                   (* blend keeps the low 32-bit half of each 64-bit lane *)

Theorem lane_mulshoup32_exact p x y : Hrow 32 p -> 0 <= x < p -> 0 <= y < p ->
  lane_mulshoup32 p x y ((y * 2 ^ 32) / p) = (x * y) mod p.
Proof.
  intros H Hx Hy. destruct (Hrow_facts 32 p H) as (Hp & H4 & _ & H2 & HpB). unfold lane_mulshoup32.
  pose proof (shoup_range (2 ^ 32) p y x Hp ltac:(lia) Hy ltac:(lia)) as [R C]. cbv zeta in R, C.
  set (q := x * (y * 2 ^ 32 / p) / 2 ^ 32) in *.
  assert (Q0 : 0 <= q).
  { unfold q. apply Z.div_pos; [|lia]. apply Z.mul_nonneg_nonneg; [lia|]. apply Z.div_pos; lia. }
  assert (XY : 0 <= x * y < 2 ^ 62).
  { change (2 ^ 32) with 4294967296 in *. change (2 ^ 62) with 4611686018427387904.
    assert (x * y <= (p - 1) * (p - 1)) by nia. assert ((p - 1) * (p - 1) < 1073741824 * 1073741824) by nia. lia. }
  assert (QP : 0 <= q * p <= x * y) by nia.
  rewrite (Z.mod_small (x * y)) by (change (2 ^ 64) with 18446744073709551616; change (2 ^ 62) with 4611686018427387904 in XY; lia).
  rewrite (Z.mod_small (q * p)) by (change (2 ^ 64) with 18446744073709551616; change (2 ^ 62) with 4611686018427387904 in XY; lia).
  set (r0 := x * y - q * p) in *.
  assert (R0 : 0 <= r0 < 2 * p) by (change (2 ^ 32) with 4294967296 in *; nia).
  rewrite (Z.mod_small r0) by (change (2 ^ 64) with 18446744073709551616; change (2 ^ 32) with 4294967296 in *; lia).
  rewrite ge_mask_spec by (try lia; change (2 ^ 64) with 18446744073709551616; change (2 ^ 32) with 4294967296 in *; lia).
  pose proof (shoup_strict (2 ^ 32) p y x Hp H2 Hy Hx) as S. cbv zeta in S. fold q in S. fold r0 in S. rewrite <- S. clearbody r0. clearbody q.
  destruct (Z.geb_spec r0 p); destruct (Z.ltb_spec r0 p); try lia; cbv iota;
    rewrite (Z.mod_small _ (2 ^ 64)) by (change (2 ^ 64) with 18446744073709551616; change (2 ^ 32) with 4294967296 in *; lia);
    rewrite Z.mod_small by (change (2 ^ 32) with 4294967296 in *; lia); lia.
Qed.

(* ---------- mulmod_shoup / muladd_shoup <uint16_t, sse|avx2>: widen to 32-bit lanes, pack back with unsigned saturation ---------- *)
Definition sat16 (v : Z) : Z := if v <? 0 then 0 else if 65535 <? v then 65535 else v.       (* _mm_packus_epi32 on one signed 32-bit lane *)
Lemma sat16_sg v : 0 <= v < 65536 -> sat16 (sg 32 v) = v.
Proof.
  intros Hv. unfold sg. change (2 ^ (32 - 1)) with 2147483648. destruct (Z.ltb_spec v 2147483648); [|lia].
  unfold sat16. destruct (Z.ltb_spec v 0); [lia|]. destruct (Z.ltb_spec 65535 v); lia.
Qed.
Definition lane_mulshoup16 (p x y y' : Z) : Z :=
  let q := (x * y') / 2 ^ 16 in                                   (* _mm_mulhi_epu16 *)
  let res := ((x * y) mod 2 ^ 32 - (q * p) mod 2 ^ 32) mod 2 ^ 32 in   (* mullo_epi32 on the widened lanes, sub_epi32 *)
  let r := (res - (if ge_mask 32 res p then p else 0)) mod 2 ^ 32 in
  sat16 (sg 32 r).
Definition lane_muladdshoup16 (p rop x y y' : Z) : Z :=
  let q := (x * y') / 2 ^ 16 in
  let res := (rop + ((x * y) mod 2 ^ 32 - (q * p) mod 2 ^ 32) mod 2 ^ 32) mod 2 ^ 32 in
  let r := (res - (if ge_mask 32 res p then p else 0)) mod 2 ^ 32 in
  sat16 (sg 32 r).

Lemma shoup16_facts p x y : Hrow 16 p -> 0 <= x < p -> 0 <= y < p ->
  let q := (x * ((y * 2 ^ 16) / p)) / 2 ^ 16 in let r0 := x * y - q * p in
  0 <= q * p <= x * y /\ x * y < 2 ^ 28 /\ 0 <= r0 < 2 * p /\ r0 mod p = (x * y) mod p /\ (if r0 <? p then r0 else r0 - p) = (x * y) mod p.
Proof.
  intros H Hx Hy. cbv zeta. destruct (Hrow_facts 16 p H) as (Hp & H4 & _ & H2 & HpB).
  pose proof (shoup_range (2 ^ 16) p y x Hp ltac:(lia) Hy ltac:(lia)) as [R C]. cbv zeta in R, C.
  pose proof (shoup_strict (2 ^ 16) p y x Hp H2 Hy Hx) as S. cbv zeta in S.
  set (q := x * (y * 2 ^ 16 / p) / 2 ^ 16) in *. set (r0 := x * y - q * p) in *.
  assert (Q0 : 0 <= q).
  { unfold q. apply Z.div_pos; [|lia]. apply Z.mul_nonneg_nonneg; [lia|]. apply Z.div_pos; lia. }
  change (2 ^ 16) with 65536 in *. change (2 ^ 28) with 268435456.
  assert (x * y <= (p - 1) * (p - 1)) by nia. assert ((p - 1) * (p - 1) < 16384 * 16384) by nia.
  split; [split; [apply Z.mul_nonneg_nonneg; lia | unfold r0 in R; clear - R; clearbody q; lia]|]. split; [lia|]. split; [exact R|]. split; [exact C | exact S].
Qed.

Theorem lane_mulshoup16_exact p x y : Hrow 16 p -> 0 <= x < p -> 0 <= y < p ->
  lane_mulshoup16 p x y ((y * 2 ^ 16) / p) = (x * y) mod p.
Proof.
  intros H Hx Hy. destruct (Hrow_facts 16 p H) as (Hp & H4 & _ & H2 & HpB).
  destruct (shoup16_facts p x y H Hx Hy) as (QP & XY & R0 & _ & S). cbv zeta in QP, XY, R0, S.
  unfold lane_mulshoup16. set (q := x * (y * 2 ^ 16 / p) / 2 ^ 16) in *. set (r0 := x * y - q * p) in *.
  change (2 ^ 16) with 65536 in *. change (2 ^ 28) with 268435456 in XY.
  rewrite (Z.mod_small (x * y)) by (change (2 ^ 32) with 4294967296; lia).
  rewrite (Z.mod_small (q * p)) by (change (2 ^ 32) with 4294967296; lia).
  fold r0. rewrite (Z.mod_small r0) by (change (2 ^ 32) with 4294967296; lia).
  rewrite ge_mask_spec by (try lia; change (2 ^ 32) with 4294967296; lia). rewrite <- S.
  destruct (Z.geb_spec r0 p); destruct (Z.ltb_spec r0 p); try lia; cbv iota;
    rewrite (Z.mod_small _ (2 ^ 32)) by (change (2 ^ 32) with 4294967296; lia);
    rewrite sat16_sg by lia; lia.
Qed.

Theorem lane_muladdshoup16_lazy p rop x y : Hrow 16 p -> 0 <= rop < p -> 0 <= x < p -> 0 <= y < p ->
  let r := lane_muladdshoup16 p rop x y ((y * 2 ^ 16) / p) in
  r = muladd_shoup 16 p rop x y ((y * 2 ^ 16) / p) /\ 0 <= r < 2 * p /\ r mod p = (x * y + rop) mod p.
Proof.
  intros H Hr Hx Hy. destruct (Hrow_facts 16 p H) as (Hp & H4 & _ & H2 & HpB).
  destruct (shoup16_facts p x y H Hx Hy) as (QP & XY & R0 & C & _). cbv zeta in QP, XY, R0, C.
  pose proof (muladd_shoup_lazy 16 ltac:(lia) p rop x y Hp H4 Hr Hx Hy) as [L1 L2]. cbv zeta in L1, L2.
  assert (E : lane_muladdshoup16 p rop x y (y * 2 ^ 16 / p) = muladd_shoup 16 p rop x y (y * 2 ^ 16 / p)).
  { unfold lane_muladdshoup16, muladd_shoup, wr.
    set (q := x * (y * 2 ^ 16 / p) / 2 ^ 16) in *. set (r0 := x * y - q * p) in *.
    change (2 ^ 16) with 65536 in *. change (2 ^ 28) with 268435456 in XY.
    rewrite (Z.mod_small (x * y) (2 ^ 32)) by (change (2 ^ 32) with 4294967296; lia).
    rewrite (Z.mod_small (q * p) (2 ^ 32)) by (change (2 ^ 32) with 4294967296; lia).
    fold r0. rewrite (Z.mod_small r0 (2 ^ 32)) by (change (2 ^ 32) with 4294967296; lia).
    rewrite (Z.mod_small (rop + r0) (2 ^ 32)) by (change (2 ^ 32) with 4294967296; lia).
    (* scalar side: 16-bit wraps of the same quantities *)
    assert (W1 : (x * y) mod 65536 - (q * p) mod 65536 = r0 + 65536 * ((q * p) / 65536 - (x * y) / 65536)).
    { pose proof (Z.div_mod (x * y) 65536 ltac:(lia)). pose proof (Z.div_mod (q * p) 65536 ltac:(lia)). unfold r0. lia. }
    assert (W2 : ((x * y) mod 65536 - (q * p) mod 65536) mod 65536 = r0).
    { rewrite W1. rewrite Z.mul_comm, Z.mod_add by lia. apply Z.mod_small. lia. }
    rewrite W2. rewrite (Z.mod_small (rop + r0) 65536) by lia.
    rewrite ge_mask_spec by (try lia; change (2 ^ 32) with 4294967296; lia).
    destruct (Z.geb_spec (rop + r0) p); cbv iota;
      rewrite (Z.mod_small _ (2 ^ 32)) by (change (2 ^ 32) with 4294967296; lia);
      rewrite (Z.mod_small _ 65536) by lia;
      rewrite sat16_sg by lia; lia. }
  cbv zeta. rewrite E. split; [reflexivity | split; assumption].
Qed.

(* ---------- the vector Harvey butterfly (ntt_loop_body<sse|avx2, u16|u32>) = the scalar lazy butterfly, for ALL lane values ---------- *)
Definition lane_bfly (w p wt wt' a b : Z) : Z * Z :=
  let t1 := ((2 * p) mod 2 ^ w + (a - b) mod 2 ^ w) mod 2 ^ w in         (* add(_2p, sub(u0, u1)) *)
  let q := (t1 * wt') / 2 ^ w in                                       (* mulhi *)
  let t2 := ((t1 * wt) mod 2 ^ w - (q * p) mod 2 ^ w) mod 2 ^ w in     (* sub(mullo(t1, w), mullo(q, p)) *)
  let t0 := (a + b) mod 2 ^ w in
  let s := (t0 - (if ge_mask w t0 (2 * p) then (2 * p) mod 2 ^ w else 0)) mod 2 ^ w in
  (s, t2).

Theorem lane_bfly_scalar w p wt wt' a b : 1 < w -> 0 < p -> 4 * p <= 2 ^ w -> 0 <= a < 2 ^ w -> 0 <= b < 2 ^ w ->
  lane_bfly w p wt wt' a b = bfly_lazy w p wt wt' a b.
Proof.
  intros Hw Hp H4 Ha Hb. unfold lane_bfly, bfly_lazy, wr. f_equal.
  - rewrite ge_mask_spec by (try lia; apply Z.mod_pos_bound; lia). rewrite (Z.mod_small (2 * p)) by lia. reflexivity.
  - f_equal. f_equal.
    + f_equal. rewrite (Z.mod_small (2 * p)) by lia. rewrite Z.add_comm. reflexivity.
    + f_equal. f_equal. f_equal. rewrite (Z.mod_small (2 * p)) by lia. rewrite Z.add_comm. reflexivity.
Qed.
