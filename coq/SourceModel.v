(* The extracted transform pair of NTTInst.v (ntt_fwd_s / ntt_inv_s: the model that is run against the library and on which the round-trip,
   linearity and product theorems of C01/C02 are stated) written over the functions TRANSLATED from the source:
     ntt_fwd_s x = what the translated core::ntt returns on the twisted input  (twist: the expression  op * phis  of ntt_pow_phi),
     ntt_inv_s y = the pointwise multiplication by invpoly_times_invphis of what the translated core::inv_ntt returns,
   for every build and limb type, on tables laid out as core::initialize() lays them out (C02_source_initialize: FlatTable.flat of omega /
   invomega with their Shoup companions).  What is left to the hand model is the two expression-template statements (C07) and the loop
   over the moduli. *)
From Coq Require Import ZArith List Lia Bool Arith.
From NTT Require Import Algebra Rev Layer Transform Structural Tables FlatTable Inverse NTTInst GenLoopSimd InvNttAll.
From NTT.gen Require Import GenLoop.
Import ListNotations.
Local Open Scope Z_scope.

Lemma twist_len p k0 ph x : length (twist p k0 ph x) = (2 ^ S k0)%nat. Proof. unfold twist. apply tab_length. Qed.
Lemma twist_rng p k0 ph x w : 0 < p -> p <= 2 ^ w -> Forall (fun v => 0 <= v < 2 ^ w) (twist p k0 ph x).
Proof.
  intros Hp Hw. unfold twist, tab. apply Forall_forall. intros v Hv. apply in_map_iff in Hv. destruct Hv as (i & <- & _).
  pose proof (Z.mod_pos_bound (nth i x 0 * nth i ph 0) p Hp). lia.
Qed.

Section M.
Variables (p g : Z) (K k0 : nat) (padW padW' : list Z).
Notation k := (S k0).
Notation n := (2 ^ S k0)%nat.
Hypothesis Hk : (3 <= k <= 30)%nat.
Hypothesis Hp : 1 < p.
Hypothesis HpadW : Forall (fun v => 0 <= v < p) padW.
Definition tabs (om w : Z) : list Z * list Z := (flat p k om ++ padW, map (fun v => (v * 2 ^ w) / p) (flat p k om) ++ padW').

Theorem source_forward_is_model : let om := omega p g K k0 in let ph := phis p g K k0 in
  (p < 2 ^ 14 -> Forall (fun v => 0 <= v < 2 ^ 16) padW' -> forall x, let '(W, W') := tabs om 16 in let out := Some ((ntt_fwd_s 16 p g K k0 x, Z.of_nat n, Z.of_nat (off k (k - 2)), Z.of_nat (off k (k - 2))), true) in
     gen_ntt_serial_u16 (Z.of_nat n) (twist p k0 ph x) 0 W 0 W' 0 p = out /\ gen_ntt_sse_u16 (Z.of_nat n) (twist p k0 ph x) 0 W 0 W' 0 p = out /\ gen_ntt_avx2_u16 (Z.of_nat n) (twist p k0 ph x) 0 W 0 W' 0 p = out) /\
  (4 * p <= 2 ^ 32 -> Forall (fun v => 0 <= v < 2 ^ 32) padW' -> forall x, let '(W, W') := tabs om 32 in let out := Some ((ntt_fwd_s 32 p g K k0 x, Z.of_nat n, Z.of_nat (off k (k - 2)), Z.of_nat (off k (k - 2))), true) in
     gen_ntt_serial_u32 (Z.of_nat n) (twist p k0 ph x) 0 W 0 W' 0 p = out /\ gen_ntt_sse_u32 (Z.of_nat n) (twist p k0 ph x) 0 W 0 W' 0 p = out /\ gen_ntt_avx2_u32 (Z.of_nat n) (twist p k0 ph x) 0 W 0 W' 0 p = out) /\
  (4 * p <= 2 ^ 64 -> Forall (fun v => 0 <= v < 2 ^ 64) padW' -> forall x, let '(W, W') := tabs om 64 in let out := Some ((ntt_fwd_s 64 p g K k0 x, Z.of_nat n, Z.of_nat (off k (k - 2)), Z.of_nat (off k (k - 2))), true) in
     gen_ntt_serial_u64 (Z.of_nat n) (twist p k0 ph x) 0 W 0 W' 0 p = out /\ gen_ntt_sse_u64 (Z.of_nat n) (twist p k0 ph x) 0 W 0 W' 0 p = out /\ gen_ntt_avx2_u64 (Z.of_nat n) (twist p k0 ph x) 0 W 0 W' 0 p = out).
Proof.
  intros om ph. unfold tabs.
  assert (L : forall x, _) by (intros x; exact (source_loops_all_builds k p om padW padW' (twist p k0 ph x) Hk Hp HpadW (twist_len p k0 ph x))).
  cbv zeta in L. split; [|split].
  - intros H1 H2 x. destruct (L x) as (A & _). apply A; [exact H1 | exact H2 | apply twist_rng; lia].
  - intros H1 H2 x. destruct (L x) as (_ & A & _). apply A; [exact H1 | exact H2 | apply twist_rng; lia].
  - intros H1 H2 x. destruct (L x) as (_ & _ & A). apply A; [exact H1 | exact H2 | apply twist_rng; lia].
Qed.

Variables (ik : Z) (fuel : nat) (invK : Z).
Hypothesis Hf : (k < fuel)%nat.
Definition finish (z : list Z) : list Z := tab k0 (fun i => (nth i z 0 * nth i (cs p g ik K k0) 0) mod p).
Definition inv_is_model (w : Z) (y : list Z) (r : option (list Z * list Z * Z * Z * bool)) : Prop :=
  exists z y1, r = Some ((z, y1, 0, 0), true) /\ ntt_inv_s w p g ik K k0 y = finish z.

Theorem source_inverse_is_model : let om := invomega p g K k0 in
  (p < 2 ^ 14 -> Forall (fun v => 0 <= v < 2 ^ 16) padW' -> forall y y0, length y = n -> Forall (fun v => 0 <= v < 2 ^ 16) y -> length y0 = S n -> let '(W, W') := tabs om 16 in
     inv_is_model 16 y (gen_inv_ntt_serial_u16 fuel (Z.of_nat n) y 0 W 0 W' 0 invK p y0) /\ inv_is_model 16 y (gen_inv_ntt_sse_u16 fuel (Z.of_nat n) y 0 W 0 W' 0 invK p y0) /\ inv_is_model 16 y (gen_inv_ntt_avx2_u16 fuel (Z.of_nat n) y 0 W 0 W' 0 invK p y0)) /\
  (4 * p <= 2 ^ 32 -> Forall (fun v => 0 <= v < 2 ^ 32) padW' -> forall y y0, length y = n -> Forall (fun v => 0 <= v < 2 ^ 32) y -> length y0 = S n -> let '(W, W') := tabs om 32 in
     inv_is_model 32 y (gen_inv_ntt_serial_u32 fuel (Z.of_nat n) y 0 W 0 W' 0 invK p y0) /\ inv_is_model 32 y (gen_inv_ntt_sse_u32 fuel (Z.of_nat n) y 0 W 0 W' 0 invK p y0) /\ inv_is_model 32 y (gen_inv_ntt_avx2_u32 fuel (Z.of_nat n) y 0 W 0 W' 0 invK p y0)) /\
  (4 * p <= 2 ^ 64 -> Forall (fun v => 0 <= v < 2 ^ 64) padW' -> forall y y0, length y = n -> Forall (fun v => 0 <= v < 2 ^ 64) y -> length y0 = S n -> let '(W, W') := tabs om 64 in
     inv_is_model 64 y (gen_inv_ntt_serial_u64 fuel (Z.of_nat n) y 0 W 0 W' 0 invK p y0) /\ inv_is_model 64 y (gen_inv_ntt_sse_u64 fuel (Z.of_nat n) y 0 W 0 W' 0 invK p y0) /\ inv_is_model 64 y (gen_inv_ntt_avx2_u64 fuel (Z.of_nat n) y 0 W 0 W' 0 invK p y0)).
Proof.
  intros om. unfold tabs.
  pose proof (source_inv_ntt_all_builds k0 p om padW padW' fuel invK Hk Hp HpadW Hf) as L. cbv zeta in L. unfold Wt, Wt', inv_out, Fc, twsf in L.
  destruct L as (L16 & L32 & L64).
  split; [|split]; intros H1 H2 y y0 Hy HR Hy0.
  - destruct (L16 H1 H2 y y0 Hy HR Hy0) as (A & B & C). rewrite A, B, C. repeat split; eexists; eexists; (split; [reflexivity|]); reflexivity.
  - destruct (L32 H1 H2 y y0 Hy HR Hy0) as (A & B & C). rewrite A, B, C. repeat split; eexists; eexists; (split; [reflexivity|]); reflexivity.
  - destruct (L64 H1 H2 y y0 Hy HR Hy0) as (A & B & C). rewrite A, B, C. repeat split; eexists; eexists; (split; [reflexivity|]); reflexivity.
Qed.
End M.
