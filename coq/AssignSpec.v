(* The evaluation of an expression into its destination read from the source (gen/GenAssign.v: ExprSem.assign_prog with the vector width of each
   operator and build) runs the statement of its body once for every modulus and every block of VS lanes, in increasing order -- and with that
   statement = "evaluate lanes j .. j+VS-1 from the current memory, store them to the destination" it is, modulus by modulus, Expr.assign: the
   subject of C07_assign_aliasing (element i of the destination = the element-wise meaning on the ORIGINAL operands, whatever aliases what)
   and of C07_width_irrelevant. *)
From Coq Require Import ZArith List Lia Bool Arith.
From NTT Require Import CxxSem MemSem ExprSem Expr.
From NTT.gen Require Import GenAssign.
Import ListNotations.
Local Open Scope Z_scope.

Section Prog.
Context {S : Type}.
Variable blkf : Z -> Z -> S -> S.
Definition blocks (VS : Z) (cm : Z) (m : nat) (s : S) : S := fold_left (fun s j => blkf cm (VS * Z.of_nat j) s) (seq 0 m) s.
Definition all_blocks (VS : Z) (m nm : nat) (s : S) : S := fold_left (fun s cm => blocks VS (Z.of_nat cm) m s) (seq 0 nm) s.

Theorem assign_prog_ok VS degree nm s : 0 < VS < 2 ^ 62 -> 0 <= degree < 2 ^ 62 -> 0 <= nm < 2 ^ 62 -> (VS | degree) ->
  assign_prog VS degree nm (fun cm j s => Some (blkf cm j s)) s = Some (all_blocks VS (Z.to_nat (degree / VS)) (Z.to_nat nm) s).
Proof.
  intros HV Hd Hn [q Hq]. unfold assign_prog. assert (E : degree / VS * VS = degree) by (subst degree; rewrite Z.div_mul by lia; reflexivity).
  rewrite E, Z.eqb_refl. assert (Hq0 : 0 <= q) by nia. replace (degree / VS) with q by (subst degree; rewrite Z.div_mul by lia; reflexivity).
  apply (for_up_steps (fun cm : nat => all_blocks VS (Z.to_nat q) cm s) (Z.to_nat nm)); try lia.
  intros cm Hcm. replace (0 + 1 * Z.of_nat cm) with (Z.of_nat cm) by lia.
  rewrite (for_up_steps (fun j : nat => blocks VS (Z.of_nat cm) j (all_blocks VS (Z.to_nat q) cm s)) (Z.to_nat q)); try nia.
  - unfold all_blocks at 2. rewrite seq_S, fold_left_app. reflexivity.
  - intros j Hj. replace (0 + VS * Z.of_nat j) with (VS * Z.of_nat j) by lia. unfold blocks at 2. rewrite seq_S, fold_left_app. reflexivity.
Qed.
Theorem assign_prog_guard VS degree nm blk s : 0 < VS -> ~ (VS | degree) -> @assign_prog S VS degree nm blk s = None.
Proof.
  intros HV Hn. unfold assign_prog. destruct (degree / VS * VS =? degree) eqn:E; [|reflexivity]. exfalso. apply Hn. exists (degree / VS). apply Z.eqb_eq in E. lia.
Qed.
End Prog.

(* ---- with the body statement of the source: per modulus, Expr.assign *)
Section Link.
Variable fop : nat -> Z -> Z -> Z.
Variable fshoup3 : Z -> Z -> Z -> Z.
Variable fcshoup : Z -> Z.
Variables (dst : nat) (t : tree) (L : nat).
Notation heaps := (nat -> heap).                               (* one heap per modulus *)
Definition body (cm j : Z) (s : heaps) : heaps := fun c => if (c =? Z.to_nat cm)%nat then store_block fop fshoup3 fcshoup dst t L (Z.to_nat j) (s c) else s c.

Lemma blocks_from cm : forall m a (s : heaps) c,
  fold_left (fun s j => body cm (Z.of_nat L * Z.of_nat j) s) (seq a m) s c = if (c =? Z.to_nat cm)%nat then assign_from fop fshoup3 fcshoup dst t L (L * a) m (s c) else s c.
Proof.
  induction m as [|m IH]; intros a s c; cbn [seq fold_left assign_from]; [destruct (c =? Z.to_nat cm)%nat; reflexivity|].
  rewrite IH. unfold body. destruct (c =? Z.to_nat cm)%nat eqn:E; [|reflexivity].
  replace (Z.to_nat (Z.of_nat L * Z.of_nat a)) with (L * a)%nat by lia. replace (L * Datatypes.S a)%nat with (L * a + L)%nat by lia. reflexivity.
Qed.
Theorem all_blocks_assign m : forall nm (s : heaps) c,
  all_blocks body (Z.of_nat L) m nm s c = if (c <? nm)%nat then assign fop fshoup3 fcshoup dst t L m (s c) else s c.
Proof.
  induction nm as [|nm IH]; intros s c; [reflexivity|]. unfold all_blocks. rewrite seq_S, fold_left_app. cbn [fold_left Nat.add].
  fold (all_blocks body (Z.of_nat L) m nm s). unfold blocks. rewrite blocks_from, IH, Nat2Z.id. rewrite Nat.mul_0_r. fold (assign fop fshoup3 fcshoup dst t L m (s c)).
  destruct (Nat.eqb_spec c nm) as [->|Hne].
  - rewrite Nat.ltb_irrefl. replace (nm <? Datatypes.S nm)%nat with true by (symmetry; apply Nat.ltb_lt; lia). reflexivity.
  - destruct (Nat.ltb_spec c nm); destruct (Nat.ltb_spec c (Datatypes.S nm)); try lia; reflexivity.
Qed.

(* the translated assignments, with the statement of their body *)
Definition is_assign (g : Z -> Z -> (Z -> Z -> heaps -> option heaps) -> heaps -> option heaps) (VS : nat) : Prop :=
  forall degree nm (s : heaps), L = VS -> (0 < VS)%nat -> Z.of_nat VS < 2 ^ 62 -> 0 <= degree < 2 ^ 62 -> 0 <= nm < 2 ^ 62 -> (Z.of_nat VS | degree) ->
  exists s', g degree nm (fun cm j s => Some (body cm j s)) s = Some s' /\
             forall c, s' c = if (c <? Z.to_nat nm)%nat then assign fop fshoup3 fcshoup dst t L (Z.to_nat (degree / Z.of_nat VS)) (s c) else s c.
Lemma prog_is_assign VS : is_assign (fun degree nm blk s => assign_prog (Z.of_nat VS) degree nm blk s) VS.
Proof.
  intros degree nm s HL Hv Hv2 Hd Hn Hdiv. rewrite <- HL in *. eexists. split; [apply (assign_prog_ok body); try assumption; lia|].
  intros c. apply all_blocks_assign.
Qed.
End Link.

(* the 27 assignments read from the source: each is Expr.assign with SOME vector width dividing 16 (which one does not matter:
   C07_width_irrelevant), for every degree that width divides, every number of moduli, every expression tree, destination and memory *)
Definition some_width (A : (Z -> Z -> (Z -> Z -> (nat -> heap) -> option (nat -> heap)) -> (nat -> heap) -> option (nat -> heap)) -> nat -> Prop) g : Prop :=
  exists VS : nat, (VS = 1 \/ VS = 2 \/ VS = 4 \/ VS = 8 \/ VS = 16)%nat /\ A g VS.
Definition assign_statement : Prop := forall fop fshoup3 fcshoup dst t,
  let A := fun g => forall L, some_width (is_assign fop fshoup3 fcshoup dst t L) g in
  (A gen_assign_add_serial_u16 /\ A gen_assign_sub_serial_u16 /\ A gen_assign_mul_serial_u16 /\ A gen_assign_add_serial_u32 /\ A gen_assign_sub_serial_u32 /\ A gen_assign_mul_serial_u32 /\
   A gen_assign_add_serial_u64 /\ A gen_assign_sub_serial_u64 /\ A gen_assign_mul_serial_u64) /\
  (A gen_assign_add_sse_u16 /\ A gen_assign_sub_sse_u16 /\ A gen_assign_mul_sse_u16 /\ A gen_assign_add_sse_u32 /\ A gen_assign_sub_sse_u32 /\ A gen_assign_mul_sse_u32 /\
   A gen_assign_add_sse_u64 /\ A gen_assign_sub_sse_u64 /\ A gen_assign_mul_sse_u64) /\
  (A gen_assign_add_avx2_u16 /\ A gen_assign_sub_avx2_u16 /\ A gen_assign_mul_avx2_u16 /\ A gen_assign_add_avx2_u32 /\ A gen_assign_sub_avx2_u32 /\ A gen_assign_mul_avx2_u32 /\
   A gen_assign_add_avx2_u64 /\ A gen_assign_sub_avx2_u64 /\ A gen_assign_mul_avx2_u64).
Theorem source_assign : assign_statement.
Proof.
  intros fop fshoup3 fcshoup dst t A. subst A. cbv beta.
  repeat match goal with |- _ /\ _ => split end; intros L;
  first [ exists 1%nat; split; [tauto | exact (prog_is_assign fop fshoup3 fcshoup dst t L 1)]
        | exists 2%nat; split; [tauto | exact (prog_is_assign fop fshoup3 fcshoup dst t L 2)]
        | exists 4%nat; split; [tauto | exact (prog_is_assign fop fshoup3 fcshoup dst t L 4)]
        | exists 8%nat; split; [tauto | exact (prog_is_assign fop fshoup3 fcshoup dst t L 8)]
        | exists 16%nat; split; [tauto | exact (prog_is_assign fop fshoup3 fcshoup dst t L 16)] ].
Qed.
(* non-vacuity: c = a + c (the destination is an operand) in blocks of 4, two moduli of 8 coefficients: coefficient-wise sums of the ORIGINAL values *)
Example source_assign_example :
  let fop := fun (_ : nat) x y => x + y in
  let s0 : nat -> heap := fun c x i => Z.of_nat (100 * c + 10 * x + i) in
  match gen_assign_add_sse_u32 8 2 (fun cm j s => Some (body fop (fun _ _ _ => 0) (fun _ => 0) 2%nat (Bin 0%nat (Leaf 0%nat) (Leaf 2%nat)) 4%nat cm j s)) s0 with
  | Some s' => map (s' 1%nat 2%nat) (seq 0 8) = map (fun i => s0 1%nat 0%nat i + s0 1%nat 2%nat i) (seq 0 8) /\ map (s' 1%nat 0%nat) (seq 0 8) = map (s0 1%nat 0%nat) (seq 0 8)
  | None => False end.
Proof. vm_compute. split; reflexivity. Qed.
