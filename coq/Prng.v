(* C13: nfl::fastrandombytes as a state machine over request histories.
   State = (init flag, key, 8-byte nonce); request = length; the OS key is an input consumed at the first request. *)
From Coq Require Import ZArith Lia List Arith.
From NTT Require Import Small Salsa.
Import ListNotations.
Local Open Scope Z_scope.

Record gst := { g_init : bool; g_key : list Z; g_nonce : list Z; g_seedings : nat }.
Definition g0 : gst := {| g_init := false; g_key := repeat 0 32; g_nonce := le_encode 8 0; g_seedings := 0 |}.

(* one call of fastrandombytes(r, len): seed the key on first use, emit the keystream under the current nonce, bump the nonce *)
Definition frb (oskey : list Z) (s : gst) (len : nat) : gst * list Z :=
  let k := if g_init s then g_key s else oskey in
  let seeds := if g_init s then g_seedings s else S (g_seedings s) in
  ({| g_init := true; g_key := k; g_nonce := nonce_step (g_nonce s); g_seedings := seeds |}, stream k (g_nonce s) len).

Fixpoint run_hist (oskey : list Z) (s : gst) (lens : list nat) : gst * list (list Z) :=
  match lens with
  | [] => (s, [])
  | l :: r => let '(s1, o) := frb oskey s l in let '(s2, os) := run_hist oskey s1 r in (s2, o :: os)
  end.

(* the memory-transformer form: only [off, off+len) of the caller's memory changes *)
Definition write_mem (mem : list Z) (off : nat) (bytes : list Z) : list Z :=
  firstn off mem ++ bytes ++ skipn (off + length bytes) mem.

Definition key_of (oskey : list Z) (s : gst) : list Z := if g_init s then g_key s else oskey.

Lemma run_hist_spec oskey : forall lens s k, g_nonce s = le_encode 8 (Z.of_nat k) -> Z.of_nat (k + length lens) < 2 ^ 64 ->
  let '(s', outs) := run_hist oskey s lens in
  length outs = length lens /\
  (forall i, (i < length lens)%nat -> nth i outs [] = stream (key_of oskey s) (le_encode 8 (Z.of_nat (k + i))) (nth i lens 0%nat)) /\
  g_nonce s' = le_encode 8 (Z.of_nat (k + length lens)) /\
  g_seedings s' = (if g_init s then g_seedings s else match lens with [] => g_seedings s | _ => S (g_seedings s) end) /\
  (lens <> [] -> g_init s' = true /\ g_key s' = key_of oskey s) /\ (lens = [] -> s' = s).
Proof.
  induction lens as [|l r IH]; intros s k Hn Hk; cbn [run_hist].
  - split; [reflexivity|]. split; [intros i Hi; simpl in Hi; lia|]. split; [rewrite Nat.add_0_r; exact Hn|].
    split; [destruct (g_init s); reflexivity|]. split; [congruence | reflexivity].
  - unfold frb at 1. cbv zeta.
    set (s1 := {| g_init := true; g_key := if g_init s then g_key s else oskey; g_nonce := nonce_step (g_nonce s);
                  g_seedings := if g_init s then g_seedings s else S (g_seedings s) |}).
    assert (N1 : g_nonce s1 = le_encode 8 (Z.of_nat (S k))).
    { unfold s1. cbn [g_nonce]. rewrite Hn. unfold nonce_step. simpl length in Hk.
      rewrite le_decode_encode by (change (256 ^ Z.of_nat 8) with (2 ^ 64); lia).
      rewrite Z.mod_small by lia. f_equal. lia. }
    specialize (IH s1 (S k) N1 ltac:(simpl length in Hk; lia)).
    destruct (run_hist oskey s1 r) as [s2 os]. destruct IH as (L & V & Nn & Sd & Ik & Ie).
    assert (K1 : key_of oskey s1 = key_of oskey s) by (unfold key_of, s1; cbn [g_init g_key]; reflexivity).
    split; [simpl; lia|]. split; [|split; [|split; [|split]]].
    + intros i Hi. destruct i as [|i]; cbn [nth].
      * rewrite Nat.add_0_r, Hn. reflexivity.
      * rewrite V by (simpl in Hi; lia). rewrite K1. replace (S k + i)%nat with (k + S i)%nat by lia. reflexivity.
    + rewrite Nn. f_equal. simpl length. lia.
    + rewrite Sd. unfold s1. cbn [g_init g_seedings]. destruct (g_init s); reflexivity.
    + intros _. destruct r as [|l' r'].
      * rewrite (Ie eq_refl). unfold s1. cbn [g_init g_key]. split; reflexivity.
      * destruct (Ik ltac:(discriminate)) as [A B]. split; [exact A | rewrite B; exact K1].
    + discriminate.
Qed.

(* C13: request number i of a process (i = 0, 1, 2, ...) returns the first len_i bytes of the Salsa20/20 keystream for the
   process key under the little-endian nonce i; the key is drawn exactly once *)
Theorem history_correct oskey lens : Z.of_nat (length lens) < 2 ^ 64 ->
  let '(s', outs) := run_hist oskey g0 lens in
  length outs = length lens /\
  (forall i, (i < length lens)%nat -> nth i outs [] = stream oskey (le_encode 8 (Z.of_nat i)) (nth i lens 0%nat)) /\
  (lens <> [] -> g_seedings s' = 1%nat).
Proof.
  intros Hk. pose proof (run_hist_spec oskey lens g0 0 eq_refl ltac:(simpl; lia)) as H.
  destruct (run_hist oskey g0 lens) as [s' outs]. destruct H as (L & V & _ & Sd & _ & _).
  split; [exact L|]. split; [intros i Hi; rewrite (V i Hi); reflexivity|].
  intros Hne. rewrite Sd. cbn [g0 g_init g_seedings]. destruct lens; [congruence | reflexivity].
Qed.

(* distinct requests use distinct nonces, hence disjoint (nonce, block counter) inputs of the Salsa20 core *)
Theorem nonces_distinct i j : Z.of_nat i < 2 ^ 64 -> Z.of_nat j < 2 ^ 64 -> le_encode 8 (Z.of_nat i) = le_encode 8 (Z.of_nat j) -> i = j.
Proof.
  intros Hi Hj E. apply (f_equal le_decode) in E.
  rewrite !le_decode_encode in E by (change (256 ^ Z.of_nat 8) with (2 ^ 64); lia). lia.
Qed.

Lemma nth_skipn' {A} (l : list A) n i d : nth i (skipn n l) d = nth (n + i) l d.
Proof. revert n; induction l as [|a l IH]; intros [|n]; simpl; auto. destruct i; reflexivity. Qed.

(* the caller's memory changes only inside [off, off+len) *)
Theorem write_mem_frame mem off bytes i : (off + length bytes <= length mem)%nat ->
  length (write_mem mem off bytes) = length mem /\
  ((i < off)%nat \/ (off + length bytes <= i)%nat -> nth i (write_mem mem off bytes) 0 = nth i mem 0).
Proof.
  intros Hl. unfold write_mem. split.
  - rewrite !app_length, firstn_length, skipn_length. lia.
  - intros [Hi|Hi].
    + rewrite app_nth1 by (rewrite firstn_length; lia). rewrite <- (firstn_skipn off mem) at 2. rewrite app_nth1 by (rewrite firstn_length; lia). reflexivity.
    + rewrite app_nth2 by (rewrite firstn_length; lia). rewrite firstn_length, Nat.min_l by lia.
      rewrite app_nth2 by lia. rewrite nth_skipn'. f_equal. lia.
Qed.
Print Assumptions history_correct.
