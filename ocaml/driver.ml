(* Model runner: reads one case per line on stdin, prints the extracted model's result and the spec's result.
   zarith is used only to convert decimal text <-> the extracted Coq datatypes (positive / Z / nat). *)
module M = Model

let rec pos_of_zz (n : Z.t) : M.positive =
  if Z.equal n Z.one then M.XH
  else if Z.testbit n 0 then M.XI (pos_of_zz (Z.shift_right n 1))
  else M.XO (pos_of_zz (Z.shift_right n 1))

let cz_of_zz (n : Z.t) : M.z =
  let s = Z.sign n in
  if s = 0 then M.Z0 else if s > 0 then M.Zpos (pos_of_zz n) else M.Zneg (pos_of_zz (Z.neg n))

let rec zz_of_pos (p : M.positive) : Z.t =
  match p with
  | M.XH -> Z.one
  | M.XO q -> Z.shift_left (zz_of_pos q) 1
  | M.XI q -> Z.succ (Z.shift_left (zz_of_pos q) 1)

let zz_of_cz (z : M.z) : Z.t =
  match z with M.Z0 -> Z.zero | M.Zpos p -> zz_of_pos p | M.Zneg p -> Z.neg (zz_of_pos p)

let rec nat_of_int (n : int) : M.nat = if n <= 0 then M.O else M.S (nat_of_int (n - 1))
let rec int_of_nat (n : M.nat) : int = match n with M.O -> 0 | M.S m -> 1 + int_of_nat m

let cz s = cz_of_zz (Z.of_string s)
let czi (i : int) = cz_of_zz (Z.of_int i)
let str z = Z.to_string (zz_of_cz z)
let strl l = String.concat " " (List.map str l)
let stro = function None -> "none" | Some z -> str z
let strb b = if b then "1" else "0"

let czl toks = List.map cz toks

let zmod a b = M.Z.modulo a b
let ( +! ) = M.Z.add
let ( *! ) = M.Z.mul
let ( -! ) = M.Z.sub
let pow2 w = M.Z.pow (czi 2) w

(* ------------------------------------------------------------------ C03: scalar functors *)
let ops_case toks =
  match toks with
  | [ "addmod"; w; p; x; y ] ->
      let w, p, x, y = (cz w, cz p, cz x, cz y) in
      Printf.sprintf "%s %s" (str (M.addmod w p x y)) (str (zmod (x +! y) p))
  | [ "submod"; w; p; x; y ] ->
      let w, p, x, y = (cz w, cz p, cz x, cz y) in
      Printf.sprintf "%s %s" (str (M.submod w p x y)) (str (zmod (x -! y) p))
  | [ "mulmod"; w; p; pn; x; y ] ->
      let wi = int_of_string w in
      let w, p, pn, x, y = (cz w, cz p, cz pn, cz x, cz y) in
      let m = if wi = 64 then M.mulmod64 p pn x y else M.mulmod_gen w p x y in
      Printf.sprintf "%s %s" (str m) (str (zmod (x *! y) p))
  | [ "muladd"; w; p; pn; z; x; y ] ->
      let wi = int_of_string w in
      let w, p, pn, z, x, y = (cz w, cz p, cz pn, cz z, cz x, cz y) in
      let m = if wi = 64 then M.muladd64 p pn z x y else M.muladd_gen w p z x y in
      Printf.sprintf "%s %s" (str m) (str (zmod ((x *! y) +! z) p))
  | [ "compute_shoup"; w; p; y ] ->
      let w, p, y = (cz w, cz p, cz y) in
      Printf.sprintf "%s %s" (stro (M.compute_shoup w p y)) (str (M.Z.div (zmod y p *! pow2 w) p))
  | [ "mulmod_shoup"; w; p; x; y ] ->
      (* y' is computed by the model's own compute_shoup, as the library user does *)
      let w, p, x, y = (cz w, cz p, cz x, cz y) in
      (match M.compute_shoup w p y with
       | None -> "none none"
       | Some y' -> Printf.sprintf "%s %s" (str (M.mulmod_shoup w p x y y')) (str (zmod (x *! y) p)))
  | [ "muladd_shoup"; w; p; z; x; y ] ->
      (* lazy result: model word, then spec = (x*y+z) mod p; the harness prints word; python checks word mod p and < 2p *)
      let w, p, z, x, y = (cz w, cz p, cz z, cz x, cz y) in
      (match M.compute_shoup w p y with
       | None -> "none none"
       | Some y' -> Printf.sprintf "%s %s" (str (M.muladd_shoup w p z x y y')) (str (zmod ((x *! y) +! z) p)))
  | _ -> "badcase"

(* ------------------------------------------------------------------ C01/C02: transforms *)
let rows_of w = if w = 16 then M.rows16 else if w = 32 then M.rows32 else M.rows64
let kmax_of w = if w = 16 then M.k16 else if w = 32 then M.k32 else M.k64
let rec log2i n = if n <= 1 then 0 else 1 + log2i (n / 2)
let rec take n l = if n = 0 then [] else match l with [] -> [] | x :: t -> x :: take (n - 1) t
let rec drop n l = if n = 0 then l else match l with [] -> [] | _ :: t -> drop (n - 1) t
let row w cm = let (((p, pn), g), ik) = List.nth (rows_of w) cm in (p, pn, g, ik)

(* independent spec side, zarith on arrays *)
let bitrev k j = let r = ref 0 in for b = 0 to k - 1 do if (j lsr b) land 1 = 1 then r := !r lor (1 lsl (k - 1 - b)) done; !r
let spec_fwd p g kmax k (a : Z.t array) =
  let n = Array.length a in
  let phi = Z.powm g (Z.shift_left Z.one (kmax - k)) p in
  Array.init n (fun j ->
      let psi = Z.powm phi (Z.of_int (2 * bitrev k j + 1)) p in
      let acc = ref Z.zero and pw = ref Z.one in
      for i = 0 to n - 1 do acc := Z.erem (Z.add !acc (Z.mul a.(i) !pw)) p; pw := Z.erem (Z.mul !pw psi) p done; !acc)
let spec_nega p (a : Z.t array) (b : Z.t array) =
  let n = Array.length a in
  Array.init n (fun k ->
      let acc = ref Z.zero in
      for i = 0 to n - 1 do
        for j = 0 to n - 1 do
          if i + j = k then acc := Z.add !acc (Z.mul a.(i) b.(j))
          else if i + j = k + n then acc := Z.sub !acc (Z.mul a.(i) b.(j))
        done
      done; Z.erem !acc p)
let zarr l = Array.of_list (List.map zz_of_cz l)
let strza a = String.concat " " (Array.to_list (Array.map Z.to_string a))

let ntt_case toks =
  match toks with
  | op :: w :: n :: nm :: words ->
      let wi = int_of_string w and n = int_of_string n and nm = int_of_string nm in
      let wz = czi wi in
      let k = log2i n in
      let kmaxn = kmax_of wi in
      let kmax = int_of_nat kmaxn in
      let v = czl words in
      let mb = Buffer.create 256 and sb = Buffer.create 256 and mb2 = Buffer.create 256 and sb2 = Buffer.create 256 in
      for cm = 0 to nm - 1 do
        let (p, _, g, ik) = row wi cm in
        let pz = zz_of_cz p and gz = zz_of_cz g in
        let a = take n (drop (cm * n) v) in
        let b = take n (drop (nm * n + cm * n) v) in
        let fwd x = if n = 1 then M.ntt_fwd1 p x else M.ntt_fwd wz p g kmaxn (nat_of_int (k - 1)) x in
        let inv x = if n = 1 then M.ntt_inv1 p ik kmaxn x else M.ntt_inv wz p g ik kmaxn (nat_of_int (k - 1)) x in
        let addm x y = List.map2 (fun u v -> M.addmod wz p u v) x y in
        let subm x y = List.map2 (fun u v -> M.submod wz p u v) x y in
        let mulm x y = List.map2 (fun u v -> zmod (u *! v) p) x y in
        let mulsh x y = List.map2 (fun u v -> match M.compute_shoup wz p v with Some v' -> M.mulmod_shoup wz p u v v' | None -> czi (-1)) x y in
        let out m s = Buffer.add_string mb (strl m); Buffer.add_char mb ' '; Buffer.add_string sb s; Buffer.add_char sb ' ' in
        (match op with
         | "fwd" -> out (fwd a) (strza (spec_fwd pz gz kmax k (zarr a)))
         | "inv" -> out (inv a) "?"
         | "rt_fi" -> out (inv (fwd a)) (strl a)
         | "rt_if" -> out (fwd (inv a)) (strl a)
         | "mul" -> out (inv (mulm (fwd a) (fwd b))) (strza (spec_nega pz (zarr a) (zarr b)))
         | "mulshoup" -> out (inv (mulsh (fwd a) (fwd b))) (strza (spec_nega pz (zarr a) (zarr b)))
         | "circuit" ->
             let fa = fwd a and fb = fwd b in
             let c = subm (addm (mulm fa fb) fa) fb in
             let ab = spec_nega pz (zarr a) (zarr b) in
             let za = zarr a and zb = zarr b in
             out (inv c) (strza (Array.mapi (fun i x -> Z.erem (Z.sub (Z.add x za.(i)) zb.(i)) pz) ab))
         | "addfwd" ->
             let s = addm a b in
             out (fwd s) (strza (spec_fwd pz gz kmax k (zarr s)));
             Buffer.add_string mb2 (strl (addm (fwd a) (fwd b))); Buffer.add_char mb2 ' ';
             Buffer.add_string sb2 (strza (spec_fwd pz gz kmax k (zarr s))); Buffer.add_char sb2 ' '
         | _ -> out [] "badop")
      done;
      if op = "addfwd" then Printf.sprintf "%s| %s# %s| %s" (Buffer.contents mb) (Buffer.contents mb2) (Buffer.contents sb) (Buffer.contents sb2)
      else Printf.sprintf "%s# %s" (Buffer.contents mb) (Buffer.contents sb)
  | _ -> "badcase"

(* ------------------------------------------------------------------ C07/C08: expressions *)
let rec parse_tree toks =
  match toks with
  | "a" :: r -> (M.ELeaf (nat_of_int 0), r) | "b" :: r -> (M.ELeaf (nat_of_int 1), r)
  | "c" :: r -> (M.ELeaf (nat_of_int 2), r) | "s" :: r -> (M.ELeaf (nat_of_int 3), r)
  | "add" :: r -> let (x, r) = parse_tree r in let (y, r) = parse_tree r in (M.EAdd (x, y), r)
  | "sub" :: r -> let (x, r) = parse_tree r in let (y, r) = parse_tree r in (M.ESub (x, y), r)
  | "mul" :: r -> let (x, r) = parse_tree r in let (y, r) = parse_tree r in (M.EMul (x, y), r)
  | "eq" :: r -> let (x, r) = parse_tree r in let (y, r) = parse_tree r in (M.EEq (x, y), r)
  | "neq" :: r -> let (x, r) = parse_tree r in let (y, r) = parse_tree r in (M.ENeq (x, y), r)
  | "shoup3" :: r -> let (x, r) = parse_tree r in let (y, r) = parse_tree r in let (z, r) = parse_tree r in (M.EShoup3 (x, y, z), r)
  | "cshoup" :: r -> let (x, r) = parse_tree r in (M.ECShoup x, r)
  | _ -> failwith "tree"

(* line: <op> <w> <n> <nm> <dst> T <k> <k tree tokens> <words of a> <words of b> <words of c> *)
let expr_case toks =
  match toks with
  | op :: w :: n :: nm :: dst :: "T" :: k :: rest ->
      let wi = int_of_string w and n = int_of_string n and nm = int_of_string nm and dst = int_of_string dst and k = int_of_string k in
      let wz = czi wi in
      let ttoks = take k rest and words = czl (drop k rest) in
      let (isnz, ttoks) = (match ttoks with "nz" :: r -> (true, r) | _ -> (false, ttoks)) in
      let (t, _) = parse_tree ttoks in
      let top_eq = (match t with M.EEq _ -> true | _ -> false) in
      let sz = n * nm in
      let mres = Array.make 4 [] and sres = Array.make 4 [] in
      let mbool = ref (if top_eq then true else false) and sbool = ref (if top_eq then true else false) in
      for cm = 0 to nm - 1 do
        let (p, pn, _, _) = row wi cm in
        let sl off = take n (drop (off * sz + cm * n) words) in
        let a = sl 0 and b = sl 1 and c = sl 2 in
        let s = List.map (fun v -> match M.compute_shoup wz p v with Some q -> q | None -> czi (-1)) b in
        let d0 = List.init n (fun i -> czi (7 + i + cm)) in
        let ops = [ a; b; c; s ] in
        let mv = M.eval_slice wz p pn ops t (nat_of_int n) and sv = M.spec_slice wz p ops t (nat_of_int n) in
        if op = "bool" then begin
          if top_eq then (mbool := !mbool && M.all_nzl mv; sbool := !sbool && M.all_nzl sv)
          else (mbool := !mbool || M.any_nzl mv; sbool := !sbool || M.any_nzl sv)
        end else begin
          let pick r i orig = if dst = i then r else orig in
          mres.(0) <- mres.(0) @ pick mv 0 d0; mres.(1) <- mres.(1) @ pick mv 1 a; mres.(2) <- mres.(2) @ pick mv 2 b; mres.(3) <- mres.(3) @ pick mv 3 c;
          sres.(0) <- sres.(0) @ pick sv 0 d0; sres.(1) <- sres.(1) @ pick sv 1 a; sres.(2) <- sres.(2) @ pick sv 2 b; sres.(3) <- sres.(3) @ pick sv 3 c
        end
      done;
      ignore isnz;
      if op = "bool" then Printf.sprintf "%s # %s" (strb !mbool) (strb !sbool)
      else if op = "assign" then
        Printf.sprintf "%s | %s | %s | %s # %s | %s | %s | %s" (strl mres.(0)) (strl mres.(1)) (strl mres.(2)) (strl mres.(3))
          (strl sres.(0)) (strl sres.(1)) (strl sres.(2)) (strl sres.(3))
      else Printf.sprintf "%s # %s" (strl mres.(0)) (strl sres.(0))
  | _ -> "badcase"

let dispatch : (string * (string list -> string)) list ref = ref [ ("ops", ops_case); ("ntt", ntt_case); ("expr", expr_case) ]

let () =
  let family = if Array.length Sys.argv > 1 then Sys.argv.(1) else "ops" in
  let f = try List.assoc family !dispatch with Not_found -> (fun _ -> "nofamily") in
  let buf = Buffer.create (1 lsl 16) in
  (try
     while true do
       let line = input_line stdin in
       let toks = List.filter (fun s -> s <> "") (String.split_on_char ' ' (String.trim line)) in
       if toks <> [] then begin
         Buffer.add_string buf (try f toks with e -> "exn:" ^ Printexc.to_string e);
         Buffer.add_char buf '\n'
       end
     done
   with End_of_file -> ());
  print_string (Buffer.contents buf)
