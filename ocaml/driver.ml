(* Model runner: reads one case per line on stdin, prints the extracted model's result and the spec's result.
   zarith is used only to convert decimal text <-> the extracted Coq datatypes (positive / Z / nat). *)
module M = Model

let rec pos_of_zz (n : Z.t) : M.positive =
  if Z.equal n Z.one then M.XH
  else if Z.testbit n 0 then M.XI (pos_of_zz (Z.shift_right n 1))
  else M.XO (pos_of_zz (Z.shift_right n 1))

let cz_of_zz (n : Z.t) : M.z =
  let s = Z.sign n in
  if s = 0 then M.Z0 else if s > 0 then M.Zpos (pos_of_zz n) else M.Zneg (pos_of_zz (Z.neg n))

let rec zz_of_pos (p : M.positive) : Z.t =
  match p with
  | M.XH -> Z.one
  | M.XO q -> Z.shift_left (zz_of_pos q) 1
  | M.XI q -> Z.succ (Z.shift_left (zz_of_pos q) 1)

let zz_of_cz (z : M.z) : Z.t =
  match z with M.Z0 -> Z.zero | M.Zpos p -> zz_of_pos p | M.Zneg p -> Z.neg (zz_of_pos p)

let rec nat_of_int (n : int) : M.nat = if n <= 0 then M.O else M.S (nat_of_int (n - 1))
let rec int_of_nat (n : M.nat) : int = match n with M.O -> 0 | M.S m -> 1 + int_of_nat m

let cz s = cz_of_zz (Z.of_string s)
let czi (i : int) = cz_of_zz (Z.of_int i)
let str z = Z.to_string (zz_of_cz z)
let strl l = String.concat " " (List.map str l)
let stro = function None -> "none" | Some z -> str z
let strb b = if b then "1" else "0"

let czl toks = List.map cz toks

let zmod a b = M.Z.modulo a b
let ( +! ) = M.Z.add
let ( *! ) = M.Z.mul
let ( -! ) = M.Z.sub
let pow2 w = M.Z.pow (czi 2) w

(* ------------------------------------------------------------------ C03: scalar functors *)
let ops_case toks =
  match toks with
  | [ "addmod"; w; p; x; y ] ->
      let w, p, x, y = (cz w, cz p, cz x, cz y) in
      Printf.sprintf "%s %s" (str (M.addmod w p x y)) (str (zmod (x +! y) p))
  | [ "submod"; w; p; x; y ] ->
      let w, p, x, y = (cz w, cz p, cz x, cz y) in
      Printf.sprintf "%s %s" (str (M.submod w p x y)) (str (zmod (x -! y) p))
  | [ "mulmod"; w; p; pn; x; y ] ->
      let wi = int_of_string w in
      let w, p, pn, x, y = (cz w, cz p, cz pn, cz x, cz y) in
      let m = if wi = 64 then M.mulmod64 p pn x y else M.mulmod_gen w p x y in
      Printf.sprintf "%s %s" (str m) (str (zmod (x *! y) p))
  | [ "muladd"; w; p; pn; z; x; y ] ->
      let wi = int_of_string w in
      let w, p, pn, z, x, y = (cz w, cz p, cz pn, cz z, cz x, cz y) in
      let m = if wi = 64 then M.muladd64 p pn z x y else M.muladd_gen w p z x y in
      Printf.sprintf "%s %s" (str m) (str (zmod ((x *! y) +! z) p))
  | [ "compute_shoup"; w; p; y ] ->
      let w, p, y = (cz w, cz p, cz y) in
      Printf.sprintf "%s %s" (stro (M.compute_shoup w p y)) (str (M.Z.div (zmod y p *! pow2 w) p))
  | [ "mulmod_shoup"; w; p; x; y ] ->
      (* y' is computed by the model's own compute_shoup, as the library user does *)
      let w, p, x, y = (cz w, cz p, cz x, cz y) in
      (match M.compute_shoup w p y with
       | None -> "none none"
       | Some y' -> Printf.sprintf "%s %s" (str (M.mulmod_shoup w p x y y')) (str (zmod (x *! y) p)))
  | [ "muladd_shoup"; w; p; z; x; y ] ->
      (* lazy result: model word, then spec = (x*y+z) mod p; the harness prints word; python checks word mod p and < 2p *)
      let w, p, z, x, y = (cz w, cz p, cz z, cz x, cz y) in
      (match M.compute_shoup w p y with
       | None -> "none none"
       | Some y' -> Printf.sprintf "%s %s" (str (M.muladd_shoup w p z x y y')) (str (zmod ((x *! y) +! z) p)))
  | _ -> "badcase"

let dispatch : (string * (string list -> string)) list ref = ref [ ("ops", ops_case) ]

let () =
  let family = if Array.length Sys.argv > 1 then Sys.argv.(1) else "ops" in
  let f = try List.assoc family !dispatch with Not_found -> (fun _ -> "nofamily") in
  let buf = Buffer.create (1 lsl 16) in
  (try
     while true do
       let line = input_line stdin in
       let toks = List.filter (fun s -> s <> "") (String.split_on_char ' ' (String.trim line)) in
       if toks <> [] then begin
         Buffer.add_string buf (try f toks with e -> "exn:" ^ Printexc.to_string e);
         Buffer.add_char buf '\n'
       end
     done
   with End_of_file -> ());
  print_string (Buffer.contents buf)
