(* Model runner: reads one case per line on stdin, prints the extracted model's result and the spec's result.
   zarith is used only to convert decimal text <-> the extracted Coq datatypes (positive / Z / nat). *)
module M = Model

let rec pos_of_zz (n : Z.t) : M.positive =
  if Z.equal n Z.one then M.XH
  else if Z.testbit n 0 then M.XI (pos_of_zz (Z.shift_right n 1))
  else M.XO (pos_of_zz (Z.shift_right n 1))

let cz_of_zz (n : Z.t) : M.z =
  let s = Z.sign n in
  if s = 0 then M.Z0 else if s > 0 then M.Zpos (pos_of_zz n) else M.Zneg (pos_of_zz (Z.neg n))

let rec zz_of_pos (p : M.positive) : Z.t =
  match p with
  | M.XH -> Z.one
  | M.XO q -> Z.shift_left (zz_of_pos q) 1
  | M.XI q -> Z.succ (Z.shift_left (zz_of_pos q) 1)

let zz_of_cz (z : M.z) : Z.t =
  match z with M.Z0 -> Z.zero | M.Zpos p -> zz_of_pos p | M.Zneg p -> Z.neg (zz_of_pos p)

let rec nat_of_int (n : int) : M.nat = if n <= 0 then M.O else M.S (nat_of_int (n - 1))
let rec int_of_nat (n : M.nat) : int = match n with M.O -> 0 | M.S m -> 1 + int_of_nat m

let cz s = cz_of_zz (Z.of_string s)
let czi (i : int) = cz_of_zz (Z.of_int i)
let str z = Z.to_string (zz_of_cz z)
let strl l = String.concat " " (List.map str l)
let stro = function None -> "none" | Some z -> str z
let strb b = if b then "1" else "0"

let czl toks = List.map cz toks

let zmod a b = M.Z.modulo a b
let ( +! ) = M.Z.add
let ( *! ) = M.Z.mul
let ( -! ) = M.Z.sub
let pow2 w = M.Z.pow (czi 2) w

(* ------------------------------------------------------------------ C03: scalar functors *)
let ops_case toks =
  match toks with
  | [ "addmod"; w; p; x; y ] ->
      let w, p, x, y = (cz w, cz p, cz x, cz y) in
      Printf.sprintf "%s %s" (str (M.addmod w p x y)) (str (zmod (x +! y) p))
  | [ "submod"; w; p; x; y ] ->
      let w, p, x, y = (cz w, cz p, cz x, cz y) in
      Printf.sprintf "%s %s" (str (M.submod w p x y)) (str (zmod (x -! y) p))
  | [ "mulmod"; w; p; pn; x; y ] ->
      let wi = int_of_string w in
      let w, p, pn, x, y = (cz w, cz p, cz pn, cz x, cz y) in
      let m = if wi = 64 then M.mulmod64 p pn x y else M.mulmod_gen w p x y in
      Printf.sprintf "%s %s" (str m) (str (zmod (x *! y) p))
  | [ "muladd"; w; p; pn; z; x; y ] ->
      let wi = int_of_string w in
      let w, p, pn, z, x, y = (cz w, cz p, cz pn, cz z, cz x, cz y) in
      let m = if wi = 64 then M.muladd64 p pn z x y else M.muladd_gen w p z x y in
      Printf.sprintf "%s %s" (str m) (str (zmod ((x *! y) +! z) p))
  | [ "compute_shoup"; w; p; y ] ->
      let w, p, y = (cz w, cz p, cz y) in
      Printf.sprintf "%s %s" (stro (M.compute_shoup w p y)) (str (M.Z.div (zmod y p *! pow2 w) p))
  | [ "mulmod_shoup"; w; p; x; y ] ->
      (* y' is computed by the model's own compute_shoup, as the library user does *)
      let w, p, x, y = (cz w, cz p, cz x, cz y) in
      (match M.compute_shoup w p y with
       | None -> "none none"
       | Some y' -> Printf.sprintf "%s %s" (str (M.mulmod_shoup w p x y y')) (str (zmod (x *! y) p)))
  | [ "muladd_shoup"; w; p; z; x; y ] ->
      (* lazy result: model word, then spec = (x*y+z) mod p; the harness prints word; python checks word mod p and < 2p *)
      let w, p, z, x, y = (cz w, cz p, cz z, cz x, cz y) in
      (match M.compute_shoup w p y with
       | None -> "none none"
       | Some y' -> Printf.sprintf "%s %s" (str (M.muladd_shoup w p z x y y')) (str (zmod ((x *! y) +! z) p)))
  | [ "bfly"; w; p; wt; a; b ] ->
      (* the lazy Harvey butterfly on arbitrary words; spec = ((a+b) mod p, (a-b)*wt mod p), compared modulo p by the caller *)
      let w, p, wt, a, b = (cz w, cz p, cz wt, cz a, cz b) in
      (match M.compute_shoup w p wt with
       | None -> "none none"
       | Some wt' -> let (s, d) = M.bfly_lazy w p wt wt' a b in
                     Printf.sprintf "%s:%s %s:%s" (str s) (str d) (str (zmod (a +! b) p)) (str (zmod ((a -! b) *! wt) p)))
  | _ -> "badcase"

(* ------------------------------------------------------------------ C05: per-lane models of the SSE/AVX2 kernels on the same case lines *)
let lanes_case toks =
  match toks with
  | [ "addmod"; w; p; x; y ] when w <> "64" ->
      let w, p, x, y = (cz w, cz p, cz x, cz y) in
      (* the whole-vector model (4 identical lanes) and the lane model must agree *)
      let v = M.addmod_vec w p [ x; x; x; x ] [ y; y; y; y ] and l = M.lane_add w p x y in
      if List.for_all (fun z -> z = l) v then str l else "vecmismatch"
  | [ "submod"; w; p; x; y ] when w <> "64" -> let w, p, x, y = (cz w, cz p, cz x, cz y) in str (M.lane_sub w p x y)
  | [ "mulmod_shoup"; w; p; x; y ] when w <> "64" ->
      let wz, p, x, y = (cz w, cz p, cz x, cz y) in
      (match M.compute_shoup wz p y with
       | None -> "none"
       | Some y' -> str (if w = "32" then M.lane_mulshoup32 p x y y' else M.lane_mulshoup16 p x y y'))
  | [ "muladd_shoup"; "16"; p; z; x; y ] ->
      let p, z, x, y = (cz p, cz z, cz x, cz y) in
      (match M.compute_shoup (czi 16) p y with None -> "none" | Some y' -> str (M.lane_muladdshoup16 p z x y y'))
  | [ "bfly"; w; p; wt; a; b ] ->
      let w, p, wt, a, b = (cz w, cz p, cz wt, cz a, cz b) in
      (match M.compute_shoup w p wt with
       | None -> "none"
       | Some wt' -> let (s, d) = M.lane_bfly w p wt wt' a b and (s', d') = M.bfly_lazy w p wt wt' a b in
                     if s = s' && d = d' then Printf.sprintf "%s:%s" (str s) (str d) else "lanemodel_ne_scalar")
  | _ -> "na"

(* ------------------------------------------------------------------ C01/C02: transforms *)
let rows_of w = if w = 16 then M.rows16 else if w = 32 then M.rows32 else M.rows64
let kmax_of w = if w = 16 then M.k16 else if w = 32 then M.k32 else M.k64
let rec log2i n = if n <= 1 then 0 else 1 + log2i (n / 2)
let rec take n l = if n = 0 then [] else match l with [] -> [] | x :: t -> x :: take (n - 1) t
let rec drop n l = if n = 0 then l else match l with [] -> [] | _ :: t -> drop (n - 1) t
let row w cm = let (((p, pn), g), ik) = List.nth (rows_of w) cm in (p, pn, g, ik)

(* independent spec side, zarith on arrays *)
let bitrev k j = let r = ref 0 in for b = 0 to k - 1 do if (j lsr b) land 1 = 1 then r := !r lor (1 lsl (k - 1 - b)) done; !r
let spec_fwd p g kmax k (a : Z.t array) =
  let n = Array.length a in
  let phi = Z.powm g (Z.shift_left Z.one (kmax - k)) p in
  Array.init n (fun j ->
      let psi = Z.powm phi (Z.of_int (2 * bitrev k j + 1)) p in
      let acc = ref Z.zero and pw = ref Z.one in
      for i = 0 to n - 1 do acc := Z.erem (Z.add !acc (Z.mul a.(i) !pw)) p; pw := Z.erem (Z.mul !pw psi) p done; !acc)
let spec_nega p (a : Z.t array) (b : Z.t array) =
  let n = Array.length a in
  Array.init n (fun k ->
      let acc = ref Z.zero in
      for i = 0 to n - 1 do
        for j = 0 to n - 1 do
          if i + j = k then acc := Z.add !acc (Z.mul a.(i) b.(j))
          else if i + j = k + n then acc := Z.sub !acc (Z.mul a.(i) b.(j))
        done
      done; Z.erem !acc p)
let zarr l = Array.of_list (List.map zz_of_cz l)
let strza a = String.concat " " (Array.to_list (Array.map Z.to_string a))

let ntt_case toks =
  match toks with
  | op :: w :: n :: nm :: words ->
      let wi = int_of_string w and n = int_of_string n and nm = int_of_string nm in
      let wz = czi wi in
      let k = log2i n in
      let kmaxn = kmax_of wi in
      let kmax = int_of_nat kmaxn in
      let v = czl words in
      let mb = Buffer.create 256 and sb = Buffer.create 256 and mb2 = Buffer.create 256 and sb2 = Buffer.create 256 in
      for cm = 0 to nm - 1 do
        let (p, _, g, ik) = row wi cm in
        let pz = zz_of_cz p and gz = zz_of_cz g in
        let a = take n (drop (cm * n) v) in
        let b = take n (drop (nm * n + cm * n) v) in
        let fwd x = if n = 1 then M.ntt_fwd1 p x else M.ntt_fwd_s wz p g kmaxn (nat_of_int (k - 1)) x in   (* the source-structured model *)
        let inv x = if n = 1 then M.ntt_inv1 p ik kmaxn x else M.ntt_inv_s wz p g ik kmaxn (nat_of_int (k - 1)) x in
        let gfwd x = if n = 1 then M.ntt_fwd1 p x else M.ntt_fwd wz p g kmaxn (nat_of_int (k - 1)) x in       (* the generic layer-by-layer model *)
        let ginv x = if n = 1 then M.ntt_inv1 p ik kmaxn x else M.ntt_inv wz p g ik kmaxn (nat_of_int (k - 1)) x in
        let addm x y = List.map2 (fun u v -> M.addmod wz p u v) x y in
        let subm x y = List.map2 (fun u v -> M.submod wz p u v) x y in
        let mulm x y = List.map2 (fun u v -> zmod (u *! v) p) x y in
        let mulsh x y = List.map2 (fun u v -> match M.compute_shoup wz p v with Some v' -> M.mulmod_shoup wz p u v v' | None -> czi (-1)) x y in
        let out m s = Buffer.add_string mb (strl m); Buffer.add_char mb ' '; Buffer.add_string sb s; Buffer.add_char sb ' ' in
        (match op with
         | "fwd" -> out (fwd a) (strza (spec_fwd pz gz kmax k (zarr a)))
         | "inv" -> out (inv a) "?"
         | "geneq" -> out (fwd a @ inv a) (strl (gfwd a @ ginv a))      (* structured = generic on canonical inputs (theorem instance) *)
         | "rt_fi" -> out (inv (fwd a)) (strl a)
         | "rt_if" -> out (fwd (inv a)) (strl a)
         | "mul" -> out (inv (mulm (fwd a) (fwd b))) (strza (spec_nega pz (zarr a) (zarr b)))
         | "mulshoup" -> out (inv (mulsh (fwd a) (fwd b))) (strza (spec_nega pz (zarr a) (zarr b)))
         | "circuit" ->
             let fa = fwd a and fb = fwd b in
             let c = subm (addm (mulm fa fb) fa) fb in
             let ab = spec_nega pz (zarr a) (zarr b) in
             let za = zarr a and zb = zarr b in
             out (inv c) (strza (Array.mapi (fun i x -> Z.erem (Z.sub (Z.add x za.(i)) zb.(i)) pz) ab))
         | "addfwd" ->
             let s = addm a b in
             out (fwd s) (strza (spec_fwd pz gz kmax k (zarr s)));
             Buffer.add_string mb2 (strl (addm (fwd a) (fwd b))); Buffer.add_char mb2 ' ';
             Buffer.add_string sb2 (strza (spec_fwd pz gz kmax k (zarr s))); Buffer.add_char sb2 ' '
         | _ -> out [] "badop")
      done;
      if op = "addfwd" then Printf.sprintf "%s| %s# %s| %s" (Buffer.contents mb) (Buffer.contents mb2) (Buffer.contents sb) (Buffer.contents sb2)
      else Printf.sprintf "%s# %s" (Buffer.contents mb) (Buffer.contents sb)
  | _ -> "badcase"

(* ------------------------------------------------------------------ C07/C08: expressions *)
let rec parse_tree toks =
  match toks with
  | "a" :: r -> (M.ELeaf (nat_of_int 0), r) | "b" :: r -> (M.ELeaf (nat_of_int 1), r)
  | "c" :: r -> (M.ELeaf (nat_of_int 2), r) | "s" :: r -> (M.ELeaf (nat_of_int 3), r)
  | "add" :: r -> let (x, r) = parse_tree r in let (y, r) = parse_tree r in (M.EAdd (x, y), r)
  | "sub" :: r -> let (x, r) = parse_tree r in let (y, r) = parse_tree r in (M.ESub (x, y), r)
  | "mul" :: r -> let (x, r) = parse_tree r in let (y, r) = parse_tree r in (M.EMul (x, y), r)
  | "eq" :: r -> let (x, r) = parse_tree r in let (y, r) = parse_tree r in (M.EEq (x, y), r)
  | "neq" :: r -> let (x, r) = parse_tree r in let (y, r) = parse_tree r in (M.ENeq (x, y), r)
  | "shoup3" :: r -> let (x, r) = parse_tree r in let (y, r) = parse_tree r in let (z, r) = parse_tree r in (M.EShoup3 (x, y, z), r)
  | "cshoup" :: r -> let (x, r) = parse_tree r in (M.ECShoup x, r)
  | _ -> failwith "tree"

(* line: <op> <w> <n> <nm> <dst> T <k> <k tree tokens> <words of a> <words of b> <words of c> *)
let expr_case toks =
  match toks with
  | op :: w :: n :: nm :: dst :: "T" :: k :: rest ->
      let wi = int_of_string w and n = int_of_string n and nm = int_of_string nm and dst = int_of_string dst and k = int_of_string k in
      let wz = czi wi in
      let ttoks = take k rest and words = czl (drop k rest) in
      let (isnz, ttoks) = (match ttoks with "nz" :: r -> (true, r) | _ -> (false, ttoks)) in
      let (t, _) = parse_tree ttoks in
      let top_eq = (match t with M.EEq _ -> true | _ -> false) in
      let sz = n * nm in
      let mres = Array.make 4 [] and sres = Array.make 4 [] in
      let mbool = ref (if top_eq then true else false) and sbool = ref (if top_eq then true else false) in
      for cm = 0 to nm - 1 do
        let (p, pn, _, _) = row wi cm in
        let sl off = take n (drop (off * sz + cm * n) words) in
        let a = sl 0 and b = sl 1 and c = sl 2 in
        let s = List.map (fun v -> match M.compute_shoup wz p v with Some q -> q | None -> czi (-1)) b in
        let d0 = List.init n (fun i -> czi (7 + i + cm)) in
        let ops = [ a; b; c; s ] in
        let mv = M.eval_slice wz p pn ops t (nat_of_int n) and sv = M.spec_slice wz p ops t (nat_of_int n) in
        if op = "bool" then begin
          if top_eq then (mbool := !mbool && M.all_nzl mv; sbool := !sbool && M.all_nzl sv)
          else (mbool := !mbool || M.any_nzl mv; sbool := !sbool || M.any_nzl sv)
        end else begin
          let pick r i orig = if dst = i then r else orig in
          mres.(0) <- mres.(0) @ pick mv 0 d0; mres.(1) <- mres.(1) @ pick mv 1 a; mres.(2) <- mres.(2) @ pick mv 2 b; mres.(3) <- mres.(3) @ pick mv 3 c;
          sres.(0) <- sres.(0) @ pick sv 0 d0; sres.(1) <- sres.(1) @ pick sv 1 a; sres.(2) <- sres.(2) @ pick sv 2 b; sres.(3) <- sres.(3) @ pick sv 3 c
        end
      done;
      ignore isnz;
      if op = "bool" then Printf.sprintf "%s # %s" (strb !mbool) (strb !sbool)
      else if op = "assign" then
        Printf.sprintf "%s | %s | %s | %s # %s | %s | %s | %s" (strl mres.(0)) (strl mres.(1)) (strl mres.(2)) (strl mres.(3))
          (strl sres.(0)) (strl sres.(1)) (strl sres.(2)) (strl sres.(3))
      else Printf.sprintf "%s # %s" (strl mres.(0)) (strl sres.(0))
  | _ -> "badcase"

(* ------------------------------------------------------------------ C04: CRT lift *)
let crt_case toks =
  match toks with
  | op :: w :: n :: nm :: words ->
      let wi = int_of_string w and n = int_of_string n and nm = int_of_string nm in
      let wz = czi wi in
      let ps = List.init nm (fun cm -> let (p, _, _, _) = row wi cm in p) in
      let psz = Array.of_list (List.map zz_of_cz ps) in
      let q = Array.fold_left Z.mul Z.one psz in
      let with_model = nm <= 12 in
      let zw = Array.of_list (List.map Z.of_string words) in
      (* independent spec: CRT with zarith's own modular inverse *)
      let spec_lift (r : Z.t array) =
        let acc = ref Z.zero in
        Array.iteri (fun i p -> let qi = Z.div q p in acc := Z.add !acc (Z.mul (Z.mul r.(i) qi) (Z.invert (Z.erem qi p) p))) psz;
        Z.erem !acc q in
      let coef_res off i = Array.init nm (fun cm -> zw.(off + cm * n + i)) in
      let model_lift r = if with_model then (match M.poly2mpz_coef wz ps (List.map cz_of_zz (Array.to_list r)) with Some x -> Z.to_string (zz_of_cz x) | None -> "none") else "?" in
      let mb = Buffer.create 256 and sb = Buffer.create 256 in
      let out m s = Buffer.add_string mb m; Buffer.add_char mb ' '; Buffer.add_string sb s; Buffer.add_char sb ' ' in
      (match op with
       | "lift" -> for i = 0 to n - 1 do let r = coef_res 0 i in out (model_lift r) (Z.to_string (spec_lift r)) done
       | "lift_inplace" ->
           for i = 0 to n - 1 do let r = coef_res 0 i in out (model_lift r) (Z.to_string (spec_lift r)) done;
           out "|" "|";
           for i = 0 to n - 1 do let r = coef_res 0 i in out (model_lift r) (Z.to_string (spec_lift r)) done
       | "unlift" | "unlift_set" | "unlift_ctor" ->
           for cm = 0 to nm - 1 do for i = 0 to n - 1 do
             let m = if with_model then str (List.nth (M.mpz2poly_coef ps (cz_of_zz zw.(i))) cm) else "?" in
             out m (Z.to_string (Z.erem zw.(i) psz.(cm))) done done
       | "rt" -> for i = 0 to n - 1 do
             let r = Array.map (fun p -> Z.erem zw.(i) p) psz in
             let m = if with_model then (match M.poly2mpz_coef wz ps (M.mpz2poly_coef ps (cz_of_zz zw.(i))) with Some x -> str x | None -> "none") else "?" in
             ignore r; out m (Z.to_string (Z.erem zw.(i) q)) done
       | "lift_unlift" ->
           for cm = 0 to nm - 1 do for i = 0 to n - 1 do
             let r = coef_res 0 i in
             let m = if with_model then (match M.poly2mpz_coef wz ps (List.map cz_of_zz (Array.to_list r)) with Some x -> str (List.nth (M.mpz2poly_coef ps x) cm) | None -> "none") else "?" in
             out m (Z.to_string r.(cm)) done done
       | "ringadd" | "ringsub" | "ringmul" ->
           let big off = Array.init n (fun i -> spec_lift (coef_res off i)) in
           let a = big 0 and b = big (n * nm) in
           let c = (match op with
             | "ringadd" -> Array.mapi (fun i x -> Z.erem (Z.add x b.(i)) q) a
             | "ringsub" -> Array.mapi (fun i x -> Z.erem (Z.sub x b.(i)) q) a
             | _ -> spec_nega q a b) in
           Array.iter (fun x -> out "?" (Z.to_string x)) c
       | _ -> out "badop" "badop");
      Printf.sprintf "%s# %s" (Buffer.contents mb) (Buffer.contents sb)
  | _ -> "badcase"

(* ------------------------------------------------------------------ C15: setters *)
(* line: set <w> <n> <nm> <polykind> <src> <reduce> <kind> values...   (old content = 5 + index) *)
let set_case toks =
  match toks with
  | _ :: w :: n :: nm :: _ :: src :: reduce :: kind :: vals ->
      let wi = int_of_string w and n = int_of_string n and nm = int_of_string nm in
      let ps = List.init nm (fun cm -> let (p, _, _, _) = row wi cm in p) in
      let pf = fun cm -> List.nth ps (int_of_nat cm) in
      let reduce = (reduce = "1") || kind = "mpz" || src = "assign" in
      let vs = czl vals in
      let old = List.init (n * nm) (fun i -> czi (5 + i)) in
      let is_scalar = (src = "scalar" || src = "assign") in
      let res =
        if is_scalar && (match vs with [ M.Z0 ] -> true | _ -> false) then Some (List.init (n * nm) (fun _ -> czi 0))
        else M.set_list (nat_of_int n) (nat_of_int nm) pf reduce vs old in
      (* spec: the documented rule, computed directly *)
      let k = List.length vs in
      let zv = Array.of_list (List.map zz_of_cz vs) and zp = Array.of_list (List.map zz_of_cz ps) in
      let redz cm v = if reduce then Z.erem v zp.(cm) else v in
      let spec =
        if k <= n && not (k = n * nm && nm > 1) then Some (List.init (n * nm) (fun idx -> let cm = idx / n and i = idx mod n in if i < k then redz cm zv.(i) else Z.zero))
        else if k = n * nm then Some (List.init (n * nm) (fun idx -> redz (idx / n) zv.(idx)))
        else None in
      let ms = (match res with Some l -> "ok " ^ strl l | None -> "throw " ^ strl old) in
      let ss = (match spec with Some l -> "ok " ^ String.concat " " (List.map Z.to_string l) | None -> "throw " ^ strl old) in
      ms ^ " # " ^ ss
  | _ -> "badcase"

(* ------------------------------------------------------------------ C16: serialisation *)
let hexb (l : M.z list) = String.concat "" (List.map (fun b -> Printf.sprintf "%02x" (Z.to_int (zz_of_cz b))) l)
let unhexb (h : string) = List.init (String.length h / 2) (fun i -> czi (int_of_string ("0x" ^ String.sub h (2 * i) 2)))
let spec_le wb (v : Z.t) = String.concat "" (List.init wb (fun i -> Printf.sprintf "%02x" (Z.to_int (Z.logand (Z.shift_right v (8 * i)) (Z.of_int 255)))))
let serial_case toks =
  match toks with
  | op :: w :: n :: nm :: pk :: rest ->
      let wi = int_of_string w and n = int_of_string n and nm = int_of_string nm in
      let wb = nat_of_int (wi / 8) in
      let cnt = n * nm in
      let old = List.init cnt (fun i -> czi (9 + i)) in
      (match op with
       | "ser" | "cereal_bin" | "cereal_pbin" ->
           let ws = czl rest in
           let m = hexb (M.serialize wb ws) and s = String.concat "" (List.map (fun v -> spec_le (wi / 8) (zz_of_cz v)) ws) in
           let pre = if op = "cereal_pbin" then "01" else "" in
           if op = "ser" then pre ^ m ^ " # " ^ pre ^ s else Printf.sprintf "%s%s | %s # %s%s | %s" pre m (strl ws) pre s (strl ws)
       | "cereal_json" ->
           let ws = czl rest in
           let body = String.concat "," (List.mapi (fun i v -> Printf.sprintf "\"value%d\":%s" i (str v)) ws) in
           let wrap x = "{\"value0\":" ^ x ^ "}" in
           let j = wrap (wrap ("{" ^ body ^ "}")) in
           let j = if pk = "polyp" then wrap j else j in
           Printf.sprintf "%s | %s # %s | %s" j (strl ws) j (strl ws)
       | "text" ->
           (* model: the extracted Coq printer (Text.print, the loop of operator<<); spec: the string built here; plus parse-back *)
           let ws = czl rest in
           let suf = if wi = 64 then "ULL" else if wi = 32 then "UL" else "U" in
           let nof z = M.Z.to_N z in
           let bytes_of_string st = List.init (String.length st) (fun i -> nof (czi (Char.code st.[i]))) in
           let string_of_bytes l = String.concat "" (List.map (fun b -> String.make 1 (Char.chr (Z.to_int (zz_of_cz (M.Z.of_N b))))) l) in
           let sufb = bytes_of_string suf in
           let wsn = List.map nof ws in
           let mtxt = M.print sufb wsn in
           let back = (match M.parse sufb mtxt with Some l when l = wsn -> "" | _ -> " PARSEBACK-FAILED") in
           let t = "{ " ^ String.concat ", " (List.map (fun v -> str v ^ suf) ws) ^ " }" in
           string_of_bytes mtxt ^ back ^ " # " ^ t
       | "deser" ->
           let bytes = (match rest with [ "-" ] -> [] | [ h ] -> unhexb h | _ -> []) in
           let len = List.length bytes in
           let ((ws, _), ok) = M.deserialize wb (nat_of_int cnt) bytes in
           let m = if ok then Printf.sprintf "ok %d guards-intact %s" (cnt * wi / 8) (strl ws)
                   else Printf.sprintf "fail %d guards-intact %s" len (strl (M.overlay wb old bytes)) in
           m ^ " # " ^ m
       | "deser2" ->
           let bytes = (match rest with [ h ] -> unhexb h | _ -> []) in
           let ((w1, r1), ok1) = M.deserialize wb (nat_of_int cnt) bytes in
           let ((w2, _), ok2) = M.deserialize wb (nat_of_int cnt) r1 in
           let m = Printf.sprintf "%s %s | %s %d %s" (if ok1 then "ok" else "fail") (strl w1) (if ok2 then "ok" else "fail") (2 * cnt * wi / 8) (strl w2) in
           m ^ " # " ^ m
       | "cereal_in" -> (match rest with [ h ] -> let ((ws, _), _) = M.deserialize wb (nat_of_int cnt) (unhexb h) in strl ws ^ " # " ^ strl ws | _ -> "badcase")
       | _ -> "badop # badop")
  | _ -> "badcase"

(* ------------------------------------------------------------------ C14: copy-on-write handles *)
let polyp_case_line (line : string) =
  let w = 32 and n = 8 in
  let wz = czi w in
  let (p, pn, g, ik) = row w 0 in
  let kmaxn = kmax_of w in
  let k0 = nat_of_int 2 in
  let hN = 3 in
  let st = ref (M.init : M.z list M.st) in
  let sp = ref (fun (_ : M.nat) -> (None : M.z list option)) in
  let mb = Buffer.create 256 and sb = Buffer.create 256 in
  let apply o = st := M.step !st o; sp := M.spec_step !sp o in
  let value h = (match M.abs !st (nat_of_int h) with Some v -> v | None -> failwith "empty handle") in
  let const_poly v = List.init n (fun i -> if i = 0 then zmod (czi v) p else czi 0) in
  let snapshot () =
    let cls = Hashtbl.create 7 in
    for h = 0 to hN - 1 do
      (match M.hs !st (nat_of_int h), M.abs !st (nat_of_int h) with
       | Some c, Some v ->
           let ci = int_of_nat c in
           if not (Hashtbl.mem cls ci) then Hashtbl.add cls ci (Hashtbl.length cls);
           Buffer.add_string mb (Printf.sprintf " %d:%s" (Hashtbl.find cls ci) (String.concat "," (List.map str v)))
       | _ -> Buffer.add_string mb " -");
      (match !sp (nat_of_int h) with
       | Some v -> Buffer.add_string sb (Printf.sprintf " %s" (String.concat "," (List.map str v)))
       | None -> Buffer.add_string sb " -")
    done;
    Buffer.add_string mb " |"; Buffer.add_string sb " |" in
  let ops = List.filter (fun s -> String.trim s <> "") (String.split_on_char ';' line) in
  List.iter (fun tok ->
      let t = List.filter (fun s -> s <> "") (String.split_on_char ' ' (String.trim tok)) in
      let i x = int_of_string x in
      let nat x = nat_of_int (i x) in
      (match t with
       | [ "create"; h; v ] -> apply (M.Create (nat h, const_poly (i v)))
       | [ "createl"; h; v ] -> apply (M.Create (nat h, List.init n (fun j -> if j < 3 then zmod (czi (i v + j)) p else czi 0)))
       | [ ("copyc" | "copyn" | "copya"); h; g ] -> apply (M.Copy (nat h, nat g))
       | [ ("movec" | "movea"); h; g ] -> apply (M.Move (nat h, nat g))
       | [ "write"; h; k; v ] -> apply (M.Write (nat h, fun old -> List.mapi (fun j x -> if j = i k then czi (i v) else x) old))
       | [ "read"; _; _ ] -> ()
       | [ "createbad"; _ ] -> ()                                                      (* the constructor throws: no handle, no cell *)
       | [ "setu"; h; v ] -> apply (M.Write (nat h, fun _ -> const_poly (i v)))
       | [ "setl"; h; v ] -> apply (M.Write (nat h, fun _ -> List.init n (fun j -> if j < 2 then zmod (czi (i v + j)) p else czi 0)))
       | [ "ntt"; h ] -> apply (M.Write (nat h, fun old -> M.ntt_fwd wz p g kmaxn k0 old))
       | [ "intt"; h ] -> apply (M.Write (nat h, fun old -> M.ntt_inv wz p g ik kmaxn k0 old))
       | [ "add"; h; g1; g2 ] -> let a = value (i g1) and b = value (i g2) in apply (M.Write (nat h, fun _ -> List.map2 (fun x y -> M.addmod wz p x y) a b))
       | [ "mul"; h; g1; g2 ] -> let a = value (i g1) and b = value (i g2) in apply (M.Write (nat h, fun _ -> List.map2 (fun x y -> M.mulmod_gen wz p x y) a b))
       | [ "cmp"; h; g ] ->
           let a = value (i h) and b = value (i g) in
           let e = List.for_all2 (fun x y -> Z.equal (zz_of_cz x) (zz_of_cz y)) a b in
           let s = Printf.sprintf " eq=%d,ne=%d" (if e then 1 else 0) (if e then 0 else 1) in
           Buffer.add_string mb s; Buffer.add_string sb s
       | [ ("setbad" | "nubad" | "ilbad"); h ] -> apply (M.Write (nat h, fun old -> old))       (* detach happens, then the call throws *)
       | [ "fma"; h; g1; g2 ] -> let b = value (i g1) and c = value (i g2) in
           apply (M.Write (nat h, fun old -> List.map2 (fun x bc -> M.addmod wz p x bc) old (List.map2 (fun x y -> M.mulmod_gen wz p x y) b c)))
       | [ "cload"; h; g ] -> let v = value (i g) in apply (M.Write (nat h, fun _ -> v))
       | [ "csave"; h ] -> let s = Printf.sprintf " bytes=%d" (n * w / 8) in apply (M.Write (nat h, fun old -> old)); Buffer.add_string mb s; Buffer.add_string sb s
       | [ "deserbad"; h ] ->
           apply (M.Write (nat h, fun old -> List.mapi (fun j x -> if j = 0 then czi 0x44332211 else if j = 1 then cz_of_zz (Z.logor (Z.logand (zz_of_cz x) (Z.of_int 0xFFFF0000)) (Z.of_int 0x6655)) else x) old))
       | [ "destroy"; h ] -> apply (M.Destroy (nat h))
       | _ -> Buffer.add_string mb " badop");
      ignore pn; snapshot ()) ops;
  Buffer.contents mb ^ " # " ^ Buffer.contents sb

(* ------------------------------------------------------------------ C19: randombytes under a scripted OS *)
let rb_case toks =
  let rec split acc = function "|" :: r -> (List.rev acc, r) | x :: r -> split (x :: acc) r | [] -> (List.rev acc, []) in
  let (evs, lens) = split [] toks in
  let seqn = ref 0 in
  let nextbyte () = let b = (!seqn * 7 + 3) land 255 in incr seqn; nat_of_int b in
  let ev_of s =
    if s = "OF" then M.OpenFail else if s = "OK" || s = "OK0" then M.OpenOk else if s = "RE" then M.ReadErr else if s = "RZ" then M.ReadZero
    else let c = int_of_string (String.sub s 2 (String.length s - 2)) in M.ReadData (List.init c (fun _ -> nextbyte ())) in
  (* bytes are numbered in delivery order, which is script order for the ReadData events *)
  let evl = List.map ev_of evs in
  let st0 = { M.fd_open = false; M.opens_ok = M.O; M.sleeps = M.O; M.asked = [] } in
  let b = Buffer.create 256 in
  let rec go evl st lens =
    match lens with
    | [] -> Some (st, evl)
    | l :: ls ->
        (match M.randombytes evl st (nat_of_int (int_of_string l)) with
         | None -> Buffer.add_string b "blocked "; None
         | Some ((st1, out), rest) ->
             let bytes = List.map int_of_nat out in
             if List.length bytes <= 64 then List.iter (fun x -> Buffer.add_string b (Printf.sprintf "%02x" x)) bytes
             else begin
               let h = ref (Z.of_string "1469598103934665603") and m64 = Z.pred (Z.shift_left Z.one 64) in
               List.iter (fun x -> h := Z.logand (Z.mul (Z.logxor !h (Z.of_int x)) (Z.of_string "1099511628211")) m64) bytes;
               Buffer.add_string b ("h" ^ Z.to_string !h)
             end;
             Buffer.add_string b " ";
             go rest st1 ls) in
  (match go evl st0 lens with
   | Some (st, rest) ->
       Buffer.add_string b (Printf.sprintf "| opens=%d sleeps=%d consumed=%d asked=%s" (int_of_nat st.M.opens_ok) (int_of_nat st.M.sleeps)
                              (List.length evl - List.length rest) (String.concat "" (List.map (fun a -> string_of_int (int_of_nat a) ^ ",") (List.rev st.M.asked))))
   | None -> ());
  let s = Buffer.contents b in s ^ " # " ^ s

(* ------------------------------------------------------------------ C13: random byte stream *)
(* independent, fast spec side: Salsa20/20 on native 32-bit arithmetic (cross-validated against the extracted Gallina
   Salsa20 on every request that is small enough for both) *)
let salsa_block (key : int array) (nonce : int array) (ctr : int) : Bytes.t =
  let m32 = 0xFFFFFFFF in
  let le a o = a.(o) lor (a.(o + 1) lsl 8) lor (a.(o + 2) lsl 16) lor (a.(o + 3) lsl 24) in
  let sigma = [| 0x61707865; 0x3320646e; 0x79622d32; 0x6b206574 |] in
  let inp = [| sigma.(0); le key 0; le key 4; le key 8; le key 12; sigma.(1); le nonce 0; le nonce 4; ctr land m32; (ctr lsr 32) land m32;
               sigma.(2); le key 16; le key 20; le key 24; le key 28; sigma.(3) |] in
  let x = Array.copy inp in
  let rotl v c = ((v lsl c) land m32) lor (v lsr (32 - c)) in
  let qr a b c d =
    x.(b) <- x.(b) lxor rotl ((x.(a) + x.(d)) land m32) 7;
    x.(c) <- x.(c) lxor rotl ((x.(b) + x.(a)) land m32) 9;
    x.(d) <- x.(d) lxor rotl ((x.(c) + x.(b)) land m32) 13;
    x.(a) <- x.(a) lxor rotl ((x.(d) + x.(c)) land m32) 18 in
  for _ = 1 to 10 do
    qr 0 4 8 12; qr 5 9 13 1; qr 10 14 2 6; qr 15 3 7 11;
    qr 0 1 2 3; qr 5 6 7 4; qr 10 11 8 9; qr 15 12 13 14
  done;
  let out = Bytes.create 64 in
  for i = 0 to 15 do
    let v = (x.(i) + inp.(i)) land m32 in
    for j = 0 to 3 do Bytes.set out (4 * i + j) (Char.chr ((v lsr (8 * j)) land 255)) done
  done; out
let salsa_stream key nonce len =
  let b = Buffer.create (len + 64) in
  let nb = (len + 63) / 64 in
  for c = 0 to nb - 1 do Buffer.add_bytes b (salsa_block key nonce c) done;
  Buffer.sub b 0 len

let render_bytes (b : Buffer.t) (s : string) =
  let len = String.length s in
  if len = 0 then Buffer.add_string b "-"
  else if len <= 96 then String.iter (fun ch -> Buffer.add_string b (Printf.sprintf "%02x" (Char.code ch))) s
  else begin
    let h = ref (Z.of_string "1469598103934665603") and m64 = Z.pred (Z.shift_left Z.one 64) in
    String.iter (fun ch -> h := Z.logand (Z.mul (Z.logxor !h (Z.of_int (Char.code ch))) (Z.of_string "1099511628211")) m64) s;
    Buffer.add_string b ("h" ^ Z.to_string !h)
  end;
  Buffer.add_string b " "

let prng_case toks =
  match toks with
  | ks :: lens ->
      let ks = int_of_string ks in
      let keyi = Array.init 32 (fun i -> (ks + 7 * i + 1) land 255) in
      let lensi = List.map int_of_string lens in
      (* spec: request i = first len_i bytes of the Salsa20/20 keystream under nonce LE64(i); one seeding *)
      let sb = Buffer.create 256 in
      List.iteri (fun i l -> let nonce = Array.init 8 (fun j -> (i lsr (8 * j)) land 255) in render_bytes sb (salsa_stream keyi nonce l)) lensi;
      Buffer.add_string sb (Printf.sprintf "| seedings=%d" (if lensi = [] then 0 else 1));
      (* model: the extracted generator state machine, for histories whose total size the bit-serial model can afford *)
      let total = List.fold_left (+) 0 lensi + 64 * List.length lensi in
      let ms =
        if total > 300000 then "?"
        else begin
          let oskey = List.init 32 (fun i -> czi keyi.(i)) in
          let (s', outs) = M.run_hist oskey M.g0 (List.map nat_of_int lensi) in
          let b = Buffer.create 256 in
          List.iter (fun o -> render_bytes b (String.init (List.length o) (fun i -> Char.chr (Z.to_int (zz_of_cz (List.nth o i)))))) outs;
          Buffer.add_string b (Printf.sprintf "| seedings=%d" (int_of_nat (M.g_seedings s')));
          Buffer.contents b
        end in
      ms ^ " # " ^ Buffer.contents sb
  | _ -> "badcase"

(* ------------------------------------------------------------------ C18: interleavings of the repaired generator *)
(* line: sched <T> | <len,len;len,...> | <t t t ...> *)
let conc_line (line : string) =
  match String.split_on_char '|' line with
  | [ h; progs; sched ] ->
      let tn = (match List.filter (fun s -> s <> "") (String.split_on_char ' ' (String.trim h)) with [ _; t ] -> int_of_string t | _ -> 0) in
      let plist = List.map (fun one -> List.map (fun l -> nat_of_int (int_of_string l)) (List.filter (fun s -> s <> "") (String.split_on_char ',' (String.trim one)))) (String.split_on_char ';' progs) in
      let prog (t : M.nat) = (try List.nth plist (int_of_nat t) with _ -> []) in
      let sch = List.map (fun s -> nat_of_int (int_of_string s)) (List.filter (fun s -> s <> "") (String.split_on_char ' ' (String.trim sched))) in
      let s = M.run sch (M.init0 prog) in
      let b = Buffer.create 128 in
      let incomplete = ref false in
      for t = 0 to tn - 1 do
        let th = M.thr s (nat_of_int t) in
        if th.M.todo <> [] then incomplete := true;
        Buffer.add_string b (Printf.sprintf "t%d:" t);
        List.iter (fun (n, l) -> Buffer.add_string b (Printf.sprintf " %d/%d" (int_of_nat n) (int_of_nat l))) (List.rev th.M.outs);
        Buffer.add_string b " "
      done;
      Buffer.add_string b (Printf.sprintf "| seedings=%d order=%s" (int_of_nat (M.seeds s)) (String.concat "" (List.map (fun (t, _) -> string_of_int (int_of_nat t) ^ ",") (M.log s))));
      let r = (if !incomplete then "INCOMPLETE " else "") ^ Buffer.contents b in r ^ " # " ^ r
  | _ -> "badcase"

(* ------------------------------------------------------------------ C09/C12: samplers as functions of the tape *)
(* line: <dist> <w> <n> <nm> <params..> T <hex>;  output "ok words" / "throw" (model) # spec: canonical & consistency verdict *)
let samp_case toks =
  let rec split acc = function "T" :: h :: _ -> (List.rev acc, h) | x :: r -> split (x :: acc) r | [] -> (List.rev acc, "-") in
  match toks with
  | dist :: w :: n :: nm :: rest ->
      let (prm, hex) = split [] rest in
      let wi = int_of_string w and n = int_of_string n and nm = int_of_string nm in
      let wz = czi wi in
      let ps = List.init nm (fun cm -> let (p, _, _, _) = row wi cm in p) in
      let tape = if hex = "-" then [] else unhexb hex in
      let res =
        (match dist, prm with
         | "uniform", [] -> Some (M.set_uniform wz (nat_of_int n) ps tape)
         | "bounded", [ b; a ] -> M.set_bounded wz (nat_of_int n) ps (cz b) (cz a) tape
         | "zo", [ rho ] -> Some (M.set_zo (nat_of_int n) ps (cz rho) tape)
         | "hwt", [ h ] -> (match M.set_hwt (nat_of_int n) ps (nat_of_int (int_of_string h)) tape with Some l -> Some l | None -> Some [ czi (-1) ])
         | "gauss", a :: noise -> Some (M.set_gauss wz ps (cz a) (czl noise))
         | _ -> None) in
      let m = (match res with Some l -> "ok " ^ strl l | None -> "throw") in
      (* spec verdict on the MODEL output: every word canonical, and one signed value per coefficient across the moduli *)
      let verdict =
        (match res with
         | None -> "throw"
         | Some l ->
             let arr = Array.of_list (List.map zz_of_cz l) and pz = Array.of_list (List.map zz_of_cz ps) in
             if Array.length arr <> n * nm then "badlen" else begin
               let canon = ref true and cons = ref true in
               for cm = 0 to nm - 1 do for i = 0 to n - 1 do
                 let v = arr.(cm * n + i) in
                 if Z.lt v Z.zero || Z.geq v pz.(cm) then canon := false;
                 if dist <> "uniform" then begin
                   (* signed value read off modulus 0 must explain every other modulus *)
                   let v0 = arr.(i) in let s0 = if Z.gt (Z.mul v0 (Z.of_int 2)) pz.(0) then Z.sub v0 pz.(0) else v0 in
                   if not (Z.equal (Z.erem s0 pz.(cm)) v) then cons := false
                 end
               done done;
               Printf.sprintf "canonical=%b consistent=%b" !canon !cons end) in
      m ^ " # " ^ verdict
  | _ -> "badcase"

(* ------------------------------------------------------------------ C10/C11: Gaussian sampler over a dumped barrier table *)
(* line: gn <depth> <wp> <vmin> <L> <rlen> <wbytes> B <hex,hex,...> T <hex tape>   ->  "v v v | oob=<0/1> starts=a,b,c" *)
let gauss_case toks =
  match toks with
  | [ "gn"; depth; wp; vmin; l; rlen; wbytes; "B"; bs; "T"; hex ] ->
      let wb = int_of_string wbytes in
      let wpn = int_of_string wp in
      let words_of_hex_be h = List.init (String.length h / (2 * wb)) (fun i -> czi (int_of_string ("0x" ^ String.sub h (2 * wb * i) (2 * wb)))) in
      let barriers = List.map words_of_hex_be (String.split_on_char ',' bs) in
      let bytes = if hex = "-" then [||] else Array.init (String.length hex / 2) (fun i -> int_of_string ("0x" ^ String.sub hex (2 * i) 2)) in
      let nwords = Array.length bytes / wb in
      let tape = List.init nwords (fun i -> if wb = 1 then czi bytes.(i) else czi (bytes.(2 * i) + 256 * bytes.(2 * i + 1))) in
      let (((outs, starts), oob), _) = M.get_noise (cz vmin) barriers (nat_of_int wpn) (nat_of_int (int_of_string depth)) (nat_of_int (int_of_string l)) (nat_of_int (int_of_string rlen)) tape in
      let r = Printf.sprintf "%s | oob=%d starts=%s" (strl outs) (if oob then 1 else 0) (String.concat "," (List.map (fun n -> string_of_int (int_of_nat n)) starts)) in
      r ^ " # " ^ r
  | _ -> "badcase"

let dispatch : (string * (string list -> string)) list ref = ref [ ("ops", ops_case); ("lanes", lanes_case); ("ntt", ntt_case); ("expr", expr_case); ("crt", crt_case); ("set", set_case); ("serial", serial_case); ("rb", rb_case); ("prng", prng_case); ("samp", samp_case); ("gauss", gauss_case) ]

let () =
  let family = if Array.length Sys.argv > 1 then Sys.argv.(1) else "ops" in
  let f = try List.assoc family !dispatch with Not_found -> (fun _ -> "nofamily") in
  let buf = Buffer.create (1 lsl 16) in
  (try
     while true do
       let line = input_line stdin in
       let toks = List.filter (fun s -> s <> "") (String.split_on_char ' ' (String.trim line)) in
       if toks <> [] then begin
         Buffer.add_string buf (try (if family = "polyp" then polyp_case_line line else if family = "conc" then conc_line line else f toks) with e -> "exn:" ^ Printexc.to_string e);
         Buffer.add_char buf '\n'
       end
     done
   with End_of_file -> ());
  print_string (Buffer.contents buf)
